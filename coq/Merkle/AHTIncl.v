(* AHtree.InclusionProof on the digest-log model returns the RFC 6962 audit path of the reference
   tree, which IS the honest sibling path of the completeness theorem (uniqueness of the path to a
   leaf position). *)
From V Require Import Merkle.AHT Merkle.AHTArith Merkle.AHTSpec Merkle.AHTInv.
From V Require Import Merkle.RefPath Merkle.Paths Merkle.Honest Merkle.Exact Merkle.RefEq Merkle.Main.
From Coq Require Import Lia ZifyN ZifyNat ZifyBool.
Open Scope N_scope.

Lemma tsize_leaves t : tsize t = lenN (leaves t).
Proof.
  unfold lenN. induction t as [d|l IHl r IHr]; cbn [tsize leaves]; [reflexivity|].
  rewrite app_length, IHl, IHr. lia.
Qed.

Lemma tsize_mk_tree X : X <> [] -> tsize (mk_tree X) = lenN X.
Proof. intros NE. rewrite tsize_leaves, mk_tree_leaves by exact NE. reflexivity. Qed.

Lemma lenN_1 {A} (X : list A) : lenN X = 1 -> exists x, X = [x].
Proof. unfold lenN. destruct X as [|x [|y X]]; cbn [length]; intros E; try lia. eauto. Qed.

Section Incl.
Variable H : bytes -> bytes.
Notation mth := (mth H).
Notation th := (th H).
Notation dig := (dig H).
Notation audit := (audit H).

(* ---- audit path with directions; it is a path to the leaf at position i ---- *)
Fixpoint asteps (t : tree) (i : N) : list (bool * bytes) :=
  match t with
  | Leaf _ => []
  | Node l r =>
      if i <? tsize l then asteps l i ++ [(true, th r)] else asteps r (i - tsize l) ++ [(false, th l)]
  end.

Lemma audit_asteps t : forall i, audit t i = map snd (asteps t i).
Proof.
  induction t as [d|l IHl r IHr]; intros i; cbn [RefPath.audit asteps]; [reflexivity|].
  destruct (i <? tsize l); rewrite map_app; cbn [map snd]; rewrite ?IHl, ?IHr; reflexivity.
Qed.

Lemma tsize_pos t : 1 <= tsize t.
Proof. induction t; cbn [tsize]; lia. Qed.

Lemma asteps_spath t : forall i, i < tsize t ->
  exists d pre post, spath H t (asteps t i) (Leaf d) pre post /\ lenN pre = i.
Proof.
  induction t as [d|l IHl r IHr]; intros i Li; cbn [tsize asteps] in *.
  - exists d, [], []. split; [constructor | unfold lenN; cbn; lia].
  - destruct (N.ltb_spec i (tsize l)) as [Lt|Ge].
    + destruct (IHl i Lt) as (d & pre & post & P & Lp).
      exists d, pre, (post ++ leaves r). split; [constructor; exact P | exact Lp].
    + destruct (IHr (i - tsize l)) as (d & pre & post & P & Lp); [lia|].
      exists d, (leaves l ++ pre), post. split; [constructor; exact P|].
      unfold lenN in *. rewrite app_length. rewrite tsize_leaves in *. unfold lenN in *. lia.
Qed.

(* the bottom-up path to a leaf is determined by the number of leaves to its left *)
Lemma spath_unique t s1 d1 pre1 post1 :
  spath H t s1 (Leaf d1) pre1 post1 ->
  forall s2 d2 pre2 post2, spath H t s2 (Leaf d2) pre2 post2 ->
  length pre1 = length pre2 -> s1 = s2.
Proof.
  intros P1. remember (Leaf d1) as x eqn:Ex. revert d1 Ex.
  induction P1 as [t | l r steps s pre post P IH | l r steps s pre post P IH];
    intros d1 Ex s2 d2 pre2 post2 P2 Ln; subst.
  - inversion P2; subst. reflexivity.
  - inversion P2 as [ | ? ? st' ? pre' post' P' | ? ? st' ? pre' post' P']; subst.
    + rewrite (IH d1 eq_refl _ _ _ _ P' Ln). reflexivity.
    + exfalso. apply spath_tpath, tpath_leaves in P. cbn [leaves] in P.
      rewrite app_length in Ln.
      assert (length (leaves l) = length pre + 1 + length post)%nat
        by (rewrite P, !app_length; cbn [length]; lia). lia.
  - inversion P2 as [ | ? ? st' ? pre' post' P' | ? ? st' ? pre' post' P']; subst.
    + exfalso. apply spath_tpath, tpath_leaves in P'. cbn [leaves] in P'.
      rewrite app_length in Ln.
      assert (length (leaves l) = length pre2 + 1 + length post')%nat
        by (rewrite P', !app_length; cbn [length]; lia). lia.
    + rewrite !app_length in Ln.
      rewrite (IH d1 eq_refl _ _ _ _ P'); [reflexivity | lia].
Qed.

(* the RFC audit path IS the honest level path *)
Theorem audit_is_honest (X : list bytes) (x : nat) :
  (x < length X)%nat ->
  audit (mk_tree X) (N.of_nat x) = hterms H (hsteps (length (Exact.lv0 X)) (Exact.lv0 X) x).
Proof.
  intros Lx. assert (NE : X <> []) by (destruct X; [cbn in Lx; lia | discriminate]).
  assert (LL : length (Exact.lv0 X) = length X) by (unfold Exact.lv0; apply map_length).
  destruct (asteps_spath (mk_tree X) (N.of_nat x)) as (d & pre & post & P & Lp).
  { rewrite tsize_mk_tree by exact NE. unfold lenN. lia. }
  destruct (honest_path H (length (Exact.lv0 X)) (Exact.lv0 X) x) as [post' P']; [lia | lia |].
  change (Exact.lv0 X) with (RefEq.lv0 X) in P'.
  rewrite (level_root_is_reference X NE) in P'.
  change (RefEq.lv0 X) with (Exact.lv0 X) in P'.
  destruct (nth_error X x) as [e|] eqn:Ee; [|apply nth_error_None in Ee; lia].
  rewrite (nthT_lv0 X x e Ee) in P'.
  assert (E : asteps (mk_tree X) (N.of_nat x) = hmap H (hsteps (length (Exact.lv0 X)) (Exact.lv0 X) x)).
  { eapply spath_unique; [exact P | exact P' |].
    rewrite before_lv0_length by lia. unfold lenN in Lp. lia. }
  rewrite audit_asteps, E. unfold hmap, hterms. rewrite map_map. reflexivity.
Qed.

Corollary audit_is_honest_proof (X : list bytes) (x : nat) :
  (x < length X)%nat ->
  audit (mk_tree X) (N.of_nat x) = honest_inclusion_proof H X (N.of_nat x + 1).
Proof.
  intros Lx. rewrite (audit_is_honest X x Lx). unfold honest_inclusion_proof.
  replace (N.to_nat (N.of_nat x + 1 - 1)) with x by lia. reflexivity.
Qed.

(* ---- the generator ---- *)
Lemma node_complete t k (h : nat) q : Inv H t -> 1 <= k <= size t ->
  k = q * 2 ^ N.of_nat h -> N.odd q = true ->
  node t k (N.of_nat h) = Ok (mth (slice (payloads t) (k - 2 ^ N.of_nat h) k)).
Proof.
  intros I Lk Kq Oq.
  pose proof (node_ok H t k h I Lk) as RD.
  assert (HL : highest_level k h = N.of_nat h) by (rewrite Kq; apply highest_level_odd_mult; exact Oq).
  rewrite HL in RD. rewrite RD. unfold AHTSpec.dig.
  rewrite Kq at 1. rewrite (base_odd_mult q _ Oq), <- Kq. reflexivity.
Qed.

Lemma bit_base j (h : nat) : N.testbit (j - 1) (N.of_nat h) = true ->
  exists q, base j (N.of_nat h) = q * 2 ^ N.of_nat h /\ N.odd q = true.
Proof.
  intros T. exists (N.shiftr (j - 1) (N.of_nat h)). split.
  - unfold base. apply N.shiftl_mul_pow2.
  - rewrite <- N.testbit_odd. exact T.
Qed.

Lemma inclusion_loop_ok t : Inv H t ->
  forall (h : nat) i j acc, base j (N.of_nat h) < i -> i <= j -> j <= size t ->
  inclusion_loop t h i j acc =
  Ok (audit (mk_tree (slice (payloads t) (base j (N.of_nat h)) j)) (i - 1 - base j (N.of_nat h)) ++ acc).
Proof.
  intros I. pose proof I as (Lp & _). pose proof (payloads_length t Lp) as PL.
  set (L := payloads t) in *.
  induction h as [|h IH]; intros i j acc Lb Li Lj.
  - cbn [inclusion_loop]. change (N.of_nat 0) with 0 in *. rewrite base_0 in *.
    destruct (lenN_1 (slice L (j - 1) j)) as [x Ex]; [rewrite slice_length; lia|].
    rewrite Ex. reflexivity.
  - cbn [inclusion_loop].
    pose proof (base_succ j (N.of_nat h)) as BS.
    replace (N.of_nat h + 1) with (N.of_nat (S h)) in BS by lia.
    pose proof (base_bounds j (N.of_nat h)) as BB.
    pose proof (pow2_pos (N.of_nat h)) as PP.
    destruct (N.testbit (j - 1) (N.of_nat h)) eqn:T.
    + fold (base j (N.of_nat h)). set (k := base j (N.of_nat h)) in *.
      set (b := base j (N.of_nat (S h))) in *.
      destruct (bit_base j h T) as (q & Kq & Oq). fold k in Kq.
      assert (Bk : base k (N.of_nat h) = b).
      { rewrite Kq at 1. rewrite (base_odd_mult q _ Oq), <- Kq. lia. }
      (* the reference tree over (b, j] splits at k *)
      assert (Sp : mk_tree (slice L b j) = Node (mk_tree (slice L b k)) (mk_tree (slice L k j))).
      { rewrite (slice_split L b k j) by lia. apply (mk_tree_split _ _ (N.of_nat h)).
        - rewrite slice_length by lia. lia.
        - rewrite slice_length by lia. lia. }
      assert (TS : tsize (mk_tree (slice L b k)) = 2 ^ N.of_nat h).
      { rewrite tsize_mk_tree.
        - rewrite slice_length by lia. lia.
        - intros E. apply (f_equal lenN) in E. rewrite slice_length in E by lia. cbn in E. lia. }
      rewrite Sp. cbn [RefPath.audit]. rewrite TS.
      destruct (N.leb_spec i k) as [Le|Gt].
      * destruct (N.ltb_spec (i - 1 - b) (2 ^ N.of_nat h)) as [_|Bad]; [|lia].
        unfold highest_node. rewrite (node_ok H t j h I) by lia. cbn [bind].
        rewrite (IH i k []) by lia. cbn [bind]. rewrite Bk, app_nil_r.
        fold L. unfold AHTSpec.dig. fold k. rewrite <- app_assoc. reflexivity.
      * destruct (N.ltb_spec (i - 1 - b) (2 ^ N.of_nat h)) as [Bad|_]; [lia|].
        rewrite (node_complete t k h q I) by (auto; lia). cbn [bind].
        rewrite (IH i j) by lia. fold k. fold L.
        replace (k - 2 ^ N.of_nat h) with b by lia.
        replace (i - 1 - b - 2 ^ N.of_nat h) with (i - 1 - k) by lia.
        rewrite <- app_assoc. reflexivity.
    + replace (base j (N.of_nat (S h))) with (base j (N.of_nat h)) by lia.
      apply IH; lia.
Qed.

Lemma base_top j : base j (N.of_nat (height_of j)) = 0.
Proof. apply base_big. apply size_nat_gt. Qed.

Theorem inclusion_proof_ok t i j : Inv H t -> 1 <= i -> i <= j -> j <= size t ->
  inclusion_proof t i j = Ok (honest_inclusion_proof H (firstn (N.to_nat j) (payloads t)) i).
Proof.
  intros I L1 Li Lj. pose proof I as (Lp & _). pose proof (payloads_length t Lp) as PL.
  unfold inclusion_proof.
  destruct (N.eqb_spec i 0); [lia|]. destruct (N.ltb_spec j i); [lia|]. cbn [orb].
  destruct (N.ltb_spec (size t) j); [lia|].
  rewrite inclusion_loop_ok by (rewrite ?base_top; auto; lia).
  rewrite base_top, app_nil_r, slice_0, N.sub_0_r.
  set (X := firstn (N.to_nat j) (payloads t)).
  assert (LX : length X = N.to_nat j) by (unfold X, lenN in *; rewrite firstn_length; lia).
  replace (i - 1) with (N.of_nat (N.to_nat (i - 1))) at 1 by lia.
  rewrite audit_is_honest by lia. reflexivity.
Qed.

(* the inner recursion with a claimed position 0 walks the path of leaf 1 (unreachable since the
   public InclusionProof rejects i = 0, /repo 172c7ab; kept as a fact about inclusionProof) *)
Lemma inclusion_loop_i0 t : forall (h : nat) j acc, inclusion_loop t h 0 j acc = inclusion_loop t h 1 j acc.
Proof.
  induction h as [|h IH]; intros j acc; cbn [inclusion_loop]; [reflexivity|].
  destruct (N.testbit (j - 1) (N.of_nat h)) eqn:T; [|apply IH].
  destruct (bit_base j h T) as (q & Kq & Oq). unfold base in Kq. rewrite Kq.
  pose proof (pow2_pos (N.of_nat h)). assert (q <> 0) by (intros ->; discriminate).
  assert (1 <= q * 2 ^ N.of_nat h) by nia.
  destruct (N.leb_spec 0 (q * 2 ^ N.of_nat h)); [|lia].
  destruct (N.leb_spec 1 (q * 2 ^ N.of_nat h)); [|lia].
  rewrite IH. reflexivity.
Qed.

End Incl.
