(* What the AHtree digest log is MEANT to contain: for n = 1..size, one group of digests
   digs_at L n = [ mth (payloads (base n h, n]) : h = 0 and h = r+1 for every set bit r of n-1 ],
   i.e. the leaf hash followed by the roots of the growing RFC 6962 subtrees that END at n.
   Facts about slices of the payload list, the split of the reference tree at a power of two, and
   the addressing of the concatenated groups by nodesUntil(n) + index. *)
From V Require Import Merkle.AHT Merkle.AHTArith Merkle.Levels Merkle.RefEq.
From Coq Require Import Lia ZifyN ZifyNat ZifyBool.
Open Scope N_scope.

(* ---- slices (a, b] of a list, 0-based [a, b) ---- *)
Definition slice {A} (L : list A) (a b : N) : list A :=
  firstn (N.to_nat (b - a)) (skipn (N.to_nat a) L).

Lemma firstn_plus {A} (l : list A) : forall x y, firstn (x + y) l = firstn x l ++ firstn y (skipn x l).
Proof.
  induction l as [|e l IH]; intros x y.
  - rewrite !firstn_nil, skipn_nil, firstn_nil. reflexivity.
  - destruct x as [|x]; [reflexivity|]. cbn [plus firstn skipn app]. rewrite IH. reflexivity.
Qed.

Lemma skipn_plus {A} (l : list A) : forall x y, skipn (x + y) l = skipn y (skipn x l).
Proof.
  induction l as [|e l IH]; intros x y.
  - rewrite !skipn_nil. reflexivity.
  - destruct x as [|x]; [reflexivity|]. cbn [plus skipn]. apply IH.
Qed.

Lemma slice_split {A} (L : list A) a b c : a <= b -> b <= c -> slice L a c = slice L a b ++ slice L b c.
Proof.
  intros L1 L2. unfold slice.
  replace (N.to_nat (c - a)) with (N.to_nat (b - a) + N.to_nat (c - b))%nat by lia.
  rewrite firstn_plus. f_equal. f_equal. rewrite <- skipn_plus. f_equal. lia.
Qed.

Lemma slice_length {A} (L : list A) a b : a <= b -> b <= lenN L -> lenN (slice L a b) = b - a.
Proof.
  intros L1 L2. unfold slice, lenN in *. rewrite firstn_length, skipn_length. lia.
Qed.

Lemma slice_app_l {A} (L X : list A) a b : b <= lenN L -> slice (L ++ X) a b = slice L a b.
Proof.
  intros Lb. unfold slice, lenN in *.
  destruct (N.le_gt_cases a b) as [Le|Gt].
  - rewrite skipn_app, firstn_app, skipn_length.
    replace (N.to_nat (b - a) - (length L - N.to_nat a))%nat with 0%nat by lia.
    cbn [firstn]. apply app_nil_r.
  - replace (N.to_nat (b - a)) with 0%nat by lia. reflexivity.
Qed.

Lemma slice_0 {A} (L : list A) n : slice L 0 n = firstn (N.to_nat n) L.
Proof. unfold slice. rewrite N.sub_0_r. reflexivity. Qed.

Lemma slice_firstn {A} (L : list A) k a b : b <= k -> slice (firstn (N.to_nat k) L) a b = slice L a b.
Proof.
  intros Lb. rewrite <- (firstn_skipn (N.to_nat k) L) at 2.
  destruct (N.le_gt_cases k (lenN L)) as [Lk|Gk].
  - rewrite slice_app_l; [reflexivity|]. unfold lenN in *. rewrite firstn_length. lia.
  - unfold lenN in Gk. rewrite skipn_all2 by lia. rewrite app_nil_r. reflexivity.
Qed.

Lemma slice_last {A} (L : list A) (d : A) : slice (L ++ [d]) (lenN L) (lenN L + 1) = [d].
Proof.
  unfold slice, lenN. replace (N.to_nat (N.of_nat (length L) + 1 - N.of_nat (length L))) with 1%nat by lia.
  rewrite Nnat.Nat2N.id. rewrite skipn_app, skipn_all, Nat.sub_diag. reflexivity.
Qed.

Section Spec.
Variable H : bytes -> bytes.
Notation mth := (mth H).
Notation nodeh := (nodeh H).
Notation leafh := (leafh H).

Lemma mth_single d : mth [d] = leafh d.
Proof. reflexivity. Qed.

(* RFC 6962 split at a power of two *)
Lemma mk_tree_split (A B : list bytes) (a : N) :
  lenN A = 2 ^ a -> 1 <= lenN B <= 2 ^ a ->
  mk_tree (A ++ B) = Node (mk_tree A) (mk_tree B).
Proof.
  intros LA LB. unfold lenN in *.
  pose proof (pow2_pos a) as PP.
  assert (NA : A <> []) by (intros ->; cbn in LA; lia).
  assert (NB : B <> []) by (intros ->; cbn in LB; lia).
  assert (NAB : A ++ B <> []) by (destruct A; [congruence | discriminate]).
  rewrite <- !level_root_is_reference by assumption.
  assert (P2 : (2 ^ N.to_nat a)%nat = length A).
  { rewrite <- (Nnat.Nat2N.id (length A)), LA, Nnat.N2Nat.inj_pow. reflexivity. }
  rewrite (root_split (N.to_nat a) (lv0 (A ++ B))).
  - unfold lv0. rewrite map_app. rewrite P2.
    rewrite <- (map_length Leaf A) at 1 2.
    rewrite firstn_app, Nat.sub_diag, firstn_all. cbn [firstn]. rewrite app_nil_r.
    rewrite skipn_app, Nat.sub_diag, skipn_all. reflexivity.
  - unfold lv0. rewrite map_length, app_length. cbn [Nat.pow]. rewrite P2.
    assert (length B <= length A)%nat by lia. lia.
Qed.

Lemma mth_split (A B : list bytes) (a : N) :
  lenN A = 2 ^ a -> 1 <= lenN B <= 2 ^ a -> mth (A ++ B) = nodeh (mth A) (mth B).
Proof. intros LA LB. unfold mth. rewrite (mk_tree_split A B a LA LB). reflexivity. Qed.

(* ---- the digests of group n ---- *)
Definition dig (L : list bytes) (n h : N) : bytes := mth (slice L (base n h) n).

Fixpoint digs_upto (L : list bytes) (n : N) (h : nat) : list bytes :=
  match h with
  | O => [dig L n 0]
  | S r => digs_upto L n r ++
           (if N.testbit (n - 1) (N.of_nat r) then [dig L n (N.of_nat (S r))] else [])
  end.

Definition digs_at (L : list bytes) (n : N) : list bytes := digs_upto L n (N.size_nat (n - 1)).

Lemma digs_upto_length L n : forall h, lenN (digs_upto L n h) = 1 + highest_level n h.
Proof.
  unfold lenN. induction h as [|h IH]; [reflexivity|].
  cbn [digs_upto highest_level]. rewrite app_length, Nnat.Nat2N.inj_add, IH.
  destruct (N.testbit (n - 1) (N.of_nat h)); cbn [length]; lia.
Qed.

Lemma digs_at_length L n : lenN (digs_at L n) = 1 + levels_at n.
Proof.
  unfold digs_at. rewrite digs_upto_length. rewrite (levels_at_highest n (N.size_nat (n - 1))); auto.
Qed.

Lemma dig_unset L n h : N.testbit (n - 1) h = false -> dig L n (h + 1) = dig L n h.
Proof.
  intros T. unfold dig. pose proof (base_succ n h) as B. rewrite T in B.
  replace (base n (h + 1)) with (base n h) by lia. reflexivity.
Qed.

(* index (number of set bits of n-1 below h) holds the subtree over (base n h, n] *)
Lemma digs_upto_nth L n : forall h' h, (h <= h')%nat ->
  nth_error (digs_upto L n h') (N.to_nat (highest_level n h)) = Some (dig L n (N.of_nat h)).
Proof.
  induction h' as [|h' IH]; intros h Le.
  - assert (h = 0%nat) by lia. subst h. reflexivity.
  - cbn [digs_upto]. destruct (Nat.eq_dec h (S h')) as [->|NE].
    + cbn [highest_level]. destruct (N.testbit (n - 1) (N.of_nat h')) eqn:T.
      * rewrite nth_error_app2.
        -- pose proof (digs_upto_length L n h') as Ln. unfold lenN in Ln.
           replace (N.to_nat (1 + highest_level n h') - length (digs_upto L n h'))%nat with 0%nat by lia.
           reflexivity.
        -- pose proof (digs_upto_length L n h') as Ln. unfold lenN in Ln. lia.
      * rewrite app_nil_r. rewrite N.add_0_l. rewrite (IH h') by lia.
        replace (N.of_nat (S h')) with (N.of_nat h' + 1) by lia.
        rewrite (dig_unset L n _ T). reflexivity.
    + rewrite nth_error_app1.
      * apply IH. lia.
      * pose proof (IH h ltac:(lia)) as E.
        apply nth_error_Some. rewrite E. discriminate.
Qed.

Lemma highest_level_stable n d d' :
  (N.size_nat (n - 1) <= d)%nat -> (d <= d')%nat -> highest_level n d' = highest_level n d.
Proof.
  intros L1 L2. rewrite !highest_level_pc.
  pose proof (size_nat_gt (n - 1)) as G.
  rewrite (pc_ge (n - 1) (N.size_nat (n - 1)) d' G) by lia.
  rewrite (pc_ge (n - 1) (N.size_nat (n - 1)) d G) by lia. reflexivity.
Qed.

Lemma dig_stable L n (d : nat) : (N.size_nat (n - 1) <= d)%nat -> dig L n (N.of_nat d) = mth (slice L 0 n).
Proof.
  intros L1. unfold dig. rewrite base_big; [reflexivity|].
  pose proof (size_nat_gt (n - 1)) as G.
  pose proof (pow2_mono (N.of_nat (N.size_nat (n - 1))) (N.of_nat d)). lia.
Qed.

(* for EVERY h (also above the bit length) *)
Lemma digs_at_nth L n h :
  nth_error (digs_at L n) (N.to_nat (highest_level n h)) = Some (dig L n (N.of_nat h)).
Proof.
  unfold digs_at. set (D := N.size_nat (n - 1)).
  destruct (Nat.le_gt_cases h D) as [Le|Gt].
  - apply digs_upto_nth. exact Le.
  - rewrite (highest_level_stable n D h) by (unfold D; lia).
    rewrite (digs_upto_nth L n D D) by lia.
    rewrite !dig_stable by (unfold D; lia). reflexivity.
Qed.

(* the last digest of the group is the root over the first n payloads *)
Lemma digs_at_root L n :
  nth_error (digs_at L n) (N.to_nat (levels_at n)) = Some (mth (firstn (N.to_nat n) L)).
Proof.
  rewrite (levels_at_highest n (N.size_nat (n - 1))) by lia.
  rewrite digs_at_nth, dig_stable by lia. rewrite slice_0. reflexivity.
Qed.

(* only the first n payloads matter *)
Lemma dig_app L X n h : n <= lenN L -> dig (L ++ X) n h = dig L n h.
Proof. intros Ln. unfold dig. rewrite slice_app_l by exact Ln. reflexivity. Qed.

Lemma digs_upto_app L X n : n <= lenN L -> forall h, digs_upto (L ++ X) n h = digs_upto L n h.
Proof.
  intros Ln. induction h as [|h IH]; cbn [digs_upto]; rewrite ?IH, !dig_app by exact Ln; reflexivity.
Qed.

Lemma digs_at_app L X n : n <= lenN L -> digs_at (L ++ X) n = digs_at L n.
Proof. intros Ln. apply digs_upto_app. exact Ln. Qed.

(* ---- the whole log ---- *)
Fixpoint spec_log_upto (L : list bytes) (m : nat) : list bytes :=
  match m with
  | O => []
  | S m' => spec_log_upto L m' ++ digs_at L (N.of_nat (S m'))
  end.

Definition spec_log (L : list bytes) : list bytes := spec_log_upto L (length L).

Lemma spec_log_upto_length L : forall m, lenN (spec_log_upto L m) = nodes_upto (N.of_nat m).
Proof.
  unfold lenN. induction m as [|m IH]; [reflexivity|].
  cbn [spec_log_upto]. rewrite app_length, Nnat.Nat2N.inj_add, IH.
  pose proof (digs_at_length L (N.of_nat (S m))) as D. unfold lenN in D. rewrite D.
  replace (N.of_nat (S m)) with (N.of_nat m + 1) by lia.
  rewrite nodes_upto_succ. lia.
Qed.

Lemma spec_log_upto_app L X : forall m, (m <= length L)%nat ->
  spec_log_upto (L ++ X) m = spec_log_upto L m.
Proof.
  induction m as [|m IH]; intros Lm; [reflexivity|].
  cbn [spec_log_upto]. rewrite IH by lia. rewrite digs_at_app by (unfold lenN; lia). reflexivity.
Qed.

Lemma spec_log_snoc L d :
  spec_log (L ++ [d]) = spec_log L ++ digs_at (L ++ [d]) (lenN L + 1).
Proof.
  unfold spec_log. rewrite app_length. cbn [length]. rewrite Nat.add_1_r.
  cbn [spec_log_upto]. rewrite spec_log_upto_app by lia.
  unfold lenN. replace (N.of_nat (S (length L))) with (N.of_nat (length L) + 1) by lia. reflexivity.
Qed.

(* prefixes: the log of the first k payloads is the first nodesUpto(k) entries *)
Lemma spec_log_upto_prefix L : forall m k, (k <= m)%nat ->
  firstn (N.to_nat (nodes_upto (N.of_nat k))) (spec_log_upto L m) = spec_log_upto L k.
Proof.
  induction m as [|m IH]; intros k Lk.
  - assert (k = 0%nat) by lia. subst k. reflexivity.
  - destruct (Nat.eq_dec k (S m)) as [->|NE].
    + pose proof (spec_log_upto_length L (S m)) as E. unfold lenN in E.
      rewrite <- E, Nnat.Nat2N.id. apply firstn_all.
    + cbn [spec_log_upto]. rewrite firstn_app.
      pose proof (spec_log_upto_length L m) as E. unfold lenN in E.
      rewrite IH by lia.
      pose proof (spec_log_upto_length L k) as Ek. unfold lenN in Ek.
      assert (Hle : (length (spec_log_upto L k) <= length (spec_log_upto L m))%nat).
      { rewrite <- (IH k) by lia. rewrite firstn_length. lia. }
      replace (N.to_nat (nodes_upto (N.of_nat k)) - length (spec_log_upto L m))%nat with 0%nat by lia.
      cbn [firstn]. apply app_nil_r.
Qed.

(* addressing: entry nodesUntil(n) + p of the log is entry p of group n *)
Lemma spec_log_upto_nth L : forall m n p, 1 <= n <= N.of_nat m -> p < lenN (digs_at L n) ->
  nth_error (spec_log_upto L m) (N.to_nat (nodes_until n + p)) = nth_error (digs_at L n) (N.to_nat p).
Proof.
  induction m as [|m IH]; intros n p Ln Lp; [lia|].
  cbn [spec_log_upto].
  pose proof (spec_log_upto_length L m) as E. unfold lenN in E.
  destruct (N.eq_dec n (N.of_nat (S m))) as [->|NE].
  - rewrite nodes_until_upto by lia.
    replace (N.of_nat (S m) - 1) with (N.of_nat m) by lia.
    rewrite nth_error_app2 by lia. f_equal. lia.
  - assert (Ln' : 1 <= n <= N.of_nat m) by lia.
    pose proof (IH n p Ln' Lp) as E1.
    rewrite nth_error_app1; [exact E1|].
    apply nth_error_Some. rewrite E1. apply nth_error_Some. unfold lenN in Lp. lia.
Qed.

End Spec.
