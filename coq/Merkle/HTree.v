(* embedded/htree/htree.go: BuildWith (level arrays: adjacent nodes paired, an odd last node
   promoted) and InclusionProof (the m, n, offset, l, r, layer, index arithmetic), transliterated.
   The level arrays are modelled by their MEANINGFUL content (what the last BuildWith wrote: level l
   has the nodes of that level, and the levels stop where the width reaches 1); a read outside it
   (Go: stale content of the pre-allocated arrays) is `Err EOther` — theorem htree_proof_is_audit
   shows it never happens.  Go ints: the index i is a Z (before /repo d8c31e8 a negative i passed
   the `i >= width` guard and ended in `1 << -1`: run-time panic; now it is rejected).
   No proofs in this file. *)
From V Require Export Merkle.Verify.

Section HTree.
Variable H : bytes -> bytes.
Notation nodeh := (nodeh H).
Notation leafh := (leafh H).

(* one pass of the `for w > 1` loop body: pairs, then `if w%2 == 1` the last node unchanged *)
Fixpoint upH (hs : list bytes) : list bytes :=
  match hs with
  | a :: b :: r => nodeh a b :: upH r
  | _ => hs
  end.

Fixpoint build_levels (fuel : nat) (lv : list bytes) : list (list bytes) :=
  match fuel with
  | O => [lv]
  | S f => match lv with
           | _ :: _ :: _ => lv :: build_levels f (upH lv)
           | _ => [lv]
           end
  end.

Record htree := mkHt { ht_levels : list (list bytes); ht_width : N; ht_root : bytes }.

Definition ht_build (ds : list bytes) : htree :=
  match ds with
  | [] => mkHt [] 0 (H [])                       (* t.root = sha256.Sum256(nil) *)
  | _ =>
      let lvls := build_levels (length ds) (map leafh ds) in
      mkHt lvls (lenN ds) (nth 0 (last lvls []) [])   (* t.root = t.levels[l][0] *)
  end.

Definition level_at (t : htree) (layer index : N) : res bytes :=
  match nth_error (nth (N.to_nat layer) (ht_levels t) []) (N.to_nat index) with
  | Some h => Ok h
  | None => Err EOther
  end.

(* the `for { ... }` loop of InclusionProof; terms are PREPENDED *)
Fixpoint ht_proof_loop (fuel : nat) (t : htree) (m n offset : N) (acc : list bytes) : res (list bytes) :=
  match fuel with
  | O => Err EOther
  | S f =>
      let d := N.size (n - 1) in                   (* bits.Len(uint(n - 1)) *)
      if d =? 0 then Panic else                    (* k := 1 << (d - 1) with d = 0 *)
      let k := N.shiftl 1 (d - 1) in
      let '(l, r, m', n', off') :=
        if m <? k then (offset + k, offset + n - 1, m, k, offset)
        else (offset, offset + k - 1, m - k, n - k, offset + k) in
      let layer := N.size (r - l) in               (* bits.Len(uint(r - l)) *)
      let index := l / N.shiftl 1 layer in
      do h <- level_at t layer index;
      let acc' := h :: acc in
      if (n' <? 1) || ((n' =? 1) && (m' =? 0)) then Ok acc'
      else ht_proof_loop f t m' n' off' acc'
  end.


(* since /repo d8c31e8: `if i < 0 || i >= t.width { return nil, ErrIllegalArguments }` *)
Definition ht_inclusion_proof (t : htree) (i : Z) : res (list bytes) :=
  if (i <? 0)%Z || (Z.of_N (ht_width t) <=? i)%Z then Err EIllegalArguments else
  if ht_width t =? 1 then Ok [] else
  ht_proof_loop (N.to_nat (ht_width t)) t (Z.to_N i) (ht_width t) 0 [].

End HTree.
