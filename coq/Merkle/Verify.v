(* The proof verifiers of embedded/ahtree/verification.go and embedded/htree/htree.go,
   transliterated (1-based i, j; the i-1 / j-1 shifts; one shift per proof term). *)
From V Require Export Merkle.Ref Base.Hex.

Section Verify.
Variable H : bytes -> bytes.
Notation nodeh := (nodeh H).
Notation leafh := (leafh H).

(* ---- ahtree.EvalInclusion / VerifyInclusion ---- *)
Fixpoint eval_inclusion (terms : list bytes) (i1 j1 : N) (c : bytes) : bytes :=
  match terms with
  | [] => c
  | h :: r =>
      let c' := if N.even i1 && negb (i1 =? j1) then nodeh c h else nodeh h c in
      eval_inclusion r (N.div2 i1) (N.div2 j1) c'
  end.

Definition lenN {A} (l : list A) : N := N.of_nat (length l).

(* ahtree.inclusionProofLen(i, j): number of terms of the inclusion proof of leaf i in the tree of
   size j. The two Go loops (count the levels until i1 = j1, then count the set bits of what is left
   of j1) are fused: once i1 = j1 the pair stays equal under the shifts. fuel = bit length of j1 + 2. *)
Fixpoint incl_len_f (fuel : nat) (i1 j1 : N) : N :=
  match fuel with
  | O => 0
  | S f =>
      if i1 =? j1 then
        if j1 =? 0 then 0
        else (if N.odd j1 then 1 else 0) + incl_len_f f (N.div2 i1) (N.div2 j1)
      else 1 + incl_len_f f (N.div2 i1) (N.div2 j1)
  end.
Definition fuel_for (j1 : N) : nat := S (S (N.to_nat (N.log2 j1))).
Definition inclusion_proof_len (i j : N) : N := incl_len_f (fuel_for (j - 1)) (i - 1) (j - 1).

Definition verify_inclusion (terms : list bytes) (i j : N) (ileaf jroot : bytes) : bool :=
  if (j <? i) || (i =? 0) || ((i <? j) && (lenN terms =? 0)) then false else
  if negb (lenN terms =? inclusion_proof_len i j) then false else
  bytes_eqb jroot (eval_inclusion terms (i - 1) (j - 1) ileaf).

(* ---- ahtree.EvalLastInclusion / VerifyLastInclusion ---- *)
Fixpoint eval_last_inclusion (terms : list bytes) (c : bytes) : bytes :=
  match terms with
  | [] => c
  | h :: r => eval_last_inclusion r (nodeh h c)
  end.

Definition verify_last_inclusion (terms : list bytes) (i : N) (leaf root : bytes) : bool :=
  if (i =? 0) || negb (lenN terms =? inclusion_proof_len i i) then false
  else bytes_eqb root (eval_last_inclusion terms leaf).

(* ---- ahtree.EvalConsistency / VerifyConsistency ---- *)
Fixpoint strip_odd (fuel : nat) (fn sn : N) : N * N :=
  match fuel with
  | O => (fn, sn)
  | S f => if N.odd fn then strip_odd f (N.div2 fn) (N.div2 sn) else (fn, sn)
  end.
Fixpoint strip_even (fuel : nat) (fn sn : N) : N * N :=
  match fuel with
  | O => (fn, sn)
  | S f => if N.even fn && negb (fn =? 0) then strip_even f (N.div2 fn) (N.div2 sn) else (fn, sn)
  end.

Fixpoint cons_loop (terms : list bytes) (fn sn : N) (ci cj : bytes) : bytes * bytes :=
  match terms with
  | [] => (ci, cj)
  | h :: r =>
      if N.odd fn || (fn =? sn) then
        let '(fn', sn') := strip_even (S (N.size_nat fn)) fn sn in
        cons_loop r (N.div2 fn') (N.div2 sn') (nodeh h ci) (nodeh h cj)
      else
        cons_loop r (N.div2 fn) (N.div2 sn) ci (nodeh cj h)
  end.

(* cproof[0] on an empty proof is a Go panic; VerifyConsistency's guards exclude it *)
Definition eval_consistency (cproof : list bytes) (i j : N) : res (bytes * bytes) :=
  match cproof with
  | [] => Panic
  | c0 :: r =>
      let '(fn, sn) := strip_odd (S (N.size_nat (i - 1))) (i - 1) (j - 1) in
      Ok (cons_loop r fn sn c0 c0)
  end.

Definition verify_consistency (cproof : list bytes) (i j : N) (iroot jroot : bytes) : res bool :=
  if (j <? i) || (i =? 0) || ((i <? j) && (lenN cproof =? 0)) then Ok false else
  if (i =? j) && (lenN cproof =? 0) then Ok (bytes_eqb iroot jroot) else
  do r <- eval_consistency cproof i j;
  Ok (bytes_eqb iroot (fst r) && bytes_eqb jroot (snd r)).

(* ---- htree.VerifyInclusion (entry tree of a transaction) ----
   Leaf and Width are Go ints: `%` is Z.rem and `/` is Z.quot (truncation toward zero), so a
   Width of 0 gives r = -1 and r/2 = 0. *)
Fixpoint htree_eval (terms : list bytes) (i r : Z) (c : bytes) : bytes * Z * Z :=
  match terms with
  | [] => (c, i, r)
  | t :: rest =>
      let c' := if (Z.rem i 2 =? 0)%Z && negb (i =? r)%Z then nodeh c t else nodeh t c in
      htree_eval rest (Z.quot i 2) (Z.quot r 2) c'
  end.

Definition htree_verify_inclusion (leaf width : Z) (terms : list bytes) (digest root : bytes) : bool :=
  if (leaf <? 0)%Z || (width <=? leaf)%Z then false else
  let '(c, i, r) := htree_eval terms leaf (width - 1)%Z (leafh digest) in
  (i =? r)%Z && bytes_eqb root c.

End Verify.
