(* Executable SHA-256 (FIPS 180-4). Used only to RUN the models against the Go code (roots, Alh
   values and proofs must be byte-identical); every theorem is stated for an abstract hash
   function. Words are Coq primitive 63-bit integers (Uint63, evaluated natively by vm_compute);
   validated against crypto/sha256 by the correspondence runs (cases CSha) and the NIST vector below. *)
From V Require Import Base.Bytes.
From Coq Require Import Uint63.

Local Open Scope uint63_scope.

Definition m32 : int := 4294967295.
Definition add32 (a b : int) : int := (a + b) land m32.
Definition rotr (n x : int) : int := (x >> n) lor ((x << (32 - n)) land m32).
Definition not32 (x : int) : int := x lxor m32.

Definition Ch x y z := (x land y) lxor ((not32 x) land z).
Definition Maj x y z := ((x land y) lxor (x land z)) lxor (y land z).
Definition S0 x := ((rotr 2 x) lxor (rotr 13 x)) lxor (rotr 22 x).
Definition S1 x := ((rotr 6 x) lxor (rotr 11 x)) lxor (rotr 25 x).
Definition s0 x := ((rotr 7 x) lxor (rotr 18 x)) lxor (x >> 3).
Definition s1 x := ((rotr 17 x) lxor (rotr 19 x)) lxor (x >> 10).

Definition K : list int := [
 0x428a2f98; 0x71374491; 0xb5c0fbcf; 0xe9b5dba5; 0x3956c25b; 0x59f111f1; 0x923f82a4; 0xab1c5ed5;
 0xd807aa98; 0x12835b01; 0x243185be; 0x550c7dc3; 0x72be5d74; 0x80deb1fe; 0x9bdc06a7; 0xc19bf174;
 0xe49b69c1; 0xefbe4786; 0x0fc19dc6; 0x240ca1cc; 0x2de92c6f; 0x4a7484aa; 0x5cb0a9dc; 0x76f988da;
 0x983e5152; 0xa831c66d; 0xb00327c8; 0xbf597fc7; 0xc6e00bf3; 0xd5a79147; 0x06ca6351; 0x14292967;
 0x27b70a85; 0x2e1b2138; 0x4d2c6dfc; 0x53380d13; 0x650a7354; 0x766a0abb; 0x81c2c92e; 0x92722c85;
 0xa2bfe8a1; 0xa81a664b; 0xc24b8b70; 0xc76c51a3; 0xd192e819; 0xd6990624; 0xf40e3585; 0x106aa070;
 0x19a4c116; 0x1e376c08; 0x2748774c; 0x34b0bcb5; 0x391c0cb3; 0x4ed8aa4a; 0x5b9cca4f; 0x682e6ff3;
 0x748f82ee; 0x78a5636f; 0x84c87814; 0x8cc70208; 0x90befffa; 0xa4506ceb; 0xbef9a3f7; 0xc67178f2].

Definition H0 : list int := [0x6a09e667; 0xbb67ae85; 0x3c6ef372; 0xa54ff53a; 0x510e527f; 0x9b05688c; 0x1f83d9ab; 0x5be0cd19].

Definition nth_i (n : nat) (l : list int) : int := nth n l 0.

(* message schedule kept newest-first: wr = [W(t-1); W(t-2); ...] *)
Fixpoint sched (n : nat) (wr : list int) : list int :=
  match n with
  | O => wr
  | S n' =>
      let w := add32 (add32 (s1 (nth_i 1 wr)) (nth_i 6 wr)) (add32 (s0 (nth_i 14 wr)) (nth_i 15 wr)) in
      sched n' (w :: wr)
  end.

Definition b2i (b : N) : int := of_Z (Z.of_N b).

Fixpoint words (b : bytes) (n : nat) : list int :=
  match n with
  | O => []
  | S n' =>
      match b with
      | b0 :: b1 :: b2 :: b3 :: r =>
          ((b2i b0 << 24) lor (b2i b1 << 16) lor (b2i b2 << 8) lor b2i b3) :: words r n'
      | _ => []
      end
  end.

Definition round (st : list int) (kw : int * int) : list int :=
  match st with
  | [a; b; c; d; e; f; g; h] =>
      let t1 := add32 (add32 (add32 h (S1 e)) (add32 (Ch e f g) (fst kw))) (snd kw) in
      let t2 := add32 (S0 a) (Maj a b c) in
      [add32 t1 t2; a; b; c; add32 d t1; e; f; g]
  | _ => st
  end.

Definition compress (hs : list int) (block : bytes) : list int :=
  let w := rev (sched 48 (rev (words block 16))) in
  let st := fold_left round (combine K w) hs in
  map (fun p => add32 (fst p) (snd p)) (combine hs st).

Fixpoint blocks (fuel : nat) (hs : list int) (b : bytes) : list int :=
  match fuel with
  | O => hs
  | S f => match b with
           | [] => hs
           | _ => blocks f (compress hs (firstn 64 b)) (skipn 64 b)
           end
  end.

Definition pad (msg : bytes) : bytes :=
  let l := length msg in
  let k := Nat.modulo (64 - Nat.modulo (l + 9) 64) 64 in
  msg ++ [128%N] ++ repeat 0%N k ++ be_enc 8 (8 * N.of_nat l)%N.

Definition i2bytes (w : int) : bytes :=
  [Z.to_N (to_Z ((w >> 24) land 255)); Z.to_N (to_Z ((w >> 16) land 255));
   Z.to_N (to_Z ((w >> 8) land 255)); Z.to_N (to_Z (w land 255))].

Definition sha256 (msg : bytes) : bytes :=
  let p := pad msg in
  concat (map i2bytes (blocks (S (Nat.div (length p) 64)) H0 p)).

Example sha256_abc :
  sha256 [97; 98; 99]%N = [186;120;22;191;143;1;207;234;65;65;64;222;93;174;34;35;176;3;97;163;150;23;122;156;180;16;255;97;242;0;21;173]%N.
Proof. vm_compute. reflexivity. Qed.
