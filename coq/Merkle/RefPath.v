(* Reference audit path (RFC 6962 PATH, bottom-up) on the reference tree. *)
From V Require Export Merkle.Verify.

Fixpoint tsize (t : tree) : N :=
  match t with Leaf _ => 1 | Node l r => tsize l + tsize r end.

Section RefPath.
Variable H : bytes -> bytes.

Fixpoint audit (t : tree) (i : N) : list bytes :=
  match t with
  | Leaf _ => []
  | Node l r =>
      if i <? tsize l then audit l i ++ [th H r] else audit r (i - tsize l) ++ [th H l]
  end.

(* inclusion proof of leaf i (1-based) in the tree over the first j payloads *)
Definition ref_inclusion_proof (payloads : list bytes) (i j : N) : list bytes :=
  audit (mk_tree (takeN j payloads)) (i - 1).

End RefPath.
