(* ahtree.VerifyConsistency AS IT IS IN /repo since 05f2785 ("rejects proofs whose length is not the
   one determined by the two sizes"): after the `i == j && len(cproof) == 0` case the number of terms
   must be consistencyProofLen(i, j), a pure function of i and j that follows the recursion of
   AHtree.consistencyProof.  `verify_consistency_fixed` is THE model of the current verifier (tied by
   the CVerCons cases); `Verify.verify_consistency` is the pre-fix function, kept only for the
   refutation witnesses (Refuted.v, RefutedFixed.v) and the partial theorems about it.  Model only. *)
From V Require Export Merkle.Verify.

(* func consistencyProofLenAt(i, j, height): `fuel` is the loop variable h+1 *)
Fixpoint cons_len_f (fuel : nat) (i j : N) : N :=
  match fuel with
  | O => 0
  | S h =>
      let hN := N.of_nat h in
      if N.testbit (j - 1) hN then
        let k := N.shiftl (N.shiftr (j - 1) hN) hN in
        if i <=? k then
          1 + (if i <? k then cons_len_f h i k else 0) + (if i =? k then 1 else 0)
        else
          1 + (if i =? j then 1 else cons_len_f h i j)
      else cons_len_f h i j
  end.

(* bits.Len64(j-1) *)
Definition consistency_proof_len (i j : N) : N := cons_len_f (N.size_nat (j - 1)) i j.

Section VerifyFixed.
Variable H : bytes -> bytes.

Definition verify_consistency_fixed (cproof : list bytes) (i j : N) (iroot jroot : bytes) : res bool :=
  if (j <? i) || (i =? 0) || ((i <? j) && (lenN cproof =? 0)) then Ok false else
  if (i =? j) && (lenN cproof =? 0) then Ok (bytes_eqb iroot jroot) else
  if negb (lenN cproof =? consistency_proof_len i j) then Ok false else
  do r <- eval_consistency H cproof i j;
  Ok (bytes_eqb iroot (fst r) && bytes_eqb jroot (snd r)).

End VerifyFixed.
