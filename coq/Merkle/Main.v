(* C08 main theorems stated against the reference tree hash mth H L = th H (mk_tree L). *)
From V Require Import Merkle.Verify Merkle.Sound Merkle.Honest Merkle.Exact Merkle.RefEq.
From Coq Require Import Lia.

Section Main.
Variable H : bytes -> bytes.
Hypothesis H_len : forall x, length (H x) = 32%nat.

Lemma mth_level (L : list bytes) : L <> [] -> mth H L = th H (root (Exact.lv0 L)).
Proof.
  intros Hne. unfold mth. change (Exact.lv0 L) with (RefEq.lv0 L).
  rewrite (level_root_is_reference L Hne). reflexivity.
Qed.

(* the honest inclusion proof for leaf i (1-based) of the tree over L *)
Definition honest_inclusion_proof (L : list bytes) (i : N) : list bytes :=
  hterms H (hsteps (length (Exact.lv0 L)) (Exact.lv0 L) (N.to_nat (i - 1))).

Theorem ahtree_inclusion_sound_exact (L : list bytes) (terms : list bytes) (i j : N) (d : bytes) :
  L <> [] -> j = N.of_nat (length L) -> len32 terms ->
  verify_inclusion H terms i j (leafh H d) (mth H L) = true ->
  (nth_error L (N.to_nat (i - 1)) = Some d /\ (1 <= i <= j)%N) \/ Collision H.
Proof.
  intros Hne Hj F V. rewrite (mth_level L Hne) in V.
  eapply inclusion_sound_exact; eauto.
Qed.

Theorem ahtree_inclusion_complete (L : list bytes) (i j : N) (d : bytes) :
  L <> [] -> j = N.of_nat (length L) -> (1 <= i)%N -> nth_error L (N.to_nat (i - 1)) = Some d ->
  verify_inclusion H (honest_inclusion_proof L i) i j (leafh H d) (mth H L) = true.
Proof.
  intros Hne Hj Hi Hd. rewrite (mth_level L Hne). apply inclusion_complete; auto.
Qed.

End Main.
