(* AHtree.ConsistencyProof on the digest-log model: (1) it never fails and is a function of the
   payloads (cons_ref); (2) for i < j its result is  th S :: siblings  where S is the complete
   subtree of 2^t leaves ending at i (i = q 2^t, q odd) and the siblings are those on the path
   from S up to the root of the reference tree over the first j payloads. *)
From V Require Import Merkle.AHT Merkle.AHTArith Merkle.AHTSpec Merkle.AHTInv Merkle.AHTIncl.
From V Require Import Merkle.Paths.
From Coq Require Import Lia ZifyN ZifyNat ZifyBool.
Open Scope N_scope.

Section Cons.
Variable H : bytes -> bytes.
Notation mth := (mth H).
Notation th := (th H).
Notation dig := (dig H).

(* the generator, reading the MEANT digests *)
Fixpoint cons_ref (L : list bytes) (fuel : nat) (i j : N) (acc : list bytes) : list bytes :=
  match fuel with
  | O => acc
  | S h =>
      let hN := N.of_nat h in
      if N.testbit (j - 1) hN then
        let k := base j hN in
        if i <=? k then
          let acc1 := dig L j hN :: acc in
          let acc2 := if i <? k then cons_ref L h i k [] ++ acc1 else acc1 in
          if i =? k then mth (slice L (k - 2 ^ hN) k) :: acc2 else acc2
        else
          let acc1 := mth (slice L (k - 2 ^ hN) k) :: acc in
          if i =? j then dig L i hN :: acc1 else cons_ref L h i j acc1
      else cons_ref L h i j acc
  end.

(* no condition on i: every read is addressed through j and k *)
Lemma consistency_loop_ok t : Inv H t ->
  forall (h : nat) i j acc, 1 <= j -> j <= size t ->
  consistency_loop t h i j acc = Ok (cons_ref (payloads t) h i j acc).
Proof.
  intros I. set (L := payloads t).
  induction h as [|h IH]; intros i j acc L1 Lj; cbn [consistency_loop cons_ref]; [reflexivity|].
  destruct (N.testbit (j - 1) (N.of_nat h)) eqn:T; [|apply IH; assumption].
  fold (base j (N.of_nat h)). set (k := base j (N.of_nat h)).
  destruct (bit_base j h T) as (q & Kq & Oq). fold k in Kq.
  pose proof (base_bounds j (N.of_nat h)) as BB. fold k in BB.
  pose proof (pow2_pos (N.of_nat h)) as PP.
  assert (q <> 0) by (intros ->; discriminate).
  assert (K1 : 1 <= k) by nia.
  assert (Bk : base k (N.of_nat h) = k - 2 ^ N.of_nat h)
    by (rewrite Kq at 1; rewrite (base_odd_mult q _ Oq), <- Kq; reflexivity).
  destruct (N.leb_spec i k) as [Le|Gt].
  - unfold highest_node at 1. rewrite (node_ok H t j h I) by lia. cbn [bind]. fold L.
    destruct (N.ltb_spec i k) as [Lt|Ge].
    + rewrite (IH i k []) by lia. cbn [bind].
      destruct (N.eqb_spec i k); [lia|]. reflexivity.
    + cbn [bind]. destruct (N.eqb_spec i k) as [E|NE]; [|reflexivity].
      unfold highest_node. rewrite E. rewrite (node_ok H t k h I) by lia. cbn [bind]. fold L.
      unfold AHTSpec.dig at 1. rewrite Bk. reflexivity.
  - rewrite (node_complete H t k h q I) by (auto; lia). cbn [bind]. fold L.
    destruct (N.eqb_spec i j) as [E|NE].
    + unfold highest_node. rewrite E. rewrite (node_ok H t j h I) by lia. reflexivity.
    + apply IH; assumption.
Qed.

Theorem consistency_proof_ok t i j : Inv H t -> 1 <= i -> i <= j -> j <= size t ->
  consistency_proof t i j = Ok (cons_ref (payloads t) (height_of j) i j []).
Proof.
  intros I L1 Li Lj. unfold consistency_proof.
  destruct (N.eqb_spec i 0); [lia|]. destruct (N.ltb_spec j i); [lia|]. cbn [orb].
  destruct (N.ltb_spec (size t) j); [lia|]. apply consistency_loop_ok; [assumption | lia | assumption].
Qed.

(* ---- for i < j: seed and sibling path ---- *)
Lemma slice_nonempty (L : list bytes) a b : a < b -> b <= lenN L -> slice L a b <> [].
Proof.
  intros Lt Lb E. apply (f_equal lenN) in E. rewrite slice_length in E by lia. cbn in E. lia.
Qed.

Lemma cons_ref_spath (L : list bytes) : forall (h : nat) i j,
  base j (N.of_nat h) < i -> i < j -> j <= lenN L ->
  exists (t : nat) q steps pre post,
    i = q * 2 ^ N.of_nat t /\ N.odd q = true /\ base j (N.of_nat h) + 2 ^ N.of_nat t <= i /\
    (forall acc, cons_ref L h i j acc =
                 mth (slice L (i - 2 ^ N.of_nat t) i) :: map snd steps ++ acc) /\
    spath H (mk_tree (slice L (base j (N.of_nat h)) j)) steps
          (mk_tree (slice L (i - 2 ^ N.of_nat t) i)) pre post /\
    lenN pre = i - 2 ^ N.of_nat t - base j (N.of_nat h).
Proof.
  induction h as [|h IH]; intros i j Lb Li Lj.
  - change (N.of_nat 0) with 0 in Lb. rewrite base_0 in Lb. lia.
  - pose proof (base_succ j (N.of_nat h)) as BS.
    replace (N.of_nat h + 1) with (N.of_nat (S h)) in BS by lia.
    pose proof (base_bounds j (N.of_nat h)) as BB.
    pose proof (pow2_pos (N.of_nat h)) as PP.
    cbn [cons_ref].
    destruct (N.testbit (j - 1) (N.of_nat h)) eqn:T.
    + set (k := base j (N.of_nat h)) in *. set (b := base j (N.of_nat (S h))) in *.
      destruct (bit_base j h T) as (qk & Kq & Oq). fold k in Kq.
      assert (Bk : base k (N.of_nat h) = b)
        by (rewrite Kq at 1; rewrite (base_odd_mult qk _ Oq), <- Kq; lia).
      assert (Sp : mk_tree (slice L b j) = Node (mk_tree (slice L b k)) (mk_tree (slice L k j))).
      { rewrite (slice_split L b k j) by lia. apply (mk_tree_split _ _ (N.of_nat h)).
        - rewrite slice_length by lia. lia.
        - rewrite slice_length by lia. lia. }
      rewrite Sp.
      assert (DB : dig L j (N.of_nat h) = th (mk_tree (slice L k j))) by reflexivity.
      destruct (N.leb_spec i k) as [Le|Gt].
      * destruct (N.ltb_spec i k) as [Lt|Ge].
        -- (* i inside the left (complete) half: recursive proof, then the right half *)
           destruct (IH i k) as (t & q & steps & pre & post & Ei & Oq' & Lo & Eq & P & Lp); [lia | lia | lia |].
           rewrite Bk in *.
           exists t, q, (steps ++ [(true, th (mk_tree (slice L k j)))]), pre, (post ++ leaves (mk_tree (slice L k j))).
           split; [exact Ei|]. split; [exact Oq'|]. split; [lia|]. split; [|split; [constructor; exact P | exact Lp]].
           intros acc. destruct (N.eqb_spec i k); [lia|].
           rewrite (Eq []), app_nil_r, DB, map_app. cbn [map snd app]. rewrite <- !app_assoc. reflexivity.
        -- (* i = k: the seed is the left half itself *)
           assert (Eik : i = k) by lia. subst i.
           exists h, qk, ([] ++ [(true, th (mk_tree (slice L k j)))]), [], ([] ++ leaves (mk_tree (slice L k j))).
           split; [exact Kq|]. split; [exact Oq|]. split; [lia|]. split; [|split].
           ++ intros acc. rewrite N.eqb_refl. rewrite DB. reflexivity.
           ++ replace (k - 2 ^ N.of_nat h) with b by lia. constructor. constructor.
           ++ unfold lenN. cbn. lia.
      * (* i in the right half: its left sibling is the complete left half *)
        destruct (N.eqb_spec i j); [lia|].
        destruct (IH i j) as (t & q & steps & pre & post & Ei & Oq' & Lo & Eq & P & Lp); [lia | lia | lia |].
        fold k in Lo, P, Lp.
        exists t, q, (steps ++ [(false, th (mk_tree (slice L b k)))]), (leaves (mk_tree (slice L b k)) ++ pre), post.
        split; [exact Ei|]. split; [exact Oq'|]. split; [lia|]. split; [|split; [constructor; exact P|]].
        -- intros acc. rewrite Eq, map_app. cbn [map snd app]. rewrite <- !app_assoc. cbn [app].
           replace (k - 2 ^ N.of_nat h) with b by lia. reflexivity.
        -- pose proof (slice_nonempty L b k ltac:(lia) ltac:(lia)) as NE.
           pose proof (slice_length L b k ltac:(lia) ltac:(lia)) as SL.
           unfold lenN in *. rewrite app_length.
           rewrite mk_tree_leaves by exact NE. lia.
    + replace (base j (N.of_nat (S h))) with (base j (N.of_nat h)) by lia.
      apply IH; lia.
Qed.

End Cons.
