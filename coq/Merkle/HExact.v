(* Position-exact soundness and completeness of htree.VerifyInclusion (Go ints: Z with rem/quot,
   final `i == r` test) against the reference tree over the digest list, when Width = |ds|.
   For 0 <= Leaf < Width the Z arithmetic is the nat arithmetic of Honest.v. *)
From V Require Import Merkle.Verify Merkle.Sound Merkle.Honest Merkle.Exact Merkle.RefEq Merkle.Main.
From Coq Require Import Lia Arith ZArith ZifyN ZifyNat ZifyBool.

Lemma Z_rem2_of_nat x : (Z.rem (Z.of_nat x) 2 =? 0)%Z = Nat.even x.
Proof.
  rewrite Z.rem_mod_nonneg by lia.
  destruct (Nat.even x) eqn:E.
  - apply Nat.even_spec in E. destruct E as [k ->]. apply Z.eqb_eq.
    rewrite Nat2Z.inj_mul. change (Z.of_nat 2) with 2%Z. rewrite Z.mul_comm. apply Z.mod_mul. lia.
  - assert (O : Nat.odd x = true) by (rewrite <- Nat.negb_even, E; reflexivity).
    apply Nat.odd_spec in O. destruct O as [k ->]. apply Z.eqb_neq.
    rewrite Nat2Z.inj_add, Nat2Z.inj_mul. change (Z.of_nat 2) with 2%Z. change (Z.of_nat 1) with 1%Z.
    rewrite Z.add_comm, Z.mul_comm, Z.mod_add by lia. cbv. discriminate.
Qed.

Lemma Z_quot2_of_nat x : Z.quot (Z.of_nat x) 2 = Z.of_nat (Nat.div2 x).
Proof.
  rewrite Z.quot_div_nonneg by lia. rewrite Nat.div2_div. rewrite Nat2Z.inj_div. reflexivity.
Qed.

Lemma Z_eqb_of_nat x y : (Z.of_nat x =? Z.of_nat y)%Z = (x =? y)%nat.
Proof.
  destruct (Nat.eqb_spec x y) as [->|NE]; [apply Z.eqb_refl|]. apply Z.eqb_neq. lia.
Qed.

Section HExact.
Variable H : bytes -> bytes.
Hypothesis H_len : forall x, length (H x) = 32%nat.
Notation Collision := (Collision H).
Notation th := (th H).
Notation leafh := (leafh H).
Notation climb := (climb H).

(* the Go-int loop on non-negative operands is the nat loop *)
Lemma htree_eval_nat terms : forall x j c,
  htree_eval H terms (Z.of_nat x) (Z.of_nat j) c =
  (climb (combine (vdirs (length terms) x j) terms) c,
   Z.of_nat (halve (length terms) x), Z.of_nat (halve (length terms) j)).
Proof.
  induction terms as [|t r IH]; intros x j c; [reflexivity|].
  cbn [htree_eval length vdirs combine halve].
  rewrite Z_rem2_of_nat, Z_eqb_of_nat, !Z_quot2_of_nat, IH. reflexivity.
Qed.

Theorem htree_inclusion_sound_exact_level (ds terms : list bytes) (leaf width : Z) (d : bytes) :
  width = Z.of_nat (length ds) -> len32 terms ->
  htree_verify_inclusion H leaf width terms d (th (root (Exact.lv0 ds))) = true ->
  (nth_error ds (Z.to_nat leaf) = Some d /\ (0 <= leaf < width)%Z) \/ Collision.
Proof.
  intros Hw F V. unfold htree_verify_inclusion in V.
  destruct ((leaf <? 0)%Z || (width <=? leaf)%Z) eqn:G; [discriminate|].
  apply orb_false_elim in G as [G1 G2]. apply Z.ltb_ge in G1. apply Z.leb_gt in G2.
  set (x := Z.to_nat leaf). set (j := (length ds - 1)%nat).
  assert (Ex : leaf = Z.of_nat x) by (unfold x; lia).
  assert (Ej : (width - 1)%Z = Z.of_nat j) by (unfold j; lia).
  rewrite Ex, Ej, htree_eval_nat in V.
  apply andb_prop in V as [V1 V2]. apply Z.eqb_eq in V1. apply Nat2Z.inj in V1.
  apply list_eqb_eq in V2.
  assert (HL : length ds = S j) by (unfold j; lia).
  assert (Hx : (x <= j)%nat) by (unfold x, j; lia).
  destruct (incl_exact_nat H H_len ds terms x j d HL Hx F V1 (eq_sym V2)) as [E|C].
  - left. split; [exact E | lia].
  - right. exact C.
Qed.

Theorem htree_inclusion_complete_level (ds : list bytes) (x : nat) (d : bytes) :
  nth_error ds x = Some d ->
  htree_verify_inclusion H (Z.of_nat x) (Z.of_nat (length ds))
    (hterms H (hsteps (length (Exact.lv0 ds)) (Exact.lv0 ds) x)) d (th (root (Exact.lv0 ds))) = true.
Proof.
  intros Hd.
  assert (Hx : (x < length ds)%nat) by (apply nth_error_Some; congruence).
  set (j := (length ds - 1)%nat).
  assert (HL : length ds = S j) by (unfold j; lia).
  destruct (incl_complete_nat H H_len ds x j d HL Hd) as [E Hh].
  set (terms := hterms H (hsteps (length (Exact.lv0 ds)) (Exact.lv0 ds) x)) in *.
  unfold htree_verify_inclusion.
  destruct (Z.ltb_spec (Z.of_nat x) 0); [lia|].
  destruct (Z.leb_spec (Z.of_nat (length ds)) (Z.of_nat x)); [lia|]. cbn [orb].
  replace (Z.of_nat (length ds) - 1)%Z with (Z.of_nat j) by lia.
  rewrite htree_eval_nat. rewrite Hh, Z.eqb_refl. cbn [andb]. rewrite E. apply bytes_eqb_refl.
Qed.

(* ---- against the reference tree hash ---- *)
Theorem htree_inclusion_sound_exact (ds terms : list bytes) (leaf width : Z) (d : bytes) :
  width = Z.of_nat (length ds) -> len32 terms ->
  htree_verify_inclusion H leaf width terms d (mth H ds) = true ->
  (nth_error ds (Z.to_nat leaf) = Some d /\ (0 <= leaf < width)%Z) \/ Collision.
Proof.
  intros Hw F V. destruct ds as [|e ds].
  - (* Width = 0: the guard rejects *)
    unfold htree_verify_inclusion in V. subst width. cbn [length Z.of_nat] in V.
    destruct (Z.ltb_spec leaf 0); [discriminate|].
    destruct (Z.leb_spec 0 leaf); [discriminate | lia].
  - rewrite (mth_level H (e :: ds)) in V by discriminate.
    eapply htree_inclusion_sound_exact_level; eauto.
Qed.

Theorem htree_inclusion_complete (ds : list bytes) (x : nat) (d : bytes) :
  nth_error ds x = Some d ->
  htree_verify_inclusion H (Z.of_nat x) (Z.of_nat (length ds))
    (honest_inclusion_proof H ds (N.of_nat x + 1)) d (mth H ds) = true.
Proof.
  intros Hd. assert (Hne : ds <> []) by (destruct ds; [destruct x; discriminate | discriminate]).
  rewrite (mth_level H ds Hne). unfold honest_inclusion_proof.
  replace (N.to_nat (N.of_nat x + 1 - 1)) with x by lia.
  apply htree_inclusion_complete_level. exact Hd.
Qed.

End HExact.

(* premises satisfiable: the honest proof for the second of three digests is accepted *)
Example htree_complete_premises_sat : nth_error [[1]; [2]; [3]] 1 = Some [2].
Proof. reflexivity. Qed.
