(* Root-to-node paths in hash trees: bottom-up (as verifiers climb) and top-down views,
   prepending a step at the bottom, uniqueness of the path to a leaf position. *)
From V Require Export Merkle.Levels.
From Coq Require Import Lia.

Section Paths.
Variable H : bytes -> bytes.
Notation th := (th H).
Notation climb := (climb H).

(* bottom-up path without the prefix-tree index of path_in *)
Inductive spath : tree -> list (bool * bytes) -> tree -> list bytes -> list bytes -> Prop :=
| spath_nil t : spath t [] t [] []
| spath_left l r steps s pre post :
    spath l steps s pre post ->
    spath (Node l r) (steps ++ [(true, th r)]) s pre (post ++ leaves r)
| spath_right l r steps s pre post :
    spath r steps s pre post ->
    spath (Node l r) (steps ++ [(false, th l)]) s (leaves l ++ pre) post.

Lemma path_in_spath t steps s pre post u : path_in H t steps s pre post u -> spath t steps s pre post.
Proof. induction 1; constructor; auto. Qed.

(* climbing along a path from the hash of its bottom node gives the hash of the root *)
Lemma spath_climb t steps s pre post : spath t steps s pre post -> climb steps (th s) = th t.
Proof.
  induction 1 as [t | l r steps s pre post _ IH | l r steps s pre post _ IH]; auto.
  - rewrite climb_app, IH. reflexivity.
  - rewrite climb_app, IH. reflexivity.
Qed.

(* extend a path downwards into the children of its bottom node *)
Lemma spath_down_left t steps a b pre post :
  spath t steps (Node a b) pre post -> spath t ((true, th b) :: steps) a pre (leaves b ++ post).
Proof.
  intros P. remember (Node a b) as s eqn:Es. revert a b Es.
  induction P as [t | l r steps s pre post P IH | l r steps s pre post P IH]; intros a b Es; subst.
  - pose proof (spath_left a b [] a [] [] (spath_nil a)) as X. simpl in X.
    rewrite app_nil_r. exact X.
  - specialize (IH a b eq_refl).
    pose proof (spath_left l r _ _ _ _ IH) as X. simpl in X.
    rewrite <- app_assoc in X. exact X.
  - specialize (IH a b eq_refl).
    pose proof (spath_right l r _ _ _ _ IH) as X. simpl in X. exact X.
Qed.

Lemma spath_down_right t steps a b pre post :
  spath t steps (Node a b) pre post -> spath t ((false, th a) :: steps) b (pre ++ leaves a) post.
Proof.
  intros P. remember (Node a b) as s eqn:Es. revert a b Es.
  induction P as [t | l r steps s pre post P IH | l r steps s pre post P IH]; intros a b Es; subst.
  - pose proof (spath_right a b [] b [] [] (spath_nil b)) as X. simpl in X.
    rewrite app_nil_r in X. exact X.
  - specialize (IH a b eq_refl).
    pose proof (spath_left l r _ _ _ _ IH) as X. simpl in X. exact X.
  - specialize (IH a b eq_refl).
    pose proof (spath_right l r _ _ _ _ IH) as X. simpl in X.
    rewrite app_assoc in X. exact X.
Qed.

(* top-down view: directions from the root (true = go left) *)
Inductive tpath : tree -> list bool -> tree -> list bytes -> list bytes -> Prop :=
| tpath_nil t : tpath t [] t [] []
| tpath_l l r ds s pre post :
    tpath l ds s pre post -> tpath (Node l r) (true :: ds) s pre (post ++ leaves r)
| tpath_r l r ds s pre post :
    tpath r ds s pre post -> tpath (Node l r) (false :: ds) s (leaves l ++ pre) post.

Lemma spath_tpath t steps s pre post :
  spath t steps s pre post -> tpath t (rev (map fst steps)) s pre post.
Proof.
  induction 1 as [t | l r steps s pre post _ IH | l r steps s pre post _ IH].
  - constructor.
  - rewrite map_app, rev_app_distr. simpl. constructor; auto.
  - rewrite map_app, rev_app_distr. simpl. constructor; auto.
Qed.

Lemma tpath_leaves t ds s pre post : tpath t ds s pre post -> leaves t = pre ++ leaves s ++ post.
Proof.
  induction 1 as [t | l r ds s pre post _ IH | l r ds s pre post _ IH]; simpl.
  - rewrite app_nil_r; auto.
  - rewrite IH. rewrite <- !app_assoc. reflexivity.
  - rewrite IH. rewrite <- !app_assoc. reflexivity.
Qed.

(* the path to a leaf is determined by the number of leaves to its left *)
Lemma tpath_unique t ds1 d1 pre1 post1 :
  tpath t ds1 (Leaf d1) pre1 post1 ->
  forall ds2 d2 pre2 post2, tpath t ds2 (Leaf d2) pre2 post2 ->
  length pre1 = length pre2 -> ds1 = ds2 /\ d1 = d2.
Proof.
  intros P1. remember (Leaf d1) as s1 eqn:E1. revert d1 E1.
  induction P1 as [t | l r ds s pre post P IH | l r ds s pre post P IH]; intros d1 E1 ds2 d2 pre2 post2 P2 L; subst.
  - inversion P2; subst. split; auto.
  - inversion P2 as [ | ? ? ds' ? pre' post' P' | ? ? ds' ? pre' post' P']; subst.
    + destruct (IH d1 eq_refl _ _ _ _ P' L) as [-> ->]. auto.
    + apply tpath_leaves in P. simpl in P.
      rewrite app_length in L. assert (length (leaves l) = length pre + 1 + length post)
        by (rewrite P, !app_length; simpl; lia). lia.
  - inversion P2 as [ | ? ? ds' ? pre' post' P' | ? ? ds' ? pre' post' P']; subst.
    + apply tpath_leaves in P'. simpl in P'.
      rewrite app_length in L. assert (length (leaves l) = length pre2 + 1 + length post')
        by (rewrite P', !app_length; simpl; lia). lia.
    + rewrite !app_length in L.
      destruct (IH d1 eq_refl _ _ _ _ P') as [-> ->]; [lia | auto].
Qed.

End Paths.
