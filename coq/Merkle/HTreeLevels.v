(* htree level arrays: level t of BuildWith holds the hashes of the nodes of level t of the level
   construction (upn), each of which is the REFERENCE tree over its own leaves; the root is mth. *)
From V Require Import Merkle.Verify Merkle.Sound Merkle.Honest Merkle.Exact Merkle.RefEq Merkle.Main.
From V Require Import Merkle.AHTArith Merkle.AHTSpec Merkle.ConsPath Merkle.HTree.
From Coq Require Import Lia Arith ZifyN ZifyNat ZifyBool.
Open Scope nat_scope.

(* ---- more about upper levels ---- *)
Lemma upn_S t ts : upn (S t) ts = upn t (upT ts).
Proof. reflexivity. Qed.

Lemma upn_length_gt t : forall ts x, x * 2 ^ t < length ts -> x < length (upn t ts).
Proof.
  induction t as [|t IH]; intros ts x L; cbn [upn]; [cbn in L; lia|].
  apply IH. rewrite upT_length, Nat.div2_div. cbn [Nat.pow] in L.
  apply Nat.div_le_lower_bound; lia.
Qed.

Lemma upn_length_lt t : forall ts, 1 <= length ts -> (length (upn t ts) - 1) * 2 ^ t < length ts.
Proof.
  induction t as [|t IH]; intros ts L; cbn [upn]; [cbn; lia|].
  pose proof (IH (upT ts) (upT_nonempty ts L)) as I.
  rewrite upT_length, Nat.div2_div in I. cbn [Nat.pow].
  set (a := length (upn t (upT ts)) - 1) in *. set (P := 2 ^ t) in *.
  assert (a * P < (S (length ts)) / 2) by exact I.
  assert ((S (length ts)) / 2 * 2 <= S (length ts)) by (pose proof (Nat.div_mod (S (length ts)) 2); lia).
  nia.
Qed.

Lemma lvs_upn t : forall ts, lvs (upn t ts) = lvs ts.
Proof. induction t as [|t IH]; intros ts; cbn [upn]; [reflexivity|]. rewrite IH. apply upT_lvs. Qed.

Lemma before_all ts : before ts (length ts) = lvs ts.
Proof. unfold before. rewrite firstn_all. reflexivity. Qed.

Lemma upn_len_dec t : forall ts, (forall t', t' < t -> 2 <= length (upn t' ts)) -> length (upn t ts) + t <= length ts.
Proof.
  induction t as [|t IH]; intros ts A; cbn [upn]; [lia|].
  pose proof (A 0 ltac:(lia)) as A0. cbn [upn] in A0.
  pose proof (upT_length_lt ts A0).
  assert (A' : forall t', t' < t -> 2 <= length (upn t' (upT ts))) by (intros t' Lt; apply (A (S t')); lia).
  specialize (IH (upT ts) A'). lia.
Qed.

Section Levels.
Variable H : bytes -> bytes.
Notation th := (th H).
Notation mth := (mth H).

Lemma upH_map ts : upH H (map th ts) = map th (upT ts).
Proof. induction ts as [| a | a b r IH] using pair_ind; cbn [upT map upH]; rewrite ?IH; reflexivity. Qed.

(* level t of the arrays, as long as every lower level still had two nodes *)
Lemma build_levels_nth : forall t fuel ts,
  (forall t', t' < t -> 2 <= length (upn t' ts)) -> t <= fuel ->
  nth t (build_levels H fuel (map th ts)) [] = map th (upn t ts).
Proof.
  induction t as [|t IH]; intros fuel ts A Lf.
  - cbn [upn]. destruct fuel; cbn [build_levels]; [reflexivity|].
    destruct (map th ts) as [|x [|y l]]; reflexivity.
  - destruct fuel as [|f]; [lia|].
    pose proof (A 0 ltac:(lia)) as A0. cbn [upn] in A0.
    destruct ts as [|a [|b r]]; cbn [length] in A0; try lia.
    cbn [build_levels map]. cbn [nth].
    change (th a :: th b :: map th r) with (map th (a :: b :: r)). rewrite upH_map.
    rewrite IH; [reflexivity | | lia].
    intros t' Lt. apply (A (S t')). lia.
Qed.

Lemma build_levels_last : forall fuel ts,
  last (build_levels H fuel (map th ts)) [] = map th (build fuel ts).
Proof.
  induction fuel as [|f IH]; intros ts; cbn [build_levels build]; [reflexivity|].
  destruct ts as [|a [|b r]]; cbn [map]; try reflexivity.
  change (th a :: th b :: map th r) with (map th (a :: b :: r)). rewrite upH_map.
  cbn [last]. destruct (build_levels H f (map th (upT (a :: b :: r)))) eqn:E.
  - destruct f; cbn [build_levels] in E; [discriminate|]. destruct (map th (upT (a :: b :: r))) as [|? [|? ?]]; discriminate.
  - rewrite <- E. apply IH.
Qed.

Lemma lv0_leafh ds : map (leafh H) ds = map th (Exact.lv0 ds).
Proof. unfold Exact.lv0. rewrite map_map. reflexivity. Qed.

Theorem htree_root_is_mth (ds : list bytes) : ds <> [] -> ht_root (ht_build H ds) = mth ds.
Proof.
  intros NE. destruct ds as [|d0 ds']; [congruence|].
  cbn [ht_build ht_root]. set (ds := d0 :: ds') in *. rewrite lv0_leafh, build_levels_last.
  rewrite (mth_level H ds NE).
  assert (LL : length ds = length (Exact.lv0 ds)) by (unfold Exact.lv0; rewrite map_length; reflexivity).
  rewrite LL. unfold root, nthT.
  destruct (build (length (Exact.lv0 ds)) (Exact.lv0 ds)) as [|x l] eqn:E; [|reflexivity].
  exfalso. assert (X : 1 <= length (build (length (Exact.lv0 ds)) (Exact.lv0 ds))).
  { generalize (length (Exact.lv0 ds)) at 1 as f. intros f.
    assert (G : forall f ts, 1 <= length ts -> 1 <= length (build f ts)).
    { induction f0 as [|f0 IHf]; intros ts L; cbn [build]; [exact L|].
      destruct ts as [|a [|b r]]; cbn [length] in *; try lia. apply IHf. cbn [upT length]. lia. }
    apply G. rewrite <- LL. cbn. lia. }
  rewrite E in X. cbn in X. lia.
Qed.

(* ---- every node of every level is the reference tree over its leaves ---- *)
Lemma subtree_is_mk : forall (n : nat) (X : list bytes), length X = n -> X <> [] ->
  forall steps s pre post u, path_in H (mk_tree X) steps s pre post u -> s = mk_tree (leaves s).
Proof.
  induction n as [n IHn] using lt_wf_ind. intros X Ln NE steps s pre post u P.
  destruct (mk_tree_cases H X NE) as [[d ->]|(A & B & a & -> & LA & LB)].
  - change (mk_tree [d]) with (Leaf d) in P. inversion P; subst. reflexivity.
  - assert (NA : A <> []) by (intros ->; cbn in LA; pose proof (pow2_pos a); lia).
    assert (NB : B <> []) by (intros ->; cbn in LB; lia).
    pose proof (mk_tree_split A B a LA LB) as Sp. rewrite Sp in P.
    rewrite app_length in Ln. unfold lenN in *.
    assert (0 < length A) by (destruct A; [congruence | cbn; lia]).
    assert (0 < length B) by (destruct B; [congruence | cbn; lia]).
    inversion P as [ | ? ? st' ? pre' post' u' P' | ? ? st' ? pre' post' u' P']; subst.
    + rewrite <- Sp. rewrite mk_tree_leaves; [reflexivity|]. destruct A; [congruence | discriminate].
    + apply (IHn (length A)) with (X := A) (steps := st') (pre := pre) (post := post') (u := u); auto; lia.
    + apply (IHn (length B)) with (X := B) (steps := st') (pre := pre') (post := post) (u := u'); auto; lia.
Qed.

Lemma middle_is_slice {A} (X pre mid post : list A) :
  X = pre ++ mid ++ post -> mid = firstn (length mid) (skipn (length pre) X).
Proof.
  intros ->. rewrite skipn_app, skipn_all, Nat.sub_diag. cbn [skipn app].
  rewrite firstn_app, Nat.sub_diag, firstn_all. cbn [firstn]. symmetry. apply app_nil_r.
Qed.

Theorem level_node (X : list bytes) (t x : nat) :
  x < length (upn t (Exact.lv0 X)) ->
  let s := nthT (upn t (Exact.lv0 X)) x in
  s = mk_tree (leaves s) /\
  leaves s = firstn (Nat.min ((S x) * 2 ^ t) (length X) - x * 2 ^ t) (skipn (x * 2 ^ t) X).
Proof.
  intros Lx s. set (ts := upn t (Exact.lv0 X)) in *.
  assert (LL : length (Exact.lv0 X) = length X) by (unfold Exact.lv0; apply map_length).
  assert (L0 : 1 <= length (Exact.lv0 X)).
  { destruct X; [cbn in Lx|cbn; lia]. unfold ts in Lx.
    assert (G : forall t, length (upn t (@nil tree)) = 0) by (induction t0; cbn; auto). cbn in Lx. rewrite G in Lx. lia. }
  assert (NX : X <> []) by (intros ->; cbn in L0; lia).
  destruct (honest_path H (length ts) ts x (le_n _) Lx) as [post P].
  unfold ts in P at 1. rewrite (root_upn t _ L0) in P.
  change (Exact.lv0 X) with (RefEq.lv0 X) in P at 1. rewrite (level_root_is_reference X NX) in P.
  fold s in P.
  destruct (spath_path_in H _ _ _ _ _ P) as [u PI].
  split; [apply (subtree_is_mk (length X) X eq_refl NX _ _ _ _ _ PI)|].
  pose proof (spath_leaves H _ _ _ _ _ P) as SL. rewrite mk_tree_leaves in SL by exact NX.
  pose proof (upn_length_lt t (Exact.lv0 X) L0) as UL. fold ts in UL. rewrite LL in UL.
  set (Pw := 2 ^ t) in *.
  assert (Lxp : x * Pw < length X) by nia.
  assert (B1 : length (before ts x) = x * Pw).
  { unfold ts, Pw. rewrite before_upn by (rewrite LL; fold Pw; lia). apply before_lv0_length. fold Pw. lia. }
  assert (B2 : length (before ts x) + length (leaves s) = Nat.min (S x * Pw) (length X)).
  { pose proof (before_S ts x Lx) as BS. fold s in BS. apply (f_equal (@length bytes)) in BS.
    rewrite app_length in BS. rewrite <- BS.
    destruct (Nat.le_gt_cases (S x * Pw) (length X)) as [Le|Gt].
    - unfold ts, Pw. rewrite before_upn by (rewrite LL; fold Pw; exact Le).
      rewrite before_lv0_length by (fold Pw; exact Le). fold Pw. lia.
    - assert (ESx : S x = length ts) by nia.
      replace (before ts (S x)) with (before ts (length ts)) by (f_equal; symmetry; exact ESx).
      rewrite before_all. unfold ts. rewrite lvs_upn, lvs_lv0. lia. }
  rewrite (middle_is_slice X _ _ _ SL) at 1. rewrite B1. f_equal. lia.
Qed.

(* what InclusionProof reads: levels[t][x], for a level that BuildWith wrote *)
Theorem level_at_ok (ds : list bytes) (t x : nat) :
  ds <> [] -> 2 ^ t <= length ds -> x * 2 ^ t < length ds ->
  level_at (ht_build H ds) (N.of_nat t) (N.of_nat x) =
  Ok (mth (firstn (Nat.min ((S x) * 2 ^ t) (length ds) - x * 2 ^ t) (skipn (x * 2 ^ t) ds))).
Proof.
  intros NE Lt Lx. destruct ds as [|d0 ds']; [congruence|].
  unfold level_at. cbn [ht_build ht_levels]. set (ds := d0 :: ds') in *. rewrite !Nnat.Nat2N.id.
  assert (LL : length (Exact.lv0 ds) = length ds) by (unfold Exact.lv0; apply map_length).
  assert (Built : forall t', t' < t -> 2 <= length (upn t' (Exact.lv0 ds))).
  { intros t' Lt'. apply upn_length_ge. rewrite LL.
    assert (2 * 2 ^ t' <= 2 ^ t).
    { replace t with (S t' + (t - S t')) by lia. rewrite Nat.pow_add_r. cbn [Nat.pow].
      pose proof (Nat.pow_nonzero 2 (t - S t') ltac:(lia)). nia. }
    lia. }
  rewrite lv0_leafh, build_levels_nth; [|exact Built|].
  - assert (Lxx : x < length (upn t (Exact.lv0 ds))) by (apply upn_length_gt; rewrite LL; exact Lx).
    rewrite nth_error_map. unfold nthT in *.
    rewrite (nth_error_nth' _ dflt Lxx). cbn [option_map].
    destruct (level_node ds t x Lxx) as [E1 E2]. cbv zeta in E1, E2. unfold nthT in E1, E2.
    rewrite E1, E2. reflexivity.
  - pose proof (upn_len_dec t (Exact.lv0 ds) Built). pose proof (upn_nonempty t (Exact.lv0 ds) ltac:(rewrite LL; cbn; lia)). lia.
Qed.

End Levels.
