(* ahtree.VerifyLastInclusion(p, i, leaf, root) IS ahtree.VerifyInclusion(p, i, i, leaf, root), for
   all inputs: with i1 = j1 every step hashes the term on the left, and both verifiers pin the
   length to inclusionProofLen(i, i).  Hence exact soundness and completeness of the last-inclusion
   verifier are instances of the inclusion theorems. *)
From V Require Import Merkle.Verify Merkle.Sound Merkle.Exact Merkle.Main.
From V Require Import Merkle.AHT Merkle.AHTInv Merkle.AHTMain.
From Coq Require Import Lia ZifyN ZifyNat ZifyBool.
Open Scope N_scope.

Section LastIncl.
Variable H : bytes -> bytes.
Hypothesis H_len : forall x, length (H x) = 32%nat.

Lemma eval_inclusion_same terms : forall x c,
  eval_inclusion H terms x x c = eval_last_inclusion H terms c.
Proof.
  induction terms as [|h r IH]; intros x c; cbn [eval_inclusion eval_last_inclusion]; [reflexivity|].
  rewrite N.eqb_refl. cbn [negb]. rewrite andb_false_r. apply IH.
Qed.

Theorem last_is_inclusion (terms : list bytes) (i : N) (leaf root : bytes) :
  verify_last_inclusion H terms i leaf root = verify_inclusion H terms i i leaf root.
Proof.
  unfold verify_last_inclusion, verify_inclusion.
  rewrite N.ltb_irrefl. cbn [orb andb]. rewrite orb_false_r.
  destruct (i =? 0); [reflexivity|]. cbn [orb].
  destruct (negb (lenN terms =? inclusion_proof_len i i)); [reflexivity|].
  rewrite eval_inclusion_same. reflexivity.
Qed.

(* exact soundness against the genuine (size, root): the accepted payload is THE last one and the
   claimed i is the size *)
Theorem last_inclusion_sound_exact (L : list bytes) (terms : list bytes) (i : N) (d : bytes) :
  L <> [] -> i = N.of_nat (length L) -> len32 terms ->
  verify_last_inclusion H terms i (leafh H d) (mth H L) = true ->
  nth_error L (N.to_nat (i - 1)) = Some d \/ Collision H.
Proof.
  intros NE Ei F V. rewrite last_is_inclusion in V.
  destruct (ahtree_inclusion_sound_exact H H_len L terms i i d NE Ei F V) as [[E _]|C]; auto.
Qed.

(* completeness on the tree: InclusionProof(i, i) verifies with VerifyLastInclusion against RootAt(i) *)
Theorem aht_last_inclusion_proof_verifies (ops : list aop) (i : N) (d : bytes) :
  let t := aht_run H ops in
  1 <= i -> i <= size t ->
  nth_error (final_payloads ops) (N.to_nat (i - 1)) = Some d ->
  exists p r, inclusion_proof t i i = Ok p /\ root_at t i = Ok r /\
              verify_last_inclusion H p i (leafh H d) r = true.
Proof.
  intros t L1 Li Hd.
  destruct (aht_inclusion_proof_verifies H H_len ops i i d L1 (N.le_refl i) Li Hd) as (p & r & Ep & Er & V).
  exists p, r. split; [exact Ep|]. split; [exact Er|]. rewrite last_is_inclusion. exact V.
Qed.

End LastIncl.
