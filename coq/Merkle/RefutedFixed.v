(* The witnesses of consistency_exact_refuted (and the second formerly known inexact acceptance) were
   accepted by the PRE-FIX verifier `verify_consistency` and are REJECTED by the current one
   (`verify_consistency_fixed`, /repo 05f2785); evaluated with the executable SHA-256. *)
From V Require Import Merkle.Verify Merkle.VerifyFixed Merkle.Sha256 Merkle.Refuted.

Example fixed_rejects_witness_1_2 :
  verify_consistency sha256 [R2] 1 2 R2 R2 = Ok true /\
  verify_consistency_fixed sha256 [R2] 1 2 R2 R2 = Ok false.
Proof. split; vm_compute; reflexivity. Qed.

Definition l1 := leafh sha256 [1]. Definition l2 := leafh sha256 [2].
Definition l3 := leafh sha256 [3]. Definition l4 := leafh sha256 [4].
Definition H01 := nodeh sha256 l1 l2.
Definition R3 := mth sha256 [[1]; [2]; [3]].
Definition R4 := mth sha256 [[1]; [2]; [3]; [4]].

(* old root of size 3 accepted as size 2 by the code as it stands, rejected after the repair *)
Example fixed_rejects_witness_2_4 :
  verify_consistency sha256 [l3; l4; H01] 2 4 R3 R4 = Ok true /\
  verify_consistency_fixed sha256 [l3; l4; H01] 2 4 R3 R4 = Ok false.
Proof. split; vm_compute; reflexivity. Qed.
