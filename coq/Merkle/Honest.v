(* The honest inclusion path through the level construction, and the arithmetic of the verifier's
   direction rule (i even and i <> j, both halved per term).  nat indices (0-based). *)
From V Require Export Merkle.Paths.
From Coq Require Import Lia Arith.

Open Scope nat_scope.

(* honest steps for the node at index x of level ts: (running value is the LEFT child?, sibling) *)
Fixpoint hsteps (fuel : nat) (ts : list tree) (x : nat) : list (bool * tree) :=
  match fuel with
  | O => []
  | S f =>
      let j := length ts - 1 in
      if j =? 0 then []
      else if (x =? j) && Nat.even j then hsteps f (upT ts) (Nat.div2 x)
      else (if Nat.even x then (true, nthT ts (x + 1)) else (false, nthT ts (x - 1)))
             :: hsteps f (upT ts) (Nat.div2 x)
  end.

(* the verifier's direction rule on nat indices *)
Fixpoint vdirs (m : nat) (i j : nat) : list bool :=
  match m with
  | O => []
  | S m' => (Nat.even i && negb (i =? j)) :: vdirs m' (Nat.div2 i) (Nat.div2 j)
  end.

Fixpoint halve (m : nat) (x : nat) : nat :=
  match m with O => x | S m' => halve m' (Nat.div2 x) end.

(* nat version of ahtree.inclusionProofLen (see Verify.incl_len_f) *)
Fixpoint ilen (fuel : nat) (x j : nat) : nat :=
  match fuel with
  | O => 0
  | S f =>
      if x =? j then
        if j =? 0 then 0
        else (if Nat.odd j then 1 else 0) + ilen f (Nat.div2 x) (Nat.div2 j)
      else 1 + ilen f (Nat.div2 x) (Nat.div2 j)
  end.

Lemma even_div2 x : Nat.even x = true -> 2 * Nat.div2 x = x.
Proof.
  intros E. apply Nat.even_spec in E. destruct E as [k ->].
  rewrite Nat.div2_double. reflexivity.
Qed.
Lemma odd_div2 x : Nat.even x = false -> 2 * Nat.div2 x + 1 = x.
Proof.
  intros E. assert (O : Nat.odd x = true) by (rewrite <- Nat.negb_even, E; reflexivity).
  apply Nat.odd_spec in O. destruct O as [k ->].
  replace (2 * k + 1) with (S (2 * k)) by lia. rewrite Nat.div2_succ_double. lia.
Qed.
Lemma div2_le x y : x <= y -> Nat.div2 x <= Nat.div2 y.
Proof.
  intros L. rewrite !Nat.div2_div. apply Nat.div_le_mono; lia.
Qed.

Lemma upT_last ts j : length ts = S j -> length (upT ts) - 1 = Nat.div2 j.
Proof.
  intros L. rewrite upT_length, L. cbn [Nat.div2].
  destruct j as [|j]; simpl; lia.
Qed.

Lemma upT_nonempty ts : 1 <= length ts -> 1 <= length (upT ts).
Proof. destruct ts as [|a [|b r]]; simpl; lia. Qed.

Lemma vdirs_eq m : forall x, vdirs m x x = repeat false m.
Proof.
  induction m as [|m IH]; intros x; simpl; auto.
  rewrite Nat.eqb_refl, andb_false_r, IH. reflexivity.
Qed.

Lemma halve_eq m : forall x y, x = y -> halve m x = halve m y.
Proof. intros; subst; auto. Qed.

Section Honest.
Variable H : bytes -> bytes.
Notation th := (th H).

Definition hmap (hs : list (bool * tree)) : list (bool * bytes) :=
  map (fun s => (fst s, th (snd s))) hs.

(* E1: the honest steps really are the path from the root down to node x, and the leaves to its
   left are exactly those of the nodes before it *)
Lemma honest_path fuel : forall ts x,
  length ts <= fuel -> x < length ts ->
  exists post, spath H (root ts) (hmap (hsteps fuel ts x)) (nthT ts x) (before ts x) post.
Proof.
  induction fuel as [|f IH]; intros ts x Hf Hx; [lia|].
  cbn [hsteps]. destruct (Nat.eqb_spec (length ts - 1) 0) as [E0|N0].
  - assert (x = 0) by lia. subst.
    destruct ts as [|a [|b r]]; simpl in *; try lia.
    exists []. unfold root, nthT, before, lvs. simpl. constructor.
  - assert (H2 : 2 <= length ts) by lia.
    pose proof (upT_length_lt ts H2) as Hlt.
    rewrite (root_step ts H2).
    set (j := length ts - 1) in *. assert (Lj : length ts = S j) by lia.
    assert (Hx2 : Nat.div2 x < length (upT ts)).
    { pose proof (upT_last ts j Lj). pose proof (div2_le x j). pose proof (upT_nonempty ts). lia. }
    destruct (IH (upT ts) (Nat.div2 x)) as [post P]; [lia | exact Hx2 |].
    destruct ((x =? j) && Nat.even j) eqn:Epr.
    + (* promoted last node *)
      apply andb_prop in Epr as [Ex Ee]. apply Nat.eqb_eq in Ex. subst x.
      rewrite (upT_promote ts j Lj Ee) in P.
      rewrite before_upT_even in P by (rewrite (even_div2 j Ee); lia).
      rewrite (even_div2 j Ee) in P. exists post. exact P.
    + (* a real pair *)
      assert (Hpair : 2 * Nat.div2 x + 1 < length ts).
      { destruct (Nat.even x) eqn:Ex.
        - pose proof (even_div2 x Ex).
          destruct (Nat.eqb_spec x j) as [->|Nx]; [simpl in Epr; congruence | lia].
        - pose proof (odd_div2 x Ex). lia. }
      rewrite (upT_pair ts _ Hpair) in P.
      rewrite before_upT_even in P by lia.
      destruct (Nat.even x) eqn:Ex.
      * pose proof (even_div2 x Ex) as E2. rewrite E2 in P.
        replace (x + 1) with (2 * Nat.div2 x + 1) by lia. rewrite E2.
        exists (leaves (nthT ts (x + 1)) ++ post).
        cbn [hmap map fst snd]. apply spath_down_left. exact P.
      * pose proof (odd_div2 x Ex) as E2. rewrite E2 in P.
        replace (x - 1) with (2 * Nat.div2 x) by lia.
        exists post. cbn [hmap map fst snd].
        replace (before ts x) with (before ts (2 * Nat.div2 x) ++ leaves (nthT ts (2 * Nat.div2 x))).
        { apply spath_down_right. exact P. }
        rewrite <- before_S by lia. f_equal. lia.
Qed.

(* the honest directions are the ones the verifier computes from (x, last index) *)
Lemma hsteps_last_false fuel : forall ts,
  1 <= length ts -> Forall (fun s => fst s = false) (hsteps fuel ts (length ts - 1)).
Proof.
  induction fuel as [|f IH]; intros ts H1; cbn [hsteps]; [constructor|].
  destruct (Nat.eqb_spec (length ts - 1) 0); [constructor|].
  set (j := length ts - 1) in *. assert (Lj : length ts = S j) by lia.
  pose proof (upT_last ts j Lj) as UL.
  assert (H1' : 1 <= length (upT ts)) by (rewrite upT_length, Lj; cbn [Nat.div2]; lia).
  rewrite Nat.eqb_refl. cbn [andb].
  destruct (Nat.even j) eqn:Ee.
  - rewrite <- UL. apply IH; auto.
  - constructor; [reflexivity|]. rewrite <- UL. apply IH; auto.
Qed.

Lemma hsteps_dirs fuel : forall ts x,
  length ts <= fuel -> x < length ts ->
  map fst (hsteps fuel ts x) = vdirs (length (hsteps fuel ts x)) x (length ts - 1).
Proof.
  induction fuel as [|f IH]; intros ts x Hf Hx; [lia|].
  cbn [hsteps]. destruct (Nat.eqb_spec (length ts - 1) 0) as [E0|N0]; [reflexivity|].
  assert (H2 : 2 <= length ts) by lia.
  pose proof (upT_length_lt ts H2) as Hlt.
  set (j := length ts - 1) in *. assert (Lj : length ts = S j) by lia.
  pose proof (upT_last ts j Lj) as UL.
  assert (Hx2 : Nat.div2 x < length (upT ts)) by (pose proof (div2_le x j); pose proof (upT_nonempty ts); lia).
  destruct ((x =? j) && Nat.even j) eqn:Epr.
  - apply andb_prop in Epr as [Ex Ee]. apply Nat.eqb_eq in Ex. subst x.
    rewrite vdirs_eq.
    assert (F : Forall (fun s => fst s = false) (hsteps f (upT ts) (Nat.div2 j))).
    { rewrite <- UL. apply hsteps_last_false. lia. }
    clear - F. induction F as [|s l Hs _ IHl]; simpl; auto. rewrite Hs, IHl. reflexivity.
  - cbn [map length vdirs]. rewrite (IH (upT ts) (Nat.div2 x)) by lia. rewrite UL.
    f_equal.
    destruct (Nat.even x) eqn:Ex; cbn [fst].
    + destruct (Nat.eqb_spec x j) as [->|Nx]; [rewrite Ex in Epr; simpl in Epr; congruence | reflexivity].
    + reflexivity.
Qed.

(* after all honest terms, the claimed position has reached the right-most path *)
Lemma hsteps_halve fuel : forall ts x,
  length ts <= fuel -> x < length ts ->
  halve (length (hsteps fuel ts x)) x = halve (length (hsteps fuel ts x)) (length ts - 1).
Proof.
  induction fuel as [|f IH]; intros ts x Hf Hx; [lia|].
  cbn [hsteps]. destruct (Nat.eqb_spec (length ts - 1) 0) as [E0|N0]; [simpl; lia|].
  assert (H2 : 2 <= length ts) by lia.
  pose proof (upT_length_lt ts H2) as Hlt.
  set (j := length ts - 1) in *. assert (Lj : length ts = S j) by lia.
  pose proof (upT_last ts j Lj) as UL.
  assert (Hx2 : Nat.div2 x < length (upT ts)) by (pose proof (div2_le x j); pose proof (upT_nonempty ts); lia).
  destruct ((x =? j) && Nat.even j) eqn:Epr.
  - apply andb_prop in Epr as [Ex _]. apply Nat.eqb_eq in Ex. subst x. reflexivity.
  - cbn [length halve]. rewrite (IH (upT ts) (Nat.div2 x)) by lia. rewrite UL. reflexivity.
Qed.

(* the honest proof has exactly the prescribed length, for any sufficient fuel of ilen *)
Lemma hsteps_len fuel : forall ts x fuel2,
  length ts <= fuel -> x < length ts -> length ts - 1 < 2 ^ fuel2 ->
  length (hsteps fuel ts x) = ilen fuel2 x (length ts - 1).
Proof.
  induction fuel as [|f IH]; intros ts x fuel2 Hf Hx H2; [lia|].
  cbn [hsteps]. destruct (Nat.eqb_spec (length ts - 1) 0) as [E0|N0].
  - assert (x = 0) by lia. subst x. rewrite E0.
    destruct fuel2; reflexivity.
  - assert (Hlen2 : 2 <= length ts) by lia.
    pose proof (upT_length_lt ts Hlen2) as Hlt.
    set (j := length ts - 1) in *. assert (Lj : length ts = S j) by lia.
    pose proof (upT_last ts j Lj) as UL.
    assert (Hx2 : Nat.div2 x < length (upT ts)) by (pose proof (div2_le x j); pose proof (upT_nonempty ts); lia).
    destruct fuel2 as [|f2]; [simpl in H2; lia|].
    assert (Hj2 : Nat.div2 j < 2 ^ f2).
    { rewrite Nat.div2_div. cbn [Nat.pow] in H2. apply Nat.div_lt_upper_bound; lia. }
    cbn [ilen].
    destruct (Nat.eqb_spec x j) as [->|NE].
    + destruct (Nat.eqb_spec j 0); [lia|]. cbn [andb].
      destruct (Nat.even j) eqn:Ee.
      * rewrite <- Nat.negb_even, Ee. cbn [negb Nat.add].
        rewrite (IH (upT ts) (Nat.div2 j) f2) by (rewrite ?UL; lia). rewrite UL. reflexivity.
      * rewrite <- Nat.negb_even, Ee. cbn [negb length].
        rewrite (IH (upT ts) (Nat.div2 j) f2) by (rewrite ?UL; lia). rewrite UL. reflexivity.
    + cbn [andb length].
      rewrite (IH (upT ts) (Nat.div2 x) f2) by (rewrite ?UL; lia). rewrite UL. reflexivity.
Qed.

End Honest.

(* a proof of the prescribed length brings the claimed position onto the right-most path *)
Lemma ilen_halve fuel : forall x j, x <= j -> j < 2 ^ fuel ->
  halve (ilen fuel x j) x = halve (ilen fuel x j) j.
Proof.
  induction fuel as [|f IH]; intros x j Hx Hj; cbn [ilen].
  - simpl in Hj. assert (j = 0) by lia. assert (x = 0) by lia. subst. reflexivity.
  - destruct (Nat.eqb_spec x j) as [->|NE]; [reflexivity|].
    cbn [Nat.add halve]. apply IH; [apply div2_le; exact Hx|].
    rewrite Nat.div2_div. cbn [Nat.pow] in Hj. apply Nat.div_lt_upper_bound; lia.
Qed.

(* E3: given the tree size, the number of terms and that the position reaches the right-most path,
   the verifier's directions determine the position *)
Lemma vdirs_inj m : forall x p j,
  x <= j -> p <= j -> halve m x = halve m p -> vdirs m x j = vdirs m p j -> x = p.
Proof.
  induction m as [|m IH]; intros x p j Lx Lp Hh Hd; simpl in *; auto.
  injection Hd as Hd0 Hd.
  assert (E : Nat.div2 x = Nat.div2 p) by (apply (IH _ _ (Nat.div2 j)); auto using div2_le).
  destruct (Nat.even x) eqn:Ex, (Nat.even p) eqn:Ep.
  - pose proof (even_div2 x Ex). pose proof (even_div2 p Ep). lia.
  - pose proof (even_div2 x Ex). pose proof (odd_div2 p Ep).
    simpl in Hd0. destruct (Nat.eqb_spec x j); simpl in Hd0; [lia | discriminate].
  - pose proof (odd_div2 x Ex). pose proof (even_div2 p Ep).
    simpl in Hd0. destruct (Nat.eqb_spec p j); simpl in Hd0; [lia | discriminate].
  - pose proof (odd_div2 x Ex). pose proof (odd_div2 p Ep). lia.
Qed.
