(* C08 theorems about the AHtree digest-log model, stated over ALL histories of Append/ResetSize. *)
From V Require Import Merkle.AHT Merkle.AHTArith Merkle.AHTSpec Merkle.AHTInv Merkle.AHTIncl.
From V Require Import Merkle.AHTCons Merkle.ConsComplete.
From V Require Import Merkle.Sound Merkle.Exact Merkle.Main.
From Coq Require Import Lia ZifyN ZifyNat ZifyBool.
Open Scope N_scope.

(* the abstract content after a history: appends extend, a legal reset truncates, an illegal one
   (larger than the size) is refused and changes nothing *)
Definition final_payloads (ops : list aop) : list bytes := fold_left spec_step ops [].

Lemma fold_appends ds : forall L, fold_left spec_step (map OAppend ds) L = L ++ ds.
Proof.
  induction ds as [|d ds IH]; intros L; cbn [map fold_left]; [symmetry; apply app_nil_r|].
  rewrite IH. cbn [spec_step]. rewrite <- app_assoc. reflexivity.
Qed.

Lemma final_payloads_appends ds : final_payloads (map OAppend ds) = ds.
Proof. unfold final_payloads. apply fold_appends. Qed.

Section Main.
Variable H : bytes -> bytes.
Hypothesis H_len : forall x, length (H x) = 32%nat.
Notation mth := (mth H).

(* the digest log below dLogSize is, group by group, the specification log; dLogSize is nodesUpto *)
Theorem aht_append_inv (ops : list aop) :
  let t := aht_run H ops in
  payloads t = final_payloads ops /\
  size t = lenN (final_payloads ops) /\
  dsize t = nodes_upto (size t) /\
  firstn (N.to_nat (dsize t)) (dlog t) = spec_log H (final_payloads ops).
Proof.
  intros t. destruct (aht_run_inv H ops) as [I P]. fold t in I, P. fold (final_payloads ops) in P.
  destruct I as (Lp & Ed & El). pose proof (payloads_length t Lp) as PL.
  rewrite P in *. auto.
Qed.

(* what every stored node is: entry (number of set bits of n-1 below h) of group n is the reference
   tree hash over payloads (base n h, n], base n h = ((n-1) >> h) << h *)
Theorem aht_node_is_subtree (ops : list aop) (n : N) (h : nat) :
  let t := aht_run H ops in
  1 <= n <= size t ->
  node t n (highest_level n h) = Ok (mth (slice (final_payloads ops) (base n (N.of_nat h)) n)).
Proof.
  intros t Ln. destruct (aht_run_inv H ops) as [I P]. fold t in I, P. fold (final_payloads ops) in P.
  rewrite <- P. apply (node_ok H t n h I Ln).
Qed.

Theorem aht_rootAt_is_mth (ops : list aop) (n : N) :
  let t := aht_run H ops in
  1 <= n <= size t ->
  root_at t n = Ok (mth (firstn (N.to_nat n) (final_payloads ops))).
Proof.
  intros t Ln. destruct (aht_run_inv H ops) as [I P]. fold t in I, P. fold (final_payloads ops) in P.
  rewrite <- P. apply (root_at_ok H t n I Ln).
Qed.

Theorem aht_inclusion_proof_is_honest (ops : list aop) (i j : N) :
  let t := aht_run H ops in
  1 <= i -> i <= j -> j <= size t ->
  inclusion_proof t i j = Ok (honest_inclusion_proof H (firstn (N.to_nat j) (final_payloads ops)) i).
Proof.
  intros t L1 Li Lj. destruct (aht_run_inv H ops) as [I P]. fold t in I, P. fold (final_payloads ops) in P.
  rewrite <- P. apply (inclusion_proof_ok H t i j I L1 Li Lj).
Qed.

(* hence: the generated proof is accepted by ahtree.VerifyInclusion against RootAt(j) *)
Theorem aht_inclusion_proof_verifies (ops : list aop) (i j : N) (d : bytes) :
  let t := aht_run H ops in
  1 <= i -> i <= j -> j <= size t ->
  nth_error (final_payloads ops) (N.to_nat (i - 1)) = Some d ->
  exists p r, inclusion_proof t i j = Ok p /\ root_at t j = Ok r /\
              verify_inclusion H p i j (leafh H d) r = true.
Proof.
  intros t L1 Li Lj Hd.
  pose proof (aht_inclusion_proof_is_honest ops i j L1 Li Lj) as EP.
  pose proof (aht_rootAt_is_mth ops j) as ER. cbv zeta in EP, ER. fold t in EP, ER.
  specialize (ER ltac:(lia)).
  destruct (aht_append_inv ops) as (_ & Sz & _). fold t in Sz.
  set (P := final_payloads ops) in *. set (X := firstn (N.to_nat j) P) in *.
  eexists. eexists. split; [exact EP|]. split; [exact ER|].
  assert (LX : length X = N.to_nat j) by (unfold X, lenN in *; rewrite firstn_length; lia).
  apply (ahtree_inclusion_complete H H_len X i j d).
  - intros E. rewrite E in LX. cbn in LX. lia.
  - lia.
  - exact L1.
  - unfold X. rewrite nth_error_firstn_lt by lia. exact Hd.
Qed.

(* the consistency proof the tree generates, as a function of the payloads *)
Definition consistency_ref_proof (L : list bytes) (i j : N) : list bytes :=
  cons_ref H L (height_of j) i j [].

Theorem aht_consistency_proof_is_ref (ops : list aop) (i j : N) :
  let t := aht_run H ops in
  1 <= i -> i <= j -> j <= size t ->
  consistency_proof t i j = Ok (consistency_ref_proof (final_payloads ops) i j).
Proof.
  intros t L1 Li Lj. destruct (aht_run_inv H ops) as [I P]. fold t in I, P. fold (final_payloads ops) in P.
  rewrite <- P. apply (consistency_proof_ok H t i j I L1 Li Lj).
Qed.

Theorem consistency_complete (L : list bytes) (i j : N) :
  1 <= i -> i <= j -> j <= lenN L ->
  verify_consistency H (consistency_ref_proof L i j) i j
    (mth (firstn (N.to_nat i) L)) (mth (firstn (N.to_nat j) L)) = Ok true.
Proof. apply cons_ref_verifies. Qed.

(* ConsistencyProof(i, j) is accepted by ahtree.VerifyConsistency against RootAt(i), RootAt(j) *)
Theorem aht_consistency_proof_verifies (ops : list aop) (i j : N) :
  let t := aht_run H ops in
  1 <= i -> i <= j -> j <= size t ->
  exists p ri rj, consistency_proof t i j = Ok p /\ root_at t i = Ok ri /\ root_at t j = Ok rj /\
                  verify_consistency H p i j ri rj = Ok true.
Proof.
  intros t L1 Li Lj.
  pose proof (aht_consistency_proof_is_ref ops i j) as EP.
  pose proof (aht_rootAt_is_mth ops i) as Ei. pose proof (aht_rootAt_is_mth ops j) as Ej.
  cbv zeta in EP, Ei, Ej. fold t in EP, Ei, Ej.
  specialize (EP ltac:(lia) ltac:(lia) ltac:(lia)). specialize (Ei ltac:(lia)). specialize (Ej ltac:(lia)).
  destruct (aht_append_inv ops) as (_ & Sz & _). fold t in Sz.
  eexists. eexists. eexists. split; [exact EP|]. split; [exact Ei|]. split; [exact Ej|].
  apply consistency_complete; lia.
Qed.

(* ---- everything observable is a function of the payload list ---- *)
Lemma obs_payloads t1 t2 : Inv H t1 -> Inv H t2 -> payloads t1 = payloads t2 ->
  size t1 = size t2 /\
  (forall n, root_at t1 n = root_at t2 n) /\
  (forall i j, inclusion_proof t1 i j = inclusion_proof t2 i j) /\
  (forall i j, consistency_proof t1 i j = consistency_proof t2 i j).
Proof.
  intros I1 I2 EP.
  pose proof I1 as (Lp1 & _). pose proof I2 as (Lp2 & _).
  pose proof (payloads_length t1 Lp1) as PL1. pose proof (payloads_length t2 Lp2) as PL2.
  assert (Sz : size t1 = size t2) by (rewrite <- PL1, <- PL2, EP; reflexivity).
  split; [exact Sz|]. split; [|split].
  - intros n. destruct (N.eq_dec n 0) as [->|NZ]; [reflexivity|].
    destruct (N.le_gt_cases n (size t1)) as [Le|Gt].
    + rewrite (root_at_ok H t1 n I1) by lia. rewrite (root_at_ok H t2 n I2) by lia. rewrite EP. reflexivity.
    + unfold root_at. rewrite <- Sz.
      destruct (n =? 0); [reflexivity|]. destruct (size t1 =? 0); [reflexivity|].
      destruct (N.ltb_spec (size t1) n); [reflexivity | lia].
  - intros i j. unfold inclusion_proof. rewrite <- Sz.
    destruct (N.eqb_spec i 0); [reflexivity|]. destruct (N.ltb_spec j i); [reflexivity|]. cbn [orb].
    destruct (N.ltb_spec (size t1) j); [reflexivity|].
    rewrite !(inclusion_loop_ok H) by (rewrite ?base_top; auto; lia). rewrite EP. reflexivity.
  - intros i j. unfold consistency_proof. rewrite <- Sz.
    destruct (N.eqb_spec i 0); [reflexivity|]. destruct (N.ltb_spec j i); [reflexivity|]. cbn [orb].
    destruct (N.ltb_spec (size t1) j); [reflexivity|].
    rewrite !(consistency_loop_ok H) by (auto; lia). rewrite EP. reflexivity.
Qed.

(* every reachable state is observationally the tree obtained by appending its payloads afresh *)
Theorem aht_history_irrelevant (ops : list aop) :
  let t := aht_run H ops in
  let t0 := aht_run H (map OAppend (final_payloads ops)) in
  size t = size t0 /\
  (forall n, root_at t n = root_at t0 n) /\
  (forall i j, inclusion_proof t i j = inclusion_proof t0 i j) /\
  (forall i j, consistency_proof t i j = consistency_proof t0 i j).
Proof.
  intros t t0.
  destruct (aht_run_inv H ops) as [I P]. destruct (aht_run_inv H (map OAppend (final_payloads ops))) as [I0 P0].
  apply obs_payloads; auto. fold t0 in P0. fold t in P. rewrite P, P0.
  symmetry. apply final_payloads_appends.
Qed.

(* ResetSize k followed by appends == appends to the k-prefix *)
Theorem aht_reset_append (ops : list aop) (k : N) (ds : list bytes) :
  k <= lenN (final_payloads ops) ->
  let t := aht_run H (ops ++ OReset k :: map OAppend ds) in
  let t0 := aht_run H (map OAppend (firstn (N.to_nat k) (final_payloads ops) ++ ds)) in
  payloads t = firstn (N.to_nat k) (final_payloads ops) ++ ds /\
  size t = size t0 /\
  (forall n, root_at t n = root_at t0 n) /\
  (forall i j, inclusion_proof t i j = inclusion_proof t0 i j) /\
  (forall i j, consistency_proof t i j = consistency_proof t0 i j).
Proof.
  intros Lk t t0.
  destruct (aht_run_inv H (ops ++ OReset k :: map OAppend ds)) as [I P]. fold t in I, P.
  destruct (aht_run_inv H (map OAppend (firstn (N.to_nat k) (final_payloads ops) ++ ds))) as [I0 P0].
  fold t0 in I0, P0.
  assert (E : payloads t = firstn (N.to_nat k) (final_payloads ops) ++ ds).
  { rewrite P. rewrite fold_left_app. cbn [fold_left]. fold (final_payloads ops).
    cbn [spec_step]. destruct (N.leb_spec k (lenN (final_payloads ops))); [|lia].
    apply fold_appends. }
  split; [exact E|]. apply obs_payloads; auto.
  rewrite E, P0. symmetry. apply final_payloads_appends.
Qed.

End Main.

(* premises satisfiable: a tree of size 3 exists (1 <= n <= size t, 1 <= i <= j <= size t) *)
Example aht_size_premises_sat (H : bytes -> bytes) :
  size (aht_run H [OAppend [1]; OAppend [2]; OAppend [3]]) = 3.
Proof. destruct (aht_append_inv H [OAppend [1]; OAppend [2]; OAppend [3]]) as (_ & Sz & _). exact Sz. Qed.

Example aht_reset_append_premises_sat :
  2 <= lenN (final_payloads [OAppend [1]; OAppend [2]; OAppend [3]]).
Proof. cbv. discriminate. Qed.
