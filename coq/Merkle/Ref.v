(* The reference Merkle construction (RFC 6962 shape): leaf/node domain separation, split at the
   largest power of two strictly below the size (unbalanced right edge). *)
From V Require Export Merkle.Tree.
From Coq Require Import ZifyN ZifyNat ZifyBool.

(* list prefix / suffix with an N counter (no unary numbers: sizes reach 2^64) *)
Fixpoint takeN {A} (n : N) (l : list A) : list A :=
  match l with
  | [] => []
  | x :: r => if n =? 0 then [] else x :: takeN (n - 1) r
  end.
Fixpoint dropN {A} (n : N) (l : list A) : list A :=
  match l with
  | [] => []
  | x :: r => if n =? 0 then l else dropN (n - 1) r
  end.

Lemma takeN_dropN {A} n (l : list A) : takeN n l ++ dropN n l = l.
Proof.
  revert n; induction l as [|x l IH]; intros n; simpl; auto.
  destruct (n =? 0); simpl; auto. rewrite IH; auto.
Qed.
Lemma takeN_length {A} n (l : list A) : N.of_nat (length (takeN n l)) = N.min n (N.of_nat (length l)).
Proof.
  revert n; induction l as [|x l IH]; intros n; cbn [takeN length]; [lia|].
  destruct (N.eqb_spec n 0); cbn [length]; [lia|]. specialize (IH (n - 1)). lia.
Qed.
Lemma dropN_length {A} n (l : list A) : N.of_nat (length (dropN n l)) = N.of_nat (length l) - n.
Proof.
  revert n; induction l as [|x l IH]; intros n; cbn [dropN length]; [lia|].
  destruct (N.eqb_spec n 0); cbn [length]; [lia|]. specialize (IH (n - 1)). lia.
Qed.

(* tree of height at most h over a non-empty list of at most 2^h leaves *)
Fixpoint mk (h : nat) (l : list bytes) : tree :=
  match h with
  | O => match l with d :: _ => Leaf d | [] => Leaf [] end
  | S h' =>
      let k := 2 ^ N.of_nat h' in
      if N.of_nat (length l) <=? k then mk h' l
      else Node (mk h' (takeN k l)) (mk h' (dropN k l))
  end.

Definition mk_tree (l : list bytes) : tree :=
  mk (N.to_nat (N.log2_up (N.of_nat (length l)))) l.

Lemma mk_leaves h : forall l,
  1 <= N.of_nat (length l) <= 2 ^ N.of_nat h -> leaves (mk h l) = l.
Proof.
  induction h as [|h IH]; intros l Hl.
  - simpl in *. destruct l as [|d [|e l]]; simpl in *; auto; lia.
  - cbn [mk]. destruct (N.leb_spec (N.of_nat (length l)) (2 ^ N.of_nat h)) as [L|L].
    + apply IH. lia.
    + simpl. rewrite Nnat.Nat2N.inj_succ, N.pow_succ_r' in Hl.
      rewrite !IH.
      * apply takeN_dropN.
      * rewrite dropN_length. lia.
      * rewrite takeN_length. lia.
Qed.

Lemma mk_tree_leaves l : l <> [] -> leaves (mk_tree l) = l.
Proof.
  intros Hne. unfold mk_tree. apply mk_leaves.
  assert (1 <= N.of_nat (length l)) by (destruct l; simpl in *; [congruence | lia]).
  split; auto. rewrite N2Nat.id.
  destruct (N.eq_dec (N.of_nat (length l)) 1) as [E|NE].
  - rewrite E. simpl. lia.
  - apply N.log2_up_spec. lia.
Qed.

Section Mth.
Variable H : bytes -> bytes.
(* Merkle tree hash of a non-empty list of leaf payloads *)
Definition mth (l : list bytes) : bytes := th H (mk_tree l).
End Mth.
