(* Hash trees over an ABSTRACT hash function; explicit-collision reasoning.
   leaf = H(0x00 ‖ d), node = H(0x01 ‖ l ‖ r)  (htree.LeafPrefix / NodePrefix). *)
From V Require Export Base.Bytes.

Section Hash.
Variable H : bytes -> bytes.
Hypothesis H_len : forall x, length (H x) = 32%nat.

Definition Collision : Prop := exists x y : bytes, x <> y /\ H x = H y.

Definition leafh (d : bytes) : bytes := H (0 :: d).
Definition nodeh (a b : bytes) : bytes := H (1 :: a ++ b).

Inductive tree := Leaf (d : bytes) | Node (l r : tree).

Fixpoint th (t : tree) : bytes :=
  match t with Leaf d => leafh d | Node l r => nodeh (th l) (th r) end.

Fixpoint leaves (t : tree) : list bytes :=
  match t with Leaf d => [d] | Node l r => leaves l ++ leaves r end.

Lemma th_len t : length (th t) = 32%nat.
Proof. destruct t; simpl; apply H_len. Qed.

Lemma bytes_eq_dec (a b : bytes) : {a = b} + {a <> b}.
Proof. apply list_eq_dec. apply N.eq_dec. Qed.

(* equal hashes: equal inputs, or an explicit collision *)
Lemma H_inj x y : H x = H y -> x = y \/ Collision.
Proof. intros E. destruct (bytes_eq_dec x y); [left; auto | right; exists x, y; auto]. Qed.

Lemma leafh_inj d d' : leafh d = leafh d' -> d = d' \/ Collision.
Proof. intros E. destruct (H_inj _ _ E) as [E1|C]; auto. left; congruence. Qed.

Lemma app_inj_len {A} (a a' b b' : list A) :
  length a = length a' -> a ++ b = a' ++ b' -> a = a' /\ b = b'.
Proof.
  revert a'; induction a as [|x a IH]; intros [|y a'] L E; simpl in *; try discriminate; auto.
  injection E as -> E. destruct (IH a') as [-> ->]; auto.
Qed.

Lemma nodeh_inj a b a' b' :
  length a = length a' -> nodeh a b = nodeh a' b' -> (a = a' /\ b = b') \/ Collision.
Proof.
  intros L E. destruct (H_inj _ _ E) as [E1|C]; auto. left.
  injection E1 as E1. apply app_inj_len; auto.
Qed.

Lemma leaf_node_collision d a b : leafh d = nodeh a b -> Collision.
Proof. intros E. exists (0 :: d), (1 :: a ++ b). split; [discriminate | exact E]. Qed.

(* a value that is the hash of a tree AND a node hash of two 32-byte values determines the tree's
   top structure *)
Lemma th_node_inv t a b :
  length a = 32%nat -> th t = nodeh a b ->
  (exists l r, t = Node l r /\ th l = a /\ th r = b) \/ Collision.
Proof.
  intros La E. destruct t as [d|l r]; simpl in E.
  - right. eapply leaf_node_collision; eauto.
  - destruct (nodeh_inj (th l) (th r) a b) as [[E1 E2]|C]; auto.
    + rewrite th_len; auto.
    + left; eauto.
Qed.

Lemma th_leaf_inv t d : th t = leafh d -> t = Leaf d \/ Collision.
Proof.
  destruct t as [d'|l r]; simpl; intros E.
  - destruct (leafh_inj _ _ E) as [->|C]; auto.
  - right. symmetry in E. eapply leaf_node_collision; eauto.
Qed.

(* ---- hash chains: what every Merkle verifier computes ---- *)
(* one step: (true, h) = the running value is the LEFT child, h its right sibling;
             (false, h) = the running value is the RIGHT child, h its left sibling *)
Definition step (c : bytes) (s : bool * bytes) : bytes :=
  if fst s then nodeh c (snd s) else nodeh (snd s) c.
Definition climb (steps : list (bool * bytes)) (c : bytes) : bytes := fold_left step steps c.

Definition terms_ok (steps : list (bool * bytes)) : Prop :=
  Forall (fun s => length (snd s) = 32%nat) steps.

Lemma climb_app s1 s2 c : climb (s1 ++ s2) c = climb s2 (climb s1 c).
Proof. apply fold_left_app. Qed.

Lemma climb_len steps c : length c = 32%nat -> length (climb steps c) = 32%nat.
Proof.
  revert c; induction steps as [|s steps IH]; intros c L; simpl; auto.
  apply IH. unfold step. destruct (fst s); apply H_len.
Qed.

(* A chain that ends in the hash of a tree t walks up a root-to-node path of t: the start value is
   the hash of the subtree s at the bottom of the path, the leaves of t split as
   pre ++ leaves s ++ post, and pre is exactly the concatenation of the leaves of the left siblings
   (the `false` steps), in order. *)
Fixpoint lefts (steps : list (bool * bytes)) : list bytes :=
  match steps with
  | [] => []
  | (true, _) :: r => lefts r
  | (false, h) :: r => h :: lefts r
  end.

(* path_in t steps s pre post u: `steps` (bottom-up) is the sibling path from the subtree s up to
   the root of t; pre / post are the leaves of t left / right of s; u is the tree made of s and the
   LEFT siblings only (what a consistency proof hashes into the old root). *)
Inductive path_in : tree -> list (bool * bytes) -> tree -> list bytes -> list bytes -> tree -> Prop :=
| path_nil t : path_in t [] t [] [] t
| path_left l r steps s pre post u :
    path_in l steps s pre post u ->
    path_in (Node l r) (steps ++ [(true, th r)]) s pre (post ++ leaves r) u
| path_right l r steps s pre post u :
    path_in r steps s pre post u ->
    path_in (Node l r) (steps ++ [(false, th l)]) s (leaves l ++ pre) post (Node l u).

Lemma path_in_leaves t steps s pre post u :
  path_in t steps s pre post u -> leaves t = pre ++ leaves s ++ post /\ leaves u = pre ++ leaves s.
Proof.
  induction 1 as [t | l r steps s pre post u _ [IH1 IH2] | l r steps s pre post u _ [IH1 IH2]]; simpl.
  - rewrite app_nil_r; auto.
  - rewrite IH1. rewrite <- !app_assoc. auto.
  - rewrite IH1, IH2. rewrite <- !app_assoc. auto.
Qed.

Definition lefts_only (steps : list (bool * bytes)) : list (bool * bytes) :=
  filter (fun s => negb (fst s)) steps.

Lemma lefts_only_app a b : lefts_only (a ++ b) = lefts_only a ++ lefts_only b.
Proof. apply filter_app. Qed.

Lemma path_in_prefix_tree t steps s pre post u :
  path_in t steps s pre post u -> th u = climb (lefts_only steps) (th s).
Proof.
  induction 1 as [t | l r steps s pre post u _ IH | l r steps s pre post u _ IH]; simpl; auto.
  - rewrite lefts_only_app. simpl. rewrite app_nil_r. exact IH.
  - rewrite lefts_only_app, climb_app. simpl. unfold step; simpl. rewrite IH. reflexivity.
Qed.

(* all-right-child paths end at the last leaf *)
Lemma path_in_all_right t steps s pre post u :
  path_in t steps s pre post u -> Forall (fun st => fst st = false) steps -> post = [].
Proof.
  induction 1 as [t | l r steps s pre post u _ IH | l r steps s pre post u _ IH]; intros F; auto.
  - apply Forall_app in F as [_ F]. inversion F as [|? ? E _]; subst. discriminate.
  - apply Forall_app in F as [F _]. auto.
Qed.

Lemma climb_path steps : forall t c,
  terms_ok steps -> length c = 32%nat -> climb steps c = th t ->
  (exists s pre post u, path_in t steps s pre post u /\ th s = c) \/ Collision.
Proof.
  induction steps as [|[d h] steps IH] using rev_ind; intros t c Hok Lc E.
  - simpl in E. left. exists t, [], [], t. split; [constructor | auto].
  - rewrite climb_app in E. simpl in E. unfold step in E; simpl in E.
    apply Forall_app in Hok as [Hok Hh]. inversion Hh as [|? ? Lh _]; subst; simpl in Lh.
    assert (Lcl : length (climb steps c) = 32%nat) by (apply climb_len; auto).
    destruct d.
    + symmetry in E. destruct (th_node_inv t _ _ Lcl E) as [(l & r & -> & E1 & E2)|C]; auto.
      destruct (IH l c Hok Lc (eq_sym E1)) as [(s & pre & post & u & P & Es)|C]; auto.
      left. exists s, pre, (post ++ leaves r), u. split; auto. rewrite <- E2. constructor; auto.
    + symmetry in E. destruct (th_node_inv t _ _ Lh E) as [(l & r & -> & E1 & E2)|C]; auto.
      destruct (IH r c Hok Lc (eq_sym E2)) as [(s & pre & post & u & P & Es)|C]; auto.
      left. exists s, (leaves l ++ pre), post, (Node l u). split; auto. rewrite <- E1. constructor; auto.
Qed.

End Hash.

