(* Position-exact soundness and completeness of ahtree.VerifyInclusion (with its final
   (i-1)>>len == (j-1)>>len test) against the level-built tree over the payload list. *)
From V Require Import Merkle.Verify Merkle.Sound Merkle.Honest.
From Coq Require Import Lia Arith ZifyN ZifyNat ZifyBool.

(* ---- bridging the N arithmetic of the transliterated verifier and the nat lemmas ---- *)
Lemma N_even_of_nat x : N.even (N.of_nat x) = Nat.even x.
Proof.
  destruct (Nat.even x) eqn:E.
  - apply Nat.even_spec in E. destruct E as [k ->]. apply N.even_spec. exists (N.of_nat k). lia.
  - assert (O : Nat.odd x = true) by (rewrite <- Nat.negb_even, E; reflexivity).
    apply Nat.odd_spec in O. destruct O as [k ->].
    rewrite <- N.negb_odd. apply Bool.negb_false_iff. apply N.odd_spec. exists (N.of_nat k). lia.
Qed.
Lemma N_div2_of_nat x : N.div2 (N.of_nat x) = N.of_nat (Nat.div2 x).
Proof. symmetry. apply Nnat.Nat2N.inj_div2. Qed.
Lemma N_eqb_of_nat x y : (N.of_nat x =? N.of_nat y)%N = (x =? y)%nat.
Proof.
  destruct (Nat.eqb_spec x y) as [->|NE]; [apply N.eqb_refl|].
  apply N.eqb_neq. lia.
Qed.

Lemma halve_succ m : forall x, halve (S m) x = Nat.div2 (halve m x).
Proof. induction m as [|m IH]; intros x; [reflexivity|]. cbn [halve] in *. rewrite <- IH. reflexivity. Qed.

Lemma shiftr_of_nat m x : N.shiftr (N.of_nat x) (N.of_nat m) = N.of_nat (halve m x).
Proof.
  induction m as [|m IH].
  - reflexivity.
  - rewrite Nnat.Nat2N.inj_succ, N.shiftr_succ_r, IH, halve_succ. apply N_div2_of_nat.
Qed.

Lemma N_odd_of_nat x : N.odd (N.of_nat x) = Nat.odd x.
Proof. rewrite <- N.negb_even, <- Nat.negb_even, N_even_of_nat. reflexivity. Qed.

Lemma incl_len_of_nat fuel : forall x j,
  incl_len_f fuel (N.of_nat x) (N.of_nat j) = N.of_nat (ilen fuel x j).
Proof.
  induction fuel as [|f IH]; intros x j; cbn [incl_len_f ilen]; [reflexivity|].
  rewrite N_eqb_of_nat, !N_div2_of_nat, IH, N_odd_of_nat.
  change 0%N with (N.of_nat 0). rewrite N_eqb_of_nat.
  destruct (x =? j)%nat.
  - destruct (j =? 0)%nat; [reflexivity|]. destruct (Nat.odd j); lia.
  - lia.
Qed.

Lemma fuel_for_enough j : (j < 2 ^ fuel_for (N.of_nat j))%nat.
Proof.
  unfold fuel_for. destruct j as [|j]; [simpl; lia|].
  set (n := N.of_nat (S j)). assert (Hn : (0 < n)%N) by (unfold n; lia).
  destruct (N.log2_spec n Hn) as [_ Hlt].
  assert (E : S j = N.to_nat n) by (unfold n; lia). rewrite E.
  assert (N.to_nat n < N.to_nat (2 ^ N.succ (N.log2 n)))%nat by lia.
  rewrite N2Nat.inj_pow, N2Nat.inj_succ in H. change (N.to_nat 2) with 2%nat in H.
  cbn [Nat.pow]. cbn [Nat.pow] in H. lia.
Qed.

Lemma bytes_eqb_refl (l : bytes) : bytes_eqb l l = true.
Proof.
  unfold bytes_eqb. induction l as [|b l IHl]; cbn [list_eqb]; auto.
  rewrite N.eqb_refl, IHl. reflexivity.
Qed.

Lemma vdirs_length m : forall x j, length (vdirs m x j) = m.
Proof. induction m as [|m IH]; intros; simpl; auto. Qed.

Section Exact.
Variable H : bytes -> bytes.
Hypothesis H_len : forall x, length (H x) = 32%nat.
Notation Collision := (Collision H).
Notation th := (th H).
Notation leafh := (leafh H).
Notation climb := (climb H).

Lemma incl_steps_nat terms : forall x j,
  incl_steps terms (N.of_nat x) (N.of_nat j) = combine (vdirs (length terms) x j) terms.
Proof.
  induction terms as [|h r IH]; intros x j; [reflexivity|].
  cbn [incl_steps length vdirs combine].
  rewrite N_even_of_nat, N_eqb_of_nat, !N_div2_of_nat, IH. reflexivity.
Qed.

Lemma map_fst_combine {A B} (a : list A) (b : list B) :
  length a = length b -> map fst (combine a b) = a.
Proof.
  revert b; induction a as [|x a IH]; intros [|y b] L; simpl in *; try discriminate; auto.
  f_equal. apply IH. lia.
Qed.

Definition lv0 (L : list bytes) : list tree := map Leaf L.

Lemma lvs_lv0 L : lvs (lv0 L) = L.
Proof. unfold lvs, lv0. induction L as [|d L IH]; simpl; auto. rewrite IH. reflexivity. Qed.

Lemma before_lv0_length L : forall p, p <= length L -> length (before (lv0 L) p) = p.
Proof.
  unfold before, lv0. intros p Hp. rewrite firstn_map. fold (lv0 (firstn p L)).
  rewrite lvs_lv0. apply firstn_length_le. exact Hp.
Qed.

Lemma nthT_lv0 L p d : nth_error L p = Some d -> nthT (lv0 L) p = Leaf d.
Proof.
  unfold nthT, lv0. revert p; induction L as [|e L IH]; intros [|p] E; simpl in *; try discriminate.
  - congruence.
  - auto.
Qed.

Definition hterms (hs : list (bool * tree)) : list bytes := map (fun s => th (snd s)) hs.

Lemma map_fst_hmap hs : map fst (hmap H hs) = map fst hs.
Proof. unfold hmap. induction hs as [|s hs IH]; simpl; auto. rewrite IH. reflexivity. Qed.

Lemma hmap_combine hs : hmap H hs = combine (map fst hs) (hterms hs).
Proof. unfold hmap, hterms. induction hs as [|s hs IH]; simpl; auto. rewrite IH. reflexivity. Qed.

(* ---- exactness on 0-based nat indices ---- *)
Theorem incl_exact_nat (L : list bytes) (terms : list bytes) (x j : nat) (d : bytes) :
  length L = S j -> x <= j -> len32 terms ->
  halve (length terms) x = halve (length terms) j ->
  climb (combine (vdirs (length terms) x j) terms) (leafh d) = th (root (lv0 L)) ->
  nth_error L x = Some d \/ Collision.
Proof.
  intros HL Hx F Hh E.
  set (steps := combine (vdirs (length terms) x j) terms) in *.
  assert (Hfst : map fst steps = vdirs (length terms) x j)
    by (apply map_fst_combine; apply vdirs_length).
  assert (Hok : terms_ok steps).
  { unfold terms_ok, steps. clear - F. revert F. generalize (vdirs (length terms) x j) as ds.
    induction terms as [|h r IH]; intros ds F; destruct ds; simpl; try constructor.
    - inversion F; auto.
    - inversion F; subst. apply IH; auto. }
  destruct (climb_path H H_len steps (root (lv0 L)) (leafh d) Hok (H_len _) E)
    as [(s & pre & post & u & P & Es)|C]; auto.
  destruct (th_leaf_inv H s d Es) as [->|C]; auto.
  apply path_in_spath in P. apply spath_tpath in P. rewrite Hfst in P.
  assert (Hlen : length (lv0 L) = S j) by (unfold lv0; rewrite map_length; exact HL).
  pose proof (tpath_leaves _ _ _ _ _ P) as PL.
  rewrite (root_leaves (S j) (lv0 L) Hlen) in PL by lia. rewrite lvs_lv0 in PL. simpl in PL.
  set (p := length pre).
  assert (Hp : p <= j).
  { assert (length L = p + 1 + length post) by (rewrite PL, !app_length; simpl; unfold p; lia). lia. }
  assert (Hd : nth_error L p = Some d).
  { rewrite PL. unfold p. rewrite nth_error_app2 by lia. rewrite Nat.sub_diag. reflexivity. }
  (* the honest path to position p *)
  destruct (honest_path H (length (lv0 L)) (lv0 L) p) as [post' P']; [lia | lia |].
  rewrite (nthT_lv0 L p d Hd) in P'.
  apply spath_tpath in P'.
  assert (Hfst' : map fst (hmap H (hsteps (length (lv0 L)) (lv0 L) p)) =
                  vdirs (length (hsteps (length (lv0 L)) (lv0 L) p)) p j).
  { rewrite map_fst_hmap.
    rewrite (hsteps_dirs (length (lv0 L)) (lv0 L) p) by lia.
    replace (length (lv0 L) - 1) with j by lia. reflexivity. }
  rewrite Hfst' in P'.
  destruct (tpath_unique H _ _ _ _ _ P _ _ _ _ P') as [Ed _].
  { rewrite before_lv0_length; [reflexivity | lia]. }
  apply (f_equal (@rev bool)) in Ed. rewrite !rev_involutive in Ed.
  assert (Em : length terms = length (hsteps (length (lv0 L)) (lv0 L) p)).
  { apply (f_equal (@length bool)) in Ed. rewrite !vdirs_length in Ed. exact Ed. }
  pose proof (hsteps_halve (length (lv0 L)) (lv0 L) p ltac:(lia) ltac:(lia)) as Hh'.
  replace (length (lv0 L) - 1) with j in Hh' by lia.
  rewrite <- Em in Hh', Ed.
  assert (x = p) by (apply (vdirs_inj (length terms) x p j); auto; congruence).
  subst x. left. exact Hd.
Qed.

(* ---- completeness on 0-based nat indices ---- *)
Theorem incl_complete_nat (L : list bytes) (x j : nat) (d : bytes) :
  length L = S j -> nth_error L x = Some d ->
  let hs := hsteps (length (lv0 L)) (lv0 L) x in
  climb (combine (vdirs (length (hterms hs)) x j) (hterms hs)) (leafh d) = th (root (lv0 L)) /\
  halve (length (hterms hs)) x = halve (length (hterms hs)) j.
Proof.
  intros HL Hd hs.
  assert (Hlen : length (lv0 L) = S j) by (unfold lv0; rewrite map_length; exact HL).
  assert (Hx : x < S j) by (rewrite <- HL; apply nth_error_Some; congruence).
  assert (Elen : length (hterms hs) = length hs) by (unfold hterms; apply map_length).
  split.
  - destruct (honest_path H (length (lv0 L)) (lv0 L) x) as [post P]; [lia | lia |].
    apply spath_climb in P. rewrite (nthT_lv0 L x d Hd) in P. simpl in P.
    rewrite hmap_combine in P.
    rewrite (hsteps_dirs (length (lv0 L)) (lv0 L) x) in P by lia. fold hs in P.
    replace (length (lv0 L) - 1) with j in P by lia. rewrite Elen. exact P.
  - rewrite Elen. pose proof (hsteps_halve (length (lv0 L)) (lv0 L) x ltac:(lia) ltac:(lia)) as Hh.
    replace (length (lv0 L) - 1) with j in Hh by lia. exact Hh.
Qed.

(* ---- the transliterated verifier (1-based N indices) ---- *)
Theorem inclusion_sound_exact (L : list bytes) (terms : list bytes) (i j : N) (d : bytes) :
  j = N.of_nat (length L) -> len32 terms ->
  verify_inclusion H terms i j (leafh d) (th (root (lv0 L))) = true ->
  (nth_error L (N.to_nat (i - 1)) = Some d /\ (1 <= i <= j)%N) \/ Collision.
Proof.
  intros Hj F V. unfold verify_inclusion in V.
  destruct ((j <? i)%N || (i =? 0)%N || ((i <? j)%N && (lenN terms =? 0)%N)) eqn:G; [discriminate|].
  apply orb_false_elim in G as [G _]. apply orb_false_elim in G as [G1 G2].
  apply N.ltb_ge in G1. apply N.eqb_neq in G2.
  destruct (negb _) eqn:Sh; [discriminate|]. apply Bool.negb_false_iff in Sh. apply N.eqb_eq in Sh.
  apply list_eqb_eq in V. rewrite eval_inclusion_climb in V.
  set (x := N.to_nat (i - 1)). set (jj := N.to_nat (j - 1)).
  assert (Ex : (i - 1)%N = N.of_nat x) by (unfold x; lia).
  assert (Ej : (j - 1)%N = N.of_nat jj) by (unfold jj; lia).
  unfold inclusion_proof_len in Sh.
  rewrite Ex, Ej in V, Sh. rewrite incl_steps_nat in V.
  rewrite incl_len_of_nat in Sh. unfold lenN in Sh. apply Nnat.Nat2N.inj in Sh.
  assert (Hh : halve (length terms) x = halve (length terms) jj).
  { rewrite Sh. apply ilen_halve; [lia | apply fuel_for_enough]. }
  assert (Hlen_L : length L = S jj) by lia.
  assert (Hxj : (x <= jj)%nat) by lia.
  destruct (incl_exact_nat L terms x jj d Hlen_L Hxj F Hh (eq_sym V)) as [E|C]; auto.
  left. split; [exact E | lia].
Qed.

Theorem inclusion_complete (L : list bytes) (i j : N) (d : bytes) :
  j = N.of_nat (length L) -> (1 <= i)%N -> nth_error L (N.to_nat (i - 1)) = Some d ->
  verify_inclusion H (hterms (hsteps (length (lv0 L)) (lv0 L) (N.to_nat (i - 1)))) i j
                   (leafh d) (th (root (lv0 L))) = true.
Proof.
  intros Hj Hi Hd.
  set (x := N.to_nat (i - 1)) in *.
  assert (Hx : x < length L) by (apply nth_error_Some; congruence).
  set (jj := length L - 1).
  assert (HL : length L = S jj) by (unfold jj; lia).
  destruct (incl_complete_nat L x jj d HL Hd) as [E Hh].
  set (terms := hterms (hsteps (length (lv0 L)) (lv0 L) x)) in *.
  unfold verify_inclusion.
  assert (Ex : (i - 1)%N = N.of_nat x) by (unfold x; lia).
  assert (Ej : (j - 1)%N = N.of_nat jj) by lia.
  assert (G : ((j <? i)%N || (i =? 0)%N || ((i <? j)%N && (lenN terms =? 0)%N)) = false).
  { destruct (N.ltb_spec j i); [lia|]. destruct (N.eqb_spec i 0); [lia|]. simpl.
    destruct (N.ltb_spec i j); auto. simpl.
    destruct (N.eqb_spec (lenN terms) 0) as [Z|]; auto.
    unfold lenN in Z. assert (length terms = 0%nat) by lia.
    rewrite H2 in Hh. simpl in Hh. lia. }
  rewrite G. unfold inclusion_proof_len. rewrite Ex, Ej. rewrite incl_len_of_nat.
  assert (Elen : length terms = ilen (fuel_for (N.of_nat jj)) x jj).
  { unfold terms, hterms. rewrite map_length.
    rewrite (hsteps_len (length (lv0 L)) (lv0 L) x (fuel_for (N.of_nat jj))).
    - unfold lv0. rewrite map_length. reflexivity.
    - lia.
    - unfold lv0. rewrite map_length. lia.
    - unfold lv0. rewrite map_length. replace (length L - 1)%nat with jj by lia. apply fuel_for_enough. }
  unfold lenN. rewrite Elen, N.eqb_refl. cbn [negb].
  rewrite eval_inclusion_climb, incl_steps_nat, E.
  apply bytes_eqb_refl.
Qed.

End Exact.
