(* Arithmetic of the AHtree digest-log addressing: nodesUpto(n) counts, for m = 1..n, one digest
   plus one per set bit of m-1 (proved through the recurrence the Append loop needs:
   nodesUpto(n+1) = nodesUpto(n) + 1 + levelsAt(n+1)); levelsAt / highestNode count set bits; the
   range bases ((n-1) >> h) << h. *)
From V Require Import Merkle.AHT.
From Coq Require Import Lia ZifyN ZifyNat ZifyBool.

Definition b2n (b : bool) : N := if b then 1 else 0.

Lemma pow2_pos l : 0 < 2 ^ l.
Proof. apply N.neq_0_lt_0. apply N.pow_nonzero. discriminate. Qed.

Lemma pow2_succ l : 2 ^ (l + 1) = 2 * 2 ^ l.
Proof. rewrite N.add_1_r. apply N.pow_succ_r'. Qed.

Lemma size_nat_gt n : n < 2 ^ N.of_nat (N.size_nat n).
Proof.
  destruct n as [|p]; [reflexivity|]. cbn [N.size_nat].
  induction p as [p IH|p IH|]; cbn [Pos.size_nat].
  - rewrite Nnat.Nat2N.inj_succ, N.pow_succ_r'. lia.
  - rewrite Nnat.Nat2N.inj_succ, N.pow_succ_r'. lia.
  - reflexivity.
Qed.

Lemma testbit_small w r : w < 2 ^ r -> N.testbit w r = false.
Proof. intros L. rewrite N.testbit_eqb, (N.div_small w (2 ^ r) L). reflexivity. Qed.

Lemma pow2_mono a b : a <= b -> 2 ^ a <= 2 ^ b.
Proof. intros L. apply N.pow_le_mono_r; lia. Qed.

(* ---- number of m < n with bit l set ---- *)
Definition cnt (n l : N) : N :=
  N.shiftl (N.shiftr n (l + 1)) l +
  (if (n / N.shiftl 1 l) mod 2 =? 1 then n mod N.shiftl 1 l else 0).

(* n = 2P a + r, r < 2P, P = 2^l *)
Lemma cnt_form n l a r :
  n = 2 * 2 ^ l * a + r -> r < 2 * 2 ^ l ->
  cnt n l = a * 2 ^ l + (r - 2 ^ l) /\ N.testbit n l = negb (r <? 2 ^ l).
Proof.
  intros En Lr. pose proof (pow2_pos l) as PP. set (P := 2 ^ l) in *.
  unfold cnt. rewrite N.shiftl_1_l, N.shiftr_div_pow2, N.shiftl_mul_pow2, pow2_succ, N.testbit_eqb.
  fold P.
  assert (E1 : n / (2 * P) = a).
  { symmetry. apply (N.div_unique n (2 * P) a r); lia. }
  rewrite E1.
  destruct (N.ltb_spec r P) as [Lt|Ge].
  - assert (E2 : n / P = 2 * a) by (symmetry; apply (N.div_unique n P (2 * a) r); lia).
    rewrite E2. replace ((2 * a) mod 2) with 0 by (rewrite N.mul_comm, N.mod_mul; lia).
    cbn [N.eqb negb]. split; [lia | reflexivity].
  - assert (E2 : n / P = 2 * a + 1) by (symmetry; apply (N.div_unique n P (2 * a + 1) (r - P)); lia).
    assert (E3 : n mod P = r - P) by (symmetry; apply (N.mod_unique n P (2 * a + 1) (r - P)); lia).
    rewrite E2, E3.
    replace ((2 * a + 1) mod 2) with 1
      by (rewrite N.add_comm, N.mul_comm, N.mod_add by lia; reflexivity).
    cbn [N.eqb Pos.eqb negb]. split; [lia | reflexivity].
Qed.

Lemma cnt_small n l : n < 2 ^ l -> cnt n l = 0.
Proof.
  intros L. destruct (cnt_form n l 0 n) as [E _]; [lia | lia |]. rewrite E. lia.
Qed.

Lemma cnt_succ n l : cnt (n + 1) l = cnt n l + b2n (N.testbit n l).
Proof.
  pose proof (pow2_pos l) as PP.
  set (a := n / (2 * 2 ^ l)). set (r := n mod (2 * 2 ^ l)).
  assert (En : n = 2 * 2 ^ l * a + r) by (unfold a, r; apply N.div_mod; lia).
  assert (Lr : r < 2 * 2 ^ l) by (unfold r; apply N.mod_lt; lia).
  destruct (cnt_form n l a r En Lr) as [C T]. rewrite C, T.
  destruct (N.eq_dec (r + 1) (2 * 2 ^ l)) as [Eq|Ne].
  - destruct (cnt_form (n + 1) l (a + 1) 0) as [C' _]; [lia | lia |]. rewrite C'.
    destruct (N.ltb_spec r (2 ^ l)); cbn [negb b2n]; lia.
  - destruct (cnt_form (n + 1) l a (r + 1)) as [C' _]; [lia | lia |]. rewrite C'.
    destruct (N.ltb_spec r (2 ^ l)); cbn [negb b2n]; lia.
Qed.

(* ---- the nodesUpto loop is n + sum over l of cnt n l ---- *)
Fixpoint sumcnt (n l : N) (f : nat) : N :=
  match f with O => 0 | S f' => cnt n l + sumcnt n (l + 1) f' end.

Lemma sumcnt_small n : forall f l, n < 2 ^ l -> sumcnt n l f = 0.
Proof.
  induction f as [|f IH]; intros l L; cbn [sumcnt]; [reflexivity|].
  rewrite (cnt_small n l L), IH; [reflexivity|]. rewrite pow2_succ. lia.
Qed.

Lemma nodes_upto_loop_eq n : forall f o l, nodes_upto_loop f n o l = o + sumcnt n l f.
Proof.
  induction f as [|f IH]; intros o l; cbn [nodes_upto_loop sumcnt]; [lia|].
  rewrite N.shiftl_1_l.
  destruct (N.ltb_spec n (2 ^ l)) as [Lt|Ge].
  - rewrite (cnt_small n l Lt), sumcnt_small; [lia|]. rewrite pow2_succ. lia.
  - rewrite IH. unfold cnt. rewrite N.shiftl_1_l.
    destruct ((n / 2 ^ l) mod 2 =? 1); lia.
Qed.

Lemma sumcnt_snoc n : forall f l, sumcnt n l (S f) = sumcnt n l f + cnt n (l + N.of_nat f).
Proof.
  induction f as [|f IH]; intros l.
  - cbn [sumcnt]. replace (l + N.of_nat 0) with l by lia. lia.
  - change (sumcnt n l (S (S f))) with (cnt n l + sumcnt n (l + 1) (S f)).
    rewrite IH. cbn [sumcnt]. replace (l + 1 + N.of_nat f) with (l + N.of_nat (S f)) by lia. lia.
Qed.

(* top-down sums (the recursion of highest_level) *)
Fixpoint sumcntT (n : N) (d : nat) : N :=
  match d with O => 0 | S r => cnt n (N.of_nat r) + sumcntT n r end.

Lemma sumcnt_T n : forall d, sumcnt n 0 d = sumcntT n d.
Proof.
  induction d as [|d IH]; [reflexivity|].
  rewrite sumcnt_snoc, IH. cbn [sumcntT]. replace (0 + N.of_nat d) with (N.of_nat d) by lia. lia.
Qed.

Lemma sumcntT_ext n d : n < 2 ^ N.of_nat d -> forall e, sumcntT n (e + d) = sumcntT n d.
Proof.
  intros L. induction e as [|e IH]; [reflexivity|].
  cbn [plus sumcntT]. rewrite IH, cnt_small; [reflexivity|].
  pose proof (pow2_mono (N.of_nat d) (N.of_nat (e + d))). lia.
Qed.

Lemma nodes_upto_sum n d : (N.size_nat n <= d)%nat -> nodes_upto n = n + sumcntT n d.
Proof.
  intros L. unfold nodes_upto. rewrite nodes_upto_loop_eq, sumcnt_T.
  pose proof (size_nat_gt n) as G.
  replace (S (N.size_nat n)) with (1 + N.size_nat n)%nat by lia.
  rewrite (sumcntT_ext n (N.size_nat n) G 1).
  replace d with ((d - N.size_nat n) + N.size_nat n)%nat by lia.
  rewrite (sumcntT_ext n (N.size_nat n) G). reflexivity.
Qed.

(* ---- set-bit counts ---- *)
Fixpoint pc (w : N) (d : nat) : N :=
  match d with O => 0 | S r => b2n (N.testbit w (N.of_nat r)) + pc w r end.

Lemma highest_level_pc i d : highest_level i d = pc (i - 1) d.
Proof. induction d as [|d IH]; [reflexivity|]. cbn [highest_level pc]. rewrite IH. reflexivity. Qed.

Lemma pc_0 d : pc 0 d = 0.
Proof. induction d as [|d IH]; [reflexivity|]. cbn [pc]. rewrite IH. reflexivity. Qed.

Lemma pc_ext w d : w < 2 ^ N.of_nat d -> forall e, pc w (e + d) = pc w d.
Proof.
  intros L. induction e as [|e IH]; [reflexivity|].
  cbn [plus pc]. rewrite IH, testbit_small; [reflexivity|].
  pose proof (pow2_mono (N.of_nat d) (N.of_nat (e + d))). lia.
Qed.

Lemma pc_ge w d d' : w < 2 ^ N.of_nat d -> (d <= d')%nat -> pc w d' = pc w d.
Proof.
  intros L Le. replace d' with ((d' - d) + d)%nat by lia. apply pc_ext. exact L.
Qed.

Lemma pc_low w : forall f, pc w (S f) = b2n (N.testbit w 0) + pc (N.shiftr w 1) f.
Proof.
  induction f as [|f IH].
  - cbn [pc]. reflexivity.
  - change (pc w (S (S f))) with (b2n (N.testbit w (N.of_nat (S f))) + pc w (S f)).
    rewrite IH. cbn [pc]. rewrite N.shiftr_spec'.
    replace (N.of_nat f + 1) with (N.of_nat (S f)) by lia. lia.
Qed.

Lemma levels_loop_pc : forall fuel w l, levels_loop fuel w l = l + pc w fuel.
Proof.
  induction fuel as [|f IH]; intros w l; cbn [levels_loop]; [cbn [pc]; lia|].
  destruct (N.eqb_spec w 0) as [->|NZ]; [rewrite pc_0; lia|].
  rewrite IH, pc_low, N.bit0_eqb. destruct (w mod 2 =? 1); cbn [b2n]; lia.
Qed.

Lemma levels_at_highest n d : (N.size_nat (n - 1) <= d)%nat -> levels_at n = highest_level n d.
Proof.
  intros L. unfold levels_at. rewrite levels_loop_pc, highest_level_pc.
  pose proof (size_nat_gt (n - 1)) as G.
  rewrite (pc_ge (n - 1) (N.size_nat (n - 1)) (S (N.size_nat (n - 1))) G) by lia.
  rewrite (pc_ge (n - 1) (N.size_nat (n - 1)) d G L). lia.
Qed.

Lemma sumcntT_succ n : forall d, sumcntT (n + 1) d = sumcntT n d + pc n d.
Proof.
  induction d as [|d IH]; [reflexivity|]. cbn [sumcntT pc]. rewrite IH, cnt_succ. lia.
Qed.

Lemma size_nat_lb p : 2 ^ N.of_nat (N.size_nat (N.pos p)) <= 2 * N.pos p.
Proof.
  cbn [N.size_nat].
  induction p as [p IH|p IH|]; cbn [Pos.size_nat].
  - rewrite Nnat.Nat2N.inj_succ, N.pow_succ_r'. lia.
  - rewrite Nnat.Nat2N.inj_succ, N.pow_succ_r'. lia.
  - cbn. lia.
Qed.

Lemma size_nat_mono a b : a <= b -> (N.size_nat a <= N.size_nat b)%nat.
Proof.
  intros L. destruct (Nat.le_gt_cases (N.size_nat a) (N.size_nat b)) as [|G]; [assumption|exfalso].
  destruct a as [|p]; [cbn in G; lia|].
  pose proof (size_nat_gt b) as GB. pose proof (size_nat_lb p) as LA.
  pose proof (pow2_mono (N.of_nat (S (N.size_nat b))) (N.of_nat (N.size_nat (N.pos p)))) as M.
  rewrite Nnat.Nat2N.inj_succ, N.pow_succ_r' in M. lia.
Qed.

(* THE recurrence: appending node n+1 adds one digest plus one per set bit of n *)
Theorem nodes_upto_succ n : nodes_upto (n + 1) = nodes_upto n + 1 + levels_at (n + 1).
Proof.
  set (d := N.size_nat (n + 1)).
  assert (L1 : (N.size_nat n <= d)%nat) by (apply size_nat_mono; lia).
  rewrite (nodes_upto_sum (n + 1) d) by lia.
  rewrite (nodes_upto_sum n d L1).
  rewrite (levels_at_highest (n + 1) d) by (replace (n + 1 - 1) with n by lia; exact L1).
  rewrite sumcntT_succ, highest_level_pc. replace (n + 1 - 1) with n by lia. lia.
Qed.

Lemma nodes_upto_0 : nodes_upto 0 = 0.
Proof. reflexivity. Qed.

Lemma nodes_until_upto n : 1 <= n -> nodes_until n = nodes_upto (n - 1).
Proof.
  intros L. unfold nodes_until. destruct (N.eqb_spec n 1) as [->|]; reflexivity.
Qed.

Lemma nodes_upto_until n : 1 <= n -> nodes_upto n = nodes_until n + 1 + levels_at n.
Proof.
  intros L. rewrite (nodes_until_upto n L).
  replace n with (n - 1 + 1) at 1 3 by lia. apply nodes_upto_succ.
Qed.

(* ---- range bases ---- *)
Definition base (n h : N) : N := N.shiftl (N.shiftr (n - 1) h) h.

Lemma base_0 n : base n 0 = n - 1.
Proof. unfold base. rewrite N.shiftr_0_r, N.shiftl_0_r. reflexivity. Qed.

Lemma base_bounds n h : base n h <= n - 1 < base n h + 2 ^ h.
Proof.
  unfold base. rewrite N.shiftr_div_pow2, N.shiftl_mul_pow2.
  pose proof (pow2_pos h). pose proof (N.div_mod (n - 1) (2 ^ h)).
  pose proof (N.mod_lt (n - 1) (2 ^ h)). lia.
Qed.

Lemma base_succ n h :
  base n (h + 1) + (if N.testbit (n - 1) h then 2 ^ h else 0) = base n h.
Proof.
  unfold base. rewrite !N.shiftr_div_pow2, !N.shiftl_mul_pow2, pow2_succ, N.testbit_eqb.
  pose proof (pow2_pos h) as PP. set (P := 2 ^ h) in *. set (m := n - 1).
  replace (m / (2 * P)) with (m / P / 2) by (rewrite N.div_div by lia; f_equal; lia).
  set (q := m / P).
  assert (Eq : q = 2 * (q / 2) + q mod 2) by (apply N.div_mod; lia).
  pose proof (N.mod_lt q 2 ltac:(lia)) as Lt.
  set (z := q / 2) in *. set (b := q mod 2) in *.
  assert (Eq' : q * P = (2 * z + b) * P) by (rewrite <- Eq; reflexivity).
  destruct (N.eqb_spec b 1) as [E1|E1]; [rewrite E1 in Eq' | assert (b = 0) as E0 by lia; rewrite E0 in Eq']; lia.
Qed.

Lemma base_big n h : n - 1 < 2 ^ h -> base n h = 0.
Proof.
  intros L. unfold base. rewrite N.shiftr_div_pow2, N.div_small by exact L. apply N.shiftl_0_l.
Qed.

(* k = q * 2^l with q odd: the digest at index l of k's group is the complete subtree of 2^l
   leaves ending at k *)
Lemma base_odd_mult q l : N.odd q = true -> base (q * 2 ^ l) l = q * 2 ^ l - 2 ^ l.
Proof.
  intros O. unfold base. rewrite N.shiftr_div_pow2, N.shiftl_mul_pow2.
  pose proof (pow2_pos l) as PP. set (P := 2 ^ l) in *.
  assert (NZ : q <> 0) by (intros ->; discriminate).
  assert (Eq : q = (q - 1) + 1) by lia. set (q' := q - 1) in *. clearbody q'. subst q.
  assert (E : ((q' + 1) * P - 1) / P = q').
  { symmetry. apply (N.div_unique ((q' + 1) * P - 1) P q' (P - 1)); lia. }
  rewrite E. lia.
Qed.

Lemma pc_all_ones w : forall d, (forall r, (r < d)%nat -> N.testbit w (N.of_nat r) = true) ->
  pc w d = N.of_nat d.
Proof.
  induction d as [|d IH]; intros A; [reflexivity|].
  cbn [pc]. rewrite A by lia. rewrite IH by (intros; apply A; lia). cbn [b2n]. lia.
Qed.

Lemma highest_level_odd_mult q (l : nat) :
  N.odd q = true -> highest_level (q * 2 ^ N.of_nat l) l = N.of_nat l.
Proof.
  intros O. rewrite highest_level_pc. apply pc_all_ones. intros r Lr.
  pose proof (pow2_pos (N.of_nat l)) as PP. set (P := 2 ^ N.of_nat l) in *.
  assert (NZ : q <> 0) by (intros ->; discriminate).
  assert (Eq : q = (q - 1) + 1) by lia. set (q' := q - 1) in *. clearbody q'. subst q.
  rewrite <- (N.mod_pow2_bits_low ((q' + 1) * P - 1) (N.of_nat l)) by lia. fold P.
  assert (E : ((q' + 1) * P - 1) mod P = P - 1).
  { symmetry. apply (N.mod_unique ((q' + 1) * P - 1) P q' (P - 1)); lia. }
  rewrite E. unfold P. rewrite <- N.pred_sub, <- N.ones_equiv. apply N.ones_spec_low. lia.
Qed.

(* the Append loop's `k &^ (1 << l)` on k = w << l *)
Lemma clearbit_shiftl w l : N.clearbit (N.shiftl w l) l = N.shiftl (N.shiftr w 1) (l + 1).
Proof.
  apply N.bits_inj. intros i. rewrite N.clearbit_eqb.
  destruct (N.ltb_spec i l) as [Lt|Ge].
  - rewrite !N.shiftl_spec_low by lia. reflexivity.
  - destruct (N.eqb_spec l i) as [->|NE].
    + rewrite (N.shiftl_spec_low (N.shiftr w 1) (i + 1) i) by lia. cbn [negb]. apply andb_false_r.
    + rewrite !N.shiftl_spec_high' by lia. rewrite N.shiftr_spec'. cbn [negb]. rewrite andb_true_r.
      f_equal. lia.
Qed.

Lemma shiftr_shiftr1 m l : N.shiftr (N.shiftr m l) 1 = N.shiftr m (l + 1).
Proof. rewrite N.shiftr_shiftr. reflexivity. Qed.

Lemma odd_mod2 w : (w mod 2 =? 1) = N.odd w.
Proof. rewrite <- N.bit0_eqb. apply N.bit0_odd. Qed.
