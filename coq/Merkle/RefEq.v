(* The level-by-level construction (htree.BuildWith / what the AHtree maintains) builds exactly the
   reference RFC 6962 tree: root (map Leaf L) = mk_tree L. *)
From V Require Import Merkle.Ref Merkle.Levels.
From Coq Require Import Lia Arith ZifyN ZifyNat ZifyBool.

Open Scope nat_scope.

Lemma upT_app_even a b : Nat.even (length a) = true -> upT (a ++ b) = upT a ++ upT b.
Proof.
  induction a as [| x | x y r IH] using pair_ind; intros E; simpl in *; auto; try discriminate.
  rewrite IH; auto.
Qed.

Lemma firstn_upT ts : forall k, 2 * k <= length ts -> firstn k (upT ts) = upT (firstn (2 * k) ts).
Proof.
  induction ts as [| x | x y r IH] using pair_ind; intros k Hk; simpl in Hk.
  - destruct k; reflexivity.
  - destruct k; [reflexivity | lia].
  - destruct k as [|k]; [reflexivity|].
    replace (2 * S k) with (S (S (2 * k))) by lia.
    cbn [upT firstn]. rewrite IH by lia. reflexivity.
Qed.

Lemma skipn_upT ts : forall k, 2 * k <= length ts -> skipn k (upT ts) = upT (skipn (2 * k) ts).
Proof.
  induction ts as [| x | x y r IH] using pair_ind; intros k Hk; simpl in Hk.
  - destruct k; reflexivity.
  - destruct k; [reflexivity | lia].
  - destruct k as [|k]; [reflexivity|].
    replace (2 * S k) with (S (S (2 * k))) by lia.
    cbn [upT skipn]. rewrite IH by lia. reflexivity.
Qed.

Lemma root_upT ts : 1 <= length ts -> root (upT ts) = root ts.
Proof.
  intros H1. destruct ts as [|a [|b r]]; simpl in H1; try lia.
  - reflexivity.
  - symmetry. apply root_step. simpl. lia.
Qed.

(* RFC 6962 split: the root of a level of more than 2^a and at most 2^(a+1) nodes has the roots of
   the first 2^a nodes and of the rest as children *)
Lemma root_split a : forall ts,
  2 ^ a < length ts <= 2 ^ (S a) ->
  root ts = Node (root (firstn (2 ^ a) ts)) (root (skipn (2 ^ a) ts)).
Proof.
  induction a as [|a IH]; intros ts Hl.
  - simpl in Hl. destruct ts as [|x [|y [|z r]]]; simpl in Hl; try lia. reflexivity.
  - assert (H2 : 2 <= length ts) by (pose proof (Nat.pow_nonzero 2 (S a)); lia).
    rewrite (root_step ts H2).
    assert (Hu : 2 ^ a < length (upT ts) <= 2 ^ S a).
    { rewrite upT_length. rewrite Nat.div2_div. cbn [Nat.pow] in Hl |- *. lia. }
    rewrite (IH (upT ts) Hu).
    assert (Hk : 2 * 2 ^ a <= length ts) by (cbn [Nat.pow] in Hl; lia).
    rewrite firstn_upT, skipn_upT by exact Hk.
    replace (2 * 2 ^ a) with (2 ^ S a) by (cbn [Nat.pow]; lia).
    rewrite !root_upT.
    + reflexivity.
    + rewrite skipn_length. lia.
    + rewrite firstn_length. pose proof (Nat.pow_nonzero 2 (S a)). lia.
Qed.

Lemma takeN_firstn {A} (l : list A) : forall n, takeN n l = firstn (N.to_nat n) l.
Proof.
  induction l as [|x l IH]; intros n; cbn [takeN].
  - destruct (N.to_nat n); reflexivity.
  - destruct (N.eqb_spec n 0) as [->|NZ]; [reflexivity|].
    replace (N.to_nat n) with (S (N.to_nat (n - 1))) by lia. cbn [firstn]. rewrite IH. reflexivity.
Qed.
Lemma dropN_skipn {A} (l : list A) : forall n, dropN n l = skipn (N.to_nat n) l.
Proof.
  induction l as [|x l IH]; intros n; cbn [dropN].
  - destruct (N.to_nat n); reflexivity.
  - destruct (N.eqb_spec n 0) as [->|NZ]; [reflexivity|].
    replace (N.to_nat n) with (S (N.to_nat (n - 1))) by lia. cbn [skipn]. rewrite IH. reflexivity.
Qed.

Lemma pow_N_nat h : N.to_nat (2 ^ N.of_nat h) = 2 ^ h.
Proof. rewrite N2Nat.inj_pow, Nat2N.id. reflexivity. Qed.

Definition lv0 (L : list bytes) : list tree := map Leaf L.

Lemma root_is_mk h : forall l,
  1 <= length l <= 2 ^ h -> root (lv0 l) = mk h l.
Proof.
  induction h as [|h IH]; intros l Hl.
  - simpl in Hl. destruct l as [|d [|e l]]; simpl in Hl; try lia. reflexivity.
  - cbn [mk]. pose proof (pow_N_nat h) as PN.
    destruct (N.leb_spec (N.of_nat (length l)) (2 ^ N.of_nat h)) as [Le|Gt].
    + apply IH. lia.
    + assert (Hs : 2 ^ h < length (lv0 l) <= 2 ^ S h).
      { unfold lv0. rewrite map_length. cbn [Nat.pow] in *. lia. }
      rewrite (root_split h (lv0 l) Hs). unfold lv0.
      rewrite firstn_map, skipn_map.
      rewrite takeN_firstn, dropN_skipn, PN.
      fold (lv0 (firstn (2 ^ h) l)). fold (lv0 (skipn (2 ^ h) l)).
      rewrite !IH; [reflexivity | |].
      * rewrite skipn_length. cbn [Nat.pow] in Hl. lia.
      * rewrite firstn_length. pose proof (Nat.pow_nonzero 2 h). lia.
Qed.

Theorem level_root_is_reference (L : list bytes) : L <> [] -> root (lv0 L) = mk_tree L.
Proof.
  intros Hne. unfold mk_tree. apply root_is_mk.
  assert (1 <= length L) by (destruct L; simpl; [congruence | lia]).
  split; auto.
  set (n := N.of_nat (length L)).
  assert (Hn : (n <= 2 ^ N.log2_up n)%N).
  { destruct (N.eq_dec n 1) as [->|NE]; [simpl; lia|]. apply N.log2_up_spec. lia. }
  rewrite <- (Nat2N.id (length L)). fold n.
  rewrite <- (N2Nat.id (N.log2_up n)) in Hn.
  rewrite <- pow_N_nat. lia.
Qed.
