(* What the inclusion verifiers guarantee against an ARBITRARY root (one that need not be the root
   of any genuine tree): since the proof length is a function of the claimed position
   (ahtree.inclusionProofLen), two accepted proofs for the same (i, j, root) hash along the same
   directions, hence carry the same leaf AND the same terms — or exhibit a collision. *)
From V Require Import Merkle.Verify Merkle.Sound.
From Coq Require Import Lia ZifyN ZifyNat ZifyBool.
Open Scope N_scope.

Section Unique.
Variable H : bytes -> bytes.
Hypothesis H_len : forall x, length (H x) = 32%nat.
Notation Collision := (Collision H).
Notation climb := (climb H).

(* two chains with the same directions that end in the same value are equal, link by link *)
Lemma climb_inj : forall (s1 s2 : list (bool * bytes)) (c1 c2 : bytes),
  map fst s1 = map fst s2 -> terms_ok s1 -> terms_ok s2 ->
  length c1 = 32%nat -> length c2 = 32%nat ->
  climb s1 c1 = climb s2 c2 -> (c1 = c2 /\ s1 = s2) \/ Collision.
Proof.
  induction s1 as [|[d1 h1] r1 IH]; intros [|[d2 h2] r2] c1 c2 D O1 O2 L1 L2 E;
    cbn [map fst] in D; try discriminate.
  - left. auto.
  - injection D as Dd Dr. subst d2.
    inversion O1 as [|? ? Lh1 O1']; subst. inversion O2 as [|? ? Lh2 O2']; subst.
    cbn [snd] in Lh1, Lh2. cbn [Tree.climb fold_left] in E.
    fold (climb r1 (step H c1 (d1, h1))) in E. fold (climb r2 (step H c2 (d1, h2))) in E.
    assert (S1 : length (step H c1 (d1, h1)) = 32%nat) by (unfold step, nodeh; destruct d1; apply H_len).
    assert (S2 : length (step H c2 (d1, h2)) = 32%nat) by (unfold step, nodeh; destruct d1; apply H_len).
    destruct (IH r2 _ _ Dr O1' O2' S1 S2 E) as [[Es Er]|C]; [|right; exact C].
    unfold step in Es. cbn [fst snd] in Es. destruct d1.
    + destruct (nodeh_inj H c1 h1 c2 h2 ltac:(congruence) Es) as [[-> ->]|C]; [left; subst; auto | right; exact C].
    + destruct (nodeh_inj H h1 c1 h2 c2 ltac:(congruence) Es) as [[-> ->]|C]; [left; subst; auto | right; exact C].
Qed.

Lemma incl_steps_dirs : forall t1 t2 x y, length t1 = length t2 ->
  map fst (incl_steps t1 x y) = map fst (incl_steps t2 x y).
Proof.
  induction t1 as [|h1 r1 IH]; intros [|h2 r2] x y L; cbn [length] in L; try discriminate; [reflexivity|].
  cbn [incl_steps map fst]. f_equal. apply IH. lia.
Qed.

Lemma incl_steps_terms : forall t x y, map snd (incl_steps t x y) = t.
Proof. induction t as [|h r IH]; intros x y; cbn [incl_steps map snd]; [reflexivity|]. rewrite IH. reflexivity. Qed.

Theorem inclusion_unique (t1 t2 : list bytes) (i j : N) (a b root : bytes) :
  len32 t1 -> len32 t2 ->
  verify_inclusion H t1 i j (leafh H a) root = true ->
  verify_inclusion H t2 i j (leafh H b) root = true ->
  (a = b /\ t1 = t2) \/ Collision.
Proof.
  intros F1 F2 V1 V2. unfold verify_inclusion in V1, V2.
  destruct ((j <? i) || (i =? 0) || (i <? j) && (lenN t1 =? 0)); [discriminate|].
  destruct ((j <? i) || (i =? 0) || (i <? j) && (lenN t2 =? 0)); [discriminate|].
  destruct (N.eqb_spec (lenN t1) (inclusion_proof_len i j)) as [L1|]; [|discriminate].
  destruct (N.eqb_spec (lenN t2) (inclusion_proof_len i j)) as [L2|]; [|discriminate].
  cbn [negb] in V1, V2.
  apply list_eqb_eq in V1. apply list_eqb_eq in V2. rewrite eval_inclusion_climb in V1, V2.
  assert (L : length t1 = length t2) by (unfold lenN in *; lia).
  destruct (climb_inj _ _ (leafh H a) (leafh H b) (incl_steps_dirs t1 t2 (i - 1) (j - 1) L)
              (incl_steps_ok t1 _ _ F1) (incl_steps_ok t2 _ _ F2) (H_len _) (H_len _))
    as [[El Es]|C]; [congruence | | right; exact C].
  destruct (leafh_inj H _ _ El) as [->|C]; [|right; exact C].
  left. split; [reflexivity|].
  rewrite <- (incl_steps_terms t1 (i - 1) (j - 1)), <- (incl_steps_terms t2 (i - 1) (j - 1)), Es. reflexivity.
Qed.

Lemma last_steps_dirs : forall t1 t2, length t1 = length t2 ->
  map fst (last_steps t1) = map fst (last_steps t2).
Proof.
  unfold last_steps. induction t1 as [|h1 r1 IH]; intros [|h2 r2] L; cbn [length] in L; try discriminate; [reflexivity|].
  cbn [map fst]. f_equal. apply IH. lia.
Qed.

Theorem last_inclusion_unique (t1 t2 : list bytes) (i : N) (a b root : bytes) :
  len32 t1 -> len32 t2 ->
  verify_last_inclusion H t1 i (leafh H a) root = true ->
  verify_last_inclusion H t2 i (leafh H b) root = true ->
  (a = b /\ t1 = t2) \/ Collision.
Proof.
  intros F1 F2 V1 V2. unfold verify_last_inclusion in V1, V2.
  destruct (i =? 0); [discriminate|]. cbn [orb] in V1, V2.
  destruct (N.eqb_spec (lenN t1) (inclusion_proof_len i i)) as [L1|]; [|discriminate].
  destruct (N.eqb_spec (lenN t2) (inclusion_proof_len i i)) as [L2|]; [|discriminate].
  cbn [negb] in V1, V2. apply list_eqb_eq in V1. apply list_eqb_eq in V2.
  rewrite eval_last_climb in V1, V2.
  assert (L : length t1 = length t2) by (unfold lenN in *; lia).
  assert (O : forall t, len32 t -> terms_ok (last_steps t)).
  { intros t F. unfold last_steps, terms_ok. apply Forall_map. cbn [snd]. exact F. }
  destruct (climb_inj _ _ (leafh H a) (leafh H b) (last_steps_dirs t1 t2 L) (O t1 F1) (O t2 F2) (H_len _) (H_len _))
    as [[El Es]|C]; [congruence | | right; exact C].
  destruct (leafh_inj H _ _ El) as [->|C]; [|right; exact C].
  left. split; [reflexivity|].
  assert (M : forall t, map snd (last_steps t) = t).
  { unfold last_steps. intros t. rewrite map_map. cbn [snd]. apply map_id. }
  rewrite <- (M t1), <- (M t2), Es. reflexivity.
Qed.

End Unique.

(* premises satisfiable: the empty proof of the only leaf of a one-leaf tree, for any H *)
Example inclusion_unique_premises_sat (H : bytes -> bytes) :
  verify_inclusion H [] 1 1 (leafh H [7]) (leafh H [7]) = true.
Proof.
  unfold verify_inclusion. cbn. unfold bytes_eqb.
  induction (leafh H [7]) as [|x l IH]; cbn [list_eqb]; [reflexivity|]. rewrite N.eqb_refl. exact IH.
Qed.
