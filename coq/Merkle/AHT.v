(* embedded/ahtree/ahtree.go: the append-only hash tree AS THE CODE STORES IT.
   State = payload log + DIGEST LOG (the .sha appendable, one entry per stored node) + the two
   sizes the code tracks (cLogSize/12 = tree size, dLogSize/32 = number of valid digests).
   ResetSize only rewinds the sizes: the files keep their stale tails (an appendable never
   truncates on SetOffset), later appends overwrite them in place — modelled as such.
   The digest cache is left out: it is a read-through cache of the digest log (Put on append /
   read, Pop of every rewound index in ResetSize); the tie compares the model's log with what
   nodeAt returns THROUGH the cache.
   uint64 arithmetic is modelled in N without wrap-around: the functions agree for sizes < 2^58
   (nodesUpto(n) <= 65 n); at n = 0 Go's `n-1` wraps: nodesUntil(0) = nodesUpto(2^64-1) divides by
   1<<64 = 0 and PANICS — no longer reachable: since /repo 172c7ab the public InclusionProof /
   ConsistencyProof reject i = 0 (hence j = 0), rootAt rejects n = 0, Append reads node(k,l) with
   k >= 1 only.  No proofs in this file. *)
From V Require Export Merkle.Verify.

Section AHT.
Variable H : bytes -> bytes.
Notation nodeh := (nodeh H).
Notation leafh := (leafh H).

(* ---- index arithmetic ---- *)

(* func nodesUpto(n uint64) uint64 { o := n; l := 0; for { if n < (1 << l) { break } ... l++ } } *)
Fixpoint nodes_upto_loop (fuel : nat) (n o l : N) : N :=
  match fuel with
  | O => o
  | S f =>
      if n <? N.shiftl 1 l then o else
      let o1 := o + N.shiftl (N.shiftr n (l + 1)) l in
      let o2 := if (n / N.shiftl 1 l) mod 2 =? 1 then o1 + n mod N.shiftl 1 l else o1 in
      nodes_upto_loop f n o2 (l + 1)
  end.
Definition nodes_upto (n : N) : N := nodes_upto_loop (S (N.size_nat n)) n n 0.

(* func nodesUntil(n uint64) uint64 { if n == 1 { return 0 }; return nodesUpto(n - 1) } *)
Definition nodes_until (n : N) : N := if n =? 1 then 0 else nodes_upto (n - 1).

(* func levelsAt(n uint64) int { w := n - 1; l := 0; for w > 0 { if w%2 == 1 { l++ }; w >>= 1 } } *)
Fixpoint levels_loop (fuel : nat) (w l : N) : N :=
  match fuel with
  | O => l
  | S f => if w =? 0 then l else levels_loop f (N.shiftr w 1) (if w mod 2 =? 1 then l + 1 else l)
  end.
Definition levels_at (n : N) : N := levels_loop (S (N.size_nat (n - 1))) (n - 1) 0.

(* highestNode(i, d): l := 0; for r := d-1; r >= 0; r-- { if (i-1)&(1<<r) > 0 { l++ } } *)
Fixpoint highest_level (i : N) (d : nat) : N :=
  match d with
  | O => 0
  | S r => (if N.testbit (i - 1) (N.of_nat r) then 1 else 0) + highest_level i r
  end.

(* ---- state ---- *)
Record aht := mkAht {
  plog : list bytes;   (* payloads in the order of the commit log, incl. a stale tail *)
  dlog : list bytes;   (* the digest log file, incl. a stale tail *)
  size : N;            (* cLogSize / cLogEntrySize *)
  dsize : N            (* dLogSize / sha256.Size *)
}.

Definition aht_empty : aht := mkAht [] [] 0 0.

Definition EUnexistent : N := 10.
Definition EEmptyTree : N := 11.
Definition ECannotReset : N := 12.
Definition ECorruptedDigests : N := 13.

(* nodeAt(i): dCache, else dLog.ReadAt(h, i*32): an error beyond the end of the file, whatever the
   file holds (stale or not) otherwise *)
Definition node_at (t : aht) (i : N) : res bytes :=
  match nth_error (dlog t) (N.to_nat i) with Some h => Ok h | None => Err EOther end.

Definition node (t : aht) (n l : N) : res bytes := node_at t (nodes_until n + l).

Definition highest_node (t : aht) (i : N) (d : nat) : res bytes := node t i (highest_level i d).

(* SetOffset(off) then Append(new): since /repo 09014a8 SetOffset drops everything behind `off`
   (singleapp truncates the file, multiapp removes the later chunk files) *)
Definition write_at {A} (l : list A) (off : N) (new : list A) : list A :=
  firstn (N.to_nat off) l ++ new.

(* ---- Append: the w,l,k loop ---- *)
Fixpoint append_loop (t : aht) (fuel : nat) (w l k : N) (h : bytes) (digs : list bytes)
  : res (bytes * list bytes) :=
  match fuel with
  | O => Ok (h, digs)
  | S f =>
      if w =? 0 then Ok (h, digs) else
      if w mod 2 =? 1 then
        do hkl <- node t k l;
        let h' := nodeh hkl h in
        append_loop t f (N.shiftr w 1) (l + 1) (N.clearbit k l) h' (digs ++ [h'])
      else
        append_loop t f (N.shiftr w 1) (l + 1) (N.clearbit k l) h digs
  end.

Definition append (t : aht) (d : bytes) : res (aht * (N * bytes)) :=
  let n := size t + 1 in
  let h := leafh d in
  do r <- append_loop t (S (N.size_nat (n - 1))) (n - 1) 0 (n - 1) h [h];
  let '(h', digs) := r in
  (* dLog.SetOffset(dLogSize) fails beyond the end of the file *)
  if lenN (dlog t) <? dsize t then Err EOther else
  Ok (mkAht (write_at (plog t) (size t) [d]) (write_at (dlog t) (dsize t) digs)
            n (dsize t + lenN digs), (n, h')).

(* ---- ResetSize ---- *)
Definition reset_size (t : aht) (newSize : N) : res aht :=
  if size t <? newSize then Err ECannotReset else
  if size t =? newSize then Ok t else
  let dsz := if 0 <? newSize then nodes_upto newSize else 0 in
  if (0 <? newSize) && (lenN (dlog t) <? dsz) then Err ECorruptedDigests else
  Ok (mkAht (plog t) (dlog t) newSize dsz).

(* ---- rootAt ---- *)
Definition root_at (t : aht) (n : N) : res bytes :=
  if n =? 0 then Err EIllegalArguments else
  if size t =? 0 then Err EEmptyTree else
  if size t <? n then Err EUnexistent else
  node_at t (nodes_until n + levels_at n).

(* ---- inclusionProof(i, j, height): `fuel` is the loop variable h+1; the recursive call
   inclusionProof(i, k, h) and the next loop iteration are both calls at fuel h.  `acc` is the
   Go variable `proof` (terms are prepended). ---- *)
Fixpoint inclusion_loop (t : aht) (fuel : nat) (i j : N) (acc : list bytes) : res (list bytes) :=
  match fuel with
  | O => Ok acc
  | S h =>
      let hN := N.of_nat h in
      if N.testbit (j - 1) hN then
        let k := N.shiftl (N.shiftr (j - 1) hN) hN in
        if i <=? k then
          do hn <- highest_node t j h;
          do p <- inclusion_loop t h i k [];
          Ok (p ++ hn :: acc)
        else
          do n <- node t k hN;
          inclusion_loop t h i j (n :: acc)
      else inclusion_loop t h i j acc
  end.

(* bits.Len64(j-1) *)
Definition height_of (j : N) : nat := N.size_nat (j - 1).

(* since /repo 172c7ab: `if i == 0 || i > j { return nil, ErrIllegalArguments }` (before it,
   InclusionProof(0,0) wrapped j-1 to 2^64-1 and divided by 1<<64 in nodesUpto) *)
Definition inclusion_proof (t : aht) (i j : N) : res (list bytes) :=
  if (i =? 0) || (j <? i) then Err EIllegalArguments else
  if size t <? j then Err EUnexistent else
  inclusion_loop t (height_of j) i j [].

(* ---- consistencyProof(i, j, height) ---- *)
Fixpoint consistency_loop (t : aht) (fuel : nat) (i j : N) (acc : list bytes) : res (list bytes) :=
  match fuel with
  | O => Ok acc
  | S h =>
      let hN := N.of_nat h in
      if N.testbit (j - 1) hN then
        let k := N.shiftl (N.shiftr (j - 1) hN) hN in
        if i <=? k then
          do hn <- highest_node t j h;
          let acc1 := hn :: acc in
          do acc2 <- (if i <? k then do p <- consistency_loop t h i k []; Ok (p ++ acc1) else Ok acc1);
          do acc3 <- (if i =? k then do hi <- highest_node t i h; Ok (hi :: acc2) else Ok acc2);
          Ok acc3
        else
          do n <- node t k hN;
          let acc1 := n :: acc in
          if i =? j then
            do hi <- highest_node t i h;
            Ok (hi :: acc1)
          else consistency_loop t h i j acc1
      else consistency_loop t h i j acc
  end.

Definition consistency_proof (t : aht) (i j : N) : res (list bytes) :=
  if (i =? 0) || (j <? i) then Err EIllegalArguments else
  if size t <? j then Err EUnexistent else
  consistency_loop t (height_of j) i j [].

(* ---- histories ---- *)
Inductive aop := OAppend (d : bytes) | OReset (k : N).

(* a failed operation leaves the sizes unchanged (what it wrote lies beyond them) *)
Definition aht_step (t : aht) (o : aop) : aht :=
  match o with
  | OAppend d => match append t d with Ok (t', _) => t' | _ => t end
  | OReset k => match reset_size t k with Ok t' => t' | _ => t end
  end.

Definition aht_run (ops : list aop) : aht := fold_left aht_step ops aht_empty.

(* ---- Sync / Close / Open.  The commit log (12 bytes per element) is written by sync():
   `cLog.SetOffset(latestSyncedNode*12)` followed by the buffered entries (nothing when no append
   is buffered); SetOffset TRUNCATES the file there (/repo 09014a8).  ResetSize(k), k < size, calls
   sync() and then cuts the commit log itself: `cLog.SetOffset(k*12)` (/repo 6a85281).  OpenWith
   RE-DERIVES the sizes from the file: size = number of entries, dLogSize = nodesUpto(size), after
   checking that the payload and digest logs are long enough.
   State of a run: (tree, entries in the commit-log file, "an append is buffered"). ---- *)
Definition ECorruptedData : N := 14.
Definition reopen_at (t : aht) (centries : N) : res aht :=
  if lenN (plog t) <? centries then Err ECorruptedData else
  if lenN (dlog t) <? nodes_upto centries then Err ECorruptedDigests else
  Ok (mkAht (plog t) (dlog t) centries (nodes_upto centries)).

Record run2 := mkRun { rtree : aht; centries : N; dirty : bool }.

(* sync(): with a buffered append the file is cut at latestSyncedNode and extended to `size` *)
Definition sync2 (s : run2) : run2 :=
  if dirty s then mkRun (rtree s) (size (rtree s)) false else s.

(* A2 = Append, R2 = ResetSize, Reopen2 = Close + Open,
   Crash2 c = Close, then Open on a COPY whose commit log was cut to c entries while the payload
   and digest logs were left as they are (the image a crash leaves when the payload and digest
   logs were flushed and the commit-log entries of the last appends were not yet synced) *)
Inductive aop2 := A2 (d : bytes) | R2 (k : N) | Reopen2 | Crash2 (c : N).

Definition aht_step2 (s : run2) (o : aop2) : run2 :=
  match o with
  | A2 d => match append (rtree s) d with
            | Ok (t', _) => mkRun t' (centries s) true
            | _ => s
            end
  | R2 k =>
      (* size < k: error; size = k: nothing, both before sync() *)
      if size (rtree s) <=? k then s else
      let s' := sync2 s in
      match reset_size (rtree s') k with Ok t' => mkRun t' k false | _ => s' end
  | Reopen2 =>
      let s' := sync2 s in
      match reopen_at (rtree s') (centries s') with Ok t' => mkRun t' (centries s') false | _ => s' end
  | Crash2 c =>
      let s' := sync2 s in
      if centries s' <? c then s' else
      match reopen_at (rtree s') c with Ok t' => mkRun t' c false | _ => s' end
  end.

Definition aht_run2 (ops : list aop2) : run2 := fold_left aht_step2 ops (mkRun aht_empty 0 false).

(* the same history for a tree that never restarts: restarts dropped, a crash image = a rewind *)
Fixpoint strip2 (ops : list aop2) : list aop :=
  match ops with
  | [] => []
  | A2 d :: r => OAppend d :: strip2 r
  | R2 k :: r => OReset k :: strip2 r
  | Reopen2 :: r => strip2 r
  | Crash2 c :: r => OReset c :: strip2 r
  end.

(* the abstract content: the payloads below the size *)
Definition payloads (t : aht) : list bytes := firstn (N.to_nat (size t)) (plog t).

End AHT.
