(* C07: a replica fed with unaltered exports, under every schedule, holds a prefix of the
   primary's history (replica_prefix).  (Before /repo commit 7c27871 performPrecommit left the BlRoot
   of the pooled tx holder's previous use in a header with BlTxID = 0 and this theorem was refuted by
   deliver 1, deliver 2, discard since 1, deliver 1; the harness still runs that schedule.) *)
From V Require Import Repl.Spec Repl.Lemmas.
From Coq Require Import ZifyN ZifyNat ZifyBool.

Section Prefix.
Variable H : bytes -> bytes.

(* ---- what an accepted delivery has established ---- *)
Lemma precheck_inv c skip st b k : precheck H c skip st b = Ok k ->
  exists hdr xes tr,
    repl_parse b = Ok (hdr, xes, tr) /\ k_hdr k = hdr /\ k_ents k = map (mk_rentry H tr) xes /\
    eh_of H (h_version hdr) (k_ents k) = Ok (k_eh k) /\ (skip = false -> k_eh k = h_eh hdr) /\
    h_id hdr = pre_id st + 1 /\
    k_blroot k = (if 0 <? h_bltxid hdr then root_at H (h_bltxid hdr) (alhs st) else zeros32) /\
    k_blroot k = h_blroot hdr /\ pre_alh H st = h_prevalh hdr.
Proof.
  unfold precheck. intros E.
  destruct (repl_parse b) as [[[hdr xes] tr]| |] eqn:Ep; cbn [bind] in E; try discriminate.
  destruct (negb (forallb _ xes)); try discriminate.
  destruct (has_dup _); try discriminate.
  destruct (c_maxTxEntries c <? lenN xes); try discriminate.
  destruct (eh_of H (h_version hdr) (map (mk_rentry H tr) xes)) as [eh| |] eqn:Eeh; cbn [bind] in E; try discriminate.
  destruct (negb skip && negb (beq eh (h_eh hdr))) eqn:Esk; try discriminate.
  destruct (N.leb_spec (h_id hdr) (pre_id st)); try discriminate.
  destruct (pre_id st + c_maxActive c <? h_id hdr); try discriminate.
  destruct (N.ltb_spec (pre_id st) (h_id hdr - 1)); try discriminate.
  destruct (negb (beq _ (h_blroot hdr))) eqn:Ebl; try discriminate.
  destruct (negb (beq (pre_alh H st) (h_prevalh hdr))) eqn:Epa; try discriminate.
  inversion E; subst k; clear E. cbn [k_hdr k_ents k_eh k_blroot].
  exists hdr, xes, tr. repeat split; auto.
  - intros ->. simpl in Esk. apply negb_false_iff in Esk. apply beq_eq; auto.
  - lia.
  - apply negb_false_iff in Ebl. apply beq_eq; auto.
  - apply negb_false_iff in Epa. apply beq_eq; auto.
Qed.

(* ---- the export of a valid primary record parses back to the record ---- *)
Lemma valid_conj id p : rec_valid H id p = true ->
  txhdr_valid (t_hdr p) = true /\ md_canonical (h_md (t_hdr p)) = true /\ h_id (t_hdr p) = id /\
  h_nentries (t_hdr p) = lenN (t_ents p) /\ forallb (entry_valid H) (t_ents p) = true /\
  eh_of H (h_version (t_hdr p)) (t_ents p) = Ok (h_eh (t_hdr p)) /\ t_alh p = alh H (t_hdr p).
Proof.
  unfold rec_valid. intros V.
  do 6 (apply andb_prop in V as [V ?]).
  repeat split; auto.
  - apply N.eqb_eq; auto.
  - apply N.eqb_eq; auto.
  - destruct (eh_of H _ _) as [eh| |]; try discriminate. f_equal. apply beq_eq; auto.
  - apply beq_eq; auto.
Qed.

Lemma hdr_canon_id h : md_canonical (h_md h) = true -> hdr_canon h = h.
Proof.
  destruct h as [a b c d m e f g i]; unfold hdr_canon; simpl. intros M. f_equal.
  destruct m as [m|]; simpl in *; auto. destruct (len (txmd_bytes m) =? 0); simpl in M; [discriminate|auto].
Qed.

Lemma entry_valid_conj e : entry_valid H e = true ->
  xentry_valid (xe_of false e) = true /\ xentry_valid (xe_of true e) = true /\
  okvmd_canon (re_md e) = re_md e /\ hash_ok (re_hval e) = true /\
  exists v, re_val e = Some v /\ re_hval e = H v.
Proof.
  unfold entry_valid. intros V. do 4 (apply andb_prop in V as [V ?]).
  repeat split; auto.
  - destruct (re_md e) as [m|]; simpl in *; auto.
    destruct (len (kvmd_bytes m) =? 0); simpl in *; [discriminate|auto].
  - destruct (re_val e) as [v|]; [|discriminate]. exists v. split; auto. apply beq_eq; auto.
Qed.

Lemma digest32_id v : hash_ok v = true -> digest32 v = v.
Proof.
  unfold hash_ok, digest32. intros V. apply andb_prop in V as [V _]. apply N.eqb_eq in V.
  unfold hsize. rewrite <- V. apply take_app_exact.
Qed.

Lemma mk_rentry_xe tr e : entry_valid H e = true ->
  mk_rentry H tr (xe_of tr e) = if tr then forget_entry e else e.
Proof.
  intros V. destruct (entry_valid_conj e V) as (_ & _ & _ & Hh & v & Ev & Eh).
  unfold mk_rentry, xe_of, forget_entry. destruct tr; cbn [x_key x_md x_val].
  - rewrite digest32_id by auto. reflexivity.
  - destruct e as [k m hv vv]; simpl in *. subst. reflexivity.
Qed.

Lemma xe_canon tr e : entry_valid H e = true -> xentry_canon (xe_of tr e) = xe_of tr e.
Proof.
  intros V. destruct (entry_valid_conj e V) as (_ & _ & C & _).
  unfold xentry_canon, xe_of. cbn [x_key x_md x_val]. rewrite C. reflexivity.
Qed.

Lemma export_parse id p tr b : rec_valid H id p = true -> export_rec tr p = Ok b ->
  repl_parse b = Ok (t_hdr p, map (xe_of tr) (t_ents p), tr).
Proof.
  intros V E. destruct (valid_conj _ _ V) as (V1 & V2 & V3 & V4 & V5 & _).
  unfold export_rec in E. destruct (txhdr_bytes (t_hdr p)) as [hb| |] eqn:Eb; cbn [bind] in E; try discriminate.
  inversion E; subst b; clear E.
  rewrite (export_roundtrip (t_hdr p) (map (xe_of tr) (t_ents p)) tr hb); auto.
  - rewrite hdr_canon_id by auto. f_equal. f_equal. f_equal.
    rewrite map_map. apply map_ext_in. intros e I. apply xe_canon.
    rewrite forallb_forall in V5. auto.
  - rewrite forallb_forall. intros x I. apply in_map_iff in I as [e [<- I]].
    rewrite forallb_forall in V5. specialize (V5 e I).
    destruct (entry_valid_conj e V5) as (X1 & X2 & _). destruct tr; auto.
  - rewrite map_length. rewrite V4. reflexivity.
Qed.

(* ExportTx succeeds on every valid record *)
Lemma export_total id p tr : rec_valid H id p = true -> exists b, export_rec tr p = Ok b.
Proof.
  intros V. destruct (valid_conj _ _ V) as (V1 & _).
  destruct (txhdr_roundtrip _ V1) as [hb [Eb _]]. unfold export_rec. rewrite Eb. cbn [bind]. eauto.
Qed.

(* entry digests do not look at the value *)
Lemma digests_forget v es : digests H v (map forget_entry es) = digests H v es.
Proof. induction es as [|e es IH]; simpl; auto. rewrite IH. reflexivity. Qed.

Lemma ents_roundtrip tr es : forallb (entry_valid H) es = true ->
  map (mk_rentry H tr) (map (xe_of tr) es) = if tr then map forget_entry es else es.
Proof.
  intros V. rewrite map_map. rewrite forallb_forall in V.
  destruct tr.
  - apply map_ext_in. intros e I. apply (mk_rentry_xe true). auto.
  - rewrite <- (map_id es) at 2. apply map_ext_in. intros e I. apply (mk_rentry_xe false). auto.
Qed.

Lemma eh_roundtrip v tr es : forallb (entry_valid H) es = true ->
  eh_of H v (map (mk_rentry H tr) (map (xe_of tr) es)) = eh_of H v es.
Proof.
  intros V. rewrite ents_roundtrip by auto. destruct tr; auto.
  unfold eh_of. rewrite digests_forget. reflexivity.
Qed.

(* export_replicate_roundtrip: the bytes ExportTx produces for a valid record are parsed by
   ReplicateTx into the same header, keys, metadata and values (or carried digests), and the
   entries it then precommits are the primary's (without the values when they were truncated) *)
Theorem export_replicate_roundtrip id p tr :
  rec_valid H id p = true ->
  exists b, export_rec tr p = Ok b /\
            repl_parse b = Ok (t_hdr p, map (xe_of tr) (t_ents p), tr) /\
            map (mk_rentry H tr) (map (xe_of tr) (t_ents p))
            = (if tr then map forget_entry (t_ents p) else t_ents p).
Proof.
  intros V. destruct (export_total id p tr V) as [b Eb]. exists b. split; auto. split.
  - eapply export_parse; eauto.
  - apply ents_roundtrip. apply (valid_conj _ _ V).
Qed.

(* ---- the invariant ---- *)
Variable c : cfg.
Variable P : list txrec.
Hypothesis PV : primary_valid H P = true.

Definition genuine (r : txrec) : Prop := exists j p, nth_error P j = Some p /\ matches r p.
Definition ids (l : list txrec) : Prop :=
  forall i r, nth_error l i = Some r -> h_id (t_hdr r) = N.of_nat i + 1.
(* every record of the chain carries its position as id; every record of the chain and of the tx log
   (live, discarded, or left behind the logical end) is a copy of a record of the primary *)
Record Inv (st : store) : Prop := {
  inv_ids : ids (chain st);
  inv_gen : forall r, In r (chain st) \/ In r (physical st) -> genuine r }.

Lemma valid_nth : forall l id j p, valid_from H id l = true -> nth_error l j = Some p ->
  rec_valid H (id + N.of_nat j) p = true.
Proof.
  induction l as [|x l IH]; intros id j p V E; [destruct j; discriminate|].
  simpl in V. apply andb_prop in V as [V1 V2]. destruct j as [|j]; simpl in E.
  - inversion E; subst. replace (id + N.of_nat 0) with id by lia. exact V1.
  - replace (id + N.of_nat (S j)) with (id + 1 + N.of_nat j) by lia. eauto.
Qed.
Lemma P_nth j p : nth_error P j = Some p -> rec_valid H (N.of_nat j + 1) p = true.
Proof. intros E. rewrite N.add_comm. apply (valid_nth P 1 j p PV E). Qed.

Lemma matches_hdr r p : matches r p -> t_hdr r = t_hdr p /\ t_alh r = t_alh p.
Proof. intros [->| ->]; auto. Qed.

Lemma genuine_alh r : genuine r -> t_alh r = alh H (t_hdr r).
Proof.
  intros (j & p & E & M). destruct (matches_hdr _ _ M) as [-> ->].
  apply (valid_conj _ _ (P_nth _ _ E)).
Qed.
Lemma refresh_id r : genuine r ->
  {| t_hdr := t_hdr r; t_ents := t_ents r; t_alh := alh H (t_hdr r) |} = r.
Proof. intros G. rewrite <- (genuine_alh r G). destruct r; reflexivity. Qed.

Lemma ids_app_prefix a b : ids (a ++ b) -> ids a.
Proof.
  intros I i r E. apply I. rewrite nth_error_app1; auto. apply nth_error_Some. congruence.
Qed.
Lemma ids_snoc l r : ids l -> h_id (t_hdr r) = lenN l + 1 -> ids (l ++ [r]).
Proof.
  intros I E i x Ex. destruct (Nat.lt_ge_cases i (length l)) as [L|L].
  - rewrite nth_error_app1 in Ex by auto. auto.
  - rewrite nth_error_app2 in Ex by auto. destruct (i - length l)%nat as [|k] eqn:Ek.
    + simpl in Ex. inversion Ex; subst. unfold lenN in E. rewrite E. f_equal. lia.
    + simpl in Ex. destruct k; discriminate.
Qed.
Lemma nth_error_firstn_some {A} : forall (l : list A) m i r,
  nth_error (firstn m l) i = Some r -> nth_error l i = Some r.
Proof.
  induction l as [|x l IH]; intros [|m] [|i] r E; simpl in *; try discriminate; auto. eauto.
Qed.
Lemma ids_firstn m l : ids l -> ids (firstn m l).
Proof. intros I i r E. apply I. eapply nth_error_firstn_some; eauto. Qed.

(* ---- may_commit and bookkeeping changes keep the invariant ---- *)
Lemma physical_may_commit st r : In r (physical (may_commit c st)) -> In r (physical st).
Proof.
  unfold physical. rewrite may_commit_ghost. intros I. apply in_app_or in I as [I|I]; apply in_or_app; auto.
  left. eapply may_commit_tail_incl; eauto.
Qed.

Lemma Inv_may_commit st : Inv st -> Inv (may_commit c st).
Proof.
  intros [I1 I2]. split.
  - rewrite may_commit_chain. auto.
  - intros r [I|I]; apply I2; [left; rewrite may_commit_chain in I; auto | right; apply physical_may_commit; auto].
Qed.

Lemma Inv_ext st st' : chain st' = chain st -> physical st' = physical st -> Inv st -> Inv st'.
Proof. intros E1 E2 [I1 I2]. split; rewrite ?E1, ?E2; auto. Qed.

Lemma Inv_init : Inv (store_open c).
Proof.
  split.
  - intros i r E. destruct i; discriminate.
  - intros r [I|I]; contradiction.
Qed.

(* ---- an accepted delivery of an unaltered export appends the primary's record ---- *)
Lemma hdr_eta (h : txhdr) :
  {| h_id := h_id h; h_prevalh := h_prevalh h; h_ts := h_ts h; h_version := h_version h;
     h_md := h_md h; h_nentries := h_nentries h; h_eh := h_eh h; h_bltxid := h_bltxid h;
     h_blroot := h_blroot h |} = h.
Proof. destruct h; reflexivity. Qed.

Lemma deliver_rec st skip j p tr b k :
  nth_error P j = Some p -> export_rec tr p = Ok b -> precheck H c skip st b = Ok k ->
  k_hdr k = t_hdr p /\ h_id (t_hdr p) = pre_id st + 1 /\ matches (new_rec H st k) p.
Proof.
  intros En Ex Ep.
  pose proof (P_nth _ _ En) as V.
  destruct (valid_conj _ _ V) as (V1 & V2 & V3 & V4 & V5 & V6 & V7).
  destruct (precheck_inv _ _ _ _ _ Ep) as (hdr & xes & tr0 & Epar & Kh & Ke & Keh & _ & Kid & Kbl1 & Kbl2 & Kpa).
  rewrite (export_parse _ _ _ _ V Ex) in Epar.
  assert (Q1 : hdr = t_hdr p) by congruence.
  assert (Q2 : xes = map (xe_of tr) (t_ents p)) by congruence.
  assert (Q3 : tr0 = tr) by congruence.
  rewrite Q1 in *. rewrite Q2 in *. rewrite Q3 in *. clear Q1 Q2 Q3 Epar.
  split; [exact Kh|]. split; [exact Kid|].
  assert (Eeh : k_eh k = h_eh (t_hdr p)).
  { rewrite Ke in Keh. rewrite eh_roundtrip in Keh by auto. congruence. }
  assert (Ene : lenN (k_ents k) = h_nentries (t_hdr p)).
  { rewrite Ke, V4. unfold lenN. rewrite !map_length. reflexivity. }
  unfold new_rec. rewrite Kh, Eeh, Ene, Kbl2, <- Kid, Kpa. rewrite hdr_eta.
  rewrite Ke, ents_roundtrip by auto. rewrite <- V7.
  destruct tr; [right|left]; destruct p; reflexivity.
Qed.

Lemma chain_snoc (st : store) r a g cp :
  chain {| s_com := s_com st; s_tail := s_tail st ++ [r]; s_allowed := a; s_ghost := g; s_cap := cp |}
  = chain st ++ [r].
Proof. unfold chain. cbn [s_com s_tail]. rewrite app_assoc. reflexivity. Qed.

Lemma pre_id_len st : pre_id st = lenN (chain st).
Proof. reflexivity. Qed.

Lemma deliver_ok st skip j p tr b st' :
  Inv st -> nth_error P j = Some p -> export_rec tr p = Ok b ->
  replicate H c skip st b = Ok st' -> Inv st'.
Proof.
  intros [I1 I2] En Ex Er.
  unfold replicate in Er. destruct (precheck H c skip st b) as [k| |] eqn:Ep; cbn [bind] in Er; try discriminate.
  unfold perform in Er. destruct (s_cap st <=? lenN (s_tail st)); try discriminate.
  inversion Er; subst st'; clear Er.
  destruct (deliver_rec st skip j p tr b k En Ex Ep) as (Kh & Kid & M).
  set (r := new_rec H st k) in *.
  assert (G : genuine r) by (exists j, p; auto).
  apply Inv_may_commit. split.
  - rewrite chain_snoc. apply ids_snoc; auto.
  - intros x Hx. rewrite chain_snoc in Hx. unfold physical in Hx. cbn [s_tail s_ghost] in Hx.
    rewrite app_nil_r in Hx.
    destruct Hx as [Hx|Hx]; apply in_app_or in Hx as [Hx|Hx].
    + apply I2; auto.
    + destruct Hx as [<-|[]]; auto.
    + apply I2. right. unfold physical. apply in_or_app; auto.
    + destruct Hx as [<-|[]]; auto.
Qed.

Lemma deliver_err st skip j p tr b :
  Inv st -> nth_error P j = Some p -> export_rec tr p = Ok b -> Inv (failed_st H c skip st b).
Proof.
  intros [I1 I2] En Ex. unfold failed_st.
  destruct (precheck H c skip st b) as [k| |] eqn:Ep; [|split; auto..].
  destruct (deliver_rec st skip j p tr b k En Ex Ep) as (Kh & Kid & M).
  split; [exact I1|].
  intros r [I|I]; [apply I2; auto|]. unfold physical in I. cbn [s_tail s_ghost] in I.
  apply in_app_or in I as [I|I].
  - apply I2. right. unfold physical. apply in_or_app; auto.
  - destruct I as [<-|[]]. exists j, p; auto.
Qed.

(* ---- allowance, discard, reopen ---- *)
Lemma allow_inv st t s : Inv st -> allow_commit c st t = Ok s -> Inv s.
Proof.
  intros I E. unfold allow_commit in E. destruct (negb (c_ext c)); try discriminate.
  destruct (t <=? s_allowed st); inversion E; subst; auto.
  apply Inv_may_commit. apply (Inv_ext st); auto.
Qed.

Lemma In_firstn {A} : forall (l : list A) n x, In x (firstn n l) -> In x l.
Proof. induction l as [|y l IH]; intros [|n] x I; simpl in *; auto; try contradiction. destruct I; eauto. Qed.
Lemma In_skipn {A} : forall (l : list A) n x, In x (skipn n l) -> In x l.
Proof. induction l as [|y l IH]; intros [|n] x I; simpl in *; auto. right. eauto. Qed.

Lemma discard_inv st t s n : Inv st -> discard st t = Ok (s, n) -> Inv s.
Proof.
  intros [I1 I2] E. unfold discard in E.
  destruct (t =? 0); try discriminate. destruct (t <=? com_id st); try discriminate.
  destruct (pre_id st <? t); inversion E; subst; clear E; [split; auto|].
  set (m := (length (s_tail st) - N.to_nat (pre_id st + 1 - t))%nat).
  assert (Ec : chain {| s_com := s_com st; s_tail := firstn m (s_tail st);
                        s_allowed := s_allowed st; s_ghost := []; s_cap := s_cap st |}
               = firstn (length (s_com st) + m) (chain st)).
  { unfold chain. cbn [s_com s_tail]. rewrite firstn_app_2. reflexivity. }
  split.
  - rewrite Ec. apply ids_firstn; auto.
  - intros r [I|I]; apply I2.
    + left. rewrite Ec in I. eapply In_firstn; eauto.
    + right. unfold physical in *. cbn [s_tail s_ghost] in I. rewrite app_nil_r in I.
      apply in_or_app. left. eapply In_firstn; eauto.
Qed.

Lemma restart_inv st : Inv st -> Inv (restart H c st).
Proof.
  intros [I1 I2]. unfold restart.
  remember (reload H (com_id st) (com_alh H st) (physical st)) as back eqn:Hb.
  assert (Bin : forall r, In r back -> In r (physical st) /\ genuine r).
  { intros r I. rewrite Hb in I.
    destruct (reload_incl H _ _ _ _ I) as [r0 [I0 E]].
    assert (G : genuine r0) by (apply I2; auto). rewrite (refresh_id r0 G) in E. subst r0. auto. }
  assert (Bid : forall i r, nth_error back i = Some r -> h_id (t_hdr r) = com_id st + 1 + N.of_nat i).
  { intros i r E. rewrite Hb in E.
    eapply reload_ids; eauto. }
  apply Inv_may_commit. split.
  - unfold chain. cbn [s_com s_tail]. intros i r E.
    destruct (Nat.lt_ge_cases i (length (s_com st))) as [L|L].
    + rewrite nth_error_app1 in E by auto. apply I1. unfold chain. rewrite nth_error_app1; auto.
    + rewrite nth_error_app2 in E by auto. apply Bid in E. rewrite E. unfold com_id, lenN. lia.
  - unfold chain, physical. cbn [s_com s_tail s_ghost].
    intros r [I|I]; apply in_app_or in I as [I|I].
    + apply I2. left. unfold chain. apply in_or_app; auto.
    + apply Bin; auto.
    + apply Bin; auto.
    + apply I2. right. eapply In_skipn; eauto.
Qed.

(* ---- every schedule ---- *)
Lemma act_inv st a : Inv st -> Inv (act H c P st a).
Proof.
  intros I. destruct a as [skip j tr|t|t|]; cbn [act].
  - destruct (nth_error P j) as [p|] eqn:En; auto.
    destruct (export_rec tr p) as [b| |] eqn:Ex; auto.
    unfold replicate_st. destruct (replicate H c skip st b) as [st'| |] eqn:Er.
    + eapply deliver_ok; eauto.
    + eapply deliver_err; eauto.
    + eapply deliver_err; eauto.
  - destruct (allow_commit c st t) as [s| |] eqn:E; auto. eapply allow_inv; eauto.
  - destruct (discard st t) as [[s n]| |] eqn:E; auto. eapply discard_inv; eauto.
  - apply restart_inv; auto.
Qed.

Lemma run_inv : forall acts st, Inv st -> Inv (fold_left (act H c P) acts st).
Proof.
  induction acts as [|a acts IH]; intros st I; simpl; auto.
  apply IH. apply act_inv; auto.
Qed.

(* ---- from the invariant to the prefix statement ---- *)
Lemma skipn_nth {A} : forall (l : list A) k x, nth_error l k = Some x -> skipn k l = x :: skipn (S k) l.
Proof.
  induction l as [|y l IH]; intros [|k] x E; simpl in *; try discriminate.
  - inversion E; reflexivity.
  - rewrite (IH _ _ E). reflexivity.
Qed.

Lemma pref_aux : forall l k,
  (forall i r, nth_error l i = Some r -> exists p, nth_error P (k + i) = Some p /\ matches r p) ->
  (length l <= length (skipn k P))%nat /\ Forall2 matches l (firstn (length l) (skipn k P)).
Proof.
  induction l as [|x l IH]; intros k Hn; cbn [length].
  - split; [lia | constructor].
  - destruct (Hn 0%nat x eq_refl) as [p [E M]]. rewrite Nat.add_0_r in E.
    rewrite (skipn_nth _ _ _ E). cbn [length firstn].
    destruct (IH (S k)) as [L F].
    { intros i r Ei. destruct (Hn (S i) r Ei) as [q [Eq Mq]]. exists q. split; auto.
      replace (S k + i)%nat with (k + S i)%nat by lia. auto. }
    split; [lia | constructor; auto].
Qed.

Lemma prefix_of_inv l : ids l -> (forall r, In r l -> genuine r) -> is_prefix P l.
Proof.
  intros I G. destruct (pref_aux l 0) as [L F]; [|split; auto].
  intros i r E. destruct (G r (nth_error_In _ _ E)) as (j & p & Ep & M). exists p. split; auto.
  destruct (matches_hdr _ _ M) as [Eh _].
  destruct (valid_conj _ _ (P_nth _ _ Ep)) as (_ & _ & V3 & _).
  specialize (I i r E). rewrite Eh, V3 in I. assert (j = i) by lia. subst. exact Ep.
Qed.

Lemma matches_alhs l l' : Forall2 matches l l' -> map t_alh l = map t_alh l'.
Proof.
  induction 1 as [|x y l l' M _ IH]; simpl; auto. destruct (matches_hdr _ _ M) as [_ ->]. f_equal; auto.
Qed.

Theorem replica_prefix_run acts :
  is_prefix P (chain (run H c P acts)) /\ is_prefix P (s_com (run H c P acts)) /\
  map t_alh (chain (run H c P acts)) = map t_alh (firstn (length (chain (run H c P acts))) P).
Proof.
  destruct (run_inv acts (store_open c) Inv_init) as [I1 I2].
  fold (run H c P acts) in *.
  assert (A : is_prefix P (chain (run H c P acts))) by (apply prefix_of_inv; auto).
  split; auto. split.
  - apply prefix_of_inv.
    + eapply ids_app_prefix. exact I1.
    + intros r I. apply I2. left. unfold chain. apply in_or_app; auto.
  - apply matches_alhs. apply A.
Qed.

End Prefix.

(* replica_prefix: every primary history, every schedule *)
Theorem replica_prefix (H : bytes -> bytes) (c : cfg) (P : list txrec) (acts : list action) :
  primary_valid H P = true ->
  let st := run H c P acts in
  is_prefix P (chain st) /\ is_prefix P (s_com st) /\
  map t_alh (chain st) = map t_alh (firstn (length (chain st)) P).
Proof. intros V. apply replica_prefix_run; auto. Qed.
