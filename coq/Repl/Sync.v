(* C07: synchronous replication.
   (1) the primary's bookkeeping (ExportTxByID validation + mayUpdateReplicaState): whenever its
       store is allowed to commit further, at least syncAcks distinct replicas have reported a
       precommitted state at or beyond the new allowance whose Alh is the primary's own;
   (2) primary and replicas together: whatever is delivered to a replica (altered bytes included),
       whatever is restarted or discarded, a replica's committed transaction id never exceeds the
       primary's and its committed Alh is the primary's Alh for that id. *)
From V Require Import Repl.Spec Repl.Lemmas.
From Coq Require Import ZifyN ZifyNat ZifyBool.

Section Sync.
Variable H : bytes -> bytes.
Variable acks : N.

(* ------------------------------------------------------------------ *)
(* (1) the primary                                                      *)
Definition validated (p : primary) (s : rstate) : Prop := p_alh_at p (rs_pre s) = Some (rs_alh s).

Record PInv (p : primary) : Prop := {
  pi_nodup : NoDup (map rs_uuid (p_states p));
  pi_valid : forall s, In s (p_states p) -> validated p s;
  pi_com : p_com p = p_allowed p;
  pi_le : p_allowed p <= lenN (p_alhs p) }.

Inductive pop := PPre (a : bytes) | PRep (r : report).
Definition pstep (p : primary) (o : pop) : primary :=
  match o with
  | PPre a => p_precommit p a
  | PRep r => match p_report H acks p r with Ok (p', _) => p' | _ => p end
  end.
Definition prun (ops : list pop) : primary := fold_left pstep ops primary_init.

(* ---- list facts ---- *)
Lemma find_state_none l u : find_state l u = None -> ~ In u (map rs_uuid l).
Proof.
  induction l as [|x l IH]; simpl; auto. destruct (N.eqb_spec (rs_uuid x) u); [discriminate|].
  intros E [I|I]; [contradiction|]. apply IH; auto.
Qed.

Lemma upsert_in l u pid a s : In s (upsert l u pid a) ->
  s = {| rs_uuid := u; rs_pre := pid; rs_alh := a |} \/ In s l.
Proof.
  induction l as [|x l IH]; simpl.
  - intros [<-|[]]; auto.
  - destruct (rs_uuid x =? u).
    + intros [<-|I]; auto.
    + intros [<-|I]; auto; destruct (IH I); auto.
Qed.
Lemma upsert_uuid_in l u pid a x : In x (map rs_uuid (upsert l u pid a)) -> x = u \/ In x (map rs_uuid l).
Proof.
  intros I. apply in_map_iff in I as [s [<- I]]. destruct (upsert_in _ _ _ _ _ I) as [->|I'].
  - left; reflexivity.
  - right. apply in_map; auto.
Qed.
Lemma upsert_nodup l u pid a : NoDup (map rs_uuid l) -> NoDup (map rs_uuid (upsert l u pid a)).
Proof.
  induction l as [|x l IH]; simpl; intros N.
  - constructor; auto; constructor.
  - inversion N as [|? ? N1 N2]; subst. destruct (N.eqb_spec (rs_uuid x) u) as [E|E]; simpl.
    + constructor; auto. rewrite <- E. exact N1.
    + constructor; auto. intros I. destruct (upsert_uuid_in _ _ _ _ _ I); auto.
Qed.
Lemma filter_nodup (g : rstate -> bool) l : NoDup (map rs_uuid l) -> NoDup (map rs_uuid (filter g l)).
Proof.
  induction l as [|x l IH]; simpl; intros N; auto. inversion N as [|? ? N1 N2]; subst.
  destruct (g x); simpl; auto. constructor; auto.
  intros I. apply N1. apply in_map_iff in I as [s [E I]]. apply filter_In in I as [I _].
  apply in_map_iff. exists s; auto.
Qed.

Lemma fold_min_le : forall r m,
  fold_left (fun m x => if rs_pre x <? m then rs_pre x else m) r m <= m /\
  forall s, In s r -> fold_left (fun m x => if rs_pre x <? m then rs_pre x else m) r m <= rs_pre s.
Proof.
  induction r as [|x r IH]; intros m; simpl; [split; [lia | intros s []]|].
  destruct (IH (if rs_pre x <? m then rs_pre x else m)) as [A B].
  destruct (N.ltb_spec (rs_pre x) m); split; try lia.
  - intros s [<-|I]; auto; lia.
  - intros s [<-|I]; auto; lia.
Qed.
Lemma min_pre_le l s : In s l -> min_pre l <= rs_pre s.
Proof.
  destruct l as [|x r]; [intros []|]. unfold min_pre. destruct (fold_min_le r (rs_pre x)) as [A B].
  intros [<-|I]; auto.
Qed.

(* ---- p_allow ---- *)
Lemma p_allow_spec p t :
  p_allow p t = p \/
  (p_allowed p < t /\ p_allow p t = {| p_alhs := p_alhs p; p_com := N.min (lenN (p_alhs p)) t;
                                       p_allowed := N.min (lenN (p_alhs p)) t; p_states := p_states p |}).
Proof.
  unfold p_allow. destruct (N.leb_spec t (p_allowed p)); auto. right. split; auto.
  destruct (N.ltb_spec (lenN (p_alhs p)) t).
  - rewrite N.min_l by lia. reflexivity.
  - rewrite N.min_r by lia. reflexivity.
Qed.

Definition with_states (p : primary) (l : list rstate) : primary :=
  {| p_alhs := p_alhs p; p_com := p_com p; p_allowed := p_allowed p; p_states := l |}.

Lemma PInv_allow p t : PInv p -> PInv (p_allow p t).
Proof.
  intros [I1 I2 I3 I4]. destruct (p_allow_spec p t) as [->|[L ->]]; [split; auto|].
  split; cbn [p_states p_com p_allowed p_alhs]; auto; lia.
Qed.

(* the part of may_update behind the early returns *)
Definition fresh_states (p : primary) : list rstate :=
  filter (fun s => negb (rs_pre s <=? p_com p)) (p_states p).
Definition new_states (p : primary) (r : report) : list rstate :=
  upsert (fresh_states p) (r_uuid r) (r_pid r) (r_palh r).

Lemma may_update_cases p r p' : may_update acks p r = Ok p' ->
  p' = with_states p (fresh_states p) \/
  (p_com p < r_pid r /\
   (p' = with_states p (new_states p r) \/
    (acks <= lenN (new_states p r) /\
     p' = p_allow (with_states p (new_states p r)) (min_pre (new_states p r))))).
Proof.
  unfold may_update. fold (fresh_states p). fold (with_states p (fresh_states p)).
  destruct (N.leb_spec (r_pid r) (p_com p)) as [L|L]; [intros E; inversion E; auto|].
  fold (new_states p r). fold (with_states p (new_states p r)).
  destruct (find_state (fresh_states p) (r_uuid r)) as [s|].
  - destruct (r_pid r <? rs_pre s); [discriminate|].
    destruct (r_pid r =? rs_pre s); [intros E; inversion E; auto|].
    destruct (N.leb_spec acks (lenN (new_states p r))); intros E; inversion E; auto.
  - destruct (N.leb_spec acks (lenN (new_states p r))); intros E; inversion E; auto.
Qed.

(* what the validation in ExportTxByID has established when p_report succeeds *)
Lemma p_report_inv p r p' may : p_report H acks p r = Ok (p', may) ->
  may_update acks p r = Ok p' /\
  (0 < r_pid r -> p_alh_at p (r_pid r) = Some (r_palh r)) /\
  (fst may = 0 \/ (p_alh_at p (fst may) = Some (snd may) /\ fst may <= p_com p) \/
   (fst may = p_com p /\ snd may = p_last_alh H p (p_com p))).
Proof.
  unfold p_report. destruct (acks =? 0); [discriminate|].
  destruct (if 0 <? r_cid r then _ else _) as [[]| |]; cbn [bind]; try discriminate.
  destruct (N.ltb_spec 0 (r_pid r)) as [L|L].
  - destruct (lenN (p_alhs p) <? r_pid r); cbn [bind]; try discriminate.
    destruct (p_alh_at p (r_pid r)) as [a|] eqn:Ea; cbn [bind]; try discriminate.
    destruct (beq a (r_palh r)) eqn:Eb; cbn [bind]; try discriminate. apply beq_eq in Eb. subst a.
    destruct (N.ltb_spec (r_pid r) (p_com p)); cbn [bind];
      destruct (may_update acks p r) as [q| |]; cbn [bind]; try discriminate;
      intros E; inversion E; subst; cbn [fst snd]; repeat split; auto; try lia.
    + right. left. split; auto. lia.
  - cbn [bind]. destruct (may_update acks p r) as [q| |]; cbn [bind]; try discriminate.
    intros E; inversion E; subst; cbn [fst snd]. repeat split; auto; try lia.
Qed.

Lemma PInv_states p l : PInv p -> NoDup (map rs_uuid l) -> (forall s, In s l -> validated p s) ->
  PInv (with_states p l).
Proof. intros [I1 I2 I3 I4] N V. split; auto. Qed.

Lemma fresh_ok p : PInv p -> NoDup (map rs_uuid (fresh_states p)) /\ forall s, In s (fresh_states p) -> validated p s.
Proof.
  intros [I1 I2 _ _]. split; [apply filter_nodup; auto|].
  intros s I. apply filter_In in I as [I _]. auto.
Qed.
Lemma new_ok p r : PInv p -> p_alh_at p (r_pid r) = Some (r_palh r) ->
  NoDup (map rs_uuid (new_states p r)) /\ forall s, In s (new_states p r) -> validated p s.
Proof.
  intros I V. destruct (fresh_ok p I) as [N F]. split; [apply upsert_nodup; auto|].
  intros s Is. destruct (upsert_in _ _ _ _ _ Is) as [->|I']; auto.
Qed.

Lemma PInv_report p r p' may : PInv p -> p_report H acks p r = Ok (p', may) -> PInv p'.
Proof.
  intros I E. destruct (p_report_inv _ _ _ _ E) as (Eu & Ev & _).
  destruct (may_update_cases _ _ _ Eu) as [->|[L [->|[_ ->]]]].
  - destruct (fresh_ok p I). apply PInv_states; auto.
  - destruct (new_ok p r I) as [A B]; [apply Ev; lia|]. apply PInv_states; auto.
  - destruct (new_ok p r I) as [A B]; [apply Ev; lia|]. apply PInv_allow. apply PInv_states; auto.
Qed.

Lemma PInv_precommit p a : PInv p -> PInv (p_precommit p a).
Proof.
  intros [I1 I2 I3 I4]. split; cbn [p_precommit p_states p_com p_allowed p_alhs]; auto.
  - intros s Is. specialize (I2 s Is). unfold validated, p_alh_at, p_precommit in *. cbn [p_alhs].
    destruct (rs_pre s =? 0); [discriminate|]. rewrite nth_error_app1; auto.
    apply nth_error_Some. congruence.
  - rewrite lenN_app. lia.
Qed.

Lemma PInv_init : PInv primary_init.
Proof. split; simpl; auto; try lia; try constructor; try (intros s []). Qed.

Lemma PInv_run ops : PInv (prun ops).
Proof.
  unfold prun. generalize PInv_init. generalize primary_init.
  induction ops as [|o ops IH]; intros p I; simpl; auto. apply IH.
  destruct o as [a|r]; simpl.
  - apply PInv_precommit; auto.
  - destruct (p_report H acks p r) as [[p' may]| |] eqn:E; auto. eapply PInv_report; eauto.
Qed.

(* sync_ack_safety, primary side: in every reachable state, a report that raises the commit
   allowance of the primary's store leaves at least `acks` recorded replica states, of distinct
   replicas, each at or beyond the new allowance, each carrying the primary's own Alh *)
Theorem sync_ack_primary ops r p' may :
  p_report H acks (prun ops) r = Ok (p', may) -> p_allowed (prun ops) < p_allowed p' ->
  acks <= lenN (p_states p') /\ NoDup (map rs_uuid (p_states p')) /\
  forall s, In s (p_states p') -> p_allowed p' <= rs_pre s /\ validated p' s.
Proof.
  intros E Lt. pose proof (PInv_run ops) as I. set (p := prun ops) in *.
  pose proof (PInv_report _ _ _ _ I E) as [J1 J2 _ _].
  destruct (p_report_inv _ _ _ _ E) as (Eu & _).
  destruct (may_update_cases _ _ _ Eu) as [->|[L [->|[A ->]]]]; cbn [with_states p_allowed] in Lt; try lia.
  destruct (p_allow_spec (with_states p (new_states p r)) (min_pre (new_states p r))) as [Q|[L2 Q]];
    rewrite Q in *; cbn [with_states p_allowed p_states p_alhs] in *; try lia.
  split; auto. split; auto. intros s Is. split; auto.
  pose proof (min_pre_le _ _ Is). lia.
Qed.

(* the allowance never moves on a precommit, and never backwards *)
Lemma p_report_mono p r p' may : PInv p -> p_report H acks p r = Ok (p', may) ->
  p_alhs p' = p_alhs p /\ p_com p <= p_com p'.
Proof.
  intros [_ _ I3 I4] E. destruct (p_report_inv _ _ _ _ E) as (Eu & _).
  destruct (may_update_cases _ _ _ Eu) as [->|[L [->|[A ->]]]]; cbn [with_states p_alhs p_com]; auto; try (split; auto; lia).
  destruct (p_allow_spec (with_states p (new_states p r)) (min_pre (new_states p r))) as [Q|[L2 Q]];
    rewrite Q; cbn [with_states p_alhs p_com p_allowed] in *; split; auto; lia.
Qed.

(* ------------------------------------------------------------------ *)
(* (2) primary and replicas                                             *)
Variable c : cfg.
Hypothesis Cext : c_ext c = true.

(* a replica store in external-allowance mode commits exactly up to its allowance *)
Definition SInv (st : store) : Prop := s_allowed st = com_id st.

Lemma may_commit_idle st : SInv st -> may_commit c st = st.
Proof.
  unfold SInv, may_commit. rewrite Cext. intros ->. rewrite N.sub_diag. reflexivity.
Qed.

Lemma ext_replicate st skip b : SInv st ->
  SInv (replicate_st H c skip st b) /\ s_com (replicate_st H c skip st b) = s_com st.
Proof.
  intros I. unfold replicate_st. destruct (replicate H c skip st b) as [st'| |] eqn:E.
  - unfold replicate in E. destruct (precheck H c skip st b) as [k| |]; cbn [bind] in E; try discriminate.
    unfold perform in E. destruct (_ <=? _); try discriminate. inversion E; subst; clear E.
    rewrite may_commit_idle; [split; auto|]. exact I.
  - unfold failed_st. destruct (precheck H c skip st b); split; auto.
  - unfold failed_st. destruct (precheck H c skip st b); split; auto.
Qed.

Lemma ext_restart st : SInv st -> SInv (restart H c st) /\ s_com (restart H c st) = s_com st.
Proof.
  intros I. unfold restart. rewrite may_commit_idle; [split; reflexivity|]. reflexivity.
Qed.

Lemma ext_discard st t s n : SInv st -> discard st t = Ok (s, n) -> SInv s /\ s_com s = s_com st.
Proof.
  intros I E. unfold discard in E. destruct (t =? 0); try discriminate.
  destruct (t <=? com_id st); try discriminate.
  destruct (pre_id st <? t); inversion E; subst; split; auto.
Qed.

(* mayCommit with an allowance between the committed and the precommitted transaction *)
Lemma may_commit_ext st : com_id st <= s_allowed st -> s_allowed st <= pre_id st ->
  com_id (may_commit c st) = s_allowed st /\ s_allowed (may_commit c st) = s_allowed st /\
  s_com (may_commit c st) = firstn (N.to_nat (s_allowed st)) (chain st) /\
  chain (may_commit c st) = chain st.
Proof.
  intros L1 L2. split; [|split; [|split; [|apply may_commit_chain]]].
  all: unfold may_commit; rewrite Cext.
  all: assert (Lt : lenN (s_tail st) = pre_id st - com_id st)
         by (unfold pre_id, chain, com_id; rewrite lenN_app; lia).
  all: destruct (N.eqb_spec (s_allowed st - com_id st) 0) as [Z|Z].
  all: try (destruct (N.ltb_spec (lenN (s_tail st)) (s_allowed st - com_id st)); [lia|]).
  - lia.
  - unfold com_id. cbn [s_com]. rewrite lenN_app. fold (com_id st). unfold lenN. rewrite firstn_length.
    unfold lenN in Lt. unfold com_id, lenN in *. lia.
  - reflexivity.
  - reflexivity.
  - unfold chain.
    replace (N.to_nat (s_allowed st)) with (length (s_com st) + 0)%nat by (unfold com_id, lenN in *; lia).
    rewrite firstn_app_2. simpl. rewrite app_nil_r. reflexivity.
  - cbn [s_com]. unfold chain.
    replace (N.to_nat (s_allowed st)) with (length (s_com st) + N.to_nat (s_allowed st - com_id st))%nat
      by (unfold com_id, lenN in *; lia).
    rewrite firstn_app_2. reflexivity.
Qed.

(* AllowCommitUpto(t) beyond the committed transaction commits up to min(t, precommitted) *)
Lemma ext_allow st t st' : SInv st -> allow_commit c st t = Ok st' -> com_id st < t ->
  SInv st' /\ s_com st' = firstn (N.to_nat (N.min t (pre_id st))) (chain st) /\ chain st' = chain st.
Proof.
  intros I E L. unfold allow_commit in E. rewrite Cext in E. cbn [negb] in E. unfold SInv in I.
  destruct (N.leb_spec t (s_allowed st)); [lia|].
  set (a := if pre_id st <? t then pre_id st else t) in *.
  assert (Ea : a = N.min t (pre_id st)) by (subst a; destruct (N.ltb_spec (pre_id st) t); lia).
  assert (Lp : com_id st <= pre_id st).
  { unfold com_id, pre_id, chain. rewrite lenN_app. lia. }
  set (st0 := {| s_com := s_com st; s_tail := s_tail st; s_allowed := a; s_ghost := s_ghost st; s_cap := s_cap st |}) in *.
  inversion E; subst st'; clear E.
  destruct (may_commit_ext st0) as (A & B & C & D).
  - change (com_id st0) with (com_id st). change (s_allowed st0) with a. lia.
  - change (pre_id st0) with (pre_id st). change (s_allowed st0) with a. lia.
  - change (s_allowed st0) with a in *. change (chain st0) with (chain st) in *.
    split; [unfold SInv; lia|]. split; auto. rewrite <- Ea. exact C.
Qed.

Lemma firstn_S_nth {A} : forall (l : list A) k r, nth_error l k = Some r -> firstn (S k) l = firstn k l ++ [r].
Proof.
  induction l as [|x l IH]; intros [|k] r E; simpl in E; try discriminate.
  - inversion E; reflexivity.
  - change (firstn (S (S k)) (x :: l)) with (x :: firstn (S k) l).
    rewrite (IH _ _ E). reflexivity.
Qed.
Lemma last_alh_firstn l k r : nth_error l k = Some r -> last_alh H (firstn (S k) l) = t_alh r.
Proof.
  intros E. rewrite (firstn_S_nth _ _ _ E). unfold last_alh. rewrite rev_app_distr. reflexivity.
Qed.

(* database.AllowCommitUpto(t, alh) beyond the committed transaction: afterwards the replica has
   committed exactly up to t and its committed Alh is alh *)
Lemma ext_db_allow st t a st' : SInv st -> db_allow H c st t a = Ok st' -> com_id st < t ->
  SInv st' /\ com_id st' = t /\ com_alh H st' = a.
Proof.
  intros I E L. unfold db_allow in E. destruct (N.eqb_spec (com_id st) t); [lia|].
  destruct (alh_at st t) as [x|] eqn:Ex; try discriminate.
  destruct (beq x a) eqn:Eb; try discriminate. apply beq_eq in Eb. subst x.
  unfold alh_at in Ex. destruct (N.eqb_spec t 0); [discriminate|].
  assert (Lt : t <= pre_id st).
  { assert (N.to_nat (t - 1) < length (alhs st))%nat by (apply nth_error_Some; congruence).
    unfold alhs in *. rewrite map_length in *. unfold pre_id, lenN. lia. }
  destruct (ext_allow _ _ _ I E L) as (I' & Ec & _). split; auto.
  rewrite N.min_l in Ec by lia.
  unfold alhs in Ex. rewrite nth_error_map in Ex.
  destruct (nth_error (chain st) (N.to_nat (t - 1))) as [r|] eqn:Er; try discriminate.
  inversion Ex; subst a.
  replace (N.to_nat t) with (S (N.to_nat (t - 1))) in Ec by lia.
  split.
  - unfold com_id. rewrite Ec. unfold lenN. rewrite firstn_length_le; [lia|].
    change (N.to_nat (t - 1) < length (chain st))%nat. apply nth_error_Some. congruence.
  - unfold com_alh. rewrite Ec. apply last_alh_firstn; auto.
Qed.

(* the system: one primary, any number of replicas, the schedule of the replicators *)
Record sys := { y_p : primary; y_r : list store }.
Inductive sop :=
| YPre (a : bytes)                               (* the primary precommits a transaction with Alh a *)
| YFetch (i : nat)       (* fetchNextTx of replica i: reports its state, obeys the reply *)
| YReport (r : report)                           (* any other report reaches the primary *)
| YDeliver (i : nat) (skip : bool) (b : bytes)   (* ReplicateTx of ANY bytes on replica i *)
| YDiscard (i : nat) (t : N)
| YRestart (i : nat).

Definition report_of (i : nat) (st : store) : report :=
  {| r_uuid := N.of_nat i; r_cid := com_id st; r_calh := com_alh H st;
     r_pid := pre_id st; r_palh := pre_alh H st |}.

Fixpoint set_nth {A} (n : nat) (l : list A) (x : A) : list A :=
  match l, n with
  | [], _ => []
  | _ :: t, O => x :: t
  | y :: t, S n' => y :: set_nth n' t x
  end.

Definition on_replica (y : sys) (i : nat) (f : store -> store) : sys :=
  match nth_error (y_r y) i with
  | Some st => {| y_p := y_p y; y_r := set_nth i (y_r y) (f st) |}
  | None => y
  end.

Definition ystep (y : sys) (o : sop) : sys :=
  match o with
  | YPre a => {| y_p := p_precommit (y_p y) a; y_r := y_r y |}
  | YReport r => match p_report H acks (y_p y) r with
                 | Ok (p', _) => {| y_p := p'; y_r := y_r y |}
                 | _ => y
                 end
  | YFetch i =>
      match nth_error (y_r y) i with
      | None => y
      | Some st =>
          match p_report H acks (y_p y) (report_of i st) with
          | Ok (p', (mid, malh)) =>
              let st' := if com_id st <? mid
                         then match db_allow H c st mid malh with Ok s => s | _ => st end
                         else st in
              {| y_p := p'; y_r := set_nth i (y_r y) st' |}
          | _ => y
          end
      end
  | YDeliver i skip b => on_replica y i (fun st => replicate_st H c skip st b)
  | YDiscard i t => on_replica y i (fun st => match discard st t with Ok (s, _) => s | _ => st end)
  | YRestart i => on_replica y i (restart H c)
  end.

Definition yrun (n : nat) (ops : list sop) : sys :=
  fold_left ystep ops {| y_p := primary_init; y_r := repeat (store_open c) n |}.

(* what holds of every replica *)
Definition RInv (p : primary) (st : store) : Prop :=
  SInv st /\ com_id st <= p_com p /\ (com_id st = 0 \/ p_alh_at p (com_id st) = Some (com_alh H st)).
Definition YInv (y : sys) : Prop := PInv (y_p y) /\ forall st, In st (y_r y) -> RInv (y_p y) st.

Lemma RInv_mono p p' st : (forall t x, p_alh_at p t = Some x -> p_alh_at p' t = Some x) ->
  p_com p <= p_com p' -> RInv p st -> RInv p' st.
Proof. intros M L (A & B & C). split; auto. split; [lia|]. destruct C; auto. Qed.

Lemma set_nth_in {A} : forall (l : list A) n x y, In y (set_nth n l x) -> y = x \/ In y l.
Proof.
  induction l as [|z l IH]; intros [|n] x y I; simpl in *; auto.
  - destruct I; auto.
  - destruct I as [<-|I]; auto. destruct (IH _ _ _ I); auto.
Qed.

Lemma RInv_same_com p st st' : RInv p st -> SInv st' -> s_com st' = s_com st -> RInv p st'.
Proof.
  intros (A & B & C) A' E. unfold RInv, com_id, com_alh in *. rewrite E. auto.
Qed.

Lemma on_replica_inv y i f : YInv y ->
  (forall st, SInv st -> SInv (f st) /\ s_com (f st) = s_com st) -> YInv (on_replica y i f).
Proof.
  intros [IP IR] Hf. unfold on_replica. destruct (nth_error (y_r y) i) as [st|] eqn:E; [|split; auto].
  split; auto. cbn [y_p y_r]. intros s Is. destruct (set_nth_in _ _ _ _ Is) as [->|I]; auto.
  pose proof (IR st (nth_error_In _ _ E)) as R. destruct (Hf st (proj1 R)) as [A B].
  eapply RInv_same_com; eauto.
Qed.

Lemma p_precommit_mono p a t x : p_alh_at p t = Some x -> p_alh_at (p_precommit p a) t = Some x.
Proof.
  unfold p_alh_at, p_precommit. cbn [p_alhs]. destruct (t =? 0); [discriminate|]. intros E.
  rewrite nth_error_app1; auto. apply nth_error_Some. congruence.
Qed.

Lemma p_report_keeps p r p' may t x : PInv p -> p_report H acks p r = Ok (p', may) ->
  p_alh_at p t = Some x -> p_alh_at p' t = Some x.
Proof.
  intros I E. destruct (p_report_mono _ _ _ _ I E) as [Ea _]. unfold p_alh_at. rewrite Ea. auto.
Qed.

Lemma ystep_inv y o : YInv y -> YInv (ystep y o).
Proof.
  intros [IP IR]. destruct o as [a|i|r|i skip b|i t|i]; cbn [ystep].
  - split; cbn [y_p y_r]; [apply PInv_precommit; auto|].
    intros st Is. eapply RInv_mono; [| |apply IR; auto].
    + intros t x. apply p_precommit_mono.
    + cbn [p_precommit p_com]. lia.
  - destruct (nth_error (y_r y) i) as [st|] eqn:En; [|split; auto].
    destruct (p_report H acks (y_p y) (report_of i st)) as [[p' [mid malh]]| |] eqn:E; [|split; auto..].
    pose proof (PInv_report _ _ _ _ IP E) as IP'.
    destruct (p_report_mono _ _ _ _ IP E) as [Ea Lc].
    assert (M : forall t x, p_alh_at (y_p y) t = Some x -> p_alh_at p' t = Some x)
      by (intros t x; eapply p_report_keeps; eauto).
    split; auto. cbn [y_p y_r]. intros s Is. destruct (set_nth_in _ _ _ _ Is) as [->|I];
      [|eapply RInv_mono; eauto].
    pose proof (IR st (nth_error_In _ _ En)) as R.
    destruct (N.ltb_spec (com_id st) mid) as [L|L]; [|eapply RInv_mono; eauto].
    destruct (db_allow H c st mid malh) as [s'| |] eqn:Ed; [|eapply RInv_mono; eauto..].
    destruct (ext_db_allow _ _ _ _ (proj1 R) Ed L) as (A & B & C).
    destruct (p_report_inv _ _ _ _ E) as (_ & _ & Hm). cbn [fst snd] in Hm.
    split; auto. rewrite B, C. destruct Hm as [Z|[[Hv Hl]|[Hc Hl]]]; [lia| |].
    + split; [lia|]. right. auto.
    + split; [lia|]. right. apply M. rewrite Hc, Hl. unfold p_last_alh.
      destruct (p_alh_at (y_p y) (p_com (y_p y))) as [q|] eqn:Eq; auto.
      exfalso. destruct IP as [_ _ I3 I4]. unfold p_alh_at in Eq.
      destruct (N.eqb_spec (p_com (y_p y)) 0); [lia|].
      apply nth_error_None in Eq. unfold lenN in I4. lia.
  - destruct (p_report H acks (y_p y) r) as [[p' may]| |] eqn:E; [|split; auto..].
    split; cbn [y_p y_r]; [eapply PInv_report; eauto|].
    destruct (p_report_mono _ _ _ _ IP E) as [Ea Lc].
    intros st Is. eapply RInv_mono; [| |apply IR; auto]; auto.
    intros t x. eapply p_report_keeps; eauto.
  - apply on_replica_inv; [split; auto|]. intros st I. apply ext_replicate; auto.
  - apply on_replica_inv; [split; auto|]. intros st I.
    destruct (discard st t) as [[s n]| |] eqn:E; auto. eapply ext_discard; eauto.
  - apply on_replica_inv; [split; auto|]. intros st I. apply ext_restart; auto.
Qed.

Lemma YInv_init n : YInv {| y_p := primary_init; y_r := repeat (store_open c) n |}.
Proof.
  split; [apply PInv_init|]. cbn [y_p y_r]. intros st I. apply repeat_spec in I. subst.
  split; [reflexivity|]. split; [cbn; lia | left; reflexivity].
Qed.

Lemma yrun_inv n ops : YInv (yrun n ops).
Proof.
  unfold yrun. generalize (YInv_init n). generalize {| y_p := primary_init; y_r := repeat (store_open c) n |}.
  induction ops as [|o ops IH]; intros y Iy; simpl; auto. apply IH. apply ystep_inv; auto.
Qed.

(* sync_ack_safety, replica side: for every schedule of the replicators and every byte string ever
   delivered, a replica's committed transaction id is at most the primary's, and the Alh of its
   last committed transaction is the primary's Alh for that id *)
Theorem sync_replica_commits_after_primary n ops st :
  In st (y_r (yrun n ops)) ->
  com_id st <= p_com (y_p (yrun n ops)) /\
  (com_id st = 0 \/ p_alh_at (y_p (yrun n ops)) (com_id st) = Some (com_alh H st)).
Proof.
  intros I. destruct (yrun_inv n ops) as [_ R]. destruct (R st I) as (_ & A & B). auto.
Qed.

End Sync.
