(* C07: what a replica does with bytes that are NOT the primary's export (altered_rejected).
   The full statement is refuted (Repl/Witness.v); this file proves the part that holds: an
   accepted transaction has the primary's Alh whenever the fields that no check covers are left
   intact, or an explicit hash collision is exhibited; and ReplicateTx never panics. *)
From V Require Import Repl.Spec Repl.Lemmas Repl.Prefix Store.CodecTotal.
From Coq Require Import ZifyN ZifyNat ZifyBool.

Section Altered.
Variable H : bytes -> bytes.
Hypothesis H_len : forall x, length (H x) = 32%nat.

(* ---- the entries hash determines the digests ---- *)
Lemma th_inj : forall t t', th H t = th H t' -> t = t' \/ Collision H.
Proof.
  induction t as [d|l IHl r IHr]; intros [d'|l' r'] E; simpl in E.
  - destruct (leafh_inj H _ _ E) as [->|C]; auto.
  - right. eapply leaf_node_collision; eauto.
  - right. symmetry in E. eapply leaf_node_collision; eauto.
  - destruct (nodeh_inj H (th H l) (th H r) (th H l') (th H r')) as [[E1 E2]|C]; auto.
    + rewrite !th_len; auto.
    + destruct (IHl _ E1) as [->|C]; auto. destruct (IHr _ E2) as [->|C]; auto.
Qed.

Lemma mth_inj l l' : l <> [] -> l' <> [] -> mth H l = mth H l' -> l = l' \/ Collision H.
Proof.
  intros N N' E. unfold mth in E. destruct (th_inj _ _ E) as [Et|C]; auto. left.
  rewrite <- (mk_tree_leaves l N), <- (mk_tree_leaves l' N'). congruence.
Qed.

Lemma th_is_hash t : exists y, th H t = H y /\ y <> [].
Proof. destruct t; simpl; eexists; split; try reflexivity; discriminate. Qed.

Lemma htree_root_inj ds ds' : htree_root H ds = htree_root H ds' -> ds = ds' \/ Collision H.
Proof.
  unfold htree_root. destruct ds as [|d ds], ds' as [|d' ds']; auto; intros E.
  - right. unfold mth in E. destruct (th_is_hash (mk_tree (d' :: ds'))) as [y [Ey Ny]].
    rewrite Ey in E. exists [], y. split; auto.
  - right. unfold mth in E. destruct (th_is_hash (mk_tree (d :: ds))) as [y [Ey Ny]].
    rewrite Ey in E. exists y, []. split; auto.
  - apply mth_inj; auto; discriminate.
Qed.

Lemma digests_length v : forall es ds, digests H v es = Ok ds -> length ds = length es.
Proof.
  induction es as [|e es IH]; intros ds E; simpl in E.
  - inversion E; reflexivity.
  - destruct (entry_digest H v e); cbn [bind] in E; try discriminate.
    destruct (digests H v es); cbn [bind] in E; try discriminate.
    inversion E; subst. simpl. f_equal. auto.
Qed.

(* ---- the Alh depends on the header through these fields only ---- *)
Lemma inner_bytes_ext h1 h2 :
  h_ts h1 = h_ts h2 -> h_version h1 = h_version h2 -> opt_md_bytes (h_md h1) = opt_md_bytes (h_md h2) ->
  h_nentries h1 = h_nentries h2 -> h_eh h1 = h_eh h2 -> h_bltxid h1 = h_bltxid h2 ->
  h_blroot h1 = h_blroot h2 -> inner_bytes h1 = inner_bytes h2.
Proof. intros E1 E2 E3 E4 E5 E6 E7. unfold inner_bytes. rewrite E1, E2, E3, E4, E5, E6, E7. reflexivity. Qed.

Lemma alh_ext h1 h2 :
  h_id h1 = h_id h2 -> h_prevalh h1 = h_prevalh h2 -> inner_bytes h1 = inner_bytes h2 ->
  alh H h1 = alh H h2.
Proof. intros E1 E2 E3. unfold alh. rewrite E1, E2, E3. reflexivity. Qed.

Lemma last_alh_map l : last_alh H l = last (map t_alh l) (H []).
Proof.
  unfold last_alh. induction l as [|x l IH] using rev_ind; [reflexivity|].
  rewrite rev_app_distr, map_app. simpl. rewrite last_last. reflexivity.
Qed.

Lemma Forall2_length {A B} (R : A -> B -> Prop) l l' : Forall2 R l l' -> length l = length l'.
Proof. induction 1; simpl; auto. Qed.

(* ---- the partial statement ---- *)
Theorem altered_rejected_partial c skip P j p st b hdr xes tr st' :
  primary_valid H P = true -> nth_error P j = Some p ->
  (* the replica holds exactly the primary's transactions 1..j *)
  Forall2 matches (chain st) (firstn j P) ->
  (* the primary's header is chained and linked to the primary's own history *)
  h_prevalh (t_hdr p) = last_alh H (firstn j P) ->
  h_blroot (t_hdr p) = (if 0 <? h_bltxid (t_hdr p)
                        then root_at H (h_bltxid (t_hdr p)) (map t_alh (firstn j P)) else zeros32) ->
  (* b is ANY byte string that parses; the header fields no check covers are the primary's *)
  repl_parse b = Ok (hdr, xes, tr) ->
  h_ts hdr = h_ts (t_hdr p) -> h_version hdr = h_version (t_hdr p) ->
  opt_md_bytes (h_md hdr) = opt_md_bytes (h_md (t_hdr p)) -> h_bltxid hdr = h_bltxid (t_hdr p) ->
  (* ... and so is the entries hash (or, when the integrity check is skipped and Eh ignored, the
     entry digests) *)
  (skip = false -> h_eh hdr = h_eh (t_hdr p)) ->
  (skip = true -> digests H (h_version hdr) (map (mk_rentry H tr) xes)
                  = digests H (h_version (t_hdr p)) (t_ents p)) ->
  replicate H c skip st b = Ok st' ->
  (exists r, chain st' = chain st ++ [r] /\ t_alh r = t_alh p) \/ Collision H.
Proof.
  intros PV En Hold Hprev Hbl Epar Ets Ever Emd Eblt Eeh Edg Er.
  pose proof (P_nth H P PV _ _ En) as V.
  destruct (valid_conj H _ _ V) as (V1 & V2 & V3 & V4 & V5 & V6 & V7).
  unfold replicate in Er. destruct (precheck H c skip st b) as [k| |] eqn:Ep; cbn [bind] in Er; try discriminate.
  unfold perform in Er. destruct (s_cap st <=? lenN (s_tail st)); try discriminate.
  inversion Er; subst st'; clear Er.
  destruct (precheck_inv H _ _ _ _ _ Ep) as (hdr0 & xes0 & tr0 & Epar0 & Kh & Ke & Keh & Ksk & Kid & Kbl1 & Kbl2 & Kpa).
  rewrite Epar in Epar0.
  assert (Q1 : hdr0 = hdr) by congruence. assert (Q2 : xes0 = xes) by congruence.
  assert (Q3 : tr0 = tr) by congruence. rewrite Q1 in *. rewrite Q2 in *. rewrite Q3 in *. clear Q1 Q2 Q3 Epar0.
  (* the replica's Alh values are the primary's *)
  pose proof (matches_alhs _ _ Hold) as Ealhs.
  assert (Elen : length (chain st) = j).
  { rewrite (Forall2_length _ _ _ Hold). apply firstn_length_le.
    apply Nat.lt_le_incl. apply nth_error_Some. congruence. }
  (* digests of the received entries = digests of the primary's entries, or a collision *)
  unfold eh_of in Keh, V6.
  destruct (digests H (h_version hdr) (k_ents k)) as [ds| |] eqn:Ed; cbn [bind] in Keh; try discriminate.
  destruct (digests H (h_version (t_hdr p)) (t_ents p)) as [dp| |] eqn:Edp; cbn [bind] in V6; try discriminate.
  assert (Eds : ds = dp \/ Collision H).
  { destruct skip.
    - left. rewrite Ke in Ed. specialize (Edg eq_refl). congruence.
    - apply htree_root_inj. specialize (Ksk eq_refl). specialize (Eeh eq_refl). congruence. }
  destruct Eds as [Eds|C]; [|right; exact C]. subst dp.
  left. eexists. split.
  - rewrite may_commit_chain. apply chain_snoc.
  - cbn [t_alh]. rewrite V7. apply alh_ext; cbn [h_id h_prevalh].
    + rewrite V3. unfold pre_id, lenN. rewrite Elen. lia.
    + rewrite Hprev. unfold pre_alh. rewrite !last_alh_map, Ealhs. reflexivity.
    + apply inner_bytes_ext; cbn [h_ts h_version h_md h_nentries h_eh h_bltxid h_blroot]; rewrite ?Kh; auto.
      * rewrite V4. unfold lenN. f_equal.
        rewrite <- (digests_length _ _ _ Ed), <- (digests_length _ _ _ Edp). reflexivity.
      * congruence.
      * rewrite Hbl, Kbl1, Eblt. unfold alhs. rewrite Ealhs. reflexivity.
Qed.

(* ---- ReplicateTx returns a header or an error: it never panics ---- *)
Lemma digests_no_panic v : forall es, digests H v es <> Panic.
Proof.
  induction es as [|e es IH]; simpl; [discriminate|].
  unfold entry_digest.
  destruct (v =? 0); [destruct (0 <? len (okv_bytes (re_md e)))|destruct (v =? 1)]; cbn [bind];
    try discriminate; destruct (digests H v es); cbn [bind]; try discriminate; congruence.
Qed.

Theorem replicate_no_panic c skip st b : replicate H c skip st b <> Panic.
Proof.
  unfold replicate, precheck.
  pose proof (repl_parse_safe b) as [S _].
  destruct (repl_parse b) as [[[hdr xes] tr]| |]; cbn [bind]; try discriminate; try congruence.
  destruct (negb _); cbn [bind]; try discriminate.
  destruct (has_dup _); cbn [bind]; try discriminate.
  destruct (_ <? lenN xes); cbn [bind]; try discriminate.
  unfold eh_of.
  pose proof (digests_no_panic (h_version hdr) (map (mk_rentry H tr) xes)) as D.
  destruct (digests H _ _); cbn [bind]; try discriminate; try congruence.
  repeat (match goal with |- context [if ?x then _ else _] => destruct x end; cbn [bind]; try discriminate).
  all: unfold perform; destruct (_ <=? _); discriminate.
Qed.

End Altered.
