(* C07 model: the replica side of replication (embedded/store ReplicateTx = framing + precommit with an
   expected header), the store operations a replicator drives (AllowCommitUpto,
   DiscardPrecommittedTxsSince, close/reopen) and the primary's synchronous-replication bookkeeping
   (pkg/database ExportTxByID validation of the replica's reported state, mayUpdateReplicaState,
   AllowCommitUpto on both sides).  Transliterated from
     embedded/store/immustore.go  ReplicateTx, precommit (hdr != nil), performPrecommit, mayCommit,
                                  AllowCommitUpto, DiscardPrecommittedTxsSince, OpenWith (reload of
                                  the precommitted backlog), PrecommittedAlh/CommittedAlh
     embedded/store/tx.go         TxHeader.innerHash / Alh, TxEntryDigest_v1_1 / _v1_2, BuildHashTree
     embedded/store/ongoing_tx.go set (key/value limits, duplicate keys), validateAgainst
     pkg/database/database.go     ExportTxByID, mayUpdateReplicaState, AllowCommitUpto (replica)
   The wire format (export_tx / repl_parse) is Store/Codec.v.  The hash function is a parameter:
   theorems are about any H, the correspondence run instantiates it with the executable SHA-256.
   Stores are unsynced (Options.Synced = false), as in the harness: a durable precommit coincides
   with the in-memory one and mayCommit runs inline.  No proofs in this file. *)
From V Require Export Store.Codec Merkle.Ref.

Definition lenN {A} (l : list A) : N := N.of_nat (length l).
Definition zeros32 : bytes := repeat 0 32.

(* error classes (never compared by the tie; they name the Go branch) *)
Definition ETxAlreadyCommitted : N := 10.
Definition EMaxActiveTx : N := 11.
Definition ETimeout : N := 12.          (* WaitFor(hdr.ID-1) not satisfied before the context expires *)
Definition EBufferFull : N := 13.
Definition EIllegalState : N := 14.
Definition EDiverged : N := 15.
Definition ENotFound : N := 16.
Definition EDuplicatedKey : N := 17.

(* store limits and mode *)
Record cfg := { c_ext : bool;            (* useExternalCommitAllowance (sync replication) *)
                c_maxActive : N;         (* MaxActiveTransactions (= size of the precommit buffer) *)
                c_maxKeyLen : N; c_maxValueLen : N; c_maxTxEntries : N }.

(* an entry as recorded by precommit: key, metadata, value hash, and the value unless the
   exporting side had truncated it (then Value = nil, vLen = 0, hVal = the carried digest) *)
Record rentry := { re_key : bytes; re_md : option kvmd; re_hval : bytes; re_val : option bytes }.
(* t_alh: the Alh the store keeps beside the record (precommit buffer / commit log entry / AHT leaf) *)
Record txrec := { t_hdr : txhdr; t_ents : list rentry; t_alh : bytes }.

Definition okv_bytes (m : option kvmd) : bytes :=
  match m with Some m => kvmd_bytes m | None => [] end.

Fixpoint beq (a b : bytes) : bool :=
  match a, b with
  | [], [] => true
  | x :: a', y :: b' => (x =? y) && beq a' b'
  | _, _ => false
  end.

Fixpoint has_dup (l : list bytes) : bool :=
  match l with
  | [] => false
  | k :: r => existsb (beq k) r || has_dup r
  end.

Section Model.
Variable H : bytes -> bytes.

(* ---- hashes of a transaction ---- *)
(* TxEntryDigest_v1_1 (header version 0) / TxEntryDigest_v1_2 (version 1); uint16() truncations
   are those of be_enc *)
Definition entry_digest (version : N) (e : rentry) : res bytes :=
  let md := okv_bytes (re_md e) in
  if version =? 0 then
    if 0 <? len md then Err EMetadataUnsupported
    else Ok (H (re_key e ++ re_hval e))
  else if version =? 1 then
    Ok (H (be_enc w_ssz (len md) ++ md ++ be_enc w_ssz (len (re_key e)) ++ re_key e ++ re_hval e))
  else Err ECorruptedData.

Fixpoint digests (version : N) (es : list rentry) : res (list bytes) :=
  match es with
  | [] => Ok []
  | e :: r => do d <- entry_digest version e; do ds <- digests version r; Ok (d :: ds)
  end.

(* htree.BuildWith + Root *)
Definition htree_root (ds : list bytes) : bytes :=
  match ds with [] => H [] | _ => mth H ds end.

(* Tx.BuildHashTree: header.Eh *)
Definition eh_of (version : N) (es : list rentry) : res bytes :=
  do ds <- digests version es; Ok (htree_root ds).

(* TxHeader.innerHash input.  Versions other than 0 and 1 make Go panic; no header produced by
   TxHeader.ReadFrom carries one, the version-1 layout is used for them here. *)
Definition inner_bytes (h : txhdr) : bytes :=
  let pre := be_enc w_ts (h_ts h) ++ be_enc w_ssz (h_version h) in
  let post := h_eh h ++ be_enc w_txid (h_bltxid h) ++ h_blroot h in
  if h_version h =? 0 then pre ++ be_enc w_ssz (h_nentries h) ++ post
  else
    let md := opt_md_bytes (h_md h) in
    pre ++ be_enc w_ssz (len md) ++ md ++ be_enc w_lsz (h_nentries h) ++ post.

(* TxHeader.Alh = H(txID ‖ prevAlh ‖ innerHash) *)
Definition alh (h : txhdr) : bytes :=
  H (be_enc w_txid (h_id h) ++ h_prevalh h ++ H (inner_bytes h)).

(* ---- the store ---- *)
(* s_tail: the precommitted transactions = the records of the tx log between the committed offset
   and its logical end, in file order (DiscardPrecommittedTxsSince cuts the log at the end of the
   last record it keeps). *)
(* s_ghost: records still in the file behind the logical end of the tx log (left there by a reopening
   that did not take them back, or by a precommit that failed after its append); the next
   performPrecommit rewinds the log to its logical end (txLog.SetOffset, which drops what follows)
   before it appends. *)
(* s_cap: size of the precommit buffer (MaxActiveTransactions at Open; the recovery loop doubles it
   while more precommitted transactions are reloaded than fit). *)
Record store := { s_com : list txrec; s_tail : list txrec; s_allowed : N;
                  s_ghost : list txrec; s_cap : N }.

Definition store_open (c : cfg) : store :=
  {| s_com := []; s_tail := []; s_allowed := 0; s_ghost := []; s_cap := c_maxActive c |}.

Definition chain (st : store) : list txrec := s_com st ++ s_tail st.
(* Alh of the last transaction; sha256.Sum256(nil) for an empty store *)
Definition last_alh (l : list txrec) : bytes :=
  match rev l with [] => H [] | r :: _ => t_alh r end.
Definition com_id (st : store) : N := lenN (s_com st).
Definition pre_id (st : store) : N := lenN (chain st).
Definition com_alh (st : store) : bytes := last_alh (s_com st).
Definition pre_alh (st : store) : bytes := last_alh (chain st).
Definition alhs (st : store) : list bytes := map t_alh (chain st).

(* AHtree.RootAt(n), 1 <= n <= size, over the Alh values of all (pre)committed transactions *)
Definition root_at (n : N) (l : list bytes) : bytes := mth H (takeN n l).

(* mayCommit (unsynced store: called inline by performPrecommit and AllowCommitUpto) *)
Definition may_commit (c : cfg) (st : store) : store :=
  let target := if c_ext c then s_allowed st else pre_id st in
  let n := target - com_id st in
  if n =? 0 then st else
  (* cLogBuf.readAhead fails when fewer than n transactions are precommitted: error, no change *)
  if lenN (s_tail st) <? n then st else
  {| s_com := s_com st ++ firstn (N.to_nat n) (s_tail st); s_tail := skipn (N.to_nat n) (s_tail st);
     s_allowed := s_allowed st;
     s_ghost := s_ghost st; s_cap := s_cap st |}.

(* digest(): copy into a [32]byte *)
Definition digest32 (v : bytes) : bytes := take hsize (v ++ repeat 0 32).

(* OngoingTx.set as called by ReplicateTx, followed by precommit's hVal computation *)
Definition mk_rentry (tr : bool) (e : xentry) : rentry :=
  if tr then {| re_key := x_key e; re_md := x_md e; re_hval := digest32 (x_val e); re_val := None |}
  else {| re_key := x_key e; re_md := x_md e; re_hval := H (x_val e); re_val := Some (x_val e) |}.

Definition spec_entry_ok (c : cfg) (tr : bool) (e : xentry) : bool :=
  negb (len (x_key e) =? 0) && (len (x_key e) <=? c_maxKeyLen c) &&
  (tr || (len (x_val e) <=? c_maxValueLen c)).

(* what precommit has established when it reaches performPrecommit *)
Record checked := { k_hdr : txhdr; k_ents : list rentry; k_eh : bytes; k_blroot : bytes }.

(* ImmuStore.ReplicateTx(exportedTx, skipIntegrityCheck) up to the call of performPrecommit:
   framing, OngoingTx.set, BuildHashTree and the comparisons against the expected header *)
Definition precheck (c : cfg) (skip : bool) (st : store) (b : bytes) : res checked :=
  do p <- repl_parse b;
  let '(hdr, xes, tr) := p in
  (* txSpec.set per entry: ErrNullKey / ErrMaxKeyLenExceeded / ErrMaxValueLenExceeded *)
  if negb (forallb (spec_entry_ok c tr) xes) then Err EIllegalArguments else
  (* a repeated key replaces the earlier entry: len(tx.entries) != hdr.NEntries in validateAgainst *)
  if has_dup (map x_key xes) then Err EDuplicatedKey else
  if c_maxTxEntries c <? lenN xes then Err EIllegalArguments else
  let ents := map (mk_rentry tr) xes in
  (* tx.BuildHashTree with tx.header.Version = hdr.Version *)
  do eh <- eh_of (h_version hdr) ents;
  if negb skip && negb (beq eh (h_eh hdr)) then Err EIllegalArguments else
  let preid := pre_id st in
  if h_id hdr <=? preid then Err ETxAlreadyCommitted else
  if preid + c_maxActive c <? h_id hdr then Err EMaxActiveTx else
  (* inmemPrecommitWHub.WaitFor(ctx, hdr.ID-1) *)
  if preid <? h_id hdr - 1 then Err ETimeout else
  let blroot := if 0 <? h_bltxid hdr then root_at (h_bltxid hdr) (alhs st) else zeros32 in
  if negb (beq blroot (h_blroot hdr)) then Err EIllegalArguments else
  if negb (beq (pre_alh st) (h_prevalh hdr)) then Err EIllegalArguments else
  Ok {| k_hdr := hdr; k_ents := ents; k_eh := eh; k_blroot := blroot |}.

(* the record performPrecommit serialises and appends to the tx log; header.BlRoot is cleared and
   set to RootAt(blTxID) when blTxID > 0 (the value precommit compared with the expected header) *)
Definition new_rec (st : store) (k : checked) : txrec :=
  let hdr := k_hdr k in
  let h' := {| h_id := pre_id st + 1; h_prevalh := pre_alh st; h_ts := h_ts hdr;
               h_version := h_version hdr; h_md := h_md hdr; h_nentries := lenN (k_ents k);
               h_eh := k_eh k; h_bltxid := h_bltxid hdr; h_blroot := k_blroot k |} in
  {| t_hdr := h'; t_ents := k_ents k; t_alh := alh h' |}.

(* performPrecommit; cLogBuf.put fails when the precommit buffer is full *)
Definition perform (c : cfg) (st : store) (k : checked) : res store :=
  if s_cap st <=? lenN (s_tail st) then Err EBufferFull else
  let st' := {| s_com := s_com st;
                s_tail := s_tail st ++ [new_rec st k];
                s_allowed := s_allowed st; s_ghost := []; s_cap := s_cap st |} in
  Ok (may_commit c st').

(* Ok = a header was returned; Err = an error was returned and the store's transactions are
   unchanged *)
Definition replicate (c : cfg) (skip : bool) (st : store) (b : bytes) : res store :=
  do k <- precheck c skip st b; perform c st k.

(* the store after a call that did not return a header.  Only a failure inside performPrecommit
   (precommit buffer full) has touched anything: the tx log, to which the
   record was appended before cLogBuf.put failed -- it stays behind the logical end of the log,
   is dropped by the SetOffset of the next performPrecommit, and is found by the reload loop of an
   Open that comes first. *)
Definition failed_st (c : cfg) (skip : bool) (st : store) (b : bytes) : store :=
  match precheck c skip st b with
  | Ok k => {| s_com := s_com st; s_tail := s_tail st; s_allowed := s_allowed st;
               s_ghost := [new_rec st k]; s_cap := s_cap st |}
  | _ => st
  end.
(* state after ReplicateTx whatever its outcome *)
Definition replicate_st (c : cfg) (skip : bool) (st : store) (b : bytes) : store :=
  match replicate c skip st b with
  | Ok st' => st'
  | _ => failed_st c skip st b
  end.

(* ImmuStore.AllowCommitUpto *)
Definition allow_commit (c : cfg) (st : store) (t : N) : res store :=
  if negb (c_ext c) then Err EIllegalState else
  if t <=? s_allowed st then Ok st else
  let a := if pre_id st <? t then pre_id st else t in
  Ok (may_commit c {| s_com := s_com st; s_tail := s_tail st; s_allowed := a;
                      s_ghost := s_ghost st; s_cap := s_cap st |}).

(* ImmuStore.DiscardPrecommittedTxsSince: number of discarded transactions.  The tx log is cut at
   the end of the last transaction that is kept (txLog.SetOffset): the discarded records and whatever
   was behind the logical end are gone. *)
Definition discard (st : store) (t : N) : res (store * N) :=
  if t =? 0 then Err EIllegalArguments else
  if t <=? com_id st then Err EIllegalArguments else
  if pre_id st <? t then Ok (st, 0) else
  let n := pre_id st + 1 - t in
  Ok ({| s_com := s_com st; s_tail := firstn (length (s_tail st) - N.to_nat n) (s_tail st);
         s_allowed := s_allowed st; s_ghost := []; s_cap := s_cap st |}, n).

(* Close + Open: the tx log is re-read from the committed offset; records are taken back as
   precommitted while they chain (ID = previous+1, PrevAlh = previous Alh), the rest is dropped
   (dropped by the next performPrecommit); the allowance restarts from the committed transaction *)
Fixpoint reload (cur : N) (curalh : bytes) (l : list txrec) : list txrec :=
  match l with
  | [] => []
  | r :: t =>
      if (h_id (t_hdr r) =? cur + 1) && beq (h_prevalh (t_hdr r)) curalh
      then {| t_hdr := t_hdr r; t_ents := t_ents r; t_alh := alh (t_hdr r) |}
           :: reload (cur + 1) (alh (t_hdr r)) t
      else []
  end.

(* everything physically in the tx log behind the committed offset, in file order *)
Definition physical (st : store) : list txrec := s_tail st ++ s_ghost st.

(* cLogBuf.grow(2*len) each time a reloaded transaction does not fit *)
Fixpoint grow_cap (fuel : nat) (m n : N) : N :=
  match fuel with
  | O => m
  | S f => if n <=? m then m else grow_cap f (2 * m) n
  end.

Definition restart (c : cfg) (st : store) : store :=
  let back := reload (com_id st) (com_alh st) (physical st) in
  may_commit c {| s_com := s_com st; s_tail := back; s_allowed := com_id st;
                  s_ghost := skipn (length back) (physical st);
                  s_cap := grow_cap (S (length back)) (c_maxActive c) (lenN back) |}.

(* Alh of transaction t (1-based) among committed and precommitted ones: ReadTxHeader(t, true).Alh() *)
Definition alh_at (st : store) (t : N) : option bytes :=
  if t =? 0 then None else nth_error (alhs st) (N.to_nat (t - 1)).

(* pkg/database (replica) AllowCommitUpto(txID, alh) *)
Definition db_allow (c : cfg) (st : store) (t : N) (a : bytes) : res store :=
  if com_id st =? t then
    (if beq (com_alh st) a then Ok st else Err EDiverged)
  else
    match alh_at st t with
    | None => Err ENotFound
    | Some x => if beq x a then allow_commit c st t else Err EDiverged
    end.

(* ---- the primary's synchronous-replication bookkeeping (pkg/database) ---- *)
Record rstate := { rs_uuid : N; rs_pre : N; rs_alh : bytes }.
(* p_alhs: Alh of every precommitted transaction of the primary, oldest first; p_com: committed
   transaction id; p_allowed: commitAllowedUpToTxID of the primary's store *)
Record primary := { p_alhs : list bytes; p_com : N; p_allowed : N; p_states : list rstate }.
Definition primary_init : primary := {| p_alhs := []; p_com := 0; p_allowed := 0; p_states := [] |}.

Record report := { r_uuid : N; r_cid : N; r_calh : bytes; r_pid : N; r_palh : bytes }.

Definition p_alh_at (p : primary) (t : N) : option bytes :=
  if t =? 0 then None else nth_error (p_alhs p) (N.to_nat (t - 1)).
(* committedAlh of the primary's store: sha256.Sum256(nil) while nothing is committed *)
Definition p_last_alh (p : primary) (t : N) : bytes :=
  match p_alh_at p t with Some a => a | None => H [] end.

(* the primary precommits one more transaction of its own (its commit waits for the allowance) *)
Definition p_precommit (p : primary) (a : bytes) : primary :=
  {| p_alhs := p_alhs p ++ [a]; p_com := p_com p; p_allowed := p_allowed p; p_states := p_states p |}.

(* store.AllowCommitUpto on the primary followed by mayCommit *)
Definition p_allow (p : primary) (t : N) : primary :=
  if t <=? p_allowed p then p else
  let a := if lenN (p_alhs p) <? t then lenN (p_alhs p) else t in
  {| p_alhs := p_alhs p; p_com := a; p_allowed := a; p_states := p_states p |}.

Fixpoint upsert (l : list rstate) (u pid : N) (a : bytes) : list rstate :=
  match l with
  | [] => [{| rs_uuid := u; rs_pre := pid; rs_alh := a |}]
  | s :: r => if rs_uuid s =? u then {| rs_uuid := u; rs_pre := pid; rs_alh := a |} :: r
              else s :: upsert r u pid a
  end.
Fixpoint find_state (l : list rstate) (u : N) : option rstate :=
  match l with
  | [] => None
  | s :: r => if rs_uuid s =? u then Some s else find_state r u
  end.
Definition min_pre (l : list rstate) : N :=
  match l with
  | [] => 0
  | s :: r => fold_left (fun m x => if rs_pre x <? m then rs_pre x else m) r (rs_pre s)
  end.

(* mayUpdateReplicaState(committedTxID, newReplicaState) *)
Definition may_update (acks : N) (p : primary) (r : report) : res primary :=
  let cid := p_com p in
  let sts := filter (fun s => negb (rs_pre s <=? cid)) (p_states p) in
  let p1 := {| p_alhs := p_alhs p; p_com := p_com p; p_allowed := p_allowed p; p_states := sts |} in
  if r_pid r <=? cid then Ok p1 else
  match find_state sts (r_uuid r) with
  | Some s =>
      if r_pid r <? rs_pre s then Err EIllegalArguments else
      if r_pid r =? rs_pre s then Ok p1 else
      let sts' := upsert sts (r_uuid r) (r_pid r) (r_palh r) in
      let p2 := {| p_alhs := p_alhs p; p_com := p_com p; p_allowed := p_allowed p; p_states := sts' |} in
      if acks <=? lenN sts' then Ok (p_allow p2 (min_pre sts')) else Ok p2
  | None =>
      let sts' := upsert sts (r_uuid r) (r_pid r) (r_palh r) in
      let p2 := {| p_alhs := p_alhs p; p_com := p_com p; p_allowed := p_allowed p; p_states := sts' |} in
      if acks <=? lenN sts' then Ok (p_allow p2 (min_pre sts')) else Ok p2
  end.

(* ExportTxByID up to (and including) mayUpdateReplicaState: validation of the replica's reported
   commit and precommit states; the reply carries (mayCommitUpToTxID, mayCommitUpToAlh).
   acks = 0: the primary keeps no replica states and a report is refused. *)
Definition p_report (acks : N) (p : primary) (r : report) : res (primary * (N * bytes)) :=
  if acks =? 0 then Err EIllegalState else
  let preid := lenN (p_alhs p) in
  do _ <- (if 0 <? r_cid r then
             if p_com p <? r_cid r then Err EDiverged else
             match p_alh_at p (r_cid r) with
             | None => Err ENotFound
             | Some a => if beq a (r_calh r) then Ok tt else Err EDiverged
             end
           else Ok tt);
  do may <- (if 0 <? r_pid r then
               if preid <? r_pid r then Err EDiverged else
               match p_alh_at p (r_pid r) with
               | None => Err ENotFound
               | Some a =>
                   if beq a (r_palh r) then
                     if r_pid r <? p_com p then Ok (r_pid r, r_palh r)
                     else Ok (p_com p, p_last_alh p (p_com p))
                   else Err EDiverged
               end
             else Ok (0, zeros32));
  do p' <- may_update acks p r;
  Ok (p', may).

End Model.
