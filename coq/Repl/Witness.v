(* C07: concrete witnesses, evaluated with the executable SHA-256:
   - the premises of the theorems are satisfiable (a valid primary history; an in-order
     schedule that is accepted),
   - the schedule that refuted replica_prefix before /repo commit 7c27871 (stale BlRoot left in the
     pooled tx holder: deliver 1, deliver 2, discard since 1, deliver 1) now ends with the primary's Alh,
   - altered_rejected is REFUTED: header fields that enter the Alh only through the inner hash
     (Ts, Version, Metadata, BlTxID together with BlRoot, Eh together with the entries) can be
     altered in the exported bytes and the replica accepts a transaction with another Alh. *)
From V Require Import Repl.Spec Repl.Lemmas Repl.Sync Merkle.Sha256.
From Coq Require Import ZifyN ZifyNat ZifyBool.

Definition Hs := sha256.

(* the primary's own commit, as performPrecommit builds a header (BlTxID = number of earlier
   transactions, BlRoot = root over their Alh values) *)
Definition p_entry (k : bytes) (m : option kvmd) (v : bytes) : rentry :=
  {| re_key := k; re_md := m; re_hval := Hs v; re_val := Some v |}.

Definition p_commit (prev : list txrec) (ts version : N) (md : option txmd) (es : list rentry) : txrec :=
  let n := lenN prev in
  let eh := match eh_of Hs version es with Ok e => e | _ => [] end in
  let h := {| h_id := n + 1; h_prevalh := last_alh Hs prev; h_ts := ts; h_version := version;
              h_md := md; h_nentries := lenN es; h_eh := eh; h_bltxid := n;
              h_blroot := if 0 <? n then root_at Hs n (map t_alh prev) else zeros32 |} in
  {| t_hdr := h; t_ents := es; t_alh := alh Hs h |}.

Definition e11 := p_entry [107; 49] None [118; 49].
Definition e21 := p_entry [107; 50] (Some {| kv_deleted := false; kv_expires := Some 4000000000; kv_nonindexable := true |}) [118; 50; 50].
Definition e22 := p_entry [107; 51] None [].
Definition e31 := p_entry [107; 49] None [118; 51].

Definition p1 := p_commit [] 1700000001 1 None [e11].
Definition p2 := p_commit [p1] 1700000002 1 (Some {| md_trunc := None; md_extra := Some [9; 9] |}) [e21; e22].
Definition p3 := p_commit [p1; p2] 1700000003 1 None [e31].
Definition P3 : list txrec := [p1; p2; p3].
(* a history written with header version 0 *)
Definition q1 := p_commit [] 1700000001 0 None [e11].
Definition q2 := p_commit [q1] 1700000005 0 None [e31; e22].
Definition Q2 : list txrec := [q1; q2].

Definition cfg_async : cfg :=
  {| c_ext := false; c_maxActive := 1000; c_maxKeyLen := 1024; c_maxValueLen := 4096;
     c_maxTxEntries := 1024 |}.
Definition cfg_sync : cfg :=
  {| c_ext := true; c_maxActive := 1000; c_maxKeyLen := 1024; c_maxValueLen := 4096;
     c_maxTxEntries := 1024 |}.
(* ---- premises are satisfiable ---- *)
Example primary_valid_sat : primary_valid Hs P3 = true /\ primary_valid Hs Q2 = true.
Proof. vm_compute. repeat split. Qed.

(* in-order delivery (with a duplicate, a retry of a future one and a restart in between) is
   accepted: the replica ends with the three transactions and the primary's Alh values *)
Example in_order_accepted :
  let st := run Hs cfg_async P3 [ADeliver false 1 false; ADeliver false 0 false; ADeliver false 0 false;
                                 ARestart; ADeliver false 1 false; ADeliver true 2 false] in
  map t_alh (s_com st) = map t_alh P3.
Proof. vm_compute. reflexivity. Qed.

Example sync_schedule_accepted :
  let st := run Hs cfg_sync P3 [ADeliver false 0 false; ADeliver false 1 true; AAllow 1; ADiscard 2;
                                ARestart; ADeliver false 1 false; ADeliver false 2 false; AAllow 3] in
  map t_alh (s_com st) = map t_alh P3 /\ lenN (s_tail st) = 0.
Proof. vm_compute. split; reflexivity. Qed.

(* a discarded transaction does not come back at a reopening (since /repo 8728288 the discard cuts
   the tx log; before, the reload loop took the discarded records back) *)
Example discarded_stays_discarded :
  let st := run Hs cfg_sync P3 [ADeliver false 0 false; ADeliver false 1 false; ADeliver false 2 false;
                                ADiscard 2; ARestart] in
  map t_alh (chain st) = [t_alh p1].
Proof. vm_compute. reflexivity. Qed.

(* ---- the schedule that used to leave a stale BlRoot in tx 1 ---- *)
Definition stale_schedule : list action :=
  [ADeliver false 0 false; ADeliver false 1 false; ADiscard 1; ADeliver false 0 false].

Example stale_schedule_repaired :
  let st := run Hs cfg_sync P3 stale_schedule in
  map t_alh (chain st) = [t_alh p1] /\ map (fun r => h_blroot (t_hdr r)) (chain st) = [zeros32].
Proof. vm_compute. split; reflexivity. Qed.

(* ---- altered exports that are accepted ---- *)
Definition st_after (c : cfg) (P : list txrec) (n : nat) : store :=
  run Hs c P (map (fun j => ADeliver false j false) (seq 0 n)).

Definition get (r : res bytes) : bytes := match r with Ok b => b | _ => [] end.
Definition with_hdr (p : txrec) (h : txhdr) : txrec := {| t_hdr := h; t_ents := t_ents p; t_alh := t_alh p |}.
Definition set_ts (h : txhdr) (v : N) : txhdr :=
  {| h_id := h_id h; h_prevalh := h_prevalh h; h_ts := v; h_version := h_version h; h_md := h_md h;
     h_nentries := h_nentries h; h_eh := h_eh h; h_bltxid := h_bltxid h; h_blroot := h_blroot h |}.
Definition set_bl (h : txhdr) (t : N) (r : bytes) : txhdr :=
  {| h_id := h_id h; h_prevalh := h_prevalh h; h_ts := h_ts h; h_version := h_version h; h_md := h_md h;
     h_nentries := h_nentries h; h_eh := h_eh h; h_bltxid := t; h_blroot := r |}.
Definition set_md (h : txhdr) (m : option txmd) : txhdr :=
  {| h_id := h_id h; h_prevalh := h_prevalh h; h_ts := h_ts h; h_version := h_version h; h_md := m;
     h_nentries := h_nentries h; h_eh := h_eh h; h_bltxid := h_bltxid h; h_blroot := h_blroot h |}.
Definition set_ver_eh (h : txhdr) (v : N) (eh : bytes) : txhdr :=
  {| h_id := h_id h; h_prevalh := h_prevalh h; h_ts := h_ts h; h_version := v; h_md := h_md h;
     h_nentries := h_nentries h; h_eh := eh; h_bltxid := h_bltxid h; h_blroot := h_blroot h |}.

(* outcome of offering bytes b to a replica that holds the primary's first n transactions:
   (accepted, Alh of the transaction it then holds at position n+1) *)
Definition offer (c : cfg) (skip : bool) (P : list txrec) (n : nat) (b : bytes) : bool * bytes :=
  match replicate Hs c skip (st_after c P n) b with
  | Ok st' => (true, last (map t_alh (chain st')) [])
  | _ => (false, [])
  end.
(* the alteration is accepted and the Alh differs from the primary's *)
Definition accepted_other_alh (c : cfg) (skip : bool) (P : list txrec) (n : nat) (b : bytes) : bool :=
  let '(acc, a) := offer c skip P n b in
  acc && negb (beq a (t_alh (nth n P p1))) && negb (beq b (get (export_rec false (nth n P p1)))).

(* one flipped bit of Ts: byte 4+8+32+7 of the export *)
Definition flip_ts_bit (b : bytes) : bytes :=
  firstn 51 b ++ [N.lxor (nth 51 b 0) 1] ++ skipn 52 b.

Definition genuine2 : bytes := get (export_rec false p2).
Definition alt_ts : bytes := flip_ts_bit genuine2.
Definition alt_bl : bytes := get (export_rec false (with_hdr p2 (set_bl (t_hdr p2) 0 zeros32))).
Definition alt_md : bytes :=
  get (export_rec false (with_hdr p2 (set_md (t_hdr p2) (Some {| md_trunc := Some 1; md_extra := None |})))).
(* p3 re-created with header version 0 and the entries hash of the version-0 digest function *)
Definition alt_ver : bytes :=
  get (export_rec false (with_hdr p3 (set_ver_eh (t_hdr p3) 0 (get (eh_of Hs 0 (t_ents p3)))))).
(* a value of p3 replaced, entries hash recomputed *)
Definition e31' := p_entry [107; 49] None [6; 6; 6].
Definition alt_entries : bytes :=
  get (export_rec false {| t_hdr := set_ver_eh (t_hdr p3) 1 (get (eh_of Hs 1 [e31'])); t_ents := [e31']; t_alh := [] |}).
(* a value replaced and nothing else (passes only when the integrity check is skipped) *)
Definition alt_value_only : bytes :=
  get (export_rec false {| t_hdr := t_hdr p3; t_ents := [e31']; t_alh := [] |}).

Lemma nth_firstn_lt' {A} : forall (l : list A) n i d, (i < n)%nat -> nth i (firstn n l) d = nth i l d.
Proof.
  induction l as [|x l IH]; intros [|n] [|i] d L; simpl; auto; try lia. apply IH. lia.
Qed.
Lemma nth_skipn' {A} : forall (l : list A) n i d, nth i (skipn n l) d = nth (n + i) l d.
Proof.
  induction l as [|x l IH]; intros [|n] i d; simpl; auto. destruct i; reflexivity.
Qed.

Lemma flip_ts_bit_spec (b : bytes) : (52 <= length b)%nat ->
  length (flip_ts_bit b) = length b /\
  (forall i, i <> 51%nat -> nth i (flip_ts_bit b) 0 = nth i b 0) /\
  nth 51 (flip_ts_bit b) 0 = N.lxor (nth 51 b 0) 1.
Proof.
  intros L. unfold flip_ts_bit.
  assert (Lf : length (firstn 51 b) = 51%nat) by (rewrite firstn_length; lia).
  split; [|split].
  - rewrite !app_length, Lf, skipn_length. cbn [length]. lia.
  - intros i Hi. destruct (Nat.lt_ge_cases i 51) as [Lt|Ge].
    + rewrite app_nth1 by lia. apply nth_firstn_lt'; auto.
    + rewrite app_nth2 by lia. rewrite Lf.
      destruct (i - 51)%nat as [|k] eqn:Ek; [lia|]. cbn [app nth].
      rewrite nth_skipn'. f_equal. lia.
  - rewrite app_nth2 by lia. rewrite Lf. reflexivity.
Qed.

(* an asynchronous replica holding exactly the primary's tx 1 is offered the export of tx 2 with one
   flipped bit of Ts: (accepted, number of committed transactions, committed Alh = the primary's) *)
Definition ts_outcome : bool * N * bool :=
  match replicate Hs cfg_async false (st_after cfg_async P3 1) alt_ts with
  | Ok st' => (true, lenN (s_com st'), beq (com_alh Hs st') (t_alh p2))
  | _ => (false, 0, false)
  end.

Theorem altered_rejected_refuted :
  (* the bytes differ from the genuine export in exactly one bit of Ts (byte 51) *)
  length alt_ts = length genuine2 /\
  (forall i, i <> 51%nat -> nth i alt_ts 0 = nth i genuine2 0) /\
  nth 51 alt_ts 0 = N.lxor (nth 51 genuine2 0) 1 /\
  (* the replica accepts them, commits tx 2, and its Alh is not the primary's *)
  ts_outcome = (true, 2, false).
Proof.
  assert (L : (52 <= length genuine2)%nat).
  { apply Nat.leb_le. vm_compute. reflexivity. }
  destruct (flip_ts_bit_spec genuine2 L) as (A & B & C).
  split; [exact A|]. split; [exact B|]. split; [exact C|].
  vm_compute. reflexivity.
Qed.

(* every field that enters the Alh only through the inner hash can be altered (with the checksums
   the message itself carries recomputed): Ts, BlTxID+BlRoot, Metadata, Version, Eh+entries;
   with skipIntegrityCheck also the entries alone *)
Theorem uncovered_fields_accepted :
  accepted_other_alh cfg_sync false P3 1 alt_ts = true /\
  accepted_other_alh cfg_sync false P3 1 alt_bl = true /\
  accepted_other_alh cfg_sync false P3 1 alt_md = true /\
  accepted_other_alh cfg_sync false P3 2 alt_ver = true /\
  accepted_other_alh cfg_sync false P3 2 alt_entries = true /\
  accepted_other_alh cfg_sync true P3 2 alt_value_only = true /\
  (* the same value alteration is rejected when the integrity check is on *)
  fst (offer cfg_sync false P3 2 alt_value_only) = false.
Proof. vm_compute. repeat split. Qed.

(* a reopened replica takes its precommitted backlog back (before /repo b814f8c a store with embedded
   values lost it: the reload loop did not skip the values prefix; the model had a flag for that) *)
Example restart_keeps_backlog :
  let st := run Hs cfg_sync P3 [ADeliver false 0 false; ADeliver false 1 false] in
  pre_id st = 2 /\ map t_alh (chain (restart Hs cfg_sync st)) = map t_alh (chain st).
Proof. vm_compute. split; reflexivity. Qed.

(* ---- premises of altered_rejected_partial are satisfiable (the genuine export itself) ---- *)
Example altered_partial_sat :
  chain (st_after cfg_sync P3 1) = [p1] /\
  h_prevalh (t_hdr p2) = last_alh Hs (firstn 1 P3) /\
  h_blroot (t_hdr p2) = root_at Hs (h_bltxid (t_hdr p2)) (map t_alh (firstn 1 P3)) /\
  is_ok (repl_parse genuine2) = true /\
  is_ok (replicate Hs cfg_sync false (st_after cfg_sync P3 1) genuine2) = true.
Proof. vm_compute. repeat split. Qed.

(* ---- synchronous replication: the premises of the two theorems are met by a small run ---- *)
Definition a1 : bytes := t_alh p1.
Definition rep1 : report := {| r_uuid := 0; r_cid := 0; r_calh := Hs []; r_pid := 1; r_palh := a1 |}.
Example sync_ack_sat :
  match p_report Hs 1 (prun Hs 1 [PPre a1]) rep1 with
  | Ok (p', _) => (p_allowed (prun Hs 1 [PPre a1]) <? p_allowed p') && (p_com p' =? 1)
  | _ => false
  end = true.
Proof. vm_compute. reflexivity. Qed.

Example sync_pair_sat :
  let y := yrun Hs 1 cfg_sync 1 [YPre a1; YDeliver 0 false (get (export_rec false p1)); YFetch 0; YFetch 0] in
  map (com_id) (y_r y) = [1] /\ p_com (y_p y) = 1.
Proof. vm_compute. split; reflexivity. Qed.
