(* C07: what the theorems speak about.  The primary's history as a list of transaction records,
   the bytes ExportTx produces for them, the replicator's actions on a replica store, and the
   relation "the replica holds a prefix of the primary's history".  No proofs in this file. *)
From V Require Export Repl.Model Store.CodecRoundtrip.

Section Spec.
Variable H : bytes -> bytes.

(* ---- the primary's side ---- *)
(* what ExportTx writes for one entry: the value, or its digest once the primary truncated it *)
Definition xe_of (tr : bool) (e : rentry) : xentry :=
  {| x_key := re_key e; x_md := re_md e;
     x_val := if tr then re_hval e else match re_val e with Some v => v | None => [] end |}.

(* ExportTx(txID): header bytes, entries, truncation trailer *)
Definition export_rec (tr : bool) (r : txrec) : res bytes :=
  do hb <- txhdr_bytes (t_hdr r); Ok (export_tx hb (map (xe_of tr) (t_ents r)) tr).

(* a record of the primary as its own ReadTx returns it: values present, metadata in canonical form
   (a nil pointer when it serialises to nothing), value hash = H(value), Eh = root of the entry
   digests, Alh computed from the header, lengths within the limits the Go encoders enforce *)
Definition entry_valid (e : rentry) : bool :=
  xentry_valid (xe_of false e) && xentry_valid (xe_of true e) &&
  match re_md e with Some m => negb (len (kvmd_bytes m) =? 0) | None => true end &&
  hash_ok (re_hval e) &&
  match re_val e with Some v => beq (re_hval e) (H v) | None => false end.

Definition md_canonical (m : option txmd) : bool :=
  match m with Some m' => negb (len (txmd_bytes m') =? 0) | None => true end.

Definition rec_valid (id : N) (r : txrec) : bool :=
  let h := t_hdr r in
  txhdr_valid h && md_canonical (h_md h) && (h_id h =? id) &&
  (h_nentries h =? lenN (t_ents r)) && forallb entry_valid (t_ents r) &&
  match eh_of H (h_version h) (t_ents r) with Ok eh => beq eh (h_eh h) | _ => false end &&
  beq (t_alh r) (alh H h).

Fixpoint valid_from (id : N) (l : list txrec) : bool :=
  match l with
  | [] => true
  | r :: t => rec_valid id r && valid_from (id + 1) t
  end.
(* the primary's history: transaction ids are the positions 1, 2, ... *)
Definition primary_valid (P : list txrec) : bool := valid_from 1 P.

(* ---- the replicator's actions on one replica ---- *)
Inductive action :=
| ADeliver (skip : bool) (j : nat) (tr : bool)   (* ReplicateTx(export of the primary's (j+1)-th tx) *)
| AAllow (t : N)                                 (* AllowCommitUpto *)
| ADiscard (t : N)                               (* DiscardPrecommittedTxsSince *)
| ARestart.                                      (* Close + Open *)

Definition act (c : cfg) (P : list txrec) (st : store) (a : action) : store :=
  match a with
  | ADeliver skip j tr =>
      match nth_error P j with
      | Some r => match export_rec tr r with
                  | Ok b => replicate_st H c skip st b
                  | _ => st
                  end
      | None => st
      end
  | AAllow t => match allow_commit c st t with Ok s => s | _ => st end
  | ADiscard t => match discard st t with Ok (s, _) => s | _ => st end
  | ARestart => restart H c st
  end.

(* any order, any duplication, any retries, restarts and discards: every finite action list *)
Definition run (c : cfg) (P : list txrec) (acts : list action) : store :=
  fold_left (act c P) acts (store_open c).

(* the replica's copy of a primary record: identical, or identical without the values when the
   primary had truncated them before exporting *)
Definition forget_entry (e : rentry) : rentry :=
  {| re_key := re_key e; re_md := re_md e; re_hval := re_hval e; re_val := None |}.
Definition forget (r : txrec) : txrec :=
  {| t_hdr := t_hdr r; t_ents := map forget_entry (t_ents r); t_alh := t_alh r |}.
Definition matches (r p : txrec) : Prop := r = p \/ r = forget p.

(* l is the primary's history up to length l: same headers, keys, metadata, value hashes, values
   (when exported), same Alh *)
Definition is_prefix (P l : list txrec) : Prop :=
  (length l <= length P)%nat /\ Forall2 matches l (firstn (length l) P).

End Spec.
