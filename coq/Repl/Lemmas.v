(* C07: structural facts about the store model (live records, commit, discard, reload). *)
From V Require Import Repl.Spec.
From Coq Require Import ZifyN ZifyNat ZifyBool.

Lemma beq_eq a b : beq a b = true -> a = b.
Proof.
  revert b; induction a as [|x a IH]; intros [|y b]; simpl; try discriminate; auto.
  intros E. apply andb_prop in E as [E1 E2]. apply N.eqb_eq in E1. f_equal; auto.
Qed.
Lemma beq_refl a : beq a a = true.
Proof. induction a as [|x a IH]; simpl; auto. rewrite N.eqb_refl; auto. Qed.

Lemma lenN_app {A} (a b : list A) : lenN (a ++ b) = lenN a + lenN b.
Proof. unfold lenN. rewrite app_length. lia. Qed.
Lemma lenN_map {A B} (f : A -> B) l : lenN (map f l) = lenN l.
Proof. unfold lenN. rewrite map_length. reflexivity. Qed.

Section L.
Variable H : bytes -> bytes.

(* ---- may_commit ---- *)
Lemma may_commit_chain c st : chain (may_commit c st) = chain st.
Proof.
  unfold may_commit.
  destruct ((if c_ext c then s_allowed st else pre_id st) - com_id st =? 0); auto.
  destruct (lenN (s_tail st) <? _); auto. unfold chain. cbn [s_com s_tail].
  rewrite <- app_assoc, firstn_skipn. reflexivity.
Qed.
Lemma may_commit_ghost c st : s_ghost (may_commit c st) = s_ghost st.
Proof.
  unfold may_commit. destruct (_ =? 0); auto. destruct (_ <? _); reflexivity.
Qed.
Lemma In_skipn' {A} : forall (l : list A) n x, In x (skipn n l) -> In x l.
Proof. induction l as [|y l IH]; intros [|n] x I; simpl in *; auto. right. eauto. Qed.
Lemma may_commit_tail_incl c st r : In r (s_tail (may_commit c st)) -> In r (s_tail st).
Proof.
  unfold may_commit. destruct (_ =? 0); auto. destruct (_ <? _); auto. cbn [s_tail]. apply In_skipn'.
Qed.
(* either nothing happens, or at least one record is committed *)
Lemma may_commit_cases c st : may_commit c st = st \/ s_com (may_commit c st) <> [].
Proof.
  unfold may_commit. destruct (N.eqb_spec ((if c_ext c then s_allowed st else pre_id st) - com_id st) 0); auto.
  destruct (N.ltb_spec (lenN (s_tail st)) ((if c_ext c then s_allowed st else pre_id st) - com_id st)); auto.
  right. cbn [s_com]. destruct (s_tail st) as [|x t]; [unfold lenN in *; simpl in *; lia|].
  destruct (N.to_nat _) eqn:E; [lia|]. simpl. destruct (s_com st); discriminate.
Qed.
Lemma may_commit_pre_id c st : pre_id (may_commit c st) = pre_id st.
Proof. unfold pre_id. rewrite may_commit_chain. reflexivity. Qed.
Lemma may_commit_pre_alh c st : pre_alh H (may_commit c st) = pre_alh H st.
Proof. unfold pre_alh. rewrite may_commit_chain. reflexivity. Qed.

(* ---- reload ---- *)
(* every reloaded record is a record of the list with its Alh recomputed *)
Lemma reload_incl : forall l cur a r, In r (reload H cur a l) ->
  exists r0, In r0 l /\ r = {| t_hdr := t_hdr r0; t_ents := t_ents r0; t_alh := alh H (t_hdr r0) |}.
Proof.
  induction l as [|x l IH]; intros cur a r I; simpl in I; [contradiction|].
  destruct (_ && _); [|contradiction]. destruct I as [<-|I].
  - exists x. split; auto. left; reflexivity.
  - destruct (IH _ _ _ I) as [r0 [I0 E]]. exists r0. split; auto. right; auto.
Qed.
(* reloaded records carry consecutive ids *)
Lemma reload_ids : forall l cur a i r, nth_error (reload H cur a l) i = Some r ->
  h_id (t_hdr r) = cur + 1 + N.of_nat i.
Proof.
  induction l as [|x l IH]; intros cur a i r E; simpl in E.
  - destruct i; discriminate.
  - destruct (h_id (t_hdr x) =? cur + 1) eqn:E1; simpl in E; [|destruct i; discriminate].
    destruct (beq _ _); [|destruct i; discriminate].
    destruct i as [|i]; simpl in E.
    + inversion E; subst. simpl. apply N.eqb_eq in E1. lia.
    + apply IH in E. lia.
Qed.
Lemma reload_length l cur a : (length (reload H cur a l) <= length l)%nat.
Proof.
  revert cur a; induction l as [|x l IH]; intros cur a; simpl; auto.
  destruct (_ && _); simpl; [|lia]. specialize (IH (cur + 1) (alh H (t_hdr x))). lia.
Qed.

End L.
