(* C07: structural facts about the store model (live records, commit, discard, reload). *)
From V Require Import Repl.Spec.
From Coq Require Import ZifyN ZifyNat ZifyBool.

Lemma beq_eq a b : beq a b = true -> a = b.
Proof.
  revert b; induction a as [|x a IH]; intros [|y b]; simpl; try discriminate; auto.
  intros E. apply andb_prop in E as [E1 E2]. apply N.eqb_eq in E1. f_equal; auto.
Qed.
Lemma beq_refl a : beq a a = true.
Proof. induction a as [|x a IH]; simpl; auto. rewrite N.eqb_refl; auto. Qed.

Lemma lenN_app {A} (a b : list A) : lenN (a ++ b) = lenN a + lenN b.
Proof. unfold lenN. rewrite app_length. lia. Qed.
Lemma lenN_map {A B} (f : A -> B) l : lenN (map f l) = lenN l.
Proof. unfold lenN. rewrite map_length. reflexivity. Qed.

(* ---- live ---- *)
Lemma live_app a b : live (a ++ b) = live a ++ live b.
Proof. unfold live. rewrite filter_app, map_app. reflexivity. Qed.
Lemma live_all l : live (map (fun r : txrec => (r, true)) l) = l.
Proof. unfold live. induction l as [|x l IH]; simpl; auto. f_equal; exact IH. Qed.
Lemma live_incl t r : In r (live t) -> In r (map fst t).
Proof.
  unfold live. intros I. apply in_map_iff in I as [[x b] [E I]]. apply filter_In in I as [I _].
  apply in_map_iff. exists (x, b); auto.
Qed.

(* ---- take_live / may_commit ---- *)
Lemma take_live_spec : forall t n a b, take_live n t = (a, b) ->
  a ++ live b = live t /\ (forall r, In r (map fst b) -> In r (map fst t)).
Proof.
  induction t as [|[r f] t IH]; intros n a b E.
  - destruct n; simpl in E; inversion E; subst; simpl; auto.
  - destruct n as [|n].
    + simpl in E. inversion E; subst. simpl. auto.
    + simpl in E. destruct f.
      * destruct (take_live n t) as [a' b'] eqn:E'. inversion E; subst.
        destruct (IH _ _ _ E') as [I1 I2]. split.
        -- unfold live in *. simpl. rewrite <- I1. reflexivity.
        -- intros x Hx. right. auto.
      * destruct (IH _ _ _ E) as [I1 I2]. split.
        -- unfold live in *. simpl. exact I1.
        -- intros x Hx. right. auto.
Qed.

Section L.
Variable H : bytes -> bytes.

Lemma may_commit_chain c st : chain (may_commit c st) = chain st.
Proof.
  unfold may_commit.
  destruct ((if c_ext c then s_allowed st else pre_id st) - com_id st =? 0); auto.
  destruct (take_live _ _) as [a b] eqn:E. destruct (lenN a <? _); auto. unfold chain. simpl.
  destruct (take_live_spec _ _ _ _ E) as [E1 _]. rewrite <- app_assoc, E1. reflexivity.
Qed.
Lemma may_commit_ghost c st : s_ghost (may_commit c st) = s_ghost st.
Proof.
  unfold may_commit. destruct (_ =? 0); auto. destruct (take_live _ _). destruct (_ <? _); reflexivity.
Qed.
Lemma may_commit_tail_incl c st r :
  In r (map fst (s_tail (may_commit c st))) -> In r (map fst (s_tail st)).
Proof.
  unfold may_commit. destruct (_ =? 0); auto. destruct (take_live _ _) as [a b] eqn:E.
  destruct (_ <? _); auto. simpl.
  destruct (take_live_spec _ _ _ _ E) as [_ I]. auto.
Qed.
(* the committed list only grows, by records that were live *)
Lemma may_commit_com c st : exists a, s_com (may_commit c st) = s_com st ++ a.
Proof.
  unfold may_commit. destruct (_ =? 0).
  - exists []. rewrite app_nil_r. reflexivity.
  - destruct (take_live _ _) as [a b]. destruct (_ <? _).
    + exists []. rewrite app_nil_r. reflexivity.
    + exists a. reflexivity.
Qed.
(* either nothing happens, or at least one record is committed *)
Lemma may_commit_cases c st : may_commit c st = st \/ s_com (may_commit c st) <> [].
Proof.
  unfold may_commit. destruct (N.eqb_spec ((if c_ext c then s_allowed st else pre_id st) - com_id st) 0); auto.
  destruct (take_live _ _) as [a b]. destruct (N.ltb_spec (lenN a) ((if c_ext c then s_allowed st else pre_id st) - com_id st)); auto.
  right. simpl. destruct a; [unfold lenN in *; simpl in *; lia|]. destruct (s_com st); discriminate.
Qed.
Lemma may_commit_pre_id c st : pre_id (may_commit c st) = pre_id st.
Proof. unfold pre_id. rewrite may_commit_chain. reflexivity. Qed.
Lemma may_commit_pre_alh c st : pre_alh H (may_commit c st) = pre_alh H st.
Proof. unfold pre_alh. rewrite may_commit_chain. reflexivity. Qed.

(* ---- kill_last ---- *)
Lemma kill_go_fst : forall t k,
  map fst ((fix go (k : nat) (t : list (txrec * bool)) : list (txrec * bool) :=
     match t with
     | [] => []
     | (r, true) :: t' => match k with O => (r, false) :: go O t' | S k' => (r, true) :: go k' t' end
     | (r, false) :: t' => (r, false) :: go k t'
     end) k t) = map fst t.
Proof.
  induction t as [|[r f] t IH]; intros k; simpl; auto.
  destruct f; [destruct k|]; simpl; rewrite IH; reflexivity.
Qed.
Lemma kill_last_fst n t : map fst (kill_last n t) = map fst t.
Proof. unfold kill_last. apply kill_go_fst. Qed.

Lemma kill_go_live : forall t k,
  live ((fix go (k : nat) (t : list (txrec * bool)) : list (txrec * bool) :=
     match t with
     | [] => []
     | (r, true) :: t' => match k with O => (r, false) :: go O t' | S k' => (r, true) :: go k' t' end
     | (r, false) :: t' => (r, false) :: go k t'
     end) k t) = firstn k (live t).
Proof.
  unfold live. induction t as [|[r f] t IH]; intros k; simpl.
  - destruct k; reflexivity.
  - destruct f.
    + destruct k; simpl; rewrite IH; reflexivity.
    + simpl. apply IH.
Qed.
Lemma kill_last_live n t : live (kill_last n t) = firstn (length (live t) - n) (live t).
Proof.
  unfold kill_last. rewrite kill_go_live. f_equal. unfold live. rewrite map_length. reflexivity.
Qed.

(* ---- reload ---- *)
(* every reloaded record is a record of the list with its Alh recomputed *)
Lemma reload_incl : forall l cur a r, In r (reload H cur a l) ->
  exists r0, In r0 l /\ r = {| t_hdr := t_hdr r0; t_ents := t_ents r0; t_alh := alh H (t_hdr r0) |}.
Proof.
  induction l as [|x l IH]; intros cur a r I; simpl in I; [contradiction|].
  destruct (_ && _); [|contradiction]. destruct I as [<-|I].
  - exists x. split; auto. left; reflexivity.
  - destruct (IH _ _ _ I) as [r0 [I0 E]]. exists r0. split; auto. right; auto.
Qed.
(* reloaded records carry consecutive ids *)
Lemma reload_ids : forall l cur a i r, nth_error (reload H cur a l) i = Some r ->
  h_id (t_hdr r) = cur + 1 + N.of_nat i.
Proof.
  induction l as [|x l IH]; intros cur a i r E; simpl in E.
  - destruct i; discriminate.
  - destruct (h_id (t_hdr x) =? cur + 1) eqn:E1; simpl in E; [|destruct i; discriminate].
    destruct (beq _ _); [|destruct i; discriminate].
    destruct i as [|i]; simpl in E.
    + inversion E; subst. simpl. apply N.eqb_eq in E1. lia.
    + apply IH in E. lia.
Qed.
Lemma reload_length l cur a : (length (reload H cur a l) <= length l)%nat.
Proof.
  revert cur a; induction l as [|x l IH]; intros cur a; simpl; auto.
  destruct (_ && _); simpl; [|lia]. specialize (IH (cur + 1) (alh H (t_hdr x))). lia.
Qed.

End L.
