(* Refinement proofs, part 3: findLeafNode (both directions, with neqKey and offset) locates the
   first acceptable entry of the in-order sequence of leaf values, and the path it returns is a
   zipper over that sequence; hence the Reader's cursor enumerates, in reader order, exactly the
   entries from the seek point on, and GetWithPrefix returns what the abstract map defines. *)
From V Require Import Index.MVMap Index.MVMapProofs Index.BTree Index.BTreeProofs Index.QueryProofs.
From Coq Require Import ZifyN ZifyNat ZifyBool ZArith.

(* ---------- generic list helpers ---------- *)
Lemma drop_until_none {A} (f : A -> bool) l : Forall (fun x => f x = false) l -> drop_until f l = [].
Proof. induction l as [|x l IH]; intros H; simpl; auto. inversion H; subst. rewrite H2. auto. Qed.

Lemma drop_until_nil_inv {A} (f : A -> bool) l : drop_until f l = [] -> Forall (fun x => f x = false) l.
Proof.
  induction l as [|x l IH]; intros H; simpl in *; auto. destruct (f x) eqn:E; [discriminate|].
  constructor; auto.
Qed.

Lemma drop_until_app_none {A} (f : A -> bool) a b :
  Forall (fun x => f x = false) a -> drop_until f (a ++ b) = drop_until f b.
Proof. induction a as [|x a IH]; intros H; simpl; auto. inversion H; subst. rewrite H2. auto. Qed.

Lemma drop_until_app_some {A} (f : A -> bool) a b :
  drop_until f a <> [] -> drop_until f (a ++ b) = drop_until f a ++ b.
Proof.
  induction a as [|x a IH]; intros H; simpl in *; [congruence|]. destruct (f x); auto.
Qed.

Lemma drop_until_all {A} (f : A -> bool) l : Forall (fun x => f x = true) l -> drop_until f l = l.
Proof. destruct l as [|x l]; intros H; simpl; auto. inversion H; subst. rewrite H2. auto. Qed.

Lemma skipn_app_exact {A} (a b : list A) n : n = length a -> skipn n (a ++ b) = b.
Proof. intros ->. rewrite skipn_app, skipn_all, Nat.sub_diag. reflexivity. Qed.

Lemma skipn_app_ge {A} (a b : list A) n : (length a <= n)%nat -> skipn n (a ++ b) = skipn (n - length a) b.
Proof. intros H. rewrite skipn_app. rewrite skipn_all2 by lia. reflexivity. Qed.

Lemma firstn_app_exact {A} (a b : list A) n : n = length a -> firstn n (a ++ b) = a.
Proof. intros ->. rewrite firstn_app, firstn_all, Nat.sub_diag. simpl. apply app_nil_r. Qed.

Lemma skipn_nth_cons {A} (l : list A) i a : nth_error l i = Some a -> skipn i l = a :: skipn (S i) l.
Proof.
  revert i. induction l as [|x l IH]; intros [|i] H; simpl in *; try discriminate.
  - inversion H; reflexivity.
  - apply IH; auto.
Qed.

(* ---------- zipper vocabulary ---------- *)
Definition pent_ok (maxn : N) (e : node * N) : Prop :=
  wfn maxn (fst e) /\ ssorted (lkeys (flatten (fst e))) /\ exists t cs, fst e = Inner t cs.
Definition path_ok (maxn : N) (p : path) : Prop := Forall (pent_ok maxn) p.

(* ascending: what is to the right of the position the path describes *)
Definition entry_rest_asc (e : node * N) : list lval :=
  match fst e with
  | Inner _ cs => flat (skipn (S (N.to_nat (snd e))) cs)
  | Leaf _ _ => []
  end.
Definition rest_asc (p : path) : list lval := flat_map entry_rest_asc p.
Definition from_asc (n : node) (offset : N) : list lval :=
  match n with
  | Leaf _ vs => vs
  | Inner _ cs => flat (skipn (N.to_nat offset) cs)
  end.

(* the entries findLeafNode accepts *)
Definition acc_asc (seek neq : bytes) (lv : lval) : bool :=
  negb (negb (is_nil neq) && ble (lv_key lv) neq) && ble seek (lv_key lv).
Definition acc_desc (seek neq : bytes) (lv : lval) : bool :=
  negb (negb (is_nil neq) && ble neq (lv_key lv)) && ble (lv_key lv) seek.

Lemma from_asc_0 n : from_asc n 0 = flatten n.
Proof. destruct n; reflexivity. Qed.

(* ---------- leaf level, ascending ---------- *)
Lemma leaf_find_asc_spec seek neq vs : forall j,
  match leaf_find_asc vs seek neq j with
  | Some i => exists k, i = j + N.of_nat k /\ (k < length vs)%nat /\
                        drop_until (acc_asc seek neq) vs = skipn k vs
  | None => drop_until (acc_asc seek neq) vs = []
  end.
Proof.
  induction vs as [|v r IH]; intros j; simpl; auto.
  unfold acc_asc at 1 3.
  destruct (negb (is_nil neq) && ble (lv_key v) neq) eqn:E1; cbn [negb andb].
  - specialize (IH (j + 1)). destruct (leaf_find_asc r seek neq (j + 1)) as [i|]; auto.
    destruct IH as (k & -> & Hk & Hd). exists (S k). repeat split; auto; lia.
  - destruct (ble seek (lv_key v)) eqn:E2.
    + exists O. repeat split; auto; lia.
    + specialize (IH (j + 1)). destruct (leaf_find_asc r seek neq (j + 1)) as [i|]; auto.
      destruct IH as (k & -> & Hk & Hd). exists (S k). repeat split; auto; lia.
Qed.

(* ---------- inner level, ascending ---------- *)
Definition asc_loop (n : node) (seek : bytes) (p : path) (offset : N) (neq : bytes)
  : list node -> N -> option (path * list lval * N) :=
  fix loop (l : list node) (i : N) {struct l} : option (path * list lval * N) :=
    match l with
    | [] => None
    | c :: r =>
        match r with
        | [] => find_leaf c seek ((n, i) :: p) 0 neq false
        | c2 :: _ =>
            if i <? offset then loop r (i + 1)
            else if ble (min_key c2) seek then loop r (i + 1)
            else if negb (is_nil neq) && blt (min_key c2) neq then loop r (i + 1)
            else match find_leaf c seek ((n, i) :: p) 0 neq false with
                 | Some x => Some x
                 | None => loop r (i + 1)
                 end
        end
    end.

Lemma find_leaf_inner_asc t cs seek p offset neq :
  find_leaf (Inner t cs) seek p offset neq false =
  if is_nil cs || (N.of_nat (length cs) - 1 <? offset) then None
  else asc_loop (Inner t cs) seek p offset neq cs 0.
Proof. reflexivity. Qed.

Lemma asc_loop_cons1 n seek p offset neq c i :
  asc_loop n seek p offset neq [c] i = find_leaf c seek ((n, i) :: p) 0 neq false.
Proof. reflexivity. Qed.
Lemma asc_loop_cons2 n seek p offset neq c c2 r i :
  asc_loop n seek p offset neq (c :: c2 :: r) i =
  if i <? offset then asc_loop n seek p offset neq (c2 :: r) (i + 1)
  else if ble (min_key c2) seek then asc_loop n seek p offset neq (c2 :: r) (i + 1)
  else if negb (is_nil neq) && blt (min_key c2) neq then asc_loop n seek p offset neq (c2 :: r) (i + 1)
  else match find_leaf c seek ((n, i) :: p) 0 neq false with
       | Some x => Some x
       | None => asc_loop n seek p offset neq (c2 :: r) (i + 1)
       end.
Proof. reflexivity. Qed.

(* what findLeafNode (ascending) guarantees *)
Definition fl_asc_post (maxn : N) (seek neq : bytes) (stream : list lval) (p : path)
           (r : option (path * list lval * N)) : Prop :=
  match r with
  | None => drop_until (acc_asc seek neq) stream = []
  | Some (p', vs, off) =>
      (N.to_nat off < length vs)%nat /\ drop_until (acc_asc seek neq) stream <> [] /\
      skipn (N.to_nat off) vs ++ rest_asc p' = drop_until (acc_asc seek neq) stream ++ rest_asc p /\
      (path_ok maxn p -> path_ok maxn p')
  end.

Definition fl_asc_stmt (maxn : N) (seek neq : bytes) (n : node) : Prop :=
  forall p offset, fl_asc_post maxn seek neq (from_asc n offset) p (find_leaf n seek p offset neq false).

Lemma rest_asc_cons t cs i p :
  rest_asc ((Inner t cs, i) :: p) = flat (skipn (S (N.to_nat i)) cs) ++ rest_asc p.
Proof. reflexivity. Qed.

Lemma keys_below_next maxn c c2 r x :
  wfn maxn c2 -> ssorted (lkeys (flat (c :: c2 :: r))) -> In x (lkeys (flatten c)) -> klt x (min_key c2).
Proof.
  intros W Hs Hx. rewrite flat_cons, lkeys_app in Hs. apply ssorted_app in Hs as (_ & _ & S3).
  apply S3; auto. rewrite flat_cons, lkeys_app. apply in_or_app. left. eapply wfn_min_key_in; eauto.
Qed.

Lemma asc_loop_spec maxn seek neq t cs p offset :
  wfn maxn (Inner t cs) -> ssorted (lkeys (flat cs)) ->
  forall l pre, cs = pre ++ l -> l <> [] -> (N.to_nat offset < length pre + length l)%nat ->
  Forall (fun c => wfn maxn c /\ fl_asc_stmt maxn seek neq c) l ->
  fl_asc_post maxn seek neq (flat (skipn (N.to_nat offset - length pre) l)) p
    (asc_loop (Inner t cs) seek p offset neq l (N.of_nat (length pre))).
Proof.
  intros Wn Hsn. induction l as [|c r IH]; intros pre Hcs Hne Hoff HP; [congruence|].
  apply Forall_cons_iff in HP as [[Wc Stc] HPr].
  assert (Hs : ssorted (lkeys (flat (c :: r)))).
  { rewrite Hcs, flat_app, lkeys_app in Hsn. apply ssorted_app in Hsn. tauto. }
  assert (Hskip : skipn (S (length pre)) cs = r).
  { rewrite Hcs. replace (pre ++ c :: r) with ((pre ++ [c]) ++ r) by (rewrite <- app_assoc; reflexivity).
    apply skipn_app_exact. rewrite app_length. simpl. lia. }
  (* the result of looking into child c, placed in the stream c :: r *)
  assert (Hchild : forall res, res = find_leaf c seek ((Inner t cs, N.of_nat (length pre)) :: p) 0 neq false ->
            match res with
            | Some x => fl_asc_post maxn seek neq (flat (c :: r)) p (Some x)
            | None => Forall (fun x => acc_asc seek neq x = false) (flatten c)
            end).
  { intros res ->. pose proof (Stc ((Inner t cs, N.of_nat (length pre)) :: p) 0) as Q.
    rewrite from_asc_0 in Q.
    destruct (find_leaf c seek ((Inner t cs, N.of_nat (length pre)) :: p) 0 neq false) as [[[p' vs] off]|].
    - destruct Q as (Q1 & Q2 & Q3 & Q4). unfold fl_asc_post. rewrite flat_cons.
      rewrite (drop_until_app_some _ _ _ Q2). repeat split; auto.
      + intros E. apply app_eq_nil in E as [E _]. auto.
      + rewrite Q3, rest_asc_cons, Nnat.Nat2N.id, Hskip, <- app_assoc. reflexivity.
      + intros Hp. apply Q4. constructor; auto. split; [exact Wn | split; [exact Hsn | simpl; eauto]].
    - apply drop_until_nil_inv. exact Q. }
  destruct r as [|c2 r'].
  - (* the last child *)
    rewrite asc_loop_cons1.
    replace (N.to_nat offset - length pre)%nat with O by (simpl in Hoff; lia). cbn [skipn].
    specialize (Hchild _ eq_refl).
    destruct (find_leaf c seek ((Inner t cs, N.of_nat (length pre)) :: p) 0 neq false) as [x|]; auto.
    unfold fl_asc_post. unfold flat; simpl. rewrite app_nil_r. apply drop_until_none. exact Hchild.
  - rewrite asc_loop_cons2.
    apply Forall_cons_iff in HPr as [[Wc2 Stc2] HPr'].
    assert (Hnext : fl_asc_post maxn seek neq
                      (flat (skipn (N.to_nat offset - length (pre ++ [c])) (c2 :: r'))) p
                      (asc_loop (Inner t cs) seek p offset neq (c2 :: r') (N.of_nat (length pre) + 1))).
    { replace (N.of_nat (length pre) + 1) with (N.of_nat (length (pre ++ [c]))) by (rewrite app_length; simpl; lia).
      apply IH.
      - rewrite <- app_assoc. exact Hcs.
      - discriminate.
      - rewrite app_length. simpl in *. lia.
      - constructor; auto. }
    rewrite app_length in Hnext. cbn [length] in Hnext.
    destruct (N.ltb_spec (N.of_nat (length pre)) offset) as [L | L].
    + (* children before the offset are not visited *)
      replace (N.to_nat offset - length pre)%nat with (S (N.to_nat offset - (length pre + 1)))%nat by lia.
      cbn [skipn]. exact Hnext.
    + replace (N.to_nat offset - length pre)%nat with O by lia. cbn [skipn].
      replace (N.to_nat offset - (length pre + 1))%nat with O in Hnext by lia. cbn [skipn] in Hnext.
      assert (Hskipc : Forall (fun x => acc_asc seek neq x = false) (flatten c) ->
                fl_asc_post maxn seek neq (flat (c :: c2 :: r')) p
                  (asc_loop (Inner t cs) seek p offset neq (c2 :: r') (N.of_nat (length pre) + 1))).
      { intros Hno. unfold fl_asc_post in *. rewrite flat_cons.
        rewrite (drop_until_app_none _ _ _ Hno). exact Hnext. }
      destruct (ble (min_key c2) seek) eqn:E1.
      * (* every key of c is below the next min key, which is <= seek *)
        apply Hskipc. apply Forall_forall. intros x Hx. unfold acc_asc.
        apply ble_iff in E1.
        assert (L1 : klt (lv_key x) seek).
        { eapply klt_kle_trans; [|exact E1]. eapply keys_below_next; eauto. apply in_map; auto. }
        apply ble_false in L1. rewrite L1. apply andb_false_r.
      * destruct (negb (is_nil neq) && blt (min_key c2) neq) eqn:E2.
        -- (* every key of c is below the next min key, which is below neq *)
           apply Hskipc. apply Forall_forall. intros x Hx. unfold acc_asc.
           apply andb_prop in E2 as [E2 E3]. rewrite E2. apply blt_iff in E3.
           assert (L1 : kle (lv_key x) neq).
           { apply klt_kle. eapply klt_trans; [|exact E3]. eapply keys_below_next; eauto. apply in_map; auto. }
           apply ble_iff in L1. rewrite L1. reflexivity.
        -- specialize (Hchild _ eq_refl).
           destruct (find_leaf c seek ((Inner t cs, N.of_nat (length pre)) :: p) 0 neq false) as [x|]; auto.
Qed.

Lemma find_leaf_asc_spec maxn seek neq n :
  (wfn maxn n \/ exists t vs, n = Leaf t vs) -> ssorted (lkeys (flatten n)) -> fl_asc_stmt maxn seek neq n.
Proof.
  induction n as [t vs | t cs IH] using node_ind'; intros W Hs p offset.
  - cbn [find_leaf from_asc]. pose proof (leaf_find_asc_spec seek neq vs 0) as Q.
    destruct (leaf_find_asc vs seek neq 0) as [i|]; [|exact Q].
    destruct Q as (k & -> & Hk & Hd). unfold fl_asc_post.
    replace (N.to_nat (0 + N.of_nat k)) with k by lia. repeat split; auto.
    + rewrite Hd. intros E. apply (f_equal (@length lval)) in E. rewrite skipn_length in E. simpl in E. lia.
    + rewrite Hd. reflexivity.
  - destruct W as [W | (t' & vs' & E)]; [|discriminate].
    pose proof W as Wn. apply wfn_inner in W as (W1 & W2 & W3).
    cbn [flatten] in Hs. fold (flat cs) in Hs.
    rewrite find_leaf_inner_asc. cbn [from_asc].
    destruct cs as [|c0 cs']; [congruence|]. cbn [is_nil orb].
    set (cs := c0 :: cs') in *.
    destruct (N.ltb_spec (N.of_nat (length cs) - 1) offset) as [L | L].
    + unfold fl_asc_post. rewrite skipn_all2 by lia. reflexivity.
    + pose proof (asc_loop_spec maxn seek neq t cs p offset Wn Hs cs [] eq_refl W1) as Q.
      cbn [length] in Q. rewrite Nat.sub_0_r in Q. apply Q.
      * unfold cs in *. cbn [length] in *. lia.
      * rewrite Forall_forall in *. intros c Hc. split; auto. apply IH; auto.
        eapply child_sorted; eauto.
Qed.

(* ---------- GetWithPrefix ---------- *)
Lemma drop_until_In {A} (f : A -> bool) l x : In x (drop_until f l) -> In x l.
Proof.
  induction l as [|y l IH]; simpl; auto. destruct (f y); simpl; auto.
Qed.

Lemma find_map_drop_until {A B} (g : B -> bool) (h : A -> B) (f : A -> bool) l :
  (forall x, g (h x) = f x) ->
  find g (map h l) = match drop_until f l with [] => None | x :: _ => Some (h x) end.
Proof.
  intros E. induction l as [|y l IH]; simpl; auto. rewrite E. destruct (f y); auto.
Qed.

Theorem get_with_prefix_refines maxn maxkey maxval n prefix neq :
  root_ok maxn n -> tree_ok maxn maxkey maxval n ->
  get_with_prefix n prefix neq = Ok (mv_get_with_prefix prefix neq (abs n)).
Proof.
  intros R [Hs Hok].
  assert (W : wfn maxn n \/ exists t vs, n = Leaf t vs).
  { destruct R as [R | [t ->]]; eauto. }
  pose proof (find_leaf_asc_spec maxn prefix neq n W Hs [] 0) as Q. rewrite from_asc_0 in Q.
  unfold get_with_prefix, mv_get_with_prefix. rewrite abs_eq. unfold absl.
  rewrite (find_map_drop_until _ abs_lv (acc_asc prefix neq)).
  2:{ intros x. unfold acc_asc, abs_lv. cbn [fst]. rewrite (blt_negb_ble neq (lv_key x)).
      destruct (is_nil neq), (ble (lv_key x) neq), (ble prefix (lv_key x)); reflexivity. }
  destruct (find_leaf n prefix [] 0 neq false) as [[[p' vs] off]|].
  - destruct Q as (Q1 & Q2 & Q3 & _). unfold rest_asc in Q3 at 2. simpl in Q3. rewrite app_nil_r in Q3.
    destruct (nth_error vs (N.to_nat off)) as [lv|] eqn:En; [|apply nth_error_None in En; lia].
    assert (Hd : exists rest, drop_until (acc_asc prefix neq) (flatten n) = lv :: rest).
    { rewrite <- Q3. rewrite (skipn_nth_cons vs _ lv En). eexists. reflexivity. }
    destruct Hd as (rest & Hd). rewrite Hd.
    assert (Hin : In lv (flatten n)) by (eapply drop_until_In; rewrite Hd; simpl; auto).
    rewrite Forall_forall in Hok. destruct (Hok lv Hin) as (Ht & _).
    destruct (lv_all_latest lv Ht) as (r & Hall). unfold abs_lv. rewrite Hall.
    destruct (lv_latest lv) as [v t] eqn:EL. cbn [fst snd].
    destruct (has_prefix prefix (lv_key lv)); auto.
    rewrite <- lv_all_length, Hall. reflexivity.
  - rewrite Q. reflexivity.
Qed.

(* ---------- leaf level, descending ---------- *)
Lemma leaf_find_desc_spec seek neq vs : forall j,
  match leaf_find_desc vs seek neq j with
  | Some i => exists k, i = j + N.of_nat k /\ (k < length vs)%nat /\
                        drop_until (acc_desc seek neq) (rev vs) = rev (firstn (S k) vs)
  | None => drop_until (acc_desc seek neq) (rev vs) = []
  end.
Proof.
  induction vs as [|v r IH]; intros j; [simpl; auto|].
  cbn [leaf_find_desc]. specialize (IH (j + 1)). cbn [rev].
  destruct (leaf_find_desc r seek neq (j + 1)) as [i|].
  - destruct IH as (k & -> & Hk & Hd). exists (S k). split; [lia|]. split; [simpl; lia|].
    rewrite drop_until_app_some.
    + rewrite Hd. cbn [firstn rev]. reflexivity.
    + rewrite Hd. cbn [firstn]. destruct r; [simpl in Hk; lia|]. cbn [rev].
      intros E. apply app_eq_nil in E as [_ E]. discriminate.
  - rewrite (drop_until_app_none _ _ _ (drop_until_nil_inv _ _ IH)). cbn [drop_until].
    unfold acc_desc.
    destruct (negb (is_nil neq) && ble neq (lv_key v)); cbn [negb andb]; auto.
    destruct (ble (lv_key v) seek); auto.
    exists O. split; [lia|]. split; [simpl; lia | reflexivity].
Qed.

(* ---------- inner level, descending ---------- *)
Definition entry_rest_desc (e : node * N) : list lval :=
  match fst e with
  | Inner _ cs => rev (flat (firstn (length cs - 1 - N.to_nat (snd e)) cs))
  | Leaf _ _ => []
  end.
Definition rest_desc (p : path) : list lval := flat_map entry_rest_desc p.
Definition from_desc (n : node) (offset : N) : list lval :=
  match n with
  | Leaf _ vs => rev vs
  | Inner _ cs => rev (flat (firstn (length cs - N.to_nat offset) cs))
  end.

Lemma from_desc_0 n : from_desc n 0 = rev (flatten n).
Proof. destruct n; simpl; auto. rewrite Nat.sub_0_r, firstn_all. reflexivity. Qed.

Definition desc_loop (n : node) (nn : N) (seek : bytes) (p : path) (offset : N) (neq : bytes)
  : list node -> N -> option (option (path * list lval * N)) :=
  fix loop (l : list node) (j : N) {struct l} : option (option (path * list lval * N)) :=
    match l with
    | [] => None
    | c :: r =>
        match loop r (j + 1) with
        | Some x => Some x
        | None =>
            let i := nn - 1 - j in
            if (offset <=? i) && negb (negb (is_nil neq) && ble neq (min_key c)) && ble (min_key c) seek
            then Some (find_leaf c seek ((n, i) :: p) 0 neq true)
            else None
        end
    end.

Lemma find_leaf_inner_desc t cs seek p offset neq :
  find_leaf (Inner t cs) seek p offset neq true =
  join_opt (desc_loop (Inner t cs) (N.of_nat (length cs)) seek p offset neq cs 0).
Proof. reflexivity. Qed.

Lemma desc_loop_cons n nn seek p offset neq c r j :
  desc_loop n nn seek p offset neq (c :: r) j =
  match desc_loop n nn seek p offset neq r (j + 1) with
  | Some x => Some x
  | None =>
      if (offset <=? nn - 1 - j) && negb (negb (is_nil neq) && ble neq (min_key c)) && ble (min_key c) seek
      then Some (find_leaf c seek ((n, nn - 1 - j) :: p) 0 neq true)
      else None
  end.
Proof. reflexivity. Qed.

Definition fl_desc_post (maxn : N) (seek neq : bytes) (stream left : list lval) (p : path)
           (r : option (path * list lval * N)) : Prop :=
  match r with
  | None => drop_until (acc_desc seek neq) stream = []
  | Some (p', vs, off) =>
      (N.to_nat off < length vs)%nat /\ drop_until (acc_desc seek neq) stream <> [] /\
      rev (firstn (S (N.to_nat off)) vs) ++ rest_desc p' =
      drop_until (acc_desc seek neq) stream ++ left ++ rest_desc p /\
      (path_ok maxn p -> path_ok maxn p')
  end.

Definition fl_desc_stmt (maxn : N) (seek neq : bytes) (n : node) : Prop :=
  forall p offset, fl_desc_post maxn seek neq (from_desc n offset) [] p (find_leaf n seek p offset neq true).

Lemma rest_desc_cons t cs i p :
  rest_desc ((Inner t cs, i) :: p) = rev (flat (firstn (length cs - 1 - N.to_nat i) cs)) ++ rest_desc p.
Proof. reflexivity. Qed.

(* in a sorted well-formed child every key is >= its min key *)
Lemma child_keys_ge maxn c x :
  wfn maxn c -> ssorted (lkeys (flatten c)) -> In x (flatten c) -> kle (min_key c) (lv_key x).
Proof. intros W Hs Hx. eapply wfn_min_key_le; eauto. apply in_map; auto. Qed.

Lemma desc_loop_spec maxn seek neq t cs p offset :
  wfn maxn (Inner t cs) -> ssorted (lkeys (flat cs)) ->
  forall l pre, cs = pre ++ l ->
  Forall (fun c => wfn maxn c /\ fl_desc_stmt maxn seek neq c) l ->
  let elig := (length cs - N.to_nat offset - length pre)%nat in
  match desc_loop (Inner t cs) (N.of_nat (length cs)) seek p offset neq l (N.of_nat (length pre)) with
  | None => drop_until (acc_desc seek neq) (rev (flat (firstn elig l))) = []
  | Some r => r <> None /\
              fl_desc_post maxn seek neq (rev (flat (firstn elig l))) (rev (flat pre)) p r
  end.
Proof.
  intros Wn Hsn. induction l as [|c r IH]; intros pre Hcs HP elig.
  - simpl. rewrite firstn_nil. reflexivity.
  - apply Forall_cons_iff in HP as [[Wc Stc] HPr].
    rewrite desc_loop_cons.
    assert (Hs : ssorted (lkeys (flat (c :: r)))).
    { rewrite Hcs, flat_app, lkeys_app in Hsn. apply ssorted_app in Hsn. tauto. }
    assert (Hsc : ssorted (lkeys (flatten c))).
    { rewrite flat_cons, lkeys_app in Hs. apply ssorted_app in Hs. tauto. }
    assert (Hlen : length cs = (length pre + S (length r))%nat) by (rewrite Hcs, app_length; reflexivity).
    specialize (IH (pre ++ [c]) ltac:(rewrite <- app_assoc; exact Hcs) HPr).
    rewrite app_length in IH. cbn [length] in IH.
    replace (N.of_nat (length pre + 1)) with (N.of_nat (length pre) + 1) in IH by lia.
    set (eligr := (length cs - N.to_nat offset - (length pre + 1))%nat) in *.
    destruct (Nat.eq_dec elig O) as [E0 | E0].
    + (* c and everything right of it are beyond the offset *)
      assert (eligr = O) by (unfold eligr, elig in *; lia).
      rewrite H in IH. rewrite E0. cbn [firstn] in *.
      destruct (desc_loop (Inner t cs) (N.of_nat (length cs)) seek p offset neq r (N.of_nat (length pre) + 1)).
      * destruct IH as [Hn IH']. destruct o as [[[p' vs] off]|]; [|congruence].
        destruct IH' as (_ & IH' & _). simpl in IH'. congruence.
      * destruct (N.leb_spec offset (N.of_nat (length cs) - 1 - N.of_nat (length pre))) as [L | L];
          [unfold elig in E0; lia|]. reflexivity.
    + assert (Eel : elig = S eligr) by (unfold eligr, elig in *; lia).
      rewrite Eel. cbn [firstn]. rewrite flat_cons, rev_app_distr.
      destruct (desc_loop (Inner t cs) (N.of_nat (length cs)) seek p offset neq r (N.of_nat (length pre) + 1))
        as [res|].
      * (* found further right *)
        destruct IH as [Hres IH']. split; auto.
        destruct res as [[[p' vs] off]|]; [|congruence].
        destruct IH' as (Q1 & Q2 & Q3 & Q4). unfold fl_desc_post. repeat split; auto.
        -- rewrite (drop_until_app_some _ _ _ Q2). intros E. apply app_eq_nil in E as [E _]. auto.
        -- rewrite (drop_until_app_some _ _ _ Q2). rewrite Q3.
           rewrite flat_app, rev_app_distr. unfold flat at 2. cbn [flat_map]. rewrite app_nil_r.
           rewrite <- !app_assoc. reflexivity.
      * (* nothing acceptable right of c *)
        pose proof (drop_until_nil_inv _ _ IH) as Hno.
        rewrite (drop_until_app_none _ _ _ Hno).
        destruct (N.leb_spec offset (N.of_nat (length cs) - 1 - N.of_nat (length pre))) as [L | L];
          [|unfold elig in E0; lia].
        cbn [andb].
        destruct (negb (is_nil neq) && ble neq (min_key c)) eqn:E1; cbn [negb andb].
        -- (* every key of c is >= min key >= neq *)
           apply drop_until_none. apply Forall_forall. intros x Hx. apply in_rev in Hx.
           unfold acc_desc. apply andb_prop in E1 as [E1 E2]. rewrite E1. apply ble_iff in E2.
           assert (L1 : kle neq (lv_key x)) by (eapply kle_trans; [exact E2 | eapply child_keys_ge; eauto]).
           apply ble_iff in L1. rewrite L1. reflexivity.
        -- destruct (ble (min_key c) seek) eqn:E2.
           ++ (* the child is chosen; its min key entry is acceptable, so it finds something *)
              pose proof (Stc ((Inner t cs, N.of_nat (length cs) - 1 - N.of_nat (length pre)) :: p) 0) as Q.
              rewrite from_desc_0 in Q.
              destruct (wfn_flatten _ _ Wc) as (lv0 & rest0 & F0 & M0).
              assert (Hacc : acc_desc seek neq lv0 = true).
              { unfold acc_desc. rewrite <- M0, E1, E2. reflexivity. }
              assert (Hnn : drop_until (acc_desc seek neq) (rev (flatten c)) <> []).
              { intros E. apply drop_until_nil_inv in E. rewrite Forall_forall in E.
                specialize (E lv0). rewrite Hacc in E. discriminate E. apply -> in_rev. rewrite F0. simpl; auto. }
              destruct (find_leaf c seek ((Inner t cs, N.of_nat (length cs) - 1 - N.of_nat (length pre)) :: p) 0 neq true)
                as [[[p' vs] off]|]; [|simpl in Q; congruence].
              split; [discriminate|].
              destruct Q as (Q1 & Q2 & Q3 & Q4). unfold fl_desc_post.
              rewrite (drop_until_app_none _ _ _ Hno). repeat split; auto.
              ** rewrite Q3, rest_desc_cons. cbn [app].
                 replace (length cs - 1 - N.to_nat (N.of_nat (length cs) - 1 - N.of_nat (length pre)))%nat
                   with (length pre) by lia.
                 rewrite Hcs, firstn_app_exact by reflexivity. reflexivity.
              ** intros Hp. apply Q4. constructor; auto. split; [exact Wn | split; [exact Hsn | simpl; eauto]].
           ++ (* every key of c is >= min key > seek *)
              apply drop_until_none. apply Forall_forall. intros x Hx. apply in_rev in Hx.
              unfold acc_desc. apply ble_false in E2.
              assert (L1 : klt seek (lv_key x)) by (eapply klt_kle_trans; [exact E2 | eapply child_keys_ge; eauto]).
              apply ble_false in L1. rewrite L1. apply andb_false_r.
Qed.

Lemma find_leaf_desc_spec maxn seek neq n :
  (wfn maxn n \/ exists t vs, n = Leaf t vs) -> ssorted (lkeys (flatten n)) -> fl_desc_stmt maxn seek neq n.
Proof.
  induction n as [t vs | t cs IH] using node_ind'; intros W Hs p offset.
  - cbn [find_leaf from_desc]. pose proof (leaf_find_desc_spec seek neq vs 0) as Q.
    destruct (leaf_find_desc vs seek neq 0) as [i|]; [|exact Q].
    destruct Q as (k & -> & Hk & Hd). unfold fl_desc_post.
    replace (N.to_nat (0 + N.of_nat k)) with k by lia. repeat split; auto.
    + rewrite Hd. destruct vs; [simpl in Hk; lia|]. cbn [firstn rev].
      intros E. apply app_eq_nil in E as [_ E]. discriminate.
    + rewrite Hd. reflexivity.
  - destruct W as [W | (t' & vs' & E)]; [|discriminate].
    pose proof W as Wn. apply wfn_inner in W as (W1 & W2 & W3).
    cbn [flatten] in Hs. fold (flat cs) in Hs.
    rewrite find_leaf_inner_desc. cbn [from_desc].
    pose proof (desc_loop_spec maxn seek neq t cs p offset Wn Hs cs [] eq_refl) as Q.
    cbn [length] in Q. rewrite Nat.sub_0_r in Q.
    assert (HP : Forall (fun c => wfn maxn c /\ fl_desc_stmt maxn seek neq c) cs).
    { rewrite Forall_forall in *. intros c Hc. split; auto. apply IH; auto. eapply child_sorted; eauto. }
    specialize (Q HP). cbv zeta in Q. change (N.of_nat 0) with 0 in Q. revert Q.
    destruct (desc_loop (Inner t cs) (N.of_nat (length cs)) seek p offset neq cs 0) as [res|]; intros Q.
    + destruct Q as [_ Q]. cbn [join_opt]. exact Q.
    + cbn [join_opt]. exact Q.
Qed.

(* ---------- the Reader's cursor ---------- *)
Definition acc_rd (desc : bool) (seek : bytes) (lv : lval) : bool :=
  if desc then ble (lv_key lv) seek else ble seek (lv_key lv).

Lemma acc_asc_nil seek lv : acc_asc seek [] lv = acc_rd false seek lv.
Proof. reflexivity. Qed.
Lemma acc_desc_nil seek lv : acc_desc seek [] lv = acc_rd true seek lv.
Proof. reflexivity. Qed.

Definition rest_of (desc : bool) (p : path) : list lval := if desc then rest_desc p else rest_asc p.

(* what the cursor still has to deliver, in reader order *)
Definition remaining (desc : bool) (c : cursor) : list lval :=
  (if desc then rev (firstn (Z.to_nat (c_off c + 1)) (c_leaf c))
   else skipn (Z.to_nat (c_off c)) (c_leaf c)) ++ rest_of desc (c_path c).

Definition cursor_ok (maxn : N) (desc : bool) (seek : bytes) (c : cursor) : Prop :=
  path_ok maxn (c_path c) /\
  (if desc then (-1 <= c_off c < Z.of_nat (length (c_leaf c)))%Z
   else (0 <= c_off c <= Z.of_nat (length (c_leaf c)))%Z) /\
  Forall (fun lv => acc_rd desc seek lv = true) (remaining desc c).

Lemma drop_until_ext {A} (f g : A -> bool) l : (forall x, f x = g x) -> drop_until f l = drop_until g l.
Proof. intros E. induction l as [|x l IH]; simpl; auto. rewrite E, IH. reflexivity. Qed.

Lemma climb_spec maxn desc seek p :
  path_ok maxn p -> Forall (fun lv => acc_rd desc seek lv = true) (rest_of desc p) ->
  match climb seek desc p with
  | None => rest_of desc p = []
  | Some (p', vs, off) =>
      (N.to_nat off < length vs)%nat /\ path_ok maxn p' /\
      (if desc then rev (firstn (S (N.to_nat off)) vs) else skipn (N.to_nat off) vs) ++ rest_of desc p'
      = rest_of desc p
  end.
Proof.
  induction p as [|[n i] pp IH]; intros Hp Hacc; [destruct desc; reflexivity|].
  apply Forall_cons_iff in Hp as [(Wn & Hs & t & cs & En) Hpp]. cbn [fst] in *. subst n.
  cbn [climb].
  assert (Wor : wfn maxn (Inner t cs) \/ exists t' vs', Inner t cs = Leaf t' vs') by auto.
  destruct desc.
  - (* descending *)
    cbn [rest_of] in *. rewrite rest_desc_cons in *. apply Forall_app in Hacc as [Ha1 Ha2].
    pose proof (find_leaf_desc_spec maxn seek [] (Inner t cs) Wor Hs pp (i + 1)) as Q.
    cbn [from_desc] in Q.
    replace (length cs - N.to_nat (i + 1))%nat with (length cs - 1 - N.to_nat i)%nat in Q by lia.
    unfold fl_desc_post in Q.
    rewrite (drop_until_ext _ _ _ (acc_desc_nil seek)) in Q.
    rewrite (drop_until_all _ _ Ha1) in Q.
    destruct (find_leaf (Inner t cs) seek pp (i + 1) [] true) as [[[p' vs] off]|].
    + destruct Q as (Q1 & Q2 & Q3 & Q4). cbn [app] in Q3. repeat split; auto.
    + rewrite Q. cbn [app]. apply IH; auto.
  - cbn [rest_of] in *. rewrite rest_asc_cons in *. apply Forall_app in Hacc as [Ha1 Ha2].
    pose proof (find_leaf_asc_spec maxn seek [] (Inner t cs) Wor Hs pp (i + 1)) as Q.
    cbn [from_asc] in Q.
    replace (N.to_nat (i + 1)) with (S (N.to_nat i)) in Q by lia.
    unfold fl_asc_post in Q.
    rewrite (drop_until_ext _ _ _ (acc_asc_nil seek)) in Q.
    rewrite (drop_until_all _ _ Ha1) in Q.
    destruct (find_leaf (Inner t cs) seek pp (i + 1) [] false) as [[[p' vs] off]|].
    + destruct Q as (Q1 & Q2 & Q3 & Q4). repeat split; auto.
    + rewrite Q. cbn [app]. apply IH; auto.
Qed.

Lemma firstn_S_nth {A} (l : list A) i a : nth_error l i = Some a -> firstn (S i) l = firstn i l ++ [a].
Proof.
  revert i. induction l as [|x l IH]; intros [|i] H; simpl in *; try discriminate.
  - inversion H; reflexivity.
  - f_equal. apply IH; auto.
Qed.

Lemma cursor_next_spec maxn desc seek c :
  cursor_ok maxn desc seek c ->
  match remaining desc c with
  | [] => cursor_next seek desc c = Ok None
  | lv :: R => exists c', cursor_next seek desc c = Ok (Some (lv, c')) /\
                          cursor_ok maxn desc seek c' /\ remaining desc c' = R
  end.
Proof.
  intros (Hp & Hr & Hacc). destruct c as [p vs off]. cbn [c_path c_leaf c_off] in *.
  unfold cursor_next. cbn [c_path c_leaf c_off].
  (* a cursor standing on an entry *)
  assert (Hstand : forall p1 vs1 (k : nat), path_ok maxn p1 -> (k < length vs1)%nat ->
            Forall (fun lv => acc_rd desc seek lv = true)
                   (remaining desc {| c_path := p1; c_leaf := vs1; c_off := Z.of_nat k |}) ->
            exists lv R, remaining desc {| c_path := p1; c_leaf := vs1; c_off := Z.of_nat k |} = lv :: R /\
              nth_error vs1 k = Some lv /\
              cursor_ok maxn desc seek {| c_path := p1; c_leaf := vs1;
                                          c_off := if desc then (Z.of_nat k - 1)%Z else (Z.of_nat k + 1)%Z |} /\
              remaining desc {| c_path := p1; c_leaf := vs1;
                                c_off := if desc then (Z.of_nat k - 1)%Z else (Z.of_nat k + 1)%Z |} = R).
  { intros p1 vs1 k Hp1 Hk Hall. unfold remaining in *. cbn [c_path c_leaf c_off] in *.
    destruct (nth_error vs1 k) as [lv|] eqn:En; [|apply nth_error_None in En; lia].
    destruct desc.
    - replace (Z.to_nat (Z.of_nat k + 1)) with (S k) in * by lia.
      rewrite (firstn_S_nth vs1 k lv En), rev_app_distr in *. cbn [rev app] in *.
      exists lv, (rev (firstn k vs1) ++ rest_of true p1). repeat split; auto.
      + cbn [c_off c_leaf]. lia.
      + cbn [c_off c_leaf]. lia.
      + unfold remaining. cbn [c_path c_leaf c_off].
        replace (Z.to_nat (Z.of_nat k - 1 + 1)) with k by lia.
        apply Forall_cons_iff in Hall as [_ Hall]. exact Hall.
      + replace (Z.to_nat (Z.of_nat k - 1 + 1)) with k by lia. reflexivity.
    - replace (Z.to_nat (Z.of_nat k)) with k in * by lia.
      rewrite (skipn_nth_cons vs1 k lv En) in *. cbn [app] in *.
      exists lv, (skipn (S k) vs1 ++ rest_of false p1). repeat split; auto.
      + cbn [c_off c_leaf]. lia.
      + cbn [c_off c_leaf]. lia.
      + unfold remaining. cbn [c_path c_leaf c_off].
        replace (Z.to_nat (Z.of_nat k + 1)) with (S k) by lia.
        apply Forall_cons_iff in Hall as [_ Hall]. exact Hall.
      + replace (Z.to_nat (Z.of_nat k + 1)) with (S k) by lia. reflexivity. }
  set (exhausted := if desc then (off <? 0)%Z else (off =? Z.of_nat (length vs))%Z).
  destruct exhausted eqn:Ex.
  - (* the leaf is used up: climb *)
    assert (Erem : remaining desc {| c_path := p; c_leaf := vs; c_off := off |} = rest_of desc p).
    { unfold remaining, exhausted in *. cbn [c_path c_leaf c_off]. destruct desc.
      - replace (Z.to_nat (off + 1)) with O by lia. reflexivity.
      - replace (Z.to_nat off) with (length vs) by lia. rewrite skipn_all. reflexivity. }
    rewrite Erem in *.
    pose proof (climb_spec maxn desc seek p Hp Hacc) as Q.
    destruct (climb seek desc p) as [[[p' vs'] off']|].
    + destruct Q as (Q1 & Q2 & Q3).
      assert (Erem' : remaining desc {| c_path := p'; c_leaf := vs'; c_off := Z.of_nat (N.to_nat off') |}
                      = rest_of desc p).
      { unfold remaining. cbn [c_path c_leaf c_off]. rewrite <- Q3. destruct desc.
        - replace (Z.to_nat (Z.of_nat (N.to_nat off') + 1)) with (S (N.to_nat off')) by lia. reflexivity.
        - replace (Z.to_nat (Z.of_nat (N.to_nat off'))) with (N.to_nat off') by lia. reflexivity. }
      destruct (Hstand p' vs' (N.to_nat off') Q2 Q1) as (lv & R & E1 & E2 & E3 & E4).
      { rewrite Erem'. exact Hacc. }
      rewrite Erem' in E1. rewrite E1. cbn [c_off c_leaf c_path].
      replace (Z.of_N off') with (Z.of_nat (N.to_nat off')) by lia.
      destruct (Z.ltb_spec (Z.of_nat (N.to_nat off')) 0); [lia|].
      rewrite Nat2Z.id, E2. eexists. split; [reflexivity|]. split; assumption.
    + rewrite Q. reflexivity.
  - assert (Hk : exists k, off = Z.of_nat k /\ (k < length vs)%nat).
    { unfold exhausted in Ex. exists (Z.to_nat off). destruct desc; lia. }
    destruct Hk as (k & -> & Hk).
    destruct (Hstand p vs k Hp Hk Hacc) as (lv & R & E1 & E2 & E3 & E4).
    rewrite E1. cbn [c_off c_leaf c_path].
    destruct (Z.ltb_spec (Z.of_nat k) 0); [lia|].
    rewrite Nat2Z.id, E2. eexists. split; [reflexivity|]. split; assumption.
Qed.

(* ---------- the per-key loop of Read ---------- *)
(* the same filters over a plain list of leaf values *)
Fixpoint lscan (s : rspec) (l : list lval) (skipped : N) : list lval :=
  match l with
  | [] => []
  | lv :: r =>
      let k := lv_key lv in
      if negb (rs_incl_seek s) && beq (rs_seek s) k then lscan s r skipped
      else if negb (is_nil (rs_end s)) && past_end s k then []
      else if negb (is_nil (rs_prefix s)) && negb (has_prefix (rs_prefix s) k) then lscan s r skipped
      else if skipped <? rs_offset s then lscan s r (skipped + 1)
      else lv :: lscan s r skipped
  end.

Lemma scan_spec maxn s : forall R c fuel skipped,
  cursor_ok maxn (rs_desc s) (rs_seek s) c -> remaining (rs_desc s) c = R -> (length R < fuel)%nat ->
  scan fuel s c skipped = Ok (lscan s R skipped).
Proof.
  induction R as [|lv R IH]; intros c fuel skipped Hc Hr Hf.
  - destruct fuel as [|f]; [simpl in Hf; lia|]. cbn [scan].
    pose proof (cursor_next_spec maxn _ _ c Hc) as Q. rewrite Hr in Q. rewrite Q. reflexivity.
  - destruct fuel as [|f]; [simpl in Hf; lia|]. cbn [scan lscan].
    pose proof (cursor_next_spec maxn _ _ c Hc) as Q. rewrite Hr in Q.
    destruct Q as (c' & Q1 & Q2 & Q3). rewrite Q1.
    simpl in Hf.
    destruct (negb (rs_incl_seek s) && beq (rs_seek s) (lv_key lv)); [apply IH; auto; lia|].
    destruct (negb (is_nil (rs_end s)) && past_end s (lv_key lv)); [reflexivity|].
    destruct (negb (is_nil (rs_prefix s)) && negb (has_prefix (rs_prefix s) (lv_key lv))); [apply IH; auto; lia|].
    destruct (skipped <? rs_offset s); [apply IH; auto; lia|].
    rewrite (IH c' f skipped Q2 Q3 ltac:(lia)). reflexivity.
Qed.

(* ---------- the stream a reader walks over ---------- *)
Definition stream_of (root : node) (desc : bool) (seek : bytes) : list lval :=
  drop_until (acc_rd desc seek) (if desc then rev (flatten root) else flatten root).

Lemma drop_until_length {A} (f : A -> bool) l : (length (drop_until f l) <= length l)%nat.
Proof. induction l as [|x l IH]; simpl; auto. destruct (f x); simpl; lia. Qed.

Lemma stream_asc_acc seek l :
  ssorted (lkeys l) -> Forall (fun lv => acc_rd false seek lv = true) (drop_until (acc_rd false seek) l).
Proof.
  induction l as [|x l IH]; intros Hs; cbn [drop_until]; auto.
  destruct (acc_rd false seek x) eqn:E.
  - constructor; auto. apply Forall_forall. intros y Hy. unfold acc_rd in *.
    apply ble_iff. apply ble_iff in E. apply klt_kle. eapply kle_klt_trans; [exact E|].
    eapply ssorted_head_lt; [exact Hs|]. apply in_map. exact Hy.
  - apply IH. eapply ssorted_cons_inv; eauto.
Qed.

(* descending order of keys *)
Fixpoint dsorted (l : list bytes) : Prop :=
  match l with
  | [] => True
  | a :: r => Forall (fun b => klt b a) r /\ dsorted r
  end.

Lemma dsorted_app a b :
  dsorted a -> dsorted b -> (forall x y, In x a -> In y b -> klt y x) -> dsorted (a ++ b).
Proof.
  induction a as [|x a IH]; intros Ha Hb Hab; simpl; auto.
  destruct Ha as [H1 H2]. split.
  - apply Forall_app; split; auto. apply Forall_forall. intros y Hy. apply Hab; simpl; auto.
  - apply IH; auto. intros; apply Hab; simpl; auto.
Qed.

Lemma ssorted_rev l : ssorted l -> dsorted (rev l).
Proof.
  induction l as [|x l IH]; intros Hs; simpl; auto. destruct Hs as [H1 H2].
  apply dsorted_app; auto.
  - simpl. auto.
  - intros a b Ha [<- | []]. rewrite Forall_forall in H1. apply H1. apply in_rev. exact Ha.
Qed.

Lemma stream_desc_acc seek l :
  dsorted (lkeys l) -> Forall (fun lv => acc_rd true seek lv = true) (drop_until (acc_rd true seek) l).
Proof.
  induction l as [|x l IH]; intros Hs; cbn [drop_until]; auto.
  destruct (acc_rd true seek x) eqn:E.
  - constructor; auto. apply Forall_forall. intros y Hy. unfold acc_rd in *.
    apply ble_iff. apply ble_iff in E. apply klt_kle. eapply klt_kle_trans; [|exact E].
    destruct Hs as [H1 _]. rewrite Forall_forall in H1. apply H1. apply in_map. exact Hy.
  - apply IH. destruct Hs; auto.
Qed.

Lemma lkeys_rev l : lkeys (rev l) = rev (lkeys l).
Proof. unfold lkeys. apply map_rev. Qed.

(* read_all = the filters of the Reader over the stream from the seek point *)
Theorem read_all_walk maxn maxkey maxval h0 root s mode :
  root_ok maxn root -> tree_ok maxn maxkey maxval root ->
  read_all h0 root s mode =
  Ok (flat_map (emit_lv h0 mode (rs_desc s)) (lscan s (stream_of root (rs_desc s) (rs_seek s)) 0)).
Proof.
  intros R [Hs Hok].
  assert (W : wfn maxn root \/ exists t vs, root = Leaf t vs).
  { destruct R as [R | [t ->]]; eauto. }
  unfold read_all, stream_of.
  assert (Hacc : Forall (fun lv => acc_rd (rs_desc s) (rs_seek s) lv = true)
                        (drop_until (acc_rd (rs_desc s) (rs_seek s))
                                    (if rs_desc s then rev (flatten root) else flatten root))).
  { destruct (rs_desc s).
    - apply stream_desc_acc. rewrite lkeys_rev. apply ssorted_rev. exact Hs.
    - apply stream_asc_acc. exact Hs. }
  assert (Hlen : (length (drop_until (acc_rd (rs_desc s) (rs_seek s))
                                     (if rs_desc s then rev (flatten root) else flatten root))
                  <= length (flatten root))%nat).
  { etransitivity; [apply drop_until_length|]. destruct (rs_desc s); [rewrite rev_length|]; lia. }
  destruct (rs_desc s) eqn:Ed.
  - pose proof (find_leaf_desc_spec maxn (rs_seek s) [] root W Hs [] 0) as Q.
    rewrite from_desc_0 in Q. unfold fl_desc_post in Q.
    rewrite (drop_until_ext _ _ _ (acc_desc_nil (rs_seek s))) in Q.
    destruct (find_leaf root (rs_seek s) [] 0 [] true) as [[[p vs] i]|].
    + destruct Q as (Q1 & Q2 & Q3 & Q4).
      rewrite (scan_spec maxn s (drop_until (acc_rd true (rs_seek s)) (rev (flatten root)))); auto.
      * rewrite Ed. unfold cursor_ok. cbn [c_path c_leaf c_off]. split; [apply Q4; constructor|].
        split; [lia|]. unfold remaining. cbn [c_path c_leaf c_off rest_of].
        replace (Z.to_nat (Z.of_N i + 1)) with (S (N.to_nat i)) by lia.
        rewrite Q3. unfold rest_desc. simpl. rewrite !app_nil_r. exact Hacc.
      * rewrite Ed. unfold remaining. cbn [c_path c_leaf c_off rest_of].
        replace (Z.to_nat (Z.of_N i + 1)) with (S (N.to_nat i)) by lia.
        rewrite Q3. unfold rest_desc. simpl. rewrite !app_nil_r. reflexivity.
      * lia.
    + rewrite Q. reflexivity.
  - pose proof (find_leaf_asc_spec maxn (rs_seek s) [] root W Hs [] 0) as Q.
    rewrite from_asc_0 in Q. unfold fl_asc_post in Q.
    rewrite (drop_until_ext _ _ _ (acc_asc_nil (rs_seek s))) in Q.
    destruct (find_leaf root (rs_seek s) [] 0 [] false) as [[[p vs] i]|].
    + destruct Q as (Q1 & Q2 & Q3 & Q4).
      rewrite (scan_spec maxn s (drop_until (acc_rd false (rs_seek s)) (flatten root))); auto.
      * rewrite Ed. unfold cursor_ok. cbn [c_path c_leaf c_off]. split; [apply Q4; constructor|].
        split; [lia|]. unfold remaining. cbn [c_path c_leaf c_off rest_of].
        replace (Z.to_nat (Z.of_N i)) with (N.to_nat i) by lia.
        rewrite Q3. unfold rest_asc. simpl. rewrite !app_nil_r. exact Hacc.
      * rewrite Ed. unfold remaining. cbn [c_path c_leaf c_off rest_of].
        replace (Z.to_nat (Z.of_N i)) with (N.to_nat i) by lia.
        rewrite Q3. unfold rest_asc. simpl. rewrite !app_nil_r. reflexivity.
      * lia.
    + rewrite Q. reflexivity.
Qed.

(* ---------- what a reader emits per accepted key ---------- *)
Lemma number_from_bound {A} (l : list A) : forall j0 j x,
  In (j, x) (number_from j0 l) -> j0 <= j < j0 + N.of_nat (length l).
Proof.
  induction l as [|a l IH]; intros j0 j x H; simpl in *; [tauto|].
  destruct H as [H | H]; [inversion H; subst; lia|]. apply IH in H. lia.
Qed.

Lemma hlist_length lv desc : length (hlist lv desc) = N.to_nat (lv_history_count lv).
Proof. unfold hlist. rewrite <- lv_all_length. destruct desc; [|rewrite rev_length]; lia. Qed.

Lemma hist_entries_spec lv desc : forall fuel hoff,
  (N.to_nat (lv_history_count lv) - N.to_nat hoff < fuel)%nat ->
  hist_entries fuel lv desc hoff =
  map (fun jx => (lv_key lv, fst (snd jx), snd (snd jx),
                  if desc then lv_history_count lv - (fst jx + 1) + 1 else fst jx + 1))
      (number_from hoff (skipn (N.to_nat hoff) (hlist lv desc))).
Proof.
  pose proof (hlist_length lv desc) as HL.
  induction fuel as [|f IH]; intros hoff Hf; [lia|].
  cbn [hist_entries]. rewrite (lv_history_spec lv hoff desc 1) by lia. cbv zeta.
  destruct (N.eqb_spec hoff (lv_history_count lv)) as [E | E].
  { rewrite skipn_all2 by lia. reflexivity. }
  destruct (N.ltb_spec (lv_history_count lv) hoff) as [L1 | L1].
  { rewrite skipn_all2 by lia. reflexivity. }
  destruct (nth_error (hlist lv desc) (N.to_nat hoff)) as [[v t]|] eqn:En; [|apply nth_error_None in En; lia].
  rewrite (skipn_nth_cons _ _ _ En). cbn [firstn number_from map fst snd].
  f_equal. rewrite IH by lia. replace (N.to_nat (hoff + 1)) with (S (N.to_nat hoff)) by lia. reflexivity.
Qed.

Lemma emit_lv_spec maxkey maxval h0 mode desc lv :
  lv_ok maxkey maxval lv -> desc_ts (lv_all lv) ->
  emit_lv h0 mode desc lv = emit mode desc (abs_lv lv).
Proof.
  intros Hok Hd. pose proof Hok as (Ht & _). destruct mode as [| | i f].
  - destruct (lv_all_latest lv Ht) as (r & Hall). unfold emit_lv, emit, abs_lv. rewrite Hall.
    destruct (lv_latest lv) as [v t]. cbn [fst snd]. rewrite <- Hall, lv_all_length. reflexivity.
  - unfold emit_lv, emit, abs_lv. rewrite hist_entries_spec by lia. cbn [N.to_nat skipn].
    rewrite lv_all_length. unfold hlist. destruct desc.
    + apply map_ext_in. intros [j x] Hin. apply number_from_bound in Hin. rewrite lv_all_length in Hin.
      cbn [fst snd]. f_equal. lia.
    + reflexivity.
  - unfold emit_lv, emit, abs_lv.
    rewrite (lv_between_spec maxkey maxval h0 lv i f Hok).
    destruct (f <? i); auto. rewrite scanl_between by exact Hd. reflexivity.
Qed.

(* ---------- the Reader refines the map's operational reading ---------- *)
Lemma lscan_absl s : forall L k, absl (lscan s L k) = mv_walk_keys s (absl L) k.
Proof.
  induction L as [|lv L IH]; intros k; [reflexivity|].
  cbn [lscan absl map mv_walk_keys]. cbv zeta. change (fst (abs_lv lv)) with (lv_key lv).
  change (past_end s (lv_key lv)) with (beyond_end s (lv_key lv)). fold (absl L).
  destruct (negb (rs_incl_seek s) && beq (rs_seek s) (lv_key lv)); [apply IH|].
  destruct (negb (is_nil (rs_end s)) && beyond_end s (lv_key lv)); [reflexivity|].
  destruct (negb (is_nil (rs_prefix s)) && negb (has_prefix (rs_prefix s) (lv_key lv))); [apply IH|].
  destruct (k <? rs_offset s); [apply IH|]. cbn [map]. f_equal. apply IH.
Qed.

Lemma lscan_In s : forall L k x, In x (lscan s L k) -> In x L.
Proof.
  induction L as [|lv L IH]; intros k x; [simpl; auto|]. cbn [lscan].
  destruct (negb (rs_incl_seek s) && beq (rs_seek s) (lv_key lv)); [intros H; right; eapply IH; eauto|].
  destruct (negb (is_nil (rs_end s)) && past_end s (lv_key lv)); [intros []|].
  destruct (negb (is_nil (rs_prefix s)) && negb (has_prefix (rs_prefix s) (lv_key lv)));
    [intros H; right; eapply IH; eauto|].
  destruct (k <? rs_offset s); [intros H; right; eapply IH; eauto|].
  intros [-> | H]; [left; auto | right; eapply IH; eauto].
Qed.

Lemma drop_until_map {A B} (h : A -> B) (f : A -> bool) (g : B -> bool) l :
  (forall x, g (h x) = f x) -> map h (drop_until f l) = drop_until g (map h l).
Proof.
  intros E. induction l as [|x l IH]; [reflexivity|]. cbn [drop_until map]. rewrite E.
  destruct (f x); [reflexivity | exact IH].
Qed.

Lemma stream_absl root s :
  absl (stream_of root (rs_desc s) (rs_seek s)) = mv_stream s (abs root).
Proof.
  unfold stream_of, mv_stream, absl, abs. destruct (rs_desc s).
  - rewrite <- map_rev. apply drop_until_map. reflexivity.
  - apply drop_until_map. reflexivity.
Qed.

Theorem reader_refines_walk maxn maxkey maxval h0 root s mode :
  root_ok maxn root -> tree_ok maxn maxkey maxval root -> tree_tsorted root ->
  read_all h0 root s mode = Ok (mv_walk s mode (abs root)).
Proof.
  intros R T Ts. rewrite (read_all_walk maxn maxkey maxval h0 root s mode R T). f_equal.
  unfold mv_walk. rewrite <- stream_absl, <- lscan_absl.
  set (L := lscan s (stream_of root (rs_desc s) (rs_seek s)) 0).
  assert (HL : forall lv, In lv L -> In lv (flatten root)).
  { intros lv H. unfold L in H. apply lscan_In in H. unfold stream_of in H. apply drop_until_In in H.
    destruct (rs_desc s); [apply in_rev in H|]; exact H. }
  clearbody L. destruct T as [_ Hok]. rewrite Forall_forall in Hok.
  induction L as [|lv L IH]; [reflexivity|].
  cbn [flat_map absl map]. rewrite IH by (intros; apply HL; simpl; auto). f_equal.
  assert (Hin : In lv (flatten root)) by (apply HL; simpl; auto).
  eapply emit_lv_spec; eauto.
  unfold tree_tsorted, mv_tsorted in Ts. rewrite Forall_forall in Ts.
  apply (Ts (abs_lv lv)). rewrite abs_eq. apply in_map. exact Hin.
Qed.
