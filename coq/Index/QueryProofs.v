(* Refinement proofs, part 2: the point queries of the tree (descent with indexOf, Get, History,
   GetBetween) return what the abstract map defines.  GetBetween is where the code that exists
   does NOT refine the map: [get_between_refuted] is the witness, [get_between_partial] the
   strongest statement that holds. *)
From V Require Import Index.MVMap Index.MVMapProofs Index.BTree Index.BTreeProofs.
From Coq Require Import ZifyN ZifyNat ZifyBool.

(* ---------- descent ---------- *)
Definition pick_of (f : node -> option lval) : list node -> nat -> option lval :=
  fix pick (l : list node) (i : nat) {struct l} : option lval :=
    match l, i with
    | [], _ => None
    | c :: _, O => f c
    | _ :: r, S i' => pick r i'
    end.

Lemma lookup_inner t cs k :
  lookup (Inner t cs) k = pick_of (fun c => lookup c k) cs (N.to_nat (inner_index_of cs k)).
Proof. reflexivity. Qed.

Lemma pick_of_nth f l i : pick_of f l i = match nth_error l i with Some c => f c | None => None end.
Proof.
  revert i. induction l as [|c l IH]; intros [|i]; simpl; auto.
Qed.

(* where the child chosen by indexOf sits: everything before it is below the key, everything
   after it above *)
Lemma descend maxn cs k :
  Forall (wfn maxn) cs -> cs <> [] -> ssorted (lkeys (flat cs)) ->
  exists pre c post, cs = pre ++ c :: post /\ nth_error cs (idx cs k) = Some c /\
    length pre = idx cs k /\
    (forall x, In x (lkeys (flat pre)) -> klt x k) /\
    (forall y, In y (lkeys (flat post)) -> klt k y).
Proof.
  intros W Hne Hs. pose proof (mkeys_sorted maxn cs W Hs) as Hm.
  destruct (idx_is_ok cs k Hm) as [I1 I2].
  destruct I1 as [I1 | [_ E]]; [|congruence].
  destruct (nth_error cs (idx cs k)) as [c|] eqn:En; [|apply nth_error_None in En; lia].
  pose proof (nth_error_split_at cs _ c En) as Hsplit.
  set (pre := firstn (idx cs k) cs) in *. set (post := skipn (S (idx cs k)) cs) in *.
  exists pre, c, post. split; [exact Hsplit|]. split; [reflexivity|]. split.
  { unfold pre. rewrite firstn_length. lia. }
  assert (Wc : wfn maxn c). { rewrite Forall_forall in W. apply W. eapply nth_error_In; eauto. }
  rewrite Hsplit in Hs. rewrite flat_app, flat_cons, !lkeys_app in Hs.
  apply ssorted_app in Hs as (S1 & S2 & S3). apply ssorted_app in S2 as (S4 & S5 & S6).
  split.
  - intros x Hx. destruct (idx cs k) as [|i'] eqn:Ei.
    + unfold pre in Hx. simpl in Hx. destruct Hx.
    + destruct (I2 (S i') c En) as [H1 _]. eapply klt_kle_trans; [|apply H1; lia].
      apply S3; auto. apply in_or_app. left. eapply wfn_min_key_in; eauto.
  - intros y Hy. apply in_map_iff in Hy as (lv & <- & Hlv).
    unfold flat in Hlv. apply in_flat_map in Hlv as (c' & Hc' & Hlv).
    pose proof Hc' as Hin.
    unfold post in Hc'. apply in_skipn_nth in Hc' as (j & Lj & Hj).
    destruct (I2 j c' Hj) as [_ H2]. eapply klt_kle_trans; [apply H2; lia|].
    assert (Wc' : wfn maxn c'). { rewrite Forall_forall in W. apply W. eapply nth_error_In; eauto. }
    eapply wfn_min_key_le; eauto; [|apply in_map; auto].
    (* sortedness of that child *)
    clear - S5 Hin. induction post as [|p post IH]; [destruct Hin|].
    rewrite flat_cons, lkeys_app in S5. apply ssorted_app in S5 as (A & B & _).
    destruct Hin as [-> | Hin]; auto.
Qed.

Lemma child_sorted cs c : ssorted (lkeys (flat cs)) -> In c cs -> ssorted (lkeys (flatten c)).
Proof.
  induction cs as [|c0 cs IH]; intros Hs Hin; [destruct Hin|].
  rewrite flat_cons, lkeys_app in Hs. apply ssorted_app in Hs as (A & B & _).
  destruct Hin as [-> | Hin]; auto.
Qed.

Lemma klt_not_in k l : (forall x, In x l -> klt x k) -> ~ In k l.
Proof. intros H Hin. apply (klt_irrefl k). auto. Qed.
Lemma kgt_not_in k l : (forall x, In x l -> klt k x) -> ~ In k l.
Proof. intros H Hin. apply (klt_irrefl k). auto. Qed.

Lemma lookup_spec maxn k n :
  (wfn maxn n \/ exists t, n = Leaf t []) -> ssorted (lkeys (flatten n)) ->
  mv_find k (abs n) = option_map lv_all (lookup n k) /\
  (forall lv, lookup n k = Some lv -> lv_key lv = k /\ In lv (flatten n)).
Proof.
  induction n as [t vs | t cs IH] using node_ind'; intros W Hs.
  - cbn [lookup flatten] in *. rewrite abs_eq. cbn [flatten].
    destruct (leaf_index_of vs k) as [i found] eqn:E. destruct found.
    + destruct (leaf_found_split vs k i Hs E) as (lv & Hn & Hk & Hsplit & Hpre & Hpost).
      rewrite Hn. split.
      * rewrite Hsplit at 1. rewrite absl_app. rewrite mv_find_app_r.
        2:{ rewrite keys_absl. apply klt_not_in; auto. }
        cbn [absl map mv_find]. unfold abs_lv at 1. cbn [fst]. rewrite Hk, beq_refl. reflexivity.
      * intros lv' E'. inversion E'; subst. split; auto. eapply nth_error_In; eauto.
    + destruct (leaf_notfound_split vs k i Hs E) as (Hpre & Hpost). split; [|discriminate].
      rewrite <- (firstn_skipn (N.to_nat i) vs) at 1. rewrite absl_app.
      apply mv_find_not_in. rewrite keys_app, !keys_absl. intros Hin. apply in_app_or in Hin as [Hin | Hin].
      * eapply klt_not_in; eauto.
      * eapply kgt_not_in; eauto.
  - destruct W as [W | [t' E]]; [|discriminate]. apply wfn_inner in W as (W1 & W2 & W3).
    cbn [flatten] in Hs. fold (flat cs) in Hs.
    rewrite lookup_inner, pick_of_nth.
    rewrite (inner_index_of_idx cs k (mkeys_sorted maxn cs W3 Hs)), Nnat.Nat2N.id.
    destruct (descend maxn cs k W3 W1 Hs) as (pre & c & post & Hsplit & Hn & Hlen & Hpre & Hpost).
    rewrite Hn.
    assert (Hc : In c cs) by (eapply nth_error_In; eauto).
    rewrite Forall_forall in IH, W3.
    destruct (IH c Hc (or_introl (W3 c Hc)) (child_sorted cs c Hs Hc)) as [I1 I2].
    split.
    + rewrite <- I1. rewrite abs_eq. cbn [flatten]. fold (flat cs).
      rewrite Hsplit, flat_app, flat_cons, !absl_app.
      rewrite mv_find_app_r by (rewrite keys_absl; apply klt_not_in; auto).
      rewrite mv_find_app_l by (rewrite keys_absl; apply kgt_not_in; auto).
      reflexivity.
    + intros lv E. destruct (I2 lv E) as [E1 E2]. split; auto.
      cbn [flatten]. fold (flat cs). unfold flat. apply in_flat_map. exists c; auto.
Qed.

(* ---------- Get ---------- *)
Lemma lv_all_length lv : N.of_nat (length (lv_all lv)) = lv_history_count lv.
Proof. unfold lv_all, lv_history_count, lv_hcount. rewrite app_length. lia. Qed.

Theorem get_refines maxn maxkey maxval n k :
  root_ok maxn n -> tree_ok maxn maxkey maxval n -> get n k = mv_get k (abs n).
Proof.
  intros R [Hs Hok]. destruct (lookup_spec maxn k n R Hs) as [L1 L2].
  unfold get, mv_get. rewrite L1. destruct (lookup n k) as [lv|] eqn:E; [|reflexivity].
  cbn [option_map]. destruct (L2 lv eq_refl) as [_ Hin].
  rewrite Forall_forall in Hok. destruct (Hok lv Hin) as (Ht & _).
  destruct (lv_all_latest lv Ht) as (rest & Hall).
  unfold lv_get. rewrite <- lv_all_length. rewrite Hall. destruct (lv_latest lv) as [v t]. reflexivity.
Qed.

(* ---------- History ---------- *)
Lemma firstn_min_length {A} (l : list A) n : firstn (Nat.min n (length l)) l = firstn n l.
Proof.
  destruct (Nat.le_ge_cases n (length l)).
  - rewrite Nat.min_l; auto.
  - rewrite Nat.min_r; auto. rewrite firstn_all, firstn_all2; auto.
Qed.

(* the versions in the order History returns them *)
Definition hlist (lv : lval) (desc : bool) : versions := if desc then lv_all lv else rev (lv_all lv).

Lemma lv_history_spec lv off desc limit :
  limit <> 0 ->
  lv_history lv off desc limit =
  (let hc := lv_history_count lv in
   if off =? hc then HNoMore else if hc <? off then HOutOfRange else
   HOk (firstn (N.to_nat limit) (skipn (N.to_nat off) (hlist lv desc))) hc).
Proof.
  intros Hl. unfold lv_history, hlist. cbv zeta.
  set (hc := lv_history_count lv). set (all := lv_all lv).
  assert (Hlen : length all = N.to_nat hc) by (unfold hc; rewrite <- lv_all_length; unfold all; lia).
  destruct (N.eqb_spec off hc) as [Eo | Eo]; auto. destruct (N.ltb_spec hc off) as [Lo | Lo]; auto.
  set (n := if hc - off <? limit then hc - off else limit).
  assert (Hn : N.to_nat n = Nat.min (N.to_nat limit) (N.to_nat hc - N.to_nat off)).
  { unfold n. destruct (N.ltb_spec (hc - off) limit); lia. }
  f_equal. destruct desc.
  - rewrite Hn. rewrite <- (firstn_min_length (skipn (N.to_nat off) all) (N.to_nat limit)).
    rewrite skipn_length, Hlen. reflexivity.
  - rewrite skipn_rev, firstn_rev. f_equal.
    rewrite firstn_length, Hlen.
    rewrite skipn_firstn_comm.
    replace (N.to_nat (hc - off - n)) with (Nat.min (N.to_nat hc - N.to_nat off) (N.to_nat hc) - N.to_nat limit)%nat by lia.
    rewrite <- (firstn_min_length (skipn _ all)). rewrite skipn_length, Hlen. f_equal. lia.
Qed.

Theorem history_refines maxn maxkey maxval n k off desc limit :
  root_ok maxn n -> tree_ok maxn maxkey maxval n ->
  history n k off desc limit = mv_history k off desc limit (abs n).
Proof.
  intros R [Hs Hok]. destruct (lookup_spec maxn k n R Hs) as [L1 L2].
  unfold history, mv_history. destruct (N.eqb_spec limit 0); auto.
  rewrite L1. destruct (lookup n k) as [lv|]; [|reflexivity].
  cbn [option_map]. rewrite lv_history_spec by auto. cbv zeta. rewrite lv_all_length. reflexivity.
Qed.

(* ---------- GetBetween ---------- *)
Definition bres_opt (b : bres) : option (bytes * N * N) :=
  match b with BFound r => Some r | _ => None end.

Definition hit (i f : N) (x : tv) : Prop := snd x < i \/ snd x <= f.

(* phase 1: the in-memory versions *)
Lemma scan_tvs_spec i f H R : f <> 0 -> forall tvs j,
  H - j = N.of_nat (length (tvs ++ R)) ->
  match scan_tvs i f H j tvs with
  | BFound r => scanl i f (tvs ++ R) = Some r
  | BNotFound => scanl i f (tvs ++ R) = None
  | BCont _ => scanl i f (tvs ++ R) = scanl i f R /\ Forall (fun x => ~ hit i f x) tvs
  end.
Proof.
  intros Hf. induction tvs as [|[v t] r IH]; intros j Hj.
  - simpl. auto.
  - cbn [scan_tvs]. rewrite <- app_comm_cons. cbn [scanl].
    destruct (N.eqb_spec f 0) as [E0 | E0]; [congruence|]. cbn [orb].
    destruct (N.ltb_spec t i) as [L1 | L1]; auto.
    destruct (N.leb_spec t f) as [L2 | L2].
    + rewrite app_comm_cons, <- Hj. reflexivity.
    + specialize (IH (j + 1)). rewrite <- app_comm_cons in Hj. cbn [length] in Hj.
      specialize (IH ltac:(lia)).
      destruct (scan_tvs i f H (j + 1) r); auto.
      destruct IH as [I1 I2]. split; auto. constructor; auto. unfold hit; simpl. lia.
Qed.

(* one history block *)
Lemma scan_block_spec i f hc X : f <> 0 -> forall b skipped,
  hc - skipped = N.of_nat (length (b ++ X)) ->
  match scan_block i f hc skipped b with
  | BFound r => scanl i f (b ++ X) = Some r
  | BNotFound => scanl i f (b ++ X) = None
  | BCont s => scanl i f (b ++ X) = scanl i f X /\ s = skipped + N.of_nat (length b)
  end.
Proof.
  intros Hf. induction b as [|[v t] r IH]; intros skipped Hs.
  - simpl. split; auto. lia.
  - cbn [scan_block]. rewrite <- app_comm_cons. cbn [scanl].
    destruct (N.eqb_spec f 0) as [E0 | E0]; [congruence|]. cbn [orb].
    destruct (N.ltb_spec t i) as [L1 | L1]; auto.
    rewrite <- app_comm_cons in Hs. cbn [length] in Hs.
    destruct (N.leb_spec t f) as [L2 | L2].
    + f_equal. f_equal. cbn [length]. symmetry. exact Hs.
    + specialize (IH (skipped + 1) ltac:(lia)).
      destruct (scan_block i f hc (skipped + 1) r); auto.
      destruct IH as (I1 & I2). split; auto. cbn [length]. lia.
Qed.

Lemma skipn_cons_nth {A} (l : list A) idx b rest d :
  skipn idx l = b :: rest -> nth idx l d = b /\ skipn (S idx) l = rest.
Proof.
  revert idx. induction l as [|x l IH]; intros [|idx] H; simpl in *; try discriminate.
  - inversion H; auto.
  - apply IH; auto.
Qed.

(* the loop over the key's own chain of blocks (it never leaves the chain: the guard
   skippedUpdates < hCount fails exactly when the chain is used up) *)
Lemma scan_blocks_spec i f hc blocks h0 : f <> 0 ->
  forall rem idx iters skipped,
  skipn idx blocks = rem -> Forall (fun b => b <> []) rem -> (length rem <= iters)%nat ->
  hc - skipped = N.of_nat (length (concat rem)) -> skipped <= hc ->
  scan_blocks iters idx blocks h0 i f hc skipped = scanl i f (concat rem).
Proof.
  intros Hf. induction rem as [|b rest IH]; intros idx iters skipped Hsk Hne Hit Hs Hle.
  - simpl in *. destruct iters as [|n]; [reflexivity|]. cbn [scan_blocks].
    destruct (N.ltb_spec skipped hc); [lia | reflexivity].
  - destruct iters as [|n]; [simpl in Hit; lia|]. cbn [scan_blocks].
    apply Forall_cons_iff in Hne as [Hb Hne]. cbn [concat] in *.
    assert (1 <= length (b ++ concat rest))%nat by (destruct b; [congruence | simpl; lia]).
    destruct (N.ltb_spec skipped hc) as [L | L]; [|lia].
    destruct (skipn_cons_nth blocks idx b rest h0 Hsk) as [En Esk]. rewrite En.
    pose proof (scan_block_spec i f hc (concat rest) Hf b skipped Hs) as P.
    destruct (scan_block i f hc skipped b) as [r | | s]; auto.
    destruct P as (P1 & P2). rewrite P1.
    apply IH; auto.
    + simpl in Hit. lia.
    + rewrite app_length in Hs. lia.
    + rewrite app_length in Hs. lia.
Qed.

Lemma concat_length_ge {A} (l : list (list A)) :
  Forall (fun b => b <> []) l -> (length l <= length (concat l))%nat.
Proof.
  induction l as [|b l IH]; intros H; simpl; auto.
  apply Forall_cons_iff in H as [H1 H2]. rewrite app_length. specialize (IH H2).
  destruct b; [congruence | simpl; lia].
Qed.

(* lastUpdateBetween is the scan over all versions of the key, whatever block 0 holds *)
Lemma lv_between_spec maxkey maxval h0 lv i f :
  lv_ok maxkey maxval lv ->
  lv_between h0 lv i f = (if f <? i then None else scanl i f (lv_all lv)).
Proof.
  intros (Ht & _ & _ & _ & Hb). unfold lv_between.
  destruct (N.ltb_spec f i) as [Lfi | Lfi]; auto.
  destruct (N.eq_dec f 0) as [-> | Hf].
  - (* finalTs = 0: the newest version *)
    assert (i = 0) by lia. subst i.
    pose proof (lv_all_length lv) as Hlen. unfold lv_all in *.
    destruct (lv_tvs lv) as [|[v t] r] eqn:Etv; [congruence|]. cbn [scan_tvs app scanl].
    destruct (N.ltb_spec t 0); [lia|]. cbn [N.eqb orb].
    rewrite N.sub_0_r, <- Hlen. reflexivity.
  - pose proof (scan_tvs_spec i f (lv_history_count lv) (concat (lv_blocks lv)) Hf (lv_tvs lv) 0) as P1.
    fold (lv_all lv) in P1. rewrite N.sub_0_r, lv_all_length in P1. specialize (P1 eq_refl).
    destruct (scan_tvs i f (lv_history_count lv) 0 (lv_tvs lv)) as [r | | s]; auto.
    destruct P1 as [P1 P2]. rewrite P1.
    apply (scan_blocks_spec i f (lv_hcount lv) (lv_blocks lv) h0 Hf (lv_blocks lv) 0); auto.
    + unfold lv_hcount. pose proof (concat_length_ge _ Hb). lia.
    + unfold lv_hcount. lia.
    + lia.
Qed.

(* the versions of a key of a tree with time-sorted versions *)
Definition tree_tsorted (n : node) : Prop := mv_tsorted (abs n).

(* GetBetween refines the map: the newest version inside the time window and its revision *)
Theorem get_between_refines maxn maxkey maxval h0 n k i f :
  root_ok maxn n -> tree_ok maxn maxkey maxval n -> tree_tsorted n ->
  get_between h0 n k i f = mv_get_between k i f (abs n).
Proof.
  intros R [Hs Hok] Tsd. destruct (lookup_spec maxn k n R Hs) as [L1 L2].
  unfold get_between, mv_get_between. rewrite L1 in *.
  destruct (lookup n k) as [lv|] eqn:E; cbn [option_map] in *.
  - destruct (L2 lv eq_refl) as [Hk Hin]. rewrite Forall_forall in Hok.
    rewrite (lv_between_spec maxkey maxval h0 lv i f (Hok lv Hin)).
    destruct (f <? i); auto. apply scanl_between.
    unfold tree_tsorted, mv_tsorted in Tsd. rewrite Forall_forall in Tsd.
    apply (Tsd (abs_lv lv)). rewrite abs_eq. apply in_map. exact Hin.
  - destruct (f <? i); reflexivity.
Qed.
