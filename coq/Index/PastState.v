(* A snapshot reflects one fixed state of the tree: the content of every open snapshot (and of the
   last flushed root, and of every compaction dump) is the content the tree had at the boundary of
   some earlier operation; compaction dumps the current content under the current logical time. *)
From V Require Import Index.MVMap Index.MVMapProofs Index.BTree Index.BTreeProofs Index.QueryProofs
  Index.TBState Index.TBStateProofs.
From Coq Require Import ZifyN ZifyNat ZifyBool.

Definition was_root (cfg : config) (ops : list mop) (n : node) : Prop :=
  exists k, (k <= length ops)%nat /\ abs n = abs (s_root (mrun cfg (firstn k ops))).

Lemma flush_tree_last cfg h f st l :
  s_last (flush_tree cfg h f st) = Some l -> s_last st = Some l \/ abs l = abs (s_root st).
Proof.
  unfold flush_tree. destruct (_ && _); [auto|]. unfold do_flush. cbn [s_last].
  intros E; inversion E; subst. right. apply flush_node_abs.
Qed.

Lemma flush_tree_dumps cfg h f st : s_dumps (flush_tree cfg h f st) = s_dumps st.
Proof. unfold flush_tree. destruct (_ && _); reflexivity. Qed.

(* one step: the last flushed root is the old one, or has the content of the root before or after *)
Lemma last_step cfg st o l :
  s_last (mstep cfg st o) = Some l ->
  s_last st = Some l \/ abs l = abs (s_root st) \/ abs l = abs (s_root (mstep cfg st o)).
Proof.
  destruct o; cbn [mstep].
  - unfold bulk_insert. destruct (is_nil kvts); [auto|].
    set (st1 := if _ && _ then flush_tree cfg (c_cleanup cfg) false st else st).
    assert (H1 : forall l, s_last st1 = Some l -> s_last st = Some l \/ abs l = abs (s_root st)).
    { intros l0. unfold st1. destruct (_ && _); [apply flush_tree_last | auto]. }
    destruct (validate _ _ _) as [ik|]; [|intros E; destruct (H1 l E); auto].
    destruct (insert _ _ _) as [nodes|].
    + destruct (grow _ _ _ _) as [r|]; [|intros E; destruct (H1 l E); auto]. cbn [fst].
      match goal with |- s_last (if ?b then ?X else _) = _ -> _ => destruct b end.
      * intros E. apply flush_tree_last in E as [E | E].
        -- cbn [s_last bump with_counts with_root] in E. destruct (H1 l E); auto.
        -- right. right. rewrite flush_tree_abs. exact E.
      * intros E. cbn [s_last bump with_counts with_root] in E. destruct (H1 l E); auto.
    + cbn [fst]. destruct (s_mut _).
      * destruct (s_last (with_counts _ _ _ _)) eqn:El; cbn [s_last with_root with_counts] in *;
          intros E; rewrite El in E; [|discriminate].
        inversion E; subst. destruct (H1 l El); auto.
      * intros E. destruct (H1 l E); auto.
  - unfold increase_ts. destruct (_ <=? _); [auto|]. cbn [fst].
    match goal with |- s_last (if ?b then _ else _) = _ -> _ => destruct b end.
    + intros E. apply flush_tree_last in E as [E | E]; [left; exact E|].
      right. right. rewrite flush_tree_abs. exact E.
    + auto.
  - intros E. apply flush_tree_last in E as [E | E]; auto.
  - intros E. apply flush_tree_last in E as [E | E]; auto.
  - unfold compact. destruct (_ <? _); [auto|].
    match goal with |- s_last (fst (if ?b then _ else _)) = _ -> _ => destruct b end;
      cbn [fst s_last with_dumps]; intros E; apply flush_tree_last in E as [E | E]; auto.
  - unfold reopen. destruct (negb _); [auto|].
    destruct (newest_dump _ _) as [[id tree] tsf].
    (* 18b7c7d: the last flushed root after a restart is the loaded root *)
    destruct (_ <? _); cbn [fst s_last s_root]; intros E; inversion E; subst; right; right;
      rewrite ?set_node_ts_abs; reflexivity.
  - unfold snapshot. destruct (_ <? _); [auto|]. destruct (_ =? _); [auto|].
    set (st1 := if s_mut st then _ else st).
    assert (H1 : forall l, s_last st1 = Some l -> s_last st = Some l \/ abs l = abs (s_root st)).
    { intros l0. unfold st1. destruct (s_mut st); auto.
      match goal with |- s_last (if ?b then _ else _) = _ -> _ => destruct b end; [apply flush_tree_last | auto]. }
    assert (A1 : abs (s_root st1) = abs (s_root st)).
    { unfold st1. destruct (s_mut st); auto.
      match goal with |- abs (s_root (if ?b then _ else _)) = _ => destruct b end; auto using flush_tree_abs. }
    set (st2 := if s_mut st1 then st1 else with_last st1 (Some (s_root st1))).
    assert (H2 : forall l, s_last st2 = Some l -> s_last st = Some l \/ abs l = abs (s_root st)).
    { intros l0. unfold st2. destruct (s_mut st1); auto. cbn [s_last with_last].
      intros E; inversion E; subst. right. exact A1. }
    destruct (s_last st2) as [r|] eqn:El; cbn [fst]; [cbn [s_last with_snaps]; rewrite El|]; intros E.
    + inversion E; subst. destruct (H2 l eq_refl); auto.
    + rewrite El in E. discriminate.
  - unfold snap_close. destruct (snap_find id st); cbn [fst s_last with_snaps]; auto.
Qed.

Lemma mrun_snoc cfg ops o : mrun cfg (ops ++ [o]) = mstep cfg (mrun cfg ops) o.
Proof. unfold mrun. rewrite fold_left_app. reflexivity. Qed.

Lemma was_root_more cfg ops o n : was_root cfg ops n -> was_root cfg (ops ++ [o]) n.
Proof.
  intros (k & Hk & E). exists k. split; [rewrite app_length; simpl; lia|].
  rewrite firstn_app. replace (k - length ops)%nat with O by lia. cbn [firstn]. rewrite app_nil_r. exact E.
Qed.

Lemma was_root_now cfg ops n : abs n = abs (s_root (mrun cfg ops)) -> was_root cfg ops n.
Proof. intros E. exists (length ops). split; [lia|]. rewrite firstn_all. exact E. Qed.

(* the invariant over whole runs *)
Definition past_inv (cfg : config) (ops : list mop) : Prop :=
  let st := mrun cfg ops in
  (forall l, s_last st = Some l -> was_root cfg ops l) /\
  Forall (fun x => was_root cfg ops (snd x)) (s_snaps st) /\
  Forall (fun x => was_root cfg ops (snd x) /\ fst x = node_ts (snd x)) (s_dumps st).

Lemma Forall_impl' {A} (P Q : A -> Prop) l : (forall x, P x -> Q x) -> Forall P l -> Forall Q l.
Proof. intros H F. rewrite Forall_forall in *. auto. Qed.

Lemma step_snaps_dumps cfg st o :
  let st' := mstep cfg st o in
  (forall x, In x (s_snaps st') -> In x (s_snaps st) \/ s_last st' = Some (snd x)) /\
  (forall x, In x (s_dumps st') -> In x (s_dumps st) \/
                                   (abs (snd x) = abs (s_root st) /\ fst x = node_ts (snd x))).
Proof.
  cbv zeta. destruct o; cbn [mstep].
  - rewrite bulk_insert_snaps. split; auto.
    unfold bulk_insert. destruct (is_nil kvts); [auto|].
    set (st1 := if _ && _ then flush_tree cfg (c_cleanup cfg) false st else st).
    assert (E1 : s_dumps st1 = s_dumps st) by (unfold st1; destruct (_ && _); auto using flush_tree_dumps).
    destruct (validate _ _ _) as [ik|]; [|cbn [fst s_dumps with_counts]; rewrite E1; auto].
    destruct (insert _ _ _) as [nodes|].
    + destruct (grow _ _ _ _) as [r|]; [|cbn [fst s_dumps with_counts]; rewrite E1; auto]. cbn [fst].
      match goal with |- forall x, In x (s_dumps (if ?b then _ else _)) -> _ => destruct b end;
        rewrite ?flush_tree_dumps; cbn [s_dumps bump with_counts with_root]; rewrite E1; auto.
    + cbn [fst]. destruct (s_mut _); [|cbn [s_dumps with_counts]; rewrite E1; auto].
      destruct (s_last _); cbn [s_dumps with_root with_counts]; rewrite E1; auto.
  - rewrite increase_ts_snaps. split; auto.
    unfold increase_ts. destruct (_ <=? _); [auto|]. cbn [fst].
    match goal with |- forall x, In x (s_dumps (if ?b then _ else _)) -> _ => destruct b end;
      rewrite ?flush_tree_dumps; auto.
  - rewrite flush_tree_snaps, flush_tree_dumps. auto.
  - rewrite flush_tree_snaps, flush_tree_dumps. auto.
  - rewrite compact_snaps. split; auto.
    unfold compact. destruct (_ <? _); [auto|].
    match goal with |- forall x, In x (s_dumps (fst (if ?b then _ else _))) -> _ => destruct b end;
      cbn [fst s_dumps with_dumps]; rewrite ?flush_tree_dumps; auto.
    intros x [<- | Hx]; auto. right. cbn [fst snd]. split; [apply flush_tree_abs | reflexivity].
  - unfold reopen. destruct (negb _); [auto|].
    destruct (newest_dump _ _) as [[id tree] tsf]. destruct (_ <? _); cbn [fst s_snaps s_dumps]; split; intros x [].
  - split.
    + unfold snapshot. destruct (_ <? _); [auto|]. destruct (_ =? _); [auto|].
      set (st1 := if s_mut st then _ else st).
      assert (E1 : s_snaps st1 = s_snaps st).
      { unfold st1. destruct (s_mut st); auto.
        match goal with |- s_snaps (if ?b then _ else _) = _ => destruct b end; auto using flush_tree_snaps. }
      set (st2 := if s_mut st1 then st1 else with_last st1 (Some (s_root st1))).
      assert (E2 : s_snaps st2 = s_snaps st) by (unfold st2; destruct (s_mut st1); exact E1).
      destruct (s_last st2) as [r|] eqn:El; cbn [fst]; [|rewrite E2; auto].
      cbn [s_snaps with_snaps s_last]. intros x [<- | Hx]; [right; exact El | rewrite E2 in Hx; auto].
    + unfold snapshot. destruct (_ <? _); [auto|]. destruct (_ =? _); [auto|].
      set (st1 := if s_mut st then _ else st).
      assert (E1 : s_dumps st1 = s_dumps st).
      { unfold st1. destruct (s_mut st); auto.
        match goal with |- s_dumps (if ?b then _ else _) = _ => destruct b end; auto using flush_tree_dumps. }
      set (st2 := if s_mut st1 then st1 else with_last st1 (Some (s_root st1))).
      assert (E2 : s_dumps st2 = s_dumps st) by (unfold st2; destruct (s_mut st1); exact E1).
      destruct (s_last st2); cbn [fst s_dumps with_snaps]; rewrite E2; auto.
  - unfold snap_close. destruct (snap_find id st); cbn [fst s_snaps s_dumps with_snaps]; split; auto.
    intros x Hx. apply filter_In in Hx as [Hx _]. auto.
Qed.

Theorem past_states cfg ops : past_inv cfg ops.
Proof.
  rewrite <- (rev_involutive ops). induction (rev ops) as [|o r IH].
  - simpl. unfold past_inv, mrun; simpl. repeat split; auto; discriminate.
  - simpl. set (p := rev r) in *. unfold past_inv in *. rewrite mrun_snoc.
    destruct IH as (I1 & I2 & I3).
    assert (L : forall l, s_last (mstep cfg (mrun cfg p) o) = Some l -> was_root cfg (p ++ [o]) l).
    { intros l E. destruct (last_step _ _ _ _ E) as [E1 | [E1 | E1]].
      - apply was_root_more. auto.
      - apply was_root_more. apply was_root_now. exact E1.
      - apply was_root_now. rewrite mrun_snoc. exact E1. }
    destruct (step_snaps_dumps cfg (mrun cfg p) o) as [S1 S2]. cbv zeta in S1, S2.
    split; [exact L|]. split.
    + apply Forall_forall. intros x Hx. destruct (S1 x Hx) as [H | H].
      * apply was_root_more. rewrite Forall_forall in I2. auto.
      * apply L. exact H.
    + apply Forall_forall. intros x Hx. destruct (S2 x Hx) as [H | [H1 H2]].
      * rewrite Forall_forall in I3. destruct (I3 x H). split; auto. apply was_root_more. auto.
      * split; auto. apply was_root_more. apply was_root_now. exact H1.
Qed.

(* every open snapshot reflects a state the tree was in at an operation boundary *)
Theorem snapshot_reflects_past_state cfg ops id r :
  snap_find id (mrun cfg ops) = Some r -> was_root cfg ops r.
Proof.
  intros H. destruct (past_states cfg ops) as (_ & I2 & _). unfold snap_find in H.
  destruct (find (fun x => fst x =? id) (s_snaps (mrun cfg ops))) as [x|] eqn:E; [|discriminate].
  inversion H; subst. apply find_some in E as [E _]. rewrite Forall_forall in I2. auto.
Qed.

(* compaction dumps the current content under the current logical time; a restart loads the current
   folder or one of the dumps *)
Theorem compaction_dump cfg ops id r :
  In (id, r) (s_dumps (mrun cfg ops)) -> was_root cfg ops r /\ id = node_ts r.
Proof.
  intros H. destruct (past_states cfg ops) as (_ & _ & I3). rewrite Forall_forall in I3.
  exact (I3 (id, r) H).
Qed.
