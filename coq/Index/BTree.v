(* BTree — the functional core of embedded/tbtree as the code has it (tbtree.go, reader.go,
   history_reader.go), transliterated function by function.  No proofs in this file.

   What is kept literally: leaf/inner node shape, the binary searches of leafNode.indexOf and
   innerNode.indexOf, leafNode.updateOnInsert (same-ts re-insert ignored, older ts rejected),
   innerNode.updateOnInsert (grouping of the batch by indexOf over the ORIGINAL children),
   size() of both node kinds in serialised bytes, split() with splitIndex and the recursive
   halving, the node timestamps (_ts, updateTs), get/getBetween/history at the leaf,
   findLeafNode of both node kinds with all skip conditions (seekKey, neqKey, offset, descOrder),
   the Reader (NewReader's seek/end adjustment to the prefix, the path-climbing cursor, the
   per-key filters, offset, Read / Read with history / ReadBetween).

   What is abstracted (and therefore covered by the correspondence run only):
   * pointers and copy-on-write: nodes are values; a snapshot is a captured value;
   * the history log: a leaf value carries the list of its flushed history BLOCKS (what the
     hOff/prevOff chain denotes, newest block first) instead of (hOff, hCount); hCount is the
     number of entries in these blocks.  The one thing that can be reached beyond the own chain
     (block 0 of the log, see lv_between) is passed in as [h0];
   * nodeRef / cache / files: a nodeRef is the node it refers to.
   Sizes are measured exactly as the code measures them (bytes of the serialised node), with the
   maximum node size a parameter [maxn]. *)
From V Require Export Index.MVMap.
From Coq Require Import ZArith.

Definition EFuelIx : N := 98.   (* fuel exhausted: proved unreachable *)

(* leafValue{key, timedValues, hOff, hCount} *)
Record lval := { lv_key : bytes; lv_tvs : list tv; lv_blocks : list (list tv) }.

(* leafNode{values,_ts} / innerNode{nodes,_ts} *)
Inductive node :=
| Leaf (ts : N) (vs : list lval)
| Inner (ts : N) (cs : list node).

Definition node_ts (n : node) : N := match n with Leaf t _ => t | Inner t _ => t end.
Definition set_node_ts (n : node) (t : N) : node :=
  match n with Leaf _ vs => Leaf t vs | Inner _ cs => Inner t cs end.

Fixpoint min_key (n : node) : bytes :=
  match n with
  | Leaf _ vs => match vs with [] => [] | v :: _ => lv_key v end
  | Inner _ cs => match cs with [] => [] | c :: _ => min_key c end
  end.

(* in-order list of the leaf values *)
Fixpoint flatten (n : node) : list lval :=
  match n with
  | Leaf _ vs => vs
  | Inner _ cs => flat_map flatten cs
  end.

Definition lv_latest (lv : lval) : tv := match lv_tvs lv with x :: _ => x | [] => ([], 0) end.
Definition lv_hcount (lv : lval) : N := N.of_nat (length (concat (lv_blocks lv))).
(* historyCount() = hCount + len(timedValues) *)
Definition lv_history_count (lv : lval) : N := lv_hcount lv + N.of_nat (length (lv_tvs lv)).
Definition lv_all (lv : lval) : versions := lv_tvs lv ++ concat (lv_blocks lv).

(* ---------- sizes (leafNode.size, innerNode.size) ---------- *)
Definition lv_size (lv : lval) : N := 2 + len (lv_key lv) + 2 + len (fst (lv_latest lv)) + 8 + 8 + 8.
Definition leaf_size (vs : list lval) : N := fold_right (fun lv acc => lv_size lv + acc) 3 vs.
Definition ref_size (c : node) : N := 2 + len (min_key c) + 8 + 8 + 8.
Definition inner_size (cs : list node) : N := fold_right (fun c acc => ref_size c + acc) 3 cs.

(* requiredNodeSize *)
Definition required_node_size (maxKey maxVal : N) : N :=
  N.max (2 * (29 + maxKey)) (31 + maxKey + maxVal).

Definition split_index (sz : N) : N := if sz mod 2 =? 0 then sz / 2 else sz / 2 + 1.

Definition leaf_max_ts (vs : list lval) : N :=
  fold_left (fun acc lv => N.max acc (snd (lv_latest lv))) vs 0.
Definition nodes_max_ts (cs : list node) : N :=
  fold_left (fun acc c => N.max acc (node_ts c)) cs 0.

(* leafNode.split: [ts] is the leaf's current _ts; the halves get updateTs() *)
Fixpoint split_leaf (fuel : nat) (maxn ts : N) (vs : list lval) : list node :=
  if leaf_size vs <=? maxn then [Leaf ts vs] else
  match fuel with
  | O => [Leaf ts vs]  (* not reachable when every entry fits a node; the Go recursion would not end *)
  | S f =>
      let i := N.to_nat (split_index (N.of_nat (length vs))) in
      let a := firstn i vs in
      let b := skipn i vs in
      split_leaf f maxn (leaf_max_ts a) a ++ split_leaf f maxn (leaf_max_ts b) b
  end.

(* innerNode.split *)
Fixpoint split_inner (fuel : nat) (maxn ts : N) (cs : list node) : list node :=
  if inner_size cs <=? maxn then [Inner ts cs] else
  match fuel with
  | O => [Inner ts cs]
  | S f =>
      let i := N.to_nat (split_index (N.of_nat (length cs))) in
      let a := firstn i cs in
      let b := skipn i cs in
      split_inner f maxn (nodes_max_ts a) a ++ split_inner f maxn (nodes_max_ts b) b
  end.

(* ---------- binary searches ---------- *)
(* leafNode.indexOf *)
Fixpoint leaf_bs (fuel : nat) (vs : list lval) (key : bytes) (left right : N) : N * bool :=
  match fuel with
  | O => (left, false)
  | S f =>
      if left <? right then
        let middle := left + (right - left) / 2 in
        match nth_error vs (N.to_nat middle) with
        | None => (left, false)
        | Some lv =>
            match bcmp (lv_key lv) key with
            | Eq => (middle, true)
            | Lt => leaf_bs f vs key (middle + 1) right
            | Gt => leaf_bs f vs key left middle
            end
        end
      else (left, false)
  end.
Definition leaf_index_of (vs : list lval) (key : bytes) : N * bool :=
  leaf_bs (S (length vs)) vs key 0 (N.of_nat (length vs)).

(* innerNode.indexOf *)
Fixpoint inner_bs (fuel : nat) (cs : list node) (key : bytes) (left right : N) : N :=
  match fuel with
  | O => left
  | S f =>
      if left <? right then
        let middle := left + (right - left) / 2 + 1 in
        match nth_error cs (N.to_nat middle) with
        | None => left
        | Some c =>
            match bcmp (min_key c) key with
            | Eq => middle
            | Lt => inner_bs f cs key middle right
            | Gt => inner_bs f cs key left (middle - 1)
            end
        end
      else left
  end.
Definition inner_index_of (cs : list node) (key : bytes) : N :=
  inner_bs (S (length cs)) cs key 0 (N.of_nat (length cs) - 1).

(* ---------- insert ---------- *)
(* one iteration of the loop of leafNode.updateOnInsert *)
Definition leaf_put (vs : list lval) (e : kvt) : option (list lval) :=
  let '(k, v, t) := e in
  let '(i, found) := leaf_index_of vs k in
  let i := N.to_nat i in
  if found then
    match nth_error vs i with
    | None => None
    | Some lv =>
        let t0 := snd (lv_latest lv) in
        if t <? t0 then None
        else if t0 <? t
             then Some (firstn i vs ++
                        {| lv_key := lv_key lv; lv_tvs := (v, t) :: lv_tvs lv; lv_blocks := lv_blocks lv |}
                        :: skipn (S i) vs)
             else Some vs
    end
  else Some (firstn i vs ++ {| lv_key := k; lv_tvs := [(v, t)]; lv_blocks := [] |} :: skipn i vs).

Fixpoint leaf_puts (vs : list lval) (kvts : list kvt) : option (list lval) :=
  match kvts with
  | [] => Some vs
  | e :: r => match leaf_put vs e with Some vs' => leaf_puts vs' r | None => None end
  end.

Definition kvts_max_ts (kvts : list kvt) : N := fold_left (fun acc e => N.max acc (kvt_ts e)) kvts 0.

(* node.insert: the nodes that replace [n] (leafNode/innerNode.updateOnInsert followed by split) *)
Fixpoint insert (maxn : N) (n : node) (kvts : list kvt) {struct n} : option (list node) :=
  match n with
  | Leaf ts vs =>
      match leaf_puts vs kvts with
      | None => None
      | Some vs' => Some (split_leaf (length vs') maxn (N.max ts (kvts_max_ts kvts)) vs')
      end
  | Inner ts cs =>
      match
        (fix go (l : list node) (i : N) {struct l} : option (list node * N) :=
           match l with
           | [] => Some ([], 0)
           | c :: r =>
               let g := filter (fun e => inner_index_of cs (kvt_key e) =? i) kvts in
               match (match g with
                      | [] => Some ([c], 0)
                      | _ :: _ => match insert maxn c g with
                                  | None => None
                                  | Some ns => Some (ns, nodes_max_ts ns)
                                  end
                      end), go r (i + 1) with
               | Some (ns, t1), Some (rest, t2) => Some (ns ++ rest, N.max t1 t2)
               | _, _ => None
               end
           end) cs 0
      with
      | None => None
      | Some (ncs, t') => Some (split_inner (length ncs) maxn (N.max ts t') ncs)
      end
  end.

(* the root-growth loop of bulkInsert *)
Fixpoint grow (fuel : nat) (maxn newTs : N) (nodes : list node) : option node :=
  match nodes with
  | [] => None
  | [r] => Some r
  | _ :: _ :: _ =>
      match fuel with
      | O => None
      | S f => grow f maxn newTs (split_inner (length nodes) maxn newTs nodes)
      end
  end.

(* ---------- point queries ---------- *)
(* get/getBetween/history descend with indexOf and differ at the leaf value only *)
Fixpoint lookup (n : node) (k : bytes) {struct n} : option lval :=
  match n with
  | Leaf _ vs =>
      let '(i, found) := leaf_index_of vs k in
      if found then nth_error vs (N.to_nat i) else None
  | Inner _ cs =>
      (fix pick (l : list node) (i : nat) {struct l} : option lval :=
         match l, i with
         | [], _ => None
         | c :: _, O => lookup c k
         | _ :: r, S i' => pick r i'
         end) cs (N.to_nat (inner_index_of cs k))
  end.

Definition lv_get (lv : lval) : bytes * N * N :=
  (fst (lv_latest lv), snd (lv_latest lv), lv_history_count lv).
Definition get (n : node) (k : bytes) : option (bytes * N * N) := option_map lv_get (lookup n k).

(* leafValue.lastUpdateBetween (as of e30fc04).  The outer loop reads one history BLOCK per
   iteration and runs while skippedUpdates < hCount, so it ends with the key's own chain.
   [h0] = entries of block 0 of the history log, which is where prevOff of the oldest own block
   points: before e30fc04 the loop ran hCount iterations over blocks and walked into it; it is kept
   as the default of [nth] so that a loop that again leaves the chain shows up as a disagreement.
   [iters] is fuel (hCount suffices: every block holds at least one entry). *)
Inductive bres := BFound (r : bytes * N * N) | BNotFound | BCont (skipped : N).
Fixpoint scan_block (i f hc skipped : N) (b : list tv) : bres :=
  match b with
  | [] => BCont skipped
  | (v, t) :: r =>
      if t <? i then BNotFound
      else if t <=? f then BFound (v, t, hc - skipped)   (* no wrap-around: skipped < hCount here *)
      else scan_block i f hc (skipped + 1) r
  end.
Fixpoint scan_blocks (iters idx : nat) (blocks : list (list tv)) (h0 : list tv)
         (i f hc skipped : N) : option (bytes * N * N) :=
  match iters with
  | O => None
  | S n =>
      if skipped <? hc then
        match scan_block i f hc skipped (nth idx blocks h0) with
        | BFound r => Some r
        | BNotFound => None
        | BCont s => scan_blocks n (S idx) blocks h0 i f hc s
        end
      else None
  end.
Fixpoint scan_tvs (i f hcount : N) (j : N) (tvs : list tv) : bres :=
  match tvs with
  | [] => BCont 0
  | (v, t) :: r =>
      if t <? i then BNotFound
      else if (f =? 0) || (t <=? f) then BFound (v, t, hcount - j)
      else scan_tvs i f hcount (j + 1) r
  end.
Definition lv_between (h0 : list tv) (lv : lval) (i f : N) : option (bytes * N * N) :=
  if f <? i then None else
  match scan_tvs i f (lv_history_count lv) 0 (lv_tvs lv) with
  | BFound r => Some r
  | BNotFound => None
  | BCont _ => scan_blocks (N.to_nat (lv_hcount lv)) 0 (lv_blocks lv) h0 i f (lv_hcount lv) 0
  end.
Definition get_between (h0 : list tv) (n : node) (k : bytes) (i f : N) : option (bytes * N * N) :=
  match lookup n k with Some lv => lv_between h0 lv i f | None => None end.

(* leafValue.history *)
Definition lv_history (lv : lval) (off : N) (desc : bool) (limit : N) : hres :=
  let hc := lv_history_count lv in
  if off =? hc then HNoMore else if hc <? off then HOutOfRange else
  let n := if hc - off <? limit then hc - off else limit in
  let initAt := if desc then off else hc - off - n in
  let seg := firstn (N.to_nat n) (skipn (N.to_nat initAt) (lv_all lv)) in
  HOk (if desc then seg else rev seg) hc.
Definition history (n : node) (k : bytes) (off : N) (desc : bool) (limit : N) : hres :=
  if limit =? 0 then HIllegal else
  match lookup n k with Some lv => lv_history lv off desc limit | None => HNotFound end.

(* ---------- findLeafNode ---------- *)
Definition path := list (node * N).   (* deepest inner node first *)

(* leafNode.findLeafNode, ascending *)
Fixpoint leaf_find_asc (vs : list lval) (seek neq : bytes) (i : N) : option N :=
  match vs with
  | [] => None
  | v :: r =>
      if negb (is_nil neq) && ble (lv_key v) neq then leaf_find_asc r seek neq (i + 1)
      else if ble seek (lv_key v) then Some i
      else leaf_find_asc r seek neq (i + 1)
  end.
(* leafNode.findLeafNode, descending: the loop runs from the last value down *)
Fixpoint leaf_find_desc (vs : list lval) (seek neq : bytes) (i : N) : option N :=
  match vs with
  | [] => None
  | v :: r =>
      match leaf_find_desc r seek neq (i + 1) with
      | Some j => Some j
      | None =>
          if negb (is_nil neq) && ble neq (lv_key v) then None
          else if ble (lv_key v) seek then Some i else None
      end
  end.

Definition join_opt {A} (o : option (option A)) : option A := match o with Some x => x | None => None end.

Fixpoint find_leaf (n : node) (seek : bytes) (p : path) (offset : N) (neq : bytes) (desc : bool)
         {struct n} : option (path * list lval * N) :=
  match n with
  | Leaf _ vs =>
      match (if desc then leaf_find_desc vs seek neq 0 else leaf_find_asc vs seek neq 0) with
      | Some i => Some (p, vs, i)
      | None => None
      end
  | Inner _ cs =>
      let nn := N.of_nat (length cs) in
      if desc then
        (* for i := offset; i < len; i++ { j := len-1-i; ... } : first hit from the right *)
        join_opt
          ((fix loop (l : list node) (j : N) {struct l} : option (option (path * list lval * N)) :=
              match l with
              | [] => None
              | c :: r =>
                  match loop r (j + 1) with
                  | Some x => Some x
                  | None =>
                      let i := nn - 1 - j in
                      if (offset <=? i) && negb (negb (is_nil neq) && ble neq (min_key c))
                         && ble (min_key c) seek
                      then Some (find_leaf c seek ((n, i) :: p) 0 neq desc)
                      else None
                  end
              end) cs 0)
      else if is_nil cs || (nn - 1 <? offset) then None
      else
        (fix loop (l : list node) (i : N) {struct l} : option (path * list lval * N) :=
           match l with
           | [] => None
           | c :: r =>
               match r with
               | [] => find_leaf c seek ((n, i) :: p) 0 neq desc
               | c2 :: _ =>
                   if i <? offset then loop r (i + 1)
                   else if ble (min_key c2) seek then loop r (i + 1)
                   else if negb (is_nil neq) && blt (min_key c2) neq then loop r (i + 1)
                   else match find_leaf c seek ((n, i) :: p) 0 neq desc with
                        | Some x => Some x
                        | None => loop r (i + 1)
                        end
               end
           end) cs 0
  end.

(* GetWithPrefix *)
Definition get_with_prefix (n : node) (prefix neq : bytes) : res (option (bytes * bytes * N * N)) :=
  match find_leaf n prefix [] 0 neq false with
  | None => Ok None
  | Some (_, vs, off) =>
      match nth_error vs (N.to_nat off) with
      | None => Panic
      | Some lv =>
          if has_prefix prefix (lv_key lv)
          then Ok (Some (lv_key lv, fst (lv_latest lv), snd (lv_latest lv), lv_history_count lv))
          else Ok None
      end
  end.

(* ---------- Reader ---------- *)
(* greatestKeyOfSize(maxKeySize) with the prefix copied over its head *)
Definition greatest_key (maxKey : N) (prefix : bytes) : bytes :=
  prefix ++ repeat 255 (N.to_nat maxKey - length prefix).

(* Snapshot.NewReader: the reader's fields (an rspec again) or an error *)
Definition new_reader (maxKey : N) (s : rspec) : option rspec :=
  if (maxKey <? len (rs_seek s)) || (maxKey <? len (rs_prefix s)) then None else
  let gpk := greatest_key maxKey (rs_prefix s) in
  let '(seek, incSeek) :=
    if rs_desc s then
      if is_nil (rs_seek s) || blt gpk (rs_seek s) then (gpk, true) else (rs_seek s, rs_incl_seek s)
    else
      if blt (rs_seek s) (rs_prefix s) then (rs_prefix s, true) else (rs_seek s, rs_incl_seek s) in
  let '(endk, incEnd) :=
    if rs_desc s then
      if blt (rs_end s) (rs_prefix s) then (rs_prefix s, true) else (rs_end s, rs_incl_end s)
    else
      if is_nil (rs_end s) || blt gpk (rs_end s) then (gpk, true) else (rs_end s, rs_incl_end s) in
  Some {| rs_seek := seek; rs_end := endk; rs_prefix := rs_prefix s; rs_incl_seek := incSeek;
          rs_incl_end := incEnd; rs_desc := rs_desc s; rs_offset := rs_offset s |}.

(* Reader.path / leafNode / leafOffset *)
Record cursor := { c_path : path; c_leaf : list lval; c_off : Z }.

(* the inner `for` of Read: climb until some ancestor has a next leaf *)
Fixpoint climb (seek : bytes) (desc : bool) (p : path) : option (path * list lval * N) :=
  match p with
  | [] => None
  | (n, i) :: pp =>
      match find_leaf n seek pp (i + 1) [] desc with
      | Some x => Some x
      | None => climb seek desc pp
      end
  end.

(* the next leaf value in reader order, Ok None = ErrNoMoreEntries *)
Definition cursor_next (seek : bytes) (desc : bool) (c : cursor) : res (option (lval * cursor)) :=
  let exhausted := if desc then (c_off c <? 0)%Z else (c_off c =? Z.of_nat (length (c_leaf c)))%Z in
  let oc := if exhausted
            then match climb seek desc (c_path c) with
                 | None => None
                 | Some (p, vs, i) => Some {| c_path := p; c_leaf := vs; c_off := Z.of_N i |}
                 end
            else Some c in
  match oc with
  | None => Ok None
  | Some c1 =>
      if (c_off c1 <? 0)%Z then Panic else
      match nth_error (c_leaf c1) (Z.to_nat (c_off c1)) with
      | None => Panic
      | Some lv => Ok (Some (lv, {| c_path := c_path c1; c_leaf := c_leaf c1;
                                    c_off := if desc then (c_off c1 - 1)%Z else (c_off c1 + 1)%Z |}))
      end
  end.

Definition past_end (s : rspec) (k : bytes) : bool :=
  if rs_desc s
  then blt k (rs_end s) || (beq (rs_end s) k && negb (rs_incl_end s))
  else blt (rs_end s) k || (beq (rs_end s) k && negb (rs_incl_end s)).

(* the outer `for` of Read/ReadBetween up to the point where a leaf value is accepted, iterated:
   the leaf values a reader accepts until ErrNoMoreEntries *)
Fixpoint scan (fuel : nat) (s : rspec) (c : cursor) (skipped : N) : res (list lval) :=
  match fuel with
  | O => Err EFuelIx
  | S f =>
      match cursor_next (rs_seek s) (rs_desc s) c with
      | Panic => Panic
      | Err e => Err e
      | Ok None => Ok []
      | Ok (Some (lv, c')) =>
          let k := lv_key lv in
          if negb (rs_incl_seek s) && beq (rs_seek s) k then scan f s c' skipped
          else if negb (is_nil (rs_end s)) && past_end s k then Ok []
          else if negb (is_nil (rs_prefix s)) && negb (has_prefix (rs_prefix s) k) then scan f s c' skipped
          else if skipped <? rs_offset s then scan f s c' (skipped + 1)
          else match scan f s c' skipped with
               | Ok rest => Ok (lv :: rest)
               | Err e => Err e
               | Panic => Panic
               end
      end
  end.

(* Read with IncludeHistory: history(key, hoff, desc, 1) for hoff = 0, 1, ... until ErrNoMoreEntries *)
Fixpoint hist_entries (fuel : nat) (lv : lval) (desc : bool) (hoff : N) : list entry :=
  match fuel with
  | O => []
  | S f =>
      match lv_history lv hoff desc 1 with
      | HOk ((v, t) :: _) hc =>
          (lv_key lv, v, t, if desc then hc - (hoff + 1) + 1 else hoff + 1)
            :: hist_entries f lv desc (hoff + 1)
      | _ => []
      end
  end.

Definition emit_lv (h0 : list tv) (mode : rmode) (desc : bool) (lv : lval) : list entry :=
  match mode with
  | RLatest => [(lv_key lv, fst (lv_latest lv), snd (lv_latest lv), lv_history_count lv)]
  | RHistory => hist_entries (S (N.to_nat (lv_history_count lv))) lv desc 0
  | RBetween i f => match lv_between h0 lv i f with
                    | Some (v, t, hc) => [(lv_key lv, v, t, hc)]
                    | None => []
                    end
  end.

(* everything a Reader with the (already adjusted) fields [s] returns until ErrNoMoreEntries *)
Definition read_all (h0 : list tv) (root : node) (s : rspec) (mode : rmode) : res (list entry) :=
  match find_leaf root (rs_seek s) [] 0 [] (rs_desc s) with
  | None => Ok []
  | Some (p, vs, i) =>
      match scan (S (length (flatten root))) s {| c_path := p; c_leaf := vs; c_off := Z.of_N i |} 0 with
      | Ok lvs => Ok (flat_map (emit_lv h0 mode (rs_desc s)) lvs)
      | Err e => Err e
      | Panic => Panic
      end
  end.

(* HistoryReader: Read() until an error, each Read returning at most readLimit versions *)
Fixpoint history_reads (fuel : nat) (n : node) (k : bytes) (off : N) (desc : bool) (limit : N)
  : list versions :=
  match fuel with
  | O => []
  | S f =>
      match history n k off desc limit with
      | HOk l _ => l :: history_reads f n k (off + N.of_nat (length l)) desc limit
      | _ => []
      end
  end.

(* abstraction: the multi-version map a tree denotes *)
Definition abs_lv (lv : lval) : bytes * versions := (lv_key lv, lv_all lv).
Definition abs (n : node) : mvmap := map abs_lv (flatten n).
