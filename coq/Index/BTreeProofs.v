(* Refinement proofs for the functional B-tree of BTree.v, part 1: the two binary searches,
   the leaf update, split, bulk insert and root growth refine the abstract map (MVMap), and they
   preserve the structural invariant [wfn] (no empty node, every node within the maximum size). *)
From V Require Import Index.MVMap Index.MVMapProofs Index.BTree.
From Coq Require Import ZifyN ZifyNat ZifyBool.

(* ---------- induction over the nested node type ---------- *)
Lemma node_ind' (P : node -> Prop) :
  (forall t vs, P (Leaf t vs)) ->
  (forall t cs, Forall P cs -> P (Inner t cs)) ->
  forall n, P n.
Proof.
  intros HL HI. fix IH 1. intros [t vs | t cs]; [apply HL|].
  apply HI. induction cs as [|c cs IHcs]; constructor; auto.
Qed.

Definition lkeys (l : list lval) : list bytes := map lv_key l.
Definition absl (l : list lval) : mvmap := map abs_lv l.
Definition flat (cs : list node) : list lval := flat_map flatten cs.

Lemma keys_absl l : keys (absl l) = lkeys l.
Proof. unfold keys, absl, lkeys. rewrite map_map. reflexivity. Qed.
Lemma absl_app a b : absl (a ++ b) = absl a ++ absl b.
Proof. apply map_app. Qed.
Lemma lkeys_app a b : lkeys (a ++ b) = lkeys a ++ lkeys b.
Proof. apply map_app. Qed.
Lemma flat_app a b : flat (a ++ b) = flat a ++ flat b.
Proof. apply flat_map_app. Qed.
Lemma flat_cons c r : flat (c :: r) = flatten c ++ flat r.
Proof. reflexivity. Qed.
Lemma flatten_inner t cs : flatten (Inner t cs) = flat cs.
Proof. reflexivity. Qed.
Lemma abs_eq n : abs n = absl (flatten n).
Proof. reflexivity. Qed.

(* ---------- the invariant ---------- *)
(* lv_ok: what validation guarantees of every stored entry *)
Definition lv_ok (maxkey maxval : N) (lv : lval) : Prop :=
  lv_tvs lv <> [] /\ lv_key lv <> [] /\ len (lv_key lv) <= maxkey /\ len (fst (lv_latest lv)) <= maxval /\
  Forall (fun b => b <> []) (lv_blocks lv).

Fixpoint wfn (maxn : N) (n : node) : Prop :=
  match n with
  | Leaf _ vs => vs <> [] /\ leaf_size vs <= maxn
  | Inner _ cs =>
      cs <> [] /\ inner_size cs <= maxn /\
      (fix all (l : list node) : Prop := match l with [] => True | c :: r => wfn maxn c /\ all r end) cs
  end.

Lemma wfn_inner maxn t cs :
  wfn maxn (Inner t cs) <-> cs <> [] /\ inner_size cs <= maxn /\ Forall (wfn maxn) cs.
Proof.
  cbn [wfn].
  assert (E : forall l, (fix all (l : list node) : Prop :=
                match l with [] => True | c :: r => wfn maxn c /\ all r end) l <-> Forall (wfn maxn) l).
  { induction l as [|c l IH]; split; intros H; auto.
    - destruct H; constructor; auto. apply IH; auto.
    - inversion H; subst; split; auto. apply IH; auto. }
  rewrite E. tauto.
Qed.

(* a well-formed node holds at least one entry and its min_key is the key of the first one *)
Lemma wfn_flatten maxn n : wfn maxn n -> exists lv r, flatten n = lv :: r /\ min_key n = lv_key lv.
Proof.
  induction n as [t vs | t cs IH] using node_ind'.
  - intros [H _]. destruct vs as [|lv r]; [congruence|]. exists lv, r; auto.
  - intros H. apply wfn_inner in H as (H1 & _ & H3).
    destruct cs as [|c cs]; [congruence|]. inversion IH; subst. inversion H3; subst.
    destruct (H2 H5) as (lv & r & E1 & E2). exists lv, (r ++ flat cs). split.
    + rewrite flatten_inner, flat_cons, E1. reflexivity.
    + simpl. exact E2.
Qed.

Lemma wfn_min_key_in maxn n : wfn maxn n -> In (min_key n) (lkeys (flatten n)).
Proof.
  intros H. destruct (wfn_flatten _ _ H) as (lv & r & E1 & E2). rewrite E1, E2. simpl; auto.
Qed.

(* in a sorted node every key is >= min_key *)
Lemma wfn_min_key_le maxn n x :
  wfn maxn n -> ssorted (lkeys (flatten n)) -> In x (lkeys (flatten n)) -> kle (min_key n) x.
Proof.
  intros H S Hx. destruct (wfn_flatten _ _ H) as (lv & r & E1 & E2). rewrite E1 in *. rewrite E2.
  simpl in Hx. destruct Hx as [<- | Hx]; [apply kle_refl|]. apply klt_kle. eapply ssorted_head_lt; eauto.
Qed.

(* ---------- sorted lists and positions ---------- *)
Lemma ssorted_nth {A} (f : A -> bytes) (l : list A) i j a b :
  ssorted (map f l) -> nth_error l i = Some a -> nth_error l j = Some b -> (i < j)%nat -> klt (f a) (f b).
Proof.
  revert i j. induction l as [|x l IH]; intros i j S Hi Hj L.
  - destruct i; discriminate.
  - destruct j as [|j]; [lia|]. destruct i as [|i]; simpl in *.
    + inversion Hi; subst. destruct S as [S _]. rewrite Forall_forall in S. apply S.
      apply in_map. eapply nth_error_In; eauto.
    + destruct S as [_ S]. eapply IH; eauto. lia.
Qed.

Lemma nth_error_split_at {A} (l : list A) i a :
  nth_error l i = Some a -> l = firstn i l ++ a :: skipn (S i) l.
Proof.
  revert i. induction l as [|x l IH]; intros [|i] H; simpl in *; try discriminate.
  - inversion H; reflexivity.
  - f_equal. auto.
Qed.

Lemma In_nth_error_iff {A} (l : list A) x : In x l <-> exists i, nth_error l i = Some x.
Proof. split; [apply In_nth_error | intros [i H]; eapply nth_error_In; eauto]. Qed.

Lemma in_firstn_nth {A} (l : list A) n x :
  In x (firstn n l) -> exists j, (j < n)%nat /\ nth_error l j = Some x.
Proof.
  revert n. induction l as [|a l IH]; intros [|n]; simpl; try tauto.
  intros [-> | H]. { exists O; split; [lia | reflexivity]. }
  destruct (IH _ H) as (j & Hj & E). exists (S j); split; [lia | exact E].
Qed.

Lemma in_skipn_nth {A} (l : list A) n x :
  In x (skipn n l) -> exists j, (n <= j)%nat /\ nth_error l j = Some x.
Proof.
  revert l. induction n as [|n IH]; intros l H.
  - rewrite skipn_O in H. apply In_nth_error in H as [j Hj]. exists j; split; [lia | exact Hj].
  - destruct l as [|a l]; [destruct H|]. simpl skipn in H.
    destruct (IH _ H) as (j & Hj & E). exists (S j); split; [lia | exact E].
Qed.

(* ---------- leafNode.indexOf ---------- *)
Definition leaf_pos_ok (vs : list lval) (k : bytes) (r : N * bool) : Prop :=
  let i := N.to_nat (fst r) in
  if snd r then exists lv, nth_error vs i = Some lv /\ lv_key lv = k
  else (i <= length vs)%nat /\
       forall j lv, nth_error vs j = Some lv ->
                    ((j < i)%nat -> klt (lv_key lv) k) /\ ((i <= j)%nat -> klt k (lv_key lv)).

Lemma leaf_bs_spec vs k : ssorted (lkeys vs) -> forall fuel left right,
  (N.to_nat right - N.to_nat left < fuel)%nat -> left <= right -> right <= N.of_nat (length vs) ->
  (forall j lv, nth_error vs j = Some lv -> (j < N.to_nat left)%nat -> klt (lv_key lv) k) ->
  (forall j lv, nth_error vs j = Some lv -> (N.to_nat right <= j)%nat -> klt k (lv_key lv)) ->
  leaf_pos_ok vs k (leaf_bs fuel vs k left right).
Proof.
  intros S. induction fuel as [|f IH]; intros left right Hf Hlr Hr HL HR; [lia|].
  cbn [leaf_bs]. destruct (N.ltb_spec left right) as [L | L].
  - set (middle := left + (right - left) / 2).
    assert (Hm : left <= middle < right) by (unfold middle; lia).
    destruct (nth_error vs (N.to_nat middle)) as [lv|] eqn:E.
    2:{ apply nth_error_None in E. lia. }
    destruct (bcmp (lv_key lv) k) eqn:C.
    + apply bcmp_eq in C. unfold leaf_pos_ok; simpl. exists lv; auto.
    + apply IH; try lia.
      * intros j lv' Hj Lj. destruct (Nat.eq_dec j (N.to_nat middle)) as [-> | Ne].
        { rewrite E in Hj; inversion Hj; subst; exact C. }
        eapply klt_trans; [|exact C].
        apply (ssorted_nth lv_key vs j (N.to_nat middle)); auto. lia.
      * exact HR.
    + apply bcmp_gt_lt in C. apply IH; try lia.
      * exact HL.
      * intros j lv' Hj Lj. destruct (Nat.eq_dec j (N.to_nat middle)) as [-> | Ne].
        { rewrite E in Hj; inversion Hj; subst; exact C. }
        eapply klt_trans; [exact C|].
        apply (ssorted_nth lv_key vs (N.to_nat middle) j); auto. lia.
  - assert (left = right) by lia. subst right. unfold leaf_pos_ok; simpl. split; [lia|].
    intros j lv Hj. split; intros; eauto.
Qed.

Lemma leaf_index_of_ok vs k : ssorted (lkeys vs) -> leaf_pos_ok vs k (leaf_index_of vs k).
Proof.
  intros S. unfold leaf_index_of. apply leaf_bs_spec; auto; try lia;
    intros j lv Hj Lj; exfalso;
    assert (j < length vs)%nat by (apply nth_error_Some; congruence); simpl in Lj; lia.
Qed.

(* decompositions that the position gives *)
Lemma leaf_found_split vs k i :
  ssorted (lkeys vs) -> leaf_index_of vs k = (i, true) ->
  exists lv, nth_error vs (N.to_nat i) = Some lv /\ lv_key lv = k /\
             vs = firstn (N.to_nat i) vs ++ lv :: skipn (S (N.to_nat i)) vs /\
             (forall x, In x (lkeys (firstn (N.to_nat i) vs)) -> klt x k) /\
             (forall y, In y (lkeys (skipn (S (N.to_nat i)) vs)) -> klt k y).
Proof.
  intros S E. pose proof (leaf_index_of_ok vs k S) as H. rewrite E in H.
  unfold leaf_pos_ok in H; simpl in H. destruct H as (lv & Hn & Hk).
  exists lv. repeat split; auto.
  - apply nth_error_split_at; auto.
  - intros x Hx. apply in_map_iff in Hx as (lv' & <- & Hin).
    apply in_firstn_nth in Hin as (j & Lj & Hj). subst k.
    apply (ssorted_nth lv_key vs j (N.to_nat i)); auto.
  - intros y Hy. apply in_map_iff in Hy as (lv' & <- & Hin).
    apply in_skipn_nth in Hin as (j & Lj & Hj). subst k.
    apply (ssorted_nth lv_key vs (N.to_nat i) j); auto.
Qed.

Lemma leaf_notfound_split vs k i :
  ssorted (lkeys vs) -> leaf_index_of vs k = (i, false) ->
  (forall x, In x (lkeys (firstn (N.to_nat i) vs)) -> klt x k) /\
  (forall y, In y (lkeys (skipn (N.to_nat i) vs)) -> klt k y).
Proof.
  intros S E. pose proof (leaf_index_of_ok vs k S) as H. rewrite E in H.
  unfold leaf_pos_ok in H; simpl in H. destruct H as (Hi & H). split.
  - intros x Hx. apply in_map_iff in Hx as (lv' & <- & Hin).
    apply in_firstn_nth in Hin as (j & Lj & Hj). apply (H j lv' Hj); auto.
  - intros y Hy. apply in_map_iff in Hy as (lv' & <- & Hin).
    apply in_skipn_nth in Hin as (j & Lj & Hj). apply (H j lv' Hj); auto.
Qed.

(* ---------- innerNode.indexOf ---------- *)
(* advance while the next child's min key is <= key *)
Fixpoint idx (cs : list node) (k : bytes) : nat :=
  match cs with
  | [] => O
  | _ :: r => match r with
              | [] => O
              | c2 :: _ => if ble (min_key c2) k then S (idx r k) else O
              end
  end.

Definition mkeys (cs : list node) : list bytes := map min_key cs.

Definition idx_ok (cs : list node) (k : bytes) (i : nat) : Prop :=
  (i < length cs \/ (i = O /\ cs = []))%nat /\
  forall j c, nth_error cs j = Some c ->
              ((0 < j <= i)%nat -> kle (min_key c) k) /\ ((i < j)%nat -> klt k (min_key c)).

Lemma inner_bs_spec cs k : ssorted (mkeys cs) -> forall fuel left right,
  (N.to_nat right - N.to_nat left < fuel)%nat -> left <= right -> right < N.of_nat (length cs) ->
  (forall j c, nth_error cs j = Some c -> (0 < j <= N.to_nat left)%nat -> kle (min_key c) k) ->
  (forall j c, nth_error cs j = Some c -> (N.to_nat right < j)%nat -> klt k (min_key c)) ->
  idx_ok cs k (N.to_nat (inner_bs fuel cs k left right)).
Proof.
  intros S. induction fuel as [|f IH]; intros left right Hf Hlr Hr HL HR; [lia|].
  cbn [inner_bs]. destruct (N.ltb_spec left right) as [L | L].
  - set (middle := left + (right - left) / 2 + 1).
    assert (Hm : left < middle <= right) by (unfold middle; lia).
    destruct (nth_error cs (N.to_nat middle)) as [c|] eqn:E.
    2:{ apply nth_error_None in E. lia. }
    destruct (bcmp (min_key c) k) eqn:C.
    + apply bcmp_eq in C. split; [lia|]. intros j c' Hj. split; intros Lj.
      * destruct (Nat.eq_dec j (N.to_nat middle)) as [-> | Ne].
        { rewrite E in Hj; inversion Hj; subst. apply kle_refl. }
        subst k. apply klt_kle. apply (ssorted_nth min_key cs j (N.to_nat middle)); auto. lia.
      * subst k. apply (ssorted_nth min_key cs (N.to_nat middle) j); auto.
    + apply IH; try lia.
      * intros j c' Hj Lj. destruct (Nat.eq_dec j (N.to_nat middle)) as [-> | Ne].
        { rewrite E in Hj; inversion Hj; subst. apply klt_kle; exact C. }
        apply klt_kle. eapply klt_trans; [|exact C].
        apply (ssorted_nth min_key cs j (N.to_nat middle)); auto. lia.
      * exact HR.
    + apply bcmp_gt_lt in C. apply IH; try lia.
      * exact HL.
      * intros j c' Hj Lj. destruct (Nat.eq_dec j (N.to_nat middle)) as [-> | Ne].
        { rewrite E in Hj; inversion Hj; subst; exact C. }
        eapply klt_trans; [exact C|].
        apply (ssorted_nth min_key cs (N.to_nat middle) j); auto. lia.
  - assert (left = right) by lia. subst right. split; [lia|].
    intros j c Hj. split; intros; eauto.
Qed.

Lemma inner_index_of_ok cs k : ssorted (mkeys cs) -> idx_ok cs k (N.to_nat (inner_index_of cs k)).
Proof.
  intros S. unfold inner_index_of. destruct cs as [|c0 cs].
  - simpl. split; [right; auto|]. intros j c Hj. destruct j; discriminate.
  - apply inner_bs_spec; auto; try (cbn [length]; lia).
    intros j c Hj Lj; exfalso.
    assert (j < length (c0 :: cs))%nat by (apply nth_error_Some; congruence).
    cbn [length] in *. lia.
Qed.

Lemma idx_cons2 c c2 r k :
  idx (c :: c2 :: r) k = if ble (min_key c2) k then S (idx (c2 :: r) k) else O.
Proof. reflexivity. Qed.

Lemma idx_is_ok cs k : ssorted (mkeys cs) -> idx_ok cs k (idx cs k).
Proof.
  induction cs as [|c cs IH]; intros Hs.
  - split; [right; auto|]. intros j c Hj. destruct j; discriminate.
  - destruct cs as [|c2 cs].
    + simpl. split; [left; simpl; lia|]. intros j c' Hj. destruct j as [|[|j]]; simpl in Hj; try discriminate.
      split; intros; lia.
    + rewrite idx_cons2. destruct (ble (min_key c2) k) eqn:E.
      * apply ble_iff in E. destruct (IH (ssorted_cons_inv _ _ Hs)) as [H1 H2]. split.
        { left. cbn [length] in *. destruct H1 as [H1 | [_ H1]]; [lia | discriminate]. }
        intros j c' Hj. destruct j as [|j]; [split; intros; lia|].
        simpl in Hj. destruct (H2 j c' Hj) as [H3 H4]. split; intros Lj.
        { destruct j as [|j]; [simpl in Hj; inversion Hj; subst; auto | apply H3; lia]. }
        { apply H4; lia. }
      * apply ble_false in E. split; [left; simpl; lia|].
        intros j c' Hj. split; intros Lj; [lia|].
        destruct j as [|[|j]]; [lia| simpl in Hj; inversion Hj; subst; auto |].
        eapply klt_trans; [exact E|].
        apply (ssorted_nth min_key (c :: c2 :: cs) 1 (S (S j))); auto. lia.
Qed.

Lemma idx_ok_unique cs k i j : idx_ok cs k i -> idx_ok cs k j -> i = j.
Proof.
  intros [A1 A2] [B1 B2].
  destruct (Nat.lt_trichotomy i j) as [L | [E | L]]; auto; exfalso.
  - destruct B1 as [B1 | [-> _]]; [|lia].
    destruct (nth_error cs j) as [c|] eqn:E; [|apply nth_error_None in E; lia].
    destruct (A2 j c E) as [_ H1]. destruct (B2 j c E) as [H2 _].
    eapply kle_not_klt; [apply H2; lia | apply H1; lia].
  - destruct A1 as [A1 | [-> _]]; [|lia].
    destruct (nth_error cs i) as [c|] eqn:E; [|apply nth_error_None in E; lia].
    destruct (B2 i c E) as [_ H1]. destruct (A2 i c E) as [H2 _].
    eapply kle_not_klt; [apply H2; lia | apply H1; lia].
Qed.

Lemma inner_index_of_idx cs k : ssorted (mkeys cs) -> inner_index_of cs k = N.of_nat (idx cs k).
Proof.
  intros S. pose proof (idx_ok_unique _ _ _ _ (inner_index_of_ok cs k S) (idx_is_ok cs k S)). lia.
Qed.

(* ---------- leafNode.updateOnInsert refines mv_put ---------- *)
Definition kvt_ok (maxkey maxval : N) (e : kvt) : Prop :=
  kvt_key e <> [] /\ len (kvt_key e) <= maxkey /\ len (kvt_val e) <= maxval.

Lemma lv_all_latest lv : lv_tvs lv <> [] -> exists r, lv_all lv = lv_latest lv :: r.
Proof.
  unfold lv_all, lv_latest. destruct (lv_tvs lv) as [|x r]; [congruence|]. intros _.
  exists (r ++ concat (lv_blocks lv)). reflexivity.
Qed.

Lemma leaf_put_spec maxkey maxval vs e :
  ssorted (lkeys vs) -> Forall (lv_ok maxkey maxval) vs -> kvt_ok maxkey maxval e ->
  match leaf_put vs e with
  | None => mv_put e (absl vs) = None
  | Some vs' => mv_put e (absl vs) = Some (absl vs') /\ Forall (lv_ok maxkey maxval) vs' /\ vs' <> []
  end.
Proof.
  intros Hs Hok He. destruct e as [[k v] t]. unfold leaf_put.
  destruct (leaf_index_of vs k) as [i found] eqn:E. destruct found.
  - destruct (leaf_found_split vs k i Hs E) as (lv & Hn & Hk & Hsplit & Hpre & Hpost).
    rewrite Hn.
    set (pre := firstn (N.to_nat i) vs) in *. set (post := skipn (S (N.to_nat i)) vs) in *.
    assert (Hlv : lv_ok maxkey maxval lv).
    { rewrite Forall_forall in Hok. apply Hok. eapply nth_error_In; eauto. }
    destruct (lv_all_latest lv (proj1 Hlv)) as (rest & Hall).
    assert (Hput : mv_put (k, v, t) (absl vs) =
                   match mv_put (k, v, t) (absl (lv :: post)) with
                   | Some b' => Some (absl pre ++ b') | None => None end).
    { rewrite Hsplit at 1. rewrite absl_app. apply mv_put_app_r.
      intros x Hx. rewrite keys_absl in Hx. apply Hpre; auto. }
    destruct (lv_latest lv) as [v0 t0] eqn:EL. cbn [snd].
    assert (Habs : absl (lv :: post) = (k, (v0, t0) :: rest) :: absl post).
    { cbn [absl map]. unfold abs_lv at 1. rewrite Hk, Hall. reflexivity. }
    rewrite Hput, Habs. cbn [mv_put]. rewrite bcmp_refl.
    destruct (t <? t0) eqn:E1; auto. destruct (t0 <? t) eqn:E2.
    + split; [|split].
      * assert (Hnew : abs_lv {| lv_key := lv_key lv; lv_tvs := (v, t) :: lv_tvs lv; lv_blocks := lv_blocks lv |}
                       = (k, (v, t) :: (v0, t0) :: rest)).
        { unfold abs_lv, lv_all; cbn [lv_key lv_tvs lv_blocks]. unfold lv_all in Hall.
          rewrite Hk. cbn [app]. rewrite Hall. reflexivity. }
        rewrite absl_app. cbn [absl map]. rewrite Hnew. reflexivity.
      * rewrite Hsplit in Hok. apply Forall_app in Hok as [Ho1 Ho2].
        apply Forall_cons_iff in Ho2 as [Ho2 Ho3].
        apply Forall_app; split; auto. constructor; auto.
        destruct Hlv as (L1 & L2 & L3 & L4 & L5). destruct He as (K1 & K2 & K3).
        unfold kvt_key, kvt_val in *; cbn [fst snd] in *.
        unfold lv_ok, lv_latest; cbn [lv_key lv_tvs lv_blocks fst]. repeat split; auto; discriminate.
      * destruct pre; discriminate.
    + split; [|split]; auto.
      * rewrite Hsplit at 1. rewrite absl_app, Habs. reflexivity.
      * destruct vs; [destruct (N.to_nat i); discriminate | discriminate].
  - destruct (leaf_notfound_split vs k i Hs E) as (Hpre & Hpost).
    set (pre := firstn (N.to_nat i) vs) in *. set (post := skipn (N.to_nat i) vs) in *.
    assert (Hsplit : vs = pre ++ post) by (symmetry; apply firstn_skipn).
    assert (Hput : mv_put (k, v, t) (absl vs) =
                   match mv_put (k, v, t) (absl post) with
                   | Some b' => Some (absl pre ++ b') | None => None end).
    { rewrite Hsplit at 1. rewrite absl_app. apply mv_put_app_r.
      intros x Hx. rewrite keys_absl in Hx. apply Hpre; auto. }
    rewrite Hput.
    assert (Hp : mv_put (k, v, t) (absl post) = Some ((k, [(v, t)]) :: absl post)).
    { destruct post as [|lv' post'] eqn:EP; [reflexivity|].
      cbn [absl map mv_put]. unfold abs_lv at 1. cbn [fst].
      assert (L : klt k (lv_key lv')) by (apply Hpost; simpl; auto).
      unfold klt in L. rewrite L. reflexivity. }
    rewrite Hp. split; [|split].
    + rewrite absl_app. reflexivity.
    + rewrite Hsplit in Hok. apply Forall_app in Hok as [Ho1 Ho2].
      apply Forall_app; split; auto. constructor; auto.
      destruct He as (K1 & K2 & K3). unfold kvt_key, kvt_val in *; cbn [fst snd] in *.
      unfold lv_ok, lv_latest; cbn [lv_key lv_tvs lv_blocks fst]. repeat split; auto; discriminate.
    + destruct pre; discriminate.
Qed.

Lemma leaf_puts_spec maxkey maxval kvts : forall vs,
  ssorted (lkeys vs) -> Forall (lv_ok maxkey maxval) vs -> Forall (kvt_ok maxkey maxval) kvts ->
  match leaf_puts vs kvts with
  | None => mv_insert kvts (absl vs) = None
  | Some vs' => mv_insert kvts (absl vs) = Some (absl vs') /\ Forall (lv_ok maxkey maxval) vs' /\
                (vs <> [] \/ kvts <> [] -> vs' <> [])
  end.
Proof.
  induction kvts as [|e r IH]; intros vs Hs Hok Hk.
  - simpl. repeat split; auto. intros [H | H]; auto.
  - inversion Hk; subst. cbn [leaf_puts mv_insert].
    pose proof (leaf_put_spec maxkey maxval vs e Hs Hok H1) as P.
    destruct (leaf_put vs e) as [vs1|].
    + destruct P as (P1 & P2 & P3). rewrite P1.
      assert (Hs1 : ssorted (lkeys vs1)).
      { rewrite <- keys_absl. eapply mv_put_wf; [|exact P1]. unfold mv_wf. rewrite keys_absl. exact Hs. }
      specialize (IH vs1 Hs1 P2 H2). destruct (leaf_puts vs1 r) as [vs'|]; auto.
      destruct IH as (I1 & I2 & I3). repeat split; auto.
    + rewrite P. reflexivity.
Qed.

(* ---------- sizes and split ---------- *)
Definition cfg_sizes (maxn maxkey maxval : N) : Prop := required_node_size maxkey maxval <= maxn.

Lemma cfg_sizes_inv maxn maxkey maxval :
  cfg_sizes maxn maxkey maxval -> 2 * (29 + maxkey) <= maxn /\ 31 + maxkey + maxval <= maxn.
Proof. unfold cfg_sizes, required_node_size. lia. Qed.

Lemma leaf_size_cons lv vs : leaf_size (lv :: vs) = lv_size lv + leaf_size vs.
Proof. reflexivity. Qed.
Lemma inner_size_cons c cs : inner_size (c :: cs) = ref_size c + inner_size cs.
Proof. reflexivity. Qed.

Lemma lv_size_bound maxkey maxval lv : lv_ok maxkey maxval lv -> lv_size lv <= 28 + maxkey + maxval.
Proof. intros (_ & _ & H1 & H2 & _). unfold lv_size. lia. Qed.

Lemma split_index_range n : 2 <= n -> 1 <= split_index n /\ split_index n <= n - 1.
Proof.
  intros H. unfold split_index. destruct (N.eqb_spec (n mod 2) 0); lia.
Qed.

Lemma Forall_firstn {A} (P : A -> Prop) n l : Forall P l -> Forall P (firstn n l).
Proof.
  intros H. rewrite Forall_forall in *. intros x Hx. apply H.
  apply in_firstn_nth in Hx as (j & _ & Hj). eapply nth_error_In; eauto.
Qed.
Lemma Forall_skipn {A} (P : A -> Prop) n l : Forall P l -> Forall P (skipn n l).
Proof.
  intros H. rewrite Forall_forall in *. intros x Hx. apply H.
  apply in_skipn_nth in Hx as (j & _ & Hj). eapply nth_error_In; eauto.
Qed.

Lemma split_leaf_spec maxn maxkey maxval : cfg_sizes maxn maxkey maxval ->
  forall fuel ts vs, (length vs <= fuel)%nat -> vs <> [] -> Forall (lv_ok maxkey maxval) vs ->
  flat (split_leaf fuel maxn ts vs) = vs /\ Forall (wfn maxn) (split_leaf fuel maxn ts vs) /\
  split_leaf fuel maxn ts vs <> [].
Proof.
  intros C. apply cfg_sizes_inv in C as [C1 C2].
  induction fuel as [|f IH]; intros ts vs Hf Hne Hok.
  - destruct vs; [congruence | simpl in Hf; lia].
  - cbn [split_leaf]. destruct (N.leb_spec (leaf_size vs) maxn) as [L | L].
    + repeat split; try discriminate.
      * simpl. apply app_nil_r.
      * constructor; [|constructor]. simpl. auto.
    + assert (H2 : (2 <= length vs)%nat).
      { destruct vs as [|lv [|lv2 vs]]; [congruence | | simpl; lia].
        exfalso. inversion Hok; subst. pose proof (lv_size_bound _ _ _ H1).
        rewrite leaf_size_cons in L. simpl in L. lia. }
      pose proof (split_index_range (N.of_nat (length vs)) ltac:(lia)) as [R1 R2].
      set (i := N.to_nat (split_index (N.of_nat (length vs)))) in *.
      assert (Hi : (1 <= i <= length vs - 1)%nat) by (unfold i; lia).
      destruct (IH (leaf_max_ts (firstn i vs)) (firstn i vs)) as (A1 & A2 & A3).
      { rewrite firstn_length. lia. }
      { intros E. apply (f_equal (@length lval)) in E. rewrite firstn_length in E. simpl in E. lia. }
      { apply Forall_firstn; auto. }
      destruct (IH (leaf_max_ts (skipn i vs)) (skipn i vs)) as (B1 & B2 & B3).
      { rewrite skipn_length. lia. }
      { intros E. apply (f_equal (@length lval)) in E. rewrite skipn_length in E. simpl in E. lia. }
      { apply Forall_skipn; auto. }
      repeat split.
      * rewrite flat_app, A1, B1. apply firstn_skipn.
      * apply Forall_app; auto.
      * intros E. apply app_eq_nil in E as [E _]. auto.
Qed.

Lemma ref_size_bound maxn maxkey maxval c :
  wfn maxn c -> Forall (lv_ok maxkey maxval) (flatten c) -> ref_size c <= 26 + maxkey.
Proof.
  intros W Hok. pose proof (wfn_min_key_in _ _ W) as Hin.
  apply in_map_iff in Hin as (lv & E & Hlv). rewrite Forall_forall in Hok.
  destruct (Hok lv Hlv) as (_ & _ & H & _). unfold ref_size. rewrite <- E. lia.
Qed.

Lemma Forall_flat_in {P : lval -> Prop} cs c : Forall P (flat cs) -> In c cs -> Forall P (flatten c).
Proof.
  intros H Hin. rewrite Forall_forall in *. intros x Hx. apply H.
  unfold flat. apply in_flat_map. exists c; auto.
Qed.

Lemma flat_firstn_skipn i cs : flat (firstn i cs) ++ flat (skipn i cs) = flat cs.
Proof. rewrite <- flat_app, firstn_skipn. reflexivity. Qed.

Lemma split_inner_spec maxn maxkey maxval : cfg_sizes maxn maxkey maxval ->
  forall fuel ts cs, (length cs <= fuel)%nat -> cs <> [] -> Forall (wfn maxn) cs ->
  Forall (lv_ok maxkey maxval) (flat cs) ->
  flat (split_inner fuel maxn ts cs) = flat cs /\ Forall (wfn maxn) (split_inner fuel maxn ts cs) /\
  split_inner fuel maxn ts cs <> [].
Proof.
  intros C. apply cfg_sizes_inv in C as [C1 C2].
  induction fuel as [|f IH]; intros ts cs Hf Hne Hw Hok.
  - destruct cs; [congruence | simpl in Hf; lia].
  - cbn [split_inner]. destruct (N.leb_spec (inner_size cs) maxn) as [L | L].
    + repeat split; try discriminate.
      * simpl. apply app_nil_r.
      * constructor; [|constructor]. apply wfn_inner. auto.
    + assert (H2 : (3 <= length cs)%nat).
      { destruct cs as [|c1 [|c2 [|c3 cs]]]; [congruence | | | simpl; lia]; exfalso.
        - inversion Hw; subst.
          pose proof (ref_size_bound maxn maxkey maxval c1 H1 (Forall_flat_in _ _ Hok (or_introl eq_refl))).
          rewrite inner_size_cons in L. simpl in L. lia.
        - inversion Hw as [|? ? W1 W2]; subst. inversion W2 as [|? ? W3 W4]; subst.
          pose proof (ref_size_bound maxn maxkey maxval c1 W1 (Forall_flat_in _ _ Hok (or_introl eq_refl))).
          pose proof (ref_size_bound maxn maxkey maxval c2 W3
                        (Forall_flat_in _ _ Hok (or_intror (or_introl eq_refl)))).
          rewrite !inner_size_cons in L. simpl in L. lia. }
      pose proof (split_index_range (N.of_nat (length cs)) ltac:(lia)) as [R1 R2].
      set (i := N.to_nat (split_index (N.of_nat (length cs)))) in *.
      assert (Hi : (1 <= i <= length cs - 1)%nat) by (unfold i; lia).
      pose proof (flat_firstn_skipn i cs) as FS.
      assert (Hok' : Forall (lv_ok maxkey maxval) (flat (firstn i cs)) /\
                     Forall (lv_ok maxkey maxval) (flat (skipn i cs))).
      { rewrite <- FS in Hok. apply Forall_app in Hok. exact Hok. }
      destruct (IH (nodes_max_ts (firstn i cs)) (firstn i cs)) as (A1 & A2 & A3).
      { rewrite firstn_length. lia. }
      { intros E. apply (f_equal (@length node)) in E. rewrite firstn_length in E. simpl in E. lia. }
      { apply Forall_firstn; auto. }
      { tauto. }
      destruct (IH (nodes_max_ts (skipn i cs)) (skipn i cs)) as (B1 & B2 & B3).
      { rewrite skipn_length. lia. }
      { intros E. apply (f_equal (@length node)) in E. rewrite skipn_length in E. simpl in E. lia. }
      { apply Forall_skipn; auto. }
      { tauto. }
      repeat split.
      * rewrite flat_app, A1, B1. exact FS.
      * apply Forall_app; auto.
      * intros E. apply app_eq_nil in E as [E _]. auto.
Qed.

(* ---------- bulk insert ---------- *)
(* the per-child loop of innerNode.updateOnInsert, as a top-level function (same body) *)
Definition go_ins (maxn : N) (cs : list node) (kvts : list kvt) : list node -> N -> option (list node * N) :=
  fix go (l : list node) (i : N) {struct l} : option (list node * N) :=
  match l with
  | [] => Some ([], 0)
  | c :: r =>
      let g := filter (fun e => inner_index_of cs (kvt_key e) =? i) kvts in
      match (match g with
             | [] => Some ([c], 0)
             | _ :: _ => match insert maxn c g with
                         | None => None
                         | Some ns => Some (ns, nodes_max_ts ns)
                         end
             end), go r (i + 1) with
      | Some (ns, t1), Some (rest, t2) => Some (ns ++ rest, N.max t1 t2)
      | _, _ => None
      end
  end.

Lemma go_ins_nil maxn cs kvts i : go_ins maxn cs kvts [] i = Some ([], 0).
Proof. reflexivity. Qed.
Lemma go_ins_cons maxn cs kvts c r i :
  go_ins maxn cs kvts (c :: r) i =
  let g := filter (fun e => inner_index_of cs (kvt_key e) =? i) kvts in
  match (match g with
         | [] => Some ([c], 0)
         | _ :: _ => match insert maxn c g with
                     | None => None
                     | Some ns => Some (ns, nodes_max_ts ns)
                     end
         end), go_ins maxn cs kvts r (i + 1) with
  | Some (ns, t1), Some (rest, t2) => Some (ns ++ rest, N.max t1 t2)
  | _, _ => None
  end.
Proof. reflexivity. Qed.

Lemma insert_inner_eq maxn ts cs kvts :
  insert maxn (Inner ts cs) kvts =
  match go_ins maxn cs kvts cs 0 with
  | None => None
  | Some (ncs, t') => Some (split_inner (length ncs) maxn (N.max ts t') ncs)
  end.
Proof. reflexivity. Qed.

Lemma mkeys_sorted maxn cs :
  Forall (wfn maxn) cs -> ssorted (lkeys (flat cs)) -> ssorted (mkeys cs).
Proof.
  induction cs as [|c cs IH]; intros W Hs; [exact I|].
  inversion W as [|? ? W1 W2]; subst. rewrite flat_cons, lkeys_app in Hs.
  apply ssorted_app in Hs as (S1 & S2 & S3). split; [|apply IH; auto].
  apply Forall_forall. intros x Hx. apply in_map_iff in Hx as (c' & <- & Hc').
  apply S3; [eapply wfn_min_key_in; eauto|].
  rewrite Forall_forall in W2. pose proof (wfn_min_key_in _ _ (W2 c' Hc')) as Hin.
  apply in_map_iff in Hin as (lv & E & Hlv). rewrite <- E. apply in_map.
  unfold flat. apply in_flat_map. exists c'; auto.
Qed.

Definition tree_ok (maxn maxkey maxval : N) (n : node) : Prop :=
  ssorted (lkeys (flatten n)) /\ Forall (lv_ok maxkey maxval) (flatten n).

Definition ins_post (maxn maxkey maxval : N) (m : mvmap) (kvts : list kvt) (r : option (list node)) : Prop :=
  match r with
  | None => mv_insert kvts m = None
  | Some ns => mv_insert kvts m = Some (absl (flat ns)) /\ Forall (wfn maxn) ns /\ ns <> [] /\
               Forall (lv_ok maxkey maxval) (flat ns)
  end.

Lemma filter_sub {A} (P : A -> Prop) f (l : list A) : Forall P l -> Forall P (filter f l).
Proof.
  intros H. rewrite Forall_forall in *. intros x Hx. apply filter_In in Hx as [Hx _]. auto.
Qed.

Lemma filter_filter {A} (f g : A -> bool) l : filter f (filter g l) = filter (fun x => g x && f x) l.
Proof.
  induction l as [|x l IH]; simpl; auto. destruct (g x); simpl; [destruct (f x)|]; rewrite IH; auto.
Qed.

Lemma filter_true {A} (f : A -> bool) l : (forall x, In x l -> f x = true) -> filter f l = l.
Proof.
  induction l as [|x l IH]; simpl; auto. intros H. rewrite (H x (or_introl eq_refl)). f_equal.
  apply IH. intros; apply H; auto.
Qed.

Lemma filter_false {A} (f : A -> bool) l : (forall x, In x l -> f x = false) -> filter f l = [].
Proof.
  induction l as [|x l IH]; simpl; auto. intros H. rewrite (H x (or_introl eq_refl)).
  apply IH. intros; apply H; auto.
Qed.

Lemma blt_negb_ble a b : blt a b = negb (ble b a).
Proof. unfold blt, ble. rewrite (bcmp_antisym a b). destruct (bcmp a b); reflexivity. Qed.

Section InsertProof.
  Variables maxn maxkey maxval : N.
  Hypothesis C : cfg_sizes maxn maxkey maxval.

  Definition ins_stmt (n : node) : Prop :=
    forall kvts, kvts <> [] -> Forall (kvt_ok maxkey maxval) kvts ->
                 ins_post maxn maxkey maxval (abs n) kvts (insert maxn n kvts).

  (* what happens at one child *)
  Lemma child_part c g :
    wfn maxn c -> ins_stmt c -> Forall (lv_ok maxkey maxval) (flatten c) ->
    Forall (kvt_ok maxkey maxval) g ->
    match (match g with
           | [] => Some ([c], 0)
           | _ :: _ => match insert maxn c g with
                       | None => None
                       | Some ns => Some (ns, nodes_max_ts ns)
                       end
           end) with
    | None => mv_insert g (abs c) = None
    | Some (ns, _) => mv_insert g (abs c) = Some (absl (flat ns)) /\ Forall (wfn maxn) ns /\ ns <> [] /\
                      Forall (lv_ok maxkey maxval) (flat ns)
    end.
  Proof.
    intros W St Ok Hg. destruct g as [|e g'].
    - simpl. unfold flat; simpl. rewrite app_nil_r. repeat split; auto; discriminate.
    - specialize (St (e :: g') ltac:(discriminate) Hg). unfold ins_post in St.
      destruct (insert maxn c (e :: g')) as [ns|]; auto.
  Qed.

  Lemma go_ins_spec cs kvts : Forall (kvt_ok maxkey maxval) kvts ->
    forall l i, l <> [] ->
    (forall e, In e kvts -> i <= inner_index_of cs (kvt_key e) ->
               inner_index_of cs (kvt_key e) = i + N.of_nat (idx l (kvt_key e))) ->
    Forall (fun c => wfn maxn c /\ ins_stmt c) l ->
    ssorted (lkeys (flat l)) -> Forall (lv_ok maxkey maxval) (flat l) ->
    match go_ins maxn cs kvts l i with
    | None => mv_insert (filter (fun e => i <=? inner_index_of cs (kvt_key e)) kvts) (absl (flat l)) = None
    | Some (ns, _) =>
        mv_insert (filter (fun e => i <=? inner_index_of cs (kvt_key e)) kvts) (absl (flat l))
        = Some (absl (flat ns)) /\ Forall (wfn maxn) ns /\ ns <> [] /\ Forall (lv_ok maxkey maxval) (flat ns)
    end.
  Proof.
    intros Hk. induction l as [|c r IH]; intros i Hne Hidx HP Hs Hok; [congruence|].
    apply Forall_cons_iff in HP as [[Wc Stc] HPr].
    rewrite flat_cons in Hs, Hok. rewrite lkeys_app in Hs.
    apply ssorted_app in Hs as (S1 & S2 & S3). apply Forall_app in Hok as [Ok1 Ok2].
    set (g := filter (fun e => inner_index_of cs (kvt_key e) =? i) kvts).
    pose proof (child_part c g Wc Stc Ok1 (filter_sub _ _ _ Hk)) as CP.
    rewrite go_ins_cons. cbv zeta. fold g.
    destruct r as [|c2 r'].
    - (* last child *)
      rewrite go_ins_nil.
      assert (EK : filter (fun e => i <=? inner_index_of cs (kvt_key e)) kvts = g).
      { unfold g. apply filter_ext_in. intros e He.
        destruct (N.leb_spec i (inner_index_of cs (kvt_key e))) as [L | L].
        - pose proof (Hidx e He L) as E. simpl in E.  symmetry. apply N.eqb_eq. lia.
        - symmetry. apply N.eqb_neq. lia. }
      assert (Ef : flat [c] = flatten c) by (unfold flat; simpl; apply app_nil_r).
      rewrite EK, Ef.
      destruct (match g with [] => Some ([c], 0) | _ :: _ => _ end) as [[ns t1]|]; [|exact CP].
      rewrite app_nil_r. exact CP.
    - (* a further child c2: the boundary is its min key *)
      set (s := min_key c2).
      apply Forall_cons_iff in HPr as [[Wc2 Stc2] HPr'].
      destruct (wfn_flatten _ _ Wc2) as (lv2 & rest2 & F2 & M2).
      assert (Hleft : forall x, In x (keys (abs c)) -> klt x s).
      { intros x Hx. rewrite abs_eq, keys_absl in Hx. apply S3; auto.
        rewrite flat_cons, F2. simpl. left. symmetry. exact M2. }
      assert (Hright : forall y, In y (keys (absl (flat (c2 :: r')))) -> kle s y).
      { intros y Hy. rewrite keys_absl in Hy. rewrite flat_cons, F2 in Hy, S2.
        unfold lkeys in Hy, S2. cbn [map app] in Hy, S2. destruct Hy as [<- | Hy].
        - unfold s. rewrite M2. apply kle_refl.
        - apply klt_kle. unfold s. rewrite M2. exact (ssorted_head_lt _ _ _ S2 Hy). }
      assert (Hcase : forall e, In e kvts -> i <= inner_index_of cs (kvt_key e) ->
                (ble s (kvt_key e) = true /\ inner_index_of cs (kvt_key e) = i + 1 + N.of_nat (idx (c2 :: r') (kvt_key e))) \/
                (ble s (kvt_key e) = false /\ inner_index_of cs (kvt_key e) = i)).
      { intros e He L. pose proof (Hidx e He L) as E.  rewrite idx_cons2 in E. fold s in E.
        destruct (ble s (kvt_key e)); [left | right]; split; auto; lia. }
      assert (EL : filter (below s) (filter (fun e => i <=? inner_index_of cs (kvt_key e)) kvts) = g).
      { rewrite filter_filter. unfold g. apply filter_ext_in. intros e He. unfold below.
        rewrite blt_negb_ble.
        destruct (N.leb_spec i (inner_index_of cs (kvt_key e))) as [L | L]; cbn [andb].
        - destruct (Hcase e He L) as [[B E] | [B E]]; rewrite B; cbn [negb]; symmetry.
          + apply N.eqb_neq. lia.
          + apply N.eqb_eq. lia.
        - symmetry. apply N.eqb_neq. lia. }
      assert (ER : filter (fun e => negb (below s e)) (filter (fun e => i <=? inner_index_of cs (kvt_key e)) kvts)
                   = filter (fun e => i + 1 <=? inner_index_of cs (kvt_key e)) kvts).
      { rewrite filter_filter. apply filter_ext_in. intros e He. unfold below.
        rewrite blt_negb_ble, negb_involutive.
        destruct (N.leb_spec i (inner_index_of cs (kvt_key e))) as [L | L]; cbn [andb].
        - destruct (Hcase e He L) as [[B E] | [B E]]; rewrite B; symmetry.
          + apply N.leb_le. lia.
          + apply N.leb_gt. lia.
        - symmetry. apply N.leb_gt. lia. }
      rewrite flat_cons, absl_app. rewrite <- abs_eq.
      rewrite (mv_insert_split s _ (abs c) (absl (flat (c2 :: r'))) Hleft Hright).
      rewrite EL, ER.
      specialize (IH (i + 1) ltac:(discriminate)).
      assert (Hidx' : forall e, In e kvts -> i + 1 <= inner_index_of cs (kvt_key e) -> inner_index_of cs (kvt_key e) = i + 1 + N.of_nat (idx (c2 :: r') (kvt_key e))).
      { intros e He L. destruct (Hcase e He ltac:(lia)) as [[B E] | [B E]]; [exact E | lia]. }
      specialize (IH Hidx' (Forall_cons _ (conj Wc2 Stc2) HPr') S2 Ok2). 
      destruct (match g with [] => Some ([c], 0) | _ :: _ => _ end) as [[ns t1]|].
      + destruct CP as (P1 & P2 & P3 & P4). rewrite P1.
        destruct (go_ins maxn cs kvts (c2 :: r') (i + 1)) as [[rest t2]|].
        * destruct IH as (I1 & I2 & I3 & I4). rewrite I1. repeat split.
          { rewrite flat_app, absl_app. reflexivity. }
          { apply Forall_app; auto. }
          { intros E. apply app_eq_nil in E as [E _]. auto. }
          { rewrite flat_app. apply Forall_app; auto. }
        * rewrite IH. reflexivity.
      + rewrite CP. reflexivity.
  Qed.

  Lemma insert_spec n :
    (wfn maxn n \/ exists t, n = Leaf t []) -> tree_ok maxn maxkey maxval n -> ins_stmt n.
  Proof.
    induction n as [t vs | t cs IH] using node_ind'; intros W [Hs Hok] kvts Hne Hk; unfold ins_post.
    - cbn [insert]. cbn [flatten] in Hs, Hok.
      pose proof (leaf_puts_spec maxkey maxval kvts vs Hs Hok Hk) as P. rewrite abs_eq. cbn [flatten].
      destruct (leaf_puts vs kvts) as [vs'|]; auto.
      destruct P as (P1 & P2 & P3).
      destruct (split_leaf_spec maxn maxkey maxval C (length vs') (N.max t (kvts_max_ts kvts)) vs')
        as (A1 & A2 & A3); auto.
      rewrite A1. repeat split; auto.
    - rewrite insert_inner_eq.
      destruct W as [W | [t' E]]; [|discriminate]. apply wfn_inner in W as (W1 & W2 & W3).
      cbn [flatten] in Hs, Hok. fold (flat cs) in Hs, Hok.
      pose proof (mkeys_sorted maxn cs W3 Hs) as Hm.
      assert (HP : Forall (fun c => wfn maxn c /\ ins_stmt c) cs).
      { rewrite Forall_forall in *. intros c Hc. split; auto. apply IH; auto.
        split.
        - clear - Hs Hc. induction cs as [|c0 cs IHcs]; [destruct Hc|].
          rewrite flat_cons, lkeys_app in Hs. apply ssorted_app in Hs as (S1 & S2 & _).
          destruct Hc as [-> | Hc]; auto.
        - rewrite Forall_forall. intros x Hx. apply Hok. unfold flat. apply in_flat_map. exists c; auto. }
      pose proof (go_ins_spec cs kvts Hk cs 0 W1) as G.
      assert (EK : filter (fun e => 0 <=? inner_index_of cs (kvt_key e)) kvts = kvts).
      { apply filter_true. intros; apply N.leb_le; lia. }
      rewrite EK in G.
      specialize (G ltac:(intros e He _; rewrite (inner_index_of_idx cs _ Hm); lia) HP Hs Hok).
      rewrite abs_eq. cbn [flatten]. fold (flat cs).
      destruct (go_ins maxn cs kvts cs 0) as [[ncs t']|]; auto.
      destruct G as (G1 & G2 & G3 & G4).
      destruct (split_inner_spec maxn maxkey maxval C (length ncs) (N.max t t') ncs) as (A1 & A2 & A3); auto.
      rewrite A1. repeat split; auto.
  Qed.
End InsertProof.

(* ---------- root growth ---------- *)
Lemma split_inner_length maxn maxkey maxval : cfg_sizes maxn maxkey maxval ->
  forall fuel ts cs, (length cs <= fuel)%nat -> cs <> [] -> Forall (wfn maxn) cs ->
  Forall (lv_ok maxkey maxval) (flat cs) ->
  (length (split_inner fuel maxn ts cs) <= Nat.max 1 (length cs - 1))%nat.
Proof.
  intros C. apply cfg_sizes_inv in C as [C1 C2].
  induction fuel as [|f IH]; intros ts cs Hf Hne Hw Hok.
  - destruct cs; [congruence | simpl in Hf; lia].
  - cbn [split_inner]. destruct (N.leb_spec (inner_size cs) maxn) as [L | L]; [cbn [length]; lia|].
    assert (H2 : (3 <= length cs)%nat).
    { destruct cs as [|c1 [|c2 [|c3 cs]]]; [congruence | | | simpl; lia]; exfalso.
      - inversion Hw; subst.
        pose proof (ref_size_bound maxn maxkey maxval c1 H1 (Forall_flat_in _ _ Hok (or_introl eq_refl))).
        rewrite inner_size_cons in L. simpl in L. lia.
      - inversion Hw as [|? ? W1 W2]; subst. inversion W2 as [|? ? W3 W4]; subst.
        pose proof (ref_size_bound maxn maxkey maxval c1 W1 (Forall_flat_in _ _ Hok (or_introl eq_refl))).
        pose proof (ref_size_bound maxn maxkey maxval c2 W3
                      (Forall_flat_in _ _ Hok (or_intror (or_introl eq_refl)))).
        rewrite !inner_size_cons in L. simpl in L. lia. }
    pose proof (split_index_range (N.of_nat (length cs)) ltac:(lia)) as [R1 R2].
    assert (R3 : 2 <= split_index (N.of_nat (length cs))).
    { unfold split_index. destruct (N.eqb_spec (N.of_nat (length cs) mod 2) 0); lia. }
    set (i := N.to_nat (split_index (N.of_nat (length cs)))) in *.
    assert (Hi : (2 <= i <= length cs - 1)%nat) by (unfold i; lia).
    pose proof (flat_firstn_skipn i cs) as FS.
    assert (Hok' : Forall (lv_ok maxkey maxval) (flat (firstn i cs)) /\
                   Forall (lv_ok maxkey maxval) (flat (skipn i cs))).
    { rewrite <- FS in Hok. apply Forall_app in Hok. exact Hok. }
    rewrite app_length.
    pose proof (IH (nodes_max_ts (firstn i cs)) (firstn i cs)) as A.
    pose proof (IH (nodes_max_ts (skipn i cs)) (skipn i cs)) as B.
    rewrite firstn_length in A. rewrite skipn_length in B.
    assert (A' : (length (split_inner f maxn (nodes_max_ts (firstn i cs)) (firstn i cs))
                  <= Nat.max 1 (Nat.min i (length cs) - 1))%nat).
    { apply A; [lia | | apply Forall_firstn; auto | tauto].
      intros E. apply (f_equal (@length node)) in E. rewrite firstn_length in E. simpl in E. lia. }
    assert (B' : (length (split_inner f maxn (nodes_max_ts (skipn i cs)) (skipn i cs))
                  <= Nat.max 1 (length cs - i - 1))%nat).
    { apply B; [lia | | apply Forall_skipn; auto | tauto].
      intros E. apply (f_equal (@length node)) in E. rewrite skipn_length in E. simpl in E. lia. }
    lia.
Qed.

Lemma grow_spec maxn maxkey maxval newTs : cfg_sizes maxn maxkey maxval ->
  forall fuel nodes, (length nodes <= fuel)%nat -> nodes <> [] -> Forall (wfn maxn) nodes ->
  Forall (lv_ok maxkey maxval) (flat nodes) ->
  exists r, grow fuel maxn newTs nodes = Some r /\ flatten r = flat nodes /\ wfn maxn r.
Proof.
  intros C. induction fuel as [|f IH]; intros nodes Hf Hne Hw Hok.
  - destruct nodes; [congruence | simpl in Hf; lia].
  - destruct nodes as [|r0 [|r1 rest]]; [congruence | |].
    + exists r0. inversion Hw; subst. repeat split; auto. unfold flat; simpl. rewrite app_nil_r. reflexivity.
    + cbn [grow].
      set (nodes := r0 :: r1 :: rest) in *.
      destruct (split_inner_spec maxn maxkey maxval C (length nodes) newTs nodes) as (A1 & A2 & A3); auto.
      pose proof (split_inner_length maxn maxkey maxval C (length nodes) newTs nodes
                    (Nat.le_refl _) Hne Hw Hok) as L.
      destruct (IH (split_inner (length nodes) maxn newTs nodes)) as (r & G1 & G2 & G3); auto.
      * unfold nodes in *. simpl length in *. lia.
      * rewrite A1. exact Hok.
      * exists r. rewrite G1, G2, A1. auto.
Qed.

(* bulkInsert at the tree level: node.insert followed by the root-growth loop *)
Definition tree_insert (maxn : N) (root : node) (kvts : list kvt) : option node :=
  match insert maxn root kvts with
  | None => None
  | Some ns => grow (length ns) maxn (kvts_max_ts kvts) ns
  end.

Definition root_ok (maxn : N) (n : node) : Prop := wfn maxn n \/ exists t, n = Leaf t [].

Theorem tree_insert_refines maxn maxkey maxval root kvts :
  cfg_sizes maxn maxkey maxval -> root_ok maxn root -> tree_ok maxn maxkey maxval root ->
  kvts <> [] -> Forall (kvt_ok maxkey maxval) kvts ->
  match tree_insert maxn root kvts with
  | None => mv_insert kvts (abs root) = None
  | Some r => mv_insert kvts (abs root) = Some (abs r) /\ wfn maxn r /\ tree_ok maxn maxkey maxval r
  end.
Proof.
  intros C R T Hne Hk. unfold tree_insert.
  pose proof (insert_spec maxn maxkey maxval C root R T kvts Hne Hk) as P. unfold ins_post in P.
  destruct (insert maxn root kvts) as [ns|]; auto.
  destruct P as (P1 & P2 & P3 & P4).
  destruct (grow_spec maxn maxkey maxval (kvts_max_ts kvts) C (length ns) ns) as (r & G1 & G2 & G3); auto.
  rewrite G1.
  assert (Ea : abs r = absl (flat ns)) by (rewrite abs_eq, G2; reflexivity).
  rewrite Ea. split; [exact P1|]. split; [exact G3|]. split.
  - assert (W : mv_wf (abs root)) by (unfold mv_wf; rewrite abs_eq, keys_absl; apply T).
    pose proof (mv_insert_wf _ _ _ W P1) as W'. unfold mv_wf in W'.
    rewrite keys_absl in W'. rewrite G2. exact W'.
  - rewrite G2. exact P4.
Qed.
