(* MVMap — the ABSTRACT specification of the index: an ordered map from key to the full list of
   (value, timestamp) versions, newest first.  It is deliberately the simplest possible thing: an
   association list kept strictly sorted by [bcmp] (Go's bytes.Compare).

   Interface (shared by C10 and, later, C04/C05):
     mv_empty, mv_find, mv_put, mv_insert            state and bulk insert
     mv_get, mv_get_between, mv_history              point queries (tbtree Get/GetBetween/History)
     mv_get_with_prefix                              tbtree GetWithPrefix(prefix, neq)
     rspec, rmode, mv_scan                           what a range reader built from a ReaderSpec yields
   No proofs in this file (see MVMapProofs.v). *)
From V Require Export Base.Bytes.

Definition tv : Type := (bytes * N)%type.             (* (value, ts) *)
Definition versions := list tv.                       (* newest first *)
Definition mvmap := list (bytes * versions).          (* strictly increasing keys *)
Definition kvt : Type := (bytes * bytes * N)%type.    (* (key, value, ts) as handed to BulkInsert *)
Definition entry : Type := (bytes * bytes * N * N)%type. (* (key, value, ts, revision) as returned by readers *)

Definition kvt_key (e : kvt) : bytes := fst (fst e).
Definition kvt_val (e : kvt) : bytes := snd (fst e).
Definition kvt_ts (e : kvt) : N := snd e.

Definition beq (a b : bytes) : bool := match bcmp a b with Eq => true | _ => false end.
Definition blt (a b : bytes) : bool := match bcmp a b with Lt => true | _ => false end.
Definition ble (a b : bytes) : bool := match bcmp a b with Gt => false | _ => true end.
Definition is_nil {A} (l : list A) : bool := match l with [] => true | _ => false end.

(* len(k) >= len(p) && bytes.Equal(p, k[:len(p)]) *)
Fixpoint has_prefix (p k : bytes) : bool :=
  match p, k with
  | [], _ => true
  | x :: p', y :: k' => (x =? y) && has_prefix p' k'
  | _ :: _, [] => false
  end.

Definition mv_empty : mvmap := [].

Fixpoint mv_find (k : bytes) (m : mvmap) : option versions :=
  match m with
  | [] => None
  | (k', vs) :: r => if beq k k' then Some vs else mv_find k r
  end.

(* One (key, value, ts) of a bulk insert.
     new key                      -> the key appears with the single version (value, ts)
     ts > ts of the newest version -> (value, ts) becomes the newest version
     ts = ts of the newest version -> ignored (the stored value is kept)
     ts < ts of the newest version -> rejected (None) *)
Fixpoint mv_put (e : kvt) (m : mvmap) : option mvmap :=
  let '(k, v, t) := e in
  match m with
  | [] => Some [(k, [(v, t)])]
  | (k', vs) :: r =>
      match bcmp k k' with
      | Lt => Some ((k, [(v, t)]) :: m)
      | Eq => match vs with
              | [] => Some ((k', [(v, t)]) :: r)
              | (_, t0) :: _ =>
                  if t <? t0 then None
                  else if t0 <? t then Some ((k', (v, t) :: vs) :: r)
                  else Some m
              end
      | Gt => match mv_put e r with Some r' => Some ((k', vs) :: r') | None => None end
      end
  end.

(* a bulk insert is atomic: all entries in order, or nothing *)
Fixpoint mv_insert (kvts : list kvt) (m : mvmap) : option mvmap :=
  match kvts with
  | [] => Some m
  | e :: r => match mv_put e m with Some m' => mv_insert r m' | None => None end
  end.

(* Get: newest version and the number of versions *)
Definition mv_get (k : bytes) (m : mvmap) : option (bytes * N * N) :=
  match mv_find k m with
  | Some ((v, t) :: r) => Some (v, t, N.of_nat (length ((v, t) :: r)))
  | _ => None
  end.

(* GetBetween(initialTs, finalTs): the newest version with initialTs <= ts <= finalTs and its
   revision number (1 = oldest); finalTs = 0 means "no upper bound" *)
Definition in_window (i f t : N) : bool := (i <=? t) && ((f =? 0) || (t <=? f)).
Fixpoint vs_between (i f : N) (vs : versions) : option (bytes * N * N) :=
  match vs with
  | [] => None
  | (v, t) :: r => if in_window i f t then Some (v, t, N.of_nat (length vs)) else vs_between i f r
  end.
Definition mv_get_between (k : bytes) (i f : N) (m : mvmap) : option (bytes * N * N) :=
  if f <? i then None else
  match mv_find k m with Some vs => vs_between i f vs | None => None end.

(* History(key, offset, descOrder, limit): [limit] versions after skipping [offset], newest first
   (desc) or oldest first, and the total number of versions *)
Inductive hres := HOk (l : versions) (hcount : N) | HNotFound | HNoMore | HOutOfRange | HIllegal.
Definition mv_history (k : bytes) (off : N) (desc : bool) (limit : N) (m : mvmap) : hres :=
  if limit =? 0 then HIllegal else
  match mv_find k m with
  | None => HNotFound
  | Some vs =>
      let hc := N.of_nat (length vs) in
      if off =? hc then HNoMore else if hc <? off then HOutOfRange else
      HOk (firstn (N.to_nat limit) (skipn (N.to_nat off) (if desc then vs else rev vs))) hc
  end.

(* GetWithPrefix(prefix, neq): the smallest key k with k >= prefix (and k > neq when neq is not
   empty); found only when that key carries the prefix *)
Definition mv_get_with_prefix (prefix neq : bytes) (m : mvmap) : option (bytes * bytes * N * N) :=
  match find (fun kv => ble prefix (fst kv) && (is_nil neq || blt neq (fst kv))) m with
  | Some (k, (v, t) :: r) =>
      if has_prefix prefix k then Some (k, v, t, N.of_nat (length ((v, t) :: r))) else None
  | _ => None
  end.

(* ---- range readers ---- *)
Record rspec := {
  rs_seek : bytes; rs_end : bytes; rs_prefix : bytes;
  rs_incl_seek : bool; rs_incl_end : bool; rs_desc : bool; rs_offset : N }.
Inductive rmode :=
| RLatest                 (* Read, IncludeHistory = false *)
| RHistory                (* Read, IncludeHistory = true *)
| RBetween (i f : N).     (* ReadBetween(initialTs, finalTs) *)

(* the seek bound: ascending readers start at seek (exclusive unless InclusiveSeek), descending
   readers start at seek going down; an empty seek key of a descending reader means "from the top" *)
Definition in_seek (s : rspec) (k : bytes) : bool :=
  if rs_desc s
  then is_nil (rs_seek s) || blt k (rs_seek s) || (rs_incl_seek s && beq k (rs_seek s))
  else blt (rs_seek s) k || (rs_incl_seek s && beq k (rs_seek s)).
(* the end bound; an empty end key of an ascending reader means "to the top" *)
Definition in_end (s : rspec) (k : bytes) : bool :=
  if rs_desc s
  then blt (rs_end s) k || (rs_incl_end s && beq k (rs_end s))
  else is_nil (rs_end s) || blt k (rs_end s) || (rs_incl_end s && beq k (rs_end s)).
Definition selected (s : rspec) (kv : bytes * versions) : bool :=
  in_seek s (fst kv) && in_end s (fst kv) && has_prefix (rs_prefix s) (fst kv).

Fixpoint number_from {A} (j : N) (l : list A) : list (N * A) :=
  match l with [] => [] | x :: r => (j, x) :: number_from (j + 1) r end.

Definition emit (mode : rmode) (desc : bool) (kv : bytes * versions) : list entry :=
  let '(k, vs) := kv in
  let n := N.of_nat (length vs) in
  match mode with
  | RLatest => match vs with (v, t) :: _ => [(k, v, t, n)] | [] => [] end
  | RHistory =>
      if desc then map (fun jx => (k, fst (snd jx), snd (snd jx), n - fst jx)) (number_from 0 vs)
      else map (fun jx => (k, fst (snd jx), snd (snd jx), fst jx + 1)) (number_from 0 (rev vs))
  | RBetween i f =>
      match (if f <? i then None else vs_between i f vs) with
      | Some (v, t, hc) => [(k, v, t, hc)]
      | None => []
      end
  end.

(* everything a reader yields until ErrNoMoreEntries: the selected keys in reader order, the first
   [offset] of them skipped (the offset counts keys in every mode), each expanded by the mode *)
Definition mv_scan (s : rspec) (mode : rmode) (m : mvmap) : list entry :=
  flat_map (emit mode (rs_desc s))
    (skipn (N.to_nat (rs_offset s)) (filter (selected s) (if rs_desc s then rev m else m))).

(* ---- the same reader, read operationally (this is what Reader.Read does key by key, with the
   fields of the Reader AFTER Snapshot.NewReader adjusted seek/end keys to the prefix):
   start at the first key on the right side of the seek key, then per key: skip the seek key
   itself unless inclusive, stop at the first key beyond the end key, skip keys without the
   prefix, skip the first [offset] remaining keys.  MVMapProofs.mv_walk_scan shows that for
   well-formed keys this is mv_scan of the original ReaderSpec. ---- *)
Fixpoint drop_until {A} (f : A -> bool) (l : list A) : list A :=
  match l with
  | [] => []
  | x :: r => if f x then l else drop_until f r
  end.

Definition beyond_end (s : rspec) (k : bytes) : bool :=
  if rs_desc s
  then blt k (rs_end s) || (beq (rs_end s) k && negb (rs_incl_end s))
  else blt (rs_end s) k || (beq (rs_end s) k && negb (rs_incl_end s)).

Fixpoint mv_walk_keys (s : rspec) (l : mvmap) (skipped : N) : mvmap :=
  match l with
  | [] => []
  | kv :: r =>
      let k := fst kv in
      if negb (rs_incl_seek s) && beq (rs_seek s) k then mv_walk_keys s r skipped
      else if negb (is_nil (rs_end s)) && beyond_end s k then []
      else if negb (is_nil (rs_prefix s)) && negb (has_prefix (rs_prefix s) k) then mv_walk_keys s r skipped
      else if skipped <? rs_offset s then mv_walk_keys s r (skipped + 1)
      else kv :: mv_walk_keys s r skipped
  end.

Definition mv_stream (s : rspec) (m : mvmap) : mvmap :=
  if rs_desc s then drop_until (fun kv => ble (fst kv) (rs_seek s)) (rev m)
  else drop_until (fun kv => ble (rs_seek s) (fst kv)) m.

Definition mv_walk (s : rspec) (mode : rmode) (m : mvmap) : list entry :=
  flat_map (emit mode (rs_desc s)) (mv_walk_keys s (mv_stream s m) 0).
