(* The statements exported as property theorems of C10, assembled from the refinement proofs. *)
From V Require Import Index.MVMap Index.MVMapProofs Index.BTree Index.BTreeProofs Index.QueryProofs
  Index.ReaderProofs Index.TBState Index.TBStateProofs.

Theorem btree_refines_mvmap cfg ops n :
  cfg_ok cfg -> in_state n (mrun cfg ops) ->
  (* invariants: no empty node and every node within MaxNodeSize (or the empty root leaf); keys
     strictly sorted across the whole tree; entries well-formed; versions strictly decreasing *)
  good cfg n /\
  (forall k, get n k = mv_get k (abs n)) /\
  (forall h0 k i f, get_between h0 n k i f = mv_get_between k i f (abs n)) /\
  (forall k off desc limit, history n k off desc limit = mv_history k off desc limit (abs n)) /\
  (forall prefix neq, get_with_prefix n prefix neq = Ok (mv_get_with_prefix prefix neq (abs n))).
Proof.
  intros C H. pose proof (reachable_trees_good cfg ops n C H) as G.
  split; [exact G|]. destruct G as (R & T & Ts). repeat split.
  - intros k. eapply get_refines; eauto.
  - intros. eapply get_between_refines; eauto.
  - intros. eapply history_refines; eauto.
  - intros. eapply get_with_prefix_refines; eauto.
Qed.

(* the separators of every inner node of a good tree *)
Theorem separators_sorted maxn t cs :
  wfn maxn (Inner t cs) -> ssorted (lkeys (flatten (Inner t cs))) ->
  ssorted (map min_key cs) /\
  forall c c2 r pre x, cs = pre ++ c :: c2 :: r -> In x (lkeys (flatten c)) -> klt x (min_key c2).
Proof.
  intros W Hs. apply wfn_inner in W as (W1 & W2 & W3). cbn [flatten] in Hs. fold (flat cs) in Hs.
  split; [eapply mkeys_sorted; eauto|].
  intros c c2 r pre x E Hx. subst cs. rewrite flat_app, lkeys_app in Hs.
  apply ssorted_app in Hs as (_ & Hs & _). eapply keys_below_next; eauto.
  rewrite Forall_forall in W3. apply W3. apply in_or_app. right. simpl; auto.
Qed.

Theorem reader_refines cfg ops n h0 s mode :
  cfg_ok cfg -> in_state n (mrun cfg ops) ->
  read_all h0 n s mode = Ok (mv_walk s mode (abs n)).
Proof.
  intros C H. destruct (reachable_trees_good cfg ops n C H) as (R & T & Ts).
  eapply reader_refines_walk; eauto.
Qed.

(* an open snapshot: unchanged by every later operation, hence every query on it is constant
   (no query depends on block 0 of the history log any more: all refinement theorems hold for
   every h0; its stability is kept as a fact about the log) *)
Theorem snapshot_immutable_all cfg st ops id r :
  snap_find id st = Some r -> Forall (keeps_snapshot id) ops ->
  snap_find id (fold_left (mstep cfg) ops st) = Some r /\
  (s_h0 st <> [] -> s_h0 (fold_left (mstep cfg) ops st) = s_h0 st).
Proof.
  intros H K. split; [apply snapshot_immutable; auto|].
  clear. revert st. induction ops as [|o ops IH]; intros st Hh; [reflexivity|].
  simpl. rewrite IH; [apply h0_stable; auto | rewrite h0_stable; auto].
Qed.

(* ---------- readers against the declarative range specification ---------- *)
From V Require Import Index.WalkProofs Index.KeyInv.

Definition key_bytes_ok (lv : lval) : Prop := bytes_ok (lv_key lv) = true.
Definition kvt_bytes_ok (e : kvt) : Prop := bytes_ok (kvt_key e) = true.
(* the keys handed to BulkInsert are byte strings (always true of Go []byte) *)
Definition ops_bytes_ok (ops : list mop) : Prop := Forall (op_k kvt_bytes_ok) ops.

Lemma reachable_keys_wf cfg ops n :
  cfg_ok cfg -> ops_bytes_ok ops -> in_state n (mrun cfg ops) ->
  Forall (key_wf (c_maxkey cfg)) (keys (abs n)).
Proof.
  intros C Hb H. destruct (reachable_trees_good cfg ops n C H) as (_ & [_ Hok] & _).
  pose proof (reachable_all cfg key_bytes_ok kvt_bytes_ok
                (fun k v t H => H) (fun lv v t H => H)
                (fun lv H => eq_ind_r (fun k => bytes_ok k = true) H (flush_lv_key lv))
                (fun k v t t' H => H)
                ops n Hb H) as Hq.
  unfold PQ in Hq. rewrite abs_eq, keys_absl. unfold lkeys.
  rewrite Forall_forall in *. intros k Hk. apply in_map_iff in Hk as (lv & <- & Hlv).
  destruct (Hok lv Hlv) as (_ & K1 & K2 & _). repeat split; auto. apply Hq; auto.
Qed.

Theorem reader_spec cfg ops n h0 s s' mode :
  cfg_ok cfg -> ops_bytes_ok ops -> in_state n (mrun cfg ops) ->
  new_reader (c_maxkey cfg) s = Some s' ->
  read_all h0 n s' mode = Ok (mv_scan s mode (abs n)).
Proof.
  intros C Hb H Hn. rewrite (reader_refines cfg ops n h0 s' mode C H). f_equal.
  destruct (reachable_trees_good cfg ops n C H) as (_ & [Hs _] & _).
  apply (mv_walk_scan (c_maxkey cfg)); auto.
  - unfold mv_wf. rewrite abs_eq, keys_absl. exact Hs.
  - eapply reachable_keys_wf; eauto.
Qed.

(* the premises are satisfiable *)
Example reader_spec_example :
  let ops := [MInsert [([97], [1], 0); ([97; 98], [2], 0)]; MFlush false] in
  cfg_ok cfg_w /\ ops_bytes_ok ops /\ in_state (s_root (mrun cfg_w ops)) (mrun cfg_w ops) /\
  abs (s_root (mrun cfg_w ops)) = [([97], [([1], 1)]); ([97; 98], [([2], 1)])].
Proof.
  cbv zeta. split; [exact cfg_w_ok|]. split; [repeat constructor|]. split; [left; reflexivity|].
  vm_compute. reflexivity.
Qed.

(* a batch the map rejects: the tree keeps its content or goes back to the last flushed root; once
   the tree was restarted (or flushed) that root is always defined, so the tree is never emptied *)
Theorem rejected_batch_after_restart cfg st kvts :
  cfg_ok cfg -> st_good cfg st -> s_last st <> None ->
  spec_insert cfg (node_ts (s_root st)) kvts (abs (s_root st)) = Rejected ->
  let st' := mstep cfg st (MInsert kvts) in
  abs (s_root st') = abs (s_root st) \/ exists l, s_last st = Some l /\ abs (s_root st') = abs l.
Proof.
  intros C G HL HR. pose proof (mstep_content cfg st (MInsert kvts) C G) as P. cbv beta zeta iota in P.
  rewrite HR in P. cbv zeta. destruct P as [P | [P | [P _]]]; auto. congruence.
Qed.
