(* Proofs about the TBtree state machine (TBState.v): every tree that any operation sequence can
   produce -- the root, the last flushed root, every open snapshot, every compaction dump -- is
   [good] (so all query refinement theorems apply to it); how each operation changes the abstract
   content; snapshots are immutable and not older than requested; and the two places where the code
   that exists violates the property ([get_between_refuted], [rollback_refuted]). *)
From V Require Import Index.MVMap Index.MVMapProofs Index.BTree Index.BTreeProofs Index.QueryProofs
  Index.TBState.
From Coq Require Import ZifyN ZifyNat ZifyBool.

(* ---------- generic preservation of a per-entry property by insert ---------- *)
Lemma split_leaf_flat fuel maxn : forall ts vs, flat (split_leaf fuel maxn ts vs) = vs.
Proof.
  induction fuel as [|f IH]; intros ts vs; cbn [split_leaf];
    destruct (leaf_size vs <=? maxn); try (unfold flat; simpl; apply app_nil_r).
  rewrite flat_app, !IH. apply firstn_skipn.
Qed.

Lemma split_inner_flat fuel maxn : forall ts cs, flat (split_inner fuel maxn ts cs) = flat cs.
Proof.
  induction fuel as [|f IH]; intros ts cs; cbn [split_inner];
    destruct (inner_size cs <=? maxn); try (unfold flat; simpl; apply app_nil_r).
  rewrite flat_app, !IH. apply flat_firstn_skipn.
Qed.

Lemma grow_flat maxn newTs : forall fuel nodes r,
  grow fuel maxn newTs nodes = Some r -> flatten r = flat nodes.
Proof.
  induction fuel as [|f IH]; intros nodes r H.
  - destruct nodes as [|a [|b rest]]; simpl in H; try discriminate.
    inversion H; subst. unfold flat; simpl. rewrite app_nil_r. reflexivity.
  - destruct nodes as [|a [|b rest]]; try discriminate.
    + simpl in H. inversion H; subst. unfold flat; simpl. rewrite app_nil_r. reflexivity.
    + cbn [grow] in H. apply IH in H. rewrite H. apply split_inner_flat.
Qed.

Lemma some_inj {A} (a b : A) : Some a = Some b -> a = b.
Proof. congruence. Qed.

Section ForallInsert.
  Variable Q : lval -> Prop.
  Hypothesis Qnew : forall k v t, Q {| lv_key := k; lv_tvs := [(v, t)]; lv_blocks := [] |}.
  Hypothesis Qupd : forall lv v t, Q lv ->
    Q {| lv_key := lv_key lv; lv_tvs := (v, t) :: lv_tvs lv; lv_blocks := lv_blocks lv |}.

  Lemma leaf_put_forall vs e vs' : Forall Q vs -> leaf_put vs e = Some vs' -> Forall Q vs'.
  Proof.
    destruct e as [[k v] t]. unfold leaf_put. destruct (leaf_index_of vs k) as [i found].
    intros H. destruct found.
    - destruct (nth_error vs (N.to_nat i)) as [lv|] eqn:En; [|discriminate].
      destruct (t <? snd (lv_latest lv)); [discriminate|].
      destruct (snd (lv_latest lv) <? t); intros E; apply some_inj in E; subst vs'; auto.
      apply Forall_app; split; [apply Forall_firstn; auto|].
      constructor; [|apply Forall_skipn; auto].
      apply Qupd. rewrite Forall_forall in H. apply H. eapply nth_error_In; eauto.
    - intros E; apply some_inj in E; subst vs'.
      apply Forall_app; split; [apply Forall_firstn; auto|].
      constructor; [apply Qnew | apply Forall_skipn; auto].
  Qed.

  Lemma leaf_puts_forall kvts : forall vs vs', Forall Q vs -> leaf_puts vs kvts = Some vs' -> Forall Q vs'.
  Proof.
    induction kvts as [|e r IH]; intros vs vs' H; simpl.
    - intros E; inversion E; subst; auto.
    - destruct (leaf_put vs e) as [vs1|] eqn:P; [|discriminate]. apply IH. eapply leaf_put_forall; eauto.
  Qed.

  Lemma insert_forall maxn n : forall kvts ns,
    Forall Q (flatten n) -> insert maxn n kvts = Some ns -> Forall Q (flat ns).
  Proof.
    induction n as [t vs | t cs IH] using node_ind'; intros kvts ns H.
    - cbn [insert]. destruct (leaf_puts vs kvts) as [vs'|] eqn:P; [|discriminate].
      intros E; inversion E; subst. rewrite split_leaf_flat. eapply leaf_puts_forall; eauto.
    - rewrite insert_inner_eq.
      assert (G : forall l i ncs t', Forall (fun c => forall kvts ns, Forall Q (flatten c) ->
                                            insert maxn c kvts = Some ns -> Forall Q (flat ns)) l ->
                  Forall Q (flat l) -> go_ins maxn cs kvts l i = Some (ncs, t') -> Forall Q (flat ncs)).
      { induction l as [|c r IHl]; intros i ncs t' HP HQ.
        - rewrite go_ins_nil. intros E; inversion E; subst. constructor.
        - rewrite go_ins_cons. cbv zeta.
          apply Forall_cons_iff in HP as [Hc HPr]. rewrite flat_cons in HQ. apply Forall_app in HQ as [Q1 Q2].
          destruct (filter (fun e => inner_index_of cs (kvt_key e) =? i) kvts) as [|e g'] eqn:Eg.
          + destruct (go_ins maxn cs kvts r (i + 1)) as [[rest t2]|] eqn:Er; [|discriminate].
            intros E; inversion E; subst. cbn [app]. rewrite flat_cons. apply Forall_app; split; auto.
            eapply IHl; eauto.
          + destruct (insert maxn c (e :: g')) as [ns1|] eqn:Ei; [|discriminate].
            destruct (go_ins maxn cs kvts r (i + 1)) as [[rest t2]|] eqn:Er; [|discriminate].
            intros E; inversion E; subst. rewrite flat_app. apply Forall_app; split.
            * eapply Hc; eauto.
            * eapply IHl; eauto. }
      destruct (go_ins maxn cs kvts cs 0) as [[ncs t']|] eqn:Eg; [|discriminate].
      intros E; inversion E; subst. rewrite split_inner_flat. eapply G; eauto.
  Qed.
End ForallInsert.

(* ---------- flush keeps the content ---------- *)
Lemma flush_lv_abs lv : abs_lv (flush_lv lv) = abs_lv lv.
Proof.
  unfold flush_lv, abs_lv, lv_all. destruct (lv_tvs lv) as [|x [|y r]] eqn:E; rewrite ?E; auto.
Qed.
Lemma flush_lv_key lv : lv_key (flush_lv lv) = lv_key lv.
Proof. unfold flush_lv. destruct (lv_tvs lv) as [|x [|y r]]; reflexivity. Qed.
Lemma flush_lv_latest lv : lv_latest (flush_lv lv) = lv_latest lv.
Proof. unfold flush_lv, lv_latest. destruct (lv_tvs lv) as [|x [|y r]] eqn:E; rewrite ?E; reflexivity. Qed.
Lemma flush_lv_size lv : lv_size (flush_lv lv) = lv_size lv.
Proof. unfold lv_size. rewrite flush_lv_key, flush_lv_latest. reflexivity. Qed.

Lemma flush_lv_ok maxkey maxval lv : lv_ok maxkey maxval lv -> lv_ok maxkey maxval (flush_lv lv).
Proof.
  intros (H1 & H2 & H3 & H4 & H5). unfold lv_ok. rewrite flush_lv_key, flush_lv_latest.
  repeat split; auto.
  - unfold flush_lv. destruct (lv_tvs lv) as [|x [|y r]] eqn:E; rewrite ?E; auto; discriminate.
  - unfold flush_lv. destruct (lv_tvs lv) as [|x [|y r]] eqn:E; auto.
    cbn [lv_blocks]. constructor; auto. discriminate.
Qed.

Lemma flush_node_flatten n : flatten (flush_node n) = map flush_lv (flatten n).
Proof.
  induction n as [t vs | t cs IH] using node_ind'; [reflexivity|].
  cbn [flush_node flatten]. induction cs as [|c cs IHcs]; [reflexivity|].
  inversion IH; subst. cbn [map flat_map]. rewrite map_app, H1. f_equal. apply IHcs; auto.
Qed.

Lemma flush_node_abs n : abs (flush_node n) = abs n.
Proof.
  unfold abs. rewrite flush_node_flatten, map_map. apply map_ext. apply flush_lv_abs.
Qed.

Lemma flush_node_min_key n : min_key (flush_node n) = min_key n.
Proof.
  induction n as [t vs | t cs IH] using node_ind'.
  - destruct vs; simpl; auto. apply flush_lv_key.
  - destruct cs; simpl; auto. inversion IH; subst; auto.
Qed.

Lemma flush_node_wfn maxn n : wfn maxn n -> wfn maxn (flush_node n).
Proof.
  induction n as [t vs | t cs IH] using node_ind'.
  - intros [H1 H2]. cbn [flush_node wfn]. split.
    + destruct vs; [congruence | discriminate].
    + replace (leaf_size (map flush_lv vs)) with (leaf_size vs); auto.
      clear. induction vs as [|lv vs IHv]; auto. cbn [map]. rewrite !leaf_size_cons, flush_lv_size, IHv. reflexivity.
  - intros H. apply wfn_inner in H as (H1 & H2 & H3). cbn [flush_node]. apply wfn_inner. repeat split.
    + destruct cs; [congruence | discriminate].
    + replace (inner_size (map flush_node cs)) with (inner_size cs); auto.
      clear. induction cs as [|c cs IHc]; auto. cbn [map]. rewrite !inner_size_cons, IHc.
      unfold ref_size. rewrite flush_node_min_key. reflexivity.
    + rewrite Forall_forall in *. intros c' Hc'. apply in_map_iff in Hc' as (c & <- & Hc). auto.
Qed.

(* ---------- good trees ---------- *)
Definition cfg_ok (cfg : config) : Prop := cfg_sizes (c_maxn cfg) (c_maxkey cfg) (c_maxval cfg).

Definition good (cfg : config) (n : node) : Prop :=
  root_ok (c_maxn cfg) n /\ tree_ok (c_maxn cfg) (c_maxkey cfg) (c_maxval cfg) n /\ tree_tsorted n.

Lemma good_empty cfg t : good cfg (Leaf t []).
Proof.
  split; [right; eauto|]. split; [split; simpl; auto|]. unfold tree_tsorted, mv_tsorted. simpl. constructor.
Qed.

Lemma good_same_content cfg n n' :
  flatten n' = flatten n -> (wfn (c_maxn cfg) n -> wfn (c_maxn cfg) n') ->
  ((exists t, n = Leaf t []) -> exists t, n' = Leaf t []) -> good cfg n -> good cfg n'.
Proof.
  intros E W L (R & [T1 T2] & T3). split; [|split; [split|]].
  - destruct R as [R | R]; [left; auto | right; auto].
  - rewrite E; auto.
  - rewrite E; auto.
  - unfold tree_tsorted, abs in *. rewrite E; auto.
Qed.

Lemma good_set_ts cfg n t : good cfg n -> good cfg (set_node_ts n t).
Proof.
  apply good_same_content; destruct n; simpl; auto.
  - intros [t' E]; inversion E; subst; eauto.
  - intros [t' E]; discriminate.
Qed.

Lemma good_reload cfg n : good cfg n -> good cfg (reload n).
Proof.
  apply good_same_content; destruct n; simpl; auto.
  - intros [t' E]; inversion E; subst; eauto.
  - intros [t' E]; discriminate.
Qed.

Lemma good_flush cfg n : good cfg n -> good cfg (flush_node n).
Proof.
  intros (R & [T1 T2] & T3). split; [|split; [split|]].
  - destruct R as [R | [t ->]]; [left; apply flush_node_wfn; auto | right; simpl; eauto].
  - rewrite <- keys_absl, <- abs_eq, flush_node_abs, abs_eq, keys_absl. exact T1.
  - rewrite flush_node_flatten. rewrite Forall_forall in *. intros x Hx.
    apply in_map_iff in Hx as (lv & <- & Hlv). apply flush_lv_ok; auto.
  - unfold tree_tsorted. rewrite flush_node_abs. exact T3.
Qed.

Lemma validate_ok cfg ts kvts ik :
  validate cfg ts kvts = Some ik ->
  Forall (kvt_ok (c_maxkey cfg) (c_maxval cfg)) ik /\ length ik = length kvts.
Proof.
  revert ik. induction kvts as [|[[k v] t] r IH]; intros ik; simpl.
  - intros E; inversion E; subst. split; auto.
  - destruct (is_nil k || is_nil v) eqn:E1; [discriminate|].
    destruct (N.ltb_spec (c_maxkey cfg) (len k)); [discriminate|].
    destruct (N.ltb_spec (c_maxval cfg) (len v)); [discriminate|].
    destruct (negb (t =? 0) && (t <=? ts)); [discriminate|].
    destruct (validate cfg ts r) as [r'|]; [|discriminate].
    intros E; inversion E; subst. destruct (IH r' eq_refl) as [I1 I2]. split; [|simpl; lia].
    constructor; auto. unfold kvt_ok, kvt_key, kvt_val; cbn [fst snd].
    apply orb_false_elim in E1 as [E1 _]. destruct k; [discriminate|]. repeat split; auto. discriminate.
Qed.

(* the tree-level bulk insert keeps trees good and acts as the map's bulk insert *)
Lemma good_tree_insert cfg n kvts :
  cfg_ok cfg -> good cfg n -> kvts <> [] -> Forall (kvt_ok (c_maxkey cfg) (c_maxval cfg)) kvts ->
  match tree_insert (c_maxn cfg) n kvts with
  | None => mv_insert kvts (abs n) = None
  | Some r => mv_insert kvts (abs n) = Some (abs r) /\ good cfg r
  end.
Proof.
  intros C (R & T & Ts) Hne Hk.
  pose proof (tree_insert_refines _ _ _ n kvts C R T Hne Hk) as P.
  destruct (tree_insert (c_maxn cfg) n kvts) as [r|]; auto.
  destruct P as (P1 & P2 & P3). split; auto. split; [left; auto|]. split; auto.
  unfold tree_tsorted. eapply mv_insert_tsorted; eauto.
Qed.

(* ---------- the invariant of the state machine ---------- *)
Definition opt_good (cfg : config) (o : option node) : Prop :=
  match o with Some n => good cfg n | None => True end.

Definition st_good (cfg : config) (st : tbstate) : Prop :=
  good cfg (s_root st) /\ opt_good cfg (s_last st) /\
  Forall (fun x => good cfg (snd x)) (s_snaps st) /\ Forall (fun x => good cfg (snd x)) (s_dumps st).

Lemma st_good_init cfg : st_good cfg init_state.
Proof. split; [apply good_empty|]. split; [exact I|]. split; constructor. Qed.

Ltac sg := unfold st_good; split; [|split; [|split]].

Lemma flush_tree_good cfg hint fc st : st_good cfg st -> st_good cfg (flush_tree cfg hint fc st).
Proof.
  intros (G1 & G2 & G3 & G4). unfold flush_tree.
  destruct (negb (s_mut st) && negb (hint && (fc || negb (s_cnt_cleanup st <? c_flush_thld cfg))));
    [sg; auto|].
  unfold do_flush, st_good; cbn [s_root s_last s_snaps s_dumps opt_good].
  sg; auto using good_flush.
Qed.

Lemma bulk_insert_good cfg kvts st : cfg_ok cfg -> st_good cfg st -> st_good cfg (fst (bulk_insert cfg kvts st)).
Proof.
  intros C G. unfold bulk_insert. destruct (is_nil kvts) eqn:En; [exact G|].
  set (st1 := if (0 <? s_buffered st) && (c_max_buffered cfg <? s_buffered st + entries_size kvts)
              then flush_tree cfg (c_cleanup cfg) false st else st).
  assert (G1 : st_good cfg st1) by (unfold st1; destruct (_ && _); auto using flush_tree_good).
  set (st2 := with_counts st1 (s_cnt_flush st1) (s_cnt_cleanup st1) (s_buffered st1 + entries_size kvts)).
  assert (G2 : st_good cfg st2) by exact G1.
  destruct (validate cfg (node_ts (s_root st2)) kvts) as [ik|] eqn:Ev; [|exact G2].
  destruct (validate_ok _ _ _ _ Ev) as [Hk Hl].
  assert (Hne : ik <> []).
  { destruct kvts; [discriminate|]. destruct ik; [simpl in Hl; lia | discriminate]. }
  destruct G2 as (R2 & L2 & S2 & D2).
  pose proof (good_tree_insert cfg (s_root st2) ik C R2 Hne Hk) as P. unfold tree_insert in P.
  destruct (insert (c_maxn cfg) (s_root st2) ik) as [nodes|].
  - destruct (grow (length nodes) (c_maxn cfg) (kvts_max_ts ik) nodes) as [r|]; [|sg; auto].
    destruct P as [_ Pg]. cbn [fst].
    match goal with |- st_good cfg (if ?b then _ else _) => destruct b end.
    + apply flush_tree_good. sg; auto.
    + sg; auto.
  - cbn [fst]. destruct (s_mut st2); [|sg; auto].
    destruct (s_last st2) as [l|] eqn:El; sg; cbn [s_root s_last s_snaps s_dumps with_root]; auto.
    + rewrite El. exact L2.
    + apply good_empty.
    + rewrite El. exact I.
Qed.

Lemma increase_ts_good cfg ts st : st_good cfg st -> st_good cfg (fst (increase_ts cfg ts st)).
Proof.
  intros G. unfold increase_ts. destruct (ts <=? node_ts (s_root st)); [exact G|]. cbn [fst].
  destruct G as (G1 & G2 & G3 & G4).
  match goal with |- st_good cfg (if ?b then _ else _) => destruct b end.
  - apply flush_tree_good. sg; auto. apply good_set_ts; auto.
  - sg; auto. apply good_set_ts; auto.
Qed.

Lemma snapshot_good cfg id ts renew st : st_good cfg st -> st_good cfg (fst (snapshot cfg id ts renew st)).
Proof.
  intros G. unfold snapshot.
  destruct (node_ts (s_root st) <? ts); [exact G|].
  destruct (N.of_nat (length (s_snaps st)) =? c_max_snaps cfg); [exact G|].
  set (st1 := if s_mut st then _ else st).
  assert (G1 : st_good cfg st1).
  { unfold st1. destruct (s_mut st); auto.
    match goal with |- st_good cfg (if ?b then _ else _) => destruct b end; auto using flush_tree_good. }
  set (st2 := if s_mut st1 then st1 else with_last st1 (Some (s_root st1))).
  assert (G2 : st_good cfg st2).
  { unfold st2. destruct (s_mut st1); auto. destruct G1 as (A & B & D & E). sg; auto. }
  destruct (s_last st2) as [r|] eqn:El; [|exact G2]. cbn [fst].
  destruct G2 as (A & B & D & E). rewrite El in B. sg; auto.
  - cbn [s_last with_snaps]. rewrite El. exact B.
  - cbn [s_snaps with_snaps]. constructor; auto.
Qed.

Lemma snap_close_good cfg id st : st_good cfg st -> st_good cfg (fst (snap_close id st)).
Proof.
  intros G. unfold snap_close. destruct (snap_find id st); [|exact G]. cbn [fst].
  destruct G as (A & B & D & E). sg; auto. cbn [s_snaps with_snaps].
  rewrite Forall_forall in *. intros x Hx. apply filter_In in Hx as [Hx _]. auto.
Qed.

Lemma compact_good cfg st : st_good cfg st -> st_good cfg (fst (compact cfg st)).
Proof.
  intros G. unfold compact. destruct (s_clog st <? c_compaction_thld cfg); [exact G|].
  pose proof (flush_tree_good cfg false false st G) as G1.
  set (st1 := flush_tree cfg false false st) in *.
  match goal with |- st_good cfg (fst (if ?b then _ else _)) => destruct b end; [exact G1|].
  cbn [fst]. destruct G1 as (A & B & D & E). sg; auto. cbn [s_dumps with_dumps]. constructor; auto.
Qed.

Lemma newest_dump_in best ds :
  let r := newest_dump best ds in
  r = best \/ In (fst (fst r), snd (fst r)) ds.
Proof.
  revert best. induction ds as [|[id t] ds IH]; intros best; simpl; auto.
  destruct (fst (fst best) <? id).
  - destruct (IH (id, t, id)) as [E | H]; [rewrite E; simpl; auto | auto].
  - destruct (IH best) as [E | H]; auto.
Qed.

Lemma reopen_good cfg st : st_good cfg st -> st_good cfg (fst (reopen cfg st)).
Proof.
  intros G. unfold reopen. destruct (negb (is_nil (s_snaps st))); [exact G|].
  pose proof (flush_tree_good cfg false false st G) as G1.
  set (st1 := flush_tree cfg false false st) in *.
  set (tsfile := if ts_mutated (s_root st) then node_ts (s_root st) else s_tsfile st).
  pose proof (newest_dump_in (s_folder st1, s_root st1, tsfile) (s_dumps st1)) as Hn. cbv zeta in Hn.
  destruct (newest_dump (s_folder st1, s_root st1, tsfile) (s_dumps st1)) as [[id tree] tsf] eqn:En.
  assert (Gt : good cfg tree).
  { destruct G1 as (A & B & D & E). destruct Hn as [Hn | Hn].
    - inversion Hn; subst; auto.
    - cbn [fst snd] in Hn. rewrite Forall_forall in E. apply (E (id, tree) Hn). }
  pose proof (good_reload cfg tree Gt) as Gr.
  destruct (node_ts (reload tree) <? tsf); cbn [fst]; sg; cbn [s_root s_last s_snaps s_dumps opt_good]; auto.
  apply good_set_ts; auto.
Qed.

Theorem mstep_good cfg st o : cfg_ok cfg -> st_good cfg st -> st_good cfg (mstep cfg st o).
Proof.
  intros C G. destruct o; cbn [mstep].
  - apply bulk_insert_good; auto.
  - apply increase_ts_good; auto.
  - apply flush_tree_good; auto.
  - apply flush_tree_good; auto.
  - apply compact_good; auto.
  - apply reopen_good; auto.
  - apply snapshot_good; auto.
  - apply snap_close_good; auto.
Qed.

Theorem mrun_good cfg ops : cfg_ok cfg -> st_good cfg (mrun cfg ops).
Proof.
  intros C. unfold mrun. rewrite <- (rev_involutive ops).
  induction (rev ops) as [|o r IH]; [apply st_good_init|].
  simpl. rewrite fold_left_app. simpl. apply mstep_good; auto.
Qed.

(* every tree that lives in a reachable state *)
Definition in_state (n : node) (st : tbstate) : Prop :=
  n = s_root st \/ s_last st = Some n \/ In n (map snd (s_snaps st)) \/ In n (map snd (s_dumps st)).

Theorem reachable_trees_good cfg ops n : cfg_ok cfg -> in_state n (mrun cfg ops) -> good cfg n.
Proof.
  intros C H. destruct (mrun_good cfg ops C) as (A & B & D & E).
  destruct H as [-> | [H | [H | H]]]; auto.
  - rewrite H in B. exact B.
  - apply in_map_iff in H as (x & <- & Hx). rewrite Forall_forall in D. auto.
  - apply in_map_iff in H as (x & <- & Hx). rewrite Forall_forall in E. auto.
Qed.

(* ---------- snapshots ---------- *)
Lemma flush_node_ts n : node_ts (flush_node n) = node_ts n.
Proof. destruct n; reflexivity. Qed.

(* a snapshot asked to include ts is not older than ts *)
Theorem snapshot_not_older cfg id ts renew st st' r :
  snapshot cfg id ts renew st = (st', Some r) -> ts <= node_ts r.
Proof.
  unfold snapshot.
  destruct (N.ltb_spec (node_ts (s_root st)) ts) as [L | L]; [discriminate|].
  destruct (N.of_nat (length (s_snaps st)) =? c_max_snaps cfg); [discriminate|].
  destruct (s_mut st) eqn:Em.
  - destruct (s_last st) as [l|] eqn:El.
    + destruct (N.ltb_spec (node_ts l) (node_ts (s_root st))) as [L1 | L1].
      * destruct (N.ltb_spec (node_ts l) ts) as [L2 | L2]; cbn [orb].
        -- unfold flush_tree. rewrite Em. cbn [negb andb]. unfold do_flush. cbn [s_mut s_last with_last s_root].
           intros E; inversion E; subst. rewrite flush_node_ts. exact L.
        -- destruct renew.
           ++ unfold flush_tree. rewrite Em. cbn [negb andb]. unfold do_flush. cbn [s_mut s_last with_last s_root].
              intros E; inversion E; subst. rewrite flush_node_ts. exact L.
           ++ rewrite Em, El. intros E; inversion E; subst. exact L2.
      * rewrite Em, El. intros E; inversion E; subst. lia.
    + unfold flush_tree. rewrite Em. cbn [negb andb]. unfold do_flush. cbn [s_mut s_last with_last s_root].
      intros E; inversion E; subst. rewrite flush_node_ts. exact L.
  - rewrite Em. cbn [with_last s_last]. intros E; inversion E; subst. exact L.
Qed.

(* operations other than closing it (or taking another snapshot under the same id) leave an open
   snapshot exactly as it is *)
Lemma flush_tree_snaps cfg h f st : s_snaps (flush_tree cfg h f st) = s_snaps st.
Proof. unfold flush_tree. destruct (_ && _); reflexivity. Qed.

Lemma bulk_insert_snaps cfg kvts st : s_snaps (fst (bulk_insert cfg kvts st)) = s_snaps st.
Proof.
  unfold bulk_insert. destruct (is_nil kvts); [reflexivity|].
  set (st1 := if _ && _ then flush_tree cfg (c_cleanup cfg) false st else st).
  assert (E1 : s_snaps st1 = s_snaps st) by (unfold st1; destruct (_ && _); auto using flush_tree_snaps).
  destruct (validate _ _ _) as [ik|]; [|exact E1].
  destruct (insert _ _ _) as [nodes|].
  - destruct (grow _ _ _ _) as [r|]; [|exact E1]. cbn [fst].
    match goal with |- s_snaps (if ?b then _ else _) = _ => destruct b end;
      rewrite ?flush_tree_snaps; exact E1.
  - cbn [fst]. destruct (s_mut _); [|exact E1]. destruct (s_last _); exact E1.
Qed.

Lemma increase_ts_snaps cfg ts st : s_snaps (fst (increase_ts cfg ts st)) = s_snaps st.
Proof.
  unfold increase_ts. destruct (_ <=? _); [reflexivity|]. cbn [fst].
  match goal with |- s_snaps (if ?b then _ else _) = _ => destruct b end;
    rewrite ?flush_tree_snaps; reflexivity.
Qed.

Lemma compact_snaps cfg st : s_snaps (fst (compact cfg st)) = s_snaps st.
Proof.
  unfold compact. destruct (_ <? _); [reflexivity|].
  match goal with |- s_snaps (fst (if ?b then _ else _)) = _ => destruct b end;
    cbn [fst with_dumps s_snaps]; apply flush_tree_snaps.
Qed.

Definition keeps_snapshot (id : N) (o : mop) : Prop :=
  match o with
  | MSnapClose id' => id' <> id
  | MSnap id' _ _ => id' <> id
  | _ => True
  end.

Theorem snapshot_step_immutable cfg st o id r :
  snap_find id st = Some r -> keeps_snapshot id o -> snap_find id (mstep cfg st o) = Some r.
Proof.
  intros H K. unfold snap_find in *. destruct o; cbn [mstep].
  - rewrite bulk_insert_snaps. exact H.
  - rewrite increase_ts_snaps. exact H.
  - rewrite flush_tree_snaps. exact H.
  - rewrite flush_tree_snaps. exact H.
  - rewrite compact_snaps. exact H.
  - (* Close refuses while a snapshot is open *)
    unfold reopen. destruct (s_snaps st) as [|x l] eqn:E; [simpl in H; discriminate|].
    cbn [is_nil negb fst]. rewrite E. exact H.
  - simpl in K. unfold snapshot.
    destruct (_ <? _); [exact H|]. destruct (_ =? _); [exact H|].
    set (st1 := if s_mut st then _ else st).
    assert (E1 : s_snaps st1 = s_snaps st).
    { unfold st1. destruct (s_mut st); auto.
      match goal with |- s_snaps (if ?b then _ else _) = _ => destruct b end; auto using flush_tree_snaps. }
    set (st2 := if s_mut st1 then st1 else with_last st1 (Some (s_root st1))).
    assert (E2 : s_snaps st2 = s_snaps st) by (unfold st2; destruct (s_mut st1); exact E1).
    destruct (s_last st2); cbn [fst]; [|rewrite E2; exact H].
    cbn [s_snaps with_snaps find fst]. destruct (N.eqb_spec id0 id); [congruence|]. rewrite E2. exact H.
  - simpl in K. unfold snap_close, snap_find.
    destruct (find (fun x => fst x =? id0) (s_snaps st)); cbn [fst]; [|exact H].
    cbn [s_snaps with_snaps]. revert H. induction (s_snaps st) as [|x l IH]; simpl; auto.
    destruct (N.eqb_spec (fst x) id) as [E | E].
    + intros H. destruct (N.eqb_spec (fst x) id0); [congruence|]. cbn [negb filter find].
      destruct (N.eqb_spec (fst x) id); [exact H | congruence].
    + intros H. destruct (negb (fst x =? id0)); auto. cbn [find].
      destruct (N.eqb_spec (fst x) id); [congruence | auto].
Qed.

Theorem snapshot_immutable cfg ops st id r :
  snap_find id st = Some r -> Forall (keeps_snapshot id) ops ->
  snap_find id (fold_left (mstep cfg) ops st) = Some r.
Proof.
  revert st. induction ops as [|o ops IH]; intros st H K; [exact H|].
  apply Forall_cons_iff in K as [K1 K2]. simpl. apply IH; auto.
  apply snapshot_step_immutable; auto.
Qed.

(* block 0 of the history log never changes once it exists *)
Lemma flush_tree_h0 cfg h f st : s_h0 st <> [] -> s_h0 (flush_tree cfg h f st) = s_h0 st.
Proof.
  intros H. unfold flush_tree. destruct (_ && _); [reflexivity|]. unfold do_flush. cbn [s_h0].
  destruct (s_h0 st); [congruence | reflexivity].
Qed.

Theorem h0_stable cfg st o : s_h0 st <> [] -> s_h0 (mstep cfg st o) = s_h0 st.
Proof.
  intros H. destruct o; cbn [mstep].
  - unfold bulk_insert. destruct (is_nil kvts); [reflexivity|].
    set (st1 := if _ && _ then flush_tree cfg (c_cleanup cfg) false st else st).
    assert (E1 : s_h0 st1 = s_h0 st) by (unfold st1; destruct (_ && _); auto using flush_tree_h0).
    destruct (validate _ _ _) as [ik|]; [|exact E1].
    destruct (insert _ _ _) as [nodes|].
    + destruct (grow _ _ _ _) as [r|]; [|exact E1]. cbn [fst].
      match goal with |- s_h0 (if ?b then _ else _) = _ => destruct b end; [|exact E1].
      rewrite flush_tree_h0; [exact E1|]. cbn [s_h0 bump with_counts with_root]. rewrite E1. exact H.
    + cbn [fst]. destruct (s_mut _); [|exact E1]. destruct (s_last _); exact E1.
  - unfold increase_ts. destruct (_ <=? _); [reflexivity|]. cbn [fst].
    match goal with |- s_h0 (if ?b then _ else _) = _ => destruct b end; [|reflexivity].
    rewrite flush_tree_h0; [reflexivity | exact H].
  - apply flush_tree_h0; auto.
  - apply flush_tree_h0; auto.
  - unfold compact. destruct (_ <? _); [reflexivity|].
    match goal with |- s_h0 (fst (if ?b then _ else _)) = _ => destruct b end;
      cbn [fst with_dumps s_h0]; apply flush_tree_h0; auto.
  - unfold reopen. destruct (negb _); [reflexivity|].
    destruct (newest_dump _ _) as [[id tree] tsf]. destruct (_ <? _); cbn [fst s_h0]; apply flush_tree_h0; auto.
  - unfold snapshot. destruct (_ <? _); [reflexivity|]. destruct (_ =? _); [reflexivity|].
    set (st1 := if s_mut st then _ else st).
    assert (E1 : s_h0 st1 = s_h0 st).
    { unfold st1. destruct (s_mut st); auto.
      match goal with |- s_h0 (if ?b then _ else _) = _ => destruct b end; auto using flush_tree_h0. }
    set (st2 := if s_mut st1 then st1 else with_last st1 (Some (s_root st1))).
    assert (E2 : s_h0 st2 = s_h0 st) by (unfold st2; destruct (s_mut st1); exact E1).
    destruct (s_last st2); cbn [fst]; exact E2.
  - unfold snap_close. destruct (snap_find id st); reflexivity.
Qed.

(* ---------- how each operation changes the abstract content ---------- *)
Lemma flush_tree_abs cfg h f st : abs (s_root (flush_tree cfg h f st)) = abs (s_root st).
Proof. unfold flush_tree. destruct (_ && _); [reflexivity|]. apply flush_node_abs. Qed.
Lemma flush_tree_ts cfg h f st : node_ts (s_root (flush_tree cfg h f st)) = node_ts (s_root st).
Proof. unfold flush_tree. destruct (_ && _); [reflexivity|]. apply flush_node_ts. Qed.

Lemma set_node_ts_abs n t : abs (set_node_ts n t) = abs n.
Proof. destruct n; reflexivity. Qed.
Lemma reload_abs n : abs (reload n) = abs n.
Proof. destruct n; reflexivity. Qed.

(* what the abstract map says a BulkInsert must do *)
Inductive insert_verdict := Refused | Rejected | Accepted (m' : mvmap).
Definition spec_insert (cfg : config) (currTs : N) (kvts : list kvt) (m : mvmap) : insert_verdict :=
  if is_nil kvts then Refused else
  match validate cfg currTs kvts with
  | None => Refused                       (* malformed batch / timestamp not above the current one *)
  | Some ik => match mv_insert ik m with
               | Some m' => Accepted m'   (* all entries, in order *)
               | None => Rejected         (* a key with a decreasing timestamp inside the batch *)
               end
  end.

Theorem mstep_content cfg st o : cfg_ok cfg -> st_good cfg st ->
  let st' := mstep cfg st o in
  match o with
  | MInsert kvts =>
      match spec_insert cfg (node_ts (s_root st)) kvts (abs (s_root st)) with
      | Refused => abs (s_root st') = abs (s_root st)
      | Accepted m' => abs (s_root st') = m'
      | Rejected =>        (* see rollback_refuted: the tree may go back to the last flushed root *)
          abs (s_root st') = abs (s_root st) \/
          (exists l, s_last st = Some l /\ abs (s_root st') = abs l) \/
          (s_last st = None /\ abs (s_root st') = [])
      end
  | MReopen => abs (s_root st') = abs (s_root st) \/
               exists d, In d (s_dumps st) /\ abs (s_root st') = abs (snd d)
  | _ => abs (s_root st') = abs (s_root st)
  end.
Proof.
  intros C G. destruct o; cbn [mstep]; cbv zeta.
  - unfold spec_insert, bulk_insert. destruct (is_nil kvts) eqn:En; [reflexivity|].
    set (st1 := if _ && _ then flush_tree cfg (c_cleanup cfg) false st else st).
    assert (G1 : st_good cfg st1) by (unfold st1; destruct (_ && _); auto using flush_tree_good).
    assert (A1 : abs (s_root st1) = abs (s_root st)) by (unfold st1; destruct (_ && _); auto using flush_tree_abs).
    assert (T1 : node_ts (s_root st1) = node_ts (s_root st)) by (unfold st1; destruct (_ && _); auto using flush_tree_ts).
    cbn [s_root with_counts]. rewrite T1.
    destruct (validate cfg (node_ts (s_root st)) kvts) as [ik|] eqn:Ev; [|exact A1].
    destruct (validate_ok _ _ _ _ Ev) as [Hk Hl].
    assert (Hne : ik <> []).
    { destruct kvts; [discriminate|]. destruct ik; [simpl in Hl; lia | discriminate]. }
    destruct G1 as (R1 & _).
    pose proof (good_tree_insert cfg (s_root st1) ik C R1 Hne Hk) as P. unfold tree_insert in P.
    rewrite A1 in P.
    destruct (insert (c_maxn cfg) (s_root st1) ik) as [nodes|].
    + destruct (grow (length nodes) (c_maxn cfg) (kvts_max_ts ik) nodes) as [r|].
      * destruct P as [P1 _]. rewrite P1. cbn [fst].
        match goal with |- abs (s_root (if ?b then _ else _)) = _ => destruct b end;
          rewrite ?flush_tree_abs; reflexivity.
      * rewrite P. left. exact A1.
    + rewrite P. cbn [fst]. cbn [s_mut s_last with_counts].
      assert (L1 : s_last st1 = s_last st \/ (exists r, s_last st1 = Some r /\ abs r = abs (s_root st))).
      { unfold st1. destruct (_ && _); auto. unfold flush_tree. destruct (_ && _); auto.
        right. eexists. split; [reflexivity|]. apply flush_node_abs. }
      destruct (s_mut st1); [|left; exact A1].
      destruct (s_last st1) as [l|] eqn:El; cbn [s_root with_root].
      * destruct L1 as [L1 | (r & L1 & L2)].
        -- right. left. exists l. split; [congruence | reflexivity].
        -- left. inversion L1; subst. exact L2.
      * destruct L1 as [L1 | (r & L1 & _)]; [|discriminate].
        right. right. split; [congruence | reflexivity].
  - unfold increase_ts. destruct (_ <=? _); [reflexivity|]. cbn [fst].
    match goal with |- abs (s_root (if ?b then _ else _)) = _ => destruct b end;
      rewrite ?flush_tree_abs; apply set_node_ts_abs.
  - apply flush_tree_abs.
  - apply flush_tree_abs.
  - unfold compact. destruct (_ <? _); [reflexivity|].
    match goal with |- abs (s_root (fst (if ?b then _ else _))) = _ => destruct b end;
      cbn [fst with_dumps s_root]; apply flush_tree_abs.
  - unfold reopen. destruct (negb _); [left; reflexivity|].
    set (st1 := flush_tree cfg false false st).
    set (tsfile := if ts_mutated (s_root st) then node_ts (s_root st) else s_tsfile st).
    pose proof (newest_dump_in (s_folder st1, s_root st1, tsfile) (s_dumps st1)) as Hn. cbv zeta in Hn.
    destruct (newest_dump (s_folder st1, s_root st1, tsfile) (s_dumps st1)) as [[id tree] tsf] eqn:En.
    assert (Ed : s_dumps st1 = s_dumps st) by (unfold st1, flush_tree; destruct (_ && _); reflexivity).
    destruct Hn as [Hn | Hn].
    + left. inversion Hn; subst. destruct (_ <? _); cbn [fst s_root];
        rewrite ?set_node_ts_abs, reload_abs; apply flush_tree_abs.
    + right. exists (id, tree). cbn [fst snd] in *. rewrite <- Ed. split; auto.
      destruct (_ <? _); cbn [fst s_root]; rewrite ?set_node_ts_abs, reload_abs; reflexivity.
  - unfold snapshot. destruct (_ <? _); [reflexivity|]. destruct (_ =? _); [reflexivity|].
    set (st1 := if s_mut st then _ else st).
    assert (E1 : abs (s_root st1) = abs (s_root st)).
    { unfold st1. destruct (s_mut st); auto.
      match goal with |- abs (s_root (if ?b then _ else _)) = _ => destruct b end; auto using flush_tree_abs. }
    set (st2 := if s_mut st1 then st1 else with_last st1 (Some (s_root st1))).
    assert (E2 : abs (s_root st2) = abs (s_root st)) by (unfold st2; destruct (s_mut st1); exact E1).
    destruct (s_last st2); cbn [fst]; exact E2.
  - unfold snap_close. destruct (snap_find id st); reflexivity.
Qed.

(* ---------- where the code that exists violates the property ---------- *)
Definition cfg_w : config :=
  {| c_maxn := 128; c_maxkey := 8; c_maxval := 8; c_flush_thld := 100000; c_max_buffered := 4194304;
     c_cleanup := false; c_compaction_thld := 1; c_max_snaps := 10 |}.

Example cfg_w_ok : cfg_ok cfg_w.
Proof. unfold cfg_ok, cfg_sizes, required_node_size. vm_compute. discriminate. Qed.

(* a@1, a@2, flush, b@5, b@6, b@7, flush; GetBetween(b, 1, 3): before e30fc04 this returned a's value
   at ts 1 (the loop walked into block 0 of the history log); now: not found, as the map says *)
Definition ops_overrun : list mop :=
  [MInsert [([97], [65; 49], 1)]; MInsert [([97], [65; 50], 2)]; MFlush false;
   MInsert [([98], [66; 53], 5)]; MInsert [([98], [66; 54], 6)]; MInsert [([98], [66; 55], 7)];
   MFlush false].

Example get_between_overrun_fixed :
  let st := mrun cfg_w ops_overrun in
  s_h0 st = [([65; 49], 1)] /\
  get_between (s_h0 st) (s_root st) [98] 1 3 = None /\
  mv_get_between [98] 1 3 (abs (s_root st)) = None.
Proof. vm_compute. repeat split; reflexivity. Qed.

(* a@1, flush, c@2 (accepted), then the batch [d@9; d@8]: the map rejects it, so nothing may change;
   the tree goes back to the last flushed root and c is gone *)
Definition ops_rollback : list mop :=
  [MInsert [([97], [65; 49], 1)]; MFlush false; MInsert [([99], [67; 50], 2)]].

Theorem rollback_refuted :
  exists cfg ops kvts k, cfg_ok cfg /\
    let st := mrun cfg ops in
    let st' := mstep cfg st (MInsert kvts) in
    spec_insert cfg (node_ts (s_root st)) kvts (abs (s_root st)) = Rejected /\
    get (s_root st) k = Some ([67; 50], 2, 1) /\ get (s_root st') k = None /\
    node_ts (s_root st) = 2 /\ node_ts (s_root st') = 1.
Proof.
  exists cfg_w, ops_rollback, [([100], [68; 57], 9); ([100], [68; 56], 8)], [99].
  split; [exact cfg_w_ok|]. vm_compute. repeat split; reflexivity.
Qed.

(* 18b7c7d: after a restart the last flushed root is the loaded root, and it never becomes
   undefined again, so a rejected batch can no longer replace the tree by an empty one *)
Lemma flush_tree_last_some cfg h f st : s_last st <> None -> s_last (flush_tree cfg h f st) <> None.
Proof. unfold flush_tree. destruct (_ && _); auto. unfold do_flush. cbn [s_last]. discriminate. Qed.

Theorem last_stays_defined cfg st o : s_last st <> None -> s_last (mstep cfg st o) <> None.
Proof.
  intros H. destruct o; cbn [mstep].
  - unfold bulk_insert. destruct (is_nil kvts); [exact H|].
    set (st1 := if _ && _ then flush_tree cfg (c_cleanup cfg) false st else st).
    assert (H1 : s_last st1 <> None) by (unfold st1; destruct (_ && _); auto using flush_tree_last_some).
    destruct (validate _ _ _) as [ik|]; [|exact H1].
    destruct (insert _ _ _) as [nodes|].
    + destruct (grow _ _ _ _) as [r|]; [|exact H1]. cbn [fst].
      match goal with |- s_last (if ?b then _ else _) <> None => destruct b end;
        [apply flush_tree_last_some|]; exact H1.
    + cbn [fst]. destruct (s_mut _); [|exact H1].
      cbn [s_last with_counts]. destruct (s_last st1) eqn:El; [|congruence].
      cbn [s_last with_root with_counts]. rewrite El. discriminate.
  - unfold increase_ts. destruct (_ <=? _); [exact H|]. cbn [fst].
    match goal with |- s_last (if ?b then _ else _) <> None => destruct b end;
      [apply flush_tree_last_some|]; exact H.
  - apply flush_tree_last_some; auto.
  - apply flush_tree_last_some; auto.
  - unfold compact. destruct (_ <? _); [exact H|].
    match goal with |- s_last (fst (if ?b then _ else _)) <> None => destruct b end;
      cbn [fst s_last with_dumps]; apply flush_tree_last_some; auto.
  - unfold reopen. destruct (negb _); [exact H|].
    destruct (newest_dump _ _) as [[id tree] tsf]. destruct (_ <? _); cbn [fst s_last]; discriminate.
  - unfold snapshot. destruct (_ <? _); [exact H|]. destruct (_ =? _); [exact H|].
    set (st1 := if s_mut st then _ else st).
    assert (H1 : s_last st1 <> None).
    { unfold st1. destruct (s_mut st); auto.
      match goal with |- s_last (if ?b then _ else _) <> None => destruct b end; auto using flush_tree_last_some. }
    set (st2 := if s_mut st1 then st1 else with_last st1 (Some (s_root st1))).
    assert (H2 : s_last st2 <> None) by (unfold st2; destruct (s_mut st1); [exact H1 | discriminate]).
    destruct (s_last st2) eqn:El; [|congruence]. cbn [fst s_last with_snaps]. rewrite El. discriminate.
  - unfold snap_close. destruct (snap_find id st); exact H.
Qed.

Theorem reopen_defines_last cfg st st' : reopen cfg st = (st', true) -> s_last st' <> None.
Proof.
  unfold reopen. destruct (negb _); [discriminate|].
  destruct (newest_dump _ _) as [[id tree] tsf]. destruct (_ <? _); intros E; inversion E; subst;
    cbn [s_last]; discriminate.
Qed.
