(* Order facts on byte strings (bcmp), strictly sorted key lists, and the algebra of the abstract
   map that the B-tree refinement needs: where a key of a sorted concatenation lives, and that a
   bulk insert distributes over a split of the map at a key boundary. *)
From V Require Import Index.MVMap.
From Coq Require Import ZifyN ZifyNat ZifyBool.

Definition klt (a b : bytes) : Prop := bcmp a b = Lt.
Definition kle (a b : bytes) : Prop := bcmp a b <> Gt.

Lemma bcmp_gt_lt a b : bcmp a b = Gt <-> bcmp b a = Lt.
Proof. rewrite (bcmp_antisym b a). destruct (bcmp b a); simpl; split; congruence. Qed.

Lemma klt_irrefl a : ~ klt a a.
Proof. unfold klt; rewrite bcmp_refl; discriminate. Qed.

Lemma klt_trans a b c : klt a b -> klt b c -> klt a c.
Proof. apply bcmp_trans_lt. Qed.

Lemma klt_asym a b : klt a b -> ~ klt b a.
Proof. intros H1 H2. apply (klt_irrefl a). eapply klt_trans; eauto. Qed.

Lemma kle_cases a b : kle a b <-> klt a b \/ a = b.
Proof.
  unfold kle, klt. split.
  - destruct (bcmp a b) eqn:E; intros H; auto; try congruence. right; apply bcmp_eq; auto.
  - intros [H | H]; [rewrite H; discriminate | subst; rewrite bcmp_refl; discriminate].
Qed.

Lemma kle_refl a : kle a a.
Proof. apply kle_cases; auto. Qed.

Lemma klt_kle a b : klt a b -> kle a b.
Proof. intros; apply kle_cases; auto. Qed.

Lemma klt_kle_trans a b c : klt a b -> kle b c -> klt a c.
Proof. intros H1 H2; apply kle_cases in H2 as [H2 | ->]; eauto using klt_trans. Qed.

Lemma kle_klt_trans a b c : kle a b -> klt b c -> klt a c.
Proof. intros H1 H2; apply kle_cases in H1 as [H1 | ->]; eauto using klt_trans. Qed.

Lemma kle_trans a b c : kle a b -> kle b c -> kle a c.
Proof.
  intros H1 H2. apply kle_cases in H1 as [H1 | ->]; auto.
  apply klt_kle. eapply klt_kle_trans; eauto.
Qed.

Lemma not_klt_kle a b : ~ klt a b -> kle b a.
Proof.
  unfold klt, kle. intros H G. apply bcmp_gt_lt in G. auto.
Qed.

Lemma kle_not_klt a b : kle a b -> ~ klt b a.
Proof. unfold kle, klt; intros H G; apply H; apply bcmp_gt_lt; auto. Qed.

Lemma klt_total a b : klt a b \/ a = b \/ klt b a.
Proof.
  unfold klt. destruct (bcmp a b) eqn:E; auto.
  - right; left; apply bcmp_eq; auto.
  - right; right; apply bcmp_gt_lt; auto.
Qed.

Lemma kle_antisym a b : kle a b -> kle b a -> a = b.
Proof.
  intros H1 H2. apply kle_cases in H1 as [H1 | H1]; auto.
  exfalso. eapply kle_not_klt; eauto.
Qed.

(* boolean reflections *)
Lemma blt_iff a b : blt a b = true <-> klt a b.
Proof. unfold blt, klt; destruct (bcmp a b); split; congruence. Qed.
Lemma ble_iff a b : ble a b = true <-> kle a b.
Proof. unfold ble, kle; destruct (bcmp a b); split; congruence. Qed.
Lemma beq_iff a b : beq a b = true <-> a = b.
Proof.
  unfold beq. destruct (bcmp a b) eqn:E; split; try congruence.
  - intros _; apply bcmp_eq; auto.
  - intros ->; rewrite bcmp_refl in E; discriminate.
  - intros ->; rewrite bcmp_refl in E; discriminate.
Qed.
Lemma blt_false a b : blt a b = false <-> kle b a.
Proof.
  split; intros H.
  - apply not_klt_kle. intros G; apply blt_iff in G; congruence.
  - destruct (blt a b) eqn:E; auto. apply blt_iff in E. exfalso; eapply kle_not_klt; eauto.
Qed.
Lemma ble_false a b : ble a b = false <-> klt b a.
Proof.
  unfold ble, klt. rewrite (bcmp_antisym a b). destruct (bcmp a b); simpl; split; congruence.
Qed.
Lemma beq_refl a : beq a a = true.
Proof. apply beq_iff; auto. Qed.
Lemma beq_sym a b : beq a b = beq b a.
Proof.
  destruct (beq a b) eqn:E1, (beq b a) eqn:E2; auto.
  - apply beq_iff in E1; subst; rewrite beq_refl in E2; discriminate.
  - apply beq_iff in E2; subst; rewrite beq_refl in E1; discriminate.
Qed.

(* ---------- strictly sorted lists ---------- *)
Fixpoint ssorted (l : list bytes) : Prop :=
  match l with
  | [] => True
  | a :: r => Forall (klt a) r /\ ssorted r
  end.

Lemma ssorted_app a b :
  ssorted (a ++ b) <-> ssorted a /\ ssorted b /\ (forall x y, In x a -> In y b -> klt x y).
Proof.
  induction a as [|x a IH]; simpl.
  - split; [intros H; repeat split; auto; intros ? ? [] | intros (_ & H & _); auto].
  - rewrite IH. rewrite Forall_app. split.
    + intros ((H1 & H2) & H3 & H4 & H5). repeat split; auto.
      intros u v [-> | Hu] Hv; auto. rewrite Forall_forall in H2; auto.
    + intros ((H1 & H2) & H3 & H4). repeat split; auto.
      apply Forall_forall. intros v Hv. apply H4; auto.
Qed.

Lemma ssorted_cons_inv a r : ssorted (a :: r) -> ssorted r.
Proof. simpl; tauto. Qed.

Lemma ssorted_head_lt a r x : ssorted (a :: r) -> In x r -> klt a x.
Proof. simpl; intros [H _] Hx. rewrite Forall_forall in H; auto. Qed.

Lemma ssorted_NoDup_in a r : ssorted (a :: r) -> ~ In a r.
Proof. intros H Hin. eapply klt_irrefl. eapply ssorted_head_lt; eauto. Qed.

(* ---------- the abstract map ---------- *)
Definition keys (m : mvmap) : list bytes := map fst m.
Definition mv_wf (m : mvmap) : Prop := ssorted (keys m).

Lemma keys_app a b : keys (a ++ b) = keys a ++ keys b.
Proof. apply map_app. Qed.

Lemma mv_find_not_in k m : ~ In k (keys m) -> mv_find k m = None.
Proof.
  induction m as [|[k' vs] m IH]; simpl; auto. intros H.
  destruct (beq k k') eqn:E. { apply beq_iff in E. subst. tauto. }
  apply IH. tauto.
Qed.

Lemma mv_find_app k a b :
  mv_find k (a ++ b) = match mv_find k a with Some v => Some v | None => mv_find k b end.
Proof.
  induction a as [|[k' vs] a IH]; simpl; auto. destruct (beq k k'); auto.
Qed.

Lemma mv_find_app_r k a b : ~ In k (keys a) -> mv_find k (a ++ b) = mv_find k b.
Proof. intros H. rewrite mv_find_app, mv_find_not_in; auto. Qed.

Lemma mv_find_app_l k a b : ~ In k (keys b) -> mv_find k (a ++ b) = mv_find k a.
Proof.
  intros H. rewrite mv_find_app. destruct (mv_find k a); auto. apply mv_find_not_in; auto.
Qed.

Lemma mv_find_in k vs m : mv_wf m -> In (k, vs) m -> mv_find k m = Some vs.
Proof.
  unfold mv_wf. induction m as [|[k' vs'] m IH]; simpl; [tauto|]. intros [H1 H2] [E | Hin].
  - inversion E; subst. rewrite beq_refl. reflexivity.
  - destruct (beq k k') eqn:E; [|auto]. apply beq_iff in E; subst. exfalso.
    rewrite Forall_forall in H1. eapply klt_irrefl. apply H1. apply in_map_iff. exists (k', vs); auto.
Qed.

Lemma mv_find_some_in k vs m : mv_find k m = Some vs -> In (k, vs) m.
Proof.
  induction m as [|[k' vs'] m IH]; simpl; [discriminate|].
  destruct (beq k k') eqn:E; intros H.
  - apply beq_iff in E; subst. inversion H; subst; auto.
  - auto.
Qed.

(* put at the left / right part of a split map *)
Lemma mv_put_app_l e a b :
  (forall y, In y (keys b) -> klt (kvt_key e) y) ->
  mv_put e (a ++ b) = match mv_put e a with Some a' => Some (a' ++ b) | None => None end.
Proof.
  destruct e as [[k v] t]. unfold kvt_key; simpl fst. intros H.
  induction a as [|[k' vs] a IH].
  - simpl. destruct b as [|[k' vs] b]; auto.
    assert (L : klt k k') by (apply H; simpl; auto). unfold klt in L. simpl. rewrite L. reflexivity.
  - simpl. destruct (bcmp k k'); auto.
    + destruct vs as [|[v0 t0] vs]; auto. destruct (t <? t0); auto. destruct (t0 <? t); auto.
    + cbn [mv_put] in IH. rewrite IH. destruct (mv_put (k, v, t) a); auto.
Qed.

Lemma mv_put_app_r e a b :
  (forall x, In x (keys a) -> klt x (kvt_key e)) ->
  mv_put e (a ++ b) = match mv_put e b with Some b' => Some (a ++ b') | None => None end.
Proof.
  destruct e as [[k v] t]. unfold kvt_key; simpl fst. intros H.
  induction a as [|[k' vs] a IH].
  - simpl. destruct (mv_put (k, v, t) b); auto.
  - assert (L : klt k' k) by (apply H; simpl; auto).
    apply bcmp_gt_lt in L. simpl. rewrite L. cbn [mv_put] in IH. rewrite IH.
    + destruct (mv_put (k, v, t) b); auto.
    + intros x Hx; apply H; simpl; auto.
Qed.

(* keys after a put: the old ones plus the new key *)
Lemma mv_put_keys e m m' x :
  mv_put e m = Some m' -> In x (keys m') <-> (x = kvt_key e \/ In x (keys m)).
Proof.
  destruct e as [[k v] t]. unfold kvt_key; simpl fst. revert m'.
  induction m as [|[k' vs] m IH]; intros m'; simpl.
  - intros H; inversion H; subst; simpl. intuition (subst; auto).
  - destruct (bcmp k k') eqn:E.
    + apply bcmp_eq in E; subst k'.
      destruct vs as [|[v0 t0] vs].
      * intros H; inversion H; subst; simpl. intuition (subst; auto).
      * destruct (t <? t0); [discriminate|].
        destruct (t0 <? t); intros H; inversion H; subst; simpl; intuition (subst; auto).
    + intros H; inversion H; subst; simpl. intuition (subst; auto).
    + cbn [mv_put] in IH. destruct (mv_put (k, v, t) m) as [r'|]; [|discriminate].
      intros H; inversion H; subst; simpl. rewrite (IH r' eq_refl). intuition (subst; auto).
Qed.

Lemma mv_put_wf e m m' : mv_wf m -> mv_put e m = Some m' -> mv_wf m'.
Proof.
  destruct e as [[k v] t]. unfold mv_wf. revert m'.
  induction m as [|[k' vs] m IH]; intros m'; simpl.
  - intros _ H; inversion H; subst; simpl; auto.
  - intros [H1 H2]. destruct (bcmp k k') eqn:E.
    + destruct vs as [|[v0 t0] vs].
      * intros H; inversion H; subst; simpl; auto.
      * destruct (t <? t0); [discriminate|]. destruct (t0 <? t); intros H; inversion H; subst; simpl; auto.
    + intros H; inversion H; subst. simpl. split; auto. constructor; auto.
      rewrite Forall_forall in *. intros x Hx. eapply klt_trans; eauto.
    + cbn [mv_put] in IH. destruct (mv_put (k, v, t) m) as [r'|] eqn:P; [|discriminate].
      intros H; inversion H; subst. simpl. split; [|apply IH; auto].
      apply Forall_forall. intros x Hx.
      apply (mv_put_keys (k, v, t) m r' x P) in Hx. unfold kvt_key in Hx; simpl in Hx.
      destruct Hx as [-> | Hx]; [apply bcmp_gt_lt; auto | rewrite Forall_forall in H1; auto].
Qed.

Lemma mv_insert_wf kvts m m' : mv_wf m -> mv_insert kvts m = Some m' -> mv_wf m'.
Proof.
  revert m. induction kvts as [|e r IH]; intros m W; simpl.
  - intros H; inversion H; subst; auto.
  - destruct (mv_put e m) as [m1|] eqn:P; [|discriminate]. apply IH. eapply mv_put_wf; eauto.
Qed.

(* A bulk insert distributes over a split of the map at a boundary [s]: the entries with a key
   below [s] go to the left part, the others to the right part, each keeping their order. *)
Definition below (s : bytes) (e : kvt) : bool := blt (kvt_key e) s.

Lemma mv_insert_split s kvts a b :
  (forall x, In x (keys a) -> klt x s) ->
  (forall y, In y (keys b) -> kle s y) ->
  mv_insert kvts (a ++ b) =
  match mv_insert (filter (below s) kvts) a, mv_insert (filter (fun e => negb (below s e)) kvts) b with
  | Some a', Some b' => Some (a' ++ b')
  | _, _ => None
  end.
Proof.
  revert a b. induction kvts as [|e r IH]; intros a b Ha Hb; [reflexivity|].
  cbn [filter mv_insert]. destruct (below s e) eqn:E; cbn [negb mv_insert].
  - unfold below in E. apply blt_iff in E.
    rewrite mv_put_app_l by (intros y Hy; eapply klt_kle_trans; eauto).
    destruct (mv_put e a) as [a'|] eqn:P; auto.
    apply IH; auto. intros x Hx. apply (mv_put_keys e a a' x P) in Hx as [-> | Hx]; auto.
  - unfold below in E. apply blt_false in E.
    rewrite mv_put_app_r by (intros x Hx; eapply klt_kle_trans; eauto).
    destruct (mv_put e b) as [b'|] eqn:P.
    + apply IH; auto. intros y Hy. apply (mv_put_keys e b b' y P) in Hy as [-> | Hy]; auto.
    + destruct (mv_insert (filter (below s) r) a); auto.
Qed.

(* nothing to insert *)
Lemma mv_insert_nil m : mv_insert [] m = Some m.
Proof. reflexivity. Qed.

(* keys of the result: old keys and batch keys *)
Lemma mv_insert_keys kvts m m' x :
  mv_insert kvts m = Some m' -> In x (keys m') <-> (In x (map kvt_key kvts) \/ In x (keys m)).
Proof.
  revert m. induction kvts as [|e r IH]; intros m; simpl.
  - intros H; inversion H; subst. tauto.
  - destruct (mv_put e m) as [m1|] eqn:P; [|discriminate]. intros H.
    rewrite (IH m1 H). rewrite (mv_put_keys e m m1 x P). split; intros; intuition (subst; auto).
Qed.

(* ---------- versions are strictly decreasing in time ---------- *)
Fixpoint desc_ts (l : versions) : Prop :=
  match l with
  | [] => True
  | x :: r => Forall (fun y => snd y < snd x) r /\ desc_ts r
  end.
Definition mv_tsorted (m : mvmap) : Prop := Forall (fun kv => snd kv <> [] /\ desc_ts (snd kv)) m.

Lemma mv_put_tsorted e m m' : mv_tsorted m -> mv_put e m = Some m' -> mv_tsorted m'.
Proof.
  destruct e as [[k v] t]. unfold mv_tsorted. revert m'.
  induction m as [|[k' vs] m IH]; intros m' T; simpl.
  - intros H; inversion H; subst. constructor; auto. simpl. split; [discriminate | auto].
  - apply Forall_cons_iff in T as [T1 T2]. destruct (bcmp k k').
    + destruct vs as [|[v0 t0] vs].
      * intros H; inversion H; subst. constructor; auto. simpl. split; [discriminate | auto].
      * destruct (N.ltb_spec t t0) as [La | La]; [discriminate|].
        destruct (N.ltb_spec t0 t) as [Lb | Lb]; intros Hq; inversion Hq; subst.
        -- constructor; auto. simpl in *. destruct T1 as [_ [T1 T3]]. split; [discriminate|]. split; auto.
           constructor; auto. rewrite Forall_forall in *. intros y Hy. specialize (T1 y Hy). lia.
        -- constructor; auto.
    + intros H; inversion H; subst. constructor; [|constructor; auto]. simpl. split; [discriminate | auto].
    + cbn [mv_put] in IH. destruct (mv_put (k, v, t) m) as [r'|]; [|discriminate].
      intros H; inversion H; subst. constructor; auto.
Qed.

Lemma mv_insert_tsorted kvts m m' : mv_tsorted m -> mv_insert kvts m = Some m' -> mv_tsorted m'.
Proof.
  revert m. induction kvts as [|e r IH]; intros m T; simpl.
  - intros H; inversion H; subst; auto.
  - destruct (mv_put e m) as [m1|] eqn:P; [|discriminate]. apply IH. eapply mv_put_tsorted; eauto.
Qed.

(* the scan the implementation performs over a version list (newest first): stop with "not found"
   at the first version older than initialTs, return the first one not newer than finalTs *)
Fixpoint scanl (i f : N) (l : versions) : option (bytes * N * N) :=
  match l with
  | [] => None
  | (v, t) :: r =>
      if t <? i then None
      else if (f =? 0) || (t <=? f) then Some (v, t, N.of_nat (length l))
      else scanl i f r
  end.

Lemma vs_between_none i f l : Forall (fun y => snd y < i) l -> vs_between i f l = None.
Proof.
  induction l as [|[v t] l IH]; intros H; simpl; auto.
  apply Forall_cons_iff in H as [H1 H2]. simpl in H1. unfold in_window.
  destruct (N.leb_spec i t); [lia|]. simpl. auto.
Qed.

Lemma scanl_between i f l : desc_ts l -> scanl i f l = vs_between i f l.
Proof.
  induction l as [|[v t] l IH]; intros D; auto. destruct D as [D1 D2].
  cbn [scanl vs_between]. unfold in_window. destruct (N.ltb_spec t i) as [L | L].
  - destruct (N.leb_spec i t); [lia|]. cbn [andb]. symmetry. apply vs_between_none.
    rewrite Forall_forall in *. intros y Hy. specialize (D1 y Hy). simpl in D1. lia.
  - destruct (N.leb_spec i t); [|lia]. cbn [andb]. destruct ((f =? 0) || (t <=? f)); auto.
Qed.
