(* Every key stored in any reachable tree is a well-formed byte string (non-empty, at most
   MaxKeySize bytes, every byte below 256) provided the keys handed to BulkInsert are byte
   strings; with it the Reader theorem is stated against the declarative range spec mv_scan. *)
From V Require Import Index.MVMap Index.MVMapProofs Index.BTree Index.BTreeProofs Index.QueryProofs
  Index.ReaderProofs Index.TBState Index.TBStateProofs.
From Coq Require Import ZifyN ZifyNat ZifyBool.

Section ForallInsertK.
  Variable Q : lval -> Prop.
  Variable K : kvt -> Prop.
  Hypothesis Qnew : forall k v t, K (k, v, t) -> Q {| lv_key := k; lv_tvs := [(v, t)]; lv_blocks := [] |}.
  Hypothesis Qupd : forall lv v t, Q lv ->
    Q {| lv_key := lv_key lv; lv_tvs := (v, t) :: lv_tvs lv; lv_blocks := lv_blocks lv |}.

  Lemma leaf_put_forall_k vs e vs' : K e -> Forall Q vs -> leaf_put vs e = Some vs' -> Forall Q vs'.
  Proof.
    destruct e as [[k v] t]. unfold leaf_put. destruct (leaf_index_of vs k) as [i found].
    intros Hk H. destruct found.
    - destruct (nth_error vs (N.to_nat i)) as [lv|] eqn:En; [|discriminate].
      destruct (t <? snd (lv_latest lv)); [discriminate|].
      destruct (snd (lv_latest lv) <? t); intros E; apply some_inj in E; subst vs'; auto.
      apply Forall_app; split; [apply Forall_firstn; auto|].
      constructor; [|apply Forall_skipn; auto].
      apply Qupd. rewrite Forall_forall in H. apply H. eapply nth_error_In; eauto.
    - intros E; apply some_inj in E; subst vs'.
      apply Forall_app; split; [apply Forall_firstn; auto|].
      constructor; [apply Qnew; auto | apply Forall_skipn; auto].
  Qed.

  Lemma leaf_puts_forall_k kvts : forall vs vs',
    Forall K kvts -> Forall Q vs -> leaf_puts vs kvts = Some vs' -> Forall Q vs'.
  Proof.
    induction kvts as [|e r IH]; intros vs vs' Hk H; simpl.
    - intros E; inversion E; subst; auto.
    - apply Forall_cons_iff in Hk as [Hk1 Hk2].
      destruct (leaf_put vs e) as [vs1|] eqn:P; [|discriminate]. apply IH; auto.
      eapply leaf_put_forall_k; eauto.
  Qed.

  Lemma insert_forall_k maxn n : forall kvts ns,
    Forall K kvts -> Forall Q (flatten n) -> insert maxn n kvts = Some ns -> Forall Q (flat ns).
  Proof.
    induction n as [t vs | t cs IH] using node_ind'; intros kvts ns Hk H.
    - cbn [insert]. destruct (leaf_puts vs kvts) as [vs'|] eqn:P; [|discriminate].
      intros E; inversion E; subst. rewrite split_leaf_flat. eapply leaf_puts_forall_k; eauto.
    - rewrite insert_inner_eq.
      assert (G : forall l i ncs t', Forall (fun c => forall kvts ns, Forall K kvts -> Forall Q (flatten c) ->
                                            insert maxn c kvts = Some ns -> Forall Q (flat ns)) l ->
                  Forall Q (flat l) -> go_ins maxn cs kvts l i = Some (ncs, t') -> Forall Q (flat ncs)).
      { induction l as [|c r IHl]; intros i ncs t' HP HQ.
        - rewrite go_ins_nil. intros E; inversion E; subst. constructor.
        - rewrite go_ins_cons. cbv zeta.
          apply Forall_cons_iff in HP as [Hc HPr]. rewrite flat_cons in HQ. apply Forall_app in HQ as [Q1 Q2].
          destruct (filter (fun e => inner_index_of cs (kvt_key e) =? i) kvts) as [|e g'] eqn:Eg.
          + destruct (go_ins maxn cs kvts r (i + 1)) as [[rest t2]|] eqn:Er; [|discriminate].
            intros E; inversion E; subst. cbn [app]. rewrite flat_cons. apply Forall_app; split; auto.
            eapply IHl; eauto.
          + destruct (insert maxn c (e :: g')) as [ns1|] eqn:Ei; [|discriminate].
            destruct (go_ins maxn cs kvts r (i + 1)) as [[rest t2]|] eqn:Er; [|discriminate].
            intros E; inversion E; subst. rewrite flat_app. apply Forall_app; split.
            * apply (Hc (e :: g') ns1); auto. rewrite <- Eg. apply filter_sub. exact Hk.
            * eapply IHl; eauto. }
      destruct (go_ins maxn cs kvts cs 0) as [[ncs t']|] eqn:Eg; [|discriminate].
      intros E; inversion E; subst. rewrite split_inner_flat. eapply G; eauto.
  Qed.
End ForallInsertK.

(* ---------- a generic invariant of the state machine for properties of single entries ---------- *)
Section EntryInvariant.
  Variable cfg : config.
  Variable Q : lval -> Prop.
  Variable K : kvt -> Prop.
  Hypothesis Qnew : forall k v t, K (k, v, t) -> Q {| lv_key := k; lv_tvs := [(v, t)]; lv_blocks := [] |}.
  Hypothesis Qupd : forall lv v t, Q lv ->
    Q {| lv_key := lv_key lv; lv_tvs := (v, t) :: lv_tvs lv; lv_blocks := lv_blocks lv |}.
  Hypothesis Qflush : forall lv, Q lv -> Q (flush_lv lv).
  (* validation only replaces zero timestamps *)
  Hypothesis Kts : forall k v t t', K (k, v, t) -> K (k, v, t').

  Definition PQ (n : node) : Prop := Forall Q (flatten n).
  Definition st_all (st : tbstate) : Prop :=
    PQ (s_root st) /\ (forall l, s_last st = Some l -> PQ l) /\
    Forall (fun x => PQ (snd x)) (s_snaps st) /\ Forall (fun x => PQ (snd x)) (s_dumps st).
  Definition op_k (o : mop) : Prop := match o with MInsert kvts => Forall K kvts | _ => True end.

  Lemma PQ_flush n : PQ n -> PQ (flush_node n).
  Proof.
    unfold PQ. rewrite flush_node_flatten. intros H. rewrite Forall_forall in *. intros x Hx.
    apply in_map_iff in Hx as (lv & <- & Hlv). auto.
  Qed.
  Lemma PQ_set_ts n t : PQ n -> PQ (set_node_ts n t).
  Proof. destruct n; auto. Qed.
  Lemma PQ_reload n : PQ n -> PQ (reload n).
  Proof. destruct n; auto. Qed.

  Lemma validate_k ts kvts ik : Forall K kvts -> validate cfg ts kvts = Some ik -> Forall K ik.
  Proof.
    revert ik. induction kvts as [|[[k v] t] r IH]; intros ik Hk; simpl.
    - intros E; inversion E; subst; auto.
    - apply Forall_cons_iff in Hk as [Hk1 Hk2].
      destruct (is_nil k || is_nil v); [discriminate|].
      destruct (c_maxkey cfg <? len k); [discriminate|]. destruct (c_maxval cfg <? len v); [discriminate|].
      destruct (negb (t =? 0) && (t <=? ts)); [discriminate|].
      destruct (validate cfg ts r) as [r'|]; [|discriminate].
      intros E; inversion E; subst. constructor; eauto.
  Qed.

  Ltac sa := unfold st_all; split; [|split; [|split]].

  Lemma flush_tree_all h f st : st_all st -> st_all (flush_tree cfg h f st).
  Proof.
    intros (A & B & D & E). unfold flush_tree. destruct (_ && _); [sa; auto|].
    unfold do_flush. sa; cbn [s_root s_last s_snaps s_dumps]; auto using PQ_flush.
    intros l El. inversion El; subst. apply PQ_flush; auto.
  Qed.

  Lemma mstep_all st o : st_all st -> op_k o -> st_all (mstep cfg st o).
  Proof.
    intros G Ko. destruct o; cbn [mstep].
    - (* bulk insert *)
      simpl in Ko. unfold bulk_insert. destruct (is_nil kvts); [exact G|].
      set (st1 := if _ && _ then flush_tree cfg (c_cleanup cfg) false st else st).
      assert (G1 : st_all st1) by (unfold st1; destruct (_ && _); auto using flush_tree_all).
      destruct (validate cfg _ kvts) as [ik|] eqn:Ev; [|exact G1].
      pose proof (validate_k _ _ _ Ko Ev) as Hik.
      destruct G1 as (A & B & D & E). cbn [s_root with_counts] in *.
      destruct (insert (c_maxn cfg) (s_root st1) ik) as [nodes|] eqn:Ei.
      + destruct (grow (length nodes) (c_maxn cfg) (kvts_max_ts ik) nodes) as [r|] eqn:Eg; [|sa; auto].
        assert (Pr : PQ r).
        { unfold PQ. rewrite (grow_flat _ _ _ _ _ Eg). eapply insert_forall_k; eauto. }
        cbn [fst].
        match goal with |- st_all (if ?b then _ else _) => destruct b end.
        * apply flush_tree_all. sa; auto.
        * sa; auto.
      + cbn [fst]. destruct (s_mut _); [|sa; auto].
        cbn [s_last with_counts].
        destruct (s_last st1) as [l|] eqn:El.
        * sa; cbn [s_root s_last s_snaps s_dumps with_root with_counts]; auto.
          rewrite El. exact B.
        * sa; cbn [s_root s_last s_snaps s_dumps with_root with_counts]; auto.
          -- unfold PQ. simpl. constructor.
          -- rewrite El. exact B.
    - unfold increase_ts. destruct (_ <=? _); [exact G|]. cbn [fst]. destruct G as (A & B & D & E).
      match goal with |- st_all (if ?b then _ else _) => destruct b end.
      + apply flush_tree_all. sa; auto. apply PQ_set_ts; auto.
      + sa; auto. apply PQ_set_ts; auto.
    - apply flush_tree_all; auto.
    - apply flush_tree_all; auto.
    - unfold compact. destruct (_ <? _); [exact G|].
      pose proof (flush_tree_all false false st G) as G1.
      match goal with |- st_all (fst (if ?b then _ else _)) => destruct b end; [exact G1|].
      cbn [fst]. destruct G1 as (A & B & D & E). sa; auto. cbn [s_dumps with_dumps]. constructor; auto.
    - unfold reopen. destruct (negb _); [exact G|].
      pose proof (flush_tree_all false false st G) as G1.
      set (st1 := flush_tree cfg false false st) in *.
      set (tsfile := if ts_mutated (s_root st) then node_ts (s_root st) else s_tsfile st).
      pose proof (newest_dump_in (s_folder st1, s_root st1, tsfile) (s_dumps st1)) as Hn. cbv zeta in Hn.
      destruct (newest_dump (s_folder st1, s_root st1, tsfile) (s_dumps st1)) as [[id tree] tsf] eqn:En.
      assert (Gt : PQ tree).
      { destruct G1 as (A & B & D & E). destruct Hn as [Hn | Hn].
        - inversion Hn; subst; auto.
        - cbn [fst snd] in Hn. rewrite Forall_forall in E. apply (E (id, tree) Hn). }
      pose proof (PQ_reload tree Gt) as Gr.
      assert (Gl : forall l, Some (reload tree) = Some l -> PQ l) by (intros l El; inversion El; subst; exact Gr).
      destruct (node_ts (reload tree) <? tsf); cbn [fst]; sa; cbn [s_root s_last s_snaps s_dumps]; auto.
      apply PQ_set_ts; auto.
    - unfold snapshot. destruct (_ <? _); [exact G|]. destruct (_ =? _); [exact G|].
      set (st1 := if s_mut st then _ else st).
      assert (G1 : st_all st1).
      { unfold st1. destruct (s_mut st); auto.
        match goal with |- st_all (if ?b then _ else _) => destruct b end; auto using flush_tree_all. }
      set (st2 := if s_mut st1 then st1 else with_last st1 (Some (s_root st1))).
      assert (G2 : st_all st2).
      { unfold st2. destruct (s_mut st1); auto. destruct G1 as (A & B & D & E). sa; auto.
        cbn [s_last with_last]. intros l El. inversion El; subst; auto. }
      destruct (s_last st2) as [r|] eqn:El; [|exact G2]. cbn [fst].
      destruct G2 as (A & B & D & E). pose proof (B r El) as Pr. sa; auto.
      + cbn [s_snaps with_snaps]. constructor; auto.
    - unfold snap_close. destruct (snap_find id st); [|exact G]. cbn [fst].
      destruct G as (A & B & D & E). sa; auto. cbn [s_snaps with_snaps].
      rewrite Forall_forall in *. intros x Hx. apply filter_In in Hx as [Hx _]. auto.
  Qed.

  Lemma st_all_init : st_all init_state.
  Proof. sa; simpl; auto; try discriminate. unfold PQ; simpl; constructor. Qed.

  Theorem mrun_all ops : Forall op_k ops -> st_all (mrun cfg ops).
  Proof.
    unfold mrun. rewrite <- (rev_involutive ops). intros H.
    induction (rev ops) as [|o r IH]; [apply st_all_init|].
    simpl in *. rewrite fold_left_app. simpl. apply Forall_app in H as [H1 H2].
    apply mstep_all; auto. inversion H2; auto.
  Qed.

  Theorem reachable_all ops n : Forall op_k ops -> in_state n (mrun cfg ops) -> PQ n.
  Proof.
    intros Hk H. destruct (mrun_all ops Hk) as (A & B & D & E).
    destruct H as [-> | [H | [H | H]]]; auto.
    - apply in_map_iff in H as (x & <- & Hx). rewrite Forall_forall in D. auto.
    - apply in_map_iff in H as (x & <- & Hx). rewrite Forall_forall in E. auto.
  Qed.
End EntryInvariant.
