(* TBState — the TBtree object as a state machine around the functional tree of BTree.v:
   root / root.mutated() / lastSnapRoot, the insertion counters that trigger flushes, bulkInsert
   (argument validation, buffered-size flush, rollback on a failed insert, root growth), IncreaseTs,
   flushTree (what a flush does to the content: in-memory older versions become a history block),
   SnapshotMustIncludeTsWithRenewalPeriod, Compact (full dump into a folder named by the root ts),
   Close + Open (which folder the next Open loads, the TIMESTAMP file).  No proofs in this file.

   Snapshots are VALUES of the persistent tree captured when the snapshot was taken.
   Not modelled (tie only): bytes on disk, checksums, cache, offsets, cleanup/discard of old
   node data, fsync. *)
From V Require Export Index.BTree.

Record config := {
  c_maxn : N;            (* MaxNodeSize *)
  c_maxkey : N; c_maxval : N;
  c_flush_thld : N; c_max_buffered : N;
  c_cleanup : bool;      (* Options.cleanupPercentage <> 0 *)
  c_compaction_thld : N;
  c_max_snaps : N }.

Record tbstate := {
  s_root : node;
  s_mut : bool;                 (* t.root.mutated() *)
  s_last : option node;         (* t.lastSnapRoot *)
  s_cnt_flush : N;              (* insertionCountSinceFlush *)
  s_cnt_cleanup : N;            (* insertionCountSinceCleanup *)
  s_buffered : N;               (* bufferedDataSize *)
  s_clog : N;                   (* committed entries of the commit log = snapshotCount() *)
  s_h0 : list tv;               (* entries of block 0 of the history log, [] while the log is empty *)
  s_snaps : list (N * node);    (* open snapshots: harness id, captured root *)
  s_dumps : list (N * node);    (* full dumps written by Compact and not yet loaded: (ts, tree) *)
  s_folder : N;                 (* id of the nodes/commit folder in use (0 = initial) *)
  s_tsfile : N }.               (* content of the TIMESTAMP file of that folder (0 = absent) *)

Definition init_state : tbstate :=
  {| s_root := Leaf 0 []; s_mut := true; s_last := None; s_cnt_flush := 0; s_cnt_cleanup := 0;
     s_buffered := 0; s_clog := 0; s_h0 := []; s_snaps := []; s_dumps := []; s_folder := 0;
     s_tsfile := 0 |}.

Definition with_root (st : tbstate) (r : node) (m : bool) : tbstate :=
  {| s_root := r; s_mut := m; s_last := s_last st; s_cnt_flush := s_cnt_flush st;
     s_cnt_cleanup := s_cnt_cleanup st; s_buffered := s_buffered st; s_clog := s_clog st;
     s_h0 := s_h0 st; s_snaps := s_snaps st; s_dumps := s_dumps st; s_folder := s_folder st;
     s_tsfile := s_tsfile st |}.
Definition with_last (st : tbstate) (l : option node) : tbstate :=
  {| s_root := s_root st; s_mut := s_mut st; s_last := l; s_cnt_flush := s_cnt_flush st;
     s_cnt_cleanup := s_cnt_cleanup st; s_buffered := s_buffered st; s_clog := s_clog st;
     s_h0 := s_h0 st; s_snaps := s_snaps st; s_dumps := s_dumps st; s_folder := s_folder st;
     s_tsfile := s_tsfile st |}.
Definition with_counts (st : tbstate) (cf cc b : N) : tbstate :=
  {| s_root := s_root st; s_mut := s_mut st; s_last := s_last st; s_cnt_flush := cf;
     s_cnt_cleanup := cc; s_buffered := b; s_clog := s_clog st;
     s_h0 := s_h0 st; s_snaps := s_snaps st; s_dumps := s_dumps st; s_folder := s_folder st;
     s_tsfile := s_tsfile st |}.
Definition with_snaps (st : tbstate) (sn : list (N * node)) : tbstate :=
  {| s_root := s_root st; s_mut := s_mut st; s_last := s_last st; s_cnt_flush := s_cnt_flush st;
     s_cnt_cleanup := s_cnt_cleanup st; s_buffered := s_buffered st; s_clog := s_clog st;
     s_h0 := s_h0 st; s_snaps := sn; s_dumps := s_dumps st; s_folder := s_folder st;
     s_tsfile := s_tsfile st |}.
Definition with_dumps (st : tbstate) (d : list (N * node)) : tbstate :=
  {| s_root := s_root st; s_mut := s_mut st; s_last := s_last st; s_cnt_flush := s_cnt_flush st;
     s_cnt_cleanup := s_cnt_cleanup st; s_buffered := s_buffered st; s_clog := s_clog st;
     s_h0 := s_h0 st; s_snaps := s_snaps st; s_dumps := d; s_folder := s_folder st;
     s_tsfile := s_tsfile st |}.

(* ---------- flush ---------- *)
(* leafNode.writeTo with commitLog: timedValues[1:] become one history block, timedValues = [:1] *)
Definition flush_lv (lv : lval) : lval :=
  match lv_tvs lv with
  | x :: y :: r => {| lv_key := lv_key lv; lv_tvs := [x]; lv_blocks := (y :: r) :: lv_blocks lv |}
  | _ => lv
  end.
Fixpoint flush_node (n : node) : node :=
  match n with
  | Leaf t vs => Leaf t (map flush_lv vs)
  | Inner t cs => Inner t (map flush_node cs)
  end.
(* the first history block a flush of [n] appends (nodes are written in order) *)
Definition first_block (n : node) : list tv :=
  match find (fun lv => match lv_tvs lv with _ :: _ :: _ => true | _ => false end) (flatten n) with
  | Some lv => tl (lv_tvs lv)
  | None => []
  end.

Definition do_flush (pct : bool) (st : tbstate) : tbstate :=
  let r := flush_node (s_root st) in
  {| s_root := r; s_mut := false; s_last := Some r; s_cnt_flush := 0;
     s_cnt_cleanup := if pct then 0 else s_cnt_cleanup st; s_buffered := 0; s_clog := s_clog st + 1;
     s_h0 := if is_nil (s_h0 st) then first_block (s_root st) else s_h0 st;
     s_snaps := s_snaps st; s_dumps := s_dumps st; s_folder := s_folder st; s_tsfile := s_tsfile st |}.

(* flushTree(cleanupPercentageHint <> 0, _, forceCleanup) *)
Definition flush_tree (cfg : config) (hint forceCleanup : bool) (st : tbstate) : tbstate :=
  let pct := hint && (forceCleanup || negb (s_cnt_cleanup st <? c_flush_thld cfg)) in
  if negb (s_mut st) && negb pct then st else do_flush pct st.

(* ---------- bulkInsert ---------- *)
Definition entries_size (kvts : list kvt) : N :=
  fold_left (fun acc e => acc + (len (kvt_key e) + len (kvt_val e) + 8)) kvts 0.

(* validation loop: the immutable copy with zero timestamps replaced by currTs+1 *)
Fixpoint validate (cfg : config) (currTs : N) (kvts : list kvt) : option (list kvt) :=
  match kvts with
  | [] => Some []
  | (k, v, t) :: r =>
      if is_nil k || is_nil v then None
      else if c_maxkey cfg <? len k then None
      else if c_maxval cfg <? len v then None
      else if negb (t =? 0) && (t <=? currTs) then None
      else match validate cfg currTs r with
           | Some r' => Some ((k, v, if t =? 0 then currTs + 1 else t) :: r')
           | None => None
           end
  end.

Definition bump (st : tbstate) (n : N) : tbstate :=
  with_counts st (s_cnt_flush st + n) (s_cnt_cleanup st + n) (s_buffered st).

Definition bulk_insert (cfg : config) (kvts : list kvt) (st : tbstate) : tbstate * bool :=
  if is_nil kvts then (st, false) else
  let sz := entries_size kvts in
  let st1 := if (0 <? s_buffered st) && (c_max_buffered cfg <? s_buffered st + sz)
             then flush_tree cfg (c_cleanup cfg) false st else st in
  let st2 := with_counts st1 (s_cnt_flush st1) (s_cnt_cleanup st1) (s_buffered st1 + sz) in
  match validate cfg (node_ts (s_root st2)) kvts with
  | None => (st2, false)
  | Some ikvts =>
      match insert (c_maxn cfg) (s_root st2) ikvts with
      | None =>
          (* "changes may need to be rolled back": the most recent flushed root, or a fresh tree *)
          (if s_mut st2
           then match s_last st2 with
                | None => with_root st2 (Leaf 0 []) true
                | Some l => with_root st2 l false
                end
           else st2, false)
      | Some nodes =>
          match grow (length nodes) (c_maxn cfg) (kvts_max_ts ikvts) nodes with
          | None => (st2, false)
          | Some r =>
              let st3 := bump (with_root st2 r true) (N.of_nat (length ikvts)) in
              (if c_flush_thld cfg <=? s_cnt_flush st3
               then flush_tree cfg (c_cleanup cfg) false st3 else st3, true)
          end
      end
  end.

(* IncreaseTs *)
Definition increase_ts (cfg : config) (ts : N) (st : tbstate) : tbstate * bool :=
  if ts <=? node_ts (s_root st) then (st, false) else
  let st1 := bump (with_root st (set_node_ts (s_root st) ts) true) 1 in
  (if c_flush_thld cfg <=? s_cnt_flush st1 then flush_tree cfg (c_cleanup cfg) false st1 else st1, true).

(* ---------- snapshots ---------- *)
(* SnapshotMustIncludeTsWithRenewalPeriod(ts, p); [renew] = "p > 0 and p has elapsed since the
   last snapshot root was taken".  Result: the captured root. *)
Definition snapshot (cfg : config) (id ts : N) (renew : bool) (st : tbstate) : tbstate * option node :=
  if node_ts (s_root st) <? ts then (st, None) else
  if N.of_nat (length (s_snaps st)) =? c_max_snaps cfg then (st, None) else
  let st1 :=
    if s_mut st then
      let need := match s_last st with
                  | None => true
                  | Some l => if node_ts l <? node_ts (s_root st) then (node_ts l <? ts) || renew else false
                  end in
      if need then flush_tree cfg (c_cleanup cfg) false st else st
    else st in
  let st2 := if s_mut st1 then st1 else with_last st1 (Some (s_root st1)) in
  match s_last st2 with
  | None => (st2, None)
  | Some r => (with_snaps st2 ((id, r) :: s_snaps st2), Some r)
  end.

Definition snap_find (id : N) (st : tbstate) : option node :=
  match find (fun x => fst x =? id) (s_snaps st) with Some x => Some (snd x) | None => None end.
Definition snap_close (id : N) (st : tbstate) : tbstate * bool :=
  match snap_find id st with
  | None => (st, false)
  | Some _ => (with_snaps st (filter (fun x => negb (fst x =? id)) (s_snaps st)), true)
  end.

(* ---------- compaction, close, open ---------- *)
Definition compact (cfg : config) (st : tbstate) : tbstate * option N :=
  if s_clog st <? c_compaction_thld cfg then (st, None) else
  let st1 := flush_tree cfg false false st in
  let ts := node_ts (s_root st1) in
  if (ts =? s_folder st1) || existsb (fun d => fst d =? ts) (s_dumps st1) then (st1, None)
  else (with_dumps st1 ((ts, s_root st1) :: s_dumps st1), Some ts).

(* what readNodeAt gives for a root: its timestamp is recomputed from what it holds *)
Definition reload (n : node) : node :=
  match n with
  | Leaf _ vs => Leaf (leaf_max_ts vs) vs
  | Inner _ cs => Inner (nodes_max_ts cs) cs
  end.
Definition ts_mutated (n : node) : bool :=
  match n with
  | Leaf t vs => forallb (fun lv => snd (lv_latest lv) <? t) vs
  | Inner t cs => forallb (fun c => node_ts c <? t) cs
  end.

Fixpoint newest_dump (best : N * node * N) (ds : list (N * node)) : N * node * N :=
  match ds with
  | [] => best
  | (id, t) :: r => newest_dump (if fst (fst best) <? id then (id, t, id) else best) r
  end.

(* Close() followed by Open() on the same directory; refused while snapshots are open *)
Definition reopen (cfg : config) (st : tbstate) : tbstate * bool :=
  if negb (is_nil (s_snaps st)) then (st, false) else
  let tsfile := if ts_mutated (s_root st) then node_ts (s_root st) else s_tsfile st in
  let st1 := flush_tree cfg false false st in
  let '(id, tree, tsf) := newest_dump (s_folder st1, s_root st1, tsfile) (s_dumps st1) in
  let r0 := reload tree in
  let '(r1, m) := if node_ts r0 <? tsf then (set_node_ts r0 tsf, true) else (r0, false) in
  ({| s_root := r1; s_mut := m; s_last := Some r0 (* 18b7c7d: lastSnapRoot = the loaded root *);
      s_cnt_flush := 0; s_cnt_cleanup := 0; s_buffered := 0;
      s_clog := if id =? s_folder st1 then s_clog st1 else 1;
      s_h0 := s_h0 st1; s_snaps := []; s_dumps := []; s_folder := id; s_tsfile := tsf |}, true).

(* ---------- the state machine over operations (what the harness drives) ---------- *)
Inductive mop :=
| MInsert (kvts : list kvt)
| MIncTs (ts : N)
| MFlush (pct : bool)
| MSync
| MCompact
| MReopen
| MSnap (id ts : N) (renew : bool)
| MSnapClose (id : N).

Definition mstep (cfg : config) (st : tbstate) (o : mop) : tbstate :=
  match o with
  | MInsert kvts => fst (bulk_insert cfg kvts st)
  | MIncTs ts => fst (increase_ts cfg ts st)
  | MFlush pct => flush_tree cfg pct true st
  | MSync => flush_tree cfg false false st
  | MCompact => fst (compact cfg st)
  | MReopen => fst (reopen cfg st)
  | MSnap id ts renew => fst (snapshot cfg id ts renew st)
  | MSnapClose id => fst (snap_close id st)
  end.

Definition mrun (cfg : config) (ops : list mop) : tbstate := fold_left (mstep cfg) ops init_state.
