(* The operational reading of a reader (mv_walk, with the fields as adjusted by Snapshot.NewReader)
   is the declarative range specification mv_scan of the ORIGINAL ReaderSpec, for maps whose keys
   are well-formed (non-empty, at most MaxKeySize bytes, bytes below 256). *)
From V Require Import Index.MVMap Index.MVMapProofs Index.BTree Index.BTreeProofs Index.QueryProofs
  Index.ReaderProofs.
From Coq Require Import ZifyN ZifyNat ZifyBool.

(* ---------- prefixes and the greatest prefixed key ---------- *)
Lemma has_prefix_split p k : has_prefix p k = true -> exists r, k = p ++ r.
Proof.
  revert k. induction p as [|x p IH]; intros k H; [exists k; reflexivity|].
  destruct k as [|y k]; [discriminate|]. simpl in H. apply andb_prop in H as [H1 H2].
  apply N.eqb_eq in H1. subst y. destruct (IH k H2) as [r ->]. exists r. reflexivity.
Qed.

Lemma has_prefix_app p r : has_prefix p (p ++ r) = true.
Proof. induction p as [|x p IH]; simpl; auto. rewrite N.eqb_refl. exact IH. Qed.

Lemma bcmp_nil_l k : bcmp [] k <> Gt.
Proof. destruct k; discriminate. Qed.

Lemma prefix_le p k : has_prefix p k = true -> kle p k.
Proof.
  intros H. destruct (has_prefix_split p k H) as [r ->]. unfold kle.
  rewrite <- (app_nil_r p) at 1. rewrite bcmp_app_same. apply bcmp_nil_l.
Qed.

Lemma bcmp_repeat_255 r : forall n, bytes_ok r = true -> (length r <= n)%nat -> bcmp r (repeat 255 n) <> Gt.
Proof.
  induction r as [|x r IH]; intros n Hb Hl; [apply bcmp_nil_l|].
  destruct n as [|n]; [simpl in Hl; lia|]. simpl in *. apply andb_prop in Hb as [H1 H2].
  unfold byte_ok in H1. apply N.ltb_lt in H1.
  destruct (N.compare_spec x 255) as [E | L | G]; [apply IH; auto; lia | discriminate | lia].
Qed.

Lemma prefix_le_gpk maxKey p k :
  has_prefix p k = true -> bytes_ok k = true -> len k <= maxKey -> kle k (greatest_key maxKey p).
Proof.
  intros H Hb Hl. destruct (has_prefix_split p k H) as [r ->]. unfold kle, greatest_key.
  rewrite bcmp_app_same. rewrite bytes_ok_app in Hb. apply andb_prop in Hb as [_ Hb].
  apply bcmp_repeat_255; auto. unfold len in Hl. rewrite app_length in Hl. lia.
Qed.

(* ---------- boolean forms of the bounds ---------- *)
Lemma seek_form_asc a k i : ble a k && negb (negb i && beq a k) = blt a k || (i && beq k a).
Proof.
  rewrite (beq_sym k a). unfold ble, blt, beq. destruct (bcmp a k), i; reflexivity.
Qed.

Lemma seek_form_desc a k i : ble k a && negb (negb i && beq a k) = blt k a || (i && beq k a).
Proof.
  rewrite (beq_sym a k). unfold ble, blt, beq. destruct (bcmp k a), i; reflexivity.
Qed.

Lemma end_form_asc e k i :
  negb (negb (is_nil e) && (blt e k || (beq e k && negb i))) = is_nil e || blt k e || (i && beq k e).
Proof.
  rewrite (beq_sym k e). unfold blt, beq. rewrite (bcmp_antisym e k).
  destruct (is_nil e), (bcmp e k), i; reflexivity.
Qed.

Lemma end_form_desc e k i : k <> [] ->
  negb (negb (is_nil e) && (blt k e || (beq e k && negb i))) = blt e k || (i && beq k e).
Proof.
  intros Hk. destruct e as [|x e].
  - simpl. destruct k; [congruence|]. reflexivity.
  - cbn [is_nil negb andb]. rewrite (beq_sym k (x :: e)). unfold blt, beq.
    rewrite (bcmp_antisym (x :: e) k). destruct (bcmp (x :: e) k), i; reflexivity.
Qed.

(* ---------- walking a list = filtering it, when the stop condition is monotone ---------- *)
Definition w_keep (s : rspec) (kv : bytes * versions) : bool :=
  negb (negb (rs_incl_seek s) && beq (rs_seek s) (fst kv)).
Definition w_end (s : rspec) (kv : bytes * versions) : bool :=
  negb (negb (is_nil (rs_end s)) && beyond_end s (fst kv)).
Definition w_pre (s : rspec) (kv : bytes * versions) : bool :=
  negb (negb (is_nil (rs_prefix s)) && negb (has_prefix (rs_prefix s) (fst kv))).

Fixpoint walk0 (s : rspec) (l : mvmap) : mvmap :=
  match l with
  | [] => []
  | kv :: r =>
      if negb (w_keep s kv) then walk0 s r
      else if negb (w_end s kv) then []
      else if negb (w_pre s kv) then walk0 s r
      else kv :: walk0 s r
  end.

Lemma walk_keys_offset s : forall l k,
  mv_walk_keys s l k = skipn (N.to_nat (rs_offset s - k)) (walk0 s l).
Proof.
  induction l as [|kv r IH]; intros k; [rewrite skipn_nil; reflexivity|].
  cbn [mv_walk_keys walk0]. unfold w_keep, w_end, w_pre. cbv zeta. rewrite !negb_involutive.
  destruct (negb (rs_incl_seek s) && beq (rs_seek s) (fst kv)); [apply IH|].
  destruct (negb (is_nil (rs_end s)) && beyond_end s (fst kv)); [rewrite skipn_nil; reflexivity|].
  destruct (negb (is_nil (rs_prefix s)) && negb (has_prefix (rs_prefix s) (fst kv))); [apply IH|].
  destruct (N.ltb_spec k (rs_offset s)) as [L | L].
  - rewrite IH. replace (N.to_nat (rs_offset s - k)) with (S (N.to_nat (rs_offset s - (k + 1)))) by lia.
    reflexivity.
  - replace (N.to_nat (rs_offset s - k)) with O by lia. cbn [skipn]. f_equal.
    rewrite IH. replace (N.to_nat (rs_offset s - k)) with O by lia. reflexivity.
Qed.

(* once f is false it stays false further down the list *)
Fixpoint stays_false {A} (f : A -> bool) (l : list A) : Prop :=
  match l with
  | [] => True
  | x :: r => (f x = false -> Forall (fun y => f y = false) r) /\ stays_false f r
  end.
Fixpoint stays_true {A} (f : A -> bool) (l : list A) : Prop :=
  match l with
  | [] => True
  | x :: r => (f x = true -> Forall (fun y => f y = true) r) /\ stays_true f r
  end.

Lemma filter_all_false {A} (f g : A -> bool) l :
  Forall (fun y => f y = false) l -> filter (fun x => g x && f x) l = [].
Proof.
  induction l as [|x l IH]; intros H; simpl; auto. inversion H; subst. rewrite H2, andb_false_r. auto.
Qed.

Lemma walk0_filter s l :
  stays_false (w_end s) l -> walk0 s l = filter (fun kv => w_keep s kv && w_pre s kv && w_end s kv) l.
Proof.
  induction l as [|kv r IH]; intros H; [reflexivity|]. destruct H as [H1 H2].
  cbn [walk0 filter]. destruct (w_keep s kv); cbn [negb andb]; [|apply IH; auto].
  destruct (w_end s kv) eqn:E; cbn [negb].
  - rewrite andb_true_r. destruct (w_pre s kv); cbn [negb]; [f_equal|]; apply IH; auto.
  - rewrite andb_false_r. symmetry. apply filter_all_false. auto.
Qed.

Lemma drop_until_filter {A} (f : A -> bool) l : stays_true f l -> drop_until f l = filter f l.
Proof.
  induction l as [|x l IH]; intros H; [reflexivity|]. destruct H as [H1 H2].
  cbn [drop_until filter]. destruct (f x) eqn:E; [|apply IH; auto].
  f_equal. symmetry. clear - H1. specialize (H1 eq_refl).
  induction l as [|y l IH]; auto. inversion H1; subst. simpl. rewrite H2. f_equal. auto.
Qed.

Lemma stays_false_filter {A} (f g : A -> bool) l : stays_false f l -> stays_false f (filter g l).
Proof.
  induction l as [|x l IH]; intros H; simpl; auto. destruct H as [H1 H2].
  destruct (g x); simpl; auto. split; auto. intros E. specialize (H1 E).
  rewrite Forall_forall in *. intros y Hy. apply filter_In in Hy as [Hy _]. auto.
Qed.

(* ---------- monotone predicates on sorted lists ---------- *)

Lemma stays_true_asc (g : bytes -> bool) m :
  ssorted (keys m) -> (forall a b, klt a b -> g a = true -> g b = true) ->
  stays_true (fun kv : bytes * versions => g (fst kv)) m.
Proof.
  intros Hs Hg. induction m as [|kv m IH]; simpl; auto. destruct Hs as [H1 H2]. split; auto.
  intros E. apply Forall_forall. intros y Hy. apply (Hg (fst kv)); auto.
  rewrite Forall_forall in H1. apply H1. apply in_map. exact Hy.
Qed.

Lemma stays_false_asc (g : bytes -> bool) m :
  ssorted (keys m) -> (forall a b, klt a b -> g a = false -> g b = false) ->
  stays_false (fun kv : bytes * versions => g (fst kv)) m.
Proof.
  intros Hs Hg. induction m as [|kv m IH]; simpl; auto. destruct Hs as [H1 H2]. split; auto.
  intros E. apply Forall_forall. intros y Hy. apply (Hg (fst kv)); auto.
  rewrite Forall_forall in H1. apply H1. apply in_map. exact Hy.
Qed.

Lemma stays_true_desc (g : bytes -> bool) l :
  dsorted (map fst l) -> (forall a b, klt b a -> g a = true -> g b = true) ->
  stays_true (fun kv : bytes * versions => g (fst kv)) l.
Proof.
  intros Hs Hg. induction l as [|kv l IH]; simpl; auto. destruct Hs as [H1 H2]. split; auto.
  intros E. apply Forall_forall. intros y Hy. apply (Hg (fst kv)); auto.
  rewrite Forall_forall in H1. apply H1. apply in_map. exact Hy.
Qed.

Lemma stays_false_desc (g : bytes -> bool) l :
  dsorted (map fst l) -> (forall a b, klt b a -> g a = false -> g b = false) ->
  stays_false (fun kv : bytes * versions => g (fst kv)) l.
Proof.
  intros Hs Hg. induction l as [|kv l IH]; simpl; auto. destruct Hs as [H1 H2]. split; auto.
  intros E. apply Forall_forall. intros y Hy. apply (Hg (fst kv)); auto.
  rewrite Forall_forall in H1. apply H1. apply in_map. exact Hy.
Qed.

(* ---------- NewReader's adjustment, spelled out ---------- *)
Lemma new_reader_inv maxKey s s' :
  new_reader maxKey s = Some s' ->
  rs_desc s' = rs_desc s /\ rs_prefix s' = rs_prefix s /\ rs_offset s' = rs_offset s /\
  len (rs_prefix s) <= maxKey /\
  (rs_seek s', rs_incl_seek s') =
    (if rs_desc s then
       if is_nil (rs_seek s) || blt (greatest_key maxKey (rs_prefix s)) (rs_seek s)
       then (greatest_key maxKey (rs_prefix s), true) else (rs_seek s, rs_incl_seek s)
     else if blt (rs_seek s) (rs_prefix s) then (rs_prefix s, true) else (rs_seek s, rs_incl_seek s)) /\
  (rs_end s', rs_incl_end s') =
    (if rs_desc s then
       if blt (rs_end s) (rs_prefix s) then (rs_prefix s, true) else (rs_end s, rs_incl_end s)
     else if is_nil (rs_end s) || blt (greatest_key maxKey (rs_prefix s)) (rs_end s)
          then (greatest_key maxKey (rs_prefix s), true) else (rs_end s, rs_incl_end s)).
Proof.
  unfold new_reader.
  destruct (N.ltb_spec maxKey (len (rs_seek s))) as [L1 | L1]; [discriminate|].
  destruct (N.ltb_spec maxKey (len (rs_prefix s))) as [L2 | L2]; [discriminate|]. cbn [orb].
  destruct (if rs_desc s then _ else _) as [seek incS] eqn:E1.
  destruct (if rs_desc s then if blt (rs_end s) (rs_prefix s) then _ else _ else _) as [endk incE] eqn:E2.
  intros H. inversion H; subst; clear H. cbn [rs_desc rs_prefix rs_offset rs_seek rs_incl_seek rs_end rs_incl_end].
  repeat split; auto.
Qed.

Definition key_wf (maxKey : N) (k : bytes) : Prop := k <> [] /\ len k <= maxKey /\ bytes_ok k = true.

Lemma kle_bool a k : kle a k -> blt a k || beq k a = true.
Proof.
  intros H. apply kle_cases in H as [H | ->]; [apply blt_iff in H; rewrite H; reflexivity|].
  rewrite beq_refl. apply orb_true_r.
Qed.
Lemma kle_bool' k a : kle k a -> blt k a || beq k a = true.
Proof.
  intros H. apply kle_cases in H as [H | ->]; [apply blt_iff in H; rewrite H; reflexivity|].
  rewrite beq_refl. apply orb_true_r.
Qed.

Lemma w_pre_eq s kv : w_pre s kv = has_prefix (rs_prefix s) (fst kv).
Proof.
  unfold w_pre. destruct (rs_prefix s) as [|x p]; [reflexivity|]. cbn [is_nil negb andb].
  apply negb_involutive.
Qed.

(* the per-key decision of the walk (with the adjusted fields) is the selection of the original spec *)
Lemma sel_walk maxKey s s' kv :
  new_reader maxKey s = Some s' -> key_wf maxKey (fst kv) ->
  (if rs_desc s' then ble (fst kv) (rs_seek s') else ble (rs_seek s') (fst kv)) &&
  (w_keep s' kv && w_pre s' kv && w_end s' kv) = selected s kv.
Proof.
  intros Hn (Hk1 & Hk2 & Hk3). destruct (new_reader_inv _ _ _ Hn) as (Ed & Ep & _ & Lp & Es & Ee).
  set (k := fst kv) in *. set (p := rs_prefix s) in *. set (gpk := greatest_key maxKey p) in *.
  rewrite w_pre_eq, Ep. fold k. unfold selected. fold k. fold p.
  destruct (has_prefix p k) eqn:Hp.
  2:{ rewrite !andb_false_r. destruct (w_keep s' kv); simpl; rewrite ?andb_false_r; reflexivity. }
  rewrite !andb_true_r.
  pose proof (prefix_le p k Hp) as Hpk.
  pose proof (prefix_le_gpk maxKey p k Hp Hk3 Hk2) as Hkg. fold gpk in Hkg.
  rewrite andb_assoc. f_equal.
  - (* the seek bound *)
    unfold w_keep, in_seek. fold k. rewrite Ed. pose proof (f_equal fst Es) as Es1. pose proof (f_equal snd Es) as Es2. cbn [fst snd] in Es1, Es2. rewrite Es1, Es2.
    destruct (rs_desc s).
    + destruct (is_nil (rs_seek s) || blt gpk (rs_seek s)) eqn:E; cbn [fst snd].
      * rewrite seek_form_desc. cbn [andb]. rewrite (kle_bool' _ _ Hkg).
        apply orb_prop in E as [E | E]; [rewrite E; reflexivity|].
        apply blt_iff in E. assert (L : klt k (rs_seek s)) by (eapply kle_klt_trans; eauto).
        apply blt_iff in L. rewrite L. rewrite orb_true_r. reflexivity.
      * rewrite seek_form_desc. apply orb_false_elim in E as [E _]. rewrite E. reflexivity.
    + destruct (blt (rs_seek s) p) eqn:E; cbn [fst snd].
      * rewrite seek_form_asc. cbn [andb]. rewrite (kle_bool _ _ Hpk).
        apply blt_iff in E. assert (L : klt (rs_seek s) k) by (eapply klt_kle_trans; eauto).
        apply blt_iff in L. rewrite L. reflexivity.
      * rewrite seek_form_asc. reflexivity.
  - (* the end bound *)
    unfold w_end, beyond_end, in_end. fold k. rewrite Ed. pose proof (f_equal fst Ee) as Ee1. pose proof (f_equal snd Ee) as Ee2. cbn [fst snd] in Ee1, Ee2. rewrite Ee1, Ee2.
    destruct (rs_desc s).
    + destruct (blt (rs_end s) p) eqn:E; cbn [fst snd].
      * rewrite end_form_desc by exact Hk1. cbn [andb]. rewrite (kle_bool _ _ Hpk).
        apply blt_iff in E. assert (L : klt (rs_end s) k) by (eapply klt_kle_trans; eauto).
        apply blt_iff in L. rewrite L. reflexivity.
      * rewrite end_form_desc by exact Hk1. reflexivity.
    + destruct (is_nil (rs_end s) || blt gpk (rs_end s)) eqn:E; cbn [fst snd].
      * rewrite end_form_asc. cbn [andb]. rewrite <- orb_assoc, (kle_bool' _ _ Hkg), orb_true_r.
        apply orb_prop in E as [E | E]; [rewrite E; reflexivity|].
        apply blt_iff in E. assert (L : klt k (rs_end s)) by (eapply kle_klt_trans; eauto).
        apply blt_iff in L. rewrite L. rewrite orb_true_r. reflexivity.
      * rewrite end_form_asc. reflexivity.
Qed.

(* ---------- mv_walk (adjusted fields) = mv_scan (original ReaderSpec) ---------- *)
Lemma filter_filter' {A} (f g : A -> bool) l : filter f (filter g l) = filter (fun x => g x && f x) l.
Proof.
  induction l as [|x l IH]; simpl; auto. destruct (g x); simpl; [destruct (f x)|]; rewrite IH; auto.
Qed.

Lemma keys_rev (m : mvmap) : map fst (rev m) = rev (keys m).
Proof. unfold keys. apply map_rev. Qed.

Theorem mv_walk_scan maxKey s s' mode m :
  mv_wf m -> Forall (key_wf maxKey) (keys m) -> new_reader maxKey s = Some s' ->
  mv_walk s' mode m = mv_scan s mode m.
Proof.
  intros W Hk Hn. destruct (new_reader_inv _ _ _ Hn) as (Ed & Ep & Eo & _).
  unfold mv_walk, mv_scan. rewrite Ed, walk_keys_offset, N.sub_0_r, Eo. f_equal. f_equal.
  set (L := if rs_desc s then rev m else m).
  assert (HkL : forall kv, In kv L -> key_wf maxKey (fst kv)).
  { intros kv H. rewrite Forall_forall in Hk. apply Hk. apply in_map.
    unfold L in H. destruct (rs_desc s); [apply in_rev in H|]; exact H. }
  set (acc := fun kv : bytes * versions =>
                if rs_desc s' then ble (fst kv) (rs_seek s') else ble (rs_seek s') (fst kv)).
  assert (Est : mv_stream s' m = filter acc L).
  { unfold mv_stream, acc, L. rewrite Ed. destruct (rs_desc s).
    - apply drop_until_filter. apply (stays_true_desc (fun k => ble k (rs_seek s'))).
      + rewrite keys_rev. apply ssorted_rev. exact W.
      + intros a b Hab Ha. apply ble_iff. apply ble_iff in Ha. apply klt_kle. eapply klt_kle_trans; eauto.
    - apply drop_until_filter. apply (stays_true_asc (fun k => ble (rs_seek s') k)); [exact W|].
      intros a b Hab Ha. apply ble_iff. apply ble_iff in Ha. apply klt_kle. eapply kle_klt_trans; eauto. }
  rewrite Est.
  assert (Hsf : stays_false (w_end s') L).
  { unfold w_end, beyond_end, L. rewrite Ed. destruct (rs_desc s).
    - apply (stays_false_desc (fun k => negb (negb (is_nil (rs_end s')) &&
                                   (blt k (rs_end s') || (beq (rs_end s') k && negb (rs_incl_end s')))))).
      + rewrite keys_rev. apply ssorted_rev. exact W.
      + intros a b Hab Ha. apply negb_false_iff in Ha. apply negb_false_iff.
        apply andb_prop in Ha as [Ha1 Ha2]. rewrite Ha1. cbn [andb].
        assert (Lb : klt b (rs_end s')).
        { apply orb_prop in Ha2 as [Ha2 | Ha2].
          - apply blt_iff in Ha2. eapply klt_trans; eauto.
          - apply andb_prop in Ha2 as [Ha2 _]. apply beq_iff in Ha2. subst a. exact Hab. }
        apply blt_iff in Lb. rewrite Lb. reflexivity.
    - apply (stays_false_asc (fun k => negb (negb (is_nil (rs_end s')) &&
                                   (blt (rs_end s') k || (beq (rs_end s') k && negb (rs_incl_end s')))))); [exact W|].
      intros a b Hab Ha. apply negb_false_iff in Ha. apply negb_false_iff.
      apply andb_prop in Ha as [Ha1 Ha2]. rewrite Ha1. cbn [andb].
      assert (Lb : klt (rs_end s') b).
      { apply orb_prop in Ha2 as [Ha2 | Ha2].
        - apply blt_iff in Ha2. eapply klt_trans; eauto.
        - apply andb_prop in Ha2 as [Ha2 _]. apply beq_iff in Ha2. subst a. exact Hab. }
      apply blt_iff in Lb. rewrite Lb. reflexivity. }
  rewrite walk0_filter by (apply stays_false_filter; exact Hsf).
  rewrite filter_filter'. apply filter_ext_in. intros kv Hin.
  unfold acc. apply (sel_walk maxKey s s' kv Hn). apply HkL. exact Hin.
Qed.

(* the premise is satisfiable: an ascending reader with a prefix over a two-key map *)
Example mv_walk_scan_example :
  let m : mvmap := [([97], [([1], 1)]); ([97; 98], [([2], 2)])] in
  let s := {| rs_seek := []; rs_end := []; rs_prefix := [97]; rs_incl_seek := false; rs_incl_end := false;
              rs_desc := false; rs_offset := 1 |} in
  mv_wf m /\ Forall (key_wf 4) (keys m) /\ exists s', new_reader 4 s = Some s' /\
  mv_scan s RLatest m = [([97; 98], [2], 2, 1)].
Proof.
  cbv zeta. split; [simpl; repeat split; auto; repeat constructor|]. split.
  - repeat constructor; try discriminate; vm_compute; discriminate.
  - eexists. split; reflexivity.
Qed.
