// Package vk: shared plumbing of the correspondence harness: deterministic PRNG, Coq case-file
// writer (cases.v evaluated by coqc with vm_compute), JSONL mirror of every case (for samples and
// replays) and run statistics.
package vk

import (
	"bufio"
	"encoding/hex"
	"encoding/json"
	"flag"
	"fmt"
	"math/rand"
	"os"
	"path/filepath"
	"sort"
	"strings"
)

type Run struct {
	Dir        string
	Rng        *rand.Rand
	Seed       int64
	Tie        string // Coq module providing `case`, `case_ok`
	cases      []string
	jsonl      *bufio.Writer
	jf         *os.File
	Stats      map[string]int
	Distinct   map[string]struct{}
	NonTrivial int
	N          int
	Findings   []string // direct property violations found on the implementation (falsifier)
}

func NewRun(dir string, seed int64, tie string) (*Run, error) {
	if err := os.MkdirAll(dir, 0o755); err != nil {
		return nil, err
	}
	jf, err := os.Create(filepath.Join(dir, "cases.jsonl"))
	if err != nil {
		return nil, err
	}
	return &Run{Dir: dir, Rng: rand.New(rand.NewSource(seed)), Seed: seed, Tie: tie,
		jsonl: bufio.NewWriterSize(jf, 1<<20), jf: jf, Stats: map[string]int{}, Distinct: map[string]struct{}{}}, nil
}

// Case records one case: the Coq term of type `case`, a JSON description, the stat bucket it
// belongs to and whether it is non-trivial by the property's rule.
func (r *Run) Case(coq string, js map[string]any, bucket string, nontrivial bool) {
	js["idx"] = r.N
	js["bucket"] = bucket
	b, _ := json.Marshal(js)
	r.jsonl.Write(b)
	r.jsonl.WriteByte('\n')
	r.cases = append(r.cases, coq)
	r.Stats[bucket]++
	if nontrivial {
		if _, ok := r.Distinct[coq]; !ok {
			r.Distinct[coq] = struct{}{}
			r.NonTrivial++
		}
	}
	r.N++
}

func (r *Run) Finding(s string) { r.Findings = append(r.Findings, s) }

const chunk = 100

func (r *Run) Close(extra map[string]any) error {
	r.jsonl.Flush()
	r.jf.Close()
	// shards of `shard` cases each (evaluated by parallel coqc processes), chunks of `chunk`
	// cases per definition inside a shard
	const shard = 300
	for sh := 0; sh*shard < len(r.cases); sh++ {
		f, err := os.Create(filepath.Join(r.Dir, fmt.Sprintf("cases_%03d.v", sh)))
		if err != nil {
			return err
		}
		w := bufio.NewWriterSize(f, 1<<20)
		fmt.Fprintf(w, "From V Require Import %s.\nFrom Coq Require Import String.\nOpen Scope string_scope. Open Scope N_scope.\n", r.Tie)
		shHi := (sh + 1) * shard
		if shHi > len(r.cases) {
			shHi = len(r.cases)
		}
		for lo := sh * shard; lo < shHi; lo += chunk {
			hi := lo + chunk
			if hi > shHi {
				hi = shHi
			}
			fmt.Fprintf(w, "Definition cs%d : list case := [\n", lo)
			for i := lo; i < hi; i++ {
				sep := ";"
				if i == hi-1 {
					sep = ""
				}
				fmt.Fprintf(w, " %s%s\n", r.cases[i], sep)
			}
			fmt.Fprintf(w, "].\nDefinition M%d := Eval vm_compute in mismatches case_ok %d cs%d.\nPrint M%d.\n", lo, lo, lo, lo)
		}
		w.Flush()
		f.Close()
	}
	keys := make([]string, 0, len(r.Stats))
	for k := range r.Stats {
		keys = append(keys, k)
	}
	sort.Strings(keys)
	st := map[string]any{"seed": r.Seed, "cases": r.N, "distinct_nontrivial": r.NonTrivial, "buckets": r.Stats, "findings": r.Findings}
	for k, v := range extra {
		st[k] = v
	}
	b, _ := json.MarshalIndent(st, "", " ")
	return os.WriteFile(filepath.Join(r.Dir, "stats.json"), b, 0o644)
}

// ---- Coq term helpers ----
func Hex(b []byte) string { return `(hex "` + hex.EncodeToString(b) + `")` }
func N(v uint64) string   { return fmt.Sprintf("%d", v) }
func Bool(b bool) string {
	if b {
		return "true"
	}
	return "false"
}
func OptN(present bool, v uint64) string {
	if !present {
		return "None"
	}
	return fmt.Sprintf("(Some %d)", v)
}
func OptHex(b []byte) string {
	if b == nil {
		return "None"
	}
	return "(Some " + Hex(b) + ")"
}
func List(xs []string) string { return "[" + strings.Join(xs, "; ") + "]" }

// ---- byte-string mutation helpers (structure-aware generation) ----
func Clone(b []byte) []byte { return append([]byte{}, b...) }

// Exact returns a copy whose capacity equals its length, so that Go's slice-capacity slack never
// hides an out-of-range slice expression.
func Exact(b []byte) []byte {
	c := make([]byte, len(b))
	copy(c, b)
	return c[:len(c):len(c)]
}

// Mutations yields structure-aware variants of a valid encoding: every truncation point (sampled
// when long), every byte set to boundary values (sampled), single-byte insertions/deletions,
// and a few multi-byte edits.
func Mutations(rng *rand.Rand, b []byte, budget int) [][]byte {
	var out [][]byte
	n := len(b)
	if n == 0 {
		return out
	}
	pos := func() int { return rng.Intn(n) }
	per := budget / 4
	// truncations
	if n <= per {
		for i := 0; i < n; i++ {
			out = append(out, Clone(b[:i]))
		}
	} else {
		for k := 0; k < per; k++ {
			out = append(out, Clone(b[:pos()]))
		}
	}
	vals := []byte{0, 1, 2, 3, 0x7f, 0x80, 0xff}
	for k := 0; k < per; k++ {
		c := Clone(b)
		p := pos()
		c[p] = vals[rng.Intn(len(vals))]
		out = append(out, c)
	}
	for k := 0; k < per/2; k++ { // +-1 on a byte (length fields off by one)
		c := Clone(b)
		p := pos()
		if rng.Intn(2) == 0 {
			c[p]++
		} else {
			c[p]--
		}
		out = append(out, c)
	}
	for k := 0; k < per/2; k++ { // insert / delete / append garbage
		c := Clone(b)
		p := pos()
		switch rng.Intn(3) {
		case 0:
			c = append(c[:p], c[p+1:]...)
		case 1:
			c = append(c[:p], append([]byte{byte(rng.Intn(256))}, c[p:]...)...)
		default:
			g := make([]byte, 1+rng.Intn(6))
			rng.Read(g)
			c = append(c, g...)
		}
		out = append(out, c)
	}
	for k := 0; k < per; k++ { // two-site edits
		c := Clone(b)
		c[pos()] = vals[rng.Intn(len(vals))]
		c[pos()] = byte(rng.Intn(256))
		if rng.Intn(3) == 0 {
			c = c[:rng.Intn(len(c)+1)]
		}
		out = append(out, c)
	}
	return out
}

func RandBytes(rng *rand.Rand, n int) []byte {
	b := make([]byte, n)
	rng.Read(b)
	return b
}

// SmallBiased returns random bytes biased towards small tag/length values.
func SmallBiased(rng *rand.Rand, n int) []byte {
	b := make([]byte, n)
	for i := range b {
		switch rng.Intn(4) {
		case 0:
			b[i] = byte(rng.Intn(3))
		case 1:
			b[i] = byte(rng.Intn(16))
		default:
			b[i] = byte(rng.Intn(256))
		}
	}
	return b
}

// Main is the command line of a per-property harness binary:
//
//	vh-Cnn gen    -seed S -n N -out DIR      generate cases, run them on the implementation
//	vh-Cnn replay -case FILE -out DIR        re-run the case stored in a replay file
func Main(tie string, gen func(r *Run, n int) error, replay func(r *Run, c map[string]any) error) {
	if len(os.Args) < 2 {
		fmt.Fprintln(os.Stderr, "usage: gen|replay ...")
		os.Exit(2)
	}
	cmd := os.Args[1]
	fs := flag.NewFlagSet(cmd, flag.ExitOnError)
	seed := fs.Int64("seed", 1, "seed")
	n := fs.Int("n", 1000, "case budget")
	out := fs.String("out", "", "output dir")
	cf := fs.String("case", "", "replay file")
	fs.Parse(os.Args[2:])
	r, err := NewRun(*out, *seed, tie)
	if err != nil {
		fmt.Fprintln(os.Stderr, err)
		os.Exit(3)
	}
	switch cmd {
	case "gen":
		err = gen(r, *n)
	case "replay":
		var b []byte
		b, err = os.ReadFile(*cf)
		if err == nil {
			var obj map[string]any
			if err = json.Unmarshal(b, &obj); err == nil {
				c, _ := obj["case"].(map[string]any)
				if c == nil {
					err = fmt.Errorf("replay file carries no case (it names a theorem or correspondence instead)")
				} else if replay == nil {
					err = fmt.Errorf("no replay function")
				} else {
					err = replay(r, c)
				}
			}
		}
	default:
		err = fmt.Errorf("unknown command %s", cmd)
	}
	if err != nil {
		fmt.Fprintln(os.Stderr, "harness error:", err)
		os.Exit(3)
	}
	if err := r.Close(nil); err != nil {
		fmt.Fprintln(os.Stderr, err)
		os.Exit(3)
	}
}
