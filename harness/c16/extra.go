package c16

import (
	"bytes"
	"encoding/binary"
	"fmt"
	"os"
	"path/filepath"
	"runtime"
	"time"

	"github.com/codenotary/immudb/embedded/appendable"
	"github.com/codenotary/immudb/embedded/appendable/singleapp"
	"github.com/codenotary/immudb/embedded/sql"
	fm "github.com/codenotary/immudb/pkg/pgsql/server/fmessages"
	"verif/harness/vk"
)

// ---------- appendable metadata (modelled: Store/AppMeta.v) ----------
func caseAppMd(r *vk.Run, in []byte, key []byte, bucket string) {
	in = vk.Exact(in)
	var got []byte
	var ok, okInt, okBool, gb bool
	var gi int
	p, _ := outcome(func() error {
		m := appendable.NewMetadata(in)
		got, ok = m.Get(string(key))
		gi, okInt = m.GetInt(string(key))
		gb, okBool = m.GetBool(string(key))
		return nil
	})
	gt, it, bt := "None", "None", "None"
	if ok {
		if got == nil {
			got = []byte{}
		}
		gt = "(Some " + vk.Hex(got) + ")"
	}
	if okInt {
		it = fmt.Sprintf("(Some %d)", uint64(gi))
	}
	if okBool {
		bt = "(Some " + vk.Bool(gb) + ")"
	}
	r.Case(fmt.Sprintf("CAppMd %s %s %s %s %s %s", vk.Hex(in), vk.Hex(key), vk.Bool(p), gt, it, bt),
		map[string]any{"kind": "appmd", "in": fmt.Sprintf("%x", in), "key": fmt.Sprintf("%x", key), "panic": p},
		"appmd/"+bucket, len(in) > 4)
}

func genAppMd(r *vk.Run, budget int) {
	keys := [][]byte{[]byte("K"), []byte("INT"), []byte("B"), []byte(""), []byte("absent")}
	var valids [][]byte
	for k := 0; k < 6; k++ {
		m := appendable.NewMetadata(nil)
		if k&1 != 0 {
			m.PutInt("INT", r.Rng.Int())
		}
		if k&2 != 0 {
			m.PutBool("B", k&4 != 0)
		}
		m.Put("K", vk.RandBytes(r.Rng, r.Rng.Intn(12)))
		if k == 5 {
			m.Put("", []byte{})
			m.Put("INT", []byte{1, 2, 3}) // too short for GetInt
			m.Put("B", []byte{})          // too short for GetBool
		}
		valids = append(valids, m.Bytes())
	}
	// hand-made: duplicate keys (last wins), count larger than the entries present, count field of
	// the wrong length, huge field lengths
	valids = append(valids,
		[]byte{0, 0, 0, 4, 0, 0, 0, 2, 0, 0, 0, 1, 'K', 0, 0, 0, 1, 1, 0, 0, 0, 1, 'K', 0, 0, 0, 1, 2},
		[]byte{0, 0, 0, 4, 0, 0, 0, 9, 0, 0, 0, 1, 'K', 0, 0, 0, 1, 1},
		[]byte{0, 0, 0, 1, 7},
		[]byte{0, 0, 0, 4, 0, 0, 0, 1, 0xff, 0xff, 0xff, 0xff, 'K'},
		[]byte{0, 0, 0, 4, 0, 0, 0, 1, 0, 0, 0, 1, 'B', 0, 0, 0, 0},
		[]byte{0, 0, 0, 4, 0, 0, 0, 1, 0, 0, 0, 3, 'I', 'N', 'T', 0, 0, 0, 7, 1, 2, 3, 4, 5, 6, 7})
	for _, v := range valids {
		for _, k := range keys {
			caseAppMd(r, v, k, "valid")
		}
		for _, m := range vk.Mutations(r.Rng, v, budget/40+8) {
			caseAppMd(r, m, keys[r.Rng.Intn(len(keys))], "mutated")
		}
	}
	for k := 0; k < budget/10; k++ {
		caseAppMd(r, vk.SmallBiased(r.Rng, r.Rng.Intn(30)), keys[r.Rng.Intn(3)], "random")
	}
}

// ---------- probes without a Coq model: panic / hang / unbounded allocation => Finding ----------
func probe(r *vk.Run, what string, in []byte, f func()) {
	var ms0, ms1 runtime.MemStats
	runtime.ReadMemStats(&ms0)
	defer func() {
		// a parser may not allocate far beyond its input (the pgsql layer caps messages at 32 MiB)
		runtime.ReadMemStats(&ms1)
		if alloc := ms1.TotalAlloc - ms0.TotalAlloc; alloc > 160<<20 {
			r.Finding(fmt.Sprintf("%s allocated %d bytes for a %d-byte input %x", what, alloc, len(in), in[:minInt(len(in), 48)]))
		}
	}()
	done := make(chan bool, 1)
	go func() {
		defer func() {
			if rec := recover(); rec != nil {
				done <- true
				return
			}
			done <- false
		}()
		f()
	}()
	select {
	case p := <-done:
		if p {
			r.Finding(fmt.Sprintf("%s panicked on input %x", what, in))
		}
	case <-time.After(60 * time.Second):
		r.Finding(fmt.Sprintf("%s did not return within 60s on input %x", what, in))
	}
	r.Stats["probe/"+what]++
}

func pgString(rng interface{ Intn(int) int }, terminated bool) []byte {
	n := rng.Intn(6)
	b := make([]byte, 0, n+1)
	for i := 0; i < n; i++ {
		b = append(b, byte('a'+rng.Intn(26)))
	}
	if terminated {
		b = append(b, 0)
	}
	return b
}

func i16(v int) []byte { var b [2]byte; binary.BigEndian.PutUint16(b[:], uint16(v)); return b[:] }
func i32(v int) []byte { var b [4]byte; binary.BigEndian.PutUint32(b[:], uint32(v)); return b[:] }

func genProbes(r *vk.Run, budget int) {
	counts := []int{0, 1, 2, 3, -1, 32767, -32768, 255}
	lens := []int{0, 1, 4, -1, -2, 2147483647, 65536, 3, 8, 1 << 30}
	// pgsql extended-query messages
	for k := 0; k < budget; k++ {
		var b []byte
		b = append(b, pgString(r.Rng, r.Rng.Intn(8) != 0)...)
		b = append(b, pgString(r.Rng, r.Rng.Intn(8) != 0)...)
		nf := counts[r.Rng.Intn(len(counts))]
		b = append(b, i16(nf)...)
		for i := 0; i < nf && i < 3; i++ {
			b = append(b, i16(r.Rng.Intn(3))...)
		}
		np := counts[r.Rng.Intn(len(counts))]
		b = append(b, i16(np)...)
		for i := 0; i < np && i < 3; i++ {
			l := lens[r.Rng.Intn(len(lens))]
			b = append(b, i32(l)...)
			if l > 0 && l < 16 {
				b = append(b, vk.RandBytes(r.Rng, r.Rng.Intn(l+1))...)
			}
		}
		b = append(b, i16(counts[r.Rng.Intn(len(counts))])...)
		if r.Rng.Intn(3) == 0 {
			b = b[:r.Rng.Intn(len(b)+1)]
		}
		in := vk.Exact(b)
		probe(r, "pgsql.ParseBindMsg", in, func() { fm.ParseBindMsg(in) })
		probe(r, "pgsql.ParseParseMsg", in, func() { fm.ParseParseMsg(in) })
		probe(r, "pgsql.ParseExecuteMsg", in, func() { fm.ParseExecuteMsg(in) })
		probe(r, "pgsql.ParseDescribeMsg", in, func() { fm.ParseDescribeMsg(in) })
		probe(r, "pgsql.ParseQueryMsg", in, func() { fm.ParseQueryMsg(in) })
		probe(r, "pgsql.ParsePasswordMsg", in, func() { fm.ParsePasswordMsg(in) })
		probe(r, "pgsql.ParseCopyFailMsg", in, func() { fm.ParseCopyFailMsg(in) })
	}
	// SQL text
	seeds := []string{
		"SELECT id, title FROM t1 WHERE id > 10 AND title LIKE 'a%' ORDER BY id DESC LIMIT 3 OFFSET 1",
		"CREATE TABLE t (id INTEGER AUTO_INCREMENT, v VARCHAR[10] NOT NULL, b BLOB, PRIMARY KEY id)",
		"INSERT INTO t (id, v) VALUES (1, 'x'), (@p, NULL) ON CONFLICT DO NOTHING",
		"BEGIN TRANSACTION; UPDATE t SET v = 'y' WHERE id IN (1,2,3); SAVEPOINT s; ROLLBACK TO SAVEPOINT s; COMMIT;",
		"SELECT COUNT(*), a.x FROM a INNER JOIN b ON a.id = b.id GROUP BY a.x HAVING COUNT(*) > 1",
		"SELECT * FROM (SELECT id FROM t BEFORE TX 10) AS q WHERE NOT EXISTS (SELECT 1 FROM u) AND x::INTEGER < -1.5e3",
	}
	junk := []byte("()'\"`;,@$:[]{}*%\\\x00\xff-0123456789eE.aZ \n\t")
	for k := 0; k < budget; k++ {
		s := []byte(seeds[r.Rng.Intn(len(seeds))])
		for e := 0; e < 1+r.Rng.Intn(4); e++ {
			p := r.Rng.Intn(len(s) + 1)
			switch r.Rng.Intn(3) {
			case 0:
				s = append(s[:p], append([]byte{junk[r.Rng.Intn(len(junk))]}, s[p:]...)...)
			case 1:
				if p < len(s) {
					s = append(s[:p], s[p+1:]...)
				}
			default:
				s = s[:p]
			}
		}
		in := append([]byte{}, s...)
		probe(r, "sql.ParseSQLString", in, func() { sql.ParseSQLString(string(in)) })
	}
	// appendable file headers at open time: a corrupted header must give an error without
	// allocating far beyond the file size
	dir, err := os.MkdirTemp("", "vh-c16-app")
	if err == nil {
		defer os.RemoveAll(dir)
		good := filepath.Join(dir, "good.aof")
		if a, err := singleapp.Open(good, singleapp.DefaultOptions().WithMetadata([]byte{1, 2, 3})); err == nil {
			a.Append([]byte("payload"))
			a.Close()
		}
		hdr, _ := os.ReadFile(good)
		for k := 0; k < budget/4+24 && len(hdr) > 4; k++ {
			var b []byte
			switch {
			case k == 0:
				b = append([]byte{0x7f, 0xff, 0xff, 0xff}, hdr[4:]...) // 2 GiB metadata length
			case k == 1:
				b = append([]byte{0xff, 0xff, 0xff, 0xff}, hdr[4:]...)
			case k == 2:
				b = hdr[:3]
			default:
				ms := vk.Mutations(r.Rng, hdr, 8)
				b = ms[r.Rng.Intn(len(ms))]
			}
			fn := filepath.Join(dir, fmt.Sprintf("c%d.aof", k))
			os.WriteFile(fn, b, 0o644)
			in := vk.Exact(b)
			var ms0, ms1 runtime.MemStats
			runtime.ReadMemStats(&ms0)
			probe(r, "singleapp.Open", in, func() {
				a, err := singleapp.Open(fn, singleapp.DefaultOptions().WithReadOnly(true))
				if err == nil {
					var buf [8]byte
					a.ReadAt(buf[:], 0)
					a.Size()
					a.Metadata()
					a.Close()
				}
			})
			runtime.ReadMemStats(&ms1)
			if alloc := ms1.TotalAlloc - ms0.TotalAlloc; alloc > uint64(64*len(b))+(8<<20) {
				r.Finding(fmt.Sprintf("singleapp.Open allocated %d bytes for a %d-byte file (header %x)", alloc, len(b), b[:minInt(len(b), 8)]))
			}
			os.Remove(fn)
		}
	}
	_ = bytes.Equal
}

func minInt(a, b int) int {
	if a < b {
		return a
	}
	return b
}
