package c16

// PostgreSQL wire messages (modelled: coq/Wire/PgMsg.v over coq/Wire/Bufio.v): every case goes
// through session.parseRawMessage (dispatch + parser) or messageReader.ReadRawMessage (framing)
// by the add-only hook pkg/pgsql/server/verif_hooks_c16.go.

import (
	"bytes"
	"encoding/binary"
	"encoding/hex"
	"fmt"
	"io"
	"net"
	"runtime"
	"strings"
	"time"

	pgsrv "github.com/codenotary/immudb/pkg/pgsql/server"
	fm "github.com/codenotary/immudb/pkg/pgsql/server/fmessages"
	"github.com/codenotary/immudb/pkg/pgsql/server/pgmeta"
	"verif/harness/vk"
)

// hangs counts calls that did not return within 60 s. Their goroutines keep running (and burning
// CPU); after three of them the wire / stream / open-time generators stop producing further cases,
// so that the findings are reported instead of the whole run timing out.
var hangs int

func tooManyHangs() bool { return hangs >= 3 }

// measured runs f in its own goroutine under recover(): panicked?, bytes allocated by the process
// while it ran (runtime.MemStats.TotalAlloc), returned within 60 s?
func measured(f func()) (panicked bool, alloc uint64, returned bool) {
	if tooManyHangs() {
		return false, 0, false
	}
	type outc struct {
		p bool
		a uint64
	}
	done := make(chan outc, 1)
	go func() {
		var ms0, ms1 runtime.MemStats
		p := false
		runtime.ReadMemStats(&ms0)
		func() {
			defer func() {
				if rec := recover(); rec != nil {
					p = true
				}
			}()
			f()
		}()
		runtime.ReadMemStats(&ms1)
		done <- outc{p, ms1.TotalAlloc - ms0.TotalAlloc}
	}()
	t := time.NewTimer(60 * time.Second)
	defer t.Stop()
	select {
	case o := <-done:
		return o.p, o.a, true
	case <-t.C:
		hangs++
		return false, 0, false
	}
}

func zt(v int64) string { return fmt.Sprintf("(%d)%%Z", v) }

func ztList(vs []int16) string {
	xs := make([]string, len(vs))
	for i, v := range vs {
		xs[i] = zt(int64(v))
	}
	return vk.List(xs)
}

// pvalTerm: a parameter value as (bytes without trailing zeroes, number of zeroes cut): values of
// tens of MiB made of zero padding stay short
func pvalTerm(ctor string, v []byte) string {
	n := len(v)
	for n > 0 && v[n-1] == 0 {
		n--
	}
	return fmt.Sprintf("(%s %s %d)", ctor, vk.Hex(v[:n]), len(v)-n)
}

func pgMsgTerm(v interface{}) string {
	switch m := v.(type) {
	case fm.PasswordMsg:
		return "(MPassword " + vk.Hex([]byte(m.GetSecret())) + ")"
	case fm.QueryMsg:
		return "(MQuery " + vk.Hex([]byte(m.GetStatements())) + ")"
	case fm.TerminateMsg:
		return "MTerminate"
	case fm.SyncMsg:
		return "MSync"
	case fm.FlushMsg:
		return "MFlush"
	case fm.CopyDoneMsg:
		return "MCopyDone"
	case fm.CopyDataMsg:
		return "(MCopyData " + vk.Hex(m.Data) + ")"
	case fm.CopyFailMsg:
		return "(MCopyFail " + vk.Hex([]byte(m.Error)) + ")"
	case fm.DescribeMsg:
		// DescType is string(msg[0]): the conversion of a byte to a string yields the UTF-8
		// encoding of that code point (two bytes from 0x80 on); the observable is the code point
		t := 0
		for _, rn := range m.DescType {
			t = int(rn)
			break
		}
		return fmt.Sprintf("(MDescribe %d %s)", t, vk.Hex([]byte(m.Name)))
	case fm.Execute:
		return fmt.Sprintf("(MExecute %s %s)", vk.Hex([]byte(m.PortalName)), zt(int64(m.MaxRows)))
	case fm.ParseMsg:
		oids := make([]string, len(m.ObjectIDs))
		for i, o := range m.ObjectIDs {
			oids[i] = zt(int64(o))
		}
		return fmt.Sprintf("(MParse {| p_name := %s; p_query := %s; p_count := %s; p_oids := %s |})",
			vk.Hex([]byte(m.DestPreparedStatementName)), vk.Hex([]byte(m.Statements)), zt(int64(m.ParamsCount)), vk.List(oids))
	case fm.BindMsg:
		ps := make([]string, len(m.ParamVals))
		for i, p := range m.ParamVals {
			switch x := p.(type) {
			case nil:
				ps[i] = "PNull"
			case string:
				ps[i] = pvalTerm("PText", []byte(x))
			case []byte:
				ps[i] = pvalTerm("PBin", x)
			}
		}
		return fmt.Sprintf("(MBind {| b_portal := %s; b_stmt := %s; b_params := %s; b_rcodes := %s |})",
			vk.Hex([]byte(m.DestPortalName)), vk.Hex([]byte(m.PreparedStatementName)), vk.List(ps), ztList(m.ResultColumnFormatCodes))
	}
	return "MTerminate (* unexpected message type *)"
}

const pgBindFinding = "pgsql.ParseBindMsg: parameter length field beyond the end of the message is not rejected"

func casePgMsg(r *vk.Run, t byte, payload []byte, bucket string) {
	if tooManyHangs() {
		return
	}
	in := vk.Exact(payload)
	var v interface{}
	var err error
	p, alloc, ret := measured(func() { v, err = pgsrv.VerifParseRawMessage(t, in) })
	if !ret {
		r.Finding(fmt.Sprintf("pgsql parseRawMessage(%q) did not return within 60s on input %x", t, in))
		return
	}
	if p {
		r.Finding(fmt.Sprintf("pgsql parseRawMessage(%q) panicked on input %x", t, in))
	}
	// direct check of the property statement: memory within a linear bound of the input
	if alloc > uint64(64*len(in))+(1<<20) {
		if t == 'B' {
			r.Finding(fmt.Sprintf("%s: %d bytes allocated for a %d-byte message %x", pgBindFinding, alloc, len(in), in[:minInt(len(in), 64)]))
		} else {
			r.Finding(fmt.Sprintf("pgsql parseRawMessage(%q) allocated %d bytes for a %d-byte message %x", t, alloc, len(in), in[:minInt(len(in), 64)]))
		}
	}
	ok := ""
	if !p && err == nil {
		ok = pgMsgTerm(v)
		if b, isBind := v.(fm.BindMsg); isBind {
			tot := 0
			for _, pv := range b.ParamVals {
				switch x := pv.(type) {
				case string:
					tot += len(x)
				case []byte:
					tot += len(x)
				}
			}
			if tot > len(in) {
				r.Finding(fmt.Sprintf("%s: %d bytes of parameter values decoded from a %d-byte message %x", pgBindFinding, tot, len(in), in[:minInt(len(in), 64)]))
			}
		}
	}
	r.Case(fmt.Sprintf("CPgMsg %d %d %s %s %d", pgmeta.MaxMsgSize, t, vk.Hex(in), resTerm(p, err, ok), alloc),
		map[string]any{"kind": "pgmsg", "t": int(t), "in": fmt.Sprintf("%x", in), "panic": p, "err": errStr(err), "alloc": alloc},
		"pgsql/"+bucket, len(in) > 0)
}

// chunkConn is a net.Conn delivering a byte string in pieces of arbitrary sizes, then io.EOF
type chunkConn struct {
	rd  *bytes.Reader
	rng interface{ Intn(int) int }
}

func (c *chunkConn) Read(p []byte) (int, error) {
	if c.rd.Len() == 0 {
		return 0, io.EOF
	}
	n := 1 + c.rng.Intn(7)
	if n > len(p) {
		n = len(p)
	}
	return c.rd.Read(p[:n])
}
func (c *chunkConn) Write(p []byte) (int, error)        { return len(p), nil }
func (c *chunkConn) Close() error                       { return nil }
func (c *chunkConn) LocalAddr() net.Addr                { return nil }
func (c *chunkConn) RemoteAddr() net.Addr               { return nil }
func (c *chunkConn) SetDeadline(t time.Time) error      { return nil }
func (c *chunkConn) SetReadDeadline(t time.Time) error  { return nil }
func (c *chunkConn) SetWriteDeadline(t time.Time) error { return nil }

func casePgFrame(r *vk.Run, conn []byte, bucket string) {
	if tooManyHangs() {
		return
	}
	in := vk.Exact(conn)
	cc := &chunkConn{rd: bytes.NewReader(in), rng: r.Rng}
	var t byte
	var payload []byte
	var err error
	p, alloc, ret := measured(func() { t, payload, err = pgsrv.VerifReadRawMessage(cc) })
	if !ret {
		r.Finding(fmt.Sprintf("pgsql ReadRawMessage did not return within 60s on input %x", in))
		return
	}
	if p {
		r.Finding(fmt.Sprintf("pgsql ReadRawMessage panicked on input %x", in))
	}
	// the framing layer may reserve the announced length up front, capped by MaxMsgSize
	if alloc > uint64(pgmeta.MaxMsgSize)+uint64(64*len(in))+(1<<20) {
		r.Finding(fmt.Sprintf("pgsql ReadRawMessage allocated %d bytes for a %d-byte input %x", alloc, len(in), in[:minInt(len(in), 64)]))
	}
	ok := ""
	if !p && err == nil {
		rest := make([]byte, cc.rd.Len())
		cc.rd.Read(rest)
		ok = fmt.Sprintf("(%d, %s, %s)", t, vk.Hex(payload), vk.Hex(rest))
	}
	r.Case(fmt.Sprintf("CPgFrame %d %s %s %d", pgmeta.MaxMsgSize, vk.Hex(in), resTerm(p, err, ok), alloc),
		map[string]any{"kind": "pgframe", "in": fmt.Sprintf("%x", in), "panic": p, "err": errStr(err), "alloc": alloc},
		"pgsql/"+bucket, len(in) > 0)
}

// ---- structured message builders ----
type pgField struct {
	off, width int // integer field inside the payload
}

type pgBuilder struct {
	b      []byte
	fields []pgField
	cuts   []int // positions right behind a field / string: interesting truncation points
}

func (pb *pgBuilder) str(s string, term bool) {
	pb.b = append(pb.b, s...)
	if term {
		pb.b = append(pb.b, 0)
	}
	pb.cuts = append(pb.cuts, len(pb.b))
}
func (pb *pgBuilder) i16(v int) {
	pb.fields = append(pb.fields, pgField{len(pb.b), 2})
	pb.b = append(pb.b, i16(v)...)
	pb.cuts = append(pb.cuts, len(pb.b)-1, len(pb.b))
}
func (pb *pgBuilder) i32(v int) {
	pb.fields = append(pb.fields, pgField{len(pb.b), 4})
	pb.b = append(pb.b, i32(v)...)
	pb.cuts = append(pb.cuts, len(pb.b)-3, len(pb.b)-1, len(pb.b))
}
func (pb *pgBuilder) raw(v []byte) {
	pb.b = append(pb.b, v...)
	pb.cuts = append(pb.cuts, len(pb.b))
}

type rngT interface {
	Intn(int) int
	Read([]byte) (int, error)
}

func pgName(rng rngT) string {
	n := rng.Intn(5)
	var sb strings.Builder
	for i := 0; i < n; i++ {
		sb.WriteByte(byte('a' + rng.Intn(26)))
	}
	return sb.String()
}

// validBind: nf in {0, 1, np}, parameters NULL / empty / short, result codes
func validBind(rng rngT, mode int) *pgBuilder {
	pb := &pgBuilder{}
	pb.str(pgName(rng), true)
	pb.str(pgName(rng), true)
	np := rng.Intn(4)
	nf := 0
	switch mode % 3 {
	case 1:
		nf = 1
	case 2:
		nf = np
	}
	pb.i16(nf)
	for i := 0; i < nf; i++ {
		pb.i16(rng.Intn(2))
	}
	pb.i16(np)
	for i := 0; i < np; i++ {
		switch rng.Intn(5) {
		case 0:
			pb.i32(-1)
		case 1:
			pb.i32(0)
		default:
			l := 1 + rng.Intn(6)
			pb.i32(l)
			v := make([]byte, l)
			rng.Read(v)
			if rng.Intn(3) == 0 {
				v[l-1] = 0
			}
			pb.raw(v)
		}
	}
	nr := rng.Intn(3)
	pb.i16(nr)
	for i := 0; i < nr; i++ {
		pb.i16(rng.Intn(2))
	}
	return pb
}

func validParse(rng rngT) *pgBuilder {
	pb := &pgBuilder{}
	pb.str(pgName(rng), true)
	pb.str("SELECT "+pgName(rng), true)
	n := rng.Intn(4)
	pb.i16(n)
	for i := 0; i < n; i++ {
		pb.i32(rng.Intn(3000))
	}
	return pb
}

func validExecute(rng rngT) *pgBuilder {
	pb := &pgBuilder{}
	pb.str(pgName(rng), true)
	pb.i32(rng.Intn(100))
	return pb
}

var pgI16 = []int{0, 1, 2, 3, -1, -2, 32767, -32768, 255, 256}
var pgI32 = []int{0, 1, 2, -1, -2, 7, 65536, 1 << 24, 32<<20 - 1, 32 << 20, 32<<20 + 1, 1<<31 - 1, -(1 << 31)}

// fieldVariants: every integer field set to boundary values (and to what remains behind it, +-1),
// every interesting truncation point, string terminators removed
func (pb *pgBuilder) variants(rng rngT, big *int) [][]byte {
	var out [][]byte
	for _, f := range pb.fields {
		rem := len(pb.b) - (f.off + f.width)
		var vals []int
		if f.width == 2 {
			vals = append(vals, pgI16...)
		} else {
			vals = append(vals, pgI32...)
			vals = append(vals, rem, rem-1, rem+1)
		}
		for _, v := range vals {
			if f.width == 4 && v >= 1<<24 && v <= 32<<20 {
				if *big <= 0 {
					continue // a few multi-MiB parameter lengths per run are enough (each costs 2 x 32 MiB)
				}
				*big--
			}
			c := vk.Clone(pb.b)
			if f.width == 2 {
				binary.BigEndian.PutUint16(c[f.off:], uint16(v))
			} else {
				binary.BigEndian.PutUint32(c[f.off:], uint32(v))
			}
			out = append(out, c)
			if rng.Intn(4) == 0 { // the altered field is the last thing in the message
				out = append(out, vk.Clone(c[:f.off+f.width]))
			}
		}
	}
	for _, cut := range pb.cuts {
		if cut >= 0 && cut < len(pb.b) {
			out = append(out, vk.Clone(pb.b[:cut]))
		}
	}
	for i, x := range pb.b { // a string terminator turned into an ordinary byte
		if x == 0 && i < 12 {
			c := vk.Clone(pb.b)
			c[i] = 'x'
			out = append(out, c)
			break
		}
	}
	return out
}

func genPgsql(r *vk.Run, budget int) {
	if pgmeta.MaxMsgSize != 32<<20 {
		r.Finding(fmt.Sprintf("pgmeta.MaxMsgSize is %d, the check expects 32 MiB", pgmeta.MaxMsgSize))
	}
	big := 6
	limit := func(vs [][]byte, n int) [][]byte {
		if len(vs) <= n {
			return vs
		}
		r.Rng.Shuffle(len(vs), func(i, j int) { vs[i], vs[j] = vs[j], vs[i] })
		return vs[:n]
	}
	// Bind
	for mode := 0; mode < 6; mode++ {
		pb := validBind(r.Rng, mode)
		casePgMsg(r, 'B', pb.b, "bind-valid")
		for _, v := range limit(pb.variants(r.Rng, &big), budget/20) {
			casePgMsg(r, 'B', v, "bind-field")
		}
	}
	// the witnesses of coq/Wire/PgMsgTotal.v: one 32 MiB parameter announced by an 11-byte message
	// (text: allocated twice), the same in binary format
	casePgMsg(r, 'B', []byte{0, 0, 0, 0, 0, 1, 2, 0, 0, 0, 7}, "bind-witness")
	casePgMsg(r, 'B', []byte{0, 0, 0, 1, 0, 1, 0, 1, 2, 0, 0, 0, 7}, "bind-witness")
	// the limits themselves, with pgmeta.MaxMsgSize (a variable) lowered so that messages of a few
	// bytes sit exactly on it: total parameter length = limit - 1, limit, limit + 1; payload length
	// of a frame likewise
	{
		saved := pgmeta.MaxMsgSize
		two := &pgBuilder{}
		two.str("p", true)
		two.str("s", true)
		two.i16(0)
		two.i16(2)
		two.i32(3)
		two.raw([]byte{1, 2, 3})
		two.i32(3)
		two.raw([]byte{4, 5, 6})
		two.i16(0)
		pay := []byte("select 1\x00")
		fr := append(append([]byte{'Q'}, i32(4+len(pay))...), pay...)
		for _, mx := range []int{0, 2, 3, 5, 6, 7, len(pay) - 1, len(pay), len(pay) + 1} {
			pgmeta.MaxMsgSize = mx
			casePgMsg(r, 'B', two.b, "limit")
			casePgFrame(r, fr, "limit")
		}
		pgmeta.MaxMsgSize = saved
	}
	// Parse, Execute
	for k := 0; k < 3; k++ {
		pb := validParse(r.Rng)
		casePgMsg(r, 'P', pb.b, "parse-valid")
		for _, v := range limit(pb.variants(r.Rng, &big), budget/24) {
			casePgMsg(r, 'P', v, "parse-field")
		}
		pe := validExecute(r.Rng)
		casePgMsg(r, 'E', pe.b, "execute-valid")
		for _, v := range limit(pe.variants(r.Rng, &big), budget/40) {
			casePgMsg(r, 'E', v, "execute-field")
		}
	}
	// the parsers without a reader, every type byte on short payloads
	short := [][]byte{{}, {0}, {'S'}, {'S', 0}, {'P', 'a', 0}, {'a', 'b'}, {'a', 0, 0}, {0, 0}, []byte("select 1\x00"), []byte("pw")}
	for _, t := range []byte("pQXPBDSEHdcf") {
		for _, s := range short {
			casePgMsg(r, t, s, "short")
		}
	}
	for k := 0; k < budget/10; k++ {
		types := []byte("pQXPBDSEHdcfZ\x00")
		t := types[r.Rng.Intn(len(types))]
		pb := validBind(r.Rng, k)
		in := pb.b
		if r.Rng.Intn(2) == 0 {
			in = vk.SmallBiased(r.Rng, r.Rng.Intn(24))
		} else {
			ms := vk.Mutations(r.Rng, in, 8)
			in = ms[r.Rng.Intn(len(ms))]
		}
		casePgMsg(r, t, in, "random")
	}
	// framing
	frame := func(t byte, l int, payload []byte) []byte {
		b := append([]byte{t}, i32(l)...)
		return append(b, payload...)
	}
	pay := []byte("select 1\x00")
	for _, l := range []int{0, 1, 3, 4, 5, 4 + len(pay) - 1, 4 + len(pay), 4 + len(pay) + 1, 4 + len(pay) + 2, 100, 65536,
		32<<20 + 3, 32<<20 + 4, 32<<20 + 5, 1<<31 + 2, 1<<31 + 3, 1<<31 + 4, -1, -4} {
		casePgFrame(r, frame('Q', l, pay), "frame-len")
		casePgFrame(r, append(frame('Q', l, pay), frame('S', 4, nil)...), "frame-len")
	}
	full := append(frame('Q', 4+len(pay), pay), frame('X', 4, nil)...)
	for cut := 0; cut <= len(full); cut++ {
		casePgFrame(r, full[:cut], "frame-truncated")
	}
	for _, t := range []byte{0, 'A', 'Q', 'z', 'd', 'c', 'f', 't', 0xff} {
		casePgFrame(r, frame(t, 4+2, []byte{1, 2, 3}), "frame-type")
	}
	for k := 0; k < budget/12; k++ {
		casePgFrame(r, vk.SmallBiased(r.Rng, r.Rng.Intn(16)), "frame-random")
	}
	_ = hex.EncodeToString
}
