package c16

// pkg/stream receivers (modelled: coq/Wire/Stream.v): a msgReceiver is fed with a list of chunks,
// then io.EOF or a transport error, and driven the way the server's stream handlers drive it.

import (
	"encoding/binary"
	"encoding/hex"
	"errors"
	"fmt"
	"io"
	"math"
	"runtime"
	"strings"
	"time"

	"github.com/codenotary/immudb/pkg/api/schema"
	"github.com/codenotary/immudb/pkg/stream"
	"verif/harness/vk"
)

type chunkStream struct {
	chunks []*schema.Chunk
	i      int
	final  error
}

func (m *chunkStream) Recv() (*schema.Chunk, error) {
	if m.i >= len(m.chunks) {
		return nil, m.final
	}
	c := m.chunks[m.i]
	m.i++
	return c, nil
}

var errTransport = errors.New("transport is closing")

func newChunkStream(chunks [][]byte, finalEOF bool) *chunkStream {
	cs := &chunkStream{final: io.EOF}
	if !finalEOF {
		cs.final = errTransport
	}
	for _, c := range chunks {
		cs.chunks = append(cs.chunks, &schema.Chunk{Content: vk.Exact(c)})
	}
	return cs
}

// measuredPanic is `measured` keeping the panic value
func measuredPanic(f func()) (pv interface{}, alloc uint64, returned bool) {
	return measuredPanicWithin(60*time.Second, f)
}

// measuredPanicWithin: the same with another liveness bound
func measuredPanicWithin(limit time.Duration, f func()) (pv interface{}, alloc uint64, returned bool) {
	if tooManyHangs() {
		return nil, 0, false
	}
	type outc struct {
		p interface{}
		a uint64
	}
	done := make(chan outc, 1)
	go func() {
		var ms0, ms1 runtime.MemStats
		var p interface{}
		runtime.ReadMemStats(&ms0)
		func() {
			defer func() { p = recover() }()
			f()
		}()
		runtime.ReadMemStats(&ms1)
		done <- outc{p, ms1.TotalAlloc - ms0.TotalAlloc}
	}()
	t := time.NewTimer(limit)
	defer t.Stop()
	select {
	case o := <-done:
		return o.p, o.a, true
	case <-t.C:
		hangs++
		return nil, 0, false
	}
}

// stackErrCost: what building one immudb pkg/errors value costs the allocator: debug.Stack tries
// buffers of 1, 2, 4, .. KiB until the trace fits, the trace is then copied into a string (size
// classes round it up by at most an eighth), plus the error struct
func stackErrCost(err error) uint64 { return stackErrCostMargin(err, 0) }

// margin: extra trace bytes assumed (goroutine ids and argument words make traces of the same call
// path differ by a few bytes, which matters next to a buffer-doubling boundary)
func stackErrCostMargin(err error, margin int) uint64 {
	se, ok := err.(interface{ Stack() string })
	if !ok || err == nil {
		return 0
	}
	n := len(se.Stack()) + margin
	tot, buf := 0, 1024
	for {
		tot += buf
		if n < buf {
			break
		}
		buf *= 2
	}
	return uint64(tot + n + n/8 + 64)
}

// errUnit: the cost of such an error built where the receivers build theirs and drop them (below
// Next -> ReadValue -> msgReceiver.Read), measured once on a key-value receiver
var errUnitCache uint64

func errUnit() uint64 {
	if errUnitCache == 0 {
		func() {
			defer func() { recover() }()
			done := make(chan error, 1)
			go func() { // same goroutine shape as measuredPanicWithin
				var err error
				func() {
					func() {
						defer func() { recover() }()
						kvr := stream.NewKvStreamReceiver(stream.NewMsgReceiver(newChunkStream([][]byte{u64b(1 << 63)}, true)), 8)
						_, _, err = kvr.Next()
					}()
				}()
				done <- err
			}()
			errUnitCache = stackErrCostMargin(<-done, 128)
		}()
		if errUnitCache == 0 {
			errUnitCache = 1 // code without the length check builds no such error
		}
	}
	return errUnitCache
}

const (
	stRead = iota
	stKv
	stZ
	stVEntry
	stExecAll
)

var stKindName = []string{"read", "kv", "z", "ventry", "execall"}

const stReadFinding = "stream msgReceiver.Read: message length with the top bit set (a negative int) is not rejected"
const stFullyFinding = "stream msgReceiver.ReadFully: the announced message length is allocated before any data arrives"

func u64b(v uint64) []byte { var b [8]byte; binary.BigEndian.PutUint64(b[:], v); return b[:] }

func chunksTerm(chunks [][]byte) string {
	xs := make([]string, len(chunks))
	for i, c := range chunks {
		xs[i] = vk.Hex(c)
	}
	return vk.List(xs)
}

func chunksHex(chunks [][]byte) []string {
	xs := make([]string, len(chunks))
	for i, c := range chunks {
		xs[i] = fmt.Sprintf("%x", c)
	}
	return xs
}

func totalLen(chunks [][]byte) int {
	n := 0
	for _, c := range chunks {
		n += len(c)
	}
	return n
}

// caseStream drives one handler loop for at most cap steps
func caseStream(r *vk.Run, kind int, chunks [][]byte, finalEOF bool, bs, cap int, bucket string) {
	if tooManyHangs() {
		return
	}
	cs := newChunkStream(chunks, finalEOF)
	var items [][][]byte
	var errBytes uint64 // cost of the stack-capturing error values this loop received
	pv, alloc, ret := measuredPanic(func() {
		var err error
		defer func() { errBytes += stackErrCost(err) }()
		mr := stream.NewMsgReceiver(cs)
		switch kind {
		case stRead:
			buf := make([]byte, bs)
			for k := 0; k < cap; k++ {
				var n int
				n, err = mr.Read(buf)
				if err != nil {
					return
				}
				items = append(items, [][]byte{vk.Clone(buf[:n])})
			}
		case stKv:
			kvr := stream.NewKvStreamReceiver(mr, bs)
			for k := 0; k < cap; k++ {
				var key []byte
				var vr io.Reader
				key, vr, err = kvr.Next()
				if err != nil {
					return
				}
				var val []byte
				val, err = stream.ReadValue(vr, bs)
				if err != nil {
					return
				}
				items = append(items, [][]byte{key, val})
			}
		case stZ:
			zr := stream.NewZStreamReceiver(mr, bs)
			for k := 0; k < cap; k++ {
				var set, key []byte
				var score float64
				var atTx uint64
				var vr io.Reader
				set, key, score, atTx, vr, err = zr.Next()
				if err != nil {
					return
				}
				var ze *schema.ZEntry
				ze, err = stream.ParseZEntry(set, key, score, atTx, vr, bs)
				if err != nil {
					return
				}
				items = append(items, [][]byte{ze.Set, ze.Key, u64b(math.Float64bits(ze.Score)), u64b(ze.AtTx), ze.Entry.Value})
			}
		case stVEntry:
			ver := stream.NewVEntryStreamReceiver(mr, bs)
			for k := 0; k < cap; k++ {
				var a, b, c []byte
				var vr io.Reader
				a, b, c, vr, err = ver.Next()
				if err != nil {
					return
				}
				// ParseVerifiableEntry = three proto.Unmarshal calls (not modelled) and this ReadValue
				var val []byte
				val, err = stream.ReadValue(vr, bs)
				if err != nil {
					return
				}
				items = append(items, [][]byte{a, b, c, val})
			}
		case stExecAll:
			ear := stream.NewExecAllStreamReceiver(mr, bs)
			for k := 0; k < cap; k++ {
				var op stream.IsOp_Operation
				op, err = ear.Next()
				if err != nil {
					if strings.Contains(err.Error(), stream.ErrUnableToReassembleExecAllMessage) {
						items = append(items, [][]byte{{2}}) // a ZAdd operation whose protobuf body did not parse
						errBytes += stackErrCost(err)
						err = nil
						continue
					}
					return
				}
				switch x := op.(type) {
				case *stream.Op_KeyValue:
					key, _ := io.ReadAll(x.KeyValue.Key.Content)
					var val []byte
					val, err = stream.ReadValue(x.KeyValue.Value.Content, bs)
					if err != nil {
						return
					}
					items = append(items, [][]byte{{1}, key, val})
				case *stream.Op_ZAdd:
					items = append(items, [][]byte{{2}})
				}
			}
		}
	})
	name := stKindName[kind]
	if !ret {
		r.Finding(fmt.Sprintf("stream %s loop did not return within 60s on chunks %v", name, chunksHex(chunks)))
		return
	}
	if pv != nil {
		if strings.Contains(fmt.Sprint(pv), "makeslice: len out of range") {
			r.Finding(fmt.Sprintf("%s: %s loop panicked (%v) on chunks %v", stReadFinding, name, pv, chunksHex(chunks)))
		} else {
			r.Finding(fmt.Sprintf("stream %s loop panicked (%v) on chunks %v", name, pv, chunksHex(chunks)))
		}
	}
	if alloc > uint64(64*(totalLen(chunks)+bs*cap))+(1<<20) {
		r.Finding(fmt.Sprintf("stream %s loop allocated %d bytes for %d bytes of chunks %v", name, alloc, totalLen(chunks), chunksHex(chunks)))
	}
	its := make([]string, len(items))
	for i, it := range items {
		fs := make([]string, len(it))
		for j, f := range it {
			fs[j] = vk.Hex(f)
		}
		its[i] = vk.List(fs)
	}
	r.Case(fmt.Sprintf("CStream %d %s %s %d %d %s %s %d %d %d", kind, chunksTerm(chunks), vk.Bool(finalEOF), bs, cap, vk.List(its), vk.Bool(pv != nil), alloc, errBytes, errUnit()),
		map[string]any{"kind": "stream", "what": name, "chunks": chunksHex(chunks), "final": finalEOF, "bs": bs, "cap": cap,
			"panic": pv != nil, "items": len(items), "alloc": alloc},
		"stream/"+name+"-"+bucket, totalLen(chunks) > 8)
}

func caseReadFully(r *vk.Run, chunks [][]byte, finalEOF bool, bucket string) {
	if tooManyHangs() {
		return
	}
	cs := newChunkStream(chunks, finalEOF)
	var msg []byte
	var err error
	pv, alloc, ret := measuredPanic(func() { msg, _, err = stream.NewMsgReceiver(cs).ReadFully() })
	if !ret {
		r.Finding(fmt.Sprintf("stream ReadFully did not return within 60s on chunks %v", chunksHex(chunks)))
		return
	}
	if pv != nil {
		if strings.Contains(fmt.Sprint(pv), "makeslice: len out of range") {
			r.Finding(fmt.Sprintf("%s: panic (%v) on chunks %v", stFullyFinding, pv, chunksHex(chunks)))
		} else {
			r.Finding(fmt.Sprintf("stream ReadFully panicked (%v) on chunks %v", pv, chunksHex(chunks)))
		}
	}
	if alloc > uint64(64*totalLen(chunks))+(1<<20) {
		r.Finding(fmt.Sprintf("%s: %d bytes allocated for %d bytes of chunks %v", stFullyFinding, alloc, totalLen(chunks), chunksHex(chunks)))
	}
	ok := ""
	if pv == nil && err == nil {
		ok = vk.Hex(msg)
	}
	r.Case(fmt.Sprintf("CStFully %s %s %s %d %d", chunksTerm(chunks), vk.Bool(finalEOF), resTerm(pv != nil, err, ok), alloc, stackErrCost(err)),
		map[string]any{"kind": "stfully", "chunks": chunksHex(chunks), "final": finalEOF, "panic": pv != nil, "err": errStr(err), "alloc": alloc},
		"stream/fully-"+bucket, totalLen(chunks) > 8)
}

// ---- generation ----
type stMsg struct {
	off int // offset of the 8-byte length field in the flat stream
}

// flat stream of length-prefixed messages
func stFlat(payloads [][]byte) ([]byte, []stMsg) {
	var s []byte
	var ms []stMsg
	for _, p := range payloads {
		ms = append(ms, stMsg{len(s)})
		s = append(s, u64b(uint64(len(p)))...)
		s = append(s, p...)
	}
	return s, ms
}

// cut a flat stream into chunks: mode 0 one chunk, 1 single bytes, 2 at message boundaries,
// 3 random pieces (possibly empty ones)
func stCut(rng rngT, s []byte, mode int, ms []stMsg) [][]byte {
	var out [][]byte
	switch mode % 4 {
	case 0:
		if len(s) > 0 {
			out = append(out, s)
		}
	case 1:
		for i := range s {
			out = append(out, s[i:i+1])
		}
	case 2:
		prev := 0
		for _, m := range ms[1:] {
			out = append(out, s[prev:m.off])
			prev = m.off
		}
		out = append(out, s[prev:])
	default:
		for len(s) > 0 {
			n := rng.Intn(13)
			if n > len(s) {
				n = len(s)
			}
			out = append(out, s[:n])
			s = s[n:]
		}
	}
	return out
}

func stPayloads(rng rngT, kind int) [][]byte {
	rb := func(n int) []byte { b := make([]byte, n); rng.Read(b); return b }
	var ps [][]byte
	n := 1 + rng.Intn(2)
	for k := 0; k < n; k++ {
		switch kind {
		case stRead, stKv:
			ps = append(ps, rb(1+rng.Intn(5)), rb(rng.Intn(20)+1))
		case stZ:
			ps = append(ps, rb(1+rng.Intn(3)), rb(1+rng.Intn(4)), rb(8), u64b(uint64(rng.Intn(1000))), rb(1+rng.Intn(12)))
		case stVEntry:
			ps = append(ps, rb(1+rng.Intn(4)), rb(1+rng.Intn(4)), rb(1+rng.Intn(4)), rb(1+rng.Intn(12)))
		case stExecAll:
			switch rng.Intn(4) {
			case 0:
				ps = append(ps, []byte{2}, rb(1+rng.Intn(6)))
			case 1:
				ps = append(ps, []byte{byte(rng.Intn(8))}, rb(1+rng.Intn(3)))
			default:
				ps = append(ps, []byte{1}, rb(1+rng.Intn(4)), rb(1+rng.Intn(10)))
			}
		}
	}
	return ps
}

var stLens = []uint64{0, 1, 2, 7, 8, 9, 1 << 20, 1<<63 - 1, 1 << 63, 1<<63 + 5, ^uint64(0), ^uint64(0) - 7}

func genStream(r *vk.Run, budget int) {
	// warm-up: the first protobuf unmarshalling of a ZAdd request builds the message type tables
	// (some 300 KB, once per process), which is not an allocation of the receivers
	{
		flat, _ := stFlat([][]byte{{2}, {8, 1}, {2}, {0xff}})
		ear := stream.NewExecAllStreamReceiver(stream.NewMsgReceiver(newChunkStream([][]byte{flat}, true)), 8)
		ear.Next()
		ear.Next()
	}
	bss := []int{1, 2, 7, 8, 9, 16, 33}
	per := budget / 18
	for kind := stRead; kind <= stExecAll; kind++ {
		for k := 0; k < per; k++ {
			ps := stPayloads(r.Rng, kind)
			flat, ms := stFlat(ps)
			bs := bss[r.Rng.Intn(len(bss))]
			caseStream(r, kind, stCut(r.Rng, flat, k, ms), true, bs, 12, "valid")
			// one length field altered
			m := ms[r.Rng.Intn(len(ms))]
			c := vk.Clone(flat)
			cur := binary.BigEndian.Uint64(c[m.off:])
			var v uint64
			switch r.Rng.Intn(4) {
			case 0:
				v = cur + 1
			case 1:
				v = cur - 1
			default:
				v = stLens[r.Rng.Intn(len(stLens))]
			}
			binary.BigEndian.PutUint64(c[m.off:], v)
			caseStream(r, kind, stCut(r.Rng, c, r.Rng.Intn(4), ms), r.Rng.Intn(5) != 0, bs, 12, "length")
			// truncated / garbage appended / transport error instead of EOF
			switch r.Rng.Intn(3) {
			case 0:
				caseStream(r, kind, stCut(r.Rng, flat[:r.Rng.Intn(len(flat)+1)], 3, ms), r.Rng.Intn(3) != 0, bs, 12, "truncated")
			case 1:
				caseStream(r, kind, stCut(r.Rng, append(vk.Clone(flat), vk.SmallBiased(r.Rng, 1+r.Rng.Intn(12))...), 3, ms), true, bs, 12, "trailing")
			default:
				caseStream(r, kind, stCut(r.Rng, flat, 3, ms), false, bs, 12, "transport-error")
			}
		}
	}
	for k := 0; k < budget/16; k++ {
		s := vk.SmallBiased(r.Rng, r.Rng.Intn(40))
		caseStream(r, r.Rng.Intn(5), stCut(r.Rng, s, 3, nil), r.Rng.Intn(4) != 0, bss[r.Rng.Intn(len(bss))], 12, "random")
	}
	// directed: exec-all streams on which several stack-capturing errors are built, one of them
	// dropped by the receiver (ZAdd body whose length has the top bit set), found by the thorough tier
	hx := func(xs ...string) [][]byte {
		var out [][]byte
		for _, x := range xs {
			b, _ := hex.DecodeString(x)
			out = append(out, b)
		}
		return out
	}
	caseStream(r, stExecAll, hx("000000000000000102ffffffffffffffff93"), true, 2, 12, "directed")
	caseStream(r, stExecAll, hx("000000000000000102", "00000000000000022ff1", "000000000000000102", "80000000000000009a"), true, 8, 12, "directed")
	caseStream(r, stExecAll, hx("000000000000000102fffffffffffffff8e6"), true, 8, 12, "directed")
	caseStream(r, stExecAll, hx("000000000000000102", "ffffffffffffffffae09d690f8", "000000000000000101", "0000000000000004f6a16aaa", "000000000000000ac4081f0bfa5adf01f4e0"), true, 9, 12, "directed")
	caseStream(r, stExecAll, hx("000000000000000102", "fffffffffffffff8825ce4b906"), false, 2, 12, "directed")
	// twelve ZAdd operations in a row, each with a dropped error / each with an unparsable body
	{
		var many, bad []byte
		for k := 0; k < 6; k++ {
			many = append(many, u64b(1)...)
			many = append(many, 2)
			many = append(many, u64b(1<<63+uint64(k))...)
			bad = append(bad, u64b(1)...)
			bad = append(bad, 2)
			bad = append(bad, u64b(2)...)
			bad = append(bad, 0x2f, 0xf1)
		}
		caseStream(r, stExecAll, [][]byte{many}, true, 8, 12, "directed")
		caseStream(r, stExecAll, [][]byte{bad}, true, 8, 12, "directed")
	}
	// the witnesses of coq/Wire/StreamTotal.v
	caseStream(r, stKv, [][]byte{u64b(1 << 63)}, true, 8, 12, "witness")
	caseReadFully(r, [][]byte{u64b(1 << 63)}, true, "witness")
	caseReadFully(r, [][]byte{append(u64b(1<<28), 1, 2, 3, 4)}, true, "witness")
	// ReadFully: first chunk of every short length, length field around what is delivered
	pay := []byte("exported-transaction-bytes")
	for n := 0; n <= 9; n++ {
		caseReadFully(r, [][]byte{vk.SmallBiased(r.Rng, n)}, true, "first-chunk")
	}
	caseReadFully(r, nil, true, "first-chunk")
	caseReadFully(r, nil, false, "first-chunk")
	for _, l := range []uint64{0, 1, uint64(len(pay)) - 1, uint64(len(pay)), uint64(len(pay)) + 1, 2 * uint64(len(pay)), 1 << 16, 1<<63 - 1, 1<<63 + 1, ^uint64(0), 1 << 48, 1<<48 + 1} {
		if l == 1<<63-1 || l == 1<<48 {
			continue // would ask the runtime for 2^63-1 / 2^48 bytes: out-of-memory crash of the harness itself
		}
		flat := append(u64b(l), pay...)
		for mode := 0; mode < 4; mode++ {
			caseReadFully(r, stCut(r.Rng, flat, mode+4*r.Rng.Intn(2), []stMsg{{0}}), mode != 1, "length")
		}
		caseReadFully(r, [][]byte{flat[:8+len(pay)/2], flat[8+len(pay)/2:], pay}, true, "length")
	}
	for k := 0; k < budget/16; k++ {
		flat := append(u64b(uint64(r.Rng.Intn(40))), vk.RandBytes(r.Rng, r.Rng.Intn(40))...)
		caseReadFully(r, stCut(r.Rng, flat, 3, nil), r.Rng.Intn(4) != 0, "random")
	}
}
