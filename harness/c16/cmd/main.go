package main

import (
	"verif/harness/c16"
	"verif/harness/vk"
)

func main() { vk.Main("Tie.C16", c16.Gen, c16.Replay) }
