// Package c16: correspondence cases for the store decoders (C16, also reused by C15).
package c16

import (
	"context"
	"encoding/binary"
	"encoding/hex"
	"errors"
	"fmt"
	"os"
	"path/filepath"
	"time"

	"io"

	"github.com/codenotary/immudb/embedded/logger"
	"github.com/codenotary/immudb/embedded/store"
	"verif/harness/vk"
)

func outcome(f func() error) (panicked bool, err error) {
	defer func() {
		if r := recover(); r != nil {
			panicked = true
		}
	}()
	err = f()
	return
}

func resTerm(panicked bool, err error, ok string) string {
	if panicked {
		return "Panic"
	}
	if err != nil {
		return "(Err 0)"
	}
	return "(Ok " + ok + ")"
}

func TxMdTerm(md *store.TxMetadata) string {
	if md == nil {
		return "{| md_trunc := None; md_extra := None |}"
	}
	var tr string = "None"
	if md.HasTruncatedTxID() {
		v, _ := md.GetTruncatedTxID()
		tr = fmt.Sprintf("(Some %d)", v)
	}
	return fmt.Sprintf("{| md_trunc := %s; md_extra := %s |}", tr, vk.OptHex(md.Extra()))
}

func KvMdTerm(md *store.KVMetadata) string {
	exp := "None"
	if md.IsExpirable() {
		t, _ := md.ExpirationTime()
		exp = fmt.Sprintf("(Some %d)", uint64(t.Unix()))
	}
	return fmt.Sprintf("{| kv_deleted := %s; kv_expires := %s; kv_nonindexable := %s |}",
		vk.Bool(md.Deleted()), exp, vk.Bool(md.NonIndexable()))
}

func HdrTerm(h *store.TxHeader) string {
	md := "None"
	if h.Metadata != nil {
		md = "(Some " + TxMdTerm(h.Metadata) + ")"
	}
	return fmt.Sprintf("{| h_id := %d; h_prevalh := %s; h_ts := %d; h_version := %d; h_md := %s; h_nentries := %d; h_eh := %s; h_bltxid := %d; h_blroot := %s |}",
		h.ID, vk.Hex(h.PrevAlh[:]), uint64(h.Ts), h.Version, md, h.NEntries, vk.Hex(h.Eh[:]), h.BlTxID, vk.Hex(h.BlRoot[:]))
}

func caseTxMd(r *vk.Run, in []byte, bucket string) {
	in = vk.Exact(in)
	md := store.NewTxMetadata()
	p, err := outcome(func() error { return md.ReadFrom(in) })
	r.Case(fmt.Sprintf("CTxMd %s %s", vk.Hex(in), resTerm(p, err, TxMdTerm(md))),
		map[string]any{"kind": "txmd", "in": fmt.Sprintf("%x", in), "panic": p, "err": errStr(err)}, "txmd/"+bucket, len(in) > 0)
}

func caseKvMd(r *vk.Run, in []byte, bucket string) {
	in = vk.Exact(in)
	var md *store.KVMetadata
	p, err := outcome(func() error {
		var e error
		md, e = store.VerifKVMetadataFromBytes(in)
		return e
	})
	ok := ""
	if !p && err == nil {
		ok = KvMdTerm(md)
	}
	r.Case(fmt.Sprintf("CKvMd %s %s", vk.Hex(in), resTerm(p, err, ok)),
		map[string]any{"kind": "kvmd", "in": fmt.Sprintf("%x", in), "panic": p, "err": errStr(err)}, "kvmd/"+bucket, len(in) > 0)
}

func caseHdr(r *vk.Run, in []byte, bucket string) {
	in = vk.Exact(in)
	h := &store.TxHeader{}
	p, err := outcome(func() error { return h.ReadFrom(in) })
	ok := ""
	if !p && err == nil {
		ok = HdrTerm(h)
	}
	r.Case(fmt.Sprintf("CHdr %s %s", vk.Hex(in), resTerm(p, err, ok)),
		map[string]any{"kind": "hdr", "in": fmt.Sprintf("%x", in), "panic": p, "err": errStr(err)}, "hdr/"+bucket, len(in) >= 124)
}

func errStr(err error) string {
	if err == nil {
		return ""
	}
	return err.Error()
}

// ---------- valid encodings to mutate ----------
func validTxMds(r *vk.Run) [][]byte {
	var out [][]byte
	for _, el := range []int{0, 1, 2, 7, 255, 256} {
		for _, tr := range []bool{false, true} {
			md := store.NewTxMetadata()
			if tr {
				md.WithTruncatedTxID(r.Rng.Uint64())
			}
			if el > 0 {
				md.WithExtra(vk.RandBytes(r.Rng, el))
			}
			out = append(out, md.Bytes())
		}
	}
	// non-canonical: extra first, duplicates, over-long extra (257..265)
	ex := append([]byte{1, 0, 3}, 9, 8, 7)
	tr := append([]byte{0}, 0, 0, 0, 0, 0, 0, 0, 42)
	out = append(out, append(vk.Clone(ex), tr...), append(vk.Clone(tr), tr...), append(vk.Clone(ex), ex...))
	for _, n := range []int{257, 260, 265, 266} {
		b := []byte{1, byte(n >> 8), byte(n)}
		out = append(out, append(b, vk.RandBytes(r.Rng, n)...))
	}
	return out
}

func validKvMds(r *vk.Run) [][]byte {
	var out [][]byte
	for m := 0; m < 8; m++ {
		md := store.NewKVMetadata()
		if m&1 != 0 {
			md.AsDeleted(true)
		}
		if m&2 != 0 {
			md.ExpiresAt(time.Unix(int64(r.Rng.Uint32()), 0))
		}
		if m&4 != 0 {
			md.AsNonIndexable(true)
		}
		out = append(out, md.Bytes())
	}
	out = append(out, []byte{2, 0, 1, 0, 0, 0, 0, 0, 0, 0, 5}, []byte{0, 0, 0}, []byte{1, 0xff, 0xff, 0xff, 0xff, 0xff, 0xff, 0xff, 0xff})
	return out
}

func validHdrs(r *vk.Run) [][]byte {
	var out [][]byte
	mds := validTxMds(r)
	for k := 0; k < 14; k++ {
		h := &store.TxHeader{ID: 2 + uint64(r.Rng.Intn(1000)), Ts: r.Rng.Int63(), Version: k % 2, NEntries: 1 + r.Rng.Intn(60000)}
		h.BlTxID = uint64(r.Rng.Int63n(int64(h.ID)))
		r.Rng.Read(h.PrevAlh[:])
		r.Rng.Read(h.Eh[:])
		r.Rng.Read(h.BlRoot[:])
		if h.Version == 1 && k > 1 {
			md := store.NewTxMetadata()
			if md.ReadFrom(mds[(k/2)%12]) == nil {
				h.Metadata = md
			}
			if k > 8 {
				h.NEntries = 1 + r.Rng.Intn(1<<30)
			}
		}
		b, err := h.Bytes()
		if err == nil {
			out = append(out, b)
		}
	}
	return out
}

// hdrWithRawMd builds a version-1 header around arbitrary metadata bytes (valid or not).
func hdrWithRawMd(r *vk.Run, md []byte, tail int) []byte {
	b := make([]byte, 0, 200+len(md))
	var u8 [8]byte
	binary.BigEndian.PutUint64(u8[:], 5)
	b = append(b, u8[:]...)
	b = append(b, vk.RandBytes(r.Rng, 32)...)
	b = append(b, vk.RandBytes(r.Rng, 8)...)
	b = append(b, 0, 1)
	b = append(b, byte(len(md)>>8), byte(len(md)))
	b = append(b, md...)
	t := append([]byte{0, 0, 0, 3}, vk.RandBytes(r.Rng, 32)...)
	t = append(t, 0, 0, 0, 0, 0, 0, 0, 4)
	t = append(t, vk.RandBytes(r.Rng, 32)...)
	if tail < len(t) {
		t = t[:tail]
	}
	return append(b, t...)
}

type replicaState struct{ pre, com uint64 }

func stateOf(s *store.ImmuStore) replicaState {
	return replicaState{s.LastPrecommittedTxID(), s.LastCommittedTxID()}
}

// Gen: VERIF_C16_ONLY=<part> (development aid) restricts a run to one part:
// store | appmd | probes | sql | pgsql | stream | opentime | repl
func Gen(r *vk.Run, n int) error {
	budget := n
	only := os.Getenv("VERIF_C16_ONLY")
	want := func(part string) bool { return only == "" || only == part }
	if want("store") {
		genStoreCodecs(r, budget)
	}
	// --- appendable metadata (modelled) and the un-modelled parsers (probes: falsifier only)
	if want("appmd") {
		genAppMd(r, budget/3)
	}
	if want("probes") {
		genProbes(r, budget/30)
	}
	// --- SQL text: every prefix / delimiter edit of a grammar-covering statement pool (falsifier only)
	if want("sql") {
		genSQLProbes(r)
	}
	// --- PostgreSQL wire messages and framing (modelled: Wire/PgMsg.v)
	if want("pgsql") {
		genPgsql(r, budget/7)
	}
	// --- pkg/stream receivers (modelled: Wire/Stream.v)
	if want("stream") {
		genStream(r, budget/7)
	}
	// --- open-time parsing of tbtree / ahtree (modelled: Store/OpenTime.v)
	if want("opentime") {
		genOpenTime(r, budget/10)
	}
	// --- ReplicateTx on real stores
	if want("repl") {
		return genRepl(r, budget/3)
	}
	return nil
}

func genStoreCodecs(r *vk.Run, budget int) {
	// --- TxMetadata
	for _, v := range validTxMds(r) {
		caseTxMd(r, v, "valid")
		for _, m := range vk.Mutations(r.Rng, v, 24) {
			caseTxMd(r, m, "mutated")
		}
	}
	for k := 0; k < budget/20; k++ {
		caseTxMd(r, vk.SmallBiased(r.Rng, r.Rng.Intn(24)), "random")
	}
	// --- KVMetadata
	for _, v := range validKvMds(r) {
		caseKvMd(r, v, "valid")
		for _, m := range vk.Mutations(r.Rng, v, 16) {
			caseKvMd(r, m, "mutated")
		}
	}
	for k := 0; k < budget/20; k++ {
		caseKvMd(r, vk.SmallBiased(r.Rng, r.Rng.Intn(14)), "random")
	}
	// --- TxHeader
	for _, v := range validHdrs(r) {
		caseHdr(r, v, "valid")
		for _, m := range vk.Mutations(r.Rng, v, 60) {
			caseHdr(r, m, "mutated")
		}
	}
	for _, md := range validTxMds(r) {
		for _, tail := range []int{0, 3, 4, 20, 36, 43, 44, 75, 76, 200} {
			caseHdr(r, hdrWithRawMd(r, md, tail), "rawmd")
		}
		for _, m := range vk.Mutations(r.Rng, md, 8) {
			caseHdr(r, hdrWithRawMd(r, m, 200), "rawmd-mutated")
		}
	}
	for k := 0; k < budget/20; k++ {
		caseHdr(r, vk.SmallBiased(r.Rng, 110+r.Rng.Intn(60)), "random")
	}
}

func genRepl(r *vk.Run, budget int) error {
	ctx := context.Background()
	pdir, err := os.MkdirTemp("", "vh-c16-p")
	if err != nil {
		return err
	}
	defer os.RemoveAll(pdir)
	rdir, err := os.MkdirTemp("", "vh-c16-r")
	if err != nil {
		return err
	}
	defer os.RemoveAll(rdir)
	opts := store.DefaultOptions().WithSynced(false).WithMaxConcurrency(4).
		WithLogger(logger.NewSimpleLoggerWithLevel("vh", io.Discard, logger.LogError))
	primary, err := store.Open(pdir, opts)
	if err != nil {
		return err
	}
	defer primary.Close()
	replica, err := store.Open(rdir, opts)
	if err != nil {
		return err
	}
	defer replica.Close()

	const ntx = 8
	for t := 0; t < ntx; t++ {
		tx, err := primary.NewWriteOnlyTx(ctx)
		if err != nil {
			return err
		}
		if t%3 == 1 {
			md := store.NewTxMetadata()
			md.WithExtra(vk.RandBytes(r.Rng, 1+r.Rng.Intn(40)))
			tx.WithMetadata(md)
		}
		ne := 1 + r.Rng.Intn(4)
		for e := 0; e < ne; e++ {
			var md *store.KVMetadata
			switch r.Rng.Intn(4) {
			case 1:
				md = store.NewKVMetadata()
				md.AsDeleted(true)
			case 2:
				md = store.NewKVMetadata()
				md.ExpiresAt(time.Unix(4000000000, 0))
			case 3:
				md = store.NewKVMetadata()
				md.AsNonIndexable(true)
			}
			val := vk.RandBytes(r.Rng, r.Rng.Intn(20))
			if err := tx.Set([]byte(fmt.Sprintf("k%d-%d", t, e)), md, val); err != nil {
				return err
			}
		}
		if _, err := tx.Commit(ctx); err != nil {
			return err
		}
	}
	holder := store.NewTx(primary.MaxTxEntries(), primary.MaxKeyLen())
	per := budget / ntx
	genuine := make([][]byte, ntx+1)
	for id := uint64(1); id <= ntx; id++ {
		etx, err := primary.ExportTx(id, false, false, holder)
		if err != nil {
			return err
		}
		genuine[id] = vk.Clone(etx)
	}
	// rebuild gives a fresh replica holding exactly the genuine transactions 1..upto: used whenever
	// an altered export was accepted (header fields no check of ReplicateTx covers — timestamp,
	// metadata: C07's known finding), so that the replica stays in lock-step with the primary
	nrep := 0
	rebuild := func(upto uint64) error {
		replica.Close()
		nrep++
		d := filepath.Join(rdir, fmt.Sprintf("r%d", nrep))
		var err error
		replica, err = store.Open(d, opts)
		if err != nil {
			return err
		}
		for id := uint64(1); id <= upto; id++ {
			if _, err := replica.ReplicateTx(ctx, genuine[id], false, false); err != nil {
				return fmt.Errorf("rebuilding replica: tx %d: %w", id, err)
			}
		}
		return nil
	}
	for id := uint64(1); id <= ntx; id++ {
		etx := genuine[id]
		muts := vk.Mutations(r.Rng, etx, per)
		// dedicated framing attacks on the trailer and on the first entry's metadata/value lengths
		muts = append(muts, etx[:len(etx)-3], etx[:len(etx)-2], etx[:len(etx)-1],
			append(vk.Clone(etx[:len(etx)-3]), 0, 0), append(vk.Clone(etx[:len(etx)-3]), 0),
			append(vk.Clone(etx[:len(etx)-3]), 0, 2, 1, 1), append(vk.Clone(etx[:len(etx)-3]), 0, 1, 2))
		fms := fieldMutations(etx)
		if id > 2 { // full boundary sweep on two transactions, a sample on the others
			var sample [][]byte
			for k := int(id) % 7; k < len(fms); k += 7 {
				sample = append(sample, fms[k])
			}
			fms = sample
		}
		muts = append(muts, fms...)
		for _, m := range muts {
			replCase(r, replica, ctx, m, "mutated")
			if replica.LastPrecommittedTxID() != id-1 {
				if err := rebuild(id - 1); err != nil {
					return err
				}
			}
		}
		replCase(r, replica, ctx, etx, "valid") // the genuine tx advances the replica
		if replica.LastCommittedTxID() != id {
			r.Finding(fmt.Sprintf("replica did not accept genuine tx %d", id))
		}
		replCase(r, replica, ctx, etx, "duplicate")
	}
	for k := 0; k < budget/10; k++ {
		replCase(r, replica, ctx, vk.SmallBiased(r.Rng, r.Rng.Intn(40)), "random")
	}
	return nil
}

func replCase(r *vk.Run, replica *store.ImmuStore, ctx context.Context, in []byte, bucket string) {
	timeout := 250 * time.Millisecond
	if bucket == "valid" || bucket == "duplicate" {
		timeout = 60 * time.Second // genuine transactions must get through even on a loaded machine
	}
	in = vk.Exact(in)
	before := stateOf(replica)
	cctx, cancel := context.WithTimeout(ctx, timeout)
	p, err := outcome(func() error {
		_, e := replica.ReplicateTx(cctx, in, false, false)
		return e
	})
	cancel()
	if errors.Is(err, store.ErrTxAlreadyCommitted) {
		// a duplicate of an already committed tx is reported as an error without effect
	}
	after := stateOf(replica)
	changed := before != after
	r.Case(fmt.Sprintf("CRepl %s %s %s %s", vk.Hex(in), vk.Bool(p), vk.Bool(err != nil), vk.Bool(changed)),
		map[string]any{"kind": "repl", "in": fmt.Sprintf("%x", in), "panic": p, "err": errStr(err), "changed": changed},
		"repl/"+bucket, len(in) > 4)
}

// Replay re-runs one recorded case on the implementation.
func Replay(r *vk.Run, c map[string]any) error {
	if done, err := replayWire(r, c); done {
		return err
	}
	in, err := hex.DecodeString(c["in"].(string))
	if err != nil {
		return err
	}
	switch c["kind"] {
	case "txmd":
		caseTxMd(r, in, "replay")
	case "kvmd":
		caseKvMd(r, in, "replay")
	case "hdr":
		caseHdr(r, in, "replay")
	case "appmd":
		key, _ := hex.DecodeString(c["key"].(string))
		caseAppMd(r, in, key, "replay")
	case "repl":
		dir, err := os.MkdirTemp("", "vh-c16-replay")
		if err != nil {
			return err
		}
		defer os.RemoveAll(dir)
		st, err := store.Open(dir, store.DefaultOptions().WithSynced(false).
			WithLogger(logger.NewSimpleLoggerWithLevel("vh", io.Discard, logger.LogError)))
		if err != nil {
			return err
		}
		defer st.Close()
		replCase(r, st, context.Background(), in, "replay")
	}
	return nil
}

// lenField is a length/count field of the export wire format: offset and width in bytes.
type lenField struct{ off, width int }

// exportLenFields locates every length field of a GENUINE exported transaction:
// hdrLen | header | per entry: kLen key mdLen md vLen value | tLen trailer.
func exportLenFields(etx []byte) []lenField {
	var fs []lenField
	if len(etx) < 4 {
		return fs
	}
	hl := int(binary.BigEndian.Uint32(etx))
	fs = append(fs, lenField{0, 4})
	if len(etx) < 4+hl {
		return fs
	}
	h := &store.TxHeader{}
	if h.ReadFrom(etx[4:4+hl]) != nil {
		return fs
	}
	if h.Version == 1 {
		fs = append(fs, lenField{4 + 50, 2}) // tx metadata length inside the header
	}
	i := 4 + hl
	for e := 0; e < h.NEntries && i+2 <= len(etx); e++ {
		fs = append(fs, lenField{i, 2})
		i += 2 + int(binary.BigEndian.Uint16(etx[i:]))
		if i+2 > len(etx) {
			return fs
		}
		fs = append(fs, lenField{i, 2})
		i += 2 + int(binary.BigEndian.Uint16(etx[i:]))
		if i+4 > len(etx) {
			return fs
		}
		fs = append(fs, lenField{i, 4})
		i += 4 + int(binary.BigEndian.Uint32(etx[i:]))
	}
	if i+2 <= len(etx) {
		fs = append(fs, lenField{i, 2})
	}
	return fs
}

// fieldMutations: for every length field, values that make its payload end exactly at / just
// before / just after the end of the message, and messages truncated right behind the field or a
// few bytes into its payload (with the length set to what remains, one less, one more).
func fieldMutations(etx []byte) [][]byte {
	var out [][]byte
	put := func(b []byte, f lenField, v int) {
		if v < 0 {
			return
		}
		if f.width == 2 {
			binary.BigEndian.PutUint16(b[f.off:], uint16(v))
		} else {
			binary.BigEndian.PutUint32(b[f.off:], uint32(v))
		}
	}
	for _, f := range exportLenFields(etx) {
		rem := len(etx) - (f.off + f.width)
		for _, v := range []int{rem, rem - 1, rem + 1, rem - 2, rem - 3, rem - 4, rem - 5, rem - 6, rem - 7, 0, 1, 65535} {
			c := vk.Clone(etx)
			put(c, f, v)
			out = append(out, c)
		}
		for _, keep := range []int{0, 1, 2, 3, 4, 5, 6, 7} {
			end := f.off + f.width + keep
			if end > len(etx) {
				break
			}
			for _, d := range []int{0, -1, 1, -2, 2} {
				c := vk.Clone(etx[:end])
				put(c, f, keep+d)
				out = append(out, c)
			}
		}
	}
	return out
}
