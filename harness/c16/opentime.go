package c16

// Open-time parsing of the index (tbtree) and of the binary-linking tree (ahtree), modelled in
// coq/Store/OpenTime.v: commit-log entries, the parameters kept in the commit-log metadata, node
// parsing, the timestamp file, payload/digest log sizes. The unexported pieces are reached through
// the add-only hooks embedded/tbtree/verif_hooks_c16.go and embedded/ahtree/verif_hooks_c16.go.

import (
	"encoding/binary"
	"errors"
	"fmt"
	"io"
	"math/rand"
	"os"
	"path/filepath"
	"strings"

	"github.com/codenotary/immudb/embedded/ahtree"
	"github.com/codenotary/immudb/embedded/appendable"
	"github.com/codenotary/immudb/embedded/appendable/multiapp"
	"github.com/codenotary/immudb/embedded/logger"
	"github.com/codenotary/immudb/embedded/tbtree"
	"verif/harness/vk"
)

// memApp: an appendable.Appendable over a byte slice with the read semantics of singleapp
// (negative offset: error; reading past the end: what is there + io.EOF). size may be larger than
// the content (a log of that size whose bytes are zero / irrelevant).
type memApp struct {
	data []byte
	size int64
	md   []byte
}

var errNegOff = errors.New("memapp: negative offset")

func newMemApp(data []byte) *memApp { return &memApp{data: data, size: int64(len(data))} }

func (a *memApp) Metadata() []byte     { return a.md }
func (a *memApp) Size() (int64, error) { return a.size, nil }
func (a *memApp) Offset() int64        { return a.size }
func (a *memApp) SetOffset(off int64) error {
	if off < 0 || off > a.size {
		return fmt.Errorf("memapp: illegal offset %d", off)
	}
	a.size = off
	if int64(len(a.data)) > off {
		a.data = a.data[:off]
	}
	return nil
}
func (a *memApp) DiscardUpto(off int64) error { return nil }
func (a *memApp) Append(bs []byte) (int64, int, error) {
	off := a.size
	a.data = append(a.data, bs...)
	a.size += int64(len(bs))
	return off, len(bs), nil
}
func (a *memApp) Flush() error                { return nil }
func (a *memApp) Sync() error                 { return nil }
func (a *memApp) SwitchToReadOnlyMode() error { return nil }
func (a *memApp) ReadAt(bs []byte, off int64) (int, error) {
	if off < 0 {
		return 0, errNegOff
	}
	if off >= a.size {
		return 0, io.EOF
	}
	n := 0
	if off < int64(len(a.data)) {
		n = copy(bs, a.data[off:])
	}
	// zeroes up to the nominal size
	for n < len(bs) && off+int64(n) < a.size {
		bs[n] = 0
		n++
	}
	if n < len(bs) {
		return n, io.EOF
	}
	return n, nil
}
func (a *memApp) Close() error              { return nil }
func (a *memApp) Copy(dstPath string) error { return nil }
func (a *memApp) CompressionFormat() int    { return appendable.NoCompression }
func (a *memApp) CompressionLevel() int     { return 0 }

func u32b(v uint32) []byte { var b [4]byte; binary.BigEndian.PutUint32(b[:], v); return b[:] }
func u16b(v int) []byte    { var b [2]byte; binary.BigEndian.PutUint16(b[:], uint16(v)); return b[:] }

const tbOpenFinding = "tbtree open-time parsing"
const ahOpenFinding = "ahtree open-time parsing"

// ---- tbtree commit-log entry ----
func tbEntry(inl, fnl uint64, root uint32, ihl, fhl uint64, async bool, rng rngT) []byte {
	b := make([]byte, 0, tbtree.VerifCLogEntrySize)
	b = append(b, u64b(inl)...)
	b = append(b, u64b(fnl)...)
	b = append(b, u32b(root)...)
	ck := make([]byte, 32)
	rng.Read(ck)
	b = append(b, ck...)
	b = append(b, u64b(ihl)...)
	b = append(b, u64b(fhl)...)
	rng.Read(ck)
	b = append(b, ck...)
	if async {
		b[0] |= 0x80
	}
	return b
}

func checksumClass(rAt io.ReaderAt, off, n int64) (cls int, pv interface{}) {
	var err error
	func() {
		defer func() { pv = recover() }()
		_, err = appendable.Checksum(rAt, off, n)
	}()
	switch {
	case pv != nil:
		return 2, pv
	case err != nil && !errors.Is(err, io.EOF):
		return 1, nil
	}
	return 0, nil
}

func caseOtEntry(r *vk.Run, b []byte, bucket string) {
	in := vk.Exact(b)
	work := vk.Clone(in) // deserialize clears the flag bit in place
	synced, inl, fnl, root, nck, ihl, fhl, hck, valid := tbtree.VerifCLogEntry(work)
	ck := 0
	var pv interface{}
	if valid {
		nlog, hlog := newMemApp(make([]byte, 64)), newMemApp(make([]byte, 64))
		ck, pv = checksumClass(nlog, inl, fnl-inl)
		if ck == 0 {
			ck, pv = checksumClass(hlog, ihl, fhl-ihl)
		}
		if fnl-int64(root) < 0 {
			r.Finding(fmt.Sprintf("%s: commit-log entry %x is valid although its root offset is negative", tbOpenFinding, in))
		}
	}
	if pv != nil {
		r.Finding(fmt.Sprintf("%s: Checksum over the range of a commit-log entry accepted by isValid panicked (%v): entry %x", tbOpenFinding, pv, in))
	}
	e := fmt.Sprintf("{| ce_synced := %s; ce_inl := %s; ce_fnl := %s; ce_root := %s; ce_nck := %s; ce_ihl := %s; ce_fhl := %s; ce_hck := %s |}",
		vk.Bool(synced), zt(inl), zt(fnl), zt(int64(root)), vk.Hex(nck[:]), zt(ihl), zt(fhl), vk.Hex(hck[:]))
	r.Case(fmt.Sprintf("COtEntry %s %s %s %d", vk.Hex(in), e, vk.Bool(valid), ck),
		map[string]any{"kind": "otentry", "in": fmt.Sprintf("%x", in), "panic": pv != nil, "valid": valid, "ck": ck},
		"opentime/tb-entry-"+bucket, true)
}

// ---- tbtree parameters from the commit-log metadata ----
func caseOtParams(r *vk.Run, md []byte, dir string, bucket string) {
	if tooManyHangs() {
		return
	}
	in := vk.Exact(md)
	const okey, oval = 32, 64
	opts := tbtree.DefaultOptions().WithMaxKeySize(okey).WithMaxValueSize(oval).
		WithLogger(logger.NewSimpleLoggerWithLevel("vh", io.Discard, logger.LogError))
	cLog := newMemApp(nil)
	cLog.md = in
	var t *tbtree.TBtree
	var err error
	p, alloc, ret := measured(func() {
		t, err = tbtree.OpenWith(dir, "TIMESTAMP", newMemApp(nil), newMemApp(nil), cLog, opts)
	})
	if !ret {
		r.Finding(fmt.Sprintf("%s: OpenWith did not return within 60s for metadata %x", tbOpenFinding, in))
		return
	}
	if p {
		r.Finding(fmt.Sprintf("%s: OpenWith panicked for metadata %x", tbOpenFinding, in))
	}
	_ = alloc
	ok := ""
	if !p && err == nil {
		mns, mk, mv := tbtree.VerifParams(t)
		ok = fmt.Sprintf("(%s, %s, %s)", zt(int64(mns)), zt(int64(mk)), zt(int64(mv)))
		// direct check: the node size sizes every read buffer and snapshot buffer
		if mns < 0 || mns > 1<<27 || mk <= 0 || mk > 65535 || mv <= 0 || mv > 65535 {
			r.Finding(fmt.Sprintf("%s: OpenWith accepted the parameters maxNodeSize=%d maxKeySize=%d maxValueSize=%d from the commit-log metadata %x (buffers of maxNodeSize bytes are allocated for every node read and snapshot)",
				tbOpenFinding, mns, mk, mv, in))
			// not closed: Close flushes through a snapshot whose buffer is make([]byte, maxNodeSize) -- an
			// out-of-memory crash of this process for the values above
		} else {
			outcome(func() error { return t.Close() })
		}
	}
	r.Case(fmt.Sprintf("COtParams %s %s %s %s", vk.Hex(in), zt(okey), zt(oval), resTerm(p, err, ok)),
		map[string]any{"kind": "otparams", "in": fmt.Sprintf("%x", in), "panic": p, "err": errStr(err)},
		"opentime/tb-params-"+bucket, len(in) > 4)
}

func tbMetadata(ver, mns, mk, mv int, withKV bool) []byte {
	m := appendable.NewMetadata(nil)
	m.PutInt(tbtree.MetaVersion, ver)
	m.PutInt(tbtree.MetaMaxNodeSize, mns)
	if withKV {
		m.PutInt(tbtree.MetaMaxKeySize, mk)
		m.PutInt(tbtree.MetaMaxValueSize, mv)
	}
	return m.Bytes()
}

// ---- tbtree nodes ----
type nodeBuilder struct {
	b      []byte
	counts []int // offsets of uint16 count / size fields
}

func (nb *nodeBuilder) u16(v int) {
	nb.counts = append(nb.counts, len(nb.b))
	nb.b = append(nb.b, u16b(v)...)
}

func buildInner(rng *rand.Rand, n int) *nodeBuilder {
	nb := &nodeBuilder{b: []byte{0}}
	nb.u16(n)
	for i := 0; i < n; i++ {
		k := vk.RandBytes(rng, rng.Intn(5))
		nb.u16(len(k))
		nb.b = append(nb.b, k...)
		nb.b = append(nb.b, u64b(uint64(rng.Intn(100)))...)
		nb.b = append(nb.b, u64b(uint64(rng.Intn(5000)))...)
		nb.b = append(nb.b, u64b(uint64(rng.Intn(5000)))...)
	}
	return nb
}

func buildLeaf(rng *rand.Rand, n int) *nodeBuilder {
	nb := &nodeBuilder{b: []byte{1}}
	nb.u16(n)
	for i := 0; i < n; i++ {
		k := vk.RandBytes(rng, 1+rng.Intn(4))
		v := vk.RandBytes(rng, rng.Intn(6))
		nb.u16(len(k))
		nb.b = append(nb.b, k...)
		nb.u16(len(v))
		nb.b = append(nb.b, v...)
		nb.b = append(nb.b, u64b(uint64(rng.Intn(100)))...)
		nb.b = append(nb.b, u64b(uint64(rng.Intn(5000)))...)
		nb.b = append(nb.b, u64b(uint64(rng.Intn(9)))...)
	}
	return nb
}

func caseOtNode(r *vk.Run, log []byte, off int, bucket string) {
	if tooManyHangs() {
		return
	}
	in := vk.Exact(log)
	var inner bool
	var refs []tbtree.VerifNodeRef
	var vals []tbtree.VerifLeafValue
	var err error
	p, alloc, ret := measured(func() { inner, refs, vals, err = tbtree.VerifReadNode(newMemApp(in), int64(off), 256) })
	if !ret {
		r.Finding(fmt.Sprintf("%s: readNodeAt did not return within 60s on %x", tbOpenFinding, in))
		return
	}
	if p {
		r.Finding(fmt.Sprintf("%s: readNodeAt panicked on %x", tbOpenFinding, in))
	}
	if alloc > uint64(64*len(in))+(3<<20) {
		r.Finding(fmt.Sprintf("%s: readNodeAt allocated %d bytes for a %d-byte nodes log %x", tbOpenFinding, alloc, len(in), in[:minInt(len(in), 64)]))
	}
	ok := ""
	if !p && err == nil {
		if inner {
			if len(refs) == 0 {
				r.Finding(fmt.Sprintf("%s: readNodeAt returned an inner node without children (every look-up indexes nodes[0]) for %x", tbOpenFinding, in[off:]))
			}
			xs := make([]string, len(refs))
			for i, x := range refs {
				xs[i] = fmt.Sprintf("{| nr_minkey := %s; nr_ts := %d; nr_off := %s; nr_minoff := %s |}", vk.Hex(x.MinKey), x.Ts, zt(x.Off), zt(x.MinOff))
			}
			ok = "(NInner " + vk.List(xs) + ")"
		} else {
			xs := make([]string, len(vals))
			for i, x := range vals {
				xs[i] = fmt.Sprintf("{| lv_key := %s; lv_value := %s; lv_ts := %d; lv_hoff := %s; lv_hcount := %d |}", vk.Hex(x.Key), vk.Hex(x.Value), x.Ts, zt(x.HOff), x.HCount)
			}
			ok = "(NLeaf " + vk.List(xs) + ")"
		}
	}
	r.Case(fmt.Sprintf("COtNode %s %d %s %d", vk.Hex(in), off, resTerm(p, err, ok), alloc),
		map[string]any{"kind": "otnode", "in": fmt.Sprintf("%x", in), "off": off, "panic": p, "err": errStr(err), "alloc": alloc},
		"opentime/tb-node-"+bucket, len(in) > 3)
}

// ---- tbtree timestamp file ----
func caseOtTs(r *vk.Run, b []byte, dir string, bucket string) {
	in := vk.Exact(b)
	os.WriteFile(filepath.Join(dir, "TS"), in, 0o644)
	var v uint64
	p, _ := outcome(func() error { v = tbtree.VerifReadTs(dir, "TS"); return nil })
	if p {
		r.Finding(fmt.Sprintf("%s: readTsFile panicked on a timestamp file of %d bytes (%x)", tbOpenFinding, len(in), in))
	}
	r.Case(fmt.Sprintf("COtTs %s %s", vk.Hex(in), resTerm(p, nil, fmt.Sprint(v))),
		map[string]any{"kind": "otts", "in": fmt.Sprintf("%x", in), "panic": p},
		"opentime/tb-ts-"+bucket, true)
}

// ---- ahtree ----
func ahEntry(poff uint64, psize uint32) []byte { return append(u64b(poff), u32b(psize)...) }

func caseOtAhOpen(r *vk.Run, nentries int, last []byte, pfile, dfile int64, bucket string) {
	if tooManyHangs() {
		return
	}
	clog := make([]byte, 0, 12*nentries)
	for i := 0; i < nentries-1; i++ {
		clog = append(clog, ahEntry(uint64(i*8), 4)...)
	}
	clog = append(clog, last...)
	cLog := newMemApp(clog)
	pLog, dLog := &memApp{size: pfile}, &memApp{size: dfile}
	var t *ahtree.AHtree
	var err error
	p, _, ret := measured(func() { t, err = ahtree.OpenWith(pLog, dLog, cLog, ahtree.DefaultOptions().WithReadOnly(true)) })
	if !ret {
		r.Finding(fmt.Sprintf("%s: OpenWith did not return within 60s, last entry %x", ahOpenFinding, last))
		return
	}
	if p {
		r.Finding(fmt.Sprintf("%s: OpenWith panicked, last entry %x", ahOpenFinding, last))
	}
	ok := ""
	if !p && err == nil {
		ps, ds := ahtree.VerifSizes(t)
		ok = fmt.Sprintf("(%s, %s)", zt(ps), zt(ds))
		if ps < 0 || ps > pfile {
			r.Finding(fmt.Sprintf("%s: OpenWith accepted a last commit-log entry %x that puts the payload-log size at %d (the log holds %d bytes): Append then seeks to that offset",
				ahOpenFinding, last, ps, pfile))
		}
		outcome(func() error { return t.Close() })
	}
	r.Case(fmt.Sprintf("COtAhOpen %s %s %s %s %s", zt(int64(len(clog))), vk.Hex(last), zt(pfile), zt(dfile), resTerm(p, err, ok)),
		map[string]any{"kind": "otahopen", "n": nentries, "in": fmt.Sprintf("%x", last), "pfile": pfile, "dfile": dfile, "panic": p, "err": errStr(err)},
		"opentime/ah-open-"+bucket, true)
}

// caseOtAhData: a tree of 3 leaves whose payload log holds plog bytes; the commit-log entry of
// leaf 1 is `entry`
func caseOtAhData(r *vk.Run, entry []byte, plog int, bucket string) {
	if tooManyHangs() {
		return
	}
	clog := append(vk.Clone(entry), ahEntry(8, 4)...)
	clog = append(clog, ahEntry(uint64(plog-8), 4)...)
	cLog := newMemApp(clog)
	pLog, dLog := newMemApp(make([]byte, plog)), &memApp{size: 1 << 20}
	t, err := ahtree.OpenWith(pLog, dLog, cLog, ahtree.DefaultOptions().WithReadOnly(true))
	if err != nil {
		r.Finding(fmt.Sprintf("ahtree scenario did not open: %v", err))
		return
	}
	defer t.Close()
	var derr error
	p, alloc, ret := measured(func() { _, derr = t.DataAt(1) })
	if !ret {
		r.Finding(fmt.Sprintf("%s: DataAt did not return within 60s, entry %x", ahOpenFinding, entry))
		return
	}
	if p {
		r.Finding(fmt.Sprintf("%s: DataAt panicked, entry %x", ahOpenFinding, entry))
	}
	if alloc > uint64(64*plog)+(1<<20) {
		r.Finding(fmt.Sprintf("%s: DataAt allocated %d bytes for the commit-log entry %x of a %d-byte payload log", ahOpenFinding, alloc, entry, plog))
	}
	r.Case(fmt.Sprintf("COtAhData %s %s %s %d", zt(int64(plog)), vk.Hex(entry), vk.Bool(derr != nil), alloc),
		map[string]any{"kind": "otahdata", "in": fmt.Sprintf("%x", entry), "plog": plog, "panic": p, "err": errStr(derr), "alloc": alloc},
		"opentime/ah-data-"+bucket, true)
}

var otU64 = []uint64{0, 1, 2, 31, 32, 33, 63, 64, 65, 100, 1 << 31, 1 << 32, 1<<63 - 1, 1 << 63, 1<<63 + 64, ^uint64(0), ^uint64(0) - 63}

func genOpenTime(r *vk.Run, budget int) {
	dir, err := os.MkdirTemp("", "vh-c16-ot")
	if err != nil {
		r.Finding("cannot create a temp dir: " + err.Error())
		return
	}
	defer os.RemoveAll(dir)
	pick := func() uint64 { return otU64[r.Rng.Intn(len(otU64))] }
	// --- commit-log entries: valid ones, every field at boundary values, random ones
	caseOtEntry(r, tbEntry(0, 64, 10, 0, 64, false, r.Rng), "valid")
	caseOtEntry(r, tbEntry(10, 64, 54, 3, 40, true, r.Rng), "valid")
	caseOtEntry(r, tbEntry(0, 64, 10, 1<<63, 64, false, r.Rng), "witness") // negative initialHLogSize
	for _, v := range otU64 {
		caseOtEntry(r, tbEntry(0, 64, 10, v, 64, false, r.Rng), "field")
		caseOtEntry(r, tbEntry(0, 64, uint32(v), 0, 64, false, r.Rng), "field")
		switch r.Rng.Intn(4) {
		case 0:
			caseOtEntry(r, tbEntry(v, 64, 10, 0, 64, r.Rng.Intn(2) == 0, r.Rng), "field")
		case 1:
			caseOtEntry(r, tbEntry(0, v, 10, 0, 64, false, r.Rng), "field")
		case 2:
			caseOtEntry(r, tbEntry(0, 64, 10, 0, v, false, r.Rng), "field")
		default:
			caseOtEntry(r, tbEntry(0, 64, 10, v, v+uint64(r.Rng.Intn(70)), false, r.Rng), "field")
		}
	}
	for k := 0; k < budget/8; k++ {
		caseOtEntry(r, tbEntry(pick(), pick(), uint32(pick()), pick(), pick(), r.Rng.Intn(2) == 0, r.Rng), "random")
	}
	// --- parameters in the commit-log metadata
	caseOtParams(r, tbMetadata(3, 4096, 32, 64, true), dir, "valid")
	caseOtParams(r, tbMetadata(3, 4096, 0, 0, false), dir, "valid")
	caseOtParams(r, tbMetadata(3, 1<<40, 32, 64, true), dir, "witness")
	ints := []int{0, 1, 2, 3, -1, 62, 95, 96, 97, 4096, 65535, 65536, 1 << 27, 1<<27 + 1, 1 << 40, 1<<62 + 5, -(1 << 62), 1<<63 - 1, -(1 << 63)}
	for _, v := range ints {
		caseOtParams(r, tbMetadata(3, v, 32, 64, true), dir, "field")
		switch r.Rng.Intn(5) {
		case 0:
			caseOtParams(r, tbMetadata(v, 4096, 32, 64, true), dir, "field")
		case 1:
			caseOtParams(r, tbMetadata(3, 4096, v, 64, true), dir, "field")
		case 2:
			caseOtParams(r, tbMetadata(3, 4096, 32, v, true), dir, "field")
		case 3:
			caseOtParams(r, tbMetadata(3, v, v, v, true), dir, "field")
		default:
			caseOtParams(r, tbMetadata(3, v, 0, 0, false), dir, "field")
		}
	}
	good := tbMetadata(3, 4096, 32, 64, true)
	for _, m := range vk.Mutations(r.Rng, good, budget/12) {
		caseOtParams(r, m, dir, "mutated")
	}
	// --- nodes
	caseOtNode(r, []byte{0, 0, 0}, 0, "witness") // an inner node without children
	for k := 0; k < budget/14; k++ {
		var nb *nodeBuilder
		if k%2 == 0 {
			nb = buildInner(r.Rng, 1+r.Rng.Intn(3))
		} else {
			nb = buildLeaf(r.Rng, r.Rng.Intn(3))
		}
		pre := r.Rng.Intn(4)
		log := append(vk.RandBytes(r.Rng, pre), nb.b...)
		caseOtNode(r, log, pre, "valid")
		// every count / size field at boundary values; truncations; node type byte
		for _, o := range nb.counts {
			for _, v := range []int{0, 1, 2, 255, 256, 65535} {
				if r.Rng.Intn(6) != 0 {
					continue
				}
				c := vk.Clone(log)
				binary.BigEndian.PutUint16(c[pre+o:], uint16(v))
				caseOtNode(r, c, pre, "field")
			}
		}
		for j := 0; j < 2; j++ {
			caseOtNode(r, log[:pre+r.Rng.Intn(len(nb.b)+1)], pre, "truncated")
		}
		c := vk.Clone(log)
		c[pre] = byte(r.Rng.Intn(4))
		caseOtNode(r, c, pre, "type")
	}
	for k := 0; k < budget/10; k++ {
		caseOtNode(r, vk.SmallBiased(r.Rng, r.Rng.Intn(40)), 0, "random")
	}
	// --- timestamp file
	for n := 0; n <= 10; n++ {
		caseOtTs(r, vk.RandBytes(r.Rng, n), dir, "length")
	}
	// --- appendable layer (falsifier only): values of the file header used at open time
	probeAppendableHeaders(r, dir)
	// --- ahtree: last commit-log entry -> payload / digest log sizes
	caseOtAhOpen(r, 3, ahEntry(16, 4), 24, 1<<20, "valid")
	caseOtAhOpen(r, 3, ahEntry(1<<63-1, 9), 24, 1<<20, "witness") // int64 overflow: negative size accepted
	for _, v := range otU64 {
		caseOtAhOpen(r, 1+r.Rng.Intn(4), ahEntry(v, 4), 100, 1<<20, "field")
		caseOtAhOpen(r, 1+r.Rng.Intn(4), ahEntry(16, uint32(v)), 100, 1<<20, "field")
		caseOtAhOpen(r, 1+r.Rng.Intn(4), ahEntry(v, uint32(pick())), int64(pick()>>1), 1<<20, "field")
	}
	for _, pf := range []int64{0, 19, 20, 21, 24, 25} {
		caseOtAhOpen(r, 2, ahEntry(16, 4), pf, 1<<20, "file-size")
	}
	for _, df := range []int64{0, 31, 32, 95, 96, 97, 127, 128} {
		caseOtAhOpen(r, 3, ahEntry(16, 4), 24, df, "digest-size")
	}
	// --- ahtree: payload buffer of DataAt
	caseOtAhData(r, ahEntry(0, 4), 64, "valid")
	caseOtAhData(r, ahEntry(0, 1<<28), 64, "witness") // 256 MiB for a 64-byte payload log
	for _, v := range []uint64{0, 1, 55, 56, 57, 60, 61, 64, 65, 1 << 16, 1<<63 - 1, 1 << 63, ^uint64(0)} {
		caseOtAhData(r, ahEntry(v, 4), 64, "field")
		if v <= 1<<16 {
			caseOtAhData(r, ahEntry(0, uint32(v)), 64, "field")
			caseOtAhData(r, ahEntry(4, uint32(v)), 64, "field")
		}
	}
}

const appOpenFinding = "appendable open-time parsing"

// patchMetaInt overwrites the 8-byte value stored under key in the metadata header of a file
func patchMetaInt(path, key string, v uint64) bool {
	raw, err := os.ReadFile(path)
	if err != nil {
		return false
	}
	i := strings.Index(string(raw), key+"\x00\x00\x00\x08")
	if i < 0 {
		return false
	}
	copy(raw[i+len(key)+4:], u64b(v))
	return os.WriteFile(path, raw, 0o644) == nil
}

// probeAppendableHeaders: the chunk size of a multi-file appendable and the compression format of
// a single-file appendable are read from the file header and used without validation
func probeAppendableHeaders(r *vk.Run, dir string) {
	if tooManyHangs() {
		return
	}
	mk := func(name string) string {
		p := filepath.Join(dir, name)
		os.RemoveAll(p)
		a, err := multiapp.Open(p, multiapp.DefaultOptions().WithFileSize(1<<12).WithWriteBufferSize(1<<10))
		if err != nil {
			return ""
		}
		a.Append([]byte("0123456789"))
		a.Close()
		return p
	}
	if p := mk("fsz"); p != "" && patchMetaInt(filepath.Join(p, "00000000.aof"), "FILE_SIZE", 0) {
		pv, _, ret := measuredPanic(func() {
			a, err := multiapp.Open(p, multiapp.DefaultOptions().WithFileSize(1<<12).WithWriteBufferSize(1<<10))
			if err != nil {
				return
			}
			// (an Append would rotate chunk files for ever; the read panics while holding the
			// appendable's mutex, so no Close afterwards)
			var b [4]byte
			a.ReadAt(b[:], 2)
			a.Close()
		})
		if !ret {
			r.Finding(fmt.Sprintf("%s: multiapp with FILE_SIZE=0 in the header did not return within 60s", appOpenFinding))
		} else if pv != nil {
			r.Finding(fmt.Sprintf("%s: multiapp.Open accepts FILE_SIZE=0 from the file header; the next read panics (%v)", appOpenFinding, pv))
		}
		r.Stats["probe/multiapp.Open"]++
	}
	if p := mk("cfmt"); p != "" && patchMetaInt(filepath.Join(p, "00000000.aof"), "COMPRESSION_FORMAT", 9) {
		pv, _, ret := measuredPanic(func() {
			a, err := multiapp.Open(p, multiapp.DefaultOptions().WithFileSize(1<<12).WithWriteBufferSize(1<<10))
			if err != nil {
				return
			}
			defer a.Close()
			a.Append([]byte("x"))
		})
		if !ret {
			r.Finding(fmt.Sprintf("%s: appendable with COMPRESSION_FORMAT=9 in the header did not return within 60s", appOpenFinding))
		} else if pv != nil {
			r.Finding(fmt.Sprintf("%s: singleapp.Open accepts the unknown COMPRESSION_FORMAT=9 from the file header; the next Append panics (%v)", appOpenFinding, pv))
		}
		r.Stats["probe/singleapp.Open-format"]++
	}
}
