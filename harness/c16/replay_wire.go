package c16

import (
	"encoding/hex"
	"os"

	"verif/harness/vk"
)

func hexList(v any) [][]byte {
	var out [][]byte
	xs, _ := v.([]any)
	for _, x := range xs {
		b, _ := hex.DecodeString(x.(string))
		out = append(out, b)
	}
	return out
}

// replayWire re-runs a recorded case of the wire / stream / open-time parts
func replayWire(r *vk.Run, c map[string]any) (bool, error) {
	switch c["kind"] {
	case "pgmsg":
		in, err := hex.DecodeString(c["in"].(string))
		if err != nil {
			return true, err
		}
		casePgMsg(r, byte(int(c["t"].(float64))), in, "replay")
		return true, nil
	case "sqllex":
		in, err := hex.DecodeString(c["in"].(string))
		if err != nil {
			return true, err
		}
		caseSqlLex(r, string(in), "replay")
		return true, nil
	case "pgframe":
		in, err := hex.DecodeString(c["in"].(string))
		if err != nil {
			return true, err
		}
		casePgFrame(r, in, "replay")
		return true, nil
	case "stream":
		kind := 0
		for i, n := range stKindName {
			if n == c["what"] {
				kind = i
			}
		}
		caseStream(r, kind, hexList(c["chunks"]), c["final"].(bool), int(c["bs"].(float64)), int(c["cap"].(float64)), "replay")
		return true, nil
	case "stfully":
		caseReadFully(r, hexList(c["chunks"]), c["final"].(bool), "replay")
		return true, nil
	case "otentry", "otparams", "otnode", "otts", "otahopen", "otahdata":
		in, err := hex.DecodeString(c["in"].(string))
		if err != nil {
			return true, err
		}
		dir, err := os.MkdirTemp("", "vh-c16-otreplay")
		if err != nil {
			return true, err
		}
		defer os.RemoveAll(dir)
		switch c["kind"] {
		case "otentry":
			caseOtEntry(r, in, "replay")
		case "otparams":
			caseOtParams(r, in, dir, "replay")
		case "otnode":
			caseOtNode(r, in, int(c["off"].(float64)), "replay")
		case "otts":
			caseOtTs(r, in, dir, "replay")
		case "otahopen":
			caseOtAhOpen(r, int(c["n"].(float64)), in, int64(c["pfile"].(float64)), int64(c["dfile"].(float64)), "replay")
		case "otahdata":
			caseOtAhData(r, in, int(c["plog"].(float64)), "replay")
		}
		return true, nil
	}
	return false, nil
}
