package c16

// SQL text (falsifier only, no Coq model of the goyacc parser): a pool of statements covering the
// lexer's scanning loops (block and line comments, string literals with escaped quotes, quoted
// identifiers, numbers, blobs, the three parameter styles, casts, JSON, timestamps) and every
// statement kind of the grammar; EVERY prefix of each statement, and each statement with one
// delimiter byte deleted, doubled or inserted. Oracle: ParseSQLString returns (statements or an
// error) within the liveness bound, does not panic, allocates within a bound linear in the text.

import (
	"fmt"
	"strings"
	"time"

	"github.com/codenotary/immudb/embedded/sql"
	"verif/harness/vk"
)

var sqlPool = []string{
	"SELECT 1 /* x */ FROM t",
	"/* head */ SELECT id /* a */, /* b * / ** */ title FROM /**/ t1 /* tail */",
	"SELECT id -- line comment\nFROM t1 -- another\r\nWHERE id > 0 -- last",
	"SELECT 'it''s' , 'a;b', '/* not a comment */', '--', '' FROM t",
	"SELECT \"Id\", \"select\" FROM \"My_Table\" AS \"x\"",
	"SELECT 0, 12, 007, 1.5, .25, 3., 18446744073709551615, -1.5e3 FROM t",
	"SELECT x'', x'0aFF', x'00' FROM t WHERE b = x'ABCDEF'",
	"SELECT * FROM t WHERE a = @p1 AND b = @other_param",
	"SELECT * FROM t WHERE a = $1 AND b = $2 OR c = $10",
	"SELECT * FROM t WHERE a = ? AND b = ? LIMIT ? OFFSET ?",
	"SELECT id::VARCHAR, '1'::INTEGER, CAST(ts AS TIMESTAMP), '2021-12-08 17:12:01.123456'::TIMESTAMP FROM t",
	"SELECT doc->'a'->'b', JSON_TYPEOF('{\"k\": [1, 2.5, null, true, \"s\"]}'::JSON) FROM t WHERE doc->'n' = 1",
	"SELECT NOW(), UPPER(s), LENGTH(s), SUBSTRING(s, 1, 2), TRIM(s), EXTRACT(YEAR FROM ts) FROM t WHERE ts <= NOW()",
	"SELECT COUNT(*), SUM(a), MIN(a), MAX(a), AVG(a), t.x FROM t GROUP BY t.x HAVING COUNT(*) > 1 ORDER BY t.x DESC, a ASC",
	"SELECT DISTINCT a.id, b.v AS bv FROM a INNER JOIN b ON a.id = b.id LEFT JOIN c ON c.id = a.id WHERE a.id IN (1, 2, 3) AND b.v NOT IN (SELECT v FROM d)",
	"SELECT id FROM t1 WHERE (id > 0 AND NOT t1.id >= 10) OR t1.title LIKE 'J%O' OR title NOT LIKE '^a' OR x !~ 'b' OR y <> 3 OR z != 4 OR w <= 5",
	"SELECT id FROM clients WHERE EXISTS (SELECT id FROM orders WHERE clients.id = orders.id_client) AND v IS NOT NULL AND u IS NULL",
	"SELECT CASE WHEN a THEN 'x' WHEN b THEN 'y' ELSE 'z' END, CASE 1 + 1 WHEN 2 THEN 1 ELSE 0 END FROM t",
	"SELECT price FROM items WHERE price BETWEEN 1.5 AND 3.9 AND -price < 2 AND (a + b) * c / d % e - f > 0",
	"SELECT id, title FROM t1 UNION SELECT id, title FROM t2 UNION ALL SELECT id, title FROM t3",
	"SELECT * FROM (SELECT id FROM t BEFORE TX 10) AS q WHERE id < 3",
	"SELECT * FROM t SINCE TX 1 UNTIL TX 9 USE INDEX ON (id) LIMIT 10 OFFSET 2",
	"SELECT * FROM t AFTER '2021-01-01' USE INDEX ON (id)",
	"SELECT * FROM t BEFORE now() AS x",
	"SELECT * FROM (HISTORY OF t1) WHERE _rev > 1",
	"SELECT * FROM (DIFF OF t1)",
	"SELECT * FROM TABLES(); SELECT * FROM COLUMNS('t'); SELECT * FROM INDEXES('t'); SELECT * FROM DATABASES()",
	"CREATE DATABASE db1; CREATE DATABASE IF NOT EXISTS db2; USE DATABASE db1; USE db2",
	"CREATE TABLE IF NOT EXISTS t (id INTEGER AUTO_INCREMENT, v VARCHAR[10] NOT NULL, b BLOB[32], f FLOAT, ok BOOLEAN, ts TIMESTAMP, u UUID, j JSON, CHECK (f > 0), PRIMARY KEY (id))",
	"CREATE TABLE t2 (a INTEGER NOT NULL, b VARCHAR NULL, PRIMARY KEY (a, b))",
	"CREATE INDEX ON t (v); CREATE UNIQUE INDEX IF NOT EXISTS ON t (v, f); DROP INDEX ON t (v); DROP INDEX t.v",
	"ALTER TABLE t ADD COLUMN c VARCHAR[5]; ALTER TABLE t RENAME COLUMN c TO d; ALTER TABLE t DROP COLUMN d; ALTER TABLE t RENAME TO u; DROP TABLE u",
	"ALTER TABLE t DROP CONSTRAINT ck",
	"INSERT INTO t (id, v) VALUES (1, 'x'), (@p, NULL), (3, 'd') ON CONFLICT DO NOTHING",
	"UPSERT INTO t (id, v, b, ok, ts) VALUES (2, 'y', x'00ff', true, NOW()), (3, 'z', NULL, FALSE, '2020-01-01'::TIMESTAMP)",
	"INSERT INTO t (id, v) SELECT id, v FROM t2 WHERE id > 10",
	"INSERT INTO t (id) VALUES (1) ON CONFLICT DO UPDATE SET v = 'dup' RETURNING id, v",
	"UPDATE t SET v = 'y', f = f + 1 WHERE id IN (1,2,3) LIMIT 5",
	"DELETE FROM t WHERE id = 1 OR v LIKE 'a.*' LIMIT 2 OFFSET 1",
	"BEGIN TRANSACTION; UPDATE t SET v = 'y' WHERE id = 1; SAVEPOINT s; ROLLBACK TO SAVEPOINT s; RELEASE SAVEPOINT s; COMMIT;",
	"BEGIN; DELETE FROM t; ROLLBACK",
	"CREATE USER u1 WITH PASSWORD 'p@ss''w' READWRITE; ALTER USER u1 WITH PASSWORD 'q' ADMIN; DROP USER u1",
	"GRANT SELECT, INSERT, UPDATE, DELETE ON DATABASE defaultdb TO USER immudb; REVOKE ALL PRIVILEGES ON DATABASE defaultdb TO USER immudb",
	"SHOW DATABASES; SHOW TABLES; SHOW TABLE t; SHOW USERS; SHOW GRANTS; SHOW GRANTS FOR u1",
	"CREATE VIEW v1 AS SELECT id FROM t; DROP VIEW v1; CREATE SEQUENCE s1; SELECT NEXTVAL('s1'); DROP SEQUENCE s1",
	"SELECT a FROM t WHERE b = 'unterminated /* inside string */ -- too' AND c = \"q\" /* c1 */ -- c2\n;",
	"\t \r\n  SELECT\t1\r\n;\n",
}

// sqlDelims: the bytes that open or close a lexical / syntactic construct
const sqlDelims = "'\"/*-();,.:@$?x\n"

func sqlVariants(stmt string) []string {
	out := make([]string, 0, 3*len(stmt))
	for i := 0; i <= len(stmt); i++ { // every truncation point
		out = append(out, stmt[:i])
	}
	isDelim := func(c byte) bool {
		for j := 0; j < len(sqlDelims); j++ {
			if sqlDelims[j] == c {
				return true
			}
		}
		return false
	}
	for i := 0; i < len(stmt); i++ {
		if !isDelim(stmt[i]) {
			continue
		}
		out = append(out, stmt[:i]+stmt[i+1:])           // delimiter deleted
		out = append(out, stmt[:i]+stmt[i:i+1]+stmt[i:]) // delimiter doubled
		if i+1 < len(stmt) && stmt[i] == '*' && stmt[i+1] == '/' {
			out = append(out, stmt[:i]+stmt[i+2:]) // whole comment terminator deleted
		}
	}
	for _, ins := range []string{"/*", "*/", "--", "'", "\"", "x'", "(", ")", ";", "/", "*"} { // inserted at the seams
		for _, at := range []int{0, len(stmt) / 3, len(stmt) / 2, len(stmt)} {
			out = append(out, stmt[:at]+ins+stmt[at:])
		}
	}
	return out
}

const sqlLiveness = 20 * time.Second

func probeSQL(r *vk.Run, text string, bucket string) {
	if tooManyHangs() {
		return
	}
	pv, alloc, ret := measuredPanicWithin(sqlLiveness, func() { sql.ParseSQLString(text) })
	switch {
	case !ret:
		r.Finding(fmt.Sprintf("sql.ParseSQLString did not return within %v on %q (hex %x)", sqlLiveness, text, text))
	case pv != nil:
		r.Finding(fmt.Sprintf("sql.ParseSQLString panicked (%v) on %q (hex %x)", pv, text, text))
	case alloc > uint64(8192*len(text))+(4<<20):
		r.Finding(fmt.Sprintf("sql.ParseSQLString allocated %d bytes for %d bytes of text %q", alloc, len(text), text))
	}
	r.Stats["probe/sql-"+bucket]++
}

// caseSqlLex: the positions lexer.Lex reaches on a text, compared with coq/SQLLex/Lexer.v
// (a NUL byte is reported by Lex as token 0, the end-of-input token: such texts are not tied)
func caseSqlLex(r *vk.Run, text string, bucket string) {
	if strings.IndexByte(text, 0) >= 0 || tooManyHangs() {
		return
	}
	var pos []int
	pv, _, ret := measuredPanicWithin(sqlLiveness, func() { pos = sql.VerifLexPositions(text, len(text)+2) })
	if !ret {
		r.Finding(fmt.Sprintf("sql lexer did not reach the end of %q within %v (hex %x)", text, sqlLiveness, text))
		return
	}
	if pv != nil {
		r.Finding(fmt.Sprintf("sql lexer panicked (%v) on %q (hex %x)", pv, text, text))
		return
	}
	xs := make([]string, len(pos))
	for i, p := range pos {
		xs[i] = fmt.Sprint(p)
	}
	r.Case(fmt.Sprintf("CSqlLex %s %s", vk.Hex([]byte(text)), vk.List(xs)),
		map[string]any{"kind": "sqllex", "in": fmt.Sprintf("%x", text), "panic": false, "tokens": len(pos)},
		"sqllex/"+bucket, len(text) > 0)
}

// genSQLProbes: exhaustive over the pool (its size does not depend on the case budget)
func genSQLProbes(r *vk.Run) {
	for _, stmt := range sqlPool {
		// the pool is meant to be valid SQL: a statement the parser rejects would only exercise error paths
		if _, err := sql.ParseSQLString(stmt); err != nil {
			r.Stats["probe/sql-pool-rejected"]++
		}
		vs := sqlVariants(stmt)
		for _, v := range vs {
			probeSQL(r, v, "variant")
		}
		// tied to the lexer model: the statement, and a sample of its prefixes and delimiter edits
		caseSqlLex(r, stmt, "pool")
		for k := 0; k < 6; k++ {
			caseSqlLex(r, vs[r.Rng.Intn(len(vs))], "variant")
		}
	}
	// the scanning loops at the very end of the input
	for _, s := range []string{"/*", "/* ", "/**", "/*/", "/* *", "--", "-- x", "'", "''", "'''", "x'", "x'0", "\"", "\"a", "@", "$", "$0", ":", "1.", ".", "-", "/", "SELECT 1 /* x", "SELECT 1 -- x", "SELECT 'x", "SELECT x'0a", "SELECT \"x"} {
		probeSQL(r, s, "tail")
		caseSqlLex(r, s, "tail")
	}
}
