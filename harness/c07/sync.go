package c07

import (
	"context"
	"crypto/sha256"
	"fmt"
	"os"
	"strings"
	"sync"
	"time"

	"github.com/codenotary/immudb/embedded/store"
	"github.com/codenotary/immudb/pkg/api/schema"
	"github.com/codenotary/immudb/pkg/database"
	"verif/harness/vk"
)

// database-level case: one primary database with synchronous replication (syncAcks = acks) and
// nrep replica databases; the harness plays the replicators (pkg/replication) as a schedule of
// ExportTxByID / ReplicateTx / AllowCommitUpto / DiscardPrecommittedTxsSince calls.

type syncCase struct {
	r        *vk.Run
	acks     int
	nrep     int
	primary  database.DB
	pdir     string
	reps     []database.DB
	rdirs    []string
	ropts    []*database.Options
	steps    []string
	js       []map[string]any
	palhs    [][sha256.Size]byte // Alh of every transaction the primary precommitted
	exports  [][]byte
	acked    []uint64 // highest precommitted id each replica honestly reported
	diverged []bool
	pcomSeen uint64
	cancel   context.CancelFunc
	ctx      context.Context
	wg       sync.WaitGroup
	stats    map[string]int
	in       *interner
	restarts []int
	idx      int
	staleHit []bool
	lost     []bool
}

func (sc *syncCase) find(text string) {
	sc.r.Finding(fmt.Sprintf("%s [seed %d case %d: database level, syncAcks=%d, %d replicas]", text, sc.r.Seed, sc.idx, sc.acks, sc.nrep))
}

func dbObs(d database.DB) obs {
	st, err := d.CurrentState()
	var o obs
	if err != nil {
		return o
	}
	o.cid, o.pid = st.TxId, st.PrecommittedTxId
	copy(o.calh[:], st.TxHash)
	copy(o.palh[:], st.PrecommittedTxHash)
	return o
}

func (sc *syncCase) add(term string, js map[string]any) {
	sc.steps = append(sc.steps, term)
	sc.js = append(sc.js, js)
}

func storeOptsForDB() *store.Options {
	return smallBuffers(store.DefaultOptions()).WithSynced(false).WithLogger(quietLogger()).WithSyncFrequency(5 * time.Millisecond).
		WithMaxConcurrency(8).WithMaxKeyLen(dbKeyLen).WithMaxTxEntries(dbTxEntries)
}

const dbKeyLen, dbTxEntries = 256, 64

// primarySet starts a Set on the primary (it returns only once the transaction is committed,
// i.e. acknowledged by enough replicas) and waits until the transaction is precommitted.
func (sc *syncCase) primarySet(k int) error {
	before := dbObs(sc.primary)
	want := uint64(len(sc.palhs)) + 1
	sc.wg.Add(1)
	go func() {
		defer sc.wg.Done()
		sc.primary.Set(sc.ctx, &schema.SetRequest{KVs: []*schema.KeyValue{{Key: []byte(fmt.Sprintf("key%d", k)), Value: nil}, {Key: []byte(fmt.Sprintf("k%d", k%3)), Value: []byte(fmt.Sprintf("value-%d", k))}}})
	}()
	_ = before
	deadline := time.Now().Add(3 * time.Second)
	for {
		ctx, cancel := context.WithTimeout(context.Background(), 500*time.Millisecond)
		etx, _, _, err := sc.primary.ExportTxByID(ctx, &schema.ExportTxRequest{Tx: want, AllowPreCommitted: true})
		cancel()
		if err == nil && len(etx) > 0 {
			l := parseLayout(etx)
			a := l.hdr.Alh()
			sc.palhs = append(sc.palhs, a)
			sc.exports = append(sc.exports, etx)
			sc.add(fmt.Sprintf("DNew %s", sc.in.ref(a[:])), map[string]any{"op": "new", "id": want, "alh": fmt.Sprintf("%x", a)})
			sc.stats["new"]++
			return nil
		}
		if time.Now().After(deadline) {
			return fmt.Errorf("primary did not precommit tx %d: %v", want, err)
		}
		time.Sleep(2 * time.Millisecond)
	}
}

// checkPrimaryCommit: the direct statement of sync_ack_safety on the implementation
func (sc *syncCase) checkPrimaryCommit() {
	p := dbObs(sc.primary)
	if p.cid <= sc.pcomSeen {
		return
	}
	t := p.cid
	sc.pcomSeen = t
	// replicas that reported (honestly, accepted by the primary) a precommitted state at or beyond t.
	// (A replica that is later told it diverged discards everything above its committed tx, also what
	// it had acknowledged; counting current holders would blame the primary for that.)
	holders := 0
	for i := range sc.reps {
		if sc.acked[i] >= t {
			holders++
		}
	}
	if holders < sc.acks {
		sc.find(fmt.Sprintf("primary committed tx %d while only %d of the required %d replicas had reported a precommitted state >= %d with the primary's Alh", t, holders, sc.acks, t))
	}
}

func (sc *syncCase) replicaAlhAt(i int, t uint64) ([sha256.Size]byte, bool) {
	o := dbObs(sc.reps[i])
	if o.pid == t {
		return o.palh, true
	}
	if o.cid == t {
		return o.calh, true
	}
	ctx, cancel := context.WithTimeout(context.Background(), 300*time.Millisecond)
	defer cancel()
	etx, _, _, err := sc.reps[i].ExportTxByID(ctx, &schema.ExportTxRequest{Tx: t, AllowPreCommitted: true})
	if err != nil || len(etx) < 8 {
		return [sha256.Size]byte{}, false
	}
	return parseLayout(etx).hdr.Alh(), true
}

func (sc *syncCase) checkReplica(i int) {
	o := dbObs(sc.reps[i])
	p := dbObs(sc.primary)
	if o.cid > p.cid {
		sc.find(fmt.Sprintf("replica %d committed tx %d before the primary did (primary committed id %d)", i, o.cid, p.cid))
	}
	if o.cid > 0 && o.cid <= uint64(len(sc.palhs)) && o.calh != sc.palhs[o.cid-1] {
		sc.find(fmt.Sprintf("replica %d COMMITTED tx %d with Alh %x, the primary's is %x (synchronous replication)", i, o.cid, o.calh, sc.palhs[o.cid-1]))
	}
	d := false
	if o.pid > uint64(len(sc.palhs)) || (o.pid > 0 && o.palh != sc.palhs[o.pid-1]) {
		d = true
	}
	sc.diverged[i] = d
}

// report sends a replica state to the primary through ExportTxByID
func (sc *syncCase) report(u int, cid uint64, calh []byte, pid uint64, palh []byte, tx uint64, what string) (etx []byte, mayID uint64, mayAlh [sha256.Size]byte, err error) {
	ctx, cancel := context.WithTimeout(context.Background(), 2*time.Second)
	defer cancel()
	var cls int
	cls, err = call(func() error {
		var e error
		etx, mayID, mayAlh, e = sc.primary.ExportTxByID(ctx, &schema.ExportTxRequest{
			Tx: tx, AllowPreCommitted: true,
			ReplicaState: &schema.ReplicaState{UUID: fmt.Sprintf("replica-%d", u), CommittedTxID: cid, CommittedAlh: calh, PrecommittedTxID: pid, PrecommittedAlh: palh},
		})
		return e
	})
	p := dbObs(sc.primary)
	sc.add(fmt.Sprintf("DReport %d %d %s %d %s %s %d %s %d", u, cid, sc.in.ref(calh), pid, sc.in.ref(palh), vk.Bool(cls == 0), mayID, sc.in.ref(mayAlh[:]), p.cid),
		map[string]any{"op": "report", "what": what, "uuid": u, "cid": cid, "calh": fmt.Sprintf("%x", calh), "pid": pid, "palh": fmt.Sprintf("%x", palh),
			"ok": cls == 0, "err": errStr(err), "mayid": mayID, "pcom": p.cid})
	sc.stats["report/"+what+[]string{"/ok", "/err", "/panic"}[cls]]++
	if cls == 2 {
		sc.find(fmt.Sprintf("ExportTxByID panicked: %v", err))
	}
	if cls == 0 && pid > 0 {
		if pid > uint64(len(sc.palhs)) || string(palh) != string(sc.palhs[pid-1][:]) {
			sc.find(fmt.Sprintf("primary accepted a replica state (precommitted id %d, Alh %x) that is not its own history", pid, palh))
		}
	}
	if cls == 0 && what == "honest" && u < len(sc.acked) && pid > sc.acked[u] {
		sc.acked[u] = pid
	}
	if cls == 0 && mayID > p.cid {
		sc.find(fmt.Sprintf("primary told a replica it may commit up to %d while its own committed id is %d", mayID, p.cid))
	}
	sc.checkPrimaryCommit()
	return
}

func (sc *syncCase) repStep(i int, s string, js map[string]any) {
	js["replica"] = i
	sc.add(fmt.Sprintf("DRep %d (%s)", i, s), js)
}

func (sc *syncCase) deliver(i int, b []byte, what string) int {
	b = vk.Exact(b)
	before := dbObs(sc.reps[i])
	ctx, cancel := context.WithTimeout(context.Background(), 250*time.Millisecond)
	var hdr *schema.TxHeader
	wasDiverged := sc.diverged[i]
	cls, err := call(func() error {
		var e error
		hdr, e = sc.reps[i].ReplicateTx(ctx, b, false, false)
		return e
	})
	cancel()
	after := dbObs(sc.reps[i])
	sc.repStep(i, fmt.Sprintf("SDeliver false %s %s %s", sc.in.ref(b), resUnit(cls), after.term(sc.in)),
		map[string]any{"op": "deliver", "what": what, "bytes": fmt.Sprintf("%x", b), "out": cls, "err": errStr(err), "after": after.js()})
	sc.stats["deliver/"+what+[]string{"/accepted", "/rejected", "/panic"}[cls]]++
	if cls == 2 {
		sc.find(fmt.Sprintf("database.ReplicateTx panicked: %v", err))
	}
	if cls == 1 && before != after {
		sc.find(fmt.Sprintf("rejected delivery changed replica %d state", i))
	}
	sc.checkReplica(i)
	if cls == 0 && what == "next" && !wasDiverged && sc.diverged[i] {
		zero := make([]byte, 32)
		if hdr.BlTxId == 0 && string(hdr.BlRoot) != string(zero) {
			sc.staleHit[i] = true
			sc.find(fmt.Sprintf("ReplicateTx stored a non-zero BlRoot for a transaction with BlTxID=0 (stale tx holder): unaltered export of tx %d accepted by replica %d, header BlRoot %x", hdr.Id, i, hdr.BlRoot))
		} else {
			sc.find(fmt.Sprintf("replica %d accepted the unaltered export of tx %d but its Alh differs from the primary's", i, hdr.Id))
		}
	}
	return cls
}

func (sc *syncCase) dbAllow(i int, t uint64, a [sha256.Size]byte, what string) {
	cls, err := call(func() error { return sc.reps[i].AllowCommitUpto(t, a) })
	after := dbObs(sc.reps[i])
	sc.repStep(i, fmt.Sprintf("SDbAllow %d %s %s %s", t, sc.in.ref(a[:]), vk.Bool(cls == 0), after.term(sc.in)),
		map[string]any{"op": "dballow", "what": what, "t": t, "alh": fmt.Sprintf("%x", a), "out": cls, "err": errStr(err), "after": after.js()})
	sc.stats["dballow/"+what+[]string{"/ok", "/err", "/panic"}[cls]]++
	sc.checkReplica(i)
}

func (sc *syncCase) discard(i int, t uint64) {
	before := dbObs(sc.reps[i])
	cls, err := call(func() error { return sc.reps[i].DiscardPrecommittedTxsSince(t) })
	after := dbObs(sc.reps[i])
	out := "Panic"
	if cls == 0 {
		out = fmt.Sprintf("(Ok %d)", before.pid-after.pid)
	} else if cls == 1 {
		out = "(Err 0)"
	}
	sc.repStep(i, fmt.Sprintf("SDiscard %d %s %s", t, out, after.term(sc.in)),
		map[string]any{"op": "discard", "t": t, "out": cls, "err": errStr(err), "after": after.js()})
	sc.stats["discard"+[]string{"/ok", "/err", "/panic"}[cls]]++
	if after.cid != before.cid {
		sc.find(fmt.Sprintf("DiscardPrecommittedTxsSince(%d) changed the committed id of replica %d", t, i))
	}
	sc.checkReplica(i)
}

func (sc *syncCase) restart(i int) error {
	before := dbObs(sc.reps[i])
	if err := sc.reps[i].Close(); err != nil {
		return fmt.Errorf("replica close: %w", err)
	}
	d, err := database.OpenDB("db", nil, sc.ropts[i], quietLogger())
	if err != nil {
		return fmt.Errorf("replica reopen: %w", err)
	}
	sc.reps[i] = d
	after := dbObs(d)
	sc.repStep(i, fmt.Sprintf("SRestart %s", after.term(sc.in)), map[string]any{"op": "restart", "after": after.js()})
	sc.stats["restart"]++
	if after != before {
		sc.find(fmt.Sprintf("Close+Open changed the state of replica %d: %v -> %v (precommitted transactions dropped, or discarded ones brought back)", i, before.js(), after.js()))
	}
	sc.restarts[i]++
	sc.checkReplica(i)
	return nil
}

// fetch: what TxReplicator.fetchNextTx does for a replica in synchronous mode
func (sc *syncCase) fetch(i int, deliverIt bool) {
	o := dbObs(sc.reps[i])
	etx, mayID, mayAlh, err := sc.report(i, o.cid, o.calh[:], o.pid, o.palh[:], o.pid+1, "honest")
	if err != nil {
		if strings.Contains(err.Error(), "replica precommit state diverged from primary") {
			// allowTxDiscarding: the replicator discards the precommitted backlog
			sc.discard(i, o.cid+1)
			// (a replica that hit the stale-BlRoot finding re-precommits tx 1 wrongly for ever, even
			// after reopenings: see storeCase.schedule; it is left out of the liveness checks below)
		}
		return
	}
	if mayID > o.cid {
		sc.dbAllow(i, mayID, mayAlh, "from-primary")
	}
	if len(etx) > 0 && deliverIt {
		sc.deliver(i, etx, "next")
	}
}

func runSyncCase(r *vk.Run, idx int) error {
	rng := r.Rng
	sc := &syncCase{r: r, stats: map[string]int{}, in: &interner{}, idx: idx}
	sc.acks = 1 + rng.Intn(2)
	sc.nrep = sc.acks + rng.Intn(2)
	sc.ctx, sc.cancel = context.WithCancel(context.Background())
	var err error
	sc.pdir, err = os.MkdirTemp("", "vh-c07-dbp")
	if err != nil {
		return err
	}
	defer os.RemoveAll(sc.pdir)
	popts := database.DefaultOptions().WithDBRootPath(sc.pdir).WithStoreOptions(storeOptsForDB()).
		WithSyncReplication(true).WithSyncAcks(sc.acks)
	sc.primary, err = database.NewDB("db", nil, popts, quietLogger())
	if err != nil {
		return fmt.Errorf("primary NewDB: %w", err)
	}
	for i := 0; i < sc.nrep; i++ {
		d, err := os.MkdirTemp("", "vh-c07-dbr")
		if err != nil {
			return err
		}
		defer os.RemoveAll(d)
		ro := database.DefaultOptions().WithDBRootPath(d).WithStoreOptions(storeOptsForDB()).
			AsReplica(true).WithSyncReplication(true)
		rep, err := database.NewDB("db", nil, ro, quietLogger())
		if err != nil {
			return fmt.Errorf("replica NewDB: %w", err)
		}
		sc.reps = append(sc.reps, rep)
		sc.rdirs = append(sc.rdirs, d)
		sc.ropts = append(sc.ropts, ro)
	}
	sc.restarts = make([]int, sc.nrep)
	sc.staleHit = make([]bool, sc.nrep)
	sc.lost = make([]bool, sc.nrep)
	sc.acked = make([]uint64, sc.nrep)
	sc.diverged = make([]bool, sc.nrep)
	defer func() {
		sc.cancel()
		sc.wg.Wait()
		for _, rep := range sc.reps {
			rep.Close()
		}
		sc.primary.Close()
	}()

	nset := 0
	for it := 0; it < 28; it++ {
		i := rng.Intn(sc.nrep)
		p := rng.Intn(100)
		if sc.lost[i] && p >= 25 {
			continue // nothing more is done with a replica whose AHT is no longer modelled
		}
		o := dbObs(sc.reps[i])
		pend := uint64(len(sc.palhs)) - dbObs(sc.primary).cid
		switch {
		case p < 25 && pend < 3 && nset < 6:
			nset++
			if err := sc.primarySet(nset); err != nil {
				return err
			}
		case p < 62:
			sc.fetch(i, rng.Intn(8) != 0)
		case p < 68:
			// a report that is not the replica's state
			a := vk.RandBytes(rng, 32)
			switch rng.Intn(4) {
			case 0: // right id, wrong Alh
				sc.report(i, o.cid, o.calh[:], o.pid, a, o.pid+1, "wrong-palh")
			case 1: // beyond what the primary has
				sc.report(i, o.cid, o.calh[:], uint64(len(sc.palhs))+1+uint64(rng.Intn(2)), a, o.pid+1, "future-pid")
			case 2: // wrong committed Alh
				if o.cid > 0 {
					sc.report(i, o.cid, a, o.pid, o.palh[:], o.pid+1, "wrong-calh")
				}
			case 3: // an older state of the same replica (a retried request)
				if o.pid > 1 {
					t := 1 + uint64(rng.Intn(int(o.pid-1)))
					if t <= uint64(len(sc.palhs)) && !sc.diverged[i] {
						c := o.cid
						ca := o.calh
						if c > t {
							c, ca = t, sc.palhs[t-1]
						}
						sc.report(i, c, ca[:], t, sc.palhs[t-1][:], o.pid+1, "stale")
					}
				}
			}
		case p < 73:
			// the same replica asks again with an unchanged state (must not count twice)
			sc.fetch(i, false)
			sc.fetch(i, false)
		case p < 79:
			if err := sc.restart(i); err != nil {
				return err
			}
		case p < 84:
			// an altered export (Ts) reaches the replica; the primary notices at the next report
			nx := o.pid + 1
			if nx <= uint64(len(sc.palhs)) && !sc.diverged[i] {
				e := vk.Clone(sc.exports[nx-1])
				e[4+8+32+7] ^= 1
				sc.deliver(i, e, "altered-Ts")
			}
		case p < 88:
			if o.pid > 0 && o.pid <= uint64(len(sc.exports)) {
				sc.deliver(i, sc.exports[rng.Intn(int(o.pid))], "duplicate")
			}
		case p < 94:
			// AllowCommitUpto with values that did not come from the primary
			t := uint64(1 + rng.Intn(int(o.pid+2)))
			var a [sha256.Size]byte
			if rng.Intn(2) == 0 && t <= uint64(len(sc.palhs)) {
				a = sc.palhs[t-1]
				// genuine Alh but possibly beyond what the primary committed: only the replicator
				// (never the replica database) guards that; keep t within the primary's commit
				if t > dbObs(sc.primary).cid {
					rng.Read(a[:])
				}
			} else {
				rng.Read(a[:])
			}
			sc.dbAllow(i, t, a, "unsolicited")
		default:
			// discard a suffix the replica has not acknowledged yet
			if o.pid > o.cid && o.pid > sc.acked[i] {
				lo := o.cid + 1
				if sc.acked[i]+1 > lo {
					lo = sc.acked[i] + 1
				}
				sc.discard(i, lo+uint64(rng.Intn(int(o.pid-lo+1))))
			} else {
				// nothing unacknowledged to discard: only calls that are refused or do nothing
				// (a replica never discards what it has acknowledged unless the primary says it diverged)
				t := o.pid + 1 + uint64(rng.Intn(2))
				if rng.Intn(2) == 0 {
					t = uint64(rng.Intn(int(o.cid + 1)))
				}
				sc.discard(i, t)
			}
		}
	}
	// drain: every replica catches up, then reports until the primary has committed everything
	for round := 0; round < 3*len(sc.palhs)+6; round++ {
		done := dbObs(sc.primary).cid == uint64(len(sc.palhs))
		for i := range sc.reps {
			if sc.staleHit[i] || sc.lost[i] {
				continue
			}
			o := dbObs(sc.reps[i])
			if o.cid < uint64(len(sc.palhs)) {
				done = false
			}
			sc.fetch(i, true)
		}
		if done {
			break
		}
	}
	healthy := 0
	for i := range sc.reps {
		if !sc.staleHit[i] && !sc.lost[i] {
			healthy++
		}
	}
	p := dbObs(sc.primary)
	if p.cid != uint64(len(sc.palhs)) && healthy >= sc.acks {
		sc.find(fmt.Sprintf("synchronous replication stalled: primary committed %d of %d although %d replicas (syncAcks %d) kept reporting", p.cid, len(sc.palhs), healthy, sc.acks))
	}
	for i := range sc.reps {
		o := dbObs(sc.reps[i])
		if !sc.staleHit[i] && !sc.lost[i] && healthy >= sc.acks && (o.cid != p.cid || (o.cid > 0 && o.calh != sc.palhs[o.cid-1])) {
			sc.find(fmt.Sprintf("after draining, replica %d is at committed id %d (primary %d) or its Alh differs", i, o.cid, p.cid))
		}
	}
	c := cfg{ext: true, maxActive: 1000, maxKeyLen: dbKeyLen, maxValueLen: 4096, maxTxEntries: dbTxEntries}
	r.Case(sc.in.wrap(fmt.Sprintf("CSync %d %s %d %s", sc.acks, c.term(), sc.nrep, vk.List(sc.steps))),
		map[string]any{"kind": "sync", "acks": sc.acks, "nrep": sc.nrep, "steps": sc.js, "seed": r.Seed, "n": genN},
		fmt.Sprintf("sync/acks%d/rep%d", sc.acks, sc.nrep), len(sc.steps) >= 5)
	for k, v := range sc.stats {
		r.Stats["dstep:"+k] += v
	}
	return nil
}
