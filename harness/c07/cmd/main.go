package main

import (
	"verif/harness/c07"
	"verif/harness/vk"
)

func main() { vk.Main("Tie.C07", c07.Gen, c07.Replay) }
