// Package c07: correspondence cases and falsifier for C07 (replication reproduces exactly the
// primary's history). Store level: two embedded stores, ExportTx -> ReplicateTx under random
// delivery schedules and byte alterations. Database level (sync.go): pkg/database instances in
// synchronous replication mode.
package c07

import (
	"bytes"
	"context"
	"crypto/sha256"
	"fmt"
	"io"
	"math/rand"
	"os"
	"sort"
	"strings"
	"sync"
	"time"

	"github.com/codenotary/immudb/embedded/logger"
	"github.com/codenotary/immudb/embedded/store"
	"verif/harness/vk"
)

// smallBuffers: the default write buffers (4 MB per log, 16 MB per AHT log) are zeroed at every
// Open and dominate the run time of a harness that opens hundreds of stores
func smallBuffers(o *store.Options) *store.Options {
	return o.WithWriteBufferSize(1 << 14).WithAHTOptions(store.DefaultAHTOptions().WithWriteBufferSize(1 << 14))
}

func quietLogger() logger.Logger {
	return logger.NewSimpleLoggerWithLevel("vh", io.Discard, logger.LogError)
}

// ---------- Coq terms ----------
type obs struct {
	cid  uint64
	calh [sha256.Size]byte
	pid  uint64
	palh [sha256.Size]byte
}

func obsOf(s *store.ImmuStore) obs {
	var o obs
	o.cid, o.calh = s.CommittedAlh()
	o.pid, o.palh = s.PrecommittedAlh()
	return o
}

func (o obs) term(in *interner) string {
	return fmt.Sprintf("(Obs %d %s %d %s)", o.cid, in.ref(o.calh[:]), o.pid, in.ref(o.palh[:]))
}

func (o obs) js() map[string]any {
	return map[string]any{"cid": o.cid, "calh": fmt.Sprintf("%x", o.calh), "pid": o.pid, "palh": fmt.Sprintf("%x", o.palh)}
}

type cfg struct {
	ext          bool
	maxActive    int
	maxKeyLen    int
	maxValueLen  int
	maxTxEntries int
	embedded     bool
}

func (c cfg) term() string {
	return fmt.Sprintf("{| c_ext := %s; c_maxActive := %d; c_maxKeyLen := %d; c_maxValueLen := %d; c_maxTxEntries := %d |}",
		vk.Bool(c.ext), c.maxActive, c.maxKeyLen, c.maxValueLen, c.maxTxEntries)
}

// limits of the primary and of an unrestricted replica (tx holders are MaxTxEntries*MaxKeyLen bytes
// each and are allocated by the dozen at every Open: the defaults 1024*1024 make that the whole cost)
const stdKeyLen, stdTxEntries = 64, 16

// defaultLimits: the replica accepts every transaction the primary (default limits) can commit
func (c cfg) defaultLimits() bool {
	return c.maxKeyLen >= stdKeyLen && c.maxValueLen >= 4096 && c.maxTxEntries >= stdTxEntries
}

func (c cfg) opts() *store.Options {
	return smallBuffers(store.DefaultOptions()).WithSynced(false).WithLogger(quietLogger()).
		WithExternalCommitAllowance(c.ext).WithMaxActiveTransactions(c.maxActive).
		WithMaxKeyLen(c.maxKeyLen).WithMaxValueLen(c.maxValueLen).WithMaxTxEntries(c.maxTxEntries).
		WithEmbeddedValues(c.embedded).WithMaxConcurrency(8).WithMaxWaitees(64)
}

// outcome of a call: 0 ok, 1 error, 2 panic
func call(f func() error) (cls int, err error) {
	defer func() {
		if r := recover(); r != nil {
			cls = 2
			err = fmt.Errorf("panic: %v", r)
		}
	}()
	err = f()
	if err != nil {
		return 1, err
	}
	return 0, nil
}

func resUnit(cls int) string {
	switch cls {
	case 0:
		return "(Ok tt)"
	case 1:
		return "(Err 0)"
	}
	return "Panic"
}

func errStr(err error) string {
	if err == nil {
		return ""
	}
	return err.Error()
}

// ---------- the primary and its history ----------
type history struct {
	dir     string
	st      *store.ImmuStore
	n       uint64
	hdrs    []*store.TxHeader // index id-1
	txs     []*store.Tx
	vals    [][][]byte // values as written
	exports [][]byte   // genuine exports (after truncation, if any)
	trunc   []bool     // export carries digests instead of values
	desc    string
}

func (h *history) close() {
	if h.st != nil {
		h.st.Close()
	}
	os.RemoveAll(h.dir)
}

type histSpec struct {
	ntx       int
	version   int  // WriteTxHeaderVersion of the first part
	switchAt  int  // reopen with the other header version before this tx (0 = never)
	truncate  bool // small files + TruncateUptoTx
	bigValues bool
}

func buildHistory(rng *rand.Rand, sp histSpec) (*history, error) {
	dir, err := os.MkdirTemp("", "vh-c07-p")
	if err != nil {
		return nil, err
	}
	h := &history{dir: dir}
	clock := int64(1600000000 + rng.Intn(100000000))
	timeFunc := func() time.Time { clock += int64(1 + rng.Intn(3)); return time.Unix(clock, 0) }
	mkOpts := func(version int) *store.Options {
		o := smallBuffers(store.DefaultOptions()).WithSynced(false).WithLogger(quietLogger()).
			WithWriteTxHeaderVersion(version).WithTimeFunc(timeFunc).WithMaxConcurrency(4).
			WithMaxKeyLen(stdKeyLen).WithMaxTxEntries(stdTxEntries)
		if sp.truncate {
			o = o.WithEmbeddedValues(false).WithFileSize(256).WithMaxIOConcurrency(1)
		}
		return o
	}
	version := sp.version
	h.st, err = store.Open(dir, mkOpts(version))
	if err != nil {
		os.RemoveAll(dir)
		return nil, err
	}
	ctx := context.Background()
	for t := 1; t <= sp.ntx; t++ {
		if sp.switchAt == t {
			h.st.Close()
			version = 1 - version
			h.st, err = store.Open(dir, mkOpts(version))
			if err != nil {
				h.st = nil
				h.close()
				return nil, err
			}
		}
		tx, err := h.st.NewWriteOnlyTx(ctx)
		if err != nil {
			h.close()
			return nil, err
		}
		if version == 1 {
			switch rng.Intn(5) {
			case 0:
				md := store.NewTxMetadata()
				md.WithExtra(vk.RandBytes(rng, 1+rng.Intn(12)))
				tx.WithMetadata(md)
			case 1:
				md := store.NewTxMetadata()
				md.WithTruncatedTxID(uint64(1 + rng.Intn(t)))
				if rng.Intn(2) == 0 {
					md.WithExtra(vk.RandBytes(rng, 1+rng.Intn(5)))
				}
				tx.WithMetadata(md)
			case 2:
				tx.WithMetadata(store.NewTxMetadata()) // empty, non-nil
			}
		}
		ne := 1 + rng.Intn(3)
		if sp.truncate {
			// values of one transaction may straddle two value-log files; truncation then removes
			// only some of them and ExportTx refuses the transaction ("partially truncated", C14)
			ne = 1
		}
		var vals [][]byte
		allEmpty := sp.truncate && rng.Intn(6) == 0
		for e := 0; e < ne; e++ {
			var md *store.KVMetadata
			if version == 1 {
				switch rng.Intn(5) {
				case 1:
					md = store.NewKVMetadata()
					md.AsDeleted(true)
				case 2:
					md = store.NewKVMetadata()
					md.ExpiresAt(time.Unix(4000000000+int64(rng.Intn(1000)), 0))
				case 3:
					md = store.NewKVMetadata()
					md.AsNonIndexable(true)
					if rng.Intn(2) == 0 {
						md.AsDeleted(true)
					}
				}
			}
			var val []byte
			switch {
			case sp.truncate:
				// a transaction that mixes empty and non-empty values cannot be exported once it
				// is truncated (ExportTx's "partially truncated transaction" path, C14)
				if !allEmpty {
					val = vk.RandBytes(rng, 60+rng.Intn(120))
				}
			case sp.bigValues && rng.Intn(3) == 0:
				val = vk.RandBytes(rng, 100+rng.Intn(200))
			case rng.Intn(5) == 0:
				val = nil
			default:
				val = vk.RandBytes(rng, 1+rng.Intn(24))
			}
			key := []byte(fmt.Sprintf("k%d.%d", t, e))
			if rng.Intn(4) == 0 { // keys recur across transactions
				key = []byte(fmt.Sprintf("k%d", rng.Intn(4)))
				if e > 0 {
					key = append(key, byte('a'+e))
				}
			}
			if err := tx.Set(key, md, val); err != nil {
				h.close()
				return nil, err
			}
			vals = append(vals, val)
		}
		if _, err := tx.Commit(ctx); err != nil {
			h.close()
			return nil, fmt.Errorf("primary commit: %w", err)
		}
		h.vals = append(h.vals, vals)
	}
	h.n = uint64(sp.ntx)
	cut := uint64(0)
	if sp.truncate && sp.ntx > 2 {
		cut = uint64(2 + rng.Intn(sp.ntx-1))
		if err := h.st.TruncateUptoTx(cut); err != nil {
			// nothing to truncate is not an error of interest here
			cut = 0
		}
	}
	for id := uint64(1); id <= h.n; id++ {
		tx := store.NewTx(h.st.MaxTxEntries(), h.st.MaxKeyLen())
		if err := h.st.ReadTx(id, false, tx); err != nil {
			h.close()
			return nil, err
		}
		h.txs = append(h.txs, tx)
		h.hdrs = append(h.hdrs, tx.Header())
		holder := store.NewTx(h.st.MaxTxEntries(), h.st.MaxKeyLen())
		etx, err := h.st.ExportTx(id, false, false, holder)
		if err != nil {
			h.close()
			return nil, fmt.Errorf("ExportTx(%d): %w", id, err)
		}
		h.exports = append(h.exports, etx)
		h.trunc = append(h.trunc, etx[len(etx)-1] == 1)
	}
	h.desc = fmt.Sprintf("ntx=%d v%d switchAt=%d truncate=%v cut=%d", sp.ntx, sp.version, sp.switchAt, sp.truncate, cut)
	return h, nil
}

// ---------- one store-level case ----------
type stepRec struct {
	term string
	js   map[string]any
}

type storeCase struct {
	r       *vk.Run
	rng     *rand.Rand
	c       cfg
	h       *history
	dir     string
	replica *store.ImmuStore
	steps   []stepRec
	stats   map[string]int
	// diverged: the replica holds a transaction that is not the primary's (after an accepted alteration)
	diverged bool
	label    string
	in       *interner
	// since the last Open: a discard happened (the in-memory precommit watcher is not receded by
	// DiscardPrecommittedTxsSince, so concurrent deliveries stop waiting for their predecessor)
	discardedSinceOpen bool
	// ghostPossible: a precommit failed with "buffer is full" after its record had been appended to
	// the tx log; until the next accepted delivery or discard that record is found by a reopening
	ghostPossible bool
	trace         []string
	restarts      int
	idx           int
	staleHit      bool
	lost          bool
}

func (sc *storeCase) find(text string) {
	sc.r.Finding(fmt.Sprintf("%s [seed %d case %d: ext=%v maxActive=%d maxKeyLen=%d maxValueLen=%d maxTxEntries=%d embedded=%v; primary %s]",
		text, sc.r.Seed, sc.idx, sc.c.ext, sc.c.maxActive, sc.c.maxKeyLen, sc.c.maxValueLen, sc.c.maxTxEntries, sc.c.embedded, sc.h.desc))
}

func (sc *storeCase) open() error {
	st, err := store.Open(sc.dir, sc.c.opts())
	if err != nil {
		return err
	}
	sc.replica = st
	return nil
}

func (sc *storeCase) add(term string, js map[string]any) {
	sc.steps = append(sc.steps, stepRec{term, js})
	d := fmt.Sprint(js["op"])
	if w, ok := js["what"]; ok {
		d += ":" + fmt.Sprint(w)
	}
	if t, ok := js["t"]; ok {
		d += fmt.Sprintf("(%v)", t)
	}
	if o, ok := js["out"]; ok && fmt.Sprint(o) != "0" {
		d += "=err"
	}
	sc.trace = append(sc.trace, d)
}

// schedule so far (last steps), for findings
func (sc *storeCase) sched() string {
	t := sc.trace
	if len(t) > 14 {
		t = t[len(t)-14:]
	}
	return strings.Join(t, ", ")
}

// checkPrefix: the falsifier's direct statement. Every transaction the replica holds
// (committed or precommitted) carries the primary's Alh for that id.
func (sc *storeCase) replicaAlh(id uint64) ([sha256.Size]byte, error) {
	hdr, err := sc.replica.ReadTxHeader(id, true, false)
	if err != nil {
		return [sha256.Size]byte{}, err
	}
	return hdr.Alh(), nil
}

// family names which header fields of an accepted altered export differ from the primary's
func family(h *history, alt []byte, skip bool) string {
	l := func() (l *layout) {
		defer func() {
			if recover() != nil {
				l = nil
			}
		}()
		return parseLayout(alt)
	}()
	if l == nil {
		return "unparsable"
	}
	if l.hdr.ID == 0 || l.hdr.ID > h.n {
		return "foreign id"
	}
	p := h.hdrs[l.hdr.ID-1]
	var fs []string
	if l.hdr.Ts != p.Ts {
		fs = append(fs, "Ts")
	}
	if l.hdr.Version != p.Version {
		fs = append(fs, "Version")
	}
	var a, b []byte
	if l.hdr.Metadata != nil {
		a = l.hdr.Metadata.Bytes()
	}
	if p.Metadata != nil {
		b = p.Metadata.Bytes()
	}
	if !bytes.Equal(a, b) {
		fs = append(fs, "Metadata")
	}
	if l.hdr.BlTxID != p.BlTxID {
		fs = append(fs, "BlTxID/BlRoot")
	}
	if l.hdr.Eh != p.Eh {
		fs = append(fs, "Eh and entries")
	}
	if len(fs) == 0 {
		if skip {
			return "entries (skipIntegrityCheck)"
		}
		return "entries only (header unchanged) although the integrity check is on"
	}
	return strings.Join(fs, "+")
}

// deliver runs one ReplicateTx and applies the direct property checks.
// genuineID > 0: the bytes are the unaltered export of that primary transaction.
func (sc *storeCase) deliver(b []byte, skip bool, genuineID uint64, what string) int {
	b = vk.Exact(b)
	before := obsOf(sc.replica)
	var hdr *store.TxHeader
	ctx, cancel := context.WithTimeout(context.Background(), 250*time.Millisecond)
	cls, err := call(func() error {
		var e error
		hdr, e = sc.replica.ReplicateTx(ctx, b, skip, false)
		return e
	})
	cancel()
	after := obsOf(sc.replica)
	sc.add(fmt.Sprintf("SDeliver %s %s %s %s", vk.Bool(skip), sc.in.ref(b), resUnit(cls), after.term(sc.in)),
		map[string]any{"op": "deliver", "what": what, "skip": skip, "bytes": fmt.Sprintf("%x", b), "out": cls, "err": errStr(err), "after": after.js()})
	sc.stats["deliver/"+strings.SplitN(what, ":", 2)[0]+[]string{"/accepted", "/rejected", "/panic"}[cls]]++
	switch cls {
	case 2:
		sc.find(fmt.Sprintf("ReplicateTx panicked (%s): %v; export %x", what, err, b))
	case 1:
		if strings.Contains(errStr(err), "buffer is full") {
			sc.ghostPossible = true
		}
		if before != after {
			sc.find(fmt.Sprintf("rejected delivery (%s, error %v) changed the replica state %v -> %v; export %x", what, err, before.js(), after.js(), b))
		}
	case 0:
		sc.ghostPossible = false
		id := hdr.ID
		var palh [sha256.Size]byte
		known := id >= 1 && id <= sc.h.n
		if known {
			palh = sc.h.hdrs[id-1].Alh()
		}
		if !known || hdr.Alh() != palh {
			sc.diverged = true
			if genuineID > 0 {
				if !sc.divergedBefore(id) {
					if hdr.BlTxID == 0 && hdr.BlRoot != [sha256.Size]byte{} {
						sc.staleHit = true
						sc.find(fmt.Sprintf("ReplicateTx stored a non-zero BlRoot for a transaction with BlTxID=0 (stale tx holder): unaltered export of tx %d accepted, header BlRoot %x, replica Alh %x, primary Alh %x", genuineID, hdr.BlRoot, hdr.Alh(), palh))
					} else {
						sc.find(fmt.Sprintf("replica accepted the unaltered export of tx %d but its Alh %x differs from the primary's %x", genuineID, hdr.Alh(), palh))
					}
				}
			} else {
				mode := ""
				if skip {
					mode = " (skipIntegrityCheck=true)"
				}
				fam := family(sc.h, b, skip)
				if skip && fam == "Eh and entries" {
					fam = "entries"
				}
				if fam == "entries (skipIntegrityCheck)" {
					fam = "entries"
				}
				sc.find(fmt.Sprintf("ReplicateTx accepted an export with altered %s%s: tx %d, alteration %s, replica Alh %x, primary Alh %x, export %x",
					fam, mode, id, what, hdr.Alh(), palh, b))
			}
		}
	}
	return cls
}

// divergedBefore: some transaction below id already differs from the primary's (then a genuine
// export can never have been accepted: PrevAlh would not match)
func (sc *storeCase) divergedBefore(id uint64) bool {
	for t := uint64(1); t < id && t <= sc.h.n; t++ {
		a, err := sc.replicaAlh(t)
		if err != nil || a != sc.h.hdrs[t-1].Alh() {
			return true
		}
	}
	return false
}

func (sc *storeCase) restart() error {
	before := obsOf(sc.replica)
	if err := sc.replica.Close(); err != nil {
		return fmt.Errorf("replica close: %w", err)
	}
	if err := sc.open(); err != nil {
		return fmt.Errorf("replica reopen: %w", err)
	}
	after := obsOf(sc.replica)
	sc.add(fmt.Sprintf("SRestart %s", after.term(sc.in)), map[string]any{"op": "restart", "after": after.js()})
	sc.stats["restart"]++
	switch {
	case after.pid < before.pid:
		sc.find(fmt.Sprintf("Close+Open dropped precommitted transactions %d..%d of the replica store (durable precommits already reported to a primary are lost); schedule: %s", after.pid+1, before.pid, sc.sched()))
	case !sc.ghostPossible && (after.pid != before.pid || after.palh != before.palh):
		// since /repo 8728288 DiscardPrecommittedTxsSince cuts the tx log: nothing that was discarded
		// may be found again by the reload loop
		sc.find(fmt.Sprintf("Close+Open brought back discarded transactions: precommitted state %d/%x before, %d/%x after; schedule: %s", before.pid, before.palh[:4], after.pid, after.palh[:4], sc.sched()))
	}
	sc.ghostPossible = false
	if after.cid != before.cid || after.calh != before.calh {
		sc.find(fmt.Sprintf("Close+Open changed the committed state of the replica %v -> %v", before.js(), after.js()))
	}
	sc.discardedSinceOpen = false
	sc.restarts++
	sc.recheckDiverged()
	return nil
}

func (sc *storeCase) discard(t uint64) {
	before := obsOf(sc.replica)
	var n int
	cls, err := call(func() error {
		var e error
		n, e = sc.replica.DiscardPrecommittedTxsSince(t)
		return e
	})
	after := obsOf(sc.replica)
	out := "Panic"
	if cls == 0 {
		out = fmt.Sprintf("(Ok %d)", n)
	} else if cls == 1 {
		out = "(Err 0)"
	}
	sc.add(fmt.Sprintf("SDiscard %d %s %s", t, out, after.term(sc.in)),
		map[string]any{"op": "discard", "t": t, "out": cls, "n": n, "err": errStr(err), "after": after.js()})
	sc.stats["discard"+[]string{"/ok", "/err", "/panic"}[cls]]++
	if cls == 1 && before != after {
		sc.find(fmt.Sprintf("failed DiscardPrecommittedTxsSince(%d) changed the replica state", t))
	}
	if after.cid != before.cid || after.calh != before.calh {
		sc.find(fmt.Sprintf("DiscardPrecommittedTxsSince(%d) changed the COMMITTED state %v -> %v", t, before.js(), after.js()))
	}
	if cls == 0 && n > 0 {
		sc.ghostPossible = false
		sc.discardedSinceOpen = true
		sc.recheckDiverged()
	}
}

func (sc *storeCase) recheckDiverged() {
	o := obsOf(sc.replica)
	sc.diverged = sc.divergedBefore(o.pid + 1)
}

func (sc *storeCase) allow(t uint64) {
	before := obsOf(sc.replica)
	cls, err := call(func() error { return sc.replica.AllowCommitUpto(t) })
	after := obsOf(sc.replica)
	sc.add(fmt.Sprintf("SAllow %d %s %s", t, vk.Bool(cls == 0), after.term(sc.in)),
		map[string]any{"op": "allow", "t": t, "out": cls, "err": errStr(err), "after": after.js()})
	sc.stats["allow"+[]string{"/ok", "/err", "/panic"}[cls]]++
	if after.cid < before.cid {
		sc.find(fmt.Sprintf("AllowCommitUpto(%d) moved the committed id backwards %d -> %d", t, before.cid, after.cid))
	}
	if sc.c.ext && after.cid > before.cid && after.cid > t {
		sc.find(fmt.Sprintf("AllowCommitUpto(%d) committed up to %d", t, after.cid))
	}
}

// batch: concurrent ReplicateTx calls of distinct genuine exports
func (sc *storeCase) batch(ids []uint64, skip bool) {
	var wg sync.WaitGroup
	acc := make([]bool, len(ids))
	for i, id := range ids {
		wg.Add(1)
		go func(i int, b []byte) {
			defer wg.Done()
			ctx, cancel := context.WithTimeout(context.Background(), 5*time.Second)
			defer cancel()
			cls, _ := call(func() error {
				_, e := sc.replica.ReplicateTx(ctx, vk.Exact(b), skip, false)
				return e
			})
			acc[i] = cls == 0
		}(i, sc.h.exports[id-1])
	}
	wg.Wait()
	after := obsOf(sc.replica)
	sorted := append([]uint64{}, ids...)
	sort.Slice(sorted, func(i, j int) bool { return sorted[i] < sorted[j] })
	var terms []string
	n := 0
	for _, a := range acc {
		if a {
			n++
		}
	}
	for _, id := range sorted {
		terms = append(terms, sc.in.ref(sc.h.exports[id-1]))
	}
	sc.add(fmt.Sprintf("SBatch %s %s %d %s", vk.Bool(skip), vk.List(terms), n, after.term(sc.in)),
		map[string]any{"op": "batch", "ids": ids, "accepted": n, "after": after.js()})
	sc.stats["batch"]++
	// a member of the batch may have failed with "buffer is full" after the last accepted one
	sc.ghostPossible = n < len(ids) && sc.c.ext && sc.c.maxActive < 1000
}

func (sc *storeCase) emit(kind string, nontrivial bool) {
	var terms []string
	var js []map[string]any
	for _, s := range sc.steps {
		terms = append(terms, s.term)
		js = append(js, s.js)
	}
	sc.r.Case(sc.in.wrap(fmt.Sprintf("CStore %s %s", sc.c.term(), vk.List(terms))),
		map[string]any{"kind": "store", "label": sc.label, "cfg": sc.c.term(), "history": sc.h.desc, "steps": js,
			"seed": sc.r.Seed, "n": genN}, kind, nontrivial)
}

// finalCheck: every transaction the replica committed equals the primary's (header, keys,
// metadata, value hashes, values when the primary still has them)
func (sc *storeCase) finalCheck() {
	o := obsOf(sc.replica)
	for id := uint64(1); id <= o.cid && id <= sc.h.n; id++ {
		rtx := store.NewTx(sc.replica.MaxTxEntries(), sc.replica.MaxKeyLen())
		if err := sc.replica.ReadTx(id, false, rtx); err != nil {
			sc.find(fmt.Sprintf("replica cannot read its committed tx %d: %v", id, err))
			return
		}
		ph, rh := sc.h.hdrs[id-1], rtx.Header()
		if ph.Alh() != rh.Alh() {
			if !sc.diverged {
				sc.find(fmt.Sprintf("final: replica tx %d Alh %x differs from the primary's %x although no alteration was accepted", id, rh.Alh(), ph.Alh()))
			}
			return // everything after a diverged transaction is reported at the delivery
		}
		if ph.ID != rh.ID || ph.Ts != rh.Ts || ph.Version != rh.Version || ph.NEntries != rh.NEntries || ph.Eh != rh.Eh ||
			ph.BlTxID != rh.BlTxID || ph.BlRoot != rh.BlRoot || ph.PrevAlh != rh.PrevAlh {
			sc.find(fmt.Sprintf("final: replica tx %d header differs from the primary's with equal Alh", id))
		}
		pes, res := sc.h.txs[id-1].Entries(), rtx.Entries()
		if len(pes) != len(res) {
			sc.find(fmt.Sprintf("final: replica tx %d has %d entries, primary %d", id, len(res), len(pes)))
			continue
		}
		for i := range pes {
			var pm, rm []byte
			if pes[i].Metadata() != nil {
				pm = pes[i].Metadata().Bytes()
			}
			if res[i].Metadata() != nil {
				rm = res[i].Metadata().Bytes()
			}
			if !bytes.Equal(pes[i].Key(), res[i].Key()) || !bytes.Equal(pm, rm) || pes[i].HVal() != res[i].HVal() {
				sc.find(fmt.Sprintf("final: replica tx %d entry %d differs from the primary's (key/metadata/value hash)", id, i))
				continue
			}
			val, err := sc.replica.ReadValue(res[i])
			if sc.h.trunc[id-1] {
				continue // the primary no longer has the value; the replica stores none
			}
			if err != nil || !bytes.Equal(val, sc.h.vals[id-1][i]) {
				sc.find(fmt.Sprintf("final: replica tx %d entry %d value differs from the primary's (err %v)", id, i, err))
			}
		}
	}
}

var genN int

// useTmpfs: the stores fsync on every Close (index flush); on a loaded disk that dominates the
// run. os.MkdirTemp("", ...) follows TMPDIR, which is pointed at a memory file system when one
// is there (durability against power loss is not what this check is about).
func useTmpfs() {
	if os.Getenv("VERIF_KEEP_TMPDIR") != "" {
		return
	}
	if fi, err := os.Stat("/dev/shm"); err == nil && fi.IsDir() {
		if d, err := os.MkdirTemp("/dev/shm", "vh-c07-probe"); err == nil {
			os.RemoveAll(d)
			os.Setenv("TMPDIR", "/dev/shm")
		}
	}
}

// staleHolder: result of probeStale on this build of /repo. Since commit 7c27871 performPrecommit
// clears the BlRoot of the pooled tx holder; the model has no such holder any more, the probe (the
// directed schedule that used to fail) keeps running and a recurrence is reported.
var staleHolder bool

func runProbe(r *vk.Run) error {
	st, detail, err := probeStale()
	if err != nil {
		return err
	}
	staleHolder = st
	if st {
		r.Finding("ReplicateTx stored a non-zero BlRoot for a transaction with BlTxID=0 (stale tx holder), all exports unaltered: " + detail)
	}
	return nil
}

func runStoreCase(r *vk.Run, idx int) error {
	rng := r.Rng
	sp := histSpec{ntx: 3 + rng.Intn(6), version: 1}
	switch rng.Intn(8) {
	case 0, 1:
		sp.version = 0
	case 2:
		sp.switchAt = 2 + rng.Intn(sp.ntx-1)
		sp.version = rng.Intn(2)
	case 3, 4:
		sp.truncate = true
	case 5:
		sp.bigValues = true
	}
	h, err := buildHistory(rng, sp)
	if err != nil {
		return err
	}
	defer h.close()
	c := cfg{ext: rng.Intn(2) == 0, maxActive: 1000, maxKeyLen: stdKeyLen, maxValueLen: 4096, maxTxEntries: stdTxEntries, embedded: rng.Intn(4) == 0}
	switch rng.Intn(6) {
	case 0:
		c.maxActive = 2 + rng.Intn(3)
	case 1:
		c.maxKeyLen, c.maxValueLen = 4+rng.Intn(4), 8+rng.Intn(24)
	case 2:
		c.maxTxEntries = 1 + rng.Intn(2)
	}
	dir, err := os.MkdirTemp("", "vh-c07-r")
	if err != nil {
		return err
	}
	defer os.RemoveAll(dir)
	sc := &storeCase{r: r, rng: rng, c: c, h: h, dir: dir, stats: map[string]int{}, in: &interner{}, idx: idx}
	for _, e := range h.exports {
		sc.in.ref(e)
	}
	if err := sc.open(); err != nil {
		return err
	}
	defer func() { sc.replica.Close() }()
	mode := rng.Intn(10) // 0..5 schedules, 6..7 boundary alterations, 8..9 forgeries
	skip := rng.Intn(4) == 0
	switch {
	case mode <= 5:
		sc.label = "schedule"
		err = sc.schedule(skip, false)
	case mode <= 7:
		sc.label = "alterations"
		err = sc.schedule(skip, true)
	default:
		sc.label = "forgeries"
		err = sc.forge(skip)
	}
	if err != nil {
		return err
	}
	sc.finalCheck()
	bucket := "store/" + sc.label
	if c.ext {
		bucket += "/ext"
	} else {
		bucket += "/async"
	}
	if skip {
		bucket += "/skip"
	}
	sc.emit(bucket, len(sc.steps) >= 3)
	for k, v := range sc.stats {
		r.Stats["step:"+k] += v
	}
	return nil
}

// next: the id the replica would accept next
func (sc *storeCase) next() uint64 { return obsOf(sc.replica).pid + 1 }

// schedule: random delivery order within a window, duplicates, retries, restarts, discards,
// allowances; with alterations=true every genuine delivery is preceded by altered variants
func (sc *storeCase) schedule(skip bool, alterations bool) error {
	rng := sc.rng
	h := sc.h
	timeouts := 0
	stuckAt, stuck := uint64(0), 0
	for it := 0; it < 60 && stuck < 2 && !sc.lost && (obsOf(sc.replica).cid < h.n) && !(sc.diverged && !sc.c.ext); it++ {
		nx := sc.next()
		o := obsOf(sc.replica)
		if sc.diverged && sc.c.ext {
			// what the replicator does once the primary reports divergence: discard the precommitted backlog
			sc.discard(o.cid + 1)
			if sc.diverged { // an accepted alteration was committed: the replica is lost
				break
			}
			if sc.staleHit {
				// tx 1 re-precommitted after a discard picked up a stale BlRoot (known finding) and
				// will do so again, even after a reopening (the reload loop leaves the BlRoot of the
				// last record it read in the holder): this replica cannot catch up any more
				break
			}
			continue
		}
		p := rng.Intn(100)
		switch {
		case nx <= h.n && p < 45:
			if alterations {
				l := parseLayout(h.exports[nx-1])
				alts := boundaryAlterations(rng, h.exports[nx-1], l, 10)
				for _, a := range alts {
					if !sc.c.ext && nx < h.n && strings.HasSuffix(a.name, ":Ts") {
						// an accepted alteration is committed at once by an asynchronous replica and
						// ends the run: keep it for the last transaction
						continue
					}
					if sc.deliver(a.bytes, skip, 0, "altered:"+a.name) == 0 {
						break
					}
				}
				if sc.diverged {
					continue
				}
				nx = sc.next()
				if nx > h.n {
					continue
				}
			}
			if sc.deliver(h.exports[nx-1], skip, nx, "next") != 0 {
				// the replica's own limits (MaxKeyLen, MaxTxEntries, ...) or a full precommit buffer
				if o2 := obsOf(sc.replica); sc.c.ext && o2.pid > o2.cid {
					sc.allow(o2.pid)
				} else if stuckAt == nx {
					stuck++
				} else {
					stuckAt, stuck = nx, 1
				}
			}
		case nx < h.n && p < 52 && timeouts < 2:
			// a later transaction of the window first: it waits for its predecessor
			timeouts++
			id := nx + 1 + uint64(rng.Intn(int(minU(3, h.n-nx))))
			sc.deliver(h.exports[id-1], skip, id, "future")
		case p < 62 && nx > 1:
			id := 1 + uint64(rng.Intn(int(nx-1)))
			sc.deliver(h.exports[id-1], skip, id, "duplicate")
		case p < 68:
			if err := sc.restart(); err != nil {
				return err
			}
		case p < 76:
			t := uint64(rng.Intn(int(o.pid + 3)))
			if rng.Intn(2) == 0 && o.pid > o.cid {
				t = o.cid + 1 + uint64(rng.Intn(int(o.pid-o.cid)))
			}
			sc.discard(t)
		case p < 90:
			t := uint64(rng.Intn(int(o.pid + 3)))
			if rng.Intn(2) == 0 && o.pid > o.cid {
				t = o.cid + 1 + uint64(rng.Intn(int(o.pid-o.cid)))
			}
			sc.allow(t)
		case p < 96 && nx+1 <= h.n && !sc.discardedSinceOpen:
			k := 2 + rng.Intn(3)
			var ids []uint64
			for id := nx; id <= h.n && len(ids) < k; id++ {
				ids = append(ids, id)
			}
			if sc.c.maxActive < 1000 && len(ids) > sc.c.maxActive {
				ids = ids[:sc.c.maxActive]
			}
			if rng.Intn(3) == 0 && nx > 1 {
				ids = append(ids, 1+uint64(rng.Intn(int(nx-1)))) // plus a duplicate of an old one
			}
			rng.Shuffle(len(ids), func(i, j int) { ids[i], ids[j] = ids[j], ids[i] })
			sc.batch(ids, skip)
		default:
			if sc.c.ext && o.pid > o.cid {
				sc.allow(o.pid)
			}
		}
	}
	// drain: in-order delivery of what is left, then allow everything
	for it := 0; it < 2*int(h.n)+4 && !sc.diverged && !sc.lost; it++ {
		nx := sc.next()
		if nx > h.n {
			break
		}
		if sc.deliver(h.exports[nx-1], skip, nx, "next") != 0 {
			o := obsOf(sc.replica)
			if sc.c.ext && o.pid > o.cid {
				sc.allow(o.pid) // the precommit buffer may be full
				continue
			}
			break
		}
	}
	if sc.c.ext && !sc.diverged && !sc.lost {
		sc.allow(obsOf(sc.replica).pid)
	}
	if !sc.diverged && !sc.lost && sc.c.defaultLimits() {
		if o := obsOf(sc.replica); o.cid != h.n {
			sc.find(fmt.Sprintf("replica fed with every unaltered export in order ended at committed id %d, primary has %d", o.cid, h.n))
		}
	}
	return nil
}

// forge: for every transaction, re-created exports (all checksums recomputed) are offered to a
// replica that holds exactly the primary's transactions below it
func (sc *storeCase) forge(skip bool) error {
	h := sc.h
	for id := uint64(1); id <= h.n; id++ {
		l := parseLayout(h.exports[id-1])
		rootAt := func(n uint64) ([sha256.Size]byte, bool) {
			if n == 0 || n >= id {
				return [sha256.Size]byte{}, false
			}
			// BlRoot of transaction n+1 is the root over the first n Alh values when BlTxID = n
			if h.hdrs[n].BlTxID == n {
				return h.hdrs[n].BlRoot, true
			}
			return [sha256.Size]byte{}, false
		}
		fs := forgeries(sc.rng, l, rootAt)
		sc.rng.Shuffle(len(fs), func(i, j int) { fs[i], fs[j] = fs[j], fs[i] })
		if len(fs) > 5 {
			fs = fs[:5]
		}
		for _, f := range fs {
			if !sc.c.ext && id < h.n && acceptedFamily(f.name, skip) {
				continue // would be committed for good by an asynchronous replica: last transaction only
			}
			if sc.deliver(f.bytes, skip, 0, f.name) == 0 {
				// accepted: get rid of it again when the store allows that, otherwise the replica is lost
				o := obsOf(sc.replica)
				if sc.c.ext && o.cid < id {
					sc.discard(id)
				}
				if sc.diverged {
					return nil
				}
			}
		}
		cls := sc.deliver(h.exports[id-1], skip, id, "next")
		if o := obsOf(sc.replica); cls != 0 && sc.c.ext && o.pid > o.cid {
			// the precommit buffer (MaxActiveTransactions) may be full: commit the backlog, retry
			sc.allow(o.pid)
			cls = sc.deliver(h.exports[id-1], skip, id, "next")
		}
		if cls != 0 {
			if sc.c.defaultLimits() {
				sc.find(fmt.Sprintf("replica holding the primary's transactions 1..%d rejected the unaltered export of tx %d", id-1, id))
			}
			return nil
		}
		if sc.c.ext && sc.rng.Intn(2) == 0 {
			sc.allow(id)
		}
	}
	if sc.c.ext {
		sc.allow(h.n)
	}
	return nil
}

// acceptedFamily: forgeries the code is known to accept (see known_findings/C07.json)
func acceptedFamily(name string, skip bool) bool {
	switch name {
	case "forge:Ts", "forge:BlTxID+BlRoot", "forge:Metadata", "forge:Version", "forge:Eh+entries", "forge:Eh+key":
		return true
	case "forge:entries-only":
		return skip
	}
	return false
}

func minU(a, b uint64) uint64 {
	if a < b {
		return a
	}
	return b
}

// runCase: every fifth case is a database-level sync case, every tenth a synced-store case
func runCase(r *vk.Run, i int) error {
	switch {
	case i%5 == 4:
		return runSyncCase(r, i)
	case i%10 == 7:
		return runSyncedCase(r, i)
	}
	return runStoreCase(r, i)
}

// Gen: n is the number of cases (schedules); a fifth of them are database-level sync cases
func Gen(r *vk.Run, n int) error {
	useTmpfs()
	genN = n
	if err := runProbe(r); err != nil {
		return err
	}
	t0 := time.Now()
	for i := 0; i < n; i++ {
		var err error
		err = runCase(r, i)
		if err != nil {
			return fmt.Errorf("case %d: %w", i, err)
		}
		if os.Getenv("C07_TIMING") != "" {
			fmt.Fprintf(os.Stderr, "case %d done at %v\n", i, time.Since(t0))
		}
	}
	return nil
}

// Replay regenerates the run the case came from (every choice derives from the seed) and keeps
// the case with the recorded index only.
func Replay(r *vk.Run, c map[string]any) error {
	useTmpfs()
	seed, ok1 := c["seed"].(float64)
	n, ok2 := c["n"].(float64)
	idx, ok3 := c["idx"].(float64)
	if !ok1 || !ok2 || !ok3 {
		return fmt.Errorf("replay file lacks seed/n/idx")
	}
	tmp, err := os.MkdirTemp("", "vh-c07-replay")
	if err != nil {
		return err
	}
	defer os.RemoveAll(tmp)
	rr, err := vk.NewRun(tmp, int64(seed), r.Tie)
	if err != nil {
		return err
	}
	genN = int(n)
	if err := runProbe(rr); err != nil {
		return err
	}
	for i := 0; i <= int(idx); i++ {
		if i == int(idx) {
			// same generator state, recorded into the real run
			r.Rng = rr.Rng
			return runCase(r, i)
		}
		if err = runCase(rr, i); err != nil {
			return err
		}
	}
	return nil
}
