package c07

import (
	"crypto/sha256"
	"encoding/binary"
	"math/rand"

	"github.com/codenotary/immudb/embedded/htree"
	"github.com/codenotary/immudb/embedded/store"
	"verif/harness/vk"
)

// field of an exported transaction: [lo, hi) byte range
type field struct {
	name   string
	lo, hi int
}

// xent is one entry of an export as laid out on the wire
type xent struct {
	key, md, val []byte
}

// layout of a genuine export (produced by ExportTx, hence well formed)
type layout struct {
	fields  []field
	hdr     *store.TxHeader
	hdrLo   int
	hdrHi   int
	ents    []xent
	trunc   bool
	entsLo  int
	trailLo int
}

func parseLayout(e []byte) *layout {
	l := &layout{}
	add := func(name string, lo, n int) int {
		l.fields = append(l.fields, field{name, lo, lo + n})
		return lo + n
	}
	i := add("hdrLen", 0, 4)
	hdrLen := int(binary.BigEndian.Uint32(e))
	l.hdrLo, l.hdrHi = 4, 4+hdrLen
	l.hdr = &store.TxHeader{}
	if err := l.hdr.ReadFrom(e[4 : 4+hdrLen]); err != nil {
		panic("harness: genuine export does not parse: " + err.Error())
	}
	i = add("ID", i, 8)
	i = add("PrevAlh", i, 32)
	i = add("Ts", i, 8)
	i = add("Version", i, 2)
	if l.hdr.Version == 0 {
		i = add("NEntries", i, 2)
	} else {
		mdLen := int(binary.BigEndian.Uint16(e[i:]))
		i = add("TxMdLen", i, 2)
		if mdLen > 0 {
			i = add("TxMd", i, mdLen)
		}
		i = add("NEntries", i, 4)
	}
	i = add("Eh", i, 32)
	i = add("BlTxID", i, 8)
	i = add("BlRoot", i, 32)
	l.entsLo = i
	for k := 0; k < l.hdr.NEntries; k++ {
		kLen := int(binary.BigEndian.Uint16(e[i:]))
		i = add("kLen", i, 2)
		key := e[i : i+kLen]
		i = add("key", i, kLen)
		mdLen := int(binary.BigEndian.Uint16(e[i:]))
		i = add("kvMdLen", i, 2)
		md := e[i : i+mdLen]
		if mdLen > 0 {
			i = add("kvMd", i, mdLen)
		}
		vLen := int(binary.BigEndian.Uint32(e[i:]))
		i = add("vLen", i, 4)
		val := e[i : i+vLen]
		if vLen > 0 {
			i = add("val", i, vLen)
		}
		l.ents = append(l.ents, xent{vk.Clone(key), vk.Clone(md), vk.Clone(val)})
	}
	l.trailLo = i
	if i+3 <= len(e) { // the trailer is optional for ReplicateTx (an altered export may lack it)
		i = add("tLen", i, 2)
		l.trunc = e[i] == 1
		add("truncFlag", i, 1)
	}
	return l
}

// assemble builds an export from a header and wire entries
func assemble(h *store.TxHeader, ents []xent, trunc bool) []byte {
	hb, err := h.Bytes()
	if err != nil {
		return nil
	}
	var b []byte
	var u4 [4]byte
	var u2 [2]byte
	binary.BigEndian.PutUint32(u4[:], uint32(len(hb)))
	b = append(b, u4[:]...)
	b = append(b, hb...)
	for _, e := range ents {
		binary.BigEndian.PutUint16(u2[:], uint16(len(e.key)))
		b = append(b, u2[:]...)
		b = append(b, e.key...)
		binary.BigEndian.PutUint16(u2[:], uint16(len(e.md)))
		b = append(b, u2[:]...)
		b = append(b, e.md...)
		binary.BigEndian.PutUint32(u4[:], uint32(len(e.val)))
		b = append(b, u4[:]...)
		b = append(b, e.val...)
	}
	b = append(b, 0, 1)
	if trunc {
		b = append(b, 1)
	} else {
		b = append(b, 0)
	}
	return b
}

// ehOf recomputes the entries hash the way Tx.BuildHashTree does (what a forger can do as well)
func ehOf(version int, ents []xent, trunc bool) ([sha256.Size]byte, bool) {
	digests := make([][sha256.Size]byte, len(ents))
	for i, e := range ents {
		var hval [sha256.Size]byte
		if trunc {
			copy(hval[:], e.val)
		} else {
			hval = sha256.Sum256(e.val)
		}
		var b []byte
		if version == 0 {
			if len(e.md) > 0 {
				return [sha256.Size]byte{}, false
			}
			b = append(append(b, e.key...), hval[:]...)
		} else {
			var u2 [2]byte
			binary.BigEndian.PutUint16(u2[:], uint16(len(e.md)))
			b = append(b, u2[:]...)
			b = append(b, e.md...)
			binary.BigEndian.PutUint16(u2[:], uint16(len(e.key)))
			b = append(b, u2[:]...)
			b = append(b, e.key...)
			b = append(b, hval[:]...)
		}
		digests[i] = sha256.Sum256(b)
	}
	t, err := htree.New(len(ents) + 1)
	if err != nil {
		return [sha256.Size]byte{}, false
	}
	if err := t.BuildWith(digests); err != nil {
		return [sha256.Size]byte{}, false
	}
	return t.Root(), true
}

type alteration struct {
	name  string // which field / how
	bytes []byte
}

// boundaryAlterations: one-bit flips at the first and last byte of every field, truncations at
// field starts, a trailing byte, and the truncated flag
func boundaryAlterations(rng *rand.Rand, e []byte, l *layout, budget int) []alteration {
	var out []alteration
	for _, f := range l.fields {
		c := vk.Clone(e)
		c[f.lo] ^= 1 << uint(rng.Intn(8))
		out = append(out, alteration{"flip-first:" + f.name, c})
		if f.hi-f.lo > 1 {
			c = vk.Clone(e)
			c[f.hi-1] ^= 1
			out = append(out, alteration{"flip-last:" + f.name, c})
			c = vk.Clone(e)
			c[f.hi-1]++
			out = append(out, alteration{"inc-last:" + f.name, c})
		}
		if f.lo > 0 {
			out = append(out, alteration{"cut-at:" + f.name, vk.Clone(e[:f.lo])})
		}
	}
	out = append(out, alteration{"append-byte", append(vk.Clone(e), byte(rng.Intn(256)))})
	out = append(out, alteration{"drop-trailer", vk.Clone(e[:l.trailLo])})
	if len(out) > budget {
		rng.Shuffle(len(out), func(i, j int) { out[i], out[j] = out[j], out[i] })
		// the Ts flips are the ones the code is known to accept: always keep one
		var keep []alteration
		for _, a := range out {
			if a.name == "flip-last:Ts" {
				keep = append(keep, a)
			}
		}
		out = append(keep, out[:budget]...)
	}
	return out
}

// forgeries: exports re-created around altered content with every self-contained checksum
// recomputed (what somebody on the wire, or a faulty primary, can produce)
func forgeries(rng *rand.Rand, l *layout, rootAt func(n uint64) ([sha256.Size]byte, bool)) []alteration {
	var out []alteration
	cp := func() *store.TxHeader { h := *l.hdr; return &h }
	// Ts
	h := cp()
	h.Ts += int64(1 + rng.Intn(1000))
	out = append(out, alteration{"forge:Ts", assemble(h, l.ents, l.trunc)})
	// BlTxID/BlRoot moved back to another genuine (size, root) pair of the replica's own tree
	if l.hdr.BlTxID > 0 {
		h = cp()
		h.BlTxID = uint64(rng.Int63n(int64(l.hdr.BlTxID)))
		h.BlRoot = [sha256.Size]byte{}
		ok := true
		if h.BlTxID > 0 {
			h.BlRoot, ok = rootAt(h.BlTxID)
		}
		if ok {
			out = append(out, alteration{"forge:BlTxID+BlRoot", assemble(h, l.ents, l.trunc)})
		}
		// BlTxID alone
		h = cp()
		h.BlTxID = uint64(rng.Int63n(int64(l.hdr.BlTxID)))
		out = append(out, alteration{"forge:BlTxID-only", assemble(h, l.ents, l.trunc)})
	}
	// transaction metadata added / changed / removed (version 1 only)
	if l.hdr.Version == 1 {
		h = cp()
		md := store.NewTxMetadata()
		if l.hdr.Metadata == nil || l.hdr.Metadata.Extra() == nil {
			md.WithExtra(vk.RandBytes(rng, 1+rng.Intn(8)))
			if l.hdr.Metadata != nil && l.hdr.Metadata.HasTruncatedTxID() {
				t, _ := l.hdr.Metadata.GetTruncatedTxID()
				md.WithTruncatedTxID(t)
			}
			h.Metadata = md
		} else {
			h.Metadata = nil
		}
		out = append(out, alteration{"forge:Metadata", assemble(h, l.ents, l.trunc)})
	}
	// header version switched, entries hash recomputed for the other digest function
	{
		h = cp()
		h.Version = 1 - l.hdr.Version
		h.Metadata = nil
		if eh, ok := ehOf(h.Version, l.ents, l.trunc); ok && (h.Version == 1 || l.hdr.Metadata == nil) {
			h.Eh = eh
			out = append(out, alteration{"forge:Version", assemble(h, l.ents, l.trunc)})
		}
	}
	// a value (or carried digest) altered, Eh recomputed
	{
		ents := make([]xent, len(l.ents))
		copy(ents, l.ents)
		k := rng.Intn(len(ents))
		v := vk.Clone(ents[k].val)
		if len(v) == 0 {
			v = []byte{byte(rng.Intn(256))}
		} else {
			v[rng.Intn(len(v))] ^= 0x40
		}
		ents[k].val = v
		h = cp()
		if eh, ok := ehOf(h.Version, ents, l.trunc); ok {
			h.Eh = eh
			out = append(out, alteration{"forge:Eh+entries", assemble(h, ents, l.trunc)})
		}
		// same alteration with the genuine Eh left in place (only passes when the integrity check is skipped)
		out = append(out, alteration{"forge:entries-only", assemble(cp(), ents, l.trunc)})
	}
	// a key altered, Eh recomputed
	{
		ents := make([]xent, len(l.ents))
		copy(ents, l.ents)
		k := rng.Intn(len(ents))
		key := vk.Clone(ents[k].key)
		key[rng.Intn(len(key))] ^= 0x01
		ents[k].key = key
		h = cp()
		if eh, ok := ehOf(h.Version, ents, l.trunc); ok {
			h.Eh = eh
			out = append(out, alteration{"forge:Eh+key", assemble(h, ents, l.trunc)})
		}
	}
	// ID and PrevAlh: a re-created header that claims another position / predecessor
	h = cp()
	h.ID++
	out = append(out, alteration{"forge:ID+1", assemble(h, l.ents, l.trunc)})
	h = cp()
	h.PrevAlh[rng.Intn(32)] ^= 0x10
	out = append(out, alteration{"forge:PrevAlh", assemble(h, l.ents, l.trunc)})
	h = cp()
	h.BlRoot[rng.Intn(32)] ^= 0x10
	out = append(out, alteration{"forge:BlRoot", assemble(h, l.ents, l.trunc)})
	var res []alteration
	for _, a := range out {
		if a.bytes != nil {
			res = append(res, a)
		}
	}
	return res
}
