package c07

import (
	"context"
	"crypto/sha256"
	"fmt"
	"math/rand"
	"os"

	"github.com/codenotary/immudb/embedded/store"
)

// probeStale: on a store with external commit allowance, precommit the primary's tx 1 and tx 2,
// discard both, precommit tx 1 again. Reports whether the header written the second time carries
// a non-zero BlRoot although BlTxID = 0 (the pooled tx holder still has the BlRoot of tx 2), i.e.
// whether performPrecommit leaves BlRoot untouched when blTxID == 0.
func probeStale() (stale bool, detail string, err error) {
	rng := rand.New(rand.NewSource(7))
	h, err := buildHistory(rng, histSpec{ntx: 2, version: 1})
	if err != nil {
		return false, "", err
	}
	defer h.close()
	dir, err := os.MkdirTemp("", "vh-c07-probe")
	if err != nil {
		return false, "", err
	}
	defer os.RemoveAll(dir)
	c := cfg{ext: true, maxActive: 1000, maxKeyLen: stdKeyLen, maxValueLen: 4096, maxTxEntries: stdTxEntries}
	st, err := store.Open(dir, c.opts())
	if err != nil {
		return false, "", err
	}
	defer st.Close()
	ctx := context.Background()
	for _, id := range []int{1, 2} {
		if _, err := st.ReplicateTx(ctx, h.exports[id-1], false, false); err != nil {
			return false, "", fmt.Errorf("probe: tx %d: %w", id, err)
		}
	}
	if _, err := st.DiscardPrecommittedTxsSince(1); err != nil {
		return false, "", fmt.Errorf("probe: discard: %w", err)
	}
	hdr, err := st.ReplicateTx(ctx, h.exports[0], false, false)
	if err != nil {
		return false, "", fmt.Errorf("probe: tx 1 again: %w", err)
	}
	want := h.hdrs[0].Alh()
	if hdr.BlTxID == 0 && hdr.BlRoot != [sha256.Size]byte{} {
		return true, fmt.Sprintf("schedule: ReplicateTx(tx1), ReplicateTx(tx2), DiscardPrecommittedTxsSince(1), ReplicateTx(tx1) on a store with external commit allowance: second header of tx 1 has BlTxID=0, BlRoot=%x (that of tx 2), Alh %x, primary's Alh %x", hdr.BlRoot, hdr.Alh(), want), nil
	}
	if hdr.Alh() != want {
		return false, "", fmt.Errorf("probe: Alh differs for another reason")
	}
	return false, "", nil
}
