package main

import (
	"context"
	"fmt"
	"os"

	"github.com/codenotary/immudb/embedded/logger"
	"github.com/codenotary/immudb/embedded/store"
)

func main() {
	pd, _ := os.MkdirTemp("", "x")
	rd, _ := os.MkdirTemp("", "y")
	defer os.RemoveAll(pd)
	defer os.RemoveAll(rd)
	log := logger.NewSimpleLoggerWithLevel("vh", os.Stderr, logger.LogInfo)
	p, _ := store.Open(pd, store.DefaultOptions().WithSynced(false))
	for i := 0; i < 2; i++ {
		tx, _ := p.NewWriteOnlyTx(context.Background())
		if os.Args[1] == "md" {
			md := store.NewTxMetadata()
			md.WithTruncatedTxID(1)
			tx.WithMetadata(md)
		}
		tx.Set([]byte("k"), nil, []byte("v"))
		_, err := tx.Commit(context.Background())
		fmt.Println("commit", err)
	}
	ro := store.DefaultOptions().WithSynced(false).WithExternalCommitAllowance(true).WithLogger(log)
	if len(os.Args) > 2 {
		ro = ro.WithEmbeddedValues(true)
	}
	r, _ := store.Open(rd, ro)
	for id := uint64(1); id <= 2; id++ {
		e, _ := p.ExportTx(id, false, false, store.NewTx(p.MaxTxEntries(), p.MaxKeyLen()))
		_, err := r.ReplicateTx(context.Background(), e, false, false)
		fmt.Println("repl", err)
	}
	fmt.Println(r.PrecommittedAlh())
	fmt.Println(r.Close())
	r, err := store.Open(rd, ro)
	fmt.Println(err)
	fmt.Println(r.PrecommittedAlh())
}
