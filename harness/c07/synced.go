package c07

import (
	"context"
	"crypto/sha256"
	"fmt"
	"os"
	"strings"
	"time"

	"github.com/codenotary/immudb/embedded/store"
	"verif/harness/vk"
)

// Synced replica store (Options.Synced = true, sync frequency of hours so that the background
// syncer never runs within a case, external commit allowance): committed <= durably precommitted <=
// precommitted in memory are three different frontiers, moved apart by the schedule: ReplicateTx
// precommits in memory (and returns when its context expires: it waits for durability), Sync() makes
// the precommitted transactions durable and commits the allowed ones, AllowCommitUpto takes effect
// at the next Sync. Direct statement checked after every step: what PrecommittedAlh() reports -- it
// is what CurrentState reports, what the replicator sends as ReplicaState and what the primary counts
// as an acknowledgement -- is the last transaction an explicit Sync() made durable, with the
// primary's Alh.

type yobs struct {
	cid  uint64
	calh [sha256.Size]byte
	did  uint64
	dalh [sha256.Size]byte
	mid  uint64
}

func yobsOf(s *store.ImmuStore) yobs {
	var o yobs
	o.cid, o.calh = s.CommittedAlh()
	o.did, o.dalh = s.PrecommittedAlh()
	o.mid = s.LastPrecommittedTxID()
	return o
}

func (o yobs) term(in *interner) string {
	return fmt.Sprintf("(YObs %d %s %d %s %d)", o.cid, in.ref(o.calh[:]), o.did, in.ref(o.dalh[:]), o.mid)
}

func (o yobs) js() map[string]any {
	return map[string]any{"cid": o.cid, "calh": fmt.Sprintf("%x", o.calh), "did": o.did, "dalh": fmt.Sprintf("%x", o.dalh), "mid": o.mid}
}

func runSyncedCase(r *vk.Run, idx int) error {
	rng := r.Rng
	h, err := buildHistory(rng, histSpec{ntx: 4 + rng.Intn(5), version: rng.Intn(2)})
	if err != nil {
		return err
	}
	defer h.close()
	c := cfg{ext: true, maxActive: 1000, maxKeyLen: stdKeyLen, maxValueLen: 4096, maxTxEntries: stdTxEntries, embedded: rng.Intn(3) == 0}
	dir, err := os.MkdirTemp("", "vh-c07-y")
	if err != nil {
		return err
	}
	defer os.RemoveAll(dir)
	st, err := store.Open(dir, c.opts().WithSynced(true).WithSyncFrequency(4*time.Hour))
	if err != nil {
		return err
	}
	defer st.Close()

	in := &interner{}
	for _, e := range h.exports {
		in.ref(e)
	}
	var terms []string
	var js []map[string]any
	var trace []string
	durable := uint64(0) // last transaction an explicit Sync() made durable
	zeroAlh := sha256.Sum256(nil)

	check := func(o yobs) {
		want := zeroAlh
		if durable > 0 {
			want = h.hdrs[durable-1].Alh()
		}
		if o.did != durable || o.dalh != want {
			t := trace
			if len(t) > 16 {
				t = t[len(t)-16:]
			}
			r.Finding(fmt.Sprintf("PrecommittedAlh reports tx %d (Alh %x) as the durably precommitted transaction; the last transaction made durable by Sync() is %d (Alh %x), in memory %d, committed %d; schedule: %s [seed %d case %d: synced store, external commit allowance, embedded=%v]",
				o.did, o.dalh[:6], durable, want[:6], o.mid, o.cid, strings.Join(t, ", "), r.Seed, idx, c.embedded))
		}
		if o.cid > o.did || o.did > o.mid {
			r.Finding(fmt.Sprintf("frontiers out of order: committed %d, durable %d, in memory %d [seed %d case %d]", o.cid, o.did, o.mid, r.Seed, idx))
		}
	}
	add := func(term string, j map[string]any, tr string, o yobs) {
		j["after"] = o.js()
		terms = append(terms, term)
		js = append(js, j)
		trace = append(trace, tr)
		check(o)
	}

	for it := 0; it < 40; it++ {
		o := yobsOf(st)
		if o.cid == h.n {
			break
		}
		p := rng.Intn(100)
		switch {
		case p < 45 && o.mid < h.n:
			b := vk.Exact(h.exports[o.mid])
			ctx, cancel := context.WithTimeout(context.Background(), 80*time.Millisecond)
			cls, err := call(func() error {
				_, e := st.ReplicateTx(ctx, b, false, false)
				return e
			})
			cancel()
			a := yobsOf(st)
			if cls == 2 {
				r.Finding(fmt.Sprintf("ReplicateTx panicked on a synced store: %v", err))
			}
			if a.mid != o.mid+1 {
				r.Finding(fmt.Sprintf("synced store did not precommit the unaltered export of tx %d (err %v) [seed %d case %d]", o.mid+1, err, r.Seed, idx))
			}
			add(fmt.Sprintf("YsDeliver false %s %s", in.ref(b), a.term(in)), map[string]any{"op": "deliver", "id": o.mid + 1, "err": errStr(err)}, fmt.Sprintf("deliver(%d)", o.mid+1), a)
			r.Stats["ystep:deliver"]++
		case p < 65:
			err := st.Sync()
			durable = o.mid
			a := yobsOf(st)
			add(fmt.Sprintf("YsSync %s", a.term(in)), map[string]any{"op": "sync", "err": errStr(err)}, "Sync()", a)
			r.Stats["ystep:sync"]++
		case p < 85:
			t := uint64(rng.Intn(int(o.mid + 2)))
			cls, err := call(func() error { return st.AllowCommitUpto(t) })
			a := yobsOf(st)
			add(fmt.Sprintf("YsAllow %d %s %s", t, vk.Bool(cls == 0), a.term(in)), map[string]any{"op": "allow", "t": t, "err": errStr(err)}, fmt.Sprintf("allow(%d)", t), a)
			r.Stats["ystep:allow"]++
		default:
			t := uint64(rng.Intn(int(o.mid + 2)))
			var n int
			cls, err := call(func() error {
				var e error
				n, e = st.DiscardPrecommittedTxsSince(t)
				return e
			})
			out := "Panic"
			if cls == 0 {
				out = fmt.Sprintf("(Ok %d)", n)
				if n > 0 && t-1 < durable {
					durable = t - 1
				}
			} else if cls == 1 {
				out = "(Err 0)"
			}
			a := yobsOf(st)
			add(fmt.Sprintf("YsDiscard %d %s %s", t, out, a.term(in)), map[string]any{"op": "discard", "t": t, "n": n, "err": errStr(err)}, fmt.Sprintf("discard(%d)", t), a)
			r.Stats["ystep:discard"]++
		}
	}
	r.Case(in.wrap(fmt.Sprintf("CSynced %s %s", c.term(), vk.List(terms))),
		map[string]any{"kind": "synced", "cfg": c.term(), "history": h.desc, "steps": js, "seed": r.Seed, "n": genN},
		"synced-store", len(terms) >= 4)
	return nil
}
