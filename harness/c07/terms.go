package c07

import (
	"bytes"
	"fmt"
	"strings"
)

// Byte strings are written as lists of 63-bit integer literals (7 bytes each): Coq elaborates a
// primitive integer literal as one node, whereas a hex string costs ~20 nodes per byte.
func ibTerm(b []byte) string {
	var sb strings.Builder
	fmt.Fprintf(&sb, "(ib %d [", len(b))
	for i := 0; i < len(b); i += 7 {
		var w uint64
		for k := 0; k < 7; k++ {
			w <<= 8
			if i+k < len(b) {
				w |= uint64(b[i+k])
			}
		}
		if i > 0 {
			sb.WriteString("; ")
		}
		fmt.Fprintf(&sb, "0x%x", w)
	}
	sb.WriteString("]%uint63)")
	return sb.String()
}

// interner shares byte strings inside one case term: every distinct string is let-bound once,
// strings that differ from a bound one in a few places are written as patches of it
type interner struct {
	names []string
	vals  [][]byte
	defs  []string
}

func (in *interner) ref(b []byte) string {
	for i, v := range in.vals {
		if bytes.Equal(v, b) {
			return in.names[i]
		}
	}
	if len(b) >= 64 {
		best, bestCost := "", len(b)/2
		for i, v := range in.vals {
			if len(v) == len(b) {
				if t, cost := patchTerm(in.names[i], v, b); cost < bestCost {
					best, bestCost = t, cost
				}
			} else if len(v) > len(b) && bytes.Equal(v[:len(b)], b) {
				return fmt.Sprintf("(take %d %s)", len(b), in.names[i])
			} else if len(b) == len(v)+1 && bytes.Equal(b[:len(v)], v) {
				return fmt.Sprintf("(app %s [%d])", in.names[i], b[len(v)])
			}
		}
		if best != "" {
			return best
		}
	}
	name := fmt.Sprintf("b%d", len(in.names))
	in.names = append(in.names, name)
	in.vals = append(in.vals, append([]byte{}, b...))
	in.defs = append(in.defs, fmt.Sprintf("let %s := %s in ", name, ibTerm(b)))
	return name
}

// patchTerm expresses b as base with some byte ranges replaced; cost = replaced bytes + 8 per range
func patchTerm(name string, base, b []byte) (string, int) {
	t := name
	cost := 0
	i := 0
	for i < len(b) {
		if base[i] == b[i] {
			i++
			continue
		}
		j := i
		last := i
		for j < len(b) && j-last < 8 {
			if base[j] != b[j] {
				last = j
			}
			j++
		}
		t = fmt.Sprintf("(patch %s %d %s)", t, i, ibTerm(b[i:last+1]))
		cost += last + 1 - i + 8
		i = last + 1
	}
	return t, cost
}

func (in *interner) wrap(term string) string {
	return "(" + strings.Join(in.defs, "") + term + ")"
}
