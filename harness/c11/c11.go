package c11

import (
	"fmt"

	"verif/harness/vk"
)

// Gen: n modelled data sets (each one correspondence case holding 10-25 SELECT runs, executed in
// three engine states) and n/2 general data sets (twin queries only, no model).
func Gen(r *vk.Run, n int) error {
	if err := genDirected(r); err != nil {
		return err
	}
	for ds := 0; ds < n; ds++ {
		if err := genModelled(r, ds); err != nil {
			return fmt.Errorf("modelled data set %d: %w", ds, err)
		}
		if ds%2 == 0 {
			if err := genGeneral(r, ds); err != nil {
				return fmt.Errorf("general data set %d: %w", ds, err)
			}
		}
	}
	return nil
}

func Replay(r *vk.Run, c map[string]any) error {
	if c["kind"] == "scan" || c["kind"] == "tx" {
		return replayModelled(r, c)
	}
	return fmt.Errorf("unknown case kind %v", c["kind"])
}
