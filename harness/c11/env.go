// Package c11: twin-query differential harness and model correspondence for property C11
// (SQL query results do not depend on the physical plan).
package c11

import (
	"context"
	"encoding/hex"
	"fmt"
	"io"
	"os"
	"sort"
	"strconv"
	"strings"
	"time"

	"github.com/codenotary/immudb/embedded/logger"
	"github.com/codenotary/immudb/embedded/sql"
	"github.com/codenotary/immudb/embedded/store"
)

var sqlPrefix = []byte("sql")

// env: one real store + one real SQL engine in a temp directory; can be closed and reopened.
type env struct {
	dir string
	st  *store.ImmuStore
	e   *sql.Engine
	ctx context.Context
}

func newEnv() (*env, error) {
	dir, err := os.MkdirTemp(tempBase(), "vh-c11-")
	if err != nil {
		return nil, err
	}
	v := &env{dir: dir, ctx: context.Background()}
	if err := v.open(); err != nil {
		os.RemoveAll(dir)
		return nil, err
	}
	return v, nil
}

// a RAM-backed temp dir when there is one (every data set opens, closes and reopens a store,
// each doing a dozen directory fsyncs); "" = the default os.TempDir()
func tempBase() string {
	if os.Getenv("TMPDIR") == "" {
		if fi, err := os.Stat("/dev/shm"); err == nil && fi.IsDir() {
			if d, err := os.MkdirTemp("/dev/shm", "vh-c11-probe"); err == nil {
				os.RemoveAll(d)
				return "/dev/shm"
			}
		}
	}
	return ""
}

func (v *env) open() error {
	st, err := store.Open(v.dir, storeOpts())
	if err != nil {
		return err
	}
	e, err := sql.NewEngine(st, sql.DefaultOptions().WithPrefix(sqlPrefix))
	if err != nil {
		st.Close()
		return err
	}
	v.st, v.e = st, e
	return nil
}

// small buffers and caches: a data set is a few dozen rows, and every data set opens (and
// reopens) its own store
func storeOpts() *store.Options {
	return store.DefaultOptions().WithMultiIndexing(true).WithSynced(false).
		WithLogger(logger.NewSimpleLoggerWithLevel("vh", io.Discard, logger.LogError)).
		WithMaxConcurrency(4).WithMaxActiveTransactions(16).WithMaxTxEntries(256).
		WithWriteBufferSize(1 << 16).WithTxLogCacheSize(16).
		WithAHTOptions(store.DefaultAHTOptions().WithWriteBufferSize(1 << 14).WithSyncThld(1024)).
		WithIndexOptions(store.DefaultIndexOptions().WithCacheSize(512).WithFlushBufferSize(1 << 16).
			WithMaxActiveSnapshots(16).WithMaxGlobalBufferedDataSize(1 << 22).WithMaxBufferedDataSize(1 << 20))
}

func (v *env) reopen() error {
	if err := v.st.Close(); err != nil {
		return err
	}
	return v.open()
}

func (v *env) close() {
	if v.st != nil {
		v.st.Close()
	}
	os.RemoveAll(v.dir)
}

// exec runs one statement (or a ';' separated batch) inside tx (nil: autocommit) and returns the
// transaction that is open afterwards (as a session does: `tx, _, err = Exec(ctx, tx, stmt)`).
func (v *env) exec(tx *sql.SQLTx, stmt string) (*sql.SQLTx, error) {
	ntx, _, err := v.e.Exec(v.ctx, tx, stmt, nil)
	return ntx, err
}

// result of one SELECT: column count and rows of raw values (nil, int64, float64, string, bool,
// time.Time, []byte ...) rendered canonically
type result struct {
	rows [][]any
	err  error
}

func (v *env) query(tx *sql.SQLTx, q string) (res result) {
	defer func() {
		if p := recover(); p != nil {
			res = result{err: fmt.Errorf("PANIC: %v", p)}
		}
	}()
	rd, err := v.e.Query(v.ctx, tx, q, nil)
	if err != nil {
		return result{err: err}
	}
	defer rd.Close()
	rows, err := sql.ReadAllRows(v.ctx, rd)
	if err != nil {
		return result{err: err}
	}
	out := make([][]any, 0, len(rows))
	for _, row := range rows {
		vs := make([]any, len(row.ValuesByPosition))
		for i, tv := range row.ValuesByPosition {
			if tv == nil || tv.IsNull() {
				vs[i] = nil
			} else {
				vs[i] = tv.RawValue()
			}
		}
		out = append(out, vs)
	}
	return result{rows: out}
}

// ---- canonical rendering and the SQL comparison (the oracle: NULL lowest, then by type) ----

func renderVal(x any) string {
	switch t := x.(type) {
	case nil:
		return "NULL"
	case int64:
		return "i" + strconv.FormatInt(t, 10)
	case float64:
		return "f" + strconv.FormatFloat(t, 'g', -1, 64)
	case string:
		return "s" + strconv.Quote(t)
	case bool:
		if t {
			return "bT"
		}
		return "bF"
	case time.Time:
		return "t" + strconv.FormatInt(t.UnixNano(), 10)
	case []byte:
		return "x" + hex.EncodeToString(t)
	default:
		return fmt.Sprintf("?%T:%v", x, x)
	}
}

func renderRow(r []any) string {
	p := make([]string, len(r))
	for i, x := range r {
		p[i] = renderVal(x)
	}
	return "(" + strings.Join(p, ",") + ")"
}

func renderRows(rs [][]any) []string {
	out := make([]string, len(rs))
	for i, r := range rs {
		out[i] = renderRow(r)
	}
	return out
}

func sortedCopy(xs []string) []string {
	c := append([]string{}, xs...)
	sort.Strings(c)
	return c
}

func sameSeq(a, b []string) bool {
	if len(a) != len(b) {
		return false
	}
	for i := range a {
		if a[i] != b[i] {
			return false
		}
	}
	return true
}

func sameMultiset(a, b []string) bool { return sameSeq(sortedCopy(a), sortedCopy(b)) }

// cmpVal: SQL comparison of two values of one column as the engine defines it for ORDER BY with
// default NULL placement (NULL lowest). ok=false when the values are of different kinds.
func cmpVal(x, y any) (int, bool) {
	if x == nil && y == nil {
		return 0, true
	}
	if x == nil {
		return -1, true
	}
	if y == nil {
		return 1, true
	}
	switch a := x.(type) {
	case int64:
		switch b := y.(type) {
		case int64:
			return cmpOrd(a < b, a > b), true
		case float64:
			return cmpOrd(float64(a) < b, float64(a) > b), true
		}
	case float64:
		switch b := y.(type) {
		case float64:
			return cmpOrd(a < b, a > b), true
		case int64:
			return cmpOrd(a < float64(b), a > float64(b)), true
		}
	case string:
		if b, ok := y.(string); ok {
			return strings.Compare(a, b), true
		}
	case bool:
		if b, ok := y.(bool); ok {
			return cmpOrd(!a && b, a && !b), true
		}
	case time.Time:
		if b, ok := y.(time.Time); ok {
			return cmpOrd(a.Before(b), a.After(b)), true
		}
	}
	return 0, false
}

func cmpOrd(lt, gt bool) int {
	if lt {
		return -1
	}
	if gt {
		return 1
	}
	return 0
}

// ordSpec: one ORDER BY item over result column position pos
type ordSpec struct {
	pos   int
	desc  bool
	nulls int // 0 default, 1 NULLS FIRST, 2 NULLS LAST
}

// cmpRows: the SQL comparison ORDER BY asks for (sort_reader semantics are the specification here:
// ASC => NULLs first, DESC => NULLs last unless NULLS FIRST/LAST says otherwise).
func cmpRows(os []ordSpec, r1, r2 []any) int {
	for _, o := range os {
		x, y := r1[o.pos], r2[o.pos]
		if x == nil && y == nil {
			continue
		}
		if x == nil || y == nil {
			nf := !o.desc
			if o.nulls == 1 {
				nf = true
			} else if o.nulls == 2 {
				nf = false
			}
			if (x == nil) == nf {
				return -1
			}
			return 1
		}
		c, _ := cmpVal(x, y)
		if c != 0 {
			if o.desc {
				return -c
			}
			return c
		}
	}
	return 0
}

func isSorted(os []ordSpec, rows [][]any) (bool, int) {
	for i := 0; i+1 < len(rows); i++ {
		if cmpRows(os, rows[i], rows[i+1]) > 0 {
			return false, i
		}
	}
	return true, -1
}

func clip(s string, n int) string {
	if len(s) <= n {
		return s
	}
	return s[:n] + "...(" + strconv.Itoa(len(s)) + " bytes)"
}

func errText(err error) string {
	if err == nil {
		return ""
	}
	return err.Error()
}
