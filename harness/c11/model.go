package c11

import (
	"fmt"
	"math"
	"math/rand"
	"os"
	"sort"
	"strconv"
	"strings"

	"github.com/codenotary/immudb/embedded/sql"
	"verif/harness/vk"
)

// ---------------------------------------------------------------- modelled fragment: values, rows
// table t(id INTEGER PK, a INTEGER NULL, b INTEGER NULL, s VARCHAR[8] NULL)

type mrow struct {
	id   int64
	a, b *int64
	s    *string
}

func ip(v int64) *int64   { return &v }
func sp(v string) *string { return &v }

func (r mrow) col(c string) *int64 {
	switch c {
	case "id":
		return ip(r.id)
	case "a":
		return r.a
	default:
		return r.b
	}
}

func coqSval(v *int64) string {
	if v == nil {
		return "NUL"
	}
	if *v < 0 {
		return fmt.Sprintf("(I (%d))", *v)
	}
	return fmt.Sprintf("(I %d)", *v)
}

var strDict = []string{"", "x", "yy", "zz9", "Q", "abcdefgh"} // = Tie.C11.str_dict

func (r mrow) coq() string {
	s := "None"
	if r.s != nil {
		s = "(Some " + vk.Hex([]byte(*r.s)) + ")"
		for i, d := range strDict {
			if d == *r.s {
				s = fmt.Sprintf("(St %d)", i)
			}
		}
	}
	id := strconv.FormatInt(r.id, 10)
	if r.id < 0 {
		id = "(" + id + ")"
	}
	return fmt.Sprintf("(R %s %s %s %s)", id, coqSval(r.a), coqSval(r.b), s)
}

func sqlInt(v *int64) string {
	if v == nil {
		return "NULL"
	}
	return strconv.FormatInt(*v, 10)
}

func sqlStr(v *string) string {
	if v == nil {
		return "NULL"
	}
	return "'" + *v + "'"
}

func (r mrow) values() string {
	return fmt.Sprintf("(%d, %s, %s, %s)", r.id, sqlInt(r.a), sqlInt(r.b), sqlStr(r.s))
}

func (r mrow) render() string {
	x := []any{r.id, nil, nil, nil}
	if r.a != nil {
		x[1] = *r.a
	}
	if r.b != nil {
		x[2] = *r.b
	}
	if r.s != nil {
		x[3] = *r.s
	}
	return renderRow(x)
}

func coqCol(c string) string {
	switch c {
	case "id":
		return "CId"
	case "a":
		return "CA"
	default:
		return "CB"
	}
}

func coqCols(cs []string) string {
	p := make([]string, len(cs))
	for i, c := range cs {
		p[i] = coqCol(c)
	}
	return "[" + strings.Join(p, "; ") + "]"
}

// NULL lowest, NULL = NULL (the engine's TypedValue.Compare)
func cmpSval(x, y *int64) int {
	if x == nil && y == nil {
		return 0
	}
	if x == nil {
		return -1
	}
	if y == nil {
		return 1
	}
	return cmpOrd(*x < *y, *x > *y)
}

// ---------------------------------------------------------------- predicates
type pred struct {
	kind string // true cmp cmpr and or not in isunk
	col  string
	op   string // = <> < <= > >=
	v    *int64
	l, r *pred
	vs   []*int64
	neg  bool
}

var ops = []string{"=", "<>", "<", "<=", ">", ">="}
var coqOp = map[string]string{"=": "OEq", "<>": "ONe", "<": "OLt", "<=": "OLe", ">": "OGt", ">=": "OGe"}

func cmpSat(c int, op string) bool {
	switch op {
	case "=":
		return c == 0
	case "<>":
		return c != 0
	case "<":
		return c < 0
	case "<=":
		return c <= 0
	case ">":
		return c > 0
	default:
		return c >= 0
	}
}

func (p *pred) eval(r mrow) bool {
	switch p.kind {
	case "true":
		return true
	case "cmp":
		return cmpSat(cmpSval(r.col(p.col), p.v), p.op)
	case "cmpr":
		return cmpSat(cmpSval(p.v, r.col(p.col)), p.op)
	case "and":
		return p.l.eval(r) && p.r.eval(r)
	case "or":
		return p.l.eval(r) || p.r.eval(r)
	case "not":
		return !p.l.eval(r)
	case "in":
		found := false
		for _, v := range p.vs {
			if cmpSval(r.col(p.col), v) == 0 {
				found = true
			}
		}
		return found != p.neg
	default: // isunk: a boolean is never NULL in this fragment
		return p.neg
	}
}

func (p *pred) sql() string {
	switch p.kind {
	case "true":
		return "true"
	case "cmp":
		if p.v == nil && p.op == "=" {
			return p.col + " IS NULL"
		}
		if p.v == nil && p.op == "<>" {
			return p.col + " IS NOT NULL"
		}
		return fmt.Sprintf("%s %s %s", p.col, p.op, sqlInt(p.v))
	case "cmpr":
		return fmt.Sprintf("%s %s %s", sqlInt(p.v), p.op, p.col)
	case "and":
		return "(" + p.l.sql() + " AND " + p.r.sql() + ")"
	case "or":
		return "(" + p.l.sql() + " OR " + p.r.sql() + ")"
	case "not":
		return "(NOT (" + p.l.sql() + "))"
	case "in":
		xs := make([]string, len(p.vs))
		for i, v := range p.vs {
			xs[i] = sqlInt(v)
		}
		n := ""
		if p.neg {
			n = "NOT "
		}
		return fmt.Sprintf("%s %sIN (%s)", p.col, n, strings.Join(xs, ", "))
	default:
		if p.neg {
			return "((" + p.l.sql() + ") IS NOT NULL)"
		}
		return "((" + p.l.sql() + ") IS NULL)"
	}
}

func (p *pred) coq() string {
	switch p.kind {
	case "true":
		return "PTrue"
	case "cmp":
		return fmt.Sprintf("(PCmp %s %s %s)", coqCol(p.col), coqOp[p.op], coqSval(p.v))
	case "cmpr":
		return fmt.Sprintf("(PCmpR %s %s %s)", coqSval(p.v), coqOp[p.op], coqCol(p.col))
	case "and":
		return "(PAnd " + p.l.coq() + " " + p.r.coq() + ")"
	case "or":
		return "(POr " + p.l.coq() + " " + p.r.coq() + ")"
	case "not":
		return "(PNot " + p.l.coq() + ")"
	case "in":
		xs := make([]string, len(p.vs))
		for i, v := range p.vs {
			xs[i] = coqSval(v)
		}
		return fmt.Sprintf("(PIn %s %s [%s])", vk.Bool(p.neg), coqCol(p.col), strings.Join(xs, "; "))
	default:
		return fmt.Sprintf("(PIsUnk %s %s)", vk.Bool(p.neg), p.l.coq())
	}
}

// does the predicate (syntactically) give selectorRanges something to push down
func (p *pred) pushable() bool {
	switch p.kind {
	case "cmp":
		return p.op != "<>"
	case "in":
		return !p.neg && len(p.vs) > 0
	case "and":
		return p.l.pushable() || p.r.pushable()
	case "or":
		return p.l.pushable() && p.r.pushable()
	}
	return false
}

// ---------------------------------------------------------------- generators
var modelCols = []string{"id", "a", "b"}

func pick[T any](rng *rand.Rand, xs []T) T { return xs[rng.Intn(len(xs))] }

// constants: values present in the data and their neighbours, NULL, boundaries
func genConst(rng *rand.Rand, pool []int64) *int64 {
	switch x := rng.Intn(20); {
	case x < 3:
		return nil
	case x < 4:
		return ip(pick(rng, []int64{math.MaxInt64, -math.MaxInt64, math.MaxInt64 - 1, 0, -1, 1}))
	case x < 14 && len(pool) > 0:
		return ip(pick(rng, pool) + int64(rng.Intn(3)-1))
	default:
		return ip(int64(rng.Intn(12) - 4))
	}
}

func genPred(rng *rand.Rand, depth int, pool []int64) *pred {
	if depth <= 0 || rng.Intn(3) == 0 {
		switch x := rng.Intn(20); {
		case x < 13:
			return &pred{kind: "cmp", col: pick(rng, modelCols), op: pick(rng, ops), v: genConst(rng, pool)}
		case x < 15:
			return &pred{kind: "cmpr", col: pick(rng, modelCols), op: pick(rng, ops), v: genConst(rng, pool)}
		case x < 19:
			n := 1 + rng.Intn(3) // the grammar has no empty IN list
			vs := make([]*int64, n)
			for i := range vs {
				vs[i] = genConst(rng, pool)
			}
			return &pred{kind: "in", col: pick(rng, modelCols), neg: rng.Intn(4) == 0, vs: vs}
		default:
			return &pred{kind: "true"}
		}
	}
	switch x := rng.Intn(20); {
	case x < 9:
		return &pred{kind: "and", l: genPred(rng, depth-1, pool), r: genPred(rng, depth-1, pool)}
	case x < 15:
		return &pred{kind: "or", l: genPred(rng, depth-1, pool), r: genPred(rng, depth-1, pool)}
	case x < 18:
		return &pred{kind: "not", l: genPred(rng, depth-1, pool)}
	default:
		return &pred{kind: "isunk", neg: rng.Intn(2) == 0, l: genPred(rng, depth-1, pool)}
	}
}

// an equivalent predicate that selectorRanges cannot turn into ranges
func unpushable(rng *rand.Rand, p *pred) *pred {
	switch rng.Intn(3) {
	case 0:
		return &pred{kind: "not", l: &pred{kind: "not", l: p}}
	case 1:
		return &pred{kind: "or", l: p, r: &pred{kind: "isunk", neg: false, l: &pred{kind: "true"}}}
	default:
		if p.kind == "cmp" {
			flip := map[string]string{"=": "=", "<>": "<>", "<": ">", "<=": ">=", ">": "<", ">=": "<="}
			return &pred{kind: "cmpr", col: p.col, op: flip[p.op], v: p.v}
		}
		return &pred{kind: "not", l: &pred{kind: "not", l: p}}
	}
}

type mord struct {
	col   string
	desc  bool
	nulls int
}

type mquery struct {
	where  *pred
	order  []mord
	limit  int
	offset int
	use    []string // nil: no USE INDEX
}

func (q *mquery) sql() string {
	var b strings.Builder
	b.WriteString("SELECT id, a, b, s FROM t")
	if q.use != nil {
		b.WriteString(" USE INDEX ON (" + strings.Join(q.use, ", ") + ")")
	}
	if q.where.kind != "true" || true {
		b.WriteString(" WHERE " + q.where.sql())
	}
	if len(q.order) > 0 {
		b.WriteString(" ORDER BY ")
		for i, o := range q.order {
			if i > 0 {
				b.WriteString(", ")
			}
			b.WriteString(o.col)
			if o.desc {
				b.WriteString(" DESC")
			} else if o.nulls != 0 {
				b.WriteString(" ASC")
			}
			if o.nulls == 1 {
				b.WriteString(" NULLS FIRST")
			} else if o.nulls == 2 {
				b.WriteString(" NULLS LAST")
			}
		}
	}
	if q.limit > 0 {
		b.WriteString(" LIMIT " + strconv.Itoa(q.limit))
	}
	if q.offset > 0 {
		b.WriteString(" OFFSET " + strconv.Itoa(q.offset))
	}
	return b.String()
}

func (q *mquery) coq() string {
	os := make([]string, len(q.order))
	for i, o := range q.order {
		os[i] = fmt.Sprintf("mkOrd %s %s %s", coqCol(o.col), vk.Bool(o.desc), []string{"NDefault", "NFirst", "NLast"}[o.nulls])
	}
	use := "None"
	if q.use != nil {
		use = "(Some " + coqCols(q.use) + ")"
	}
	// WHERE true is a Bool constant: no ranges, always satisfied = PTrue
	return fmt.Sprintf("(mkQuery %s [%s] %d %d %s)", q.where.coq(), strings.Join(os, "; "), q.limit, q.offset, use)
}

func (q *mquery) ordSpecs() []ordSpec {
	pos := map[string]int{"id": 0, "a": 1, "b": 2}
	out := make([]ordSpec, len(q.order))
	for i, o := range q.order {
		out[i] = ordSpec{pos: pos[o.col], desc: o.desc, nulls: o.nulls}
	}
	return out
}

func (q *mquery) totalOrder() bool {
	for _, o := range q.order {
		if o.col == "id" {
			return true
		}
	}
	return false
}

func (q *mquery) nonDefaultNulls() bool {
	for _, o := range q.order {
		if (o.nulls == 1 && o.desc) || (o.nulls == 2 && !o.desc) {
			return true
		}
	}
	return false
}

func genOrder(rng *rand.Rand) []mord {
	switch x := rng.Intn(20); {
	case x < 7:
		return nil
	case x < 13:
		return []mord{{col: pick(rng, modelCols), desc: rng.Intn(2) == 0}}
	case x < 17:
		d := rng.Intn(2) == 0
		c1 := pick(rng, []string{"a", "b"})
		c2 := pick(rng, modelCols)
		if c1 == c2 {
			c2 = "id"
		}
		return []mord{{col: c1, desc: d}, {col: c2, desc: d}}
	case x < 18:
		return []mord{{col: pick(rng, []string{"a", "b"}), desc: rng.Intn(2) == 0}, {col: "id", desc: rng.Intn(2) == 0}}
	case x < 19:
		return []mord{{col: pick(rng, []string{"a", "b"}), desc: rng.Intn(2) == 0, nulls: 1 + rng.Intn(2)}}
	default: // total order with an explicit NULL placement (LIMIT/OFFSET windows are generated over it)
		d := rng.Intn(2) == 0
		return []mord{{col: pick(rng, []string{"a", "b"}), desc: d, nulls: 1 + rng.Intn(2)}, {col: "id", desc: d}}
	}
}

// ---------------------------------------------------------------- schema + DML script
type step struct {
	SQL  string `json:"sql"`
	Kind string `json:"kind"` // exec (autocommit) | begin | txexec | commit
}

// one row write / delete of a transaction, in execution order
type txop struct {
	put bool
	row mrow
}

func (o txop) coq() string {
	if o.put {
		return "Put " + o.row.coq()
	}
	id := strconv.FormatInt(o.row.id, 10)
	if o.row.id < 0 {
		id = "(" + id + ")"
	}
	return "Del " + id
}

type mdata struct {
	script  []step
	shadow  map[int64]mrow
	indexes [][]string // secondary indexes that exist at the end (column names)
	unique  [][]string
	// inside a multi-statement transaction the engine refuses ("cannot change a non-transient key
	// to transient or vice versa") a statement that deprecates an index tuple which an earlier
	// statement of the same transaction wrote, or the reverse; such statements are not generated
	inTx     bool
	txT, txN map[string]bool
	// the engine also refuses to INSERT a primary key the same transaction has deleted
	txDeleted map[int64]bool
}

func (d *mdata) txBegin() {
	d.inTx, d.txT, d.txN, d.txDeleted = true, map[string]bool{}, map[string]bool{}, map[int64]bool{}
}
func (d *mdata) txEnd() { d.inTx = false }

func tupleKey(ix []string, r mrow) string {
	k := strings.Join(ix, ",") + ":"
	for _, c := range ix {
		k += sqlInt(r.col(c)) + "|"
	}
	return k
}

// would going from shadow `old` to `sh` inside the current transaction hit the transiency conflict;
// when not, the tuples are recorded
func (d *mdata) txConflict(old, sh map[int64]mrow) bool {
	if !d.inTx {
		return false
	}
	T, N := map[string]bool{}, map[string]bool{}
	for id, nr := range sh {
		or, existed := old[id]
		if existed && or.render() == nr.render() {
			continue
		}
		for _, ix := range d.indexes {
			nk := tupleKey(ix, nr)
			if existed {
				ok := tupleKey(ix, or)
				if ok == nk {
					continue
				}
				N[ok] = true
			}
			T[nk] = true
		}
	}
	for k := range T {
		if d.txN[k] || N[k] {
			return true
		}
	}
	for k := range N {
		if d.txT[k] {
			return true
		}
	}
	for k := range T {
		d.txT[k] = true
	}
	for k := range N {
		d.txN[k] = true
	}
	return false
}

var idxChoices = [][]string{{"a"}, {"b"}, {"a", "b"}, {"b", "a"}, {"a", "id"}, {"b", "id"}, {"id", "a"}}

func (d *mdata) rows() []mrow {
	ids := make([]int64, 0, len(d.shadow))
	for id := range d.shadow {
		ids = append(ids, id)
	}
	sort.Slice(ids, func(i, j int) bool { return ids[i] < ids[j] })
	out := make([]mrow, len(ids))
	for i, id := range ids {
		out[i] = d.shadow[id]
	}
	return out
}

func (d *mdata) pool() []int64 {
	var p []int64
	for _, r := range d.shadow {
		p = append(p, r.id)
		if r.a != nil {
			p = append(p, *r.a)
		}
		if r.b != nil {
			p = append(p, *r.b)
		}
	}
	sort.Slice(p, func(i, j int) bool { return p[i] < p[j] })
	return p
}

func genVal(rng *rand.Rand) *int64 {
	switch x := rng.Intn(20); {
	case x < 5:
		return nil
	case x < 6:
		return ip(pick(rng, []int64{math.MaxInt64, -math.MaxInt64, 1 << 40, -(1 << 33)}))
	default:
		return ip(int64(rng.Intn(9) - 3))
	}
}

func genStr(rng *rand.Rand) *string {
	switch rng.Intn(6) {
	case 0:
		return nil
	case 1:
		return sp("")
	default:
		return sp(pick(rng, []string{"x", "yy", "zz9", "Q", "abcdefgh"}))
	}
}

func genID(rng *rand.Rand) int64 {
	switch x := rng.Intn(30); {
	case x < 1:
		return pick(rng, []int64{math.MaxInt64, -math.MaxInt64})
	case x < 3:
		return int64(-1 - rng.Intn(5))
	default:
		return int64(1 + rng.Intn(14))
	}
}

// would the table still respect every UNIQUE index (NULLs counted as values: conservative)
func (d *mdata) uniqueOK(sh map[int64]mrow) bool {
	for _, u := range d.unique {
		seen := map[string]bool{}
		for _, r := range sh {
			k := ""
			for _, c := range u {
				k += sqlInt(r.col(c)) + "|"
			}
			if seen[k] {
				return false
			}
			seen[k] = true
		}
	}
	return true
}

func cloneShadow(sh map[int64]mrow) map[int64]mrow {
	c := make(map[int64]mrow, len(sh))
	for k, v := range sh {
		c[k] = v
	}
	return c
}

// one DML statement expected to succeed; returns the statement, the shadow after it and the
// primary keys it touches. wrapWhere: write UPDATE/DELETE conditions in a form selectorRanges
// cannot push down (used for the 2nd.. statements of a transaction, whose own row selection would
// otherwise go through a secondary index and hit the in-transaction staleness itself)
func (d *mdata) genDML(rng *rand.Rand, wrapWhere bool) (string, map[int64]mrow, []txop) {
	for try := 0; try < 20; try++ {
		sh := cloneShadow(d.shadow)
		var stmt string
		var touched []txop
		where := func() *pred {
			p := genPred(rng, 1, d.pool())
			if wrapWhere && p.pushable() {
				return &pred{kind: "not", l: &pred{kind: "not", l: p}}
			}
			return p
		}
		switch x := rng.Intn(20); {
		case x < 8 || len(sh) < 3: // INSERT
			n := 1 + rng.Intn(3)
			var vals []string
			ok := true
			for i := 0; i < n; i++ {
				r := mrow{id: genID(rng), a: genVal(rng), b: genVal(rng), s: genStr(rng)}
				if _, dup := sh[r.id]; dup {
					ok = false
					break
				}
				sh[r.id] = r
				touched = append(touched, txop{put: true, row: r})
				vals = append(vals, r.values())
			}
			if !ok {
				continue
			}
			stmt = "INSERT INTO t(id, a, b, s) VALUES " + strings.Join(vals, ", ")
		case x < 11: // UPSERT (new or existing row)
			r := mrow{id: genID(rng), a: genVal(rng), b: genVal(rng), s: genStr(rng)}
			if len(sh) > 0 && rng.Intn(3) > 0 {
				r.id = pick(rng, d.rows()).id
			}
			sh[r.id] = r
			touched = append(touched, txop{put: true, row: r})
			stmt = "UPSERT INTO t(id, a, b, s) VALUES " + r.values()
		case x < 17: // UPDATE of (indexed) columns
			p := where()
			var sets []string
			na, nb, ns := genVal(rng), genVal(rng), genStr(rng)
			which := rng.Intn(4)
			if which == 0 || which == 2 {
				sets = append(sets, "a = "+sqlInt(na))
			}
			if which == 1 || which == 2 {
				sets = append(sets, "b = "+sqlInt(nb))
			}
			if which == 3 {
				sets = append(sets, "s = "+sqlStr(ns))
			}
			for _, r := range d.rows() { // primary-key order: the order the UPDATE visits the rows
				if p.eval(r) {
					if which == 0 || which == 2 {
						r.a = na
					}
					if which == 1 || which == 2 {
						r.b = nb
					}
					if which == 3 {
						r.s = ns
					}
					sh[r.id] = r
					touched = append(touched, txop{put: true, row: r})
				}
			}
			stmt = "UPDATE t SET " + strings.Join(sets, ", ") + " WHERE " + p.sql()
		default: // DELETE
			p := where()
			for _, r := range d.rows() {
				if p.eval(r) {
					delete(sh, r.id)
					touched = append(touched, txop{row: r})
				}
			}
			stmt = "DELETE FROM t WHERE " + p.sql()
		}
		if !d.uniqueOK(sh) {
			continue
		}
		if d.inTx {
			bad := false
			for _, op := range touched {
				if op.put && d.txDeleted[op.row.id] {
					bad = true
				}
			}
			if bad {
				continue
			}
		}
		if d.txConflict(d.shadow, sh) {
			continue
		}
		if d.inTx {
			for _, op := range touched {
				if !op.put {
					d.txDeleted[op.row.id] = true
				}
			}
		}
		return stmt, sh, touched
	}
	return "", nil, nil
}

// ---------------------------------------------------------------- running one modelled data set
type runObs struct {
	q     *mquery
	sqlT  string
	plan  *sql.VerifScanPlan
	perr  error
	res   result
	mrows []mrow
}

func toMrows(res result) ([]mrow, error) {
	out := make([]mrow, 0, len(res.rows))
	for _, r := range res.rows {
		if len(r) != 4 {
			return nil, fmt.Errorf("row width %d", len(r))
		}
		id, ok := r[0].(int64)
		if !ok {
			return nil, fmt.Errorf("id is %T", r[0])
		}
		m := mrow{id: id}
		if r[1] != nil {
			v, ok := r[1].(int64)
			if !ok {
				return nil, fmt.Errorf("a is %T", r[1])
			}
			m.a = &v
		}
		if r[2] != nil {
			v, ok := r[2].(int64)
			if !ok {
				return nil, fmt.Errorf("b is %T", r[2])
			}
			m.b = &v
		}
		if r[3] != nil {
			v, ok := r[3].(string)
			if !ok {
				return nil, fmt.Errorf("s is %T", r[3])
			}
			m.s = &v
		}
		out = append(out, m)
	}
	return out, nil
}

func (v *env) observe(tx *sql.SQLTx, q *mquery) *runObs {
	o := &runObs{q: q, sqlT: q.sql()}
	o.plan, o.perr = sql.VerifPlanOf(v.ctx, v.e, tx, o.sqlT)
	o.res = v.query(tx, o.sqlT)
	if o.res.err == nil {
		o.mrows, o.res.err = toMrows(o.res)
	}
	return o
}

func mrowsRender(rs []mrow) []string {
	out := make([]string, len(rs))
	for i, r := range rs {
		out[i] = r.render()
	}
	return out
}

// catalog view of table t: table id, indexes in catalog order
type catIdx struct {
	id   uint32
	cols []string
}

func (v *env) catalogOf(tx *sql.SQLTx, table string) (uint32, []catIdx, error) {
	cat, err := v.e.Catalog(v.ctx, tx)
	if err != nil {
		return 0, nil, err
	}
	tb, err := cat.GetTableByName(table)
	if err != nil {
		return 0, nil, err
	}
	var out []catIdx
	for _, ix := range tb.GetIndexes() {
		ci := catIdx{id: ix.ID()}
		for _, c := range ix.Cols() {
			ci.cols = append(ci.cols, c.Name())
		}
		out = append(out, ci)
	}
	return tb.ID(), out, nil
}

func coqIdxs(ixs []catIdx) string {
	p := make([]string, len(ixs))
	for i, ix := range ixs {
		p[i] = fmt.Sprintf("mkIndex %d %s", ix.id, coqCols(ix.cols))
	}
	return "[" + strings.Join(p, "; ") + "]"
}

func coqRows(rs []mrow) string {
	p := make([]string, len(rs))
	for i, r := range rs {
		p[i] = r.coq()
	}
	return "[" + strings.Join(p, "; ") + "]"
}

// kspec: a scan bound split into the index prefix (checked here against MapKey), the encoded
// values and the optional 0xFF terminator; raw bytes when it does not split that way
func kspec(tableID, indexID uint32, key []byte) string {
	pfx := sql.MapKey(sqlPrefix, sql.MappedPrefix, sql.EncodeID(tableID), sql.EncodeID(indexID))
	if len(key) < len(pfx) || string(key[:len(pfx)]) != string(pfx) {
		return "(KRaw " + vk.Hex(key) + ")"
	}
	rest := key[len(pfx):]
	var vals []string
	upper := false
	for len(rest) > 0 {
		switch {
		case rest[0] == sql.KeyValPrefixNull:
			vals = append(vals, "NUL")
			rest = rest[1:]
		case rest[0] == sql.KeyValPrefixNotNull && len(rest) >= 9:
			u := uint64(0)
			for _, b := range rest[1:9] {
				u = u<<8 | uint64(b)
			}
			vals = append(vals, coqSval(ip(int64(u^(1<<63)))))
			rest = rest[9:]
		case rest[0] == sql.KeyValPrefixUpperBound && len(rest) == 1:
			upper = true
			rest = nil
		default:
			return "(KRaw " + vk.Hex(key) + ")"
		}
	}
	return fmt.Sprintf("(K [%s] %s)", strings.Join(vals, "; "), vk.Bool(upper))
}

// rowDict: the distinct rows observed in one case, referenced by position from the runs
type rowDict struct {
	pos   map[string]int
	terms []string
}

func newRowDict() *rowDict { return &rowDict{pos: map[string]int{}} }

func (d *rowDict) refs(rows []mrow) string {
	p := make([]string, len(rows))
	for i, r := range rows {
		k := r.render()
		n, ok := d.pos[k]
		if !ok {
			n = len(d.terms)
			d.pos[k] = n
			d.terms = append(d.terms, r.coq())
		}
		p[i] = strconv.Itoa(n)
	}
	return "[" + strings.Join(p, "; ") + "]"
}

func (d *rowDict) coq() string { return "[" + strings.Join(d.terms, "; ") + "]" }

func runTerm(q string, tableID uint32, plan *sql.VerifScanPlan, rows []mrow, dict *rowDict) string {
	return fmt.Sprintf("Run %s %d %s %s %s %s %s", q, plan.IndexID, kspec(tableID, plan.IndexID, plan.SeekKey),
		kspec(tableID, plan.IndexID, plan.EndKey), vk.Bool(plan.Desc), vk.Bool(plan.SortRows), dict.refs(rows))
}

func (o *runObs) coq(tableID uint32, dict *rowDict) string {
	if o.perr != nil {
		return "RunNoPlan " + o.q.coq()
	}
	return runTerm(o.q.coq(), tableID, o.plan, o.mrows, dict)
}

// oracle: what the property statement demands of the rows of q over the table `rows`
// returns "" when fine, else a description; known=true when the only defect is the NULL
// placement of an index-served ORDER BY ... NULLS FIRST/LAST (the defect fixed by f375c29: reported
// under its own tag, which no known finding matches any more, so a recurrence is a VIOLATION)
func oracleCheck(q *mquery, rows []mrow, o *runObs) (msg string, known bool) {
	var want []mrow
	for _, r := range rows {
		if q.where.eval(r) {
			want = append(want, r)
		}
	}
	got := o.mrows
	gotR := mrowsRender(got)
	windowed := q.limit > 0 || q.offset > 0
	toAny := func(rs []mrow) [][]any {
		out := make([][]any, len(rs))
		for i, r := range rs {
			x := []any{r.id, nil, nil, nil}
			if r.a != nil {
				x[1] = *r.a
			}
			if r.b != nil {
				x[2] = *r.b
			}
			out[i] = x
		}
		return out
	}
	sortMsg, sortKnown := "", false
	defer func() {
		if msg == "" && sortMsg != "" {
			msg, known = sortMsg, sortKnown
		}
	}()
	if len(q.order) > 0 {
		if ok, at := isSorted(q.ordSpecs(), toAny(got)); !ok {
			// sorted under the index's own NULL placement?
			def := q.ordSpecs()
			for i := range def {
				def[i].nulls = 0
			}
			okDef, _ := isSorted(def, toAny(got))
			if okDef && q.nonDefaultNulls() && o.plan != nil && !o.plan.SortRows {
				sortMsg, sortKnown = fmt.Sprintf("ORDER BY output not in the requested NULLS FIRST/LAST placement (rows %d,%d)", at, at+1), true
			} else {
				return fmt.Sprintf("ORDER BY output not sorted by the SQL comparison at rows %d,%d", at, at+1), false
			}
		}
	}
	if !windowed {
		if !sameMultiset(gotR, mrowsRender(want)) {
			return "rows differ from the satisfying rows of the table", false
		}
		return "", false
	}
	if q.totalOrder() {
		w := append([]mrow{}, want...)
		os := q.ordSpecs()
		wa := toAny(w)
		idx := make([]int, len(w))
		for i := range idx {
			idx[i] = i
		}
		sort.SliceStable(idx, func(i, j int) bool { return cmpRows(os, wa[idx[i]], wa[idx[j]]) < 0 })
		var sorted []mrow
		for _, i := range idx {
			sorted = append(sorted, w[i])
		}
		if q.offset < len(sorted) {
			sorted = sorted[q.offset:]
		} else {
			sorted = nil
		}
		if q.limit > 0 && q.limit < len(sorted) {
			sorted = sorted[:q.limit]
		}
		if !sameSeq(gotR, mrowsRender(sorted)) {
			return "LIMIT/OFFSET window over a total ORDER BY differs from the window of the sorted satisfying rows", false
		}
		return "", false
	}
	// window without total order: count and containment only
	n := len(want) - q.offset
	if n < 0 {
		n = 0
	}
	if q.limit > 0 && q.limit < n {
		n = q.limit
	}
	if len(got) != n {
		return fmt.Sprintf("LIMIT/OFFSET window has %d rows, expected %d", len(got), n), false
	}
	wantSet := map[string]int{}
	for _, w := range mrowsRender(want) {
		wantSet[w]++
	}
	for _, g := range gotR {
		if wantSet[g] == 0 {
			return "LIMIT/OFFSET window contains a row that does not satisfy the predicate (or twice)", false
		}
		wantSet[g]--
	}
	return "", false
}

func scriptText(sc []step) string {
	var b strings.Builder
	for _, s := range sc {
		b.WriteString(s.SQL)
		b.WriteString("; ")
	}
	return b.String()
}

const knownNullsTag = "order-by-nulls-placement-ignored-by-index"
const knownStaleTag = "in-tx-secondary-index-stale"

// genModelled builds one data set on a fresh engine, runs the query twins in the three states,
// records the correspondence case (committed state) and reports direct violations.
func genModelled(r *vk.Run, ds int) error {
	rng := r.Rng
	v, err := newEnv()
	if err != nil {
		return err
	}
	defer v.close()

	d := &mdata{shadow: map[int64]mrow{}}
	run := func(kind, s string, tx *sql.SQLTx) (*sql.SQLTx, error) {
		d.script = append(d.script, step{SQL: s, Kind: kind})
		return v.exec(tx, s)
	}
	if _, err := run("exec", "CREATE TABLE t (id INTEGER, a INTEGER, b INTEGER, s VARCHAR[8], PRIMARY KEY id)", nil); err != nil {
		return err
	}
	// indexes before data (possibly unique)
	perm := rng.Perm(len(idxChoices))
	nBefore, nAfter := rng.Intn(3), rng.Intn(3)
	if nBefore+nAfter == 0 {
		nBefore = 1
	}
	k := 0
	for i := 0; i < nBefore; i++ {
		cols := idxChoices[perm[k]]
		k++
		uniq := rng.Intn(6) == 0 && cols[len(cols)-1] != "id"
		stmt := "CREATE INDEX ON t(" + strings.Join(cols, ", ") + ")"
		if uniq {
			stmt = "CREATE UNIQUE INDEX ON t(" + strings.Join(cols, ", ") + ")"
		}
		if _, err := run("exec", stmt, nil); err != nil {
			return fmt.Errorf("%s: %w", stmt, err)
		}
		d.indexes = append(d.indexes, cols)
		if uniq {
			d.unique = append(d.unique, cols)
		}
	}
	// committed DML history
	nHist := 2 + rng.Intn(7)
	afterAt := rng.Intn(nHist + 1)
	bucket := fmt.Sprintf("model/idx%d", nBefore+nAfter)
	for i := 0; i <= nHist; i++ {
		if i == afterAt {
			for j := 0; j < nAfter; j++ {
				cols := idxChoices[perm[k]]
				k++
				stmt := "CREATE INDEX ON t(" + strings.Join(cols, ", ") + ")"
				if _, err := run("exec", stmt, nil); err != nil {
					return fmt.Errorf("%s: %w", stmt, err)
				}
				d.indexes = append(d.indexes, cols)
			}
		}
		if i == nHist {
			break
		}
		if rng.Intn(4) == 0 { // a committed multi-statement transaction
			var stmts []string
			sh := d.shadow
			d.txBegin()
			for j := 0; j < 2+rng.Intn(2); j++ {
				s, nsh, _ := d.genDML(rng, j > 0)
				if s == "" {
					break
				}
				stmts = append(stmts, s)
				d.shadow = nsh
			}
			d.txEnd()
			if len(stmts) == 0 {
				d.shadow = sh
				continue
			}
			batch := "BEGIN TRANSACTION; " + strings.Join(stmts, "; ") + "; COMMIT;"
			if _, err := run("exec", batch, nil); err != nil {
				if os.Getenv("C11_DEBUG") != "" {
					fmt.Fprintln(os.Stderr, "DML error:", err, "in", scriptText(d.script))
				}
				r.Stats["model/dml-unexpected-error"]++
				return nil
			}
		} else {
			s, nsh, _ := d.genDML(rng, false)
			if s == "" {
				continue
			}
			if _, err := run("exec", s, nil); err != nil {
				if os.Getenv("C11_DEBUG") != "" {
					fmt.Fprintln(os.Stderr, "DML error:", err, "in", scriptText(d.script))
				}
				r.Stats["model/dml-unexpected-error"]++
				return nil
			}
			d.shadow = nsh
		}
	}
	// final batch inside an explicit, still open transaction
	tx, err := run("begin", "BEGIN TRANSACTION", nil)
	if err != nil {
		return err
	}
	d.txBegin()
	txStart := cloneShadow(d.shadow)
	var txOps []txop
	nTxStmts := rng.Intn(4)
	for j := 0; j < nTxStmts; j++ {
		s, nsh, ops := d.genDML(rng, true)
		if s == "" {
			continue
		}
		txOps = append(txOps, ops...)
		if tx, err = run("txexec", s, tx); err != nil {
			if os.Getenv("C11_DEBUG") != "" {
				fmt.Fprintln(os.Stderr, "DML error:", err, "in", scriptText(d.script))
			}
			r.Stats["model/dml-unexpected-error"]++
			return nil
		}
		d.shadow = nsh
	}
	rows := d.rows()
	pool := d.pool()

	// queries
	var qs []*mquery
	nLogical := 3 + rng.Intn(3)
	for i := 0; i < nLogical; i++ {
		base := &mquery{where: genPred(rng, 2, pool), order: genOrder(rng)}
		if rng.Intn(3) == 0 && (len(base.order) == 0 || base.totalOrder()) {
			base.limit = rng.Intn(4)
			base.offset = rng.Intn(3)
		}
		qs = append(qs, base)
		for _, ix := range d.indexes {
			if rng.Intn(3) > 0 {
				c := *base
				c.use = ix
				qs = append(qs, &c)
			}
		}
		if rng.Intn(2) == 0 {
			c := *base
			c.use = []string{"id"}
			qs = append(qs, &c)
		}
		if base.where.pushable() && rng.Intn(2) == 0 {
			c := *base
			c.where = unpushable(rng, base.where)
			if len(d.indexes) > 0 && rng.Intn(2) == 0 {
				c.use = pick(rng, d.indexes)
			}
			qs = append(qs, &c)
		}
		if rng.Intn(25) == 0 {
			c := *base
			c.use = []string{"b", "b"}
			qs = append(qs, &c)
		}
	}

	desc := func(o *runObs, state string) string {
		return fmt.Sprintf("seed=%d dataset=%d state=%s script=[%s] query=[%s] table=%v got=%v err=%q",
			r.Seed, ds, state, clip(scriptText(d.script), 1500), o.sqlT, mrowsRender(rows), mrowsRender(o.mrows), errText(o.res.err))
	}
	check := func(o *runObs, state string) bool {
		if o.perr != nil && o.res.err != nil {
			return true // no such index: both planning and execution refuse
		}
		if o.res.err != nil {
			r.Finding("modelled-query-error: " + desc(o, state))
			return false
		}
		if msg, known := oracleCheck(o.q, rows, o); msg != "" {
			if known {
				r.Finding(knownNullsTag + ": " + msg + " " + desc(o, state))
				return true // the model reproduces it
			}
			r.Finding("modelled-oracle: " + msg + " " + desc(o, state))
			return false
		}
		return true
	}
	sameAcross := func(a, b *runObs, sa, sb string) {
		if (a.res.err != nil) != (b.res.err != nil) {
			r.Finding(fmt.Sprintf("state-divergence(error): %s vs %s: %s", sa, sb, desc(b, sb)))
			return
		}
		ra, rb := mrowsRender(a.mrows), mrowsRender(b.mrows)
		if (a.q.limit > 0 || a.q.offset > 0) && !(a.q.totalOrder()) {
			// a LIMIT/OFFSET window without a total order may legitimately hold different rows
			if len(ra) != len(rb) {
				r.Finding(fmt.Sprintf("state-divergence: window sizes %d (%s) and %d: %s", len(ra), sa, len(rb), desc(b, sb)))
			}
			return
		}
		same := sameMultiset(ra, rb)
		if same && a.q.totalOrder() {
			same = sameSeq(ra, rb)
		}
		if !same {
			r.Finding(fmt.Sprintf("state-divergence: %s returned %v, %s: %s", sa, ra, sb, desc(b, sb)))
		}
	}

	// primary keys the open transaction has written or deleted
	changed := map[int64]bool{}
	for _, op := range txOps {
		changed[op.row.id] = true
	}
	restrict := func(rs []mrow) []mrow {
		var out []mrow
		for _, x := range rs {
			if !changed[x.id] {
				out = append(out, x)
			}
		}
		return out
	}
	stale := make([]bool, len(qs))
	// in-tx verdict: exact expectation first; when it fails on a secondary-index scan, is the
	// difference confined to the rows the transaction itself wrote or deleted?
	checkInTx := func(i int, o *runObs) bool {
		if o.perr != nil && o.res.err != nil {
			return true
		}
		if o.res.err != nil {
			r.Finding("modelled-query-error: " + desc(o, "in-tx"))
			return false
		}
		msg, known := oracleCheck(o.q, rows, o)
		if msg == "" {
			return true
		}
		if known {
			r.Finding(knownNullsTag + ": " + msg + " " + desc(o, "in-tx"))
			return true
		}
		if o.plan != nil && o.plan.IndexID != 0 && len(changed) > 0 {
			windowed := o.q.limit > 0 || o.q.offset > 0
			ok := windowed
			if !windowed {
				o2 := *o
				o2.mrows = restrict(o.mrows)
				m2, k2 := oracleCheck(o.q, restrict(rows), &o2)
				ok = m2 == "" || k2
			}
			if ok {
				stale[i] = true
				r.Stats["model/in-tx-stale"]++
				r.Finding(knownStaleTag + ": " + msg + " " + desc(o, "in-tx"))
				return true
			}
		}
		r.Finding("modelled-oracle: " + msg + " " + desc(o, "in-tx"))
		return false
	}

	// state 1: inside the open transaction
	tidTx, cidxTx, err := v.catalogOf(tx, "t")
	if err != nil {
		return err
	}
	inTx := make([]*runObs, len(qs))
	txDict := newRowDict()
	var txTerms []string
	var txJS []map[string]any
	txBad := false
	for i, q := range qs {
		inTx[i] = v.observe(tx, q)
		if !checkInTx(i, inTx[i]) {
			txBad = true
		}
		o := inTx[i]
		if o.perr == nil && o.res.err != nil {
			continue
		}
		txTerms = append(txTerms, o.coq(tidTx, txDict))
		txJS = append(txJS, map[string]any{"sql": o.sqlT, "coq": o.q.coq(), "rows": mrowsRender(o.mrows)})
	}
	if len(txOps) > 0 {
		tid, cidx := tidTx, cidxTx
		var startRows []mrow
		ids := make([]int64, 0, len(txStart))
		for id := range txStart {
			ids = append(ids, id)
		}
		sort.Slice(ids, func(i, j int) bool { return ids[i] < ids[j] })
		for _, id := range ids {
			startRows = append(startRows, txStart[id])
		}
		opTerms := make([]string, len(txOps))
		for i, op := range txOps {
			opTerms[i] = op.coq()
		}
		term := fmt.Sprintf("CTx %s %d %s %s [%s] %s [%s]", vk.Hex(sql.MapKey(sqlPrefix, sql.MappedPrefix)), tid, coqIdxs(cidx),
			coqRows(startRows), strings.Join(opTerms, "; "), txDict.coq(), strings.Join(txTerms, ";\n   "))
		r.Case(term, map[string]any{"kind": "tx", "script": d.script, "table_at_begin": mrowsRender(startRows),
			"table_at_begin_coq": coqRows(startRows), "ops_coq": "[" + strings.Join(opTerms, "; ") + "]",
			"runs": txJS, "oracle_bad": txBad, "dataset": ds},
			fmt.Sprintf("model-tx/ops%d", min(len(txOps), 6)), true)
	}
	if _, err = run("commit", "COMMIT", tx); err != nil {
		r.Stats["model/dml-unexpected-error"]++
		return nil
	}
	// the DML oracle itself: primary-key scan of the whole table
	full := v.query(nil, "SELECT id, a, b, s FROM t")
	if full.err != nil {
		return full.err
	}
	fm, err := toMrows(full)
	if err != nil {
		return err
	}
	if !sameMultiset(mrowsRender(fm), mrowsRender(rows)) {
		r.Finding(fmt.Sprintf("dml-oracle-mismatch: seed=%d dataset=%d script=[%s] table-by-pk-scan=%v expected=%v",
			r.Seed, ds, clip(scriptText(d.script), 2500), mrowsRender(fm), mrowsRender(rows)))
		return nil
	}
	// state 2: committed (this one is recorded as the correspondence case)
	tid, cidx, err := v.catalogOf(nil, "t")
	if err != nil {
		return err
	}
	committed := make([]*runObs, len(qs))
	cDict := newRowDict()
	oracleBad := false
	var runTerms []string
	var runJS []map[string]any
	nontrivial := false
	for i, q := range qs {
		o := v.observe(nil, q)
		committed[i] = o
		if !check(o, "committed") {
			oracleBad = true
		}
		if !stale[i] {
			sameAcross(inTx[i], o, "in-tx", "committed")
		}
		if o.perr == nil && o.res.err != nil {
			continue // reported above; nothing to compare with the model
		}
		runTerms = append(runTerms, o.coq(tid, cDict))
		runJS = append(runJS, map[string]any{"sql": o.sqlT, "coq": o.q.coq(), "rows": mrowsRender(o.mrows)})
		if o.plan != nil {
			r.Stats[fmt.Sprintf("model/run/%s%s%s", map[bool]string{true: "secondary", false: "primary"}[o.plan.IndexID != 0],
				map[bool]string{true: "+desc", false: ""}[o.plan.Desc], map[bool]string{true: "+sort", false: ""}[o.plan.SortRows])]++
			if len(o.mrows) > 0 && len(o.mrows) < len(rows) {
				nontrivial = true
			}
		}
	}
	term := fmt.Sprintf("CScan %s %d %s %s %s [%s]", vk.Hex(sql.MapKey(sqlPrefix, sql.MappedPrefix)), tid, coqIdxs(cidx), coqRows(rows),
		cDict.coq(), strings.Join(runTerms, ";\n   "))
	r.Case(term, map[string]any{"kind": "scan", "script": d.script, "table": mrowsRender(rows), "table_coq": coqRows(rows),
		"runs": runJS, "oracle_bad": oracleBad, "dataset": ds}, bucket, nontrivial)

	// state 3: after close + reopen
	if err := v.reopen(); err != nil {
		return err
	}
	for i, q := range qs {
		o := v.observe(nil, q)
		check(o, "reopened")
		sameAcross(committed[i], o, "committed", "reopened")
	}
	return nil
}

// replayModelled re-runs the script and the SELECTs of a recorded case ("scan": committed state;
// "tx": the script ends inside the open transaction and the SELECTs run in it)
func replayModelled(r *vk.Run, c map[string]any) error {
	v, err := newEnv()
	if err != nil {
		return err
	}
	defer v.close()
	var tx *sql.SQLTx
	steps, _ := c["script"].([]any)
	for _, s := range steps {
		m := s.(map[string]any)
		kind, _ := m["kind"].(string)
		stmt, _ := m["sql"].(string)
		switch kind {
		case "exec":
			_, err = v.exec(nil, stmt)
		default:
			tx, err = v.exec(tx, stmt)
		}
		if err != nil {
			return fmt.Errorf("replay of %q: %w", stmt, err)
		}
	}
	inTx := c["kind"] == "tx"
	if !inTx {
		tx = nil
	}
	tid, cidx, err := v.catalogOf(tx, "t")
	if err != nil {
		return err
	}
	runs, _ := c["runs"].([]any)
	var terms []string
	var js []map[string]any
	dict := newRowDict()
	for _, x := range runs {
		m := x.(map[string]any)
		q, _ := m["sql"].(string)
		cq, _ := m["coq"].(string)
		plan, perr := sql.VerifPlanOf(v.ctx, v.e, tx, q)
		res := v.query(tx, q)
		if perr != nil {
			terms = append(terms, "RunNoPlan "+cq)
			continue
		}
		if res.err != nil {
			r.Finding("modelled-query-error: replay query=[" + q + "] err=" + res.err.Error())
			continue
		}
		mr, err := toMrows(res)
		if err != nil {
			return err
		}
		terms = append(terms, runTerm(cq, tid, plan, mr, dict))
		js = append(js, map[string]any{"sql": q, "coq": cq, "rows": mrowsRender(mr)})
	}
	base := vk.Hex(sql.MapKey(sqlPrefix, sql.MappedPrefix))
	if inTx {
		tc, _ := c["table_at_begin_coq"].(string)
		ops, _ := c["ops_coq"].(string)
		term := fmt.Sprintf("CTx %s %d %s %s %s %s [%s]", base, tid, coqIdxs(cidx), tc, ops, dict.coq(), strings.Join(terms, ";\n   "))
		r.Case(term, map[string]any{"kind": "tx", "script": c["script"], "table_at_begin": c["table_at_begin"],
			"table_at_begin_coq": tc, "ops_coq": ops, "runs": js, "oracle_bad": c["oracle_bad"]}, "replay", true)
		return nil
	}
	tc, _ := c["table_coq"].(string)
	term := fmt.Sprintf("CScan %s %d %s %s %s [%s]", base, tid, coqIdxs(cidx), tc, dict.coq(), strings.Join(terms, ";\n   "))
	r.Case(term, map[string]any{"kind": "scan", "script": c["script"], "table": c["table"], "table_coq": tc, "runs": js,
		"oracle_bad": c["oracle_bad"]}, "replay", true)
	return nil
}
