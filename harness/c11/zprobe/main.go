package main

import (
	"context"
	"fmt"
	"io"
	"os"
	"strings"

	"github.com/codenotary/immudb/embedded/logger"
	"github.com/codenotary/immudb/embedded/sql"
	"github.com/codenotary/immudb/embedded/store"
)

func main() {
	dir, _ := os.MkdirTemp("", "vh-c11p-")
	defer os.RemoveAll(dir)
	st, err := store.Open(dir, store.DefaultOptions().WithMultiIndexing(true).WithSynced(false).
		WithLogger(logger.NewSimpleLoggerWithLevel("vh", io.Discard, logger.LogError)))
	if err != nil {
		panic(err)
	}
	defer st.Close()
	e, err := sql.NewEngine(st, sql.DefaultOptions().WithPrefix([]byte("sql")))
	if err != nil {
		panic(err)
	}
	ctx := context.Background()
	var tx *sql.SQLTx
	for _, s := range os.Args[1:] {
		if strings.HasPrefix(s, "!") {
			ntx, _, err := e.Exec(ctx, tx, s[1:], nil)
			if err != nil {
				fmt.Println("EXEC ERR", s, err)
			}
			tx = ntx
			continue
		}
		r, err := e.Query(ctx, tx, s, nil)
		if err != nil {
			fmt.Println("Q ERR", s, "=>", err)
			continue
		}
		rows, err := sql.ReadAllRows(ctx, r)
		r.Close()
		if err != nil {
			fmt.Println("Q ERR(read)", s, "=>", err)
			continue
		}
		var out []string
		for _, row := range rows {
			var vs []string
			for _, v := range row.ValuesByPosition {
				vs = append(vs, fmt.Sprint(v.RawValue()))
			}
			out = append(out, "("+strings.Join(vs, ",")+")")
		}
		fmt.Println(s, "=>", strings.Join(out, " "))
	}
}
