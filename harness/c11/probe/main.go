package main

import (
	"context"
	"fmt"
	"io"
	"os"
	"strings"

	"github.com/codenotary/immudb/embedded/logger"
	"github.com/codenotary/immudb/embedded/sql"
	"github.com/codenotary/immudb/embedded/store"
)

func main() {
	dir, _ := os.MkdirTemp("", "vh-c11p-")
	defer os.RemoveAll(dir)
	st, err := store.Open(dir, store.DefaultOptions().WithMultiIndexing(true).WithSynced(false).
		WithLogger(logger.NewSimpleLoggerWithLevel("vh", io.Discard, logger.LogError)))
	if err != nil {
		panic(err)
	}
	defer st.Close()
	e, err := sql.NewEngine(st, sql.DefaultOptions().WithPrefix([]byte("sql")))
	if err != nil {
		panic(err)
	}
	ctx := context.Background()
	ex := func(s string) {
		_, _, err := e.Exec(ctx, nil, s, nil)
		if err != nil {
			fmt.Println("EXEC ERR", s, err)
		}
	}
	ex("CREATE TABLE t (id INTEGER, a INTEGER, b INTEGER, s VARCHAR[8], PRIMARY KEY id)")
	ex("CREATE INDEX ON t(a)")
	ex("CREATE INDEX ON t(a,b)")
	ex("INSERT INTO t(id,a,b,s) VALUES (1,5,1,'x'),(2,NULL,2,'y'),(3,7,NULL,'z'),(4,5,NULL,NULL),(5,-3,9,'x'),(6,NULL,NULL,'q')")
	q := func(s string) {
		r, err := e.Query(ctx, nil, s, nil)
		if err != nil {
			fmt.Println("Q ERR", s, "=>", err)
			return
		}
		defer r.Close()
		rows, err := sql.ReadAllRows(ctx, r)
		if err != nil {
			fmt.Println("Q ERR(read)", s, "=>", err)
			return
		}
		var out []string
		for _, row := range rows {
			var vs []string
			for _, v := range row.ValuesByPosition {
				vs = append(vs, fmt.Sprint(v.RawValue()))
			}
			out = append(out, "("+strings.Join(vs, ",")+")")
		}
		fmt.Println(s, "=>", strings.Join(out, " "))
	}
	for _, s := range os.Args[1:] {
		q(s)
	}
}
