package c11

import (
	"fmt"
	"strings"

	"github.com/codenotary/immudb/embedded/sql"
	"verif/harness/vk"
)

// Directed in-transaction cases, run first in every tier. They are the shrunk forms of three
// thorough-tier cases in which an explicitly sorted LIMIT/OFFSET window ties although ORDER BY
// names the primary key: inside a transaction the secondary-index view holds two versions of one
// pk (known finding in-tx-secondary-index-stale), and Go's unstable sort / top-N heap picks either.
type directed struct {
	name    string
	setup   []string // autocommit
	begin   []mrow   // table at BEGIN
	txStmts []string
	ops     []txop
	queries []*mquery
}

func dq(where *pred, order []mord, limit, offset int, uses ...[]string) []*mquery {
	out := []*mquery{{where: where, order: order, limit: limit, offset: offset}}
	for _, u := range uses {
		out = append(out, &mquery{where: where, order: order, limit: limit, offset: offset, use: u})
	}
	return out
}

func directedSet() []directed {
	ge := func(c string, v int64) *pred { return &pred{kind: "cmp", col: c, op: ">=", v: ip(v)} }
	gt := func(c string, v int64) *pred { return &pred{kind: "cmp", col: c, op: ">", v: ip(v)} }
	var ds []directed
	// 1: UPDATE of the leading index column of every row; ORDER BY id DESC LIMIT n over index (a,id)
	d1 := directed{name: "tied-window-after-update",
		setup: []string{"CREATE INDEX ON t(a, id)",
			"INSERT INTO t(id, a, b, s) VALUES (1, -1, 2, 'x'), (5, 3, 2, 'yy'), (11, 0, NULL, 'Q')"},
		begin:   []mrow{{1, ip(-1), ip(2), sp("x")}, {5, ip(3), ip(2), sp("yy")}, {11, ip(0), nil, sp("Q")}},
		txStmts: []string{"UPDATE t SET a = 5 WHERE (NOT (NOT (a <= 3)))"},
		ops: []txop{{true, mrow{1, ip(5), ip(2), sp("x")}}, {true, mrow{5, ip(5), ip(2), sp("yy")}},
			{true, mrow{11, ip(5), nil, sp("Q")}}}}
	for lim := 1; lim <= 4; lim++ {
		for off := 0; off <= 1; off++ {
			d1.queries = append(d1.queries, dq(ge("id", 1), []mord{{col: "id", desc: true}}, lim, off, []string{"a", "id"}, []string{"id"})...)
		}
	}
	ds = append(ds, d1)
	// 2: DELETE + UPDATE; ORDER BY b DESC, id DESC LIMIT 1 OFFSET k over index (a,b)
	d2 := directed{name: "tied-window-after-delete-update",
		setup: []string{"CREATE INDEX ON t(a, b)",
			"INSERT INTO t(id, a, b, s) VALUES (9, 0, 5, 'yy'), (12, -1, 2, 'zz9'), (11, 5, -1, NULL)"},
		begin:   []mrow{{9, ip(0), ip(5), sp("yy")}, {11, ip(5), ip(-1), nil}, {12, ip(-1), ip(2), sp("zz9")}},
		txStmts: []string{"DELETE FROM t WHERE (NOT (NOT (a >= 2)))", "UPDATE t SET a = -2 WHERE (NOT (id = 14))"},
		ops:     []txop{{false, mrow{id: 11}}, {true, mrow{9, ip(-2), ip(5), sp("yy")}}, {true, mrow{12, ip(-2), ip(2), sp("zz9")}}}}
	for off := 0; off <= 3; off++ {
		d2.queries = append(d2.queries, dq(gt("a", -6), []mord{{col: "b", desc: true}, {col: "id", desc: true}}, 1, off, []string{"a", "b"}, []string{"id"})...)
	}
	ds = append(ds, d2)
	// 3: two UPSERTs with the same index tuple (one new pk, one existing); ORDER BY id LIMIT n over (a,b)
	d3 := directed{name: "tied-window-after-colliding-upserts",
		setup: []string{"CREATE INDEX ON t(a, b)",
			"INSERT INTO t(id, a, b, s) VALUES (10, 1, -1, ''), (13, 0, -3, '')"},
		begin:   []mrow{{10, ip(1), ip(-1), sp("")}, {13, ip(0), ip(-3), sp("")}},
		txStmts: []string{"UPSERT INTO t(id, a, b, s) VALUES (11, NULL, NULL, NULL)", "UPSERT INTO t(id, a, b, s) VALUES (13, NULL, NULL, 'zz9')"},
		ops:     []txop{{true, mrow{11, nil, nil, nil}}, {true, mrow{13, nil, nil, sp("zz9")}}}}
	for lim := 1; lim <= 3; lim++ {
		d3.queries = append(d3.queries, dq(&pred{kind: "not", l: &pred{kind: "cmp", col: "id", op: "<", v: ip(9)}},
			[]mord{{col: "id"}}, lim, 0, []string{"a", "b"}, []string{"id"})...)
	}
	ds = append(ds, d3)
	return ds
}

func genDirected(r *vk.Run) error {
	for _, d := range directedSet() {
		v, err := newEnv()
		if err != nil {
			return err
		}
		err = func() error {
			defer v.close()
			var script []step
			run := func(kind, s string, tx *sql.SQLTx) (*sql.SQLTx, error) {
				script = append(script, step{SQL: s, Kind: kind})
				ntx, err := v.exec(tx, s)
				if err != nil {
					return nil, fmt.Errorf("directed %s: %q: %w", d.name, s, err)
				}
				return ntx, nil
			}
			if _, err := run("exec", "CREATE TABLE t (id INTEGER, a INTEGER, b INTEGER, s VARCHAR[8], PRIMARY KEY id)", nil); err != nil {
				return err
			}
			for _, s := range d.setup {
				if _, err := run("exec", s, nil); err != nil {
					return err
				}
			}
			tx, err := run("begin", "BEGIN TRANSACTION", nil)
			if err != nil {
				return err
			}
			for _, s := range d.txStmts {
				if tx, err = run("txexec", s, tx); err != nil {
					return err
				}
			}
			tid, cidx, err := v.catalogOf(tx, "t")
			if err != nil {
				return err
			}
			dict := newRowDict()
			var terms []string
			var js []map[string]any
			for _, q := range d.queries {
				o := v.observe(tx, q)
				if o.perr != nil || o.res.err != nil {
					return fmt.Errorf("directed %s: query %q: %v %v", d.name, o.sqlT, o.perr, o.res.err)
				}
				terms = append(terms, o.coq(tid, dict))
				js = append(js, map[string]any{"sql": o.sqlT, "coq": q.coq(), "rows": mrowsRender(o.mrows)})
			}
			opTerms := make([]string, len(d.ops))
			for i, op := range d.ops {
				opTerms[i] = op.coq()
			}
			term := fmt.Sprintf("CTx %s %d %s %s [%s] %s [%s]", vk.Hex(sql.MapKey(sqlPrefix, sql.MappedPrefix)), tid, coqIdxs(cidx),
				coqRows(d.begin), strings.Join(opTerms, "; "), dict.coq(), strings.Join(terms, ";\n   "))
			r.Case(term, map[string]any{"kind": "tx", "script": script, "table_at_begin": mrowsRender(d.begin),
				"table_at_begin_coq": coqRows(d.begin), "ops_coq": "[" + strings.Join(opTerms, "; ") + "]",
				"runs": js, "oracle_bad": false, "directed": d.name}, "directed/"+d.name, true)
			return nil
		}()
		if err != nil {
			return err
		}
	}
	return nil
}
