package c11

import (
	"fmt"
	"math/rand"
	"sort"
	"strconv"
	"strings"

	"github.com/codenotary/immudb/embedded/sql"
	"verif/harness/vk"
)

// ---------------------------------------------------------------- general stream (no model)
// Generated schemas with several column types, nullable columns, composite and unique indexes,
// indexes created before or after data; DML histories; then TWIN executions of generated queries
// (joins, GROUP BY, DISTINCT, subqueries, LIMIT/OFFSET, historical reads included): results of
// twins must be equal as multisets (as sequences under a total ORDER BY).

type gcol struct {
	name    string
	typ     string // INTEGER VARCHAR BOOLEAN FLOAT TIMESTAMP
	notnull bool
}

func (c gcol) ddl() string {
	t := c.typ
	if t == "VARCHAR" {
		t = "VARCHAR[8]"
	}
	if c.notnull {
		t += " NOT NULL"
	}
	return c.name + " " + t
}

type gtable struct {
	name    string
	cols    []gcol
	pk      []string
	indexes [][]string // secondary
	uniq    map[string]bool
}

func (t *gtable) col(name string) gcol {
	for _, c := range t.cols {
		if c.name == name {
			return c
		}
	}
	return gcol{}
}

func (t *gtable) colNames() []string {
	out := make([]string, len(t.cols))
	for i, c := range t.cols {
		out[i] = c.name
	}
	return out
}

var tsPool = []string{"1999-12-31 23:59:59", "2020-01-01 00:00:00", "2021-06-15 12:30:00", "2021-06-15 12:30:01"}
var strPool = []string{"", "a", "ab", "b", "B", "zz", "abcdefgh"}
var fltPool = []string{"-1.5", "0.0", "0.5", "2.0", "10000000000.0", "2.5"}

// a literal of the column's type (never NULL)
func genLit(rng *rand.Rand, typ string) string {
	switch typ {
	case "INTEGER":
		if rng.Intn(12) == 0 {
			return pick(rng, []string{"9223372036854775807", "-9223372036854775807", "4294967296"})
		}
		return strconv.Itoa(rng.Intn(8) - 2)
	case "VARCHAR":
		return "'" + pick(rng, strPool) + "'"
	case "BOOLEAN":
		return pick(rng, []string{"true", "false"})
	case "FLOAT":
		return pick(rng, fltPool)
	default:
		return "CAST('" + pick(rng, tsPool) + "' AS TIMESTAMP)"
	}
}

func genCell(rng *rand.Rand, c gcol) string {
	if !c.notnull && rng.Intn(4) == 0 {
		return "NULL"
	}
	return genLit(rng, c.typ)
}

var cmpOps = []string{"=", "<>", "<", "<=", ">", ">="}

// a boolean expression over the columns of t (qualified with alias when given), total under the
// engine's evaluator (comparisons with NULL are two-valued; no bare boolean columns, no arithmetic
// on nullable columns)
func genCond(rng *rand.Rand, t *gtable, alias string, depth int) string {
	q := func(c string) string {
		if alias != "" {
			return alias + "." + c
		}
		return c
	}
	if depth <= 0 || rng.Intn(3) == 0 {
		c := pick(rng, t.cols)
		switch x := rng.Intn(20); {
		case x < 11:
			return fmt.Sprintf("%s %s %s", q(c.name), pick(rng, cmpOps), genLit(rng, c.typ))
		case x < 13:
			if rng.Intn(2) == 0 {
				return q(c.name) + " IS NULL"
			}
			return q(c.name) + " IS NOT NULL"
		case x < 17:
			n := 1 + rng.Intn(3)
			vs := make([]string, n)
			for i := range vs {
				vs[i] = genLit(rng, c.typ)
			}
			not := ""
			if rng.Intn(4) == 0 {
				not = "NOT "
			}
			return fmt.Sprintf("%s %sIN (%s)", q(c.name), not, strings.Join(vs, ", "))
		case x < 18 && c.typ == "VARCHAR":
			return fmt.Sprintf("%s LIKE '%s'", q(c.name), pick(rng, []string{"a", "b", "z", "ab"}))
		case x < 19:
			return fmt.Sprintf("%s %s %s", genLit(rng, c.typ), pick(rng, cmpOps), q(c.name))
		default:
			return fmt.Sprintf("%s %s %s", q(c.name), pick(rng, cmpOps), genLit(rng, c.typ))
		}
	}
	switch x := rng.Intn(10); {
	case x < 5:
		return "(" + genCond(rng, t, alias, depth-1) + " AND " + genCond(rng, t, alias, depth-1) + ")"
	case x < 8:
		return "(" + genCond(rng, t, alias, depth-1) + " OR " + genCond(rng, t, alias, depth-1) + ")"
	default:
		return "(NOT (" + genCond(rng, t, alias, depth-1) + "))"
	}
}

func genSchema(rng *rand.Rand, name string) *gtable {
	t := &gtable{name: name, uniq: map[string]bool{}}
	switch rng.Intn(5) {
	case 0:
		t.cols = append(t.cols, gcol{"k", "VARCHAR", true})
		t.pk = []string{"k"}
	case 1:
		t.cols = append(t.cols, gcol{"k", "INTEGER", true}, gcol{"k2", "INTEGER", true})
		t.pk = []string{"k", "k2"}
	default:
		t.cols = append(t.cols, gcol{"k", "INTEGER", true})
		t.pk = []string{"k"}
	}
	types := []string{"INTEGER", "VARCHAR", "BOOLEAN", "FLOAT", "TIMESTAMP", "INTEGER", "VARCHAR"}
	n := 3 + rng.Intn(3)
	t.cols = append(t.cols, gcol{"c", "INTEGER", false}) // join / group column
	for i := 1; i < n; i++ {
		t.cols = append(t.cols, gcol{fmt.Sprintf("d%d", i), pick(rng, types), rng.Intn(5) == 0})
	}
	return t
}

func (t *gtable) createSQL() string {
	defs := make([]string, len(t.cols))
	for i, c := range t.cols {
		defs[i] = c.ddl()
	}
	pk := t.pk[0]
	if len(t.pk) > 1 {
		pk = "(" + strings.Join(t.pk, ", ") + ")"
	}
	return fmt.Sprintf("CREATE TABLE %s (%s, PRIMARY KEY %s)", t.name, strings.Join(defs, ", "), pk)
}

func (t *gtable) genIndexCols(rng *rand.Rand) []string {
	n := 1 + rng.Intn(2)
	if rng.Intn(6) == 0 {
		n = 3
	}
	perm := rng.Perm(len(t.cols))
	var cs []string
	for _, i := range perm {
		if len(cs) < n {
			cs = append(cs, t.cols[i].name)
		}
	}
	if rng.Intn(3) == 0 {
		cs[0] = "c"
		if len(cs) > 1 && cs[1] == "c" {
			cs = cs[:1]
		}
	}
	return cs
}

func (t *gtable) hasIndex(cs []string) bool {
	k := strings.Join(cs, ",")
	if k == strings.Join(t.pk, ",") {
		return true
	}
	for _, ix := range t.indexes {
		if strings.Join(ix, ",") == k {
			return true
		}
	}
	return false
}

func (t *gtable) genRow(rng *rand.Rand) string {
	vs := make([]string, len(t.cols))
	for i, c := range t.cols {
		vs[i] = genCell(rng, c)
		if c.name == "k" && c.typ == "INTEGER" {
			vs[i] = strconv.Itoa(rng.Intn(14))
		}
		if c.name == "k2" {
			vs[i] = strconv.Itoa(rng.Intn(3))
		}
	}
	return "(" + strings.Join(vs, ", ") + ")"
}

func (t *gtable) genDML(rng *rand.Rand) string {
	cols := strings.Join(t.colNames(), ", ")
	switch x := rng.Intn(20); {
	case x < 9:
		n := 1 + rng.Intn(3)
		rows := make([]string, n)
		for i := range rows {
			rows[i] = t.genRow(rng)
		}
		return fmt.Sprintf("INSERT INTO %s(%s) VALUES %s", t.name, cols, strings.Join(rows, ", "))
	case x < 12:
		return fmt.Sprintf("UPSERT INTO %s(%s) VALUES %s", t.name, cols, t.genRow(rng))
	case x < 17:
		var nonpk []gcol
		for _, c := range t.cols {
			if c.name != "k" && c.name != "k2" {
				nonpk = append(nonpk, c)
			}
		}
		c := pick(rng, nonpk)
		return fmt.Sprintf("UPDATE %s SET %s = %s WHERE %s", t.name, c.name, genCell(rng, c), genCond(rng, t, "", 1))
	default:
		return fmt.Sprintf("DELETE FROM %s WHERE %s", t.name, genCond(rng, t, "", 1))
	}
}

// ---------------------------------------------------------------- twins
type twin struct {
	what string
	sql  string
	// safe: the same query with every inner-table conjunct wrapped so that the hash-join planner
	// cannot mistake an `inner column = constant` conjunct for an equi-join pair; used only to
	// classify a divergence of this twin
	safe string
}

type gquery struct {
	kind   string
	base   string
	twins  []twin
	seq    bool      // total ORDER BY: compare as sequences
	sorted []ordSpec // check sortedness of every variant's output
}

func useClause(cs []string) string { return " USE INDEX ON (" + strings.Join(cs, ", ") + ")" }

func (t *gtable) allIndexes() [][]string {
	return append([][]string{t.pk}, t.indexes...)
}

func unpushCond(c string) string { return "(NOT (NOT (" + c + ")))" }

func genQueries(rng *rand.Rand, g1, g2 *gtable) []*gquery {
	var out []*gquery
	cols1 := strings.Join(g1.colNames(), ", ")
	pkOrder := func(desc bool) string {
		p := make([]string, len(g1.pk))
		for i, c := range g1.pk {
			p[i] = c
			if desc {
				p[i] += " DESC"
			}
		}
		return strings.Join(p, ", ")
	}
	pos := map[string]int{}
	for i, c := range g1.cols {
		pos[c.name] = i
	}
	n := 5 + rng.Intn(4)
	for i := 0; i < n; i++ {
		cond := genCond(rng, g1, "", 2)
		q := &gquery{}
		switch x := rng.Intn(20); {
		case x < 4: // plain filter
			q.kind = "filter"
			q.base = fmt.Sprintf("SELECT %s FROM %s WHERE %s", cols1, g1.name, cond)
			for _, ix := range g1.allIndexes() {
				q.twins = append(q.twins, twin{what: "use-index", sql: fmt.Sprintf("SELECT %s FROM %s%s WHERE %s", cols1, g1.name, useClause(ix), cond)})
			}
			q.twins = append(q.twins, twin{what: "not-pushed", sql: fmt.Sprintf("SELECT %s FROM %s WHERE %s", cols1, g1.name, unpushCond(cond))})
			q.twins = append(q.twins, twin{what: "derived-table", sql: fmt.Sprintf("SELECT %s FROM (SELECT %s FROM %s) WHERE %s", cols1, cols1, g1.name, cond)})
		case x < 8: // ORDER BY (+ LIMIT/OFFSET when total)
			oc := pick(rng, g1.cols)
			desc := rng.Intn(2) == 0
			d := ""
			if desc {
				d = " DESC"
			}
			total := rng.Intn(3) > 0
			order := oc.name + d
			q.sorted = []ordSpec{{pos: pos[oc.name], desc: desc}}
			if total {
				order += ", " + pkOrder(desc)
				for _, c := range g1.pk {
					q.sorted = append(q.sorted, ordSpec{pos: pos[c], desc: desc})
				}
				q.seq = true
			}
			win := ""
			if total && rng.Intn(2) == 0 {
				win = fmt.Sprintf(" LIMIT %d", 1+rng.Intn(4))
				if rng.Intn(2) == 0 {
					win += fmt.Sprintf(" OFFSET %d", rng.Intn(4))
				}
			}
			q.kind = "order" + map[bool]string{true: "+window", false: ""}[win != ""]
			q.base = fmt.Sprintf("SELECT %s FROM %s WHERE %s ORDER BY %s%s", cols1, g1.name, cond, order, win)
			for _, ix := range g1.allIndexes() {
				q.twins = append(q.twins, twin{what: "use-index", sql: fmt.Sprintf("SELECT %s FROM %s%s WHERE %s ORDER BY %s%s", cols1, g1.name, useClause(ix), cond, order, win)})
			}
			q.twins = append(q.twins, twin{what: "not-pushed", sql: fmt.Sprintf("SELECT %s FROM %s WHERE %s ORDER BY %s%s", cols1, g1.name, unpushCond(cond), order, win)})
		case x < 10: // DISTINCT
			dc := pick(rng, g1.cols).name
			q.kind = "distinct"
			q.base = fmt.Sprintf("SELECT DISTINCT %s FROM %s WHERE %s", dc, g1.name, cond)
			for _, ix := range g1.allIndexes() {
				q.twins = append(q.twins, twin{what: "use-index", sql: fmt.Sprintf("SELECT DISTINCT %s FROM %s%s WHERE %s", dc, g1.name, useClause(ix), cond)})
			}
			q.twins = append(q.twins, twin{what: "group-by", sql: fmt.Sprintf("SELECT %s FROM %s WHERE %s GROUP BY %s", dc, g1.name, cond, dc)})
		case x < 14: // GROUP BY with aggregates (stream aggregation over an index vs hash aggregation)
			gc := "c"
			if rng.Intn(3) == 0 {
				gc = pick(rng, g1.cols).name
			}
			var aggs []string
			aggs = append(aggs, "COUNT(*)")
			for _, c := range g1.cols {
				if rng.Intn(2) == 0 {
					continue
				}
				switch c.typ {
				case "INTEGER":
					if c.name != "k" {
						aggs = append(aggs, pick(rng, []string{"MIN", "MAX", "COUNT"})+"("+c.name+")")
					}
				case "VARCHAR", "TIMESTAMP", "FLOAT":
					aggs = append(aggs, pick(rng, []string{"MIN", "MAX", "COUNT"})+"("+c.name+")")
				}
			}
			having := ""
			if rng.Intn(3) == 0 {
				having = fmt.Sprintf(" HAVING COUNT(*) >= %d", 1+rng.Intn(2))
			}
			q.kind = "group-by"
			sel := gc + ", " + strings.Join(aggs, ", ")
			q.base = fmt.Sprintf("SELECT %s FROM %s WHERE %s GROUP BY %s%s", sel, g1.name, cond, gc, having)
			for _, ix := range g1.allIndexes() {
				q.twins = append(q.twins, twin{what: "use-index", sql: fmt.Sprintf("SELECT %s FROM %s%s WHERE %s GROUP BY %s%s", sel, g1.name, useClause(ix), cond, gc, having)})
			}
			q.twins = append(q.twins, twin{what: "not-pushed", sql: fmt.Sprintf("SELECT %s FROM %s WHERE %s GROUP BY %s%s", sel, g1.name, unpushCond(cond), gc, having)})
			q.twins = append(q.twins, twin{what: "order-by-group-col", sql: fmt.Sprintf("SELECT %s FROM %s WHERE %s GROUP BY %s%s ORDER BY %s", sel, g1.name, cond, gc, having, gc)})
		case x < 18: // joins
			jt := pick(rng, []string{"INNER", "LEFT"})
			c2 := genCond(rng, g2, "r", 1)
			c1 := genCond(rng, g1, "l", 1)
			on := "l.c = r.x"
			sel := "l." + strings.Join(g1.pk, ", l.") + ", l.c, r.j, r.x, r.y"
			where := c1
			if jt == "INNER" && rng.Intn(2) == 0 {
				where = "(" + c1 + " AND " + c2 + ")"
			}
			q.kind = "join-" + strings.ToLower(jt)
			mk := func(u1, u2, onc, w string) string {
				return fmt.Sprintf("SELECT %s FROM %s AS l%s %s JOIN %s AS r%s ON %s WHERE %s", sel, g1.name, u1, jt, g2.name, u2, onc, w)
			}
			q.base = mk("", "", on, where)
			for _, ix := range g1.allIndexes() {
				q.twins = append(q.twins, twin{what: "use-index-left", sql: mk(useClause(ix), "", on, where)})
			}
			for _, ix := range g2.allIndexes() {
				q.twins = append(q.twins, twin{what: "use-index-right", sql: mk("", useClause(ix), on, where)})
			}
			safeWhere := c1
			if where != c1 {
				safeWhere = "(" + c1 + " AND " + unpushCond(c2) + ")"
			}
			q.twins = append(q.twins, twin{what: "on-not-equi", sql: mk("", "", "(NOT (l.c <> r.x))", where),
				safe: mk("", "", "(NOT (l.c <> r.x))", safeWhere)})
			q.twins = append(q.twins, twin{what: "on-swapped", sql: mk("", "", "r.x = l.c", where)})
			if rng.Intn(2) == 0 { // a non-equi join next to an inner-only conjunct, written in two ways
				q2 := &gquery{kind: "join-nonequi"}
				op := pick(rng, []string{"<", "<=", ">", ">=", "<>"})
				q2.base = mk("", "", "(l.c "+op+" r.x AND "+unpushCond(c2)+")", c1)
				q2.twins = append(q2.twins, twin{what: "inner-conjunct-plain", sql: mk("", "", "(l.c "+op+" r.x AND "+c2+")", c1),
					safe: q2.base})
				out = append(out, q2)
			}
		default: // subqueries
			c2 := genCond(rng, g2, "", 1)
			q.kind = "subquery"
			pkc := strings.Join(g1.pk, ", ")
			q.base = fmt.Sprintf("SELECT %s, c FROM %s WHERE c IN (SELECT x FROM %s WHERE %s) AND %s", pkc, g1.name, g2.name, c2, cond)
			for _, ix := range g1.allIndexes() {
				q.twins = append(q.twins, twin{what: "use-index", sql: fmt.Sprintf("SELECT %s, c FROM %s%s WHERE c IN (SELECT x FROM %s WHERE %s) AND %s", pkc, g1.name, useClause(ix), g2.name, c2, cond)})
			}
			for _, ix := range g2.allIndexes() {
				q.twins = append(q.twins, twin{what: "use-index-inner", sql: fmt.Sprintf("SELECT %s, c FROM %s WHERE c IN (SELECT x FROM %s%s WHERE %s) AND %s", pkc, g1.name, g2.name, useClause(ix), c2, cond)})
			}
			q.twins = append(q.twins, twin{what: "exists", sql: fmt.Sprintf("SELECT %s, c FROM %s WHERE EXISTS (SELECT j FROM %s WHERE %s.x = %s.c AND %s) AND %s",
				pkc, g1.name, g2.name, g2.name, g1.name, c2, cond)})
		}
		out = append(out, q)
	}
	return out
}

// ---------------------------------------------------------------- running one general data set
type gscript struct {
	stmts []string
}

func (s *gscript) text() string { return strings.Join(s.stmts, "; ") }

func genGeneral(r *vk.Run, ds int) error {
	rng := r.Rng
	v, err := newEnv()
	if err != nil {
		return err
	}
	defer v.close()
	sc := &gscript{}
	run := func(stmt string, tx *sql.SQLTx) (*sql.SQLTx, error) {
		ntx, err := v.exec(tx, stmt)
		if err == nil {
			sc.stmts = append(sc.stmts, stmt)
		}
		return ntx, err
	}
	g1 := genSchema(rng, "g1")
	g2 := &gtable{name: "g2", pk: []string{"j"}, uniq: map[string]bool{},
		cols: []gcol{{"j", "INTEGER", true}, {"x", "INTEGER", false}, {"y", "VARCHAR", false}}}
	g3 := &gtable{name: "g3", pk: []string{"z"}, cols: []gcol{{"z", "INTEGER", true}, {"w", "INTEGER", false}}}
	for _, t := range []*gtable{g1, g2, g3} {
		if _, err := run(t.createSQL(), nil); err != nil {
			return fmt.Errorf("%s: %w", t.createSQL(), err)
		}
	}
	addIndex := func(t *gtable, unique bool) {
		cs := t.genIndexCols(rng)
		if t.hasIndex(cs) {
			return
		}
		u := ""
		if unique {
			u = "UNIQUE "
		}
		stmt := fmt.Sprintf("CREATE %sINDEX ON %s(%s)", u, t.name, strings.Join(cs, ", "))
		if _, err := run(stmt, nil); err != nil {
			r.Stats["general/ddl-refused"]++
			return
		}
		t.indexes = append(t.indexes, cs)
		if unique {
			t.uniq[strings.Join(cs, ",")] = true
		}
	}
	for i := 0; i < rng.Intn(3); i++ {
		addIndex(g1, rng.Intn(5) == 0)
	}
	if rng.Intn(2) == 0 {
		g2.indexes = append(g2.indexes, []string{"x"})
		if _, err := run("CREATE INDEX ON g2(x)", nil); err != nil {
			return err
		}
	}
	// DML history; statements may legitimately fail (duplicate pk, unique violation, NOT NULL): the
	// failed statement is simply not part of the history
	type snap struct {
		tx   uint64
		rows []string
	}
	var snaps []snap
	cols1 := strings.Join(g1.colNames(), ", ")
	nHist := 4 + rng.Intn(10)
	afterAt := rng.Intn(nHist)
	for i := 0; i < nHist; i++ {
		if i == afterAt {
			for j := 0; j < 1+rng.Intn(2); j++ {
				addIndex(g1, false)
			}
			if len(g2.indexes) == 0 && rng.Intn(2) == 0 {
				if _, err := run("CREATE INDEX ON g2(x)", nil); err == nil {
					g2.indexes = append(g2.indexes, []string{"x"})
				}
			}
		}
		t := g1
		if rng.Intn(3) == 0 {
			t = g2
		}
		var stmt string
		if rng.Intn(5) == 0 {
			var ss []string
			for j := 0; j < 2+rng.Intn(2); j++ {
				ss = append(ss, "INSERT INTO "+t.name+"("+strings.Join(t.colNames(), ", ")+") VALUES "+t.genRow(rng))
			}
			stmt = "BEGIN TRANSACTION; " + strings.Join(ss, "; ") + "; COMMIT;"
		} else {
			stmt = t.genDML(rng)
		}
		if _, err := run(stmt, nil); err != nil {
			r.Stats["general/dml-refused"]++
			continue
		}
		if t == g1 && rng.Intn(3) == 0 {
			res := v.query(nil, fmt.Sprintf("SELECT %s FROM g1", cols1))
			if res.err == nil {
				snaps = append(snaps, snap{tx: v.st.LastCommittedTxID(), rows: renderRows(res.rows)})
			}
		}
	}

	qs := genQueries(rng, g1, g2)
	script := clip(sc.text(), 3000)
	report := func(kind, what, state, base, other string, rb, ro result) {
		r.Finding(fmt.Sprintf("%s: twin=%s state=%s seed=%d general-dataset=%d base=[%s] => %s ; twin=[%s] => %s ; script=[%s]",
			kind, what, state, r.Seed, ds, base, clip(resText(rb), 600), other, clip(resText(ro), 600), script))
	}
	compare := func(q *gquery, state string, tx *sql.SQLTx) []string {
		rb := v.query(tx, q.base)
		if rb.err != nil {
			r.Stats["general/base-error"]++
			return nil
		}
		baseR := renderRows(rb.rows)
		r.Stats["general/"+q.kind]++
		if len(q.sorted) > 0 {
			if ok, at := isSorted(q.sorted, rb.rows); !ok {
				r.Finding(fmt.Sprintf("order-by-not-sorted: rows %d,%d state=%s seed=%d general-dataset=%d query=[%s] => %s ; script=[%s]",
					at, at+1, state, r.Seed, ds, q.base, clip(resText(rb), 800), script))
			}
		}
		for _, tw := range q.twins {
			ro := v.query(tx, tw.sql)
			r.Stats["general/twin/"+tw.what]++
			if ro.err != nil {
				report("twin-error", tw.what, state, q.base, tw.sql, rb, ro)
				continue
			}
			oR := renderRows(ro.rows)
			same := sameMultiset(baseR, oR)
			if same && q.seq {
				same = sameSeq(baseR, oR)
			}
			if !same {
				kind := "twin-divergence"
				if tw.safe != "" {
					if rs := v.query(tx, tw.safe); rs.err == nil && sameMultiset(baseR, renderRows(rs.rows)) {
						kind = knownHashTag
					}
				}
				report(kind, tw.what, state, q.base, tw.sql, rb, ro)
			}
			if len(q.sorted) > 0 {
				if ok, at := isSorted(q.sorted, ro.rows); !ok {
					r.Finding(fmt.Sprintf("order-by-not-sorted: rows %d,%d state=%s seed=%d general-dataset=%d query=[%s] => %s ; script=[%s]",
						at, at+1, state, r.Seed, ds, tw.sql, clip(resText(ro), 800), script))
				}
			}
		}
		return baseR
	}
	across := func(q *gquery, a, b []string, sa, sb string) {
		if a == nil || b == nil {
			return
		}
		same := sameMultiset(a, b)
		if same && q.seq {
			same = sameSeq(a, b)
		}
		if !same {
			r.Finding(fmt.Sprintf("state-divergence: %s vs %s seed=%d general-dataset=%d query=[%s] %s=%v %s=%v script=[%s]",
				sa, sb, r.Seed, ds, q.base, sa, clip(strings.Join(a, " "), 600), sb, clip(strings.Join(b, " "), 600), script))
		}
	}
	// partition by a predicate and count-on-index, on committed data
	partition := func(state string, tx *sql.SQLTx) {
		for i := 0; i < 3; i++ {
			base := genCond(rng, g1, "", 1)
			p := genCond(rng, g1, "", 2)
			use := ""
			if len(g1.indexes) > 0 && rng.Intn(2) == 0 {
				use = useClause(pick(rng, g1.indexes))
			}
			pkc := strings.Join(g1.pk, ", ")
			qAll := fmt.Sprintf("SELECT %s FROM g1%s WHERE %s", pkc, use, base)
			parts := []string{
				fmt.Sprintf("SELECT %s FROM g1%s WHERE (%s) AND (%s)", pkc, use, base, p),
				fmt.Sprintf("SELECT %s FROM g1%s WHERE (%s) AND (NOT (%s))", pkc, use, base, p),
				fmt.Sprintf("SELECT %s FROM g1%s WHERE (%s) AND ((%s) IS NULL)", pkc, use, base, p),
			}
			ra := v.query(tx, qAll)
			if ra.err != nil {
				r.Stats["general/base-error"]++
				continue
			}
			var union []string
			bad := false
			for _, ps := range parts {
				rp := v.query(tx, ps)
				if rp.err != nil {
					bad = true
					report("twin-error", "partition", state, qAll, ps, ra, rp)
					break
				}
				union = append(union, renderRows(rp.rows)...)
			}
			r.Stats["general/partition"]++
			if !bad && !sameMultiset(union, renderRows(ra.rows)) {
				r.Finding(fmt.Sprintf("partition-broken: state=%s seed=%d general-dataset=%d query=[%s] parts P / NOT P / P IS NULL with P=[%s] give %v, whole gives %v ; script=[%s]",
					state, r.Seed, ds, qAll, p, clip(strings.Join(sortedCopy(union), " "), 500), clip(strings.Join(sortedCopy(renderRows(ra.rows)), " "), 500), script))
			}
			// COUNT(*) (count-on-index fast path) against the row list
			qc := fmt.Sprintf("SELECT COUNT(*) FROM g1%s WHERE %s", use, base)
			rc := v.query(tx, qc)
			r.Stats["general/count"]++
			if rc.err != nil {
				report("twin-error", "count", state, qAll, qc, ra, rc)
			} else if len(rc.rows) != 1 || len(rc.rows[0]) != 1 || rc.rows[0][0] != int64(len(ra.rows)) {
				report("twin-divergence", "count", state, qAll, qc, ra, rc)
			}
		}
	}

	// state 1: inside an open read-write transaction that has written to an unrelated table
	tx, err := v.exec(nil, "BEGIN TRANSACTION")
	if err != nil {
		return err
	}
	if tx, err = v.exec(tx, fmt.Sprintf("INSERT INTO g3(z, w) VALUES (%d, 1)", 1+rng.Intn(100))); err != nil {
		return err
	}
	inTx := make([][]string, len(qs))
	for i, q := range qs {
		inTx[i] = compare(q, "in-tx", tx)
	}
	if _, err = v.exec(tx, "COMMIT"); err != nil {
		return err
	}
	// state 2: committed
	committed := make([][]string, len(qs))
	for i, q := range qs {
		committed[i] = compare(q, "committed", nil)
		across(q, inTx[i], committed[i], "in-tx", "committed")
	}
	partition("committed", nil)
	// historical reads: the table as of an earlier transaction, through every index
	for _, s := range snaps {
		for _, ix := range g1.allIndexes() {
			hq := fmt.Sprintf("SELECT %s FROM g1 BEFORE TX %d%s", cols1, s.tx+1, useClause(ix))
			rh := v.query(nil, hq)
			r.Stats["general/historical"]++
			if rh.err != nil {
				r.Finding(fmt.Sprintf("twin-error: twin=historical seed=%d general-dataset=%d query=[%s] err=%v script=[%s]", r.Seed, ds, hq, rh.err, script))
				continue
			}
			if got := renderRows(rh.rows); !sameMultiset(got, s.rows) {
				kind := "historical-divergence"
				if strings.Join(ix, ",") != strings.Join(g1.pk, ",") && containsMultiset(got, s.rows) {
					// nothing is missing: the read through the secondary index returns additional rows
					kind = knownHistTag
				}
				r.Finding(fmt.Sprintf("%s: seed=%d general-dataset=%d query=[%s] => %s ; the table right after tx %d was %v ; script=[%s]",
					kind, r.Seed, ds, hq, clip(resText(rh), 600), s.tx, clip(strings.Join(s.rows, " "), 600), script))
			}
			// historical COUNT(*) with a predicate on the scanned index's own columns (the key-only count
			// path) against the historical rows the same predicate selects; primary index only (reads of
			// the past through a secondary index are a listed finding)
			if strings.Join(ix, ",") == strings.Join(g1.pk, ",") {
				for k := 0; k < 3; k++ {
					c := g1.col(ix[rng.Intn(len(ix))])
					pred := fmt.Sprintf("%s %s %s", c.name, pick(rng, cmpOps), genLit(rng, c.typ))
					hrq := fmt.Sprintf("SELECT %s FROM g1 BEFORE TX %d%s WHERE %s", cols1, s.tx+1, useClause(ix), pred)
					hcq := fmt.Sprintf("SELECT COUNT(*) FROM g1 BEFORE TX %d%s WHERE %s", s.tx+1, useClause(ix), pred)
					rr, rc := v.query(nil, hrq), v.query(nil, hcq)
					r.Stats["general/historical-count"]++
					if rr.err != nil || rc.err != nil {
						r.Finding(fmt.Sprintf("twin-error: twin=historical-count seed=%d general-dataset=%d query=[%s] err=%v / query=[%s] err=%v script=[%s]", r.Seed, ds, hrq, rr.err, hcq, rc.err, script))
					} else if len(rc.rows) != 1 || len(rc.rows[0]) != 1 || rc.rows[0][0] != int64(len(rr.rows)) {
						r.Finding(fmt.Sprintf("twin-divergence: twin=historical-count seed=%d general-dataset=%d query=[%s] => %s but [%s] => %s ; script=[%s]",
							r.Seed, ds, hcq, clip(resText(rc), 200), hrq, clip(resText(rr), 600), script))
					}
				}
			}
		}
	}
	// state 3: after close + reopen
	if err := v.reopen(); err != nil {
		return err
	}
	for i, q := range qs {
		re := compare(q, "reopened", nil)
		across(q, committed[i], re, "committed", "reopened")
	}
	partition("reopened", nil)
	return nil
}

const knownHistTag = "historical-read-through-secondary-index-returns-extra-rows"
const knownHashTag = "hash-join-takes-inner-constant-equality-for-equi-pair"

// does multiset a contain multiset b
func containsMultiset(a, b []string) bool {
	cnt := map[string]int{}
	for _, x := range a {
		cnt[x]++
	}
	for _, x := range b {
		if cnt[x] == 0 {
			return false
		}
		cnt[x]--
	}
	return true
}

func resText(r result) string {
	if r.err != nil {
		return "ERROR " + r.err.Error()
	}
	rs := renderRows(r.rows)
	return fmt.Sprintf("%d rows %s", len(rs), strings.Join(rs, " "))
}

var _ = sort.Strings
