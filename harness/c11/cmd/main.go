package main

import (
	"verif/harness/c11"
	"verif/harness/vk"
)

func main() { vk.Main("Tie.C11", c11.Gen, c11.Replay) }
