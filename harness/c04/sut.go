package c04

import (
	"context"
	"errors"
	"fmt"
	"io"
	"os"
	"time"

	"github.com/codenotary/immudb/embedded/logger"
	"github.com/codenotary/immudb/embedded/store"
)

// configuration of one store run
type StoreCfg struct {
	Multi     bool
	MaxBulk   int
	Adaptive  bool
	BulkTO    time.Duration
	MaxTxEs   int
	MaxKeyLen int
	FlushThld int
	SyncThld  int
	NodeSize  int
	Cache     int
	MaxSnaps  int
	Cleanup   float32
	MaxBuf    int
	CompThld  int
	FileSize  int
	Embedded  bool
}

func (c StoreCfg) js() map[string]any {
	return map[string]any{"multi": c.Multi, "maxbulk": c.MaxBulk, "adaptive": c.Adaptive, "bulkto_ms": c.BulkTO.Milliseconds(),
		"maxtxes": c.MaxTxEs, "maxkey": c.MaxKeyLen, "flush": c.FlushThld, "sync": c.SyncThld, "node": c.NodeSize, "cache": c.Cache,
		"maxsnaps": c.MaxSnaps, "cleanup": c.Cleanup, "maxbuf": c.MaxBuf, "compthld": c.CompThld, "filesize": c.FileSize, "embedded": c.Embedded}
}

type sut struct {
	dir   string
	cfg   StoreCfg
	idxs  []Cfg
	st    *store.ImmuStore
	h     []Tx
	ctx   context.Context
	snaps []*store.Snapshot // kept open on purpose (active snapshots while indexing goes on)
}

func (s *sut) opts() *store.Options {
	var lw io.Writer = io.Discard
	if os.Getenv("VERIF_C04_DEBUG") != "" {
		lw = os.Stderr
	}
	lg := logger.NewSimpleLoggerWithLevel("vh", lw, logger.LogError)
	io_ := store.DefaultIndexOptions().
		WithMaxBulkSize(s.cfg.MaxBulk).
		WithAdaptiveBulkSize(s.cfg.Adaptive).
		WithBulkPreparationTimeout(s.cfg.BulkTO).
		WithFlushThld(s.cfg.FlushThld).
		WithSyncThld(s.cfg.SyncThld).
		WithMaxNodeSize(s.cfg.NodeSize).
		WithCacheSize(s.cfg.Cache).
		WithMaxActiveSnapshots(s.cfg.MaxSnaps).
		WithCleanupPercentage(s.cfg.Cleanup).
		WithMaxBufferedDataSize(s.cfg.MaxBuf).
		WithCompactionThld(s.cfg.CompThld).
		WithRenewSnapRootAfter(0)
	return store.DefaultOptions().WithLogger(lg).WithIndexOptions(io_).
		WithMaxTxEntries(s.cfg.MaxTxEs).WithMaxKeyLen(s.cfg.MaxKeyLen).WithMaxValueLen(256).
		WithSynced(false).WithMultiIndexing(s.cfg.Multi).WithFileSize(s.cfg.FileSize).
		WithEmbeddedValues(s.cfg.Embedded).WithMaxConcurrency(4)
}

func newSut(cfg StoreCfg, idxs []Cfg) (*sut, error) {
	dir, err := os.MkdirTemp("", "vh-c04-")
	if err != nil {
		return nil, err
	}
	s := &sut{dir: dir, cfg: cfg, idxs: idxs, ctx: context.Background()}
	if err := s.open(); err != nil {
		os.RemoveAll(dir)
		return nil, err
	}
	return s, nil
}

func (s *sut) open() error {
	st, err := store.Open(s.dir, s.opts())
	if err != nil {
		return err
	}
	s.st = st
	if s.cfg.Multi {
		for _, c := range s.idxs {
			if err := st.InitIndexing(c.spec()); err != nil {
				st.Close()
				return fmt.Errorf("InitIndexing %s: %w", c.Name, err)
			}
		}
	}
	return nil
}

func (s *sut) closeSnaps() {
	for _, sn := range s.snaps {
		sn.Close()
	}
	s.snaps = nil
}

func (s *sut) reopen() error {
	s.closeSnaps()
	if err := s.st.Close(); err != nil {
		return err
	}
	return s.open()
}

func (s *sut) destroy() {
	s.closeSnaps()
	if s.st != nil {
		s.st.Close()
	}
	os.RemoveAll(s.dir)
}

var errNothingToCommit = errors.New("no entry accepted")

// commit one transaction (without waiting for the indexers) and read it back from the log
func (s *sut) commit(t *Tx) error {
	otx, err := s.st.NewWriteOnlyTx(s.ctx)
	if err != nil {
		return err
	}
	if len(t.Extra) > 0 {
		md := store.NewTxMetadata()
		if err := md.WithExtra(t.Extra); err != nil {
			return err
		}
		otx.WithMetadata(md)
	}
	var accepted []Entry
	for i := range t.Es {
		e := &t.Es[i]
		var md *store.KVMetadata
		if !e.mdEmpty() {
			md = store.NewKVMetadata()
			if e.Del {
				md.AsDeleted(true)
			}
			if e.Exp != nil {
				md.ExpiresAt(time.Unix(int64(*e.Exp), 0))
			}
			if e.NIdx {
				md.AsNonIndexable(true)
			}
		}
		if err := otx.Set(e.Key, md, e.Val); err != nil {
			if errors.Is(err, store.ErrCannotUpdateKeyTransiency) {
				// a raw key equal to the mapped key of an entry of the same transaction is
				// refused by the ongoing transaction: the entry is simply not part of the history
				continue
			}
			otx.Cancel()
			return err
		}
		accepted = append(accepted, *e)
	}
	if len(accepted) == 0 {
		otx.Cancel()
		return errNothingToCommit
	}
	t.Es = accepted
	hdr, err := otx.AsyncCommit(s.ctx)
	if err != nil {
		return err
	}
	t.ID = hdr.ID
	t.Ts = hdr.Ts
	// the committed record: value offsets and digests as written to the tx log
	holder := store.NewTx(s.cfg.MaxTxEs, s.cfg.MaxKeyLen)
	if err := s.st.ReadTx(hdr.ID, false, holder); err != nil {
		return err
	}
	es := holder.Entries()
	if len(es) != len(t.Es) {
		return fmt.Errorf("tx %d read back with %d entries, committed %d", hdr.ID, len(es), len(t.Es))
	}
	for i, e := range es {
		if string(e.Key()) != string(t.Es[i].Key) {
			return fmt.Errorf("tx %d entry %d read back with another key", hdr.ID, i)
		}
		t.Es[i].VOff = uint64(e.VOff())
		t.Es[i].HVal = e.HVal()
	}
	s.h = append(s.h, *t)
	return nil
}

func (s *sut) waitIndexed(upto uint64, timeout time.Duration) bool {
	ctx, cancel := context.WithTimeout(s.ctx, timeout)
	defer cancel()
	return s.st.WaitForIndexingUpto(ctx, upto) == nil
}

// ---------- reads ----------
func orefOf(v store.ValueRef) ORef {
	o := ORef{Tx: v.Tx(), HC: v.HC(), VLen: uint64(v.Len()), VOff: uint64(v.VOff())}
	h := v.HVal()
	o.H4 = append([]byte{}, h[:4]...)
	if md := v.KVMetadata(); md != nil {
		o.Del = md.Deleted()
		o.NIdx = md.NonIndexable()
		if md.IsExpirable() {
			t, _ := md.ExpirationTime()
			x := uint64(t.Unix())
			o.Exp = &x
		}
	}
	if md := v.TxMetadata(); md != nil {
		o.TxMd = md.Bytes()
	}
	val, err := v.Resolve()
	o.Val, o.ValErr = val, err != nil
	return o
}

// errors that mean "no (live) entry"; anything else is unexpected and recorded as such
func expectedErr(err error) bool {
	return errors.Is(err, store.ErrKeyNotFound) || errors.Is(err, store.ErrExpiredEntry) ||
		errors.Is(err, store.ErrNoMoreEntries) || errors.Is(err, store.ErrOffsetOutOfRange) ||
		errors.Is(err, store.ErrIllegalArguments)
}

type unexpected struct{ errs []string }

func (u *unexpected) note(q Query, err error) {
	if err != nil && !expectedErr(err) {
		u.errs = append(u.errs, fmt.Sprintf("%s: %v", q.String(), err))
	}
}

func (s *sut) filters(r RSpec) []store.FilterFn {
	var fs []store.FilterFn
	if r.IgnDel {
		fs = append(fs, store.IgnoreDeleted)
	}
	if r.IgnExp {
		fs = append(fs, store.IgnoreExpired)
	}
	return fs
}

// run one query against the store; snap is a snapshot of the index under test that includes `upto`
func (s *sut) ask(c Cfg, snap *store.Snapshot, q Query, u *unexpected) Obs {
	switch q.Kind {
	case "get":
		var v store.ValueRef
		var err error
		if q.SnapGet {
			v, err = snap.Get(s.ctx, q.K)
		} else {
			v, err = s.st.Get(s.ctx, q.K)
		}
		u.note(q, err)
		if err != nil {
			return Obs{Kind: "ref", Err: true}
		}
		return Obs{Kind: "ref", Ref: orefOf(v)}
	case "between":
		var v store.ValueRef
		var err error
		if q.SnapGet {
			v, err = snap.GetBetween(s.ctx, q.K, q.Lo, q.Hi)
		} else {
			v, err = s.st.GetBetween(s.ctx, q.K, q.Lo, q.Hi)
		}
		u.note(q, err)
		if err != nil {
			return Obs{Kind: "ref", Err: true}
		}
		return Obs{Kind: "ref", Ref: orefOf(v)}
	case "hist", "snaphist":
		var vs []store.ValueRef
		var hc uint64
		var err error
		if q.Kind == "hist" {
			vs, hc, err = s.st.History(q.K, q.Off, q.Desc, int(q.Lim))
		} else {
			vs, hc, err = snap.History(q.K, q.Off, q.Desc, int(q.Lim))
		}
		u.note(q, err)
		if err != nil {
			return Obs{Kind: "hist", Err: true}
		}
		o := Obs{Kind: "hist", HC: hc}
		for _, v := range vs {
			o.Refs = append(o.Refs, orefOf(v))
		}
		return o
	case "prefix":
		var k []byte
		var v store.ValueRef
		var err error
		if q.SnapGet {
			k, v, err = snap.GetWithPrefix(s.ctx, q.K, q.Neq)
		} else {
			k, v, err = s.st.GetWithPrefix(s.ctx, q.K, q.Neq)
		}
		u.note(q, err)
		if err != nil {
			return Obs{Kind: "keyref", Err: true}
		}
		return Obs{Kind: "keyref", Key: append([]byte{}, k...), Ref: orefOf(v)}
	case "scan", "scanbetween":
		rd, err := snap.NewKeyReader(store.KeyReaderSpec{SeekKey: q.R.Seek, EndKey: q.R.End, Prefix: q.R.Prefix,
			InclusiveSeek: q.R.InclSeek, InclusiveEnd: q.R.InclEnd, DescOrder: q.R.Desc, Filters: s.filters(q.R), Offset: q.R.Offset})
		if err != nil {
			u.errs = append(u.errs, fmt.Sprintf("%s: NewKeyReader: %v", q.String(), err))
			return Obs{Kind: "list", Err: true}
		}
		defer rd.Close()
		o := Obs{Kind: "list"}
		for n := 0; ; n++ {
			var k []byte
			var v store.ValueRef
			if q.Kind == "scan" {
				k, v, err = rd.Read(s.ctx)
			} else {
				k, v, err = rd.ReadBetween(s.ctx, q.Lo, q.Hi)
			}
			if errors.Is(err, store.ErrNoMoreEntries) {
				return o
			}
			if err != nil || n > 100000 {
				u.errs = append(u.errs, fmt.Sprintf("%s: Read: %v", q.String(), err))
				return Obs{Kind: "list", Err: true}
			}
			o.List = append(o.List, KRef{Key: append([]byte{}, k...), Ref: orefOf(v)})
		}
	}
	panic("query kind")
}
