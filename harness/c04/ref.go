package c04

import (
	"bytes"
	"sort"
)

// Go re-implementation of coq/Idx/Spec.v: the oracle of the direct property check.

type Ver struct {
	Tx    uint64
	TxExt []byte // extra metadata of the transaction the entry was written in
	Del   bool
	Exp   *uint64
	NIdx  bool
	E     *Entry
}

type RefIndex struct {
	Keys []string         // bcmp order
	Vers map[string][]Ver // newest first
}

func hasPrefix(k, p []byte) bool { return len(k) >= len(p) && bytes.Equal(k[:len(p)], p) }

func indexable(c Cfg, e *Entry) bool { return !e.NIdx && hasPrefix(e.Key, c.SP) }
func skey(c Cfg, e *Entry) []byte    { return c.SM.apply(e.Key, e.Val) }
func tkey(c Cfg, e *Entry) []byte    { return c.TM.apply(skey(c, e), e.Val) }

type kv struct {
	k string
	v Ver
}

func txKVs(c Cfg, done []Tx, t *Tx) []kv {
	var out []kv
	for i := range t.Es {
		e := &t.Es[i]
		if !indexable(c, e) {
			continue
		}
		tk := tkey(c, e)
		out = append(out, kv{string(tk), Ver{Tx: t.ID, TxExt: t.Extra, Del: e.Del, Exp: e.Exp, NIdx: e.NIdx, E: e}})
		if !(c.Inj && c.Src != 0) {
			continue
		}
		sk := skey(c, e)
		// latest earlier transaction with an indexable entry mapped to the same source key
		var pt *Tx
		for j := len(done) - 1; j >= 0 && pt == nil; j-- {
			for x := range done[j].Es {
				e2 := &done[j].Es[x]
				if indexable(c, e2) && bytes.Equal(skey(c, e2), sk) {
					pt = &done[j]
					break
				}
			}
		}
		if pt == nil {
			continue
		}
		var pe *Entry
		for x := range pt.Es {
			if bytes.Equal(pt.Es[x].Key, e.Key) {
				pe = &pt.Es[x]
				break
			}
		}
		if pe == nil || pe.Del {
			// a previous version that is itself a logical delete deleted its mapped key when it
			// was indexed (and its value may be truncated away): nothing to add
			continue
		}
		pk := c.TM.apply(sk, pe.Val)
		if bytes.Equal(pk, tk) {
			continue
		}
		out = append(out, kv{string(pk), Ver{Tx: t.ID, TxExt: pt.Extra, Del: true, Exp: pe.Exp, NIdx: pe.NIdx, E: pe}})
	}
	return out
}

func buildRef(c Cfg, h []Tx, n int) *RefIndex {
	ix := &RefIndex{Vers: map[string][]Ver{}}
	for i := 0; i < n && i < len(h); i++ {
		seen := map[string]bool{}
		for _, x := range txKVs(c, h[:i], &h[i]) {
			if seen[x.k] {
				continue
			}
			seen[x.k] = true
			ix.Vers[x.k] = append([]Ver{x.v}, ix.Vers[x.k]...)
		}
	}
	for k := range ix.Vers {
		ix.Keys = append(ix.Keys, k)
	}
	sort.Strings(ix.Keys) // byte-wise, = bytes.Compare
	return ix
}

func (v *Ver) oref(hc uint64) ORef {
	o := ORef{Tx: v.Tx, HC: hc, VLen: uint64(len(v.E.Val)), VOff: v.E.VOff, H4: append([]byte{}, v.E.HVal[:4]...),
		Del: v.Del, Exp: v.Exp, NIdx: v.NIdx, Val: v.E.Val}
	if len(v.TxExt) > 0 {
		o.TxMd = append([]byte{1, byte(len(v.TxExt) >> 8), byte(len(v.TxExt))}, v.TxExt...)
	}
	return o
}

func expired(now uint64, v *Ver) bool { return v.Exp != nil && *v.Exp <= now }

func (ix *RefIndex) between(vs []Ver, lo, hi uint64) (int, bool) {
	for i := range vs {
		if vs[i].Tx < lo {
			return 0, false
		}
		if hi == 0 || vs[i].Tx <= hi {
			return i, true
		}
	}
	return 0, false
}

func inRange(r RSpec, k []byte) bool {
	above := func(b []byte, incl bool) bool {
		if len(b) == 0 {
			return true
		}
		c := bytes.Compare(b, k)
		return c < 0 || (incl && c == 0)
	}
	below := func(b []byte, incl bool) bool {
		if len(b) == 0 {
			return true
		}
		c := bytes.Compare(k, b)
		return c < 0 || (incl && c == 0)
	}
	if !hasPrefix(k, r.Prefix) {
		return false
	}
	if r.Desc {
		return below(r.Seek, r.InclSeek) && above(r.End, r.InclEnd)
	}
	return above(r.Seek, r.InclSeek) && below(r.End, r.InclEnd)
}

func (ix *RefIndex) answer(now uint64, q Query) Obs {
	switch q.Kind {
	case "get":
		vs := ix.Vers[string(q.K)]
		if len(vs) == 0 || expired(now, &vs[0]) || vs[0].Del {
			return Obs{Kind: "ref", Err: true}
		}
		return Obs{Kind: "ref", Ref: vs[0].oref(uint64(len(vs)))}
	case "between":
		vs, ok := ix.Vers[string(q.K)]
		if !ok || q.Hi < q.Lo {
			return Obs{Kind: "ref", Err: true}
		}
		i, ok := ix.between(vs, q.Lo, q.Hi)
		if !ok {
			return Obs{Kind: "ref", Err: true}
		}
		return Obs{Kind: "ref", Ref: vs[i].oref(uint64(len(vs) - i))}
	case "hist", "snaphist":
		vs, ok := ix.Vers[string(q.K)]
		hc := uint64(len(vs))
		if q.Lim < 1 || !ok || q.Off >= hc {
			return Obs{Kind: "hist", Err: true}
		}
		n := q.Lim
		if n > hc-q.Off {
			n = hc - q.Off
		}
		o := Obs{Kind: "hist", HC: hc}
		for m := uint64(0); m < n; m++ {
			if q.Desc {
				o.Refs = append(o.Refs, vs[q.Off+m].oref(hc-q.Off-m))
			} else {
				o.Refs = append(o.Refs, vs[hc-1-q.Off-m].oref(q.Off+m+1))
			}
		}
		return o
	case "prefix":
		for _, k := range ix.Keys {
			kb := []byte(k)
			if bytes.Compare(q.K, kb) > 0 || (len(q.Neq) > 0 && bytes.Compare(q.Neq, kb) >= 0) {
				continue
			}
			vs := ix.Vers[k]
			if !hasPrefix(kb, q.K) || expired(now, &vs[0]) || vs[0].Del {
				return Obs{Kind: "keyref", Err: true}
			}
			return Obs{Kind: "keyref", Key: kb, Ref: vs[0].oref(uint64(len(vs)))}
		}
		return Obs{Kind: "keyref", Err: true}
	case "scan", "scanbetween":
		o := Obs{Kind: "list"}
		keys := ix.Keys
		if q.R.Desc {
			keys = make([]string, len(ix.Keys))
			for i, k := range ix.Keys {
				keys[len(keys)-1-i] = k
			}
		}
		skipped := uint64(0)
		for _, k := range keys {
			kb := []byte(k)
			if !inRange(q.R, kb) {
				continue
			}
			vs := ix.Vers[k]
			i := 0
			if q.Kind == "scanbetween" {
				if q.Hi < q.Lo {
					continue
				}
				var ok bool
				i, ok = ix.between(vs, q.Lo, q.Hi)
				if !ok {
					continue
				}
			}
			if (q.R.IgnDel && vs[i].Del) || (q.R.IgnExp && expired(now, &vs[i])) {
				continue
			}
			if skipped < q.R.Offset {
				skipped++
				continue
			}
			o.List = append(o.List, KRef{Key: kb, Ref: vs[i].oref(uint64(len(vs) - i))})
		}
		return o
	}
	panic("query kind")
}
