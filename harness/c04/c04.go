// Package c04: correspondence cases and falsifier for C04 "reads reflect exactly the committed log
// (index agrees with history)".
//
// A run commits a random history to a REAL store (temp dir) under a random index configuration
// (plain / prefixed / mapped / injective indexes, MaxBulkSize 1..16, small nodes, small cache, flush /
// sync thresholds), interleaved with flush, compaction, snapshots, index close+re-init and store
// close+reopen.  After WaitForIndexingUpto every read path (Get, GetBetween, History,
// Snapshot.History, GetWithPrefix, key readers with filters / offsets / ranges, ReadBetween) is
// exercised and recorded.  The Coq side evaluates the SPECIFICATION (Idx.Spec.index_of_history,
// case CSpec) and — when the bulk schedule of the indexer is known (indexing paused while a batch
// is committed, adaptive bulk) — the indexer MODEL with that schedule (case CModel).
// Every observation is also compared here with a Go re-implementation of the specification
// (ref.go); a departure is reported through r.Finding.
package c04

import (
	"bytes"
	"encoding/hex"
	"fmt"
	"strings"

	"github.com/codenotary/immudb/embedded/store"
	"verif/harness/vk"
)

// ---------- committed history ----------
type Entry struct {
	Key  []byte
	Val  []byte
	Del  bool
	Exp  *uint64 // unix seconds
	NIdx bool
	VOff uint64
	HVal [32]byte
}

type Tx struct {
	ID    uint64
	Ts    int64
	Extra []byte // tx metadata "extra" attribute (nil: no metadata)
	Es    []Entry
}

func (e *Entry) mdEmpty() bool { return !e.Del && e.Exp == nil && !e.NIdx }

func optN(p *uint64) string {
	if p == nil {
		return "None"
	}
	return fmt.Sprintf("(Some %d)", *p)
}

func (e *Entry) coq() string {
	return fmt.Sprintf("mke %s (mkmd %s %s %s) %s %d %s", vk.Hex(e.Key), vk.Bool(e.Del), optN(e.Exp), vk.Bool(e.NIdx),
		vk.Hex(e.Val), e.VOff, vk.Hex(e.HVal[:4]))
}

func (t *Tx) coq() string {
	es := make([]string, len(t.Es))
	for i := range t.Es {
		es[i] = t.Es[i].coq()
	}
	return fmt.Sprintf("mktx %d %d %s %s", t.ID, uint64(t.Ts), vk.OptHex(t.Extra), vk.List(es))
}

func coqHistory(h []Tx) string {
	ts := make([]string, len(h))
	for i := range h {
		ts[i] = h[i].coq()
	}
	return "[" + strings.Join(ts, ";\n   ") + "]"
}

// ---------- index configuration ----------
const (
	mNone = iota
	mRepl
	mVal
	mTrunc
)

type MapSel struct {
	Kind int
	P    []byte
	N, M int
}

func (m MapSel) apply(k, v []byte) []byte {
	drop := func(k []byte, n int) []byte {
		if n > len(k) {
			n = len(k)
		}
		return k[n:]
	}
	switch m.Kind {
	case mRepl:
		return append(append([]byte{}, m.P...), drop(k, m.N)...)
	case mVal:
		b := byte(0)
		if len(v) > 0 {
			b = v[0]
		}
		return append(append(append([]byte{}, m.P...), b), drop(k, m.N)...)
	case mTrunc:
		r := drop(k, m.N)
		if len(r) > m.M {
			r = r[:m.M]
		}
		return append(append([]byte{}, m.P...), r...)
	}
	return k
}

func (m MapSel) fn() store.EntryMapper {
	if m.Kind == mNone {
		return nil
	}
	return func(k, v []byte) ([]byte, error) { return m.apply(k, v), nil }
}

func (m MapSel) coq() string {
	switch m.Kind {
	case mRepl:
		return fmt.Sprintf("(MRepl %s %d)", vk.Hex(m.P), m.N)
	case mVal:
		return fmt.Sprintf("(MVal %s %d)", vk.Hex(m.P), m.N)
	case mTrunc:
		return fmt.Sprintf("(MTrunc %s %d %d)", vk.Hex(m.P), m.N, m.M)
	}
	return "MNone"
}

func (m MapSel) String() string {
	return [...]string{"none", "repl", "val", "trunc"}[m.Kind]
}

type Cfg struct {
	Name   string
	SP     []byte
	SM, TM MapSel
	TP     []byte
	Inj    bool
	Src    int // 0: no index registered for the source keys; 1: this index; 2: another index
}

func (c Cfg) spec() *store.IndexSpec {
	return &store.IndexSpec{SourcePrefix: c.SP, SourceEntryMapper: c.SM.fn(), TargetEntryMapper: c.TM.fn(),
		TargetPrefix: c.TP, InjectiveMapping: c.Inj}
}

func (c Cfg) coq() string {
	return fmt.Sprintf("(mkcfg %s %s %s %s %s %d)", vk.Hex(c.SP), c.SM.coq(), c.TM.coq(), vk.Hex(c.TP), vk.Bool(c.Inj), c.Src)
}

func (c Cfg) unmapped() bool { return c.SM.Kind == mNone && c.TM.Kind == mNone }

func (c Cfg) js() map[string]any {
	return map[string]any{"name": c.Name, "sp": hex.EncodeToString(c.SP), "sm": c.SM.String(), "tm": c.TM.String(),
		"tp": hex.EncodeToString(c.TP), "inj": c.Inj, "src": c.Src}
}

// ---------- queries and observations ----------
type RSpec struct {
	Seek, End, Prefix       []byte
	InclSeek, InclEnd, Desc bool
	IgnDel, IgnExp          bool
	Offset                  uint64
}

func (r RSpec) coq() string {
	return fmt.Sprintf("(mkr %s %s %s %s %s %s %s %s %d)", vk.Hex(r.Seek), vk.Hex(r.End), vk.Hex(r.Prefix),
		vk.Bool(r.InclSeek), vk.Bool(r.InclEnd), vk.Bool(r.Desc), vk.Bool(r.IgnDel), vk.Bool(r.IgnExp), r.Offset)
}

type Query struct {
	Kind    string // get between hist snaphist prefix scan scanbetween
	K       []byte // key / prefix
	Neq     []byte
	Lo, Hi  uint64
	Off     uint64
	Desc    bool
	Lim     uint64
	R       RSpec
	SnapGet bool // get / between / prefix issued on a snapshot instead of the store
}

func (q Query) coq() string {
	switch q.Kind {
	case "get":
		return fmt.Sprintf("QGet %s", vk.Hex(q.K))
	case "between":
		return fmt.Sprintf("QGetBetween %s %d %d", vk.Hex(q.K), q.Lo, q.Hi)
	case "hist":
		return fmt.Sprintf("QHistory %s %d %s %d", vk.Hex(q.K), q.Off, vk.Bool(q.Desc), q.Lim)
	case "snaphist":
		return fmt.Sprintf("QSnapHistory %s %d %s %d", vk.Hex(q.K), q.Off, vk.Bool(q.Desc), q.Lim)
	case "prefix":
		return fmt.Sprintf("QPrefix %s %s", vk.Hex(q.K), vk.Hex(q.Neq))
	case "scan":
		return fmt.Sprintf("QScan %s", q.R.coq())
	case "scanbetween":
		return fmt.Sprintf("QScanBetween %s %d %d", q.R.coq(), q.Lo, q.Hi)
	}
	panic("query kind")
}

func (q Query) String() string {
	switch q.Kind {
	case "get", "between", "hist", "snaphist":
		return fmt.Sprintf("%s(%x lo=%d hi=%d off=%d desc=%v lim=%d snap=%v)", q.Kind, q.K, q.Lo, q.Hi, q.Off, q.Desc, q.Lim, q.SnapGet)
	case "prefix":
		return fmt.Sprintf("prefix(%x neq=%x snap=%v)", q.K, q.Neq, q.SnapGet)
	}
	return fmt.Sprintf("%s(seek=%x end=%x prefix=%x incl=%v/%v desc=%v igndel=%v ignexp=%v off=%d lo=%d hi=%d)", q.Kind,
		q.R.Seek, q.R.End, q.R.Prefix, q.R.InclSeek, q.R.InclEnd, q.R.Desc, q.R.IgnDel, q.R.IgnExp, q.R.Offset, q.Lo, q.Hi)
}

// what is observed of a ValueRef
type ORef struct {
	Tx, HC, VLen, VOff uint64
	H4                 []byte
	Del                bool
	Exp                *uint64
	NIdx               bool
	TxMd               []byte
	// not part of the Coq comparison: the resolved value (checked here against the history)
	Val    []byte
	ValErr bool
}

func (o *ORef) coq() string {
	return fmt.Sprintf("(mko %d %d %d %d %s %s %s %s %s)", o.Tx, o.HC, o.VLen, o.VOff, vk.Hex(o.H4), vk.Bool(o.Del), optN(o.Exp),
		vk.Bool(o.NIdx), vk.Hex(o.TxMd))
}

func (o *ORef) String() string {
	e := "-"
	if o.Exp != nil {
		e = fmt.Sprint(*o.Exp)
	}
	return fmt.Sprintf("{tx %d rev %d len %d off %d h %x del %v exp %s nidx %v txmd %x}", o.Tx, o.HC, o.VLen, o.VOff, o.H4, o.Del, e, o.NIdx, o.TxMd)
}

func (o *ORef) eq(p *ORef) bool {
	if (o.Exp == nil) != (p.Exp == nil) || (o.Exp != nil && *o.Exp != *p.Exp) {
		return false
	}
	return o.Tx == p.Tx && o.HC == p.HC && o.VLen == p.VLen && o.VOff == p.VOff && bytes.Equal(o.H4, p.H4) &&
		o.Del == p.Del && o.NIdx == p.NIdx && bytes.Equal(o.TxMd, p.TxMd)
}

type KRef struct {
	Key []byte
	Ref ORef
}

type Obs struct {
	Kind string // ref hist keyref list
	Err  bool
	Ref  ORef
	Refs []ORef
	HC   uint64
	Key  []byte
	List []KRef
}

func (o *Obs) coq() string {
	switch o.Kind {
	case "ref":
		if o.Err {
			return "ORef (Err 1)"
		}
		return "ORef (Ok " + o.Ref.coq() + ")"
	case "hist":
		if o.Err {
			return "OHist (Err 1)"
		}
		xs := make([]string, len(o.Refs))
		for i := range o.Refs {
			xs[i] = o.Refs[i].coq()
		}
		return fmt.Sprintf("OHist (Ok (%s, %d))", vk.List(xs), o.HC)
	case "keyref":
		if o.Err {
			return "OKeyRef (Err 1)"
		}
		return fmt.Sprintf("OKeyRef (Ok (%s, %s))", vk.Hex(o.Key), o.Ref.coq())
	case "list":
		if o.Err {
			return "ORef Panic" // a listing that ended with an unexpected error: never equal to a model listing
		}
		xs := make([]string, len(o.List))
		for i := range o.List {
			xs[i] = fmt.Sprintf("(%s, %s)", vk.Hex(o.List[i].Key), o.List[i].Ref.coq())
		}
		return "OList " + vk.List(xs)
	}
	panic("obs kind")
}

func (o *Obs) String() string {
	if o.Err {
		return o.Kind + ":error"
	}
	switch o.Kind {
	case "ref":
		return o.Ref.String()
	case "hist":
		s := fmt.Sprintf("hc=%d", o.HC)
		for i := range o.Refs {
			s += " " + o.Refs[i].String()
		}
		return s
	case "keyref":
		return fmt.Sprintf("%x %s", o.Key, o.Ref.String())
	}
	s := fmt.Sprintf("%d:", len(o.List))
	for i := range o.List {
		s += fmt.Sprintf(" %x@%d/%d", o.List[i].Key, o.List[i].Ref.Tx, o.List[i].Ref.HC)
	}
	return s
}

func (o *Obs) eq(p *Obs) bool {
	if o.Kind != p.Kind || o.Err != p.Err {
		return false
	}
	if o.Err {
		return true
	}
	switch o.Kind {
	case "ref":
		return o.Ref.eq(&p.Ref)
	case "hist":
		if o.HC != p.HC || len(o.Refs) != len(p.Refs) {
			return false
		}
		for i := range o.Refs {
			if !o.Refs[i].eq(&p.Refs[i]) {
				return false
			}
		}
		return true
	case "keyref":
		return bytes.Equal(o.Key, p.Key) && o.Ref.eq(&p.Ref)
	}
	if len(o.List) != len(p.List) {
		return false
	}
	for i := range o.List {
		if !bytes.Equal(o.List[i].Key, p.List[i].Key) || !o.List[i].Ref.eq(&p.List[i].Ref) {
			return false
		}
	}
	return true
}

type QO struct {
	Q Query
	O Obs
}

func coqQOs(qos []QO) string {
	xs := make([]string, len(qos))
	for i := range qos {
		xs[i] = "(" + qos[i].Q.coq() + ", " + qos[i].O.coq() + ")"
	}
	return "[" + strings.Join(xs, ";\n   ") + "]"
}
