package c04

import (
	"bytes"
	"context"
	"encoding/hex"
	"errors"
	"fmt"
	"math/rand"
	"sync"
	"strings"
	"time"

	"github.com/codenotary/immudb/embedded/store"
	"github.com/codenotary/immudb/embedded/tbtree"
	"verif/harness/vk"
)

// texts of the findings of the defects repaired by d549efb, e3b45a5, 9ae1e79, 89781aa, e30fc04
// (known_findings/C04.json, status fixed): their directed replays run on every check and a
// recurrence is reported as a violation
const (
	fD1 = "index misses keys with MaxBulkSize>1 (key aliasing in indexSince)"
	fD2 = "injective index keeps a stale mapped key inside a bulk (indexSince looks up as of txID-1, not txID+i-1)"
	fD3 = "injective tombstone not marked deleted when the replaced entry has metadata (AsDeleted ErrReadOnly ignored)"
	fD4 = "Snapshot.History numbers revisions hCount-i regardless of offset and order"
	fD6 = "indexer panics: an injective index accumulates entry + tombstone per key but _kvs holds maxTxEntries*MaxBulkSize items"
	fD5 = "injective index stalls: source-index GetBetween below the key's oldest version returns a foreign transaction (tbtree lastUpdateBetween, C10)"
)

// The model evaluated by Tie.C04 is fixed (all_fixed = the code of /repo): every index
// configuration is expected to agree with the specification under every bulk schedule.  The flags
// only exist so that `affected` has one place saying so.
type Flags struct{ Copy, TxID, Tomb, SnapHist, Cap bool }

var allFixed = Flags{true, true, true, true, true}

// set when the crash probe (D6) found the indexer panic again: the random runs then stay within what
// the bulk buffer holds, so that the harness survives to report it
var crashSeen bool

func pick[T any](rng *rand.Rand, xs ...T) T { return xs[rng.Intn(len(xs))] }

const (
	expPast   = uint64(946684800)  // 2000-01-01
	expFuture = uint64(4102444800) // 2100-01-01
)

// cases and findings are buffered per run (runs execute in parallel) and emitted in a fixed order
type rec struct {
	coq    string
	js     map[string]any
	bucket string
	nt     bool
}
type sink struct {
	cases    []rec
	findings []string
}

func (s *sink) Case(coq string, js map[string]any, bucket string, nt bool) {
	s.cases = append(s.cases, rec{coq, js, bucket, nt})
}
func (s *sink) Finding(f string) { s.findings = append(s.findings, f) }

// ---------- one run: a history on a store ----------
type runSpec struct {
	directed int // 0: random history; k > 0: the k-th directed history (directedScript)
	seed  int64
	det   bool // bulk schedule known (indexing paused while a batch is committed; adaptive bulk)
	flags Flags
}

type gen struct {
	rng   *rand.Rand
	sc    StoreCfg
	idxs  []Cfg
	keys  [][]byte
	maxEs int // entries per transaction
	noExp bool
	// mapped keys may exceed the maximum key length: indexing then fails for good (BulkInsert
	// rejects the key) and never reaches the transaction; the model must say the same
	tooLong bool
}

func randStoreCfg(rng *rand.Rand, det bool) StoreCfg {
	c := StoreCfg{}
	c.MaxBulk = pick(rng, 1, 2, 2, 3, 4, 5, 8, 8, 13, 16)
	if det {
		c.Adaptive = true
		c.BulkTO = 10 * time.Minute
	} else {
		c.Adaptive = rng.Intn(3) == 0
		c.BulkTO = time.Duration(pick(rng, 2, 10, 30)) * time.Millisecond
	}
	c.MaxTxEs = pick(rng, 6, 12, 24)
	c.MaxKeyLen = pick(rng, 16, 24, 32)
	c.FlushThld = pick(rng, 1, 2, 3, 7, 20, 100000)
	c.SyncThld = c.FlushThld * pick(rng, 1, 2, 10)
	req := 31 + c.MaxKeyLen + 327
	if 2*(29+c.MaxKeyLen) > req {
		req = 2 * (29 + c.MaxKeyLen)
	}
	c.NodeSize = req + pick(rng, 0, 1, 20, 100, 500, 4096-req)
	c.Cache = pick(rng, 1, 300, 4096, 1<<20)
	c.MaxSnaps = pick(rng, 2, 3, 5, 100)
	c.Cleanup = pick(rng, float32(0), 0.5, 10, 100)
	c.MaxBuf = pick(rng, 1, 200, 1000, 1<<20)
	c.CompThld = pick(rng, 1, 1, 2)
	c.FileSize = pick(rng, 1<<14, 1<<16, 1<<20)
	c.Embedded = rng.Intn(3) == 0
	return c
}

// is the index, as configured, hit by a defect that is present in the code under test?
func affected(f Flags, c Cfg, maxBulk int, noExp bool) (bool, string) {
	if !f.Copy && c.unmapped() && maxBulk > 1 {
		return true, fD1
	}
	if !f.TxID && c.Inj && c.Src == 2 && maxBulk > 1 {
		return true, fD2
	}
	if !f.Tomb && c.Inj && c.Src == 2 && c.TM.Kind == mVal && !noExp {
		return true, fD3
	}
	return false, ""
}

func randIdxs(rng *rand.Rand) (multi bool, idxs []Cfg) {
	switch rng.Intn(10) {
	case 0, 1, 2:
		return false, []Cfg{{Name: "default"}}
	case 3, 4, 5:
		inj := rng.Intn(2) == 0
		src := 0
		if inj {
			src = 1
		}
		idxs = []Cfg{{Name: "plainR", SP: []byte("R"), TP: []byte("R"), Inj: inj, Src: src}}
		if rng.Intn(2) == 0 {
			idxs = append(idxs, Cfg{Name: "plainQ", SP: []byte("Q"), TP: []byte("Q")})
		}
		return true, idxs
	}
	// SQL-like: rows R.., primary P (key-only mapping), secondary S (value-dependent, injective,
	// previous versions looked up in P)
	idxs = []Cfg{
		{Name: "primary", SP: []byte("R"), TM: MapSel{Kind: mRepl, P: []byte("P"), N: 1}, TP: []byte("P"), Inj: true, Src: 0},
		{Name: "secondary", SP: []byte("R"), SM: MapSel{Kind: mRepl, P: []byte("P"), N: 1}, TM: MapSel{Kind: mVal, P: []byte("S"), N: 1},
			TP: []byte("S"), Inj: true, Src: 2},
	}
	if rng.Intn(2) == 0 {
		idxs = append(idxs, Cfg{Name: "trunc", SP: []byte("R"), TM: MapSel{Kind: mTrunc, P: []byte("T"), N: 1, M: pick(rng, 1, 2, 30)}, TP: []byte("T")})
	}
	if rng.Intn(3) == 0 {
		idxs = append(idxs, Cfg{Name: "byvalue", SP: []byte("R"), TM: MapSel{Kind: mVal, P: []byte("V"), N: 1}, TP: []byte("V")})
	}
	if rng.Intn(3) == 0 {
		idxs = append(idxs, Cfg{Name: "plainQ", SP: []byte("Q"), TP: []byte("Q"), Inj: true, Src: 1})
	}
	return true, idxs
}

func (g *gen) makeKeys() {
	n := 4 + g.rng.Intn(9)
	seen := map[string]bool{}
	maxLen := g.sc.MaxKeyLen
	for _, c := range g.idxs {
		if (c.TM.Kind == mVal || c.SM.Kind == mVal) && !g.tooLong {
			maxLen = g.sc.MaxKeyLen - 1 // the value-dependent mappers add one byte to the key
		}
	}
	long := bytes.Repeat([]byte{'m'}, maxLen-4)
	for len(g.keys) < n {
		p := pick(g.rng, "R", "R", "R", "R", "R", "R", "Q", "X", "A", "P", "S") // also raw keys that look like mapped ones
		var suf []byte
		switch g.rng.Intn(8) {
		case 0, 1, 2:
			suf = []byte(pick(g.rng, "a", "b", "ab", "abc", "b0", "zz"))
		case 3:
			suf = append(append([]byte{}, long...), byte('a'+g.rng.Intn(3))) // long shared prefix
		case 4:
			suf = append(append([]byte{}, long...), byte('a'+g.rng.Intn(3)), byte('x'+g.rng.Intn(2)))
		case 5:
			suf = bytes.Repeat([]byte{byte('p' + g.rng.Intn(3))}, maxLen-1) // maximum-length key
		case 6:
			suf = []byte{pick(g.rng, byte(0), byte(0xff)), byte(g.rng.Intn(3))}
		default:
			suf = vk.RandBytes(g.rng, 1+g.rng.Intn(5))
		}
		k := append([]byte(p), suf...)
		if len(k) > maxLen {
			k = k[:maxLen]
		}
		if !seen[string(k)] {
			seen[string(k)] = true
			g.keys = append(g.keys, k)
		}
	}
}

func (g *gen) makeTx() Tx {
	t := Tx{}
	ne := 1
	switch g.rng.Intn(10) {
	case 0, 1, 2:
		ne = 2 + g.rng.Intn(2)
	case 3, 4:
		ne = 1 + g.rng.Intn(g.sc.MaxTxEs)
	}
	if ne > len(g.keys) {
		ne = len(g.keys)
	}
	if ne > g.maxEs {
		ne = g.maxEs
	}
	if g.rng.Intn(8) == 0 {
		t.Extra = vk.RandBytes(g.rng, 1+g.rng.Intn(5))
	}
	for _, i := range g.rng.Perm(len(g.keys))[:ne] {
		e := Entry{Key: g.keys[i]}
		if g.rng.Intn(7) != 0 {
			e.Val = append([]byte{byte('a' + g.rng.Intn(3))}, vk.RandBytes(g.rng, g.rng.Intn(5))...)
		}
		if g.rng.Intn(8) == 0 {
			e.Del = true
		}
		if !g.noExp && g.rng.Intn(7) == 0 {
			x := pick(g.rng, expPast, expFuture, expFuture)
			e.Exp = &x
		}
		if g.rng.Intn(12) == 0 {
			e.NIdx = true
		}
		t.Es = append(t.Es, e)
	}
	return t
}

// ---------- queries ----------
func (g *gen) someKey(ix *RefIndex, c Cfg) []byte {
	if len(ix.Keys) > 0 && g.rng.Intn(6) != 0 {
		k := []byte(ix.Keys[g.rng.Intn(len(ix.Keys))])
		switch g.rng.Intn(14) {
		case 0:
			if len(k) < g.sc.MaxKeyLen { // the tree rejects seek keys longer than its maximum key size
				return append(append([]byte{}, k...), 0)
			}
		case 1:
			if len(k) > 1 {
				return k[:len(k)-1]
			}
		}
		return k
	}
	if g.rng.Intn(2) == 0 {
		// what an unmapped read of a source key would ask for
		k := g.keys[g.rng.Intn(len(g.keys))]
		if hasPrefix(k, c.TP) {
			return k
		}
	}
	return append(append([]byte{}, c.TP...), vk.RandBytes(g.rng, 1+g.rng.Intn(3))...)
}

func (g *gen) firstTx(ix *RefIndex, k []byte) uint64 {
	vs := ix.Vers[string(k)]
	if len(vs) == 0 {
		return 0
	}
	return vs[len(vs)-1].Tx
}

// upper transaction bound of a ranged read: unbounded, or anywhere from below the oldest version of
// the keys read (nothing qualifies) to beyond the last transaction
func (g *gen) safeHi(minHi, last uint64, aff bool) uint64 {
	switch g.rng.Intn(4) {
	case 0:
		return 0
	case 1:
		if minHi <= last {
			return minHi + uint64(g.rng.Intn(int(last-minHi)+2))
		}
	}
	return uint64(g.rng.Intn(int(last) + 2))
}

func (g *gen) rspec(ix *RefIndex, c Cfg) RSpec {
	r := RSpec{Prefix: c.TP, Desc: g.rng.Intn(2) == 0, IgnDel: g.rng.Intn(3) != 0, IgnExp: g.rng.Intn(3) != 0}
	if g.rng.Intn(3) == 0 && len(ix.Keys) > 0 {
		k := []byte(ix.Keys[g.rng.Intn(len(ix.Keys))])
		r.Prefix = k[:1+g.rng.Intn(len(k))]
	}
	if g.rng.Intn(3) == 0 {
		r.Seek = g.someKey(ix, c)
		r.InclSeek = g.rng.Intn(2) == 0
	}
	if g.rng.Intn(3) == 0 {
		r.End = g.someKey(ix, c)
		r.InclEnd = g.rng.Intn(2) == 0
	}
	if g.rng.Intn(3) == 0 {
		r.Offset = uint64(g.rng.Intn(4))
	}
	return r
}

func (g *gen) queries(ix *RefIndex, c Cfg, last uint64, aff bool) []Query {
	var qs []Query
	nk := 2 + g.rng.Intn(3)
	for i := 0; i < nk; i++ {
		k := g.someKey(ix, c)
		hc := uint64(len(ix.Vers[string(k)]))
		qs = append(qs, Query{Kind: "get", K: k, SnapGet: g.rng.Intn(4) == 0})
		qs = append(qs, Query{Kind: "hist", K: k, Off: 0, Desc: g.rng.Intn(2) == 0, Lim: 1000})
		qs = append(qs, Query{Kind: "hist", K: k, Off: uint64(g.rng.Intn(int(hc) + 2)), Desc: g.rng.Intn(2) == 0, Lim: uint64(g.rng.Intn(4))})
		qs = append(qs, Query{Kind: "snaphist", K: k, Off: uint64(g.rng.Intn(int(hc) + 1)), Desc: g.rng.Intn(2) == 0, Lim: uint64(1 + g.rng.Intn(4))})
		lo := uint64(g.rng.Intn(int(last) + 2))
		qs = append(qs, Query{Kind: "between", K: k, Lo: lo, Hi: g.safeHi(g.firstTx(ix, k), last, aff), SnapGet: g.rng.Intn(4) == 0})
	}
	for i := 0; i < 3; i++ {
		k := g.someKey(ix, c)
		q := Query{Kind: "prefix", K: k[:g.rng.Intn(len(k)+1)], SnapGet: g.rng.Intn(4) == 0}
		if len(q.K) < len(c.TP) {
			q.K = c.TP // the store routes the lookup by prefix: shorter prefixes belong to no index
		}
		if g.rng.Intn(2) == 0 {
			q.Neq = g.someKey(ix, c)
		}
		qs = append(qs, q)
	}
	for i := 0; i < 3; i++ {
		qs = append(qs, Query{Kind: "scan", R: g.rspec(ix, c)})
	}
	r := g.rspec(ix, c)
	minHi := uint64(0)
	for _, k := range ix.Keys {
		if inRange(r, []byte(k)) {
			if f := g.firstTx(ix, []byte(k)); f > minHi {
				minHi = f
			}
		}
	}
	qs = append(qs, Query{Kind: "scanbetween", R: r, Lo: uint64(g.rng.Intn(int(last) + 2)), Hi: g.safeHi(minHi, last, aff)})
	return qs
}

// ---------- running ----------
func maintErrOK(err error) bool {
	return err == nil || errors.Is(err, tbtree.ErrCompactionThresholdNotReached) || errors.Is(err, tbtree.ErrorToManyActiveSnapshots) ||
		errors.Is(err, tbtree.ErrCompactAlreadyInProgress) || errors.Is(err, store.ErrCompactionDisabled)
}

func h4History(h []Tx) string { return coqHistory(h) }

// Directed histories for an injective (SQL-like secondary) index: set; delete; set with a different
// mapped key; set again — and deletes that carry a value, a re-insert under the mapped key that was
// live before the delete, repeated deletes.  When the previous version of a source key is itself a
// logical delete the indexer adds no tombstone (its mapped key died when the delete was indexed) and
// does not read its value (commit 10acf02).
func directedScript() []Tx {
	set := func(k, v string) Tx { return Tx{Es: []Entry{{Key: []byte(k), Val: []byte(v)}}} }
	del := func(k, v string) Tx { return Tx{Es: []Entry{{Key: []byte(k), Val: []byte(v), Del: true}}} }
	return []Tx{
		set("Rk", "a"), del("Rk", ""), set("Rk", "b"), set("Rk", "c"),
		set("Rj", "a"), del("Rj", "d"), set("Rj", "a"), del("Rj", ""), del("Rj", "x"), set("Rj", "b"),
		{Es: []Entry{{Key: []byte("Rk"), Val: []byte("c2")}, {Key: []byte("Rj"), Val: []byte(""), Del: true}, {Key: []byte("Rm"), Val: []byte("a")}}},
		set("Rj", "b"), del("Rm", "a"), set("Rm", "a"),
	}
}

// a store operation that fails in the middle of a run (reopen, index re-initialisation, snapshot,
// commit) is itself a finding: the run ends there
func runHistory(r *sink, rs runSpec, bucketPrefix string) error {
	err := runHistory1(r, rs, bucketPrefix)
	if err != nil {
		r.Finding(fmt.Sprintf("store operation failed during the run: %v [replay seed=%d det=%v]", err, rs.seed, rs.det))
	}
	return nil
}

func runHistory1(r *sink, rs runSpec, bucketPrefix string) error {
	rng := rand.New(rand.NewSource(rs.seed))
	g := &gen{rng: rng}
	g.sc = randStoreCfg(rng, rs.det)
	g.sc.Multi, g.idxs = randIdxs(rng)
	g.noExp = rng.Intn(3) == 0
	g.tooLong = rs.det && rng.Intn(40) == 0
	if !rs.det {
		// unknown bulk schedule: only configurations on which the code under test is expected to
		// agree with the specification for EVERY schedule are compared (the others are exercised
		// with a known schedule, against the indexer model)
		var keep []Cfg
		for _, c := range g.idxs {
			if a, _ := affected(rs.flags, c, g.sc.MaxBulk, g.noExp); !a {
				keep = append(keep, c)
			}
		}
		if len(keep) == 0 || (!g.sc.Multi && len(keep) != len(g.idxs)) {
			g.sc.MaxBulk = 1
			g.noExp = true
			keep = g.idxs
		}
		g.idxs = keep
	}
	g.maxEs = g.sc.MaxTxEs
	for _, c := range g.idxs {
		if c.Inj && c.Src == 2 && crashSeen {
			// the indexer panic is back (reported by probe D6): stay within what the buffer holds
			g.maxEs = g.sc.MaxTxEs / 2
		}
	}
	var script []Tx
	if rs.directed > 0 {
		// variant 1: bulks of one transaction; 2: one bulk of 8 (indexers paused); 3: bulks of 3, free schedule
		script = directedScript()
		g.sc = probeCfg([]int{1, 8, 3}[(rs.directed-1)%3], true)
		if rs.directed > 6 {
			// 7, 8: a key of maximum length: the secondary index (its mapper adds a byte) fails for
			// good at transaction 2, the primary index of the same store is not concerned
			long := append([]byte("R"), bytes.Repeat([]byte{'p'}, g.sc.MaxKeyLen-1)...)
			set := func(k []byte, v string) Tx { return Tx{Es: []Entry{{Key: k, Val: []byte(v)}}} }
			script = []Tx{set([]byte("Rk"), "a"), set(long, "b"), set([]byte("Rk"), "c"), set(long, "")}
		}
		if !rs.det {
			g.sc.Adaptive, g.sc.BulkTO = false, 10*time.Millisecond
		}
		g.idxs = sqlLike()
		g.noExp, g.tooLong = true, false
	}
	g.makeKeys()
	if script != nil {
		g.keys = [][]byte{[]byte("Rk"), []byte("Rj"), []byte("Rm"), []byte("Rz")}
	}
	s, err := newSut(g.sc, g.idxs)
	if err != nil {
		return err
	}
	defer s.destroy()
	now := uint64(time.Now().Unix())
	ntx := 8 + rng.Intn(28)
	nb := 1 + rng.Intn(4)
	if script != nil {
		ntx, nb = len(script), 1+((rs.directed-1)/3)%2
	}
	var batches []int
	var unexp unexpected
	maint := []string{}
	stalled := false
	said := map[string]bool{} // one finding of each kind per run
	for b := 0; b < nb && !stalled; b++ {
		size := ntx / nb
		if b == nb-1 {
			size = ntx - len(s.h)
		}
		if size < 1 {
			size = 1
		}
		backlogReopen := rs.det && rng.Intn(6) == 0
		reinit := g.sc.Multi && rng.Intn(6) == 0 // index closed while the batch is committed
		if rs.det && !reinit {
			s.st.VerifPauseIndexing()
		}
		if reinit {
			s.closeSnaps()
			for _, c := range g.idxs {
				if err := s.st.CloseIndexing(c.TP); err != nil {
					return fmt.Errorf("CloseIndexing: %w", err)
				}
			}
		}
		for i := 0; i < size; i++ {
			t := g.makeTx()
			if script != nil {
				t = script[len(s.h)]
			}
			if err := s.commit(&t); err == errNothingToCommit {
				i--
				continue
			} else if err != nil {
				return fmt.Errorf("commit: %w (tx %s)", err, historyDigest([]Tx{t}))
			}
			if !rs.det && rng.Intn(10) == 0 {
				if err := s.st.FlushIndexes(g.sc.Cleanup, rng.Intn(2) == 0); !maintErrOK(err) {
					maint = append(maint, "flush: "+err.Error())
				}
			}
		}
		last := s.h[len(s.h)-1].ID
		batches = append(batches, len(s.h))
		switch {
		case reinit:
			for _, c := range g.idxs {
				if err := s.st.InitIndexing(c.spec()); err != nil {
					return fmt.Errorf("InitIndexing: %w", err)
				}
			}
		case backlogReopen:
			if err := s.reopen(); err != nil {
				return fmt.Errorf("reopen: %w", err)
			}
		case rs.det:
			s.st.VerifResumeIndexing()
		}
		// an index whose mapped keys exceed the maximum key length fails for good (BulkInsert
		// rejects the key) and never reaches the transaction; the other indexes of the store are
		// not concerned: the outcome is decided per index
		expect := map[string]bool{}
		expectStall := false
		for _, c := range g.idxs {
			for i := range s.h {
				for j := range s.h[i].Es {
					if e := &s.h[i].Es[j]; indexable(c, e) && len(tkey(c, e)) > g.sc.MaxKeyLen {
						expect[c.Name] = true
						expectStall = true
					}
				}
			}
		}
		stalledIdx := map[string]bool{}
		if expectStall {
			s.waitIndexed(last, 3*time.Second)
			for _, c := range g.idxs {
				ts, err := s.st.VerifIndexTs(c.TP)
				if err != nil {
					return fmt.Errorf("index ts: %w", err)
				}
				if expect[c.Name] {
					stalledIdx[c.Name] = ts < last
				} else if ts < last {
					// not expected to fail: give it the time it needs
					ctx, cancel := context.WithTimeout(s.ctx, 180*time.Second)
					sn, err := s.st.SnapshotMustIncludeTxID(ctx, c.TP, last)
					cancel()
					if err != nil {
						stalledIdx[c.Name] = true
					} else {
						sn.Close()
					}
				}
			}
		} else if !s.waitIndexed(last, 180*time.Second) {
			for _, c := range g.idxs {
				if ts, err := s.st.VerifIndexTs(c.TP); err != nil || ts < last {
					stalledIdx[c.Name] = true
				}
			}
		}
		for _, v := range stalledIdx {
			stalled = stalled || v
		}
		// ---- reads
		var snaps = map[string]*store.Snapshot{}
		for _, c := range g.idxs {
			aff, ftext := affected(rs.flags, c, g.sc.MaxBulk, g.noExp)
			ix := buildRef(c, s.h, len(s.h))
			var qos []QO
			stalled := stalledIdx[c.Name] // of THIS index (shadows the store-wide flag)
			if !stalled {
				snap, err := s.st.SnapshotMustIncludeTxID(s.ctx, c.TP, last)
				if err != nil {
					return fmt.Errorf("snapshot: %w", err)
				}
				snaps[c.Name] = snap
				for _, q := range g.queries(ix, c, last, aff) {
					o := s.ask(c, snap, q, &unexp)
					qos = append(qos, QO{q, o})
					want := ix.answer(now, q)
					if !o.eq(&want) {
						what := fmt.Sprintf("%s on index %s after tx %d: got %s, committed history says %s [replay seed=%d det=%v maxbulk=%d batches=%v]",
							q.String(), c.Name, last, o.String(), want.String(), rs.seed, rs.det, g.sc.MaxBulk, batches)
						switch {
						case q.Kind == "snaphist" && !rs.flags.SnapHist:
							what = fD4 + ": " + what
						case aff:
							what = ftext + ": " + what
						default:
							what = "read differs from the committed history: " + what
						}
						cls := strings.SplitN(what, ":", 2)[0]
						if !said[cls] {
							said[cls] = true
							r.Finding(what)
						}
					} else {
						checkValues(r, &o, &want, now, q, c, rs)
					}
				}
			} else {
				if !expect[c.Name] && !said["stall"] {
					said["stall"] = true
					r.Finding(fmt.Sprintf("indexing stalled: index "+c.Name+" did not reach tx %d within 180s [replay seed=%d det=%v maxbulk=%d batches=%v]",
						last, rs.seed, rs.det, g.sc.MaxBulk, batches))
				}
			}
			// ---- cases
			js := map[string]any{"hseed": rs.seed, "det": rs.det, "directed": rs.directed, "index": c.js(), "store": g.sc.js(), "batches": append([]int{}, batches...),
				"txs": len(s.h), "queries": len(qos), "flags": fmt.Sprint(rs.flags), "history": historyDigest(s.h)}
			nontriv := false
			for _, vs := range ix.Vers {
				if len(vs) >= 2 && len(ix.Keys) >= 2 {
					nontriv = true
				}
			}
			// queries on Snapshot.History are compared with the specification only when it is repaired
			specQOs := qos
			if !rs.flags.SnapHist {
				specQOs = nil
				for _, x := range qos {
					if x.Q.Kind != "snaphist" {
						specQOs = append(specQOs, x)
					}
				}
			}
			bk := fmt.Sprintf("%s/%s/bulk%s", bucketPrefix, c.Name, bulkClass(g.sc.MaxBulk))
			if rs.det {
				bs := make([]string, len(batches))
				for i, b := range batches {
					bs[i] = fmt.Sprintf("%d%%nat", b)
				}
				coq := fmt.Sprintf("CModel %s (mklim %d %d) %d\n  %s\n  %d%%nat %s %s\n  %s", c.coq(), g.sc.MaxKeyLen, g.sc.MaxTxEs, now, h4History(s.h),
					g.sc.MaxBulk, vk.List(bs), vk.Bool(stalled), coqQOs(qos))
				js["kind"] = "model"
				r.Case(coq, js, "model/"+bk, nontriv)
				if !aff && !stalled && rng.Intn(3) == 0 {
					js2 := map[string]any{}
					for k, v := range js {
						js2[k] = v
					}
					js2["kind"] = "spec"
					r.Case(fmt.Sprintf("CSpec %s %d\n  %s\n  %d %s", c.coq(), now, h4History(s.h), last, coqQOs(specQOs)), js2, "spec/"+bk, nontriv)
				}
			} else if !stalled {
				js["kind"] = "spec"
				r.Case(fmt.Sprintf("CSpec %s %d\n  %s\n  %d %s", c.coq(), now, h4History(s.h), last, coqQOs(specQOs)), js, "spec/"+bk, nontriv)
			}
		}
		// ---- maintenance between batches
		keepSnap := rng.Intn(4) == 0 && len(s.snaps)+3 <= g.sc.MaxSnaps
		for name, sn := range snaps {
			if keepSnap && name == g.idxs[0].Name {
				s.snaps = append(s.snaps, sn)
			} else {
				sn.Close()
			}
		}
		if stalled {
			break
		}
		op := rng.Intn(7)
		if op == 2 || op == 3 {
			s.closeSnaps() // compaction closes and re-opens the tree
		}
		switch op {
		case 0:
			if err := s.st.FlushIndexes(g.sc.Cleanup, false); !maintErrOK(err) {
				maint = append(maint, "flush: "+err.Error())
			}
		case 1:
			if err := s.st.FlushIndexes(100, true); !maintErrOK(err) {
				maint = append(maint, "flush: "+err.Error())
			}
		case 2:
			if err := s.st.CompactIndexes(); !maintErrOK(err) {
				maint = append(maint, "compact: "+err.Error())
			}
		case 3:
			if err := s.st.FlushIndexes(0, false); !maintErrOK(err) {
				maint = append(maint, "flush: "+err.Error())
			}
			if err := s.st.CompactIndexes(); !maintErrOK(err) {
				maint = append(maint, "compact: "+err.Error())
			}
		case 4:
			if err := s.reopen(); err != nil {
				return fmt.Errorf("reopen: %w", err)
			}
		}
	}
	for _, e := range unexp.errs {
		r.Finding(fmt.Sprintf("read failed with an unexpected error: %s [replay seed=%d det=%v]", e, rs.seed, rs.det))
	}
	for _, e := range maint {
		r.Finding(fmt.Sprintf("index maintenance failed: %s [replay seed=%d det=%v]", e, rs.seed, rs.det))
	}
	return nil
}

func bulkClass(b int) string {
	switch {
	case b == 1:
		return "=1"
	case b <= 4:
		return "2-4"
	}
	return "5-16"
}

func historyDigest(h []Tx) string {
	var sb strings.Builder
	for i := range h {
		fmt.Fprintf(&sb, "%d:", h[i].ID)
		for _, e := range h[i].Es {
			fl := ""
			if e.Del {
				fl += "D"
			}
			if e.Exp != nil {
				fl += "E"
			}
			if e.NIdx {
				fl += "N"
			}
			k := hex.EncodeToString(e.Key)
			if len(k) > 12 {
				k = k[:4] + ".." + k[len(k)-6:]
			}
			fmt.Fprintf(&sb, "%s=%x%s,", k, e.Val, fl)
		}
		sb.WriteByte(' ')
	}
	s := sb.String()
	if len(s) > 1500 {
		s = s[:1500] + "..."
	}
	return s
}

// the resolved value of every reference must be the committed value (expired entries do not resolve)
func checkValues(r *sink, got, want *Obs, now uint64, q Query, c Cfg, rs runSpec) {
	chk := func(g, w *ORef) {
		exp := w.Exp != nil && *w.Exp <= now
		if exp {
			if !g.ValErr {
				r.Finding(fmt.Sprintf("value of an expired entry resolves: %s on index %s [replay seed=%d det=%v]", q.String(), c.Name, rs.seed, rs.det))
			}
			return
		}
		if g.ValErr || !bytes.Equal(g.Val, w.Val) {
			r.Finding(fmt.Sprintf("resolved value differs from the committed one: %s on index %s tx %d: got %x (err %v) want %x [replay seed=%d det=%v]",
				q.String(), c.Name, w.Tx, g.Val, g.ValErr, w.Val, rs.seed, rs.det))
		}
	}
	if got.Err {
		return
	}
	switch got.Kind {
	case "ref", "keyref":
		chk(&got.Ref, &want.Ref)
	case "hist":
		for i := range got.Refs {
			chk(&got.Refs[i], &want.Refs[i])
		}
	case "list":
		for i := range got.List {
			chk(&got.List[i].Ref, &want.List[i].Ref)
		}
	}
}

// ---------- serialised indexed value ----------
func serCases(r *sink, rng *rand.Rand, n int) error {
	s, err := newSut(StoreCfg{MaxBulk: 1, BulkTO: time.Millisecond, MaxTxEs: 4, MaxKeyLen: 16, FlushThld: 100, SyncThld: 100, NodeSize: 4096,
		Cache: 4096, MaxSnaps: 10, MaxBuf: 1 << 20, CompThld: 1, FileSize: 1 << 16}, nil)
	if err != nil {
		return err
	}
	defer s.destroy()
	vref := func(tx, hc uint64, b []byte, bucket string) {
		b = vk.Exact(b)
		var out string
		var js = map[string]any{"kind": "vref", "tx": tx, "hc": hc, "in": hex.EncodeToString(b)}
		func() {
			defer func() {
				if p := recover(); p != nil {
					out = "Panic"
					js["panic"] = fmt.Sprint(p)
					r.Finding(fmt.Sprintf("valueRefFrom panics on %x: %v", b, p))
				}
			}()
			v, err := s.st.VerifValueRefFrom(tx, hc, b)
			if err != nil {
				out = "(Err 1)"
				js["err"] = err.Error()
				return
			}
			o := orefOfNoResolve(v)
			out = "(Ok " + o.coq() + ")"
			js["out"] = o.String()
		}()
		r.Case(fmt.Sprintf("CVRef %d %d %s %s", tx, hc, vk.Hex(b), out), js, bucket, len(b) >= 44)
	}
	for i := 0; i < n; i++ {
		vlen := pick(rng, 0, 1, 5, 255, 256, 1<<16, 1<<32-1)
		voff := pick(rng, uint64(0), 1, 1<<20, 1<<40+7, 1<<63-1)
		var hv [32]byte
		rng.Read(hv[:])
		var extra []byte
		if rng.Intn(3) == 0 {
			extra = vk.RandBytes(rng, pick(rng, 1, 2, 17, 255, 256))
		}
		var txmd []byte
		if len(extra) > 0 {
			md := store.NewTxMetadata()
			md.WithExtra(extra)
			txmd = md.Bytes()
		}
		kv := store.NewKVMetadata()
		del, nidx := rng.Intn(3) == 0, rng.Intn(4) == 0
		var exp *uint64
		if del {
			kv.AsDeleted(true)
		}
		if rng.Intn(3) == 0 {
			x := pick(rng, uint64(0), 1, expPast, expFuture, 1<<62)
			exp = &x
			kv.ExpiresAt(time.Unix(int64(x), 0))
		}
		if nidx {
			kv.AsNonIndexable(true)
		}
		b := store.VerifSerializeIndexableEntry(vlen, int64(voff), hv, txmd, kv.Bytes())
		r.Case(fmt.Sprintf("CSer %d %d %s %s (mkmd %s %s %s) %s", vlen, voff, vk.Hex(hv[:]), vk.OptHex(extra), vk.Bool(del), optN(exp), vk.Bool(nidx), vk.Hex(b)),
			map[string]any{"kind": "ser", "out": hex.EncodeToString(b)}, "ser", true)
		tx, hc := uint64(1+rng.Intn(100)), uint64(1+rng.Intn(9))
		vref(tx, hc, b, "vref/valid")
		if i%4 == 0 {
			for _, m := range vk.Mutations(rng, b, 12) {
				vref(tx, hc, m, "vref/mutated")
			}
			vref(tx, hc, b[:44], "vref/legacy") // index entries written without metadata fields
		}
	}
	for i := 0; i < n/2; i++ {
		vref(1, 1, vk.SmallBiased(rng, rng.Intn(70)), "vref/random")
	}
	return nil
}

func orefOfNoResolve(v store.ValueRef) ORef {
	o := ORef{Tx: v.Tx(), HC: v.HC(), VLen: uint64(v.Len()), VOff: uint64(v.VOff())}
	h := v.HVal()
	o.H4 = append([]byte{}, h[:4]...)
	if md := v.KVMetadata(); md != nil {
		o.Del = md.Deleted()
		o.NIdx = md.NonIndexable()
		if md.IsExpirable() {
			t, _ := md.ExpirationTime()
			x := uint64(t.Unix())
			o.Exp = &x
		}
	}
	if md := v.TxMetadata(); md != nil {
		o.TxMd = md.Bytes()
	}
	return o
}

// ---------- entry points ----------
func emit(r *vk.Run, heavy []*sink, cheap *sink) {
	for _, f := range cheap.findings {
		r.Finding(f)
	}
	nh := 0
	for _, h := range heavy {
		nh += len(h.cases)
	}
	stride := 1
	if nh > 0 {
		stride = (len(cheap.cases) + nh - 1) / nh
	}
	ci := 0
	for _, h := range heavy {
		for _, f := range h.findings {
			r.Finding(f)
		}
		for _, c := range h.cases {
			r.Case(c.coq, c.js, c.bucket, c.nt)
			for k := 0; k < stride && ci < len(cheap.cases); k++ {
				x := cheap.cases[ci]
				ci++
				r.Case(x.coq, x.js, x.bucket, x.nt)
			}
		}
	}
	for ; ci < len(cheap.cases); ci++ {
		x := cheap.cases[ci]
		r.Case(x.coq, x.js, x.bucket, x.nt)
	}
}

func Gen(r *vk.Run, n int) error {
	cheap := &sink{}
	flags, err := probes(cheap)
	if err != nil {
		return err
	}
	if err := serCases(cheap, r.Rng, 40+n); err != nil {
		return err
	}
	// n = number of store runs (each yields one case per index and checkpoint)
	specs := make([]runSpec, n)
	for i := range specs {
		specs[i] = runSpec{seed: r.Rng.Int63n(1 << 50), det: i%3 != 2, flags: flags}
	}
	// the directed histories (delete / re-insert patterns of an injective index), always, first
	var dir []runSpec
	for k := 1; k <= 8; k++ {
		dir = append(dir, runSpec{directed: k, seed: int64(1000 + k), det: (k-1)%3 != 2, flags: flags})
	}
	specs = append(dir, specs...)
	n = len(specs)
	sinks := make([]*sink, n)
	errs := make([]error, n)
	var wg sync.WaitGroup
	sem := make(chan struct{}, 6)
	for i := range specs {
		wg.Add(1)
		go func(i int) {
			defer wg.Done()
			sem <- struct{}{}
			defer func() { <-sem }()
			sinks[i] = &sink{}
			bp := ""
			if specs[i].directed > 0 {
				bp = "directed"
			}
			if err := runHistory(sinks[i], specs[i], bp); err != nil {
				errs[i] = fmt.Errorf("run seed=%d det=%v: %w", specs[i].seed, specs[i].det, err)
			}
		}(i)
	}
	wg.Wait()
	for _, e := range errs {
		if e != nil {
			return e
		}
	}
	emit(r, sinks, cheap)
	return nil
}

func Replay(r *vk.Run, c map[string]any) error {
	cheap := &sink{}
	flags, err := probes(cheap)
	if err != nil {
		return err
	}
	switch c["kind"] {
	case "vref", "ser":
		if err := serCases(cheap, r.Rng, 40); err != nil {
			return err
		}
		emit(r, nil, cheap)
		return nil
	}
	seed, ok := c["hseed"].(float64)
	if !ok {
		return fmt.Errorf("replay case carries no hseed")
	}
	det, _ := c["det"].(bool)
	directed, _ := c["directed"].(float64)
	h := &sink{}
	if err := runHistory(h, runSpec{directed: int(directed), seed: int64(seed), det: det, flags: flags}, ""); err != nil {
		return err
	}
	emit(r, []*sink{h}, cheap)
	return nil
}
