package c04

import (
	"fmt"
	"os"
	"os/exec"
	"strings"
	"time"
)

// CrashProbe is run in a child process (`vh-C04 crashprobe`): with MaxTxEntries = 4 a transaction
// re-maps 4 keys of an injective index, which makes indexSince write 8 items into its 4
// pre-allocated ones; the Go runtime panic of the indexer goroutine kills the process.
func CrashProbe() {
	c := probeCfg(1, true)
	c.MaxTxEs = 4
	s, err := newSut(c, sqlLike())
	if err != nil {
		fmt.Println("crashprobe: setup failed:", err)
		os.Exit(3)
	}
	for _, v := range []string{"a", "b"} {
		t := Tx{}
		for i := 0; i < 4; i++ {
			t.Es = append(t.Es, Entry{Key: []byte(fmt.Sprintf("Rk%d", i)), Val: []byte(v)})
		}
		if err := s.commit(&t); err != nil {
			fmt.Println("crashprobe: commit failed:", err)
			os.Exit(3)
		}
	}
	ok := s.waitIndexed(2, 20*time.Second)
	live := s.live("Sbk0") && !s.live("Sak0")
	s.destroy()
	if ok && live {
		fmt.Println("crashprobe: indexed")
		os.Exit(0)
	}
	fmt.Println("crashprobe: indexing did not complete")
	os.Exit(4)
}

// The defects found while building this check (all repaired in /repo) are replayed on every run
// with their minimal inputs.  A recurrence is reported (r.Finding: a violation, the entries of
// known_findings/C04.json are `fixed`).  The probes do NOT select the model: Tie.C04 always evaluates
// all_fixed, so a recurrence also shows up as disagreements of the random runs.

func probeCfg(bulk int, multi bool) StoreCfg {
	return StoreCfg{Multi: multi, MaxBulk: bulk, Adaptive: true, BulkTO: 10 * time.Minute, MaxTxEs: 8, MaxKeyLen: 32,
		FlushThld: 100000, SyncThld: 100000, NodeSize: 4096, Cache: 1 << 20, MaxSnaps: 10, MaxBuf: 1 << 20, CompThld: 2, FileSize: 1 << 20}
}

func sqlLike() []Cfg {
	return []Cfg{
		{Name: "primary", SP: []byte("R"), TM: MapSel{Kind: mRepl, P: []byte("P"), N: 1}, TP: []byte("P"), Inj: true, Src: 0},
		{Name: "secondary", SP: []byte("R"), SM: MapSel{Kind: mRepl, P: []byte("P"), N: 1}, TM: MapSel{Kind: mVal, P: []byte("S"), N: 1},
			TP: []byte("S"), Inj: true, Src: 2},
	}
}

func (s *sut) put(k, v string, exp *uint64) error {
	t := Tx{Es: []Entry{{Key: []byte(k), Val: []byte(v), Exp: exp}}}
	return s.commit(&t)
}

func (s *sut) live(k string) bool {
	_, err := s.st.Get(s.ctx, []byte(k))
	return err == nil
}

func probes(r *sink) (Flags, error) {
	f := Flags{}
	// D1: keys of earlier transactions of a bulk are clobbered (default index, bulk 8)
	{
		s, err := newSut(probeCfg(8, false), []Cfg{{Name: "default"}})
		if err != nil {
			return f, err
		}
		s.st.VerifPauseIndexing()
		for i := 0; i < 40; i++ {
			if err := s.put(fmt.Sprintf("key%02d", i), fmt.Sprintf("v%d", i), nil); err != nil {
				s.destroy()
				return f, err
			}
		}
		s.st.VerifResumeIndexing()
		if !s.waitIndexed(40, 30*time.Second) {
			s.destroy()
			return f, fmt.Errorf("probe D1: indexing did not finish")
		}
		missing := 0
		for i := 0; i < 40; i++ {
			if !s.live(fmt.Sprintf("key%02d", i)) {
				missing++
			}
		}
		s.destroy()
		f.Copy = missing == 0
		if missing > 0 {
			r.Finding(fmt.Sprintf("%s: MaxBulkSize 8, default index, 40 single-key transactions committed while indexing is paused: %d of 40 keys not found by Get", fD1, missing))
		}
	}
	// D2: previous version inside the same bulk is not tombstoned in an injective index
	{
		s, err := newSut(probeCfg(8, true), sqlLike())
		if err != nil {
			return f, err
		}
		err = s.put("Rk0", "z", nil) // so that the bulk does not start at transaction 1
		s.waitIndexed(1, 30*time.Second)
		s.st.VerifPauseIndexing()
		for _, v := range []string{"a", "b", "c"} {
			if err == nil {
				err = s.put("Rk1", v, nil)
			}
		}
		s.st.VerifResumeIndexing()
		if err != nil || !s.waitIndexed(4, 30*time.Second) {
			s.destroy()
			return f, fmt.Errorf("probe D2: %v", err)
		}
		a, b, c := s.live("Sak1"), s.live("Sbk1"), s.live("Sck1")
		s.destroy()
		f.TxID = !a && !b && c
		if !f.TxID {
			r.Finding(fmt.Sprintf("%s: MaxBulkSize 8, Rk1=a, Rk1=b, Rk1=c committed while indexing is paused, secondary index S<value[0]><key>: live Sak1=%v Sbk1=%v Sck1=%v (expected false false true)", fD2, a, b, c))
		}
	}
	// D3: tombstone of a replaced entry that carries metadata (expiry) is not marked deleted
	{
		s, err := newSut(probeCfg(1, true), sqlLike())
		if err != nil {
			return f, err
		}
		x := expFuture
		err = s.put("Rk3", "a", &x)
		if err == nil {
			err = s.put("Rk3", "b", nil)
		}
		if err != nil || !s.waitIndexed(2, 30*time.Second) {
			s.destroy()
			return f, fmt.Errorf("probe D3: %v", err)
		}
		a, b := s.live("Sak3"), s.live("Sbk3")
		s.destroy()
		f.Tomb = !a && b
		if !f.Tomb {
			r.Finding(fmt.Sprintf("%s: MaxBulkSize 1, Rk3=a (expires 2100), then Rk3=b, secondary index S<value[0]><key>: live Sak3=%v Sbk3=%v (expected false true)", fD3, a, b))
		}
	}
	// D4: Snapshot.History revision numbers
	{
		s, err := newSut(probeCfg(1, false), []Cfg{{Name: "default"}})
		if err != nil {
			return f, err
		}
		for i := 0; i < 5 && err == nil; i++ {
			err = s.put("k", fmt.Sprintf("v%d", i), nil)
		}
		if err != nil || !s.waitIndexed(5, 30*time.Second) {
			s.destroy()
			return f, fmt.Errorf("probe D4: %v", err)
		}
		snap, err := s.st.SnapshotMustIncludeTxID(s.ctx, nil, 5)
		if err != nil {
			s.destroy()
			return f, err
		}
		vs, _, err := snap.History([]byte("k"), 2, false, 2)
		ok := err == nil && len(vs) == 2 && vs[0].Tx() == 3 && vs[0].HC() == 3 && vs[1].Tx() == 4 && vs[1].HC() == 4
		got := ""
		for _, v := range vs {
			got += fmt.Sprintf(" (tx %d rev %d)", v.Tx(), v.HC())
		}
		snap.Close()
		s.destroy()
		f.SnapHist = ok
		if !ok {
			r.Finding(fmt.Sprintf("%s: 5 versions of k, Snapshot.History(k, offset 2, ascending, limit 2) =%s, expected (tx 3 rev 3) (tx 4 rev 4)", fD4, got))
		}
	}
	// D6: the indexer goroutine panics (probed in a child process)
	{
		tmp, terr := os.MkdirTemp("", "vh-c04-crash-")
		if terr != nil {
			return f, terr
		}
		cmd := exec.Command(os.Args[0], "crashprobe")
		cmd.Env = append(os.Environ(), "TMPDIR="+tmp) // the child dies without cleaning up
		out, err := cmd.CombinedOutput()
		os.RemoveAll(tmp)
		f.Cap = err == nil && strings.Contains(string(out), "crashprobe: indexed")
		if !f.Cap {
			crashSeen = true
			line := ""
			for _, l := range strings.Split(string(out), "\n") {
				if strings.HasPrefix(l, "panic:") || strings.HasPrefix(l, "crashprobe:") {
					line = l
					break
				}
			}
			if !strings.Contains(string(out), "index out of range") {
				return f, fmt.Errorf("probe D6: unexpected outcome: %v: %s", err, line)
			}
			r.Finding(fmt.Sprintf("%s: MaxTxEntries 4, MaxBulkSize 1, tx1 sets Rk0..Rk3=a, tx2 sets Rk0..Rk3=b, secondary index S<value[0]><key>: the process dies with `%s` in indexSince", fD6, line))
		}
	}
	// D5 (root cause in embedded/tbtree, known finding of C10): an injective index that lags
	// behind its source index stalls for good
	{
		c := probeCfg(1, true)
		s, err := newSut(c, sqlLike()[:1])
		if err != nil {
			return f, err
		}
		for _, kv := range [][2]string{{"Rz", "1"}, {"Rz", "2"}, {"Rz", "3"}} {
			if err == nil {
				err = s.put(kv[0], kv[1], nil)
			}
		}
		s.waitIndexed(3, 30*time.Second)
		s.st.FlushIndexes(0, false)
		for _, kv := range [][2]string{{"Rk", "a"}, {"Rk", "b"}, {"Rk", "c"}} {
			if err == nil {
				err = s.put(kv[0], kv[1], nil)
			}
		}
		s.waitIndexed(6, 30*time.Second)
		s.st.FlushIndexes(0, false)
		if err == nil {
			err = s.st.InitIndexing(sqlLike()[1].spec())
		}
		if err != nil {
			s.destroy()
			return f, fmt.Errorf("probe D5: %v", err)
		}
		ok := s.waitIndexed(6, 10*time.Second)
		s.destroy()
		if !ok {
			r.Finding(fD5 + ": Rz=1,Rz=2,Rz=3, flush, Rk=a,Rk=b,Rk=c, flush, all indexed by the primary index; a secondary injective index created afterwards never reaches transaction 6 (indexSince: ReadTxEntry key not found, retried forever)")
		}
	}
	_ = f // what the probes saw is reported above; the model is not selected by it
	return allFixed, nil
}
