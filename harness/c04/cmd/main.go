package main

import (
	"os"

	"verif/harness/c04"
	"verif/harness/vk"
)

func main() {
	if len(os.Args) > 1 && os.Args[1] == "crashprobe" {
		c04.CrashProbe() // child process of the probe of the indexer panic
		return
	}
	vk.Main("Tie.C04", c04.Gen, c04.Replay)
}
