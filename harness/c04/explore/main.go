package main

import (
	"context"
	"fmt"
	"io"
	"os"

	"github.com/codenotary/immudb/embedded/logger"
	"github.com/codenotary/immudb/embedded/store"
)

func main() {
	dir, _ := os.MkdirTemp("", "c04x")
	defer os.RemoveAll(dir)
	lg := logger.NewSimpleLoggerWithLevel("vh", io.Discard, logger.LogError)
	opts := store.DefaultOptions().WithLogger(lg).WithMaxTxEntries(16).WithMaxKeyLen(64).WithSynced(false)
	st, err := store.Open(dir, opts)
	if err != nil {
		panic(err)
	}
	defer st.Close()
	ctx := context.Background()
	var last uint64
	for i := 0; i < 5; i++ {
		tx, _ := st.NewWriteOnlyTx(ctx)
		tx.Set([]byte("k"), nil, []byte(fmt.Sprintf("v%d", i)))
		hdr, err := tx.Commit(ctx)
		if err != nil {
			panic(err)
		}
		last = hdr.ID
	}
	st.WaitForIndexingUpto(ctx, last)
	for _, desc := range []bool{true, false} {
		for _, off := range []uint64{0, 2} {
			vs, hc, err := st.History([]byte("k"), off, desc, 2)
			fmt.Print("store desc=", desc, " off=", off, " hc=", hc, " err=", err, ":")
			for _, v := range vs {
				fmt.Print(" (tx ", v.Tx(), " rev ", v.HC(), ")")
			}
			fmt.Println()
			snap, _ := st.Snapshot(nil)
			vs, hc, err = snap.History([]byte("k"), off, desc, 2)
			fmt.Print("snap  desc=", desc, " off=", off, " hc=", hc, " err=", err, ":")
			for _, v := range vs {
				fmt.Print(" (tx ", v.Tx(), " rev ", v.HC(), ")")
			}
			fmt.Println()
			snap.Close()
		}
	}
}
