package c10

// The direct falsifier: the abstract multi-version ordered map of coq/Index/MVMap.v re-stated in
// Go.  Every output of the implementation is compared with what the map defines; a snapshot is
// identified with the state the tree had at the logical time the snapshot reports (Ts()), which
// must be >= the requested time.  One known defect (a rejected batch rolls the tree back to the
// last flushed root) is recognised by its exact signature and reported with a fixed text (see
// known_findings/C10.json); anything else is a violation -- in particular the two repaired
// defects (e30fc04 lastUpdateBetween overrun, 18b7c7d tree emptied by a rejected batch after a
// restart) are probed on every run and reported if they come back.

import (
	"bytes"
	"fmt"
	"sort"

	"github.com/codenotary/immudb/embedded/tbtree"
)

const (
	knownRollback = "a rejected BulkInsert (same key with a decreasing timestamp inside one batch) rolled the tree back to the last flushed root: earlier accepted inserts are gone"
)

type tvT = tbtree.TimedValue

type mv struct {
	keys []string         // sorted
	vers map[string][]tvT // newest first
	ts   uint64
}

func (m *mv) clone() *mv {
	c := &mv{keys: append([]string{}, m.keys...), vers: make(map[string][]tvT, len(m.vers)), ts: m.ts}
	for k, v := range m.vers {
		c.vers[k] = v // version slices are never mutated in place (always re-allocated on append)
	}
	return c
}

type oracle struct {
	cfg     Cfg
	cur     *mv
	byTs    map[uint64]*mv
	snaps   map[int]*mv
	dead    bool // a known defect changed the state: the map no longer tracks the implementation
	folder  uint64
	dumps   []uint64
	maxKeys int
	// the newest state that is certainly flushed (explicit flush, sync, restart): a rollback must
	// never lose anything of it (its logical time may go back when it came from the TIMESTAMP file)
	floor *mv
}

// flushed: the current state is on disk and is the last flushed root
func (o *oracle) flushed() {
	if !o.dead {
		o.floor = o.cur
	}
}

// lostFlushed: a key of the last certainly-flushed state that the tree no longer holds as it was
func (o *oracle) lostFlushed(x *runner) string {
	if o.floor == nil {
		return ""
	}
	for _, k := range o.floor.keys {
		vs := o.floor.vers[k]
		_, ts, hc, err := x.t.Get([]byte(k))
		if err != nil || ts < vs[0].Ts || hc < uint64(len(vs)) {
			return fmt.Sprintf("key %x (flushed as @%d, %d versions; now ts=%d hc=%d err=%v)", k, vs[0].Ts, len(vs), ts, hc, err)
		}
	}
	return ""
}

func newOracle(cfg Cfg) *oracle {
	m := &mv{vers: map[string][]tvT{}}
	return &oracle{cfg: cfg, cur: m, byTs: map[uint64]*mv{0: m}, snaps: map[int]*mv{}}
}

func (o *oracle) state(op Op) *mv {
	if op.Snap == 0 {
		return o.cur
	}
	return o.snaps[op.Snap]
}

// spec of BulkInsert: nil = rejected
func (o *oracle) specInsert(kvts []KVT) (*mv, bool /*rejected by the map itself*/) {
	if len(kvts) == 0 {
		return nil, false
	}
	n := o.cur.clone()
	newTs := uint64(0)
	for _, e := range kvts {
		k, v := hx(e.K), hx(e.V)
		if len(k) == 0 || len(v) == 0 || len(k) > o.cfg.MaxKey || len(v) > o.cfg.MaxVal {
			return nil, false
		}
		t := e.T
		if t == 0 {
			t = o.cur.ts + 1
		} else if t <= o.cur.ts {
			return nil, false
		}
		if t > newTs {
			newTs = t
		}
	}
	for _, e := range kvts {
		t := e.T
		if t == 0 {
			t = o.cur.ts + 1
		}
		k := string(hx(e.K))
		vs, ok := n.vers[k]
		if !ok {
			i := sort.SearchStrings(n.keys, k)
			n.keys = append(n.keys, "")
			copy(n.keys[i+1:], n.keys[i:])
			n.keys[i] = k
			n.vers[k] = []tvT{{Value: hx(e.V), Ts: t}}
			continue
		}
		switch {
		case t < vs[0].Ts:
			return nil, true
		case t > vs[0].Ts:
			n.vers[k] = append([]tvT{{Value: hx(e.V), Ts: t}}, vs...)
		}
	}
	n.ts = newTs
	return n, false
}

func (o *oracle) insert(x *runner, op Op, ok bool) {
	if o.dead {
		return
	}
	n, mapRejected := o.specInsert(op.Kvts)
	if (n != nil) != ok {
		x.violation("BulkInsert acceptance", op, fmt.Sprint(ok), fmt.Sprint(n != nil))
		o.dead = true
		return
	}
	if n != nil {
		o.cur = n
		o.byTs[n.ts] = n
		if len(n.keys) > o.maxKeys {
			o.maxKeys = len(n.keys)
		}
		return
	}
	// a rejected insert must leave the tree as it was
	if ts := x.t.Ts(); ts != o.cur.ts {
		if lost := o.lostFlushed(x); mapRejected && lost != "" {
			x.violation("rejected BulkInsert lost content of the last flushed/loaded state (fixed by 18b7c7d: tree emptied after a restart)", op, lost, "kept")
		} else if mapRejected {
			x.known = append(x.known, fmt.Sprintf("%s (Ts() %d -> %d)", knownRollback, o.cur.ts, ts))
		} else {
			x.violation("rejected BulkInsert changed Ts()", op, fmt.Sprint(ts), fmt.Sprint(o.cur.ts))
		}
		o.dead = true
		return
	}
	for _, k := range o.cur.keys {
		v, ts, hc, err := x.t.Get([]byte(k))
		vs := o.cur.vers[k]
		if err != nil || !bytes.Equal(v, vs[0].Value) || ts != vs[0].Ts || hc != uint64(len(vs)) {
			if lost := o.lostFlushed(x); mapRejected && lost != "" {
				x.violation("rejected BulkInsert lost content of the last flushed/loaded state (fixed by 18b7c7d: tree emptied after a restart)", op, lost, "kept")
			} else if mapRejected {
				x.known = append(x.known, fmt.Sprintf("%s (key %x)", knownRollback, k))
			} else {
				x.violation("rejected BulkInsert changed the tree", op, fmt.Sprintf("%x@%d", v, ts), fmt.Sprintf("%x@%d", vs[0].Value, vs[0].Ts))
			}
			o.dead = true
			return
		}
	}
}

func (o *oracle) incTs(x *runner, op Op, ok bool) {
	if o.dead {
		return
	}
	want := op.Ts > o.cur.ts
	if want != ok {
		x.violation("IncreaseTs acceptance", op, fmt.Sprint(ok), fmt.Sprint(want))
		o.dead = true
		return
	}
	if ok {
		n := o.cur.clone()
		n.ts = op.Ts
		o.cur = n
		o.byTs[n.ts] = n
	}
}

func (o *oracle) compact(x *runner, op Op, ts uint64, ok bool) {
	if o.dead || !ok {
		return
	}
	// compaction produces a tree equal to the state at the logical time it reports
	if ts != o.cur.ts {
		x.violation("Compact reported ts", op, fmt.Sprint(ts), fmt.Sprint(o.cur.ts))
	}
	o.dumps = append(o.dumps, ts)
}

func (o *oracle) reopen(x *runner, op Op) {
	if o.dead {
		return
	}
	// the next restart loads the newest full dump if there is one newer than the folder in use
	best := o.folder
	for _, d := range o.dumps {
		if d > best {
			best = d
		}
	}
	if best != o.folder {
		if o.byTs[best] == nil {
			x.violation("restart after a compaction that reported a time the tree never had", op, fmt.Sprint(best), "a past ts")
			o.dead = true
			return
		}
		o.cur = o.byTs[best]
		o.folder = best
	}
	o.dumps = nil
	if ts := x.t.Ts(); ts != o.cur.ts {
		x.violation("Ts() after restart", op, fmt.Sprint(ts), fmt.Sprint(o.cur.ts))
		o.dead = true
	}
	o.flushed()
}

func (o *oracle) snapshot(x *runner, op Op, sts uint64, ok bool) {
	if o.dead {
		return
	}
	if !ok {
		if op.Ts <= o.cur.ts && len(x.snaps) < x.cfg.MaxSnaps {
			x.violation("snapshot refused", op, "error", "a snapshot")
		}
		return
	}
	if sts < op.Ts || sts > o.cur.ts {
		x.violation("snapshot older than requested / newer than the tree", op, fmt.Sprint(sts), fmt.Sprintf("[%d,%d]", op.Ts, o.cur.ts))
	}
	st := o.byTs[sts]
	if st == nil {
		x.violation("snapshot reflects no state the tree ever had", op, fmt.Sprint(sts), "a past state")
		o.dead = true
		return
	}
	o.snaps[op.Snap] = st
}

func (o *oracle) snapClose(id int) { delete(o.snaps, id) }

func (o *oracle) ts(x *runner, op Op, ts uint64) {
	if o.dead {
		return
	}
	if st := o.state(op); st != nil && st.ts != ts {
		x.violation("Ts()", op, fmt.Sprint(ts), fmt.Sprint(st.ts))
	}
}

func (o *oracle) get(x *runner, op Op, v []byte, ts, hc uint64, ok bool) {
	st := o.state(op)
	if o.dead || st == nil {
		return
	}
	vs, has := st.vers[string(hx(op.Key))]
	if has != ok || (ok && (!bytes.Equal(v, vs[0].Value) || ts != vs[0].Ts || hc != uint64(len(vs)))) {
		x.violation("Get", op, fmt.Sprintf("%x@%d hc=%d ok=%v", v, ts, hc, ok), fmt.Sprintf("%v", vs))
	}
}

func specBetween(vs []tvT, i, f uint64) (tvT, uint64, bool) {
	if i > f {
		return tvT{}, 0, false
	}
	for j, tv := range vs {
		if tv.Ts >= i && (f == 0 || tv.Ts <= f) {
			return tv, uint64(len(vs) - j), true
		}
	}
	return tvT{}, 0, false
}

func (o *oracle) between(x *runner, op Op, v []byte, ts, hc uint64, ok bool) {
	st := o.state(op)
	if o.dead || st == nil {
		return
	}
	vs := st.vers[string(hx(op.Key))]
	tv, whc, wok := specBetween(vs, op.I, op.F)
	if wok != ok || (ok && (!bytes.Equal(v, tv.Value) || ts != tv.Ts || hc != whc)) {
		x.violation("GetBetween", op, fmt.Sprintf("%x@%d hc=%d ok=%v", v, ts, hc, ok), fmt.Sprintf("%x@%d hc=%d ok=%v", tv.Value, tv.Ts, whc, wok))
	}
}

func specHistory(vs []tvT, off uint64, desc bool, limit int) ([]tvT, bool) {
	if limit < 1 || vs == nil || off >= uint64(len(vs)) {
		return nil, false
	}
	l := vs
	if !desc {
		l = make([]tvT, len(vs))
		for i := range vs {
			l[len(vs)-1-i] = vs[i]
		}
	}
	l = l[off:]
	if len(l) > limit {
		l = l[:limit]
	}
	return l, true
}

func tvsEq(a, b []tvT) bool {
	if len(a) != len(b) {
		return false
	}
	for i := range a {
		if a[i].Ts != b[i].Ts || !bytes.Equal(a[i].Value, b[i].Value) {
			return false
		}
	}
	return true
}

func (o *oracle) history(x *runner, op Op, tvs []tvT, hc uint64, err error) {
	st := o.state(op)
	if o.dead || st == nil {
		return
	}
	vs := st.vers[string(hx(op.Key))]
	want, wok := specHistory(vs, op.Off, op.Desc, op.Limit)
	if wok != (err == nil) || (wok && (!tvsEq(tvs, want) || hc != uint64(len(vs)))) {
		x.violation("History", op, fmt.Sprintf("%v hc=%d err=%v", tvs, hc, err), fmt.Sprintf("%v hc=%d ok=%v", want, len(vs), wok))
	}
}

func (o *oracle) histRead(x *runner, op Op, out [][]tvT) {
	st := o.snaps[op.Snap]
	if o.dead || st == nil {
		return
	}
	vs := st.vers[string(hx(op.Key))]
	var want [][]tvT
	off := op.Off
	for {
		l, ok := specHistory(vs, off, op.Desc, op.Limit)
		if !ok {
			break
		}
		want = append(want, l)
		off += uint64(len(l))
	}
	ok := len(want) == len(out)
	for i := 0; ok && i < len(out); i++ {
		ok = tvsEq(out[i], want[i])
	}
	if !ok {
		x.violation("HistoryReader", op, fmt.Sprint(out), fmt.Sprint(want))
	}
}

func (o *oracle) prefix(x *runner, op Op, k, v []byte, ts, hc uint64, ok bool) {
	st := o.state(op)
	if o.dead || st == nil {
		return
	}
	p, neq := hx(op.Prefix), hx(op.Neq)
	var wk string
	wok := false
	for _, key := range st.keys {
		if bytes.Compare([]byte(key), p) >= 0 && (len(neq) == 0 || bytes.Compare([]byte(key), neq) > 0) {
			if bytes.HasPrefix([]byte(key), p) {
				wk, wok = key, true
			}
			break
		}
	}
	if wok != ok {
		x.violation("GetWithPrefix", op, fmt.Sprintf("%x ok=%v", k, ok), fmt.Sprintf("%x ok=%v", wk, wok))
		return
	}
	if ok {
		vs := st.vers[wk]
		if string(k) != wk || !bytes.Equal(v, vs[0].Value) || ts != vs[0].Ts || hc != uint64(len(vs)) {
			x.violation("GetWithPrefix", op, fmt.Sprintf("%x=%x@%d hc=%d", k, v, ts, hc), fmt.Sprintf("%x=%v", wk, vs))
		}
	}
}

// spec of a range reader, stated on the ORIGINAL ReaderSpec (MVMap.mv_scan)
func (o *oracle) specScan(st *mv, op Op) []ent {
	seek, end, prefix := hx(op.Seek), hx(op.End), hx(op.Prefix)
	var sel []string
	for _, key := range st.keys {
		k := []byte(key)
		cs, ce := bytes.Compare(k, seek), bytes.Compare(k, end)
		var inSeek, inEnd bool
		if op.Desc {
			inSeek = len(seek) == 0 || cs < 0 || (cs == 0 && op.IncSeek)
			inEnd = ce > 0 || (ce == 0 && op.IncEnd)
		} else {
			inSeek = cs > 0 || (cs == 0 && op.IncSeek)
			inEnd = len(end) == 0 || ce < 0 || (ce == 0 && op.IncEnd)
		}
		if inSeek && inEnd && bytes.HasPrefix(k, prefix) {
			sel = append(sel, key)
		}
	}
	if op.Desc {
		for i, j := 0, len(sel)-1; i < j; i, j = i+1, j-1 {
			sel[i], sel[j] = sel[j], sel[i]
		}
	}
	if op.Off >= uint64(len(sel)) {
		return nil
	}
	sel = sel[op.Off:]
	var out []ent
	for _, key := range sel {
		vs := st.vers[key]
		n := uint64(len(vs))
		switch op.Mode {
		case "history":
			for j := range vs {
				if op.Desc {
					out = append(out, ent{[]byte(key), vs[j].Value, vs[j].Ts, n - uint64(j)})
				} else {
					tv := vs[len(vs)-1-j]
					out = append(out, ent{[]byte(key), tv.Value, tv.Ts, uint64(j) + 1})
				}
			}
		case "between":
			if tv, hc, ok := specBetween(vs, op.I, op.F); ok {
				out = append(out, ent{[]byte(key), tv.Value, tv.Ts, hc})
			}
		default:
			out = append(out, ent{[]byte(key), vs[0].Value, vs[0].Ts, n})
		}
	}
	return out
}

func entEq(a, b ent) bool {
	return bytes.Equal(a.k, b.k) && bytes.Equal(a.v, b.v) && a.ts == b.ts && a.hc == b.hc
}

func (o *oracle) read(x *runner, op Op, es []ent, ok bool) {
	st := o.snaps[op.Snap]
	if o.dead || st == nil {
		return
	}
	wantOk := len(hx(op.Seek)) <= o.cfg.MaxKey && len(hx(op.Prefix)) <= o.cfg.MaxKey
	if wantOk != ok {
		x.violation("NewReader acceptance", op, fmt.Sprint(ok), fmt.Sprint(wantOk))
		return
	}
	if !ok {
		return
	}
	want := o.specScan(st, op)
	same := len(want) == len(es)
	for i := 0; same && i < len(es); i++ {
		same = entEq(es[i], want[i])
	}
	if !same {
		x.violation("Reader", op, fmtEnts(es), fmtEnts(want))
	}
}

func fmtEnts(es []ent) string {
	s := "["
	for _, e := range es {
		s += fmt.Sprintf("%x=%x@%d#%d ", e.k, e.v, e.ts, e.hc)
	}
	return s + "]"
}
