package main

import (
	"verif/harness/c10"
	"verif/harness/vk"
)

func main() { vk.Main("Tie.C10", c10.Gen, c10.Replay) }
