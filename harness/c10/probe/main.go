package main

import (
	"fmt"
	"io"
	"os"

	"github.com/codenotary/immudb/embedded/logger"
	"github.com/codenotary/immudb/embedded/tbtree"
)

func opts() *tbtree.Options {
	return tbtree.DefaultOptions().WithMaxKeySize(8).WithMaxValueSize(8).WithMaxNodeSize(128).
		WithLogger(logger.NewSimpleLoggerWithLevel("vh", io.Discard, logger.LogError)).WithCompactionThld(1)
}

func main() {
	// probe 1: GetBetween chain overrun
	d, _ := os.MkdirTemp("", "c10p")
	defer os.RemoveAll(d)
	t, err := tbtree.Open(d, opts())
	if err != nil {
		panic(err)
	}
	t.BulkInsert([]*tbtree.KVT{{K: []byte("a"), V: []byte("A1"), T: 1}})
	t.BulkInsert([]*tbtree.KVT{{K: []byte("a"), V: []byte("A2"), T: 2}})
	t.FlushWith(0, false)
	t.BulkInsert([]*tbtree.KVT{{K: []byte("b"), V: []byte("B5"), T: 5}})
	t.BulkInsert([]*tbtree.KVT{{K: []byte("b"), V: []byte("B6"), T: 6}})
	t.BulkInsert([]*tbtree.KVT{{K: []byte("b"), V: []byte("B7"), T: 7}})
	t.FlushWith(0, false)
	v, ts, hc, err := t.GetBetween([]byte("b"), 1, 3)
	fmt.Printf("GetBetween(b,1,3) = %q ts=%d hc=%d err=%v\n", v, ts, hc, err)
	v, ts, hc, err = t.GetBetween([]byte("b"), 0, 4)
	fmt.Printf("GetBetween(b,0,4) = %q ts=%d hc=%d err=%v\n", v, ts, hc, err)
	t.Close()

	// probe 2: failed insert rolls back earlier successful unflushed inserts
	d2, _ := os.MkdirTemp("", "c10p")
	defer os.RemoveAll(d2)
	t, _ = tbtree.Open(d2, opts())
	t.BulkInsert([]*tbtree.KVT{{K: []byte("a"), V: []byte("A1"), T: 1}})
	t.FlushWith(0, false)
	err = t.BulkInsert([]*tbtree.KVT{{K: []byte("c"), V: []byte("C2"), T: 2}})
	fmt.Println("insert c@2:", err)
	err = t.BulkInsert([]*tbtree.KVT{{K: []byte("d"), V: []byte("D9"), T: 9}, {K: []byte("d"), V: []byte("D8"), T: 8}})
	fmt.Println("bad insert:", err)
	v, ts, hc, err = t.Get([]byte("c"))
	fmt.Printf("Get(c) = %q ts=%d hc=%d err=%v; Ts=%d\n", v, ts, hc, err, t.Ts())
	t.Close()
	// probe 3: after reopen
	t, _ = tbtree.Open(d2, opts())
	err = t.BulkInsert([]*tbtree.KVT{{K: []byte("c"), V: []byte("C2"), T: 2}})
	fmt.Println("insert c@2:", err)
	err = t.BulkInsert([]*tbtree.KVT{{K: []byte("d"), V: []byte("D9"), T: 9}, {K: []byte("d"), V: []byte("D8"), T: 8}})
	fmt.Println("bad insert:", err)
	v, ts, hc, err = t.Get([]byte("a"))
	fmt.Printf("after reopen+ok insert+bad insert: Get(a) = %q ts=%d hc=%d err=%v; Ts=%d\n", v, ts, hc, err, t.Ts())
	t.Close()
	t, _ = tbtree.Open(d2, opts())
	v, ts, hc, err = t.Get([]byte("a"))
	fmt.Printf("after another reopen: Get(a) = %q ts=%d hc=%d err=%v; Ts=%d\n", v, ts, hc, err, t.Ts())
	t.Close()
}
