package c10

import (
	"fmt"
	"math/rand"
	"os"
	"sync"

	"verif/harness/vk"
)

// ---------- generators ----------
type gen struct {
	rng    *rand.Rand
	cfg    Cfg
	x      *runner
	alpha  []byte
	nextID int
	known  []string // keys inserted so far (hex)
	tsSeen []uint64
}

func pick[T any](rng *rand.Rand, xs ...T) T { return xs[rng.Intn(len(xs))] }

func randCfg(rng *rand.Rand) Cfg {
	c := Cfg{}
	c.MaxKey = 1 + rng.Intn(6)
	c.MaxVal = 1 + rng.Intn(6)
	req := requiredNodeSize(c.MaxKey, c.MaxVal)
	// mostly tiny nodes (1-3 entries per leaf, 2-4 children per inner node => deep trees)
	c.MaxNode = req + pick(rng, 0, 0, 1, 5, 17, 33, 40, 64, 100, 200, 1000)
	c.FlushThld = pick(rng, 1, 2, 3, 5, 8, 20, 100000)
	c.SyncThld = c.FlushThld * pick(rng, 1, 2, 10)
	c.MaxBuf = pick(rng, 1, 30, 60, 150, 1<<20)
	c.Cleanup = pick(rng, float32(0), 0, 0.5, 10, 50, 100)
	c.CompThld = pick(rng, 1, 1, 2, 3)
	c.MaxSnaps = pick(rng, 1, 2, 3, 10)
	c.Cache = pick(rng, 1, 64, 300, 4096, 1<<20)
	c.FileSize = pick(rng, 256, 1024, 1<<16, 1<<22)
	c.NLogFiles = pick(rng, 0, 0, 0, 1, 2)
	return c
}

func (g *gen) key() []byte {
	n := 1 + g.rng.Intn(g.cfg.MaxKey)
	if g.rng.Intn(3) == 0 && n > 2 {
		n = 2
	}
	b := make([]byte, n)
	for i := range b {
		b[i] = g.alpha[g.rng.Intn(len(g.alpha))]
	}
	return b
}

// a key that probably exists (or a neighbour of one)
func (g *gen) someKey() []byte {
	if len(g.known) > 0 && g.rng.Intn(5) != 0 {
		k := hx(g.known[g.rng.Intn(len(g.known))])
		switch g.rng.Intn(12) {
		case 0:
			return append(k, g.alpha[g.rng.Intn(len(g.alpha))])
		case 1:
			if len(k) > 1 {
				return k[:len(k)-1]
			}
		case 2:
			k = vk.Clone(k)
			k[len(k)-1]++
			return k
		}
		return k
	}
	return g.key()
}

func (g *gen) val() []byte { return vk.RandBytes(g.rng, 1+g.rng.Intn(g.cfg.MaxVal)) }

func (g *gen) curTs() uint64 { return g.x.t.Ts() }

func (g *gen) someTs() uint64 {
	cur := g.curTs()
	switch g.rng.Intn(6) {
	case 0:
		return 0
	case 1:
		return cur
	case 2:
		return cur + 1
	case 3:
		if len(g.tsSeen) > 0 {
			return g.tsSeen[g.rng.Intn(len(g.tsSeen))]
		}
	}
	return uint64(g.rng.Int63n(int64(cur) + 2))
}

func (g *gen) insertOp(adversarial bool) Op {
	cur := g.curTs()
	n := pick(g.rng, 1, 1, 2, 3, 4, 6, 9, 14)
	var kvts []KVT
	mode := g.rng.Intn(5)
	t := cur + 1 + uint64(g.rng.Intn(2))*uint64(g.rng.Intn(3))
	for i := 0; i < n; i++ {
		var k []byte
		if len(kvts) > 0 && g.rng.Intn(4) == 0 {
			k = hx(kvts[g.rng.Intn(len(kvts))].K) // repeated key inside the batch
		} else if g.rng.Intn(3) == 0 {
			k = g.someKey()
			if len(k) == 0 || len(k) > g.cfg.MaxKey {
				k = g.key()
			}
		} else {
			k = g.key()
		}
		e := KVT{K: hs(k), V: hs(g.val())}
		switch mode {
		case 0: // all zero: "current time plus one"
		case 1, 2: // explicit, non-decreasing (repeated keys get same-ts re-inserts or new versions)
			e.T = t
			if g.rng.Intn(2) == 0 {
				t += uint64(g.rng.Intn(3))
			}
		case 3: // all at the same explicit time
			e.T = t
		case 4: // mixed zero / explicit, non-decreasing
			if g.rng.Intn(2) == 0 {
				e.T = cur + 1 + uint64(i)
			} else if i == 0 {
				e.T = 0
			} else {
				e.T = cur + 1 + uint64(i)
			}
		}
		kvts = append(kvts, e)
	}
	if adversarial {
		switch g.rng.Intn(8) {
		case 0:
			kvts = nil
		case 1:
			kvts[g.rng.Intn(len(kvts))].K = ""
		case 2:
			kvts[g.rng.Intn(len(kvts))].V = ""
		case 3:
			kvts[g.rng.Intn(len(kvts))].K = hs(vk.RandBytes(g.rng, g.cfg.MaxKey+1))
		case 4:
			kvts[g.rng.Intn(len(kvts))].V = hs(vk.RandBytes(g.rng, g.cfg.MaxVal+1))
		case 5:
			if cur > 0 {
				kvts[g.rng.Intn(len(kvts))].T = 1 + uint64(g.rng.Int63n(int64(cur)))
			} else {
				kvts = nil
			}
		default:
			// the same key with a DECREASING timestamp inside the batch: rejected by the tree itself
			k := kvts[0].K
			kvts = append(kvts, KVT{K: k, V: hs(g.val()), T: cur + 5}, KVT{K: k, V: hs(g.val()), T: cur + 4})
		}
	}
	return Op{Kind: "insert", Kvts: kvts}
}

func (g *gen) target() int {
	if len(g.x.snaps) > 0 && g.rng.Intn(2) == 0 {
		return g.anySnap()
	}
	return 0
}

func (g *gen) anySnap() int {
	ids := make([]int, 0, len(g.x.snaps))
	for id := range g.x.snaps {
		ids = append(ids, id)
	}
	// deterministic choice: smallest/greatest/middle by value
	min, max := ids[0], ids[0]
	for _, id := range ids {
		if id < min {
			min = id
		}
		if id > max {
			max = id
		}
	}
	if g.rng.Intn(2) == 0 {
		return min
	}
	return max
}

func (g *gen) boundKey() string {
	switch g.rng.Intn(8) {
	case 0:
		return ""
	case 1:
		return hs(vk.RandBytes(g.rng, g.cfg.MaxKey+1+g.rng.Intn(2))) // longer than MaxKeySize
	case 2:
		return hs([]byte{0xff})
	case 3:
		b := make([]byte, g.cfg.MaxKey)
		for i := range b {
			b[i] = 0xff
		}
		return hs(b)
	}
	return hs(g.someKey())
}

func (g *gen) prefixKey() string {
	switch g.rng.Intn(6) {
	case 0, 1:
		return ""
	case 2:
		return hs([]byte{g.alpha[g.rng.Intn(len(g.alpha))]})
	case 3:
		return hs([]byte{0xff})
	}
	k := g.someKey()
	return hs(k[:g.rng.Intn(len(k)+1)])
}

func (g *gen) readOp(snap int) Op {
	o := Op{Kind: "read", Snap: snap, Seek: g.boundKey(), End: g.boundKey(), Prefix: g.prefixKey(),
		IncSeek: g.rng.Intn(2) == 0, IncEnd: g.rng.Intn(2) == 0, Desc: g.rng.Intn(2) == 0,
		Mode: pick(g.rng, "latest", "latest", "history", "between")}
	if g.rng.Intn(3) == 0 {
		o.End = ""
	}
	if g.rng.Intn(3) == 0 {
		o.Seek = ""
	}
	o.Off = uint64(pick(g.rng, 0, 0, 0, 1, 2, 3, 7, 1000))
	if o.Mode == "between" {
		o.I, o.F = g.someTs(), g.someTs()
		if o.I > o.F && g.rng.Intn(4) != 0 {
			o.I, o.F = o.F, o.I
		}
	}
	if g.rng.Intn(3) == 0 {
		o.Defer = 1 + g.rng.Intn(6)
		o.Async = g.rng.Intn(2) == 0
	}
	return o
}

func (g *gen) queryOp() Op {
	tg := g.target()
	switch g.rng.Intn(9) {
	case 0:
		return Op{Kind: "ts", Snap: tg}
	case 1, 2:
		return Op{Kind: "get", Snap: tg, Key: hs(g.someKey())}
	case 3, 4:
		i, f := g.someTs(), g.someTs()
		if i > f && g.rng.Intn(4) != 0 {
			i, f = f, i
		}
		return Op{Kind: "between", Snap: tg, Key: hs(g.someKey()), I: i, F: f}
	case 5, 6:
		return Op{Kind: "history", Snap: tg, Key: hs(g.someKey()), Off: uint64(g.rng.Intn(5)), Desc: g.rng.Intn(2) == 0,
			Limit: pick(g.rng, 0, 1, 1, 2, 3, 100)}
	default:
		neq := ""
		if g.rng.Intn(2) == 0 {
			neq = hs(g.someKey())
		}
		return Op{Kind: "prefix", Snap: tg, Prefix: g.prefixKey(), Neq: neq}
	}
}

// snapshot-only queries (readers)
func (g *gen) snapQueryOp(snap int) Op {
	if g.rng.Intn(4) == 0 {
		return Op{Kind: "histread", Snap: snap, Key: hs(g.someKey()), Off: uint64(g.rng.Intn(4)), Desc: g.rng.Intn(2) == 0,
			Limit: pick(g.rng, 0, 1, 1, 2, 3, 100)}
	}
	return g.readOp(snap)
}

func (g *gen) closeAllSnaps() error {
	for len(g.x.snaps) > 0 {
		id := g.anySnap()
		if err := g.x.exec(Op{Kind: "snapclose", Snap: id}); err != nil {
			return err
		}
	}
	return nil
}

func (g *gen) do(o Op) error {
	if err := g.x.exec(o); err != nil {
		return err
	}
	if o.Kind == "insert" {
		for _, e := range o.Kvts {
			if len(g.known) < 400 && len(e.K) > 0 {
				g.known = append(g.known, e.K)
			}
		}
	}
	g.tsSeen = append(g.tsSeen, g.x.t.Ts())
	return nil
}

// one case: nOps operations; rollback = include one insert rejected by the tree while unflushed
// changes exist (the known rollback defect), near the end
func genCase(seed int64, nOps int, profile string) (res *caseResult, err error) {
	rng := rand.New(rand.NewSource(seed))
	cfg := randCfg(rng)
	if profile == "deep" {
		cfg.MaxNode = requiredNodeSize(cfg.MaxKey, cfg.MaxVal) + rng.Intn(3)
	}
	x, err := newRunner(cfg)
	if err != nil {
		return nil, err
	}
	defer x.cleanup()
	defer func() {
		// a Go panic while driving the tree (in the implementation or on an impossible output)
		// is a violation with the operations recorded so far as its replay
		if p := recover(); p != nil {
			x.viol = append(x.viol, fmt.Sprintf("panic while executing op#%d: %v", len(x.recs), p))
			for _, sn := range x.snaps {
				sn.pend = nil
			}
			for i := range x.recs {
				if x.recs[i] == "" {
					x.recs[i] = "OSnapClose 999999 false" // no-op placeholder for a read that never finished
				}
			}
			res, err = x.result(profile+"/panic"), nil
		}
	}()
	g := &gen{rng: rng, cfg: cfg, x: x, nextID: 1}
	g.alpha = pick(rng, []byte("ab"), []byte("abc"), []byte{0x00, 0x61, 0xff}, []byte{0x61, 0x62, 0xfe, 0xff}, []byte("abcdefgh"))
	// an operation that must not fail (flush, sync, close+open, snapshot close) failed: that is a
	// violation of THIS case (cut short here), not a failure of the harness run
	defer func() {
		if err != nil && res == nil {
			x.viol = append(x.viol, fmt.Sprintf("op#%d: %v (case cut short)", len(x.recs), err))
			for _, sn := range x.snaps {
				sn.pend = nil
			}
			for i := range x.recs {
				if x.recs[i] == "" {
					x.recs[i] = "OSnapClose 999999 false"
				}
			}
			res, err = x.result(profile+"/failed-op"), nil
		}
	}()
	advCase := profile == "adversarial"
	rollbackAt := -1
	if profile == "rollback" {
		rollbackAt = nOps - 1 - rng.Intn(6)
	}
	for i := 0; i < nOps; i++ {
		if i == rollbackAt {
			// half of the time right after a restart (18b7c7d: the rollback target is then the loaded
			// root, never an empty tree)
			if rng.Intn(2) == 0 {
				if err := g.closeAllSnaps(); err != nil {
					return nil, err
				}
				if err := g.do(Op{Kind: "reopen"}); err != nil {
					return nil, err
				}
			}
			// make sure something is unflushed, then a batch the tree itself rejects
			if err := g.do(g.insertOp(false)); err != nil {
				return nil, err
			}
			cur := g.curTs()
			k := hs(g.key())
			if err := g.do(Op{Kind: "insert", Kvts: []KVT{{K: k, V: hs(g.val()), T: cur + 3}, {K: k, V: hs(g.val()), T: cur + 2}}}); err != nil {
				return nil, err
			}
			continue
		}
		p := rng.Intn(100)
		var o Op
		switch {
		case p < 30:
			o = g.insertOp(false)
			if advCase && rng.Intn(3) == 0 {
				o = g.insertOp(true)
				// a batch the tree itself rejects (same key, decreasing ts): outside the rollback
				// profile it is issued right after a flush, when nothing can be rolled back
				if n := len(o.Kvts); n >= 2 && o.Kvts[n-1].T != 0 && o.Kvts[n-1].T < o.Kvts[n-2].T && o.Kvts[n-1].K == o.Kvts[n-2].K {
					if err := g.do(Op{Kind: "flush", Pct: 0, Synced: false}); err != nil {
						return nil, err
					}
				}
			}
		case p < 34:
			cur := g.curTs()
			o = Op{Kind: "incts", Ts: pick(rng, cur+1, cur+1, cur+2, cur+5, cur, cur/2)}
		case p < 40:
			o = Op{Kind: "flush", Pct: pick(rng, float32(0), 0, 10, 50, 100), Synced: rng.Intn(2) == 0, Plain: rng.Intn(4) == 0}
		case p < 42:
			o = Op{Kind: "sync"}
		case p < 45:
			o = Op{Kind: "compact"}
		case p < 49:
			if err := g.closeAllSnaps(); err != nil {
				return nil, err
			}
			o = Op{Kind: "reopen"}
		case p < 57:
			o = Op{Kind: "snap", Snap: g.nextID, Ts: g.someTs(), Renew: rng.Intn(4) == 0, Synced: rng.Intn(2) == 0}
			g.nextID++
		case p < 61:
			if len(x.snaps) == 0 {
				continue
			}
			o = Op{Kind: "snapclose", Snap: g.anySnap()}
		case p < 80:
			if len(x.snaps) == 0 {
				o = g.queryOp()
			} else {
				o = g.snapQueryOp(g.anySnap())
			}
		default:
			o = g.queryOp()
		}
		if err := g.do(o); err != nil {
			return nil, err
		}
	}
	// final observations: the whole content through a snapshot reader, both directions
	if err := g.do(Op{Kind: "snap", Snap: g.nextID, Ts: 0}); err != nil {
		return nil, err
	}
	if s := x.snaps[g.nextID]; s != nil {
		for _, desc := range []bool{false, true} {
			if err := g.do(Op{Kind: "read", Snap: g.nextID, Desc: desc, Mode: pick(rng, "latest", "history")}); err != nil {
				return nil, err
			}
		}
	}
	if err := g.closeAllSnaps(); err != nil {
		return nil, err
	}
	return x.result(profile), nil
}

// probeCases: the exact inputs of the two repaired defects, run first on every check
func probeCases() ([]*caseResult, error) {
	cfg := Cfg{MaxNode: 128, MaxKey: 8, MaxVal: 8, FlushThld: 100000, SyncThld: 1000000, MaxBuf: 1 << 22,
		CompThld: 1, MaxSnaps: 10, Cache: 4096, FileSize: 1 << 20}
	kv := func(k, v string, t uint64) Op {
		return Op{Kind: "insert", Kvts: []KVT{{K: hs([]byte(k)), V: hs([]byte(v)), T: t}}}
	}
	scripts := map[string][]Op{
		// e30fc04: GetBetween(b,1,3) returned a's value at ts 1
		"probe/getbetween-chain-overrun": {kv("a", "A1", 1), kv("a", "A2", 2), {Kind: "flush"},
			kv("b", "B5", 5), kv("b", "B6", 6), kv("b", "B7", 7), {Kind: "flush"},
			{Kind: "between", Key: hs([]byte("b")), I: 1, F: 3}, {Kind: "between", Key: hs([]byte("b")), I: 0, F: 4},
			{Kind: "snap", Snap: 1}, {Kind: "read", Snap: 1, Mode: "between", I: 1, F: 3}, {Kind: "snapclose", Snap: 1}},
		// 18b7c7d: after a restart a rejected batch emptied the tree
		"probe/rollback-after-reopen": {kv("a", "A1", 1), {Kind: "reopen"}, kv("c", "C2", 2),
			{Kind: "insert", Kvts: []KVT{{K: hs([]byte("d")), V: hs([]byte("D9")), T: 9}, {K: hs([]byte("d")), V: hs([]byte("D8")), T: 8}}},
			{Kind: "get", Key: hs([]byte("a"))}, {Kind: "ts"}, {Kind: "flush"}, {Kind: "reopen"},
			{Kind: "get", Key: hs([]byte("a"))}, {Kind: "ts"}},
	}
	// a reader on an open snapshot must survive a synced flush with full cleanup (the nodes it still
	// has to load must not be discarded); tiny cache so that the reader holds nodes the flush does
	// not see
	var sc []Op
	for i := 0; i < 40; i++ {
		sc = append(sc, kv(fmt.Sprintf("k%02d", i), "v", 0))
		if i%7 == 0 {
			sc = append(sc, Op{Kind: "flush"})
		}
	}
	sc = append(sc, Op{Kind: "flush", Synced: true}, Op{Kind: "snap", Snap: 1},
		Op{Kind: "read", Snap: 1, Mode: "latest", Defer: 2}, Op{Kind: "read", Snap: 1, Mode: "history", Desc: true, Defer: 2},
		Op{Kind: "flush", Pct: 100, Synced: true}, Op{Kind: "ts"}, Op{Kind: "ts"},
		Op{Kind: "get", Snap: 1, Key: hs([]byte("k20"))}, Op{Kind: "read", Snap: 1, Mode: "latest"},
		kv("k05", "w", 0), Op{Kind: "flush", Pct: 50, Synced: true}, Op{Kind: "read", Snap: 1, Mode: "latest", Desc: true},
		Op{Kind: "snapclose", Snap: 1})
	scripts["probe/snapshot-reader-survives-cleanup"] = sc
	// many chunk files (FileSize 256) and batches that make innerNode.updateOnInsert load children
	// from different chunks in parallel: more chunks are read at once than the multiapp cache holds
	var mc []Op
	for i := 0; i < 64; i++ {
		mc = append(mc, kv(fmt.Sprintf("%c%c%c", 'a'+i%8, 'a'+(i/8)%8, 'a'+i%5), "v", 0))
		if i%4 == 3 {
			mc = append(mc, Op{Kind: "flush"})
		}
	}
	for r := 0; r < 40; r++ {
		var b []KVT
		for j := 0; j < 16; j++ {
			i := (r*7 + j*4) % 64
			b = append(b, KVT{K: hs([]byte(fmt.Sprintf("%c%c%c", 'a'+i%8, 'a'+(i/8)%8, 'a'+i%5))), V: hs([]byte{byte(r), byte(j)})})
		}
		mc = append(mc, Op{Kind: "insert", Kvts: b}, Op{Kind: "flush"})
	}
	scripts["probe/many-chunks-parallel-insert"] = mc
	cfgs := map[string]Cfg{
		"probe/snapshot-reader-survives-cleanup": {MaxNode: 70, MaxKey: 4, MaxVal: 4, FlushThld: 100000, SyncThld: 1000000,
			MaxBuf: 1 << 22, CompThld: 1, MaxSnaps: 10, Cache: 1, FileSize: 1024},
		"probe/many-chunks-parallel-insert": {MaxNode: 66, MaxKey: 4, MaxVal: 4, FlushThld: 100000, SyncThld: 1000000,
			MaxBuf: 1 << 22, CompThld: 1, MaxSnaps: 10, Cache: 1, FileSize: 256, NLogFiles: 1},
	}
	var out []*caseResult
	for _, name := range []string{"probe/getbetween-chain-overrun", "probe/rollback-after-reopen",
		"probe/snapshot-reader-survives-cleanup", "probe/many-chunks-parallel-insert"} {
		cfg := cfg
		if c, ok := cfgs[name]; ok {
			cfg = c
		}
		x, err := newRunner(cfg)
		if err != nil {
			return nil, err
		}
		for _, o := range scripts[name] {
			if err := x.exec(o); err != nil {
				x.viol = append(x.viol, fmt.Sprintf("op#%d: %v (case cut short)", len(x.recs), err))
				break
			}
		}
		// the loaded content must still be there
		if name == "probe/rollback-after-reopen" {
			if v, _, _, err := x.t.Get([]byte("a")); err != nil || string(v) != "A1" {
				x.viol = append(x.viol, fmt.Sprintf("after restart, an accepted insert and a rejected batch the loaded key a is gone (Get(a) = %q, %v): fixed by 18b7c7d", v, err))
			}
		}
		out = append(out, x.result(name))
		x.cleanup()
	}
	return out, nil
}

// Gen: n = number of cases.  Profiles: mixed (default), deep (minimal node size), adversarial
// (malformed batches, refused timestamps), rollback (one tree-level rejection with unflushed data).
func Gen(r *vk.Run, n int) error {
	probes, err := probeCases()
	if err != nil {
		return fmt.Errorf("probe: %v", err)
	}
	for _, p := range probes {
		p.emit(r)
	}
	long := os.Getenv("VERIF_TIER") == "thorough"
	type job struct {
		seed    int64
		nOps    int
		profile string
		res     *caseResult
		err     error
	}
	jobs := make([]*job, n)
	for i := 0; i < n; i++ {
		profile := "mixed"
		switch {
		case i%10 == 3 || i%10 == 7:
			profile = "deep"
		case i%10 == 5:
			profile = "adversarial"
		case i%25 == 9:
			profile = "rollback"
		}
		nOps := 8 + r.Rng.Intn(30)
		if long {
			nOps += r.Rng.Intn(130)
		}
		jobs[i] = &job{seed: r.Rng.Int63(), nOps: nOps, profile: profile}
	}
	// the cases are independent (own temp dir, own PRNG derived from the run's PRNG): run them on
	// a few workers, hand them to the recorder in generation order
	work := make(chan *job)
	var wg sync.WaitGroup
	for w := 0; w < 8; w++ {
		wg.Add(1)
		go func() {
			defer wg.Done()
			for j := range work {
				j.res, j.err = genCase(j.seed, j.nOps, j.profile)
			}
		}()
	}
	for _, j := range jobs {
		work <- j
	}
	close(work)
	wg.Wait()
	for i, j := range jobs {
		if j.err != nil {
			return fmt.Errorf("case %d: %v", i, j.err)
		}
		j.res.emit(r)
	}
	return nil
}
