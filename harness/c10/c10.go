// Package c10: correspondence cases for the timed B-tree (embedded/tbtree) against the Coq model
// Index/TBState.v + Index/BTree.v, plus a direct oracle (the abstract multi-version map of
// Index/MVMap.v re-stated in Go, oracle.go) that checks every output of the implementation.
//
// One case = one random configuration (small MaxNodeSize => deep trees, cache size, flush/sync
// thresholds, buffered-size limit, cleanup percentage, compaction threshold, file size) and one
// random operation sequence on a real tbtree in a temp dir.  Every operation is recorded with what
// the implementation returned; the Coq side replays the sequence on the model.
package c10

import (
	"encoding/hex"
	"encoding/json"
	"errors"
	"fmt"
	"io"
	"math/big"
	"os"
	"strings"
	"sync"
	"time"

	"github.com/codenotary/immudb/embedded/logger"
	"github.com/codenotary/immudb/embedded/tbtree"
	"verif/harness/vk"
)

// ---------- configuration ----------
type Cfg struct {
	MaxNode, MaxKey, MaxVal, FlushThld, SyncThld, MaxBuf, CompThld, MaxSnaps, Cache, FileSize int
	NLogFiles                                                                                 int // nodes-log max opened files (0 = default 10)
	Cleanup                                                                                   float32
}

func (c Cfg) opts() *tbtree.Options {
	o := c.baseOpts()
	if c.NLogFiles > 0 {
		o.WithNodesLogMaxOpenedFiles(c.NLogFiles)
	}
	return o
}

func (c Cfg) baseOpts() *tbtree.Options {
	return tbtree.DefaultOptions().
		WithLogger(logger.NewSimpleLoggerWithLevel("vh", io.Discard, logger.LogError)).
		WithMaxKeySize(c.MaxKey).WithMaxValueSize(c.MaxVal).WithMaxNodeSize(c.MaxNode).
		WithFlushThld(c.FlushThld).WithSyncThld(c.SyncThld).WithMaxBufferedDataSize(c.MaxBuf).
		WithCleanupPercentage(c.Cleanup).WithCompactionThld(c.CompThld).WithMaxActiveSnapshots(c.MaxSnaps).
		WithCacheSize(c.Cache).WithFileSize(c.FileSize).WithDelayDuringCompaction(0).
		WithRenewSnapRootAfter(0)
}

func (c Cfg) coq() string {
	return fmt.Sprintf("(CF %d %d %d %d %d %s %d %d)", c.MaxNode, c.MaxKey, c.MaxVal, c.FlushThld, c.MaxBuf,
		vk.Bool(c.Cleanup != 0), c.CompThld, c.MaxSnaps)
}

func requiredNodeSize(k, v int) int {
	a, b := 2*(29+k), 31+k+v
	if a < b {
		return b
	}
	return a
}

// ---------- operations (inputs only; JSON-serialisable so that a case can be replayed) ----------
type KVT struct {
	K, V string // hex
	T    uint64
}

type Op struct {
	Kind string `json:"op"`
	// insert
	Kvts []KVT `json:"kvts,omitempty"`
	// incts / snapshot(ts) / between bounds
	Ts uint64 `json:"ts,omitempty"`
	// flush
	Pct    float32 `json:"pct,omitempty"`
	Synced bool    `json:"synced,omitempty"`
	Plain  bool    `json:"plain,omitempty"` // Flush() instead of FlushWith
	// snapshot
	Snap  int  `json:"snap,omitempty"`  // harness id of the snapshot (target of queries: 0 = current tree)
	Renew bool `json:"renew,omitempty"` // renewal period elapsed
	// queries
	Key, Prefix, Neq string
	I, F             uint64
	Off              uint64
	Desc             bool
	Limit            int
	// reader
	Seek, End       string
	IncSeek, IncEnd bool
	Mode            string // latest | history | between
	Defer           int    // finish reading after this many further operations (0 = at once)
	Async           bool   // read in a goroutine while the writer proceeds
}

func hx(s string) []byte {
	b, err := hex.DecodeString(s)
	if err != nil {
		panic(err)
	}
	return b
}
func hs(b []byte) string { return hex.EncodeToString(b) }

// yn: compact numeric code of a byte string of at most 15 bytes (Tie/C10.v `y`)
func yn(s string) string {
	b := hx(s)
	if len(b) > 15 {
		panic("byte string too long for the compact code")
	}
	v := new(big.Int)
	v.SetBytes(b)
	v.Lsh(v, 4)
	v.Add(v, big.NewInt(int64(len(b))))
	return v.String()
}
func ch(s string) string { return "(y " + yn(s) + ")" }

// tempBase: the temp dirs go to a memory file system when there is one (thousands of tiny synced
// files per run; fsync on a shared disk dominates otherwise); TMPDIR, when set, is honoured
func tempBase() string {
	if os.Getenv("TMPDIR") == "" {
		if st, err := os.Stat("/dev/shm"); err == nil && st.IsDir() {
			return "/dev/shm"
		}
	}
	return ""
}

// ---------- running a case on the real tbtree ----------
type pending struct {
	slot   int // index in recs to fill
	op     Op
	due    int // op counter at which to finish
	finish func() (coq string, descr string)
	wg     *sync.WaitGroup
}

type openSnap struct {
	id   int
	s    *tbtree.Snapshot
	pend []*pending
}

type runner struct {
	cfg          Cfg
	dir          string
	t            *tbtree.TBtree
	snaps        map[int]*openSnap
	recs         []string // Coq op terms
	descr        []string // human-readable outcome per op
	ops          []Op
	nops         int
	or           *oracle
	viol         []string // oracle violations that are not known findings
	known        []string
	stats        map[string]int
	maxDepthKeys int
}

func newRunner(cfg Cfg) (*runner, error) {
	dir, err := os.MkdirTemp(tempBase(), "vh-c10-")
	if err != nil {
		return nil, err
	}
	t, err := tbtree.Open(dir, cfg.opts())
	if err != nil {
		os.RemoveAll(dir)
		return nil, err
	}
	return &runner{cfg: cfg, dir: dir, t: t, snaps: map[int]*openSnap{}, or: newOracle(cfg), stats: map[string]int{}}, nil
}

func (x *runner) cleanup() {
	for _, s := range x.snaps {
		x.finishPending(s, true)
		s.s.Close()
	}
	if x.t != nil {
		x.t.Close()
	}
	os.RemoveAll(x.dir)
}

func optN(ok bool, v uint64) string { return vk.OptN(ok, v) }

func v3(v []byte, ts, hc uint64, err error) string {
	if err != nil {
		return "None"
	}
	return fmt.Sprintf("(Some (V3 %s %d %d))", yn(hs(v)), ts, hc)
}

func tvsCoq(tvs []tbtree.TimedValue) string {
	xs := make([]string, len(tvs))
	for i, tv := range tvs {
		xs[i] = fmt.Sprintf("TV %s %d", yn(hs(tv.Value)), tv.Ts)
	}
	return vk.List(xs)
}

type ent struct {
	k, v   []byte
	ts, hc uint64
}

func entsCoq(es []ent) string {
	xs := make([]string, len(es))
	for i, e := range es {
		xs[i] = fmt.Sprintf("E4 %s %s %d %d", yn(hs(e.k)), yn(hs(e.v)), e.ts, e.hc)
	}
	return vk.List(xs)
}

func (x *runner) target(o Op) string {
	if o.Snap == 0 {
		return "TCur"
	}
	return fmt.Sprintf("(TSnap %d)", o.Snap)
}

func (x *runner) record(o Op, coq, descr string) int {
	x.ops = append(x.ops, o)
	x.recs = append(x.recs, coq)
	x.descr = append(x.descr, descr)
	x.stats[o.Kind]++
	return len(x.recs) - 1
}

func errS(err error) string {
	if err == nil {
		return "ok"
	}
	return "err(" + err.Error() + ")"
}

func (x *runner) violation(kind string, o Op, got, want string) {
	b, _ := json.Marshal(o)
	x.viol = append(x.viol, fmt.Sprintf("%s: op#%d %s got %s want %s", kind, len(x.recs), string(b), got, want))
}

// exec runs one operation on the implementation, records it, and checks it against the oracle.
func (x *runner) exec(o Op) error {
	x.nops++
	x.finishDue(false)
	switch o.Kind {
	case "insert":
		kvts := make([]*tbtree.KVT, len(o.Kvts))
		terms := make([]string, len(o.Kvts))
		for i, e := range o.Kvts {
			kvts[i] = &tbtree.KVT{K: hx(e.K), V: hx(e.V), T: e.T}
			terms[i] = fmt.Sprintf("KV %s %s %d", yn(e.K), yn(e.V), e.T)
		}
		err := x.t.BulkInsert(kvts)
		x.record(o, fmt.Sprintf("OInsert %s %s", vk.List(terms), vk.Bool(err == nil)), errS(err))
		x.or.insert(x, o, err == nil)
	case "incts":
		err := x.t.IncreaseTs(o.Ts)
		x.record(o, fmt.Sprintf("OIncTs %d %s", o.Ts, vk.Bool(err == nil)), errS(err))
		x.or.incTs(x, o, err == nil)
	case "flush":
		var err error
		pct := o.Pct
		if o.Plain {
			_, _, err = x.t.Flush()
			pct = x.cfg.Cleanup
		} else {
			_, _, err = x.t.FlushWith(o.Pct, o.Synced)
		}
		if err != nil {
			return fmt.Errorf("flush failed: %v", err)
		}
		x.record(o, fmt.Sprintf("OFlush %s", vk.Bool(pct != 0)), "ok")
		x.or.flushed()
	case "sync":
		if err := x.t.Sync(); err != nil {
			return fmt.Errorf("sync failed: %v", err)
		}
		x.record(o, "OSync", "ok")
		x.or.flushed()
	case "compact":
		ts, err := x.t.Compact()
		x.record(o, fmt.Sprintf("OCompact %s", optN(err == nil, ts)), fmt.Sprintf("%d %s", ts, errS(err)))
		x.or.compact(x, o, ts, err == nil)
	case "reopen":
		err := x.t.Close()
		if err == nil {
			x.t = nil
			t, oerr := tbtree.Open(x.dir, x.cfg.opts())
			if oerr != nil {
				return fmt.Errorf("reopen failed: %v", oerr)
			}
			x.t = t
		}
		x.record(o, fmt.Sprintf("OReopen %s", vk.Bool(err == nil)), errS(err))
		if err == nil {
			x.or.reopen(x, o)
		}
	case "snap":
		period := time.Duration(0)
		if o.Renew {
			period = time.Nanosecond
			time.Sleep(20 * time.Microsecond)
		} else if o.Synced {
			period = time.Hour
		}
		s, err := x.t.SnapshotMustIncludeTsWithRenewalPeriod(o.Ts, period)
		var sts uint64
		if err == nil {
			sts = s.Ts()
			x.snaps[o.Snap] = &openSnap{id: o.Snap, s: s}
		}
		x.record(o, fmt.Sprintf("OSnap %d %d %s %s", o.Snap, o.Ts, vk.Bool(o.Renew), optN(err == nil, sts)), fmt.Sprintf("%d %s", sts, errS(err)))
		x.or.snapshot(x, o, sts, err == nil)
	case "snapclose":
		s := x.snaps[o.Snap]
		ok := false
		if s != nil {
			x.finishPending(s, true)
			if err := s.s.Close(); err != nil {
				return fmt.Errorf("snapshot close failed: %v", err)
			}
			delete(x.snaps, o.Snap)
			ok = true
		}
		x.record(o, fmt.Sprintf("OSnapClose %d %s", o.Snap, vk.Bool(ok)), "")
		x.or.snapClose(o.Snap)
	case "ts":
		var ts uint64
		if o.Snap == 0 {
			ts = x.t.Ts()
		} else {
			ts = x.snaps[o.Snap].s.Ts()
		}
		x.record(o, fmt.Sprintf("OTs %s %d", x.target(o), ts), fmt.Sprint(ts))
		x.or.ts(x, o, ts)
	case "get":
		var v []byte
		var ts, hc uint64
		var err error
		if o.Snap == 0 {
			v, ts, hc, err = x.t.Get(hx(o.Key))
		} else {
			v, ts, hc, err = x.snaps[o.Snap].s.Get(hx(o.Key))
		}
		x.record(o, fmt.Sprintf("OGet %s %s %s", x.target(o), ch(o.Key), v3(v, ts, hc, err)), fmt.Sprintf("%x %d %d %s", v, ts, hc, errS(err)))
		x.or.get(x, o, v, ts, hc, err == nil)
	case "between":
		var v []byte
		var ts, hc uint64
		var err error
		if o.Snap == 0 {
			v, ts, hc, err = x.t.GetBetween(hx(o.Key), o.I, o.F)
		} else {
			v, ts, hc, err = x.snaps[o.Snap].s.GetBetween(hx(o.Key), o.I, o.F)
		}
		x.record(o, fmt.Sprintf("OGetBetween %s %s %d %d %s", x.target(o), ch(o.Key), o.I, o.F, v3(v, ts, hc, err)), fmt.Sprintf("%x %d %d %s", v, ts, hc, errS(err)))
		x.or.between(x, o, v, ts, hc, err == nil)
	case "history":
		var tvs []tbtree.TimedValue
		var hc uint64
		var err error
		if o.Snap == 0 {
			tvs, hc, err = x.t.History(hx(o.Key), o.Off, o.Desc, o.Limit)
		} else {
			tvs, hc, err = x.snaps[o.Snap].s.History(hx(o.Key), o.Off, o.Desc, o.Limit)
		}
		out := "None"
		if err == nil {
			out = fmt.Sprintf("(Some (%s, %d))", tvsCoq(tvs), hc)
		}
		x.record(o, fmt.Sprintf("OHistory %s %s %d %s %d %s", x.target(o), ch(o.Key), o.Off, vk.Bool(o.Desc), o.Limit, out), fmt.Sprintf("%v %d %s", tvs, hc, errS(err)))
		x.or.history(x, o, tvs, hc, err)
	case "prefix":
		var k, v []byte
		var ts, hc uint64
		var err error
		if o.Snap == 0 {
			k, v, ts, hc, err = x.t.GetWithPrefix(hx(o.Prefix), hx(o.Neq))
		} else {
			k, v, ts, hc, err = x.snaps[o.Snap].s.GetWithPrefix(hx(o.Prefix), hx(o.Neq))
		}
		out := "None"
		if err == nil {
			out = fmt.Sprintf("(Some (E4 %s %s %d %d))", yn(hs(k)), yn(hs(v)), ts, hc)
		}
		x.record(o, fmt.Sprintf("OGetPrefix %s %s %s %s", x.target(o), ch(o.Prefix), ch(o.Neq), out), fmt.Sprintf("%x %x %d %d %s", k, v, ts, hc, errS(err)))
		x.or.prefix(x, o, k, v, ts, hc, err == nil)
	case "read":
		x.execRead(o)
	case "histread":
		x.execHistRead(o)
	default:
		return fmt.Errorf("unknown op %q", o.Kind)
	}
	return nil
}

func rsCoq(o Op) string {
	return fmt.Sprintf("(RS %s %s %s %s %s %s %d)", yn(o.Seek), yn(o.End), yn(o.Prefix), vk.Bool(o.IncSeek), vk.Bool(o.IncEnd), vk.Bool(o.Desc), o.Off)
}

func modeCoq(o Op) string {
	switch o.Mode {
	case "history":
		return "RHistory"
	case "between":
		return fmt.Sprintf("(RBetween %d %d)", o.I, o.F)
	}
	return "RLatest"
}

const maxReads = 5000

func (x *runner) execRead(o Op) {
	s := x.snaps[o.Snap]
	spec := tbtree.ReaderSpec{SeekKey: hx(o.Seek), EndKey: hx(o.End), Prefix: hx(o.Prefix), InclusiveSeek: o.IncSeek,
		InclusiveEnd: o.IncEnd, IncludeHistory: o.Mode == "history", DescOrder: o.Desc, Offset: o.Off}
	rd, err := s.s.NewReader(spec)
	head := fmt.Sprintf("ORead %d %s %s ", o.Snap, rsCoq(o), modeCoq(o))
	if err != nil {
		x.record(o, head+"None", errS(err))
		x.or.read(x, o, nil, false)
		return
	}
	var es []ent
	bad := ""
	done := false
	readSome := func(n int) bool { // true when the reader is exhausted
		if done {
			return true
		}
		for i := 0; i < n; i++ {
			var k, v []byte
			var ts, hc uint64
			var e error
			if o.Mode == "between" {
				k, v, ts, hc, e = rd.ReadBetween(o.I, o.F)
			} else {
				k, v, ts, hc, e = rd.Read()
			}
			if e != nil {
				if !errors.Is(e, tbtree.ErrNoMoreEntries) {
					bad = e.Error()
				}
				done = true
				return true
			}
			es = append(es, ent{k, v, ts, hc})
			if len(es) > maxReads {
				bad = "reader does not terminate"
				done = true
				return true
			}
		}
		return false
	}
	finish := func() (string, string) {
		readSome(maxReads + 1)
		rd.Close()
		if bad != "" {
			x.viol = append(x.viol, fmt.Sprintf("reader failed: %s on %+v", bad, o))
		}
		x.or.read(x, o, es, true)
		return head + "(Some " + entsCoq(es) + ")", fmt.Sprintf("%d entries", len(es))
	}
	if o.Defer == 0 {
		c, d := finish()
		x.record(o, c, d)
		return
	}
	slot := x.record(o, "", "")
	p := &pending{slot: slot, op: o, due: x.nops + o.Defer, finish: finish}
	if o.Async {
		// the whole read runs concurrently with the following writer operations
		wg := &sync.WaitGroup{}
		wg.Add(1)
		go func() {
			defer wg.Done()
			readSome(maxReads + 1)
		}()
		p.wg = wg
	} else {
		readSome(1 + int(o.Off%3)) // a few entries now, the rest later
	}
	s.pend = append(s.pend, p)
}

func (x *runner) execHistRead(o Op) {
	s := x.snaps[o.Snap]
	hr, err := s.s.NewHistoryReader(&tbtree.HistoryReaderSpec{Key: hx(o.Key), Offset: o.Off, DescOrder: o.Desc, ReadLimit: o.Limit})
	if err != nil {
		x.viol = append(x.viol, "NewHistoryReader failed: "+err.Error())
		x.record(o, fmt.Sprintf("OHistRead %d %s %d %s %d []", o.Snap, ch(o.Key), o.Off, vk.Bool(o.Desc), o.Limit), errS(err))
		return
	}
	var out [][]tbtree.TimedValue
	var xs []string
	for len(out) <= maxReads {
		tvs, e := hr.Read()
		if e != nil {
			break
		}
		out = append(out, tvs)
		xs = append(xs, tvsCoq(tvs))
	}
	hr.Close()
	x.record(o, fmt.Sprintf("OHistRead %d %s %d %s %d %s", o.Snap, ch(o.Key), o.Off, vk.Bool(o.Desc), o.Limit, vk.List(xs)), fmt.Sprintf("%d reads", len(out)))
	x.or.histRead(x, o, out)
}

func (x *runner) finishOne(p *pending) {
	if p.wg != nil {
		p.wg.Wait()
	}
	c, d := p.finish()
	x.recs[p.slot] = c
	x.descr[p.slot] = d
}

func (x *runner) finishPending(s *openSnap, all bool) {
	var rest []*pending
	for _, p := range s.pend {
		if all || p.due <= x.nops {
			x.finishOne(p)
		} else {
			rest = append(rest, p)
		}
	}
	s.pend = rest
}

func (x *runner) finishDue(all bool) {
	for _, s := range x.snaps {
		if len(s.pend) > 0 {
			x.finishPending(s, all)
		}
	}
}

// result of one case, handed to vk.Run in generation order
type caseResult struct {
	coq        string
	js         map[string]any
	bucket     string
	nontrivial bool
	viol       []string
	known      []string
	cfg        Cfg
	extra      map[string]int
}

func (x *runner) result(bucket string) *caseResult {
	x.finishDue(true)
	coq := fmt.Sprintf("Case %s %s", x.cfg.coq(), "[\n  "+strings.Join(x.recs, ";\n  ")+"]")
	js := map[string]any{"cfg": x.cfg, "ops": x.ops, "outcomes": x.descr,
		"oracle_violation": len(x.viol) > 0, "violations": x.viol, "known": x.known}
	// distribution: profile / number of distinct keys the tree reached (with the tiny nodes used,
	// 8+ keys means at least 3 levels, 20+ keys 4 or more)
	kc := "keys0-1"
	switch {
	case x.or.maxKeys >= 20:
		kc = "keys20+"
	case x.or.maxKeys >= 8:
		kc = "keys8-19"
	case x.or.maxKeys >= 2:
		kc = "keys2-7"
	}
	bucket = bucket + "/" + kc
	return &caseResult{coq: coq, js: js, bucket: bucket, nontrivial: x.or.maxKeys >= 2 && len(x.ops) >= 5,
		viol: x.viol, known: x.known, cfg: x.cfg, extra: x.stats}
}

func (c *caseResult) emit(r *vk.Run) {
	r.Case(c.coq, c.js, c.bucket, c.nontrivial)
	for _, v := range c.viol {
		r.Finding(fmt.Sprintf("C10 seed=%d case=%d cfg=%+v: %s", r.Seed, r.N-1, c.cfg, v))
	}
	for _, v := range c.known {
		r.Finding(fmt.Sprintf("C10 seed=%d case=%d: %s", r.Seed, r.N-1, v))
	}
}

// Replay re-runs the operation inputs of a recorded case.
func Replay(r *vk.Run, c map[string]any) error {
	b, _ := json.Marshal(c)
	var rec struct {
		Cfg Cfg  `json:"cfg"`
		Ops []Op `json:"ops"`
	}
	if err := json.Unmarshal(b, &rec); err != nil {
		return err
	}
	x, err := newRunner(rec.Cfg)
	if err != nil {
		return err
	}
	defer x.cleanup()
	for _, o := range rec.Ops {
		if o.Snap != 0 && o.Kind != "snap" && o.Kind != "snapclose" && x.snaps[o.Snap] == nil {
			continue // the snapshot could not be taken this time
		}
		if err := x.exec(o); err != nil {
			return err
		}
	}
	x.result("replay").emit(r)
	return nil
}
