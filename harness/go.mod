module verif/harness

go 1.25.0

replace github.com/codenotary/immudb => /repo

require github.com/codenotary/immudb v0.0.0-00010101000000-000000000000

require (
	github.com/beorn7/perks v1.0.1 // indirect
	github.com/cespare/xxhash/v2 v2.3.0 // indirect
	github.com/golang/protobuf v1.5.4 // indirect
	github.com/matttproud/golang_protobuf_extensions v1.0.1 // indirect
	github.com/prometheus/client_golang v1.12.2 // indirect
	github.com/prometheus/client_model v0.2.0 // indirect
	github.com/prometheus/common v0.32.1 // indirect
	github.com/prometheus/procfs v0.7.3 // indirect
	golang.org/x/sync v0.20.0 // indirect
	golang.org/x/sys v0.45.0 // indirect
	google.golang.org/protobuf v1.36.10 // indirect
)
