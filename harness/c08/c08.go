// Package c08: the Go hash trees (embedded/ahtree, embedded/htree) and their verifiers against the
// reference Merkle construction of coq/Merkle (correspondence cases) plus a direct falsifier:
// a verifier acceptance whose claim is false w.r.t. the harness' own knowledge of the leaves.
package c08

import (
	"crypto/sha256"
	"encoding/hex"
	"fmt"
	"math/bits"
	"os"
	"path/filepath"
	"strings"

	"github.com/codenotary/immudb/embedded/ahtree"
	"github.com/codenotary/immudb/embedded/appendable/multiapp"
	"github.com/codenotary/immudb/embedded/htree"
	"verif/harness/vk"
)

type dig = [sha256.Size]byte

func hx(b []byte) string { return vk.Hex(b) }

func digList(ds []dig) string {
	xs := make([]string, len(ds))
	for i := range ds {
		xs[i] = hx(ds[i][:])
	}
	return vk.List(xs)
}

func bytesList(bs [][]byte) string {
	xs := make([]string, len(bs))
	for i := range bs {
		xs[i] = hx(bs[i])
	}
	return vk.List(xs)
}

func hexList(ds []dig) []string {
	xs := make([]string, len(ds))
	for i := range ds {
		xs[i] = hex.EncodeToString(ds[i][:])
	}
	return xs
}

func leafHash(d []byte) dig {
	return sha256.Sum256(append([]byte{0}, d...))
}

// refMTH: RFC 6962 Merkle tree hash (leaf = H(0x00||d), node = H(0x01||l||r), split at the largest
// power of two below the size), the harness' own oracle
func refMTH(ps [][]byte) dig {
	if len(ps) == 1 {
		return leafHash(ps[0])
	}
	k := 1
	for 2*k < len(ps) {
		k *= 2
	}
	l, rr := refMTH(ps[:k]), refMTH(ps[k:])
	b := append([]byte{1}, l[:]...)
	return sha256.Sum256(append(b, rr[:]...))
}

func copyTree(src, dst string) error {
	return filepath.Walk(src, func(p string, info os.FileInfo, err error) error {
		if err != nil {
			return err
		}
		rel, _ := filepath.Rel(src, p)
		if info.IsDir() {
			return os.MkdirAll(filepath.Join(dst, rel), 0755)
		}
		b, err := os.ReadFile(p)
		if err != nil {
			return err
		}
		return os.WriteFile(filepath.Join(dst, rel), b, 0644)
	})
}

// ---------------- AHtree histories ----------------
func ahtHistory(r *vk.Run, maxN int, withProofs bool) error {
	dir, err := os.MkdirTemp("", "vh-c08-aht")
	if err != nil {
		return err
	}
	defer os.RemoveAll(dir)
	mkopts := func() *ahtree.Options {
		return ahtree.DefaultOptions().
			WithDataCacheSlots(1 + r.Rng.Intn(6)).
			WithDigestsCacheSlots(1 + r.Rng.Intn(8)).
			WithSyncThld(1 + r.Rng.Intn(20)).
			WithFileSize(64 + r.Rng.Intn(4096))
	}
	t, err := ahtree.Open(dir, mkopts())
	if err != nil {
		return err
	}
	defer func() { t.Close() }()
	// the specification: the payload list; `disk` = what the commit log on disk stands for (equal to
	// the payloads at every sync point, i.e. after ResetSize, Close and whenever no append is buffered)
	var payloads, disk [][]byte
	dirty := false
	syncPoint := func() {
		if dirty {
			disk = append([][]byte{}, payloads...)
			dirty = false
		}
	}
	ops := []string{}
	mops := []string{} // the history as operations of the Coq digest-log model (Merkle/AHT.v)
	nops := 10 + r.Rng.Intn(3*maxN)
	for k := 0; k < nops; k++ {
		switch x := r.Rng.Intn(20); {
		case x < 14 && len(payloads) < maxN:
			d := vk.RandBytes(r.Rng, r.Rng.Intn(9))
			if r.Rng.Intn(6) == 0 {
				d = []byte{}
			}
			n, h, err := t.Append(d)
			if err != nil {
				return fmt.Errorf("Append #%d after ops %v: %w", len(payloads)+1, ops, err)
			}
			payloads = append(append([][]byte{}, payloads...), d)
			dirty = true
			mops = append(mops, "A2 "+hx(d))
			ops = append(ops, "append")
			if n != uint64(len(payloads)) {
				r.Finding(fmt.Sprintf("ahtree.Append returned n=%d, expected %d", n, len(payloads)))
			}
			_ = h
		case x < 16 && len(payloads) > 0:
			ns := r.Rng.Intn(len(payloads) + 1)
			if err := t.ResetSize(uint64(ns)); err != nil {
				return fmt.Errorf("reset: %w", err)
			}
			if ns < len(payloads) {
				// ResetSize syncs and cuts the commit log at once
				payloads = append([][]byte{}, payloads[:ns]...)
				disk = append([][]byte{}, payloads...)
				dirty = false
			}
			mops = append(mops, fmt.Sprintf("R2 %d", ns))
			ops = append(ops, fmt.Sprintf("reset(%d)", ns))
		case x < 17:
			if err := t.Sync(); err != nil {
				return err
			}
			ops = append(ops, "sync")
		case x < 18 && r.Rng.Intn(2) == 0:
			// Close + Open: the size comes back from the commit-log file; nothing may change
			if err := t.Close(); err != nil {
				return err
			}
			t, err = ahtree.Open(dir, mkopts())
			if err != nil {
				return fmt.Errorf("reopen after ops %v: %w", ops, err)
			}
			syncPoint()
			payloads = append([][]byte{}, disk...)
			mops = append(mops, "Reopen2")
			ops = append(ops, "reopen")
		case x < 18:
			// crash image: a copy of the directory whose commit log is cut to c entries while the
			// payload and digest logs keep everything (payload/digest logs flushed, commit-log
			// entries of the last appends not synced); the run continues on the image
			if err := t.Close(); err != nil {
				return err
			}
			syncPoint()
			c := r.Rng.Intn(len(disk) + 1)
			img, err := os.MkdirTemp("", "vh-c08-img")
			if err != nil {
				return err
			}
			defer os.RemoveAll(img)
			if err := copyTree(dir, img); err != nil {
				return err
			}
			cl, err := multiapp.Open(filepath.Join(img, "commit"), multiapp.DefaultOptions().WithFileExt("di"))
			if err != nil {
				return fmt.Errorf("crash image: open commit log: %w", err)
			}
			if err := cl.SetOffset(int64(c) * 12); err != nil {
				return fmt.Errorf("crash image: cut commit log to %d entries: %w", c, err)
			}
			if err := cl.Close(); err != nil {
				return err
			}
			dir = img
			t, err = ahtree.Open(dir, mkopts())
			if err != nil {
				return fmt.Errorf("open of a crash image (commit log cut to %d of %d entries) after ops %v: %w", c, len(disk), ops, err)
			}
			disk = append([][]byte{}, disk[:c]...)
			payloads = append([][]byte{}, disk...)
			mops = append(mops, fmt.Sprintf("Crash2 %d", c))
			ops = append(ops, fmt.Sprintf("crash(%d)", c))
		default:
			// read something (exercises the caches)
			if len(payloads) > 0 {
				n := 1 + r.Rng.Intn(len(payloads))
				d, err := t.DataAt(uint64(n))
				if err != nil || string(d) != string(payloads[n-1]) {
					r.Finding(fmt.Sprintf("ahtree.DataAt(%d) = %x,%v; appended payload was %x (ops %v)", n, d, err, payloads[n-1], ops))
				}
				ops = append(ops, "dataAt")
			}
		}
	}
	if t.Size() != uint64(len(payloads)) {
		r.Finding(fmt.Sprintf("ahtree.Size() = %d after ops %v, expected %d", t.Size(), ops, len(payloads)))
	}
	n := len(payloads)
	if n == 0 {
		return nil
	}
	roots := make([]dig, n)
	for k := 1; k <= n; k++ {
		roots[k-1], err = t.RootAt(uint64(k))
		if err != nil {
			return fmt.Errorf("RootAt(%d) of %d after ops %v: %w", k, n, ops, err)
		}
	}
	// direct oracle: the reference Merkle tree hash computed by the harness itself
	for k := 1; k <= n; k++ {
		if roots[k-1] != refMTH(payloads[:k]) {
			r.Finding(fmt.Sprintf("ahtree.RootAt(%d) is not the reference Merkle tree hash of the first %d payloads (size %d, ops %v)", k, k, n, ops))
			break
		}
	}
	r.Case(fmt.Sprintf("CAht %s %s", bytesList(payloads), digList(roots)),
		map[string]any{"kind": "aht", "ops": strings.Join(ops, ","), "n": n}, "aht/history", n >= 3 && n&(n-1) != 0)
	// the digest log as the tree reads it, against the digest-log model run on the same history:
	// log content, RootAt(n) and every/sampled InclusionProof/ConsistencyProof, all as indices into it
	digs, err := t.VerifDigests()
	if err != nil {
		return fmt.Errorf("VerifDigests: %w", err)
	}
	if uint64(len(digs)) != ahtree.VerifNodesUpto(uint64(n)) {
		r.Finding(fmt.Sprintf("ahtree digest log holds %d digests for size %d, nodesUpto says %d (ops %v)", len(digs), n, ahtree.VerifNodesUpto(uint64(n)), ops))
	}
	didx := map[dig]int{}
	for k := len(digs) - 1; k >= 0; k-- {
		didx[digs[k]] = k
	}
	look := func(ds []dig) string {
		xs := make([]string, len(ds))
		for k := range ds {
			if x, ok := didx[ds[k]]; ok {
				xs[k] = fmt.Sprint(x)
			} else {
				xs[k] = fmt.Sprint(len(digs)) // not a stored node: out of range for the model
			}
		}
		return vk.List(xs)
	}
	var mip, mcp []string
	addPair := func(i, j int, ip, cp []dig) {
		mip = append(mip, fmt.Sprintf("(%d, %d, %s)", i, j, look(ip)))
		mcp = append(mcp, fmt.Sprintf("(%d, %d, %s)", i, j, look(cp)))
	}
	// arguments outside 1 <= i <= j <= size: outcome classes (proof / error / panic), and the
	// proofs the generators return for the unguarded i = 0
	class := func(f func() ([]dig, error)) (c int, p []dig) {
		defer func() {
			if recover() != nil {
				c = 2
			}
		}()
		p, err := f()
		if err != nil {
			return 1, nil
		}
		return 0, p
	}
	var edges []string
	un := uint64(n)
	for _, e := range [][2]uint64{{0, 0}, {0, 1}, {0, un}, {un + 1, un}, {1, un + 1}, {un + 1, un + 1}, {2, 1}, {0, un + 1}} {
		i, j := e[0], e[1]
		ci, ip := class(func() ([]dig, error) { return t.InclusionProof(i, j) })
		cc, cp := class(func() ([]dig, error) { return t.ConsistencyProof(i, j) })
		edges = append(edges, fmt.Sprintf("(%d, %d, %d, %d)", i, j, ci, cc))
		if ci != 1 || cc != 1 {
			// none of these argument pairs satisfies 1 <= i <= j <= size
			r.Finding(fmt.Sprintf("AHtree proof generators on illegal arguments i=%d j=%d (size %d): InclusionProof outcome %d, ConsistencyProof outcome %d (0 = a proof, 1 = error, 2 = panic)", i, j, n, ci, cc))
		}
		if ci == 0 {
			mip = append(mip, fmt.Sprintf("(%d, %d, %s)", i, j, look(ip)))
		}
		if cc == 0 {
			mcp = append(mcp, fmt.Sprintf("(%d, %d, %s)", i, j, look(cp)))
		}
	}
	emitModel := func() {
		r.Case(fmt.Sprintf("CAhtModel %s %s %s %s %s %s", vk.List(mops), digList(digs), look(roots), vk.List(mip), vk.List(mcp), vk.List(edges)),
			map[string]any{"kind": "ahtmodel", "ops": strings.Join(ops, ","), "n": n, "digests": len(digs), "pairs": len(mip)},
			"aht/model", n >= 3 && n&(n-1) != 0)
	}
	if !withProofs {
		for s := 0; s < 60; s++ {
			j := 1 + r.Rng.Intn(n)
			i := 1 + r.Rng.Intn(j)
			ip, err := t.InclusionProof(uint64(i), uint64(j))
			if err != nil {
				return fmt.Errorf("InclusionProof(%d,%d): %w", i, j, err)
			}
			cp, err := t.ConsistencyProof(uint64(i), uint64(j))
			if err != nil {
				return fmt.Errorf("ConsistencyProof(%d,%d): %w", i, j, err)
			}
			addPair(i, j, ip, cp)
		}
		emitModel()
		return nil
	}
	defer emitModel()
	// every inclusion / consistency proof, honest and mutated
	for j := 1; j <= n; j++ {
		for i := 1; i <= j; i++ {
			ip, err := t.InclusionProof(uint64(i), uint64(j))
			if err != nil {
				return fmt.Errorf("InclusionProof(%d,%d): %w", i, j, err)
			}
			if n <= 12 || r.Rng.Intn(4) == 0 {
				r.Case(fmt.Sprintf("CInclProof %s %d %d %s", bytesList(payloads), i, j, digList(ip)),
					map[string]any{"kind": "inclproof", "i": i, "j": j, "n": n}, "aht/inclproof", j >= 3)
			}
			leaf := leafHash(payloads[i-1])
			verIncl(r, payloads, roots, ip, uint64(i), uint64(j), leaf, roots[j-1], "honest")
			cp, err := t.ConsistencyProof(uint64(i), uint64(j))
			if err != nil {
				return fmt.Errorf("ConsistencyProof(%d,%d): %w", i, j, err)
			}
			verCons(r, roots, cp, uint64(i), uint64(j), roots[i-1], roots[j-1], "honest")
			if len(cp) != consLen(uint64(i), uint64(j), bits.Len64(uint64(j)-1)) {
				r.Finding(fmt.Sprintf("ahtree.ConsistencyProof(%d,%d) has %d terms, the length function of the harness says %d", i, j, len(cp), consLen(uint64(i), uint64(j), bits.Len64(uint64(j)-1))))
			}
			if n <= 17 || r.Rng.Intn(4) == 0 {
				addPair(i, j, ip, cp)
			}
			if i == j {
				verLast(r, payloads, ip, uint64(i), leaf, roots[j-1], "honest")
			}
			if n <= 6 || r.Rng.Intn(5) == 0 {
				mutateProofs(r, payloads, roots, ip, cp, i, j)
			}
		}
	}
	return nil
}

func flip(d dig, rng interface{ Intn(int) int }) dig {
	d[rng.Intn(32)] ^= 1 << uint(rng.Intn(8))
	return d
}

func mutTerms(r *vk.Run, p []dig) [][]dig {
	var out [][]dig
	cl := func() []dig { return append([]dig{}, p...) }
	if len(p) > 0 {
		k := r.Rng.Intn(len(p))
		out = append(out, append(cl()[:k], cl()[k+1:]...)) // drop a term
		c := cl()
		c[k] = flip(c[k], r.Rng)
		out = append(out, c)                            // flip a bit
		out = append(out, append(cl(), p[k]))           // extra term (dup)
		out = append(out, append([]dig{p[k]}, cl()...)) // extra term in front
		out = append(out, cl()[:len(p)-1])              // truncate
		if len(p) > 1 {
			c := cl()
			c[0], c[1] = c[1], c[0]
			out = append(out, c)
		}
	} else {
		var z dig
		out = append(out, []dig{z})
	}
	return out
}

func mutateProofs(r *vk.Run, payloads [][]byte, roots []dig, ip, cp []dig, i, j int) {
	n := len(roots)
	leaf := leafHash(payloads[i-1])
	// inclusion: altered terms
	for _, m := range mutTerms(r, ip) {
		verIncl(r, payloads, roots, m, uint64(i), uint64(j), leaf, roots[j-1], "mut-terms")
	}
	// shifted indexes / sizes, swapped leaf, neighbour roots
	for _, d := range []int{-1, 1} {
		if i+d >= 1 {
			verIncl(r, payloads, roots, ip, uint64(i+d), uint64(j), leaf, roots[j-1], "shift-i")
		}
		if j+d >= 1 && j+d <= n {
			verIncl(r, payloads, roots, ip, uint64(i), uint64(j+d), leaf, roots[j+d-1], "shift-j")
			verIncl(r, payloads, roots, ip, uint64(i), uint64(j+d), leaf, roots[j-1], "shift-j-keep-root")
		}
		if i+d >= 1 && i+d <= n {
			verIncl(r, payloads, roots, ip, uint64(i), uint64(j), leafHash(payloads[i+d-1]), roots[j-1], "other-leaf")
		}
	}
	verIncl(r, payloads, roots, ip, 0, uint64(j), leaf, roots[j-1], "i-zero")
	// proofs for the last leaf used for inner positions and vice versa
	verLast(r, payloads, ip, uint64(j), leaf, roots[j-1], "last-with-incl-proof")
	// consistency
	for _, m := range mutTerms(r, cp) {
		verCons(r, roots, m, uint64(i), uint64(j), roots[i-1], roots[j-1], "mut-terms")
	}
	for _, d := range []int{-1, 1} {
		if i+d >= 1 && i+d <= n {
			verCons(r, roots, cp, uint64(i+d), uint64(j), roots[i-1], roots[j-1], "shift-i-keep-root")
			verCons(r, roots, cp, uint64(i), uint64(j), roots[i+d-1], roots[j-1], "other-iroot")
			verCons(r, roots, cp, uint64(i+d), uint64(j), roots[i+d-1], roots[j-1], "shift-i")
		}
		if j+d >= 1 && j+d <= n {
			verCons(r, roots, cp, uint64(i), uint64(j+d), roots[i-1], roots[j+d-1], "shift-j")
		}
	}
	verCons(r, roots, cp, uint64(i), uint64(j), roots[j-1], roots[i-1], "swapped-roots")
	verCons(r, roots, nil, uint64(i), uint64(j), roots[i-1], roots[j-1], "empty")
	verCons(r, roots, cp, 0, uint64(j), roots[i-1], roots[j-1], "i-zero")
}

// accepted (position, root) -> leaf: one root commits a position to at most one leaf (theorems
// C08_ahtree_inclusion_proof_unique / C08_ahtree_last_inclusion_proof_unique), genuine root or not
var accIncl = map[string]dig{}
var accLast = map[string]dig{}

func verIncl(r *vk.Run, payloads [][]byte, roots []dig, p []dig, i, j uint64, leaf, root dig, bucket string) {
	v := ahtree.VerifyInclusion(p, i, j, leaf, root)
	if v {
		key := fmt.Sprintf("%d|%d|%x", i, j, root[:])
		if prev, ok := accIncl[key]; ok && prev != leaf {
			r.Finding(fmt.Sprintf("ahtree.VerifyInclusion accepted two different leaves (%x, %x) for i=%d j=%d against one root", prev[:4], leaf[:4], i, j))
		}
		accIncl[key] = leaf
	}
	r.Case(fmt.Sprintf("CVerIncl %s %d %d %s %s %s", digList(p), i, j, hx(leaf[:]), hx(root[:]), vk.Bool(v)),
		map[string]any{"kind": "verincl", "terms": hexList(p), "i": i, "j": j, "leaf": hex.EncodeToString(leaf[:]), "root": hex.EncodeToString(root[:]), "verdict": v},
		"verincl/"+bucket, true)
	// falsifier: target (j, root) genuine, accepted, but the leaf is not leaf i of that tree
	if v && j >= 1 && int(j) <= len(roots) && root == roots[j-1] {
		if i < 1 || i > j || leaf != leafHash(payloads[i-1]) {
			r.Finding(fmt.Sprintf("ahtree.VerifyInclusion position-inexact: accepted leaf %x at i=%d j=%d with %d terms (true leaf differs)", leaf[:4], i, j, len(p)))
		}
	}
}

func verLast(r *vk.Run, payloads [][]byte, p []dig, i uint64, leaf, root dig, bucket string) {
	v := ahtree.VerifyLastInclusion(p, i, leaf, root)
	if v {
		key := fmt.Sprintf("%d|%x", i, root[:])
		if prev, ok := accLast[key]; ok && prev != leaf {
			r.Finding(fmt.Sprintf("ahtree.VerifyLastInclusion accepted two different leaves (%x, %x) for i=%d against one root", prev[:4], leaf[:4], i))
		}
		accLast[key] = leaf
	}
	r.Case(fmt.Sprintf("CVerLast %s %d %s %s %s", digList(p), i, hx(leaf[:]), hx(root[:]), vk.Bool(v)),
		map[string]any{"kind": "verlast", "terms": hexList(p), "i": i, "leaf": hex.EncodeToString(leaf[:]), "root": hex.EncodeToString(root[:]), "verdict": v},
		"verlast/"+bucket, true)
	if v && i >= 1 && int(i) <= len(payloads) && leaf != leafHash(payloads[i-1]) {
		// root is genuine for some size; accepted leaf must be the last leaf of that tree
		r.Finding(fmt.Sprintf("ahtree.VerifyLastInclusion accepted a leaf that is not leaf %d", i))
	}
}

func verCons(r *vk.Run, roots []dig, p []dig, i, j uint64, iroot, jroot dig, bucket string) {
	var v, panicked bool
	func() {
		defer func() {
			if recover() != nil {
				panicked = true
			}
		}()
		v = ahtree.VerifyConsistency(p, i, j, iroot, jroot)
	}()
	vt := "(Ok " + vk.Bool(v) + ")"
	if panicked {
		vt = "Panic"
		r.Finding(fmt.Sprintf("ahtree.VerifyConsistency panicked on i=%d j=%d len=%d", i, j, len(p)))
	}
	r.Case(fmt.Sprintf("CVerCons %s %d %d %s %s %s", digList(p), i, j, hx(iroot[:]), hx(jroot[:]), vt),
		map[string]any{"kind": "vercons", "terms": hexList(p), "i": i, "j": j, "iroot": hex.EncodeToString(iroot[:]), "jroot": hex.EncodeToString(jroot[:]), "verdict": v, "panic": panicked},
		"vercons/"+bucket, true)
	if v && j >= 1 && int(j) <= len(roots) && jroot == roots[j-1] {
		if i < 1 || i > j || iroot != roots[i-1] {
			k := 0
			for x := range roots {
				if roots[x] == iroot {
					k = x + 1
				}
			}
			if k > 0 && i >= 1 && i <= j && len(p) == consLen(i, j, bits.Len64(j-1)) {
				// theorem C08_consistency_sound_exact_honest_length: impossible without a collision
				r.Finding(fmt.Sprintf("ahtree.VerifyConsistency inexact at the honest proof length: old root of size %d accepted as size i=%d (j=%d, %d terms)", k, i, j, len(p)))
			} else if k > 0 {
				r.Finding(fmt.Sprintf("ahtree.VerifyConsistency position-inexact: old root of size %d accepted as size i=%d (j=%d, %d terms)", k, i, j, len(p)))
			} else {
				r.Finding(fmt.Sprintf("ahtree.VerifyConsistency accepted an old root that is the root of no prefix (i=%d j=%d)", i, j))
			}
		}
	}
}

// consLen is the number of terms AHtree.ConsistencyProof(i, j) returns (a function of i and j only)
func consLen(i, j uint64, height int) int {
	n := 0
	for h := height - 1; h >= 0; h-- {
		if (j-1)&(1<<uint(h)) > 0 {
			k := (j - 1) >> uint(h) << uint(h)
			if i <= k {
				n++
				if i < k {
					n += consLen(i, k, h)
				}
				if i == k {
					n++
				}
				return n
			}
			n++
			if i == j {
				n++
				return n
			}
		}
	}
	return n
}

// ---------------- htree ----------------
func htreeCases(r *vk.Run, width int) error {
	ds := make([]dig, width)
	for i := range ds {
		r.Rng.Read(ds[i][:])
		if width > 2 && r.Rng.Intn(8) == 0 && i > 0 {
			ds[i] = ds[i-1] // duplicate digests
		}
	}
	t, err := htree.New(width + r.Rng.Intn(3))
	if err != nil {
		return err
	}
	// rebuild over a previously larger content (stale level arrays)
	if width > 1 && r.Rng.Intn(2) == 0 {
		junk := make([]dig, width)
		for i := range junk {
			r.Rng.Read(junk[i][:])
		}
		t.BuildWith(junk)
	}
	if err := t.BuildWith(ds); err != nil {
		return err
	}
	root := t.Root()
	r.Case(fmt.Sprintf("CHtRoot %s %s", digList(ds), hx(root[:])),
		map[string]any{"kind": "htroot", "width": width}, "htree/root", width >= 3 && width&(width-1) != 0)
	// indexes outside 0 <= i < width: outcome class of InclusionProof (0 proof, 1 error, 2 panic)
	for _, i := range []int{-1, -2, width, width + 1} {
		c := 0
		func() {
			defer func() {
				if recover() != nil {
					c = 2
				}
			}()
			if _, err := t.InclusionProof(i); err != nil {
				c = 1
			}
		}()
		if c != 1 {
			r.Finding(fmt.Sprintf("htree.InclusionProof(%d) on a tree of width %d did not return an error (outcome %d: 0 = a proof, 2 = panic)", i, width, c))
		}
		r.Case(fmt.Sprintf("CHtEdge %s (%d)%%Z %d", digList(ds), i, c),
			map[string]any{"kind": "htedge", "width": width, "i": i, "class": c}, "htree/edge", true)
	}
	for i := 0; i < width; i++ {
		p, err := t.InclusionProof(i)
		if err != nil {
			return err
		}
		r.Case(fmt.Sprintf("CHtProof %s %d %s", digList(ds), i, digList(p.Terms)),
			map[string]any{"kind": "htproof", "width": width, "i": i}, "htree/proof", width >= 3)
		htVer(r, ds, root, p.Leaf, p.Width, p.Terms, ds[i], root, "honest")
		if width <= 5 || r.Rng.Intn(4) == 0 {
			for _, m := range mutTerms(r, p.Terms) {
				htVer(r, ds, root, p.Leaf, p.Width, m, ds[i], root, "mut-terms")
			}
			for _, d := range []int{-1, 1} {
				htVer(r, ds, root, p.Leaf+d, p.Width, p.Terms, ds[i], root, "shift-leaf")
				htVer(r, ds, root, p.Leaf, p.Width+d, p.Terms, ds[i], root, "shift-width")
				if i+d >= 0 && i+d < width {
					htVer(r, ds, root, p.Leaf, p.Width, p.Terms, ds[i+d], root, "other-digest")
				}
			}
			htVer(r, ds, root, p.Leaf, 0, p.Terms, ds[i], root, "width-zero")
			htVer(r, ds, root, 0, 0, p.Terms, ds[i], root, "leaf-width-zero")
			htVer(r, ds, root, -1, p.Width, p.Terms, ds[i], root, "leaf-negative")
		}
	}
	return nil
}

func htVer(r *vk.Run, ds []dig, trueRoot dig, leaf, width int, terms []dig, d, root dig, bucket string) {
	v := htree.VerifyInclusion(&htree.InclusionProof{Leaf: leaf, Width: width, Terms: terms}, d, root)
	r.Case(fmt.Sprintf("CHtVer (%d)%%Z (%d)%%Z %s %s %s %s", leaf, width, digList(terms), hx(d[:]), hx(root[:]), vk.Bool(v)),
		map[string]any{"kind": "htver", "leaf": leaf, "width": width, "terms": hexList(terms), "digest": hex.EncodeToString(d[:]), "root": hex.EncodeToString(root[:]), "verdict": v},
		"htver/"+bucket, true)
	if v && root == trueRoot {
		found := false
		for _, x := range ds {
			if x == d {
				found = true
			}
		}
		if !found {
			r.Finding(fmt.Sprintf("htree.VerifyInclusion accepted a digest that is not in the tree (width %d)", len(ds)))
		} else if width == len(ds) && (leaf < 0 || leaf >= len(ds) || ds[leaf] != d) {
			r.Finding(fmt.Sprintf("htree.VerifyInclusion position-inexact: digest accepted at leaf=%d width=%d", leaf, width))
		}
	}
}

func shaCases(r *vk.Run, n int) {
	for k := 0; k < n; k++ {
		l := []int{0, 1, 55, 56, 63, 64, 65, 119, 120, 128}[k%10] + r.Rng.Intn(2)*r.Rng.Intn(70)
		b := vk.RandBytes(r.Rng, l)
		h := sha256.Sum256(b)
		r.Case(fmt.Sprintf("CSha %s %s", hx(b), hx(h[:])), map[string]any{"kind": "sha", "len": l}, "sha", true)
	}
}

// resetReopenProbe: rewind, (re-append,) restart. The tree must come back with the rewound content.
func resetReopenProbe(r *vk.Run, reappend bool) error {
	dir, err := os.MkdirTemp("", "vh-c08-probe")
	if err != nil {
		return err
	}
	defer os.RemoveAll(dir)
	t, err := ahtree.Open(dir, ahtree.DefaultOptions())
	if err != nil {
		return err
	}
	for k := 0; k < 5; k++ {
		if _, _, err := t.Append([]byte{byte(k)}); err != nil {
			return err
		}
	}
	if err := t.ResetSize(2); err != nil {
		return err
	}
	mops, want, what := "R2 2; Reopen2", uint64(2), "ahtree bare rewind not durable: append x5, ResetSize(2), Close, Open"
	if reappend {
		if _, _, err := t.Append([]byte{9}); err != nil {
			return err
		}
		mops, want, what = "R2 2; A2 (hex \"09\"); Reopen2", 3, "ahtree rewind not durable: append x5, ResetSize(2), Append, Close, Open"
	}
	if err := t.Close(); err != nil {
		return err
	}
	t, err = ahtree.Open(dir, ahtree.DefaultOptions())
	if err != nil {
		return err
	}
	defer t.Close()
	// the same history on the model (the restart re-derives the size from the commit-log file)
	r.Case(fmt.Sprintf("CAhtProbe [A2 (hex \"00\"); A2 (hex \"01\"); A2 (hex \"02\"); A2 (hex \"03\"); A2 (hex \"04\"); %s] %d", mops, t.Size()),
		map[string]any{"kind": "ahtprobe", "size": t.Size(), "reappend": reappend}, "aht/probe", true)
	if t.Size() != want {
		r.Finding(fmt.Sprintf("%s => Size() = %d, expected %d", what, t.Size(), want))
	}
	return nil
}

// digest-log addressing arithmetic on sizes far beyond what a test tree reaches
func arithCases(r *vk.Run) {
	var ns []uint64
	for k := uint(0); k <= 56; k++ {
		p := uint64(1) << k
		ns = append(ns, p, p+1)
		if p > 1 {
			ns = append(ns, p-1)
		}
	}
	for k := 1; k <= 70; k++ {
		ns = append(ns, uint64(k))
	}
	for k := 0; k < 120; k++ {
		ns = append(ns, 1+uint64(r.Rng.Int63n(1<<uint(1+r.Rng.Intn(56)))))
	}
	var xs []string
	for _, n := range ns {
		xs = append(xs, fmt.Sprintf("(%d, %d, %d, %d)", n, ahtree.VerifNodesUpto(n), ahtree.VerifNodesUntil(n), ahtree.VerifLevelsAt(n)))
		if len(xs) == 40 {
			r.Case("CAhtArith "+vk.List(xs), map[string]any{"kind": "ahtarith", "first": n}, "aht/arith", true)
			xs = nil
		}
	}
	if len(xs) > 0 {
		r.Case("CAhtArith "+vk.List(xs), map[string]any{"kind": "ahtarith"}, "aht/arith", true)
	}
}

func Gen(r *vk.Run, n int) error {
	accIncl, accLast = map[string]dig{}, map[string]dig{}
	shaCases(r, 20)
	arithCases(r)
	for _, reappend := range []bool{true, false} {
		if err := resetReopenProbe(r, reappend); err != nil {
			r.Finding(fmt.Sprintf("ahtree operation failed in the rewind/reopen probe (append x5, ResetSize(2), Append=%v, Close, Open): %v", reappend, err))
		}
	}
	// small trees exhaustively with all proofs (every i <= j <= size), larger ones for roots only
	ahtBudget := n * 6 / 10
	for _, s := range []int{1, 2, 3, 4, 5, 6, 7, 8, 9, 11, 13, 16, 17, 21, 25, 31, 33} {
		if r.N > ahtBudget {
			break
		}
		if err := ahtHistory(r, s, true); err != nil {
			// Append / RootAt / proofs never fail on these histories (theorems append_ok, root_at_ok, ...)
			r.Finding(fmt.Sprintf("ahtree operation failed on a legal history (max size %d): %v", s, err))
		}
	}
	for k := 0; k < 4; k++ {
		if err := ahtHistory(r, 30+r.Rng.Intn(40), false); err != nil {
			r.Finding(fmt.Sprintf("ahtree operation failed on a legal history: %v", err))
		}
	}
	t, _ := htree.New(4)
	t.BuildWith(nil)
	root := t.Root()
	r.Case(fmt.Sprintf("CHtRoot [] %s", hx(root[:])), map[string]any{"kind": "htroot", "width": 0}, "htree/root", false)
	for _, w := range []int{1, 2, 3, 4, 5, 6, 7, 8, 9, 12, 15, 16, 17, 23, 32, 33, 47, 64, 65} {
		if r.N > n {
			break
		}
		if err := htreeCases(r, w); err != nil {
			return err
		}
	}
	return nil
}

func unhexDigs(x any) []dig {
	var out []dig
	xs, _ := x.([]any)
	for _, s := range xs {
		b, _ := hex.DecodeString(s.(string))
		var d dig
		copy(d[:], b)
		out = append(out, d)
	}
	return out
}

func unhexDig(x any) dig {
	var d dig
	b, _ := hex.DecodeString(x.(string))
	copy(d[:], b)
	return d
}

// Replay re-runs one recorded verifier case (histories are regenerated from the seed instead).
func Replay(r *vk.Run, c map[string]any) error {
	num := func(k string) int { f, _ := c[k].(float64); return int(f) }
	switch c["kind"] {
	case "verincl":
		verIncl(r, nil, nil, unhexDigs(c["terms"]), uint64(num("i")), uint64(num("j")), unhexDig(c["leaf"]), unhexDig(c["root"]), "replay")
	case "verlast":
		verLast(r, nil, unhexDigs(c["terms"]), uint64(num("i")), unhexDig(c["leaf"]), unhexDig(c["root"]), "replay")
	case "vercons":
		verCons(r, nil, unhexDigs(c["terms"]), uint64(num("i")), uint64(num("j")), unhexDig(c["iroot"]), unhexDig(c["jroot"]), "replay")
	case "htver":
		htVer(r, nil, dig{}, num("leaf"), num("width"), unhexDigs(c["terms"]), unhexDig(c["digest"]), unhexDig(c["root"]), "replay")
	default:
		return fmt.Errorf("case kind %v is replayed by re-running the check with the same seed", c["kind"])
	}
	return nil
}
