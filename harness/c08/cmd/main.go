package main

import (
	"verif/harness/c08"
	"verif/harness/vk"
)

func main() { vk.Main("Tie.C08", c08.Gen, c08.Replay) }
