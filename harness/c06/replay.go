package c06

import (
	"encoding/json"
	"fmt"
	"io"

	"github.com/codenotary/immudb/embedded/logger"

	"verif/harness/vk"
)

func silentLogger() logger.Logger {
	return logger.NewSimpleLoggerWithLevel("vh", io.Discard, logger.LogError)
}

// Replay: (a) the recorded history / run is decided again as it was recorded; (b) the same calls are
// executed again on a fresh DB (sequential runs: once, deterministically; concurrent histories: the
// per-goroutine programs are re-run 40 times since the schedule cannot be forced).
func Replay(r *vk.Run, c map[string]any) error {
	defer closeAhead()
	b, err := json.Marshal(c["ops"])
	if err != nil {
		return err
	}
	var ops []Op
	if err := json.Unmarshal(b, &ops); err != nil {
		return err
	}
	switch c["kind"] {
	case "seq":
		r.Case(CoqSeq(ops), map[string]any{"kind": "seq", "ops": ops}, "replay:recorded", true)
		db, err := OpenDB()
		if err != nil {
			return err
		}
		defer db.Close()
		var again []Op
		for i := range ops {
			res := db.Exec(&ops[i].Call)
			again = append(again, Op{Inv: ops[i].Inv, Ret: ops[i].Ret, Call: ops[i].Call, Res: res})
		}
		r.Case(CoqSeq(again), map[string]any{"kind": "seq", "ops": again}, "replay:re-executed", true)
	case "hist":
		record(r, ops, "replay:recorded", map[string]any{"background": c["background"]})
		ng := 0
		for i := range ops {
			if ops[i].G+1 > ng {
				ng = ops[i].G + 1
			}
		}
		for k := 0; k < 40; k++ {
			progs := make([][]pstep, ng)
			for i := range ops {
				progs[ops[i].G] = append(progs[ops[i].G], pstep{call: ops[i].Call})
			}
			db, err := OpenDB()
			if err != nil {
				return err
			}
			bgm, _ := c["background"].(string)
			again := runHistory(db, progs, r.Rng, bgm)
			db.Close()
			record(r, again, "replay:re-executed", map[string]any{"background": bgm})
		}
	default:
		return fmt.Errorf("unknown case kind %v", c["kind"])
	}
	return nil
}
