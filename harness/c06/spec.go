package c06

// spec.go: the sequential specification of coq/Lin/Spec.v, transliterated function by function.
// It is the oracle of the direct falsifier (check.go); the Coq original decides the cases.

import "sort"

type Tx []Entry
type State []Tx

func ekey(e Entry) (uint64, bool) {
	if e.Kind == EZ {
		return 0, false
	}
	return e.K, true
}

func txFind(t Tx, k uint64) (Entry, bool) {
	for _, e := range t {
		if kk, ok := ekey(e); ok && kk == k {
			return e, true
		}
	}
	return Entry{}, false
}

type hitem struct {
	id uint64
	e  Entry
}

func khist(s State, k uint64) []hitem {
	var h []hitem
	for i, t := range s {
		if e, ok := txFind(t, k); ok {
			h = append(h, hitem{uint64(i + 1), e})
		}
	}
	return h
}

// klatest: (tx, entry, history count, found)
func klatest(s State, k uint64) (uint64, Entry, uint64, bool) {
	h := khist(s, k)
	if len(h) == 0 {
		return 0, Entry{}, 0, false
	}
	l := h[len(h)-1]
	return l.id, l.e, uint64(len(h)), true
}

func live(s State, k uint64) bool {
	_, e, _, ok := klatest(s, k)
	return ok && e.Kind != EDel
}

func resolveFinal(id uint64, e Entry, rv uint64) (REntry, uint64) {
	switch e.Kind {
	case EKv:
		return REntry{Tx: id, Key: e.K, Val: e.V, Rev: rv}, 0
	case EDel:
		return REntry{}, EKeyNotFound
	case ERef:
		return REntry{}, EResolutionLimit
	}
	return REntry{}, EOther
}

func readTxEntry(s State, t, k uint64) (Entry, uint64) {
	if t == 0 || uint64(len(s)) < t {
		return Entry{}, ETxNotFound
	}
	e, ok := txFind(s[t-1], k)
	if !ok {
		return Entry{}, EKeyNotFound
	}
	return e, 0
}

func getTarget(s State, rk, at uint64) (REntry, uint64) {
	if at == 0 {
		i, e, hc, ok := klatest(s, rk)
		if !ok {
			return REntry{}, EKeyNotFound
		}
		return resolveFinal(i, e, hc)
	}
	e, c := readTxEntry(s, at, rk)
	if c != 0 {
		return REntry{}, c
	}
	return resolveFinal(at, e, 0)
}

func resolve(s2 State, id uint64, e Entry, rv uint64) (REntry, uint64) {
	if e.Kind == ERef {
		t, c := getTarget(s2, e.RK, e.At)
		if c != 0 {
			return REntry{}, c
		}
		t.Ref = &[4]uint64{id, e.K, e.At, rv}
		return t, 0
	}
	return resolveFinal(id, e, rv)
}

func getAt(s1, s2 State, k, at uint64) (REntry, uint64) {
	if at == 0 {
		i, e, hc, ok := klatest(s1, k)
		if !ok {
			return REntry{}, EKeyNotFound
		}
		return resolve(s2, i, e, hc)
	}
	e, c := readTxEntry(s1, at, k)
	if c != 0 {
		return REntry{}, c
	}
	return resolve(s2, at, e, 0)
}

func specGet(s1, s2 State, k, since, at uint64, rv int64) (REntry, uint64) {
	if at > 0 && (since > 0 || rv != 0) {
		return REntry{}, EIllegal
	}
	if uint64(len(s1)) < since {
		return REntry{}, EIllegal
	}
	if rv != 0 {
		h := khist(s1, k)
		hc := uint64(len(h))
		var off uint64
		if rv > 0 {
			off = uint64(rv) - 1
		} else {
			off = uint64(-rv)
		}
		if hc == 0 {
			return REntry{}, EKeyNotFound
		}
		if hc <= off {
			return REntry{}, EInvalidRevision
		}
		idx := off
		if rv < 0 {
			idx = hc - 1 - off
		}
		i := h[idx].id
		e, c := readTxEntry(s1, i, k)
		if c != 0 {
			return REntry{}, c
		}
		return resolve(s2, i, e, idx+1)
	}
	return getAt(s1, s2, k, at)
}

func allKeys(s State) []uint64 {
	seen := map[uint64]bool{}
	var ks []uint64
	for _, t := range s {
		for _, e := range t {
			if k, ok := ekey(e); ok && !seen[k] {
				seen[k] = true
				ks = append(ks, k)
			}
		}
	}
	sort.Slice(ks, func(i, j int) bool { return ks[i] < ks[j] })
	return ks
}

func inRange(c *Call, k uint64) bool {
	if c.Seek >= 0 {
		x := uint64(c.Seek)
		if c.Desc {
			if c.IncS {
				if !(k <= x) {
					return false
				}
			} else if !(k < x) {
				return false
			}
		} else {
			if c.IncS {
				if !(x <= k) {
					return false
				}
			} else if !(x < k) {
				return false
			}
		}
	}
	if c.End >= 0 {
		x := uint64(c.End)
		if c.Desc {
			if c.IncE {
				if !(x <= k) {
					return false
				}
			} else if !(x < k) {
				return false
			}
		} else {
			if c.IncE {
				if !(k <= x) {
					return false
				}
			} else if !(k < x) {
				return false
			}
		}
	}
	return true
}

func specScan(s State, c *Call) Result {
	if uint64(len(s)) < c.Since {
		return errRes(EIllegal)
	}
	var ks []uint64
	for _, k := range allKeys(s) {
		if live(s, k) && inRange(c, k) {
			ks = append(ks, k)
		}
	}
	if c.Desc {
		for i, j := 0, len(ks)-1; i < j; i, j = i+1, j-1 {
			ks[i], ks[j] = ks[j], ks[i]
		}
	}
	if c.Limit != 0 && uint64(len(ks)) > c.Limit {
		ks = ks[:c.Limit]
	}
	out := []REntry{}
	for _, k := range ks {
		i, e, hc, _ := klatest(s, k)
		r, ec := resolve(s, i, e, hc)
		if ec == EKeyNotFound {
			continue
		}
		if ec != 0 {
			return errRes(ec)
		}
		out = append(out, r)
	}
	return Result{Kind: "entries", Entries: out}
}

type zk struct{ score, k, at uint64 }

func zset(s State, set uint64) []zk {
	seen := map[zk]bool{}
	var zs []zk
	for _, t := range s {
		for _, e := range t {
			if e.Kind == EZ && e.Set == set {
				z := zk{e.Score, e.K, e.At}
				if !seen[z] {
					seen[z] = true
					zs = append(zs, z)
				}
			}
		}
	}
	sort.Slice(zs, func(i, j int) bool {
		a, b := zs[i], zs[j]
		if a.score != b.score {
			return a.score < b.score
		}
		if a.k != b.k {
			return a.k < b.k
		}
		return a.at < b.at
	})
	return zs
}

func specZScan(s1, s State, c *Call) Result {
	if uint64(len(s1)) < c.Since {
		return errRes(EIllegal)
	}
	zs := zset(s1, c.Set)
	if c.Desc {
		for i, j := 0, len(zs)-1; i < j; i, j = i+1, j-1 {
			zs[i], zs[j] = zs[j], zs[i]
		}
	}
	if c.Limit != 0 && uint64(len(zs)) > c.Limit {
		zs = zs[:c.Limit]
	}
	out := []ZEntry{}
	for _, z := range zs {
		e, ec := getTarget(s, z.k, z.at)
		if ec == EKeyNotFound {
			continue
		}
		if ec != 0 {
			return errRes(ec)
		}
		out = append(out, ZEntry{Score: z.score, At: z.at, E: e})
	}
	return Result{Kind: "z", Z: out}
}

func specHistory(s State, c *Call) Result {
	if uint64(len(s)) < c.Since {
		return errRes(EIllegal)
	}
	h := khist(s, c.K)
	hc := uint64(len(h))
	if hc == 0 {
		return errRes(EKeyNotFound)
	}
	if c.Offset == hc {
		return errRes(ENoMoreEntries)
	}
	if hc < c.Offset {
		return Result{Kind: "hist", Hist: []HEntry{}}
	}
	out := []HEntry{}
	n := hc - c.Offset
	if c.Limit != 0 && n > c.Limit {
		n = c.Limit
	}
	for j := uint64(0); j < n; j++ {
		var idx uint64
		if c.Desc {
			idx = hc - 1 - c.Offset - j
		} else {
			idx = c.Offset + j
		}
		out = append(out, HEntry{Tx: h[idx].id, Rev: idx + 1, E: h[idx].e})
	}
	return Result{Kind: "hist", Hist: out}
}

func entryRes(e REntry, c uint64) Result {
	if c != 0 {
		return errRes(c)
	}
	return Result{Kind: "entry", Entry: &e}
}

// SpecRead2 = Spec.spec_read2
func SpecRead2(s1, s2 State, c *Call) Result {
	switch c.Kind {
	case "get":
		return entryRes(specGet(s1, s2, c.K, c.Since, c.At, c.Rev))
	case "getall":
		if uint64(len(s2)) < c.Since {
			return errRes(EIllegal)
		}
		out := []REntry{}
		for _, k := range c.Keys {
			e, ec := getAt(s2, s2, k, 0)
			if ec == EKeyNotFound {
				continue
			}
			if ec != 0 {
				return errRes(ec)
			}
			out = append(out, e)
		}
		return Result{Kind: "entries", Entries: out}
	case "scan":
		return specScan(s2, c)
	case "zscan":
		return specZScan(s1, s2, c)
	case "hist":
		return specHistory(s2, c)
	case "count":
		return Result{Kind: "count", Count: uint64(len(allKeys(s2)))}
	}
	panic("not a read: " + c.Kind)
}

func preOK(s State, p Pre) bool {
	switch p.Kind {
	case PMustExist:
		return live(s, p.K)
	case PMustNotExist:
		return !live(s, p.K)
	}
	i, _, _, ok := klatest(s, p.K)
	return !ok || i <= p.T
}

func nodup(ks []uint64) bool {
	seen := map[uint64]bool{}
	for _, k := range ks {
		if seen[k] {
			return false
		}
		seen[k] = true
	}
	return true
}

func checkTarget(s State, rk, at uint64) uint64 {
	e, c := getAt(s, s, rk, at)
	if c != 0 {
		return c
	}
	if e.Ref != nil {
		return ERefIsRef
	}
	return 0
}

func checkRefKey(s State, k, at uint64) uint64 {
	e, c := getAt(s, s, k, at)
	if c == 0 {
		if e.Ref == nil {
			return EFinalKey
		}
		return 0
	}
	if c == EKeyNotFound {
		return 0
	}
	return c
}

func checkPre(s State, pre []Pre) uint64 {
	for _, p := range pre {
		if p.Kind == PNotModifiedAfter && p.T == 0 {
			return EIllegal
		}
	}
	for _, p := range pre {
		if !preOK(s, p) {
			return EPrecond
		}
	}
	return 0
}

// Apply = Spec.apply: the committed transaction, or the refusal class
func Apply(s State, c *Call) (Tx, uint64) {
	switch c.Kind {
	case "set":
		ks := make([]uint64, len(c.KVs))
		for i, kv := range c.KVs {
			ks[i] = kv[0]
		}
		if len(ks) == 0 || !nodup(ks) {
			return nil, EIllegal
		}
		if ec := checkPre(s, c.Pre); ec != 0 {
			return nil, ec
		}
		t := Tx{}
		for _, kv := range c.KVs {
			t = append(t, Entry{Kind: EKv, K: kv[0], V: kv[1]})
		}
		return t, 0
	case "del":
		if len(c.Keys) == 0 || !nodup(c.Keys) {
			return nil, EIllegal
		}
		t := Tx{}
		for _, k := range c.Keys {
			if !live(s, k) {
				return nil, EKeyNotFound
			}
			t = append(t, Entry{Kind: EDel, K: k})
		}
		return t, 0
	case "setref":
		if (c.At == 0 && c.Bound) || (c.At > 0 && !c.Bound) {
			return nil, EIllegal
		}
		if ec := checkRefKey(s, c.K, c.At); ec != 0 {
			return nil, ec
		}
		if ec := checkTarget(s, c.RK, c.At); ec != 0 {
			return nil, ec
		}
		if ec := checkPre(s, c.Pre); ec != 0 {
			return nil, ec
		}
		return Tx{{Kind: ERef, K: c.K, RK: c.RK, At: c.At}}, 0
	case "zadd":
		if (c.At == 0 && c.Bound) || (c.At > 0 && !c.Bound) {
			return nil, EIllegal
		}
		if ec := checkTarget(s, c.K, c.At); ec != 0 {
			return nil, ec
		}
		return Tx{{Kind: EZ, Set: c.Set, Score: c.Score, K: c.K, At: c.At}}, 0
	case "execall":
		var okeys []uint64
		for _, o := range c.Ops {
			if o.Kind != OZAdd {
				okeys = append(okeys, o.K)
			}
		}
		if len(c.Ops) == 0 || !nodup(okeys) {
			return nil, EIllegal
		}
		txid := uint64(len(s)) + 1
		kmap := map[uint64]bool{}
		t := Tx{}
		for _, o := range c.Ops {
			switch o.Kind {
			case OKv:
				kmap[o.K] = true
				t = append(t, Entry{Kind: EKv, K: o.K, V: o.V})
			case ORef:
				if o.At > 0 && !o.Bound {
					return nil, EIllegal
				}
				if ec := checkRefKey(s, o.K, 0); ec != 0 {
					return nil, ec
				}
				if !kmap[o.RK] || o.At > 0 {
					if ec := checkTarget(s, o.RK, o.At); ec != 0 {
						return nil, ec
					}
				}
				at := o.At
				if o.Bound && o.At == 0 {
					at = txid
				}
				t = append(t, Entry{Kind: ERef, K: o.K, RK: o.RK, At: at})
			default:
				if o.At > 0 && !o.Bound {
					return nil, EIllegal
				}
				if !kmap[o.K] || o.At > 0 {
					if ec := checkTarget(s, o.K, o.At); ec != 0 {
						return nil, ec
					}
				}
				at := o.At
				if o.Bound && o.At == 0 {
					at = txid
				}
				t = append(t, Entry{Kind: EZ, Set: o.Set, Score: o.Score, K: o.K, At: at})
			}
		}
		if ec := checkPre(s, c.Pre); ec != 0 {
			return nil, ec
		}
		return t, 0
	}
	panic("not a write: " + c.Kind)
}

// StepB2 = Checker.step_b2: next state when the recorded response is the specification's
func StepB2(s, s2 State, c *Call, r *Result) (State, bool) {
	if c.IsWrite() {
		t, ec := Apply(s, c)
		if ec == 0 {
			if r.Kind == "tx" && r.ID == uint64(len(s))+1 {
				ns := make(State, len(s), len(s)+1)
				copy(ns, s)
				return append(ns, t), true
			}
			return nil, false
		}
		if r.Kind == "err" && r.Err == ec {
			return s, true
		}
		return nil, false
	}
	if SpecRead2(s, s2, c).Eq(*r) {
		return s, true
	}
	return nil, false
}
