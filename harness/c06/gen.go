package c06

// gen.go: generation of the cases.
//   - concurrent histories: G goroutines over a shared small key set on a fresh real DB, every call
//     stamped at invocation and return by one atomic counter; the whole history is ONE Coq case
//     decided by the verified checker, and is checked here by the Go transliteration (falsifier);
//   - sequential runs: every response compared with the specification call by call;
//   - a directed replay of the known finding (Get through an unbound reference answered from two
//     index states) with the schedule forced through store.Options.WithAppFactory.

import (
	"fmt"
	"math/rand"
	"os"
	"path/filepath"
	"runtime"
	"sort"
	"sync"
	"sync/atomic"
	"time"

	"github.com/codenotary/immudb/embedded/appendable"
	"github.com/codenotary/immudb/embedded/appendable/multiapp"
	"github.com/codenotary/immudb/embedded/store"
	"github.com/codenotary/immudb/pkg/api/schema"
	"github.com/codenotary/immudb/pkg/database"

	"verif/harness/vk"
)

const (
	nKeys = 4 // plain keys 0..3
	nRefs = 2 // keys 4,5 used (mostly) as references
	nSets = 2
)

type gen struct {
	rng  *rand.Rand
	vctr uint64 // unique values
	mode string // default | nowait-writes | nowait-reads
}

func (g *gen) val() uint64 { g.vctr++; return g.vctr }
func (g *gen) key() uint64 { return uint64(g.rng.Intn(nKeys)) }
func (g *gen) anyKey() uint64 {
	if g.rng.Intn(4) == 0 {
		return uint64(nKeys + g.rng.Intn(nRefs))
	}
	return g.key()
}
func (g *gen) refKey() uint64 {
	if g.rng.Intn(8) == 0 {
		return g.key() // sometimes an existing plain key: "final key cannot be converted"
	}
	return uint64(nKeys + g.rng.Intn(nRefs))
}
func (g *gen) smallTx(ntx int) uint64 {
	// a transaction id around what exists: 1..ntx, sometimes just beyond
	if g.rng.Intn(10) == 0 {
		return uint64(ntx + 1 + g.rng.Intn(3))
	}
	if ntx <= 0 {
		return 1
	}
	return uint64(1 + g.rng.Intn(ntx))
}
func (g *gen) since(ntx int) uint64 {
	if g.mode != "default" || g.rng.Intn(8) != 0 {
		return 0
	}
	return g.smallTx(ntx)
}
func (g *gen) pres(ntx int) []Pre {
	var ps []Pre
	for n := 1 + g.rng.Intn(2); n > 0; n-- {
		switch g.rng.Intn(3) {
		case 0:
			ps = append(ps, Pre{Kind: PMustExist, K: g.anyKey()})
		case 1:
			ps = append(ps, Pre{Kind: PMustNotExist, K: g.anyKey()})
		default:
			ps = append(ps, Pre{Kind: PNotModifiedAfter, K: g.anyKey(), T: g.smallTx(ntx)})
		}
	}
	return ps
}
func (g *gen) bound(ntx int) (uint64, bool) {
	switch g.rng.Intn(10) {
	case 0, 1, 2:
		return g.smallTx(ntx), true
	case 3:
		if g.rng.Intn(2) == 0 { // statically invalid combinations
			return 0, true
		}
		return g.smallTx(ntx), false
	}
	return 0, false
}

// call draws one call; ntx = (estimated) number of committed transactions
func (g *gen) call(ntx int) Call {
	c := Call{Seek: -1, End: -1}
	x := g.rng.Intn(100)
	switch {
	case x < 16:
		c.Kind = "set"
		c.KVs = [][2]uint64{{g.key(), g.val()}}
	case x < 21: // multi-key
		c.Kind = "set"
		for _, k := range g.rng.Perm(nKeys)[:2+g.rng.Intn(2)] {
			c.KVs = append(c.KVs, [2]uint64{uint64(k), g.val()})
		}
	case x < 31: // conditional
		c.Kind = "set"
		c.KVs = [][2]uint64{{g.anyKey(), g.val()}}
		c.Pre = g.pres(ntx)
	case x < 39:
		c.Kind = "del"
		c.Keys = []uint64{g.anyKey()}
		if g.rng.Intn(4) == 0 {
			c.Keys = []uint64{0, 1}
		}
	case x < 46:
		c.Kind = "setref"
		c.K, c.RK = g.refKey(), g.anyKey()
		c.At, c.Bound = g.bound(ntx)
		if g.rng.Intn(4) == 0 {
			c.Pre = g.pres(ntx)
		}
	case x < 51:
		c.Kind = "zadd"
		c.Set, c.Score, c.K = uint64(g.rng.Intn(nSets)), uint64(g.rng.Intn(4)), g.anyKey()
		c.At, c.Bound = g.bound(ntx)
	case x < 59:
		c.Kind = "execall"
		nops := 1 + g.rng.Intn(3)
		used := map[uint64]bool{}
		zseen := map[[3]uint64]bool{}
		for i := 0; i < nops; i++ {
			switch g.rng.Intn(4) {
			case 0, 1:
				k := g.anyKey()
				if used[k] {
					continue
				}
				used[k] = true
				c.Ops = append(c.Ops, EOp{Kind: OKv, K: k, V: g.val()})
			case 2:
				k := g.refKey()
				if used[k] {
					continue
				}
				used[k] = true
				at, b := g.bound(ntx)
				if g.rng.Intn(3) == 0 {
					at, b = 0, true // bound to the transaction being committed
				}
				c.Ops = append(c.Ops, EOp{Kind: ORef, K: k, RK: g.anyKey(), At: at, Bound: b})
			default:
				at, b := g.bound(ntx)
				if g.rng.Intn(3) == 0 {
					at, b = 0, true
				}
				o := EOp{Kind: OZAdd, Set: uint64(g.rng.Intn(nSets)), Score: uint64(g.rng.Intn(4)), K: g.anyKey(), At: at, Bound: b}
				zk := [3]uint64{o.Set, o.K, o.At}
				if zseen[zk] {
					continue
				}
				zseen[zk] = true
				c.Ops = append(c.Ops, o)
			}
		}
		if len(c.Ops) == 0 {
			c.Ops = []EOp{{Kind: OKv, K: g.key(), V: g.val()}}
		}
		if g.rng.Intn(4) == 0 {
			c.Pre = g.pres(ntx)
		}
	case x < 72:
		c.Kind = "get"
		c.K = g.anyKey()
		c.Since = g.since(ntx)
	case x < 76:
		c.Kind = "get"
		c.K = g.anyKey()
		c.At = g.smallTx(ntx)
	case x < 80:
		c.Kind = "get"
		c.K = g.anyKey()
		c.Rev = int64(g.rng.Intn(7)) - 3
		if c.Rev == 0 {
			c.Rev = -1
		}
		c.Since = g.since(ntx)
	case x < 84:
		c.Kind = "getall"
		for _, k := range g.rng.Perm(nKeys + nRefs)[:1+g.rng.Intn(4)] {
			c.Keys = append(c.Keys, uint64(k))
		}
		c.Since = g.since(ntx)
	case x < 89:
		c.Kind = "scan"
		if g.rng.Intn(2) == 0 {
			c.Seek = int64(g.rng.Intn(nKeys + nRefs))
		}
		if g.rng.Intn(3) == 0 {
			c.End = int64(g.rng.Intn(nKeys + nRefs))
		}
		c.IncS, c.IncE, c.Desc = g.rng.Intn(2) == 0, g.rng.Intn(2) == 0, g.rng.Intn(3) == 0
		c.Limit = uint64(g.rng.Intn(4))
		c.Since = g.since(ntx)
	case x < 93:
		c.Kind = "zscan"
		c.Set, c.Desc, c.Limit = uint64(g.rng.Intn(nSets)), g.rng.Intn(3) == 0, uint64(g.rng.Intn(4))
		c.Since = g.since(ntx)
	case x < 98:
		c.Kind = "hist"
		c.K, c.Offset, c.Desc, c.Limit = g.anyKey(), uint64(g.rng.Intn(4)), g.rng.Intn(2) == 0, uint64(g.rng.Intn(4))
		c.Since = g.since(ntx)
	default:
		c.Kind = "count"
	}
	switch g.mode {
	case "nowait-writes":
		if (c.Kind == "set" || c.Kind == "del") && g.rng.Intn(2) == 0 {
			c.NoWait = true
		}
	case "nowait-reads":
		if c.Kind == "get" && c.At == 0 {
			c.NoWait = true
		}
	}
	return c
}

// ---------------- concurrent histories ----------------

type pstep struct {
	call Call
	dyn  string // "": as is; "cas": conditional Set whose precondition comes from the goroutine's previous Get
}

func (g *gen) program(n, ntxEst int) []pstep {
	var p []pstep
	for len(p) < n {
		switch g.rng.Intn(12) {
		case 0: // racing creators: exactly one KeyMustNotExist writer may win
			k := g.anyKey()
			p = append(p, pstep{call: Call{Kind: "set", Seek: -1, End: -1, KVs: [][2]uint64{{k, g.val()}}, Pre: []Pre{{Kind: PMustNotExist, K: k}}}})
		case 1: // read-modify-write guarded by KeyNotModifiedAfterTx: no lost update
			k := g.key()
			p = append(p, pstep{call: Call{Kind: "get", Seek: -1, End: -1, K: k}})
			p = append(p, pstep{call: Call{Kind: "set", Seek: -1, End: -1, KVs: [][2]uint64{{k, g.val()}}}, dyn: "cas"})
		default:
			p = append(p, pstep{call: g.call(ntxEst)})
		}
	}
	return p[:n]
}

// runHistory executes the programs concurrently on a fresh DB and returns the calls in invocation order
func runHistory(db *DB, progs [][]pstep, rng *rand.Rand, background string) []Op {
	var ctr uint64
	var mu sync.Mutex
	var ops []Op
	var wg sync.WaitGroup
	start := make(chan struct{})
	stop := make(chan struct{})
	jitter := make([]int64, len(progs))
	for i := range jitter {
		jitter[i] = rng.Int63()
	}
	for gi := range progs {
		wg.Add(1)
		go func(gi int) {
			defer wg.Done()
			lr := rand.New(rand.NewSource(jitter[gi]))
			var last *Result
			<-start
			for _, st := range progs[gi] {
				c := st.call
				if st.dyn == "cas" {
					k := c.KVs[0][0]
					switch {
					case last != nil && last.Kind == "entry" && last.Entry.Ref != nil:
						c.Pre = []Pre{{Kind: PNotModifiedAfter, K: k, T: last.Entry.Ref[0]}}
					case last != nil && last.Kind == "entry":
						c.Pre = []Pre{{Kind: PNotModifiedAfter, K: k, T: last.Entry.Tx}}
					default:
						c.Pre = []Pre{{Kind: PMustNotExist, K: k}}
					}
				}
				switch lr.Intn(6) {
				case 0:
					runtime.Gosched()
				case 1:
					time.Sleep(time.Duration(lr.Intn(200)) * time.Microsecond)
				}
				inv := atomic.AddUint64(&ctr, 1)
				res := db.Exec(&c)
				ret := atomic.AddUint64(&ctr, 1)
				last = &res
				mu.Lock()
				ops = append(ops, Op{Inv: inv, Ret: ret, G: gi, Call: c, Res: res})
				mu.Unlock()
			}
		}(gi)
	}
	var bg sync.WaitGroup
	if background != "" { // "flush" or "flush+compact"
		bg.Add(1)
		go func() {
			defer bg.Done()
			for {
				select {
				case <-stop:
					return
				default:
					db.D.FlushIndex(&schema.FlushIndexRequest{CleanupPercentage: 10, Synced: false})
					time.Sleep(300 * time.Microsecond)
				}
			}
		}()
	}
	if background == "flush+compact" {
		bg.Add(1)
		go func() {
			defer bg.Done()
			for {
				select {
				case <-stop:
					return
				default:
					db.D.CompactIndex()
					time.Sleep(2 * time.Millisecond)
				}
			}
		}()
	}
	close(start)
	wg.Wait()
	close(stop)
	bg.Wait()
	sort.Slice(ops, func(i, j int) bool { return ops[i].Inv < ops[j].Inv })
	return ops
}

const knownText = "Get through an unbound reference is answered from two index states"
const knownText3 = "history not linearizable while CompactIndex runs concurrently (index re-opened from the compacted copy, wait hub not reset)"
const knownText2 = "snapshot read (GetAll/Scan/ZScan) with SinceTx > 0 is answered from a reused snapshot older than an acknowledged write"

// record checks a history with the Go transliteration (falsifier) and emits it as one Coq case
func record(r *vk.Run, ops []Op, bucket string, meta map[string]any) {
	compaction, _ := meta["background"].(string)
	compact := compaction == "flush+compact"
	strict, relaxed, why, tol := Check(ops)
	if !relaxed && compact {
		r.Finding(fmt.Sprintf("%s: %s; history=%s", knownText3, why, compactStr(ops)))
	} else if !relaxed {
		r.Finding(fmt.Sprintf("history not linearizable (%s): %s; history=%s", bucket, why, compactStr(ops)))
	} else if !strict {
		if tol["get-split"] > 0 {
			r.Finding(fmt.Sprintf("%s (entry and target of the reference read with two look-ups on the live index): %s; history=%s",
				knownText, why, compactStr(ops)))
		}
		if tol["stale-snapshot"] > 0 {
			r.Finding(fmt.Sprintf("%s: %s; history=%s", knownText2, why, compactStr(ops)))
		}
	}
	// non-trivial: a successful write overlaps in real time a call of another goroutine, and the
	// history has at least one successful write and one read with a value
	overlap, okw, okr := false, 0, 0
	for i := range ops {
		if ops[i].Res.Kind == "tx" {
			okw++
			for j := range ops {
				if ops[j].G != ops[i].G && ops[j].Inv < ops[i].Ret && ops[i].Inv < ops[j].Ret {
					overlap = true
				}
			}
		}
		if !ops[i].Call.IsWrite() && ops[i].Res.Kind != "err" && ops[i].Res.Kind != "abort" {
			okr++
		}
	}
	js := map[string]any{"kind": "hist", "ops": ops, "strict": strict, "relaxed": relaxed, "why": why}
	for k, v := range meta {
		js[k] = v
	}
	r.Case(CoqHist(ops, strict, compact), js, bucket, overlap && okw > 0 && okr > 0)
	for i := range ops {
		res := ops[i].Res.Kind
		if res == "err" {
			res = fmt.Sprintf("err%d", ops[i].Res.Err)
		}
		r.Stats["call:"+ops[i].Call.Kind+":"+res]++
	}
}

func compactStr(ops []Op) string {
	s := ""
	for i := range ops {
		s += fmt.Sprintf("[%d g%d %d-%d %s => %s] ", i, ops[i].G, ops[i].Inv, ops[i].Ret, ops[i].Call.Coq(), ops[i].Res.Coq())
		if len(s) > 6000 {
			return s + "..."
		}
	}
	return s
}

// fresh databases are opened ahead of use by one background goroutine (NewDB costs more than a
// whole history)
var dbAhead chan *DB
var dbStop chan struct{}
var dbDone chan struct{}

func nextDB() (*DB, error) {
	if dbAhead == nil {
		dbAhead, dbStop, dbDone = make(chan *DB, 2), make(chan struct{}), make(chan struct{})
		go func() {
			defer close(dbDone)
			for {
				db, err := OpenDB()
				if err != nil {
					db = nil
				}
				select {
				case dbAhead <- db:
					if db == nil {
						return
					}
				case <-dbStop:
					if db != nil {
						db.Close()
					}
					return
				}
			}
		}()
	}
	db := <-dbAhead
	if db == nil {
		return nil, fmt.Errorf("cannot open a database")
	}
	return db, nil
}

// closeAhead stops the producer and removes the databases opened ahead and not used
func closeAhead() {
	if dbAhead == nil {
		return
	}
	close(dbStop)
	<-dbDone
	for {
		select {
		case db := <-dbAhead:
			if db != nil {
				db.Close()
			}
		default:
			dbAhead = nil
			return
		}
	}
}

func concurrentCase(r *vk.Run, thorough bool) error {
	db, err := nextDB()
	if err != nil {
		return err
	}
	defer db.Close()
	g := &gen{rng: r.Rng}
	switch r.Rng.Intn(5) {
	case 0:
		g.mode = "nowait-writes"
	case 1:
		g.mode = "nowait-reads"
	default:
		g.mode = "default"
	}
	ng := 2 + r.Rng.Intn(4)
	if thorough {
		ng = 2 + r.Rng.Intn(7)
	}
	per := 6 + r.Rng.Intn(16)
	if ng*per > 110 {
		per = 110 / ng
	}
	progs := make([][]pstep, ng)
	for i := range progs {
		progs[i] = g.program(per, ng*per/3)
	}
	background := ""
	if thorough {
		background = []string{"", "flush", "flush+compact"}[r.Rng.Intn(3)]
	}
	ops := runHistory(db, progs, r.Rng, background)
	bucket := "concurrent:" + g.mode
	if background != "" {
		bucket += "+" + background
	}
	record(r, ops, bucket, map[string]any{"goroutines": ng, "background": background})
	return nil
}


// ---------------- directed family: scans over references racing with writes of their targets ----------------
// Setup: plain keys 0..3, key 5 an unbound reference to key 1. Writers then overwrite keys 0 and 1
// atomically (one Set with two entries) while scanners run full scans: every scan must show key 0, key 1
// and the entry resolved through the reference as of ONE state (scan.go resolves references on the
// scan's snapshot). The history goes through the same checker and Coq case as every other one.
func scanRefsCase(r *vk.Run) error {
	db, err := nextDB()
	if err != nil {
		return err
	}
	defer db.Close()
	g := &gen{rng: r.Rng, mode: "default"}
	mk := func(c Call) pstep { c.Seek, c.End = -1, -1; return pstep{call: c} }
	setup := []pstep{
		mk(Call{Kind: "set", KVs: [][2]uint64{{0, g.val()}, {1, g.val()}, {2, g.val()}, {3, g.val()}}}),
		mk(Call{Kind: "setref", K: 5, RK: 1}),
	}
	ops := runHistory(db, [][]pstep{setup}, r.Rng, "")
	var base uint64
	for _, o := range ops {
		if o.Ret > base {
			base = o.Ret
		}
	}
	nw, ns := 2, 2
	progs := make([][]pstep, nw+ns)
	for i := 0; i < nw; i++ {
		for k := 0; k < 18; k++ {
			v := g.val()
			progs[i] = append(progs[i], mk(Call{Kind: "set", KVs: [][2]uint64{{0, v}, {1, v}}}))
		}
	}
	for i := nw; i < nw+ns; i++ {
		for k := 0; k < 30; k++ {
			progs[i] = append(progs[i], mk(Call{Kind: "scan", Desc: r.Rng.Intn(4) == 0}))
		}
	}
	for _, o := range runHistory(db, progs, r.Rng, "") {
		o.Inv += base
		o.Ret += base
		o.G++
		ops = append(ops, o)
	}
	record(r, ops, "concurrent:scan-over-references", map[string]any{"goroutines": nw + ns, "background": ""})
	return nil
}

// ---------------- sequential runs ----------------

func sequentialCase(r *vk.Run) error {
	db, err := nextDB()
	if err != nil {
		return err
	}
	defer db.Close()
	g := &gen{rng: r.Rng, mode: "default"}
	var ops []Op
	s := State{}
	n := 25 + r.Rng.Intn(35)
	special := 0
	staleReported := false
	for i := 0; i < n; i++ {
		c := g.call(len(s))
		res := db.Exec(&c)
		ops = append(ops, Op{Inv: uint64(2*i + 1), Ret: uint64(2*i + 2), Call: c, Res: res})
		// the Go transliteration of the specification follows along (falsifier of the tie itself)
		ns, ok := StepB2(s, s, &c, &res)
		if !ok && snapSince(&c) > 0 {
			for p1 := snapSince(&c); p1 <= uint64(len(s)) && !ok; p1++ {
				for p2 := snapSince(&c); p2 <= uint64(len(s)) && !ok; p2++ {
					_, ok = StepB2(prefixOf(s, p1), prefixOf(s, p2), &c, &res)
				}
			}
			if ok {
				ns = s
				if !staleReported {
					staleReported = true
					w := SpecRead2(s, s, &c)
					r.Finding(fmt.Sprintf("%s: sequential run, call %d %s answered %s, the current state gives %s; run=%s",
						knownText2, i, c.Coq(), res.Coq(), w.Coq(), compactStr(ops)))
				}
			}
		}
		if !ok {
			want := ""
			if c.IsWrite() {
				t, ec := Apply(s, &c)
				want = fmt.Sprintf("tx=%v err=%d", t, ec)
			} else {
				w := SpecRead2(s, s, &c)
				want = w.Coq()
			}
			r.Finding(fmt.Sprintf("sequential run: call %d %s answered %s (%s), the specification says %s; run=%s",
				i, c.Coq(), res.Coq(), res.ErrText, want, compactStr(ops)))
			break
		}
		s = ns
		if res.Kind == "tx" && (c.Kind == "setref" || c.Kind == "zadd" || c.Kind == "execall") {
			special++
		}
	}
	r.Case(CoqSeq(ops), map[string]any{"kind": "seq", "ops": ops}, "sequential", len(s) >= 5 && special > 0)
	for i := range ops {
		res := ops[i].Res.Kind
		if res == "err" {
			res = fmt.Sprintf("err%d", ops[i].Res.Err)
		}
		r.Stats["seqcall:"+ops[i].Call.Kind+":"+res]++
	}
	return nil
}

// ---------------- directed replay of the known finding ----------------

type gate struct {
	armed   int32
	blocked chan struct{}
	release chan struct{}
}

type gateApp struct {
	appendable.Appendable
	g *gate
}

// the value of a reference is 1+8+2 = 11 bytes; the first such read after arming waits
func (a *gateApp) ReadAt(b []byte, off int64) (int, error) {
	if len(b) == 11 && atomic.CompareAndSwapInt32(&a.g.armed, 1, 0) {
		a.g.blocked <- struct{}{}
		<-a.g.release
	}
	return a.Appendable.ReadAt(b, off)
}

func knownFindingReplay(r *vk.Run) error {
	dir, err := os.MkdirTemp(TmpRoot(), "vh-c06-kf-")
	if err != nil {
		return err
	}
	defer os.RemoveAll(dir)
	gt := &gate{blocked: make(chan struct{}, 1), release: make(chan struct{})}
	lg := silentLogger()
	sopts := store.DefaultOptions().WithSynced(false).WithLogger(lg).WithEmbeddedValues(false).WithMaxIOConcurrency(2).
		WithAppFactory(func(rootPath, subPath string, opts *multiapp.Options) (appendable.Appendable, error) {
			app, err := multiapp.Open(filepath.Join(rootPath, subPath), opts)
			if err != nil {
				return nil, err
			}
			if len(subPath) >= 4 && subPath[:4] == "val_" {
				return &gateApp{Appendable: app, g: gt}, nil
			}
			return app, nil
		})
	d, err := database.NewDB("db", nil, database.DefaultOptions().WithDBRootPath(dir).WithStoreOptions(sopts), lg)
	if err != nil {
		return err
	}
	db := &DB{D: d, dir: dir}
	defer d.Close()
	var ctr uint64
	var ops []Op
	do := func(g int, c Call) {
		inv := atomic.AddUint64(&ctr, 1)
		res := db.Exec(&c)
		ret := atomic.AddUint64(&ctr, 1)
		ops = append(ops, Op{Inv: inv, Ret: ret, G: g, Call: c, Res: res})
	}
	k, ref := uint64(0), uint64(nKeys)
	do(0, Call{Kind: "set", Seek: -1, End: -1, KVs: [][2]uint64{{k, 1}}})
	do(0, Call{Kind: "setref", Seek: -1, End: -1, K: ref, RK: k})
	// reader: Get(ref) reads the reference entry, then stalls while reading its value
	atomic.StoreInt32(&gt.armed, 1)
	get := Call{Kind: "get", Seek: -1, End: -1, K: ref}
	var gop Op
	done := make(chan struct{})
	go func() {
		gop.Inv = atomic.AddUint64(&ctr, 1)
		gop.Res = db.Exec(&get)
		gop.Ret = atomic.AddUint64(&ctr, 1)
		close(done)
	}()
	select {
	case <-gt.blocked:
	case <-time.After(5 * time.Second):
		atomic.StoreInt32(&gt.armed, 0)
		<-done
		r.Stats["known-finding-replay:not-stalled"]++
		return nil
	}
	// meanwhile ONE transaction overwrites both the target and the (former) reference key, and is
	// indexed (a write-only multi-key Set: it needs no value read, the stalled reader holds a value log)
	do(0, Call{Kind: "set", Seek: -1, End: -1, KVs: [][2]uint64{{k, 2}, {ref, 3}}})
	close(gt.release)
	<-done
	gop.G, gop.Call = 1, get
	ops = append(ops, gop)
	sort.Slice(ops, func(i, j int) bool { return ops[i].Inv < ops[j].Inv })
	record(r, ops, "known-finding-replay", map[string]any{"forced": "Get stalled between its two index look-ups (WithAppFactory gate on the value log)"})
	return nil
}

// the second known finding, deterministic and sequential: a snapshot is taken at tx 1 (GetAll), tx 2
// is committed and acknowledged, GetAll with SinceTx = 1 reuses the snapshot of tx 1
func knownFinding2Replay(r *vk.Run) error {
	db, err := OpenDB()
	if err != nil {
		return err
	}
	defer db.Close()
	var ctr uint64
	var ops []Op
	do := func(c Call) {
		inv := atomic.AddUint64(&ctr, 1)
		res := db.Exec(&c)
		ret := atomic.AddUint64(&ctr, 1)
		ops = append(ops, Op{Inv: inv, Ret: ret, Call: c, Res: res})
	}
	do(Call{Kind: "set", Seek: -1, End: -1, KVs: [][2]uint64{{0, 1}}})
	do(Call{Kind: "getall", Seek: -1, End: -1, Keys: []uint64{0}})
	do(Call{Kind: "set", Seek: -1, End: -1, KVs: [][2]uint64{{0, 2}}})
	do(Call{Kind: "getall", Seek: -1, End: -1, Keys: []uint64{0}, Since: 1})
	record(r, ops, "known-finding-replay", map[string]any{"forced": "sequential: snapshot reuse with SinceTx = 1"})
	return nil
}

// ---------------- entry points ----------------

func Gen(r *vk.Run, n int) error {
	thorough := os.Getenv("VERIF_TIER") == "thorough"
	defer closeAhead()
	if err := knownFindingReplay(r); err != nil {
		return err
	}
	if err := knownFinding2Replay(r); err != nil {
		return err
	}
	nseq := n / 4
	for i := 0; i < nseq; i++ {
		if err := sequentialCase(r); err != nil {
			return err
		}
	}
	for k := 0; k < 3+n/40; k++ {
		if err := scanRefsCase(r); err != nil {
			return err
		}
	}
	for r.N < n {
		if err := concurrentCase(r, thorough); err != nil {
			return err
		}
	}
	return nil
}
