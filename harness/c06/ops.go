// Package c06: linearizability of the key-value API of pkg/database (property C06).
//
// ops.go: calls and responses as the harness records them, their Coq terms (types of
// coq/Lin/Spec.v, coq/Lin/History.v) and JSON mirror.
package c06

import (
	"fmt"
	"strings"
)

// preconditions
const (
	PMustExist = iota
	PMustNotExist
	PNotModifiedAfter
)

type Pre struct {
	Kind int    `json:"kind"`
	K    uint64 `json:"k"`
	T    uint64 `json:"t,omitempty"`
}

// ExecAll operations
const (
	OKv = iota
	ORef
	OZAdd
)

type EOp struct {
	Kind  int    `json:"kind"`
	K     uint64 `json:"k"`
	V     uint64 `json:"v,omitempty"`
	RK    uint64 `json:"rk,omitempty"`
	At    uint64 `json:"at,omitempty"`
	Set   uint64 `json:"set,omitempty"`
	Score uint64 `json:"score,omitempty"`
	Bound bool   `json:"bound,omitempty"`
}

type Call struct {
	Kind   string      `json:"kind"` // set del setref zadd execall | get getall scan zscan hist count
	KVs    [][2]uint64 `json:"kvs,omitempty"`
	Pre    []Pre       `json:"pre,omitempty"`
	Keys   []uint64    `json:"keys,omitempty"`
	K      uint64      `json:"k,omitempty"`
	RK     uint64      `json:"rk,omitempty"`
	At     uint64      `json:"at,omitempty"`
	Bound  bool        `json:"bound,omitempty"`
	Set    uint64      `json:"set,omitempty"`
	Score  uint64      `json:"score,omitempty"`
	Ops    []EOp       `json:"ops,omitempty"`
	Since  uint64      `json:"since,omitempty"`
	Rev    int64       `json:"rev,omitempty"`
	Seek   int64       `json:"seek"` // -1: none
	End    int64       `json:"end"`  // -1: none
	IncS   bool        `json:"incs,omitempty"`
	IncE   bool        `json:"ince,omitempty"`
	Desc   bool        `json:"desc,omitempty"`
	Limit  uint64      `json:"limit,omitempty"`
	Offset uint64      `json:"offset,omitempty"`
	NoWait bool        `json:"nowait,omitempty"` // not part of the specification (waiting only)
}

func (c *Call) IsWrite() bool {
	switch c.Kind {
	case "set", "del", "setref", "zadd", "execall":
		return true
	}
	return false
}

// state entries (Spec.entry)
const (
	EKv = iota
	EDel
	ERef
	EZ
)

type Entry struct {
	Kind  int    `json:"kind"`
	K     uint64 `json:"k"`
	V     uint64 `json:"v,omitempty"`
	RK    uint64 `json:"rk,omitempty"`
	At    uint64 `json:"at,omitempty"`
	Set   uint64 `json:"set,omitempty"`
	Score uint64 `json:"score,omitempty"`
}

type REntry struct {
	Tx  uint64     `json:"tx"`
	Key uint64     `json:"key"`
	Val uint64     `json:"val"`
	Rev uint64     `json:"rev"`
	Ref *[4]uint64 `json:"ref,omitempty"` // tx, key, atTx, revision of the reference
}

type ZEntry struct {
	Score uint64 `json:"score"`
	At    uint64 `json:"at"`
	E     REntry `json:"e"`
}

type HEntry struct {
	Tx  uint64 `json:"tx"`
	Rev uint64 `json:"rev"`
	E   Entry  `json:"e"`
}

// error classes (Spec.v)
const (
	EKeyNotFound     = 1
	EPrecond         = 2
	EIllegal         = 3
	ETxNotFound      = 4
	EInvalidRevision = 5
	EFinalKey        = 6
	ERefIsRef        = 7
	EResolutionLimit = 8
	ENoMoreEntries   = 9
	EOther           = 99
)

type Result struct {
	Kind    string   `json:"kind"` // tx err entry entries z hist count abort
	ID      uint64   `json:"id,omitempty"`
	Err     uint64   `json:"err,omitempty"`
	Entry   *REntry  `json:"entry,omitempty"`
	Entries []REntry `json:"entries,omitempty"`
	Z       []ZEntry `json:"z,omitempty"`
	Hist    []HEntry `json:"hist,omitempty"`
	Count   uint64   `json:"count,omitempty"`
	ErrText string   `json:"errtext,omitempty"`
}

func errRes(c uint64) Result { return Result{Kind: "err", Err: c} }

func (a REntry) eq(b REntry) bool {
	if a.Tx != b.Tx || a.Key != b.Key || a.Val != b.Val || a.Rev != b.Rev {
		return false
	}
	if (a.Ref == nil) != (b.Ref == nil) {
		return false
	}
	return a.Ref == nil || *a.Ref == *b.Ref
}

func (a Result) Eq(b Result) bool {
	if a.Kind != b.Kind {
		return false
	}
	switch a.Kind {
	case "tx":
		return a.ID == b.ID
	case "err":
		return a.Err == b.Err
	case "entry":
		return a.Entry.eq(*b.Entry)
	case "entries":
		if len(a.Entries) != len(b.Entries) {
			return false
		}
		for i := range a.Entries {
			if !a.Entries[i].eq(b.Entries[i]) {
				return false
			}
		}
		return true
	case "z":
		if len(a.Z) != len(b.Z) {
			return false
		}
		for i := range a.Z {
			if a.Z[i].Score != b.Z[i].Score || a.Z[i].At != b.Z[i].At || !a.Z[i].E.eq(b.Z[i].E) {
				return false
			}
		}
		return true
	case "hist":
		if len(a.Hist) != len(b.Hist) {
			return false
		}
		for i := range a.Hist {
			if a.Hist[i] != b.Hist[i] {
				return false
			}
		}
		return true
	case "count":
		return a.Count == b.Count
	case "abort":
		return true
	}
	return false
}

// one recorded call of a history
type Op struct {
	Inv  uint64 `json:"inv"`
	Ret  uint64 `json:"ret"`
	G    int    `json:"g"` // goroutine
	Call Call   `json:"call"`
	Res  Result `json:"res"`
}

// ---------------- Coq terms ----------------

func b2s(b bool) string {
	if b {
		return "true"
	}
	return "false"
}

func coqPres(ps []Pre) string {
	xs := make([]string, len(ps))
	for i, p := range ps {
		switch p.Kind {
		case PMustExist:
			xs[i] = fmt.Sprintf("PMustExist %d", p.K)
		case PMustNotExist:
			xs[i] = fmt.Sprintf("PMustNotExist %d", p.K)
		default:
			xs[i] = fmt.Sprintf("PNotModifiedAfter %d %d", p.K, p.T)
		}
	}
	return "[" + strings.Join(xs, "; ") + "]"
}

func coqNs(ks []uint64) string {
	xs := make([]string, len(ks))
	for i, k := range ks {
		xs[i] = fmt.Sprintf("%d", k)
	}
	return "[" + strings.Join(xs, "; ") + "]"
}

func coqOpt(v int64) string {
	if v < 0 {
		return "None"
	}
	return fmt.Sprintf("(Some %d)", v)
}

func (c *Call) Coq() string {
	switch c.Kind {
	case "set":
		xs := make([]string, len(c.KVs))
		for i, kv := range c.KVs {
			xs[i] = fmt.Sprintf("(%d, %d)", kv[0], kv[1])
		}
		return fmt.Sprintf("(CW (WSet [%s] %s))", strings.Join(xs, "; "), coqPres(c.Pre))
	case "del":
		return fmt.Sprintf("(CW (WDelete %s))", coqNs(c.Keys))
	case "setref":
		return fmt.Sprintf("(CW (WSetRef %d %d %d %s %s))", c.K, c.RK, c.At, b2s(c.Bound), coqPres(c.Pre))
	case "zadd":
		return fmt.Sprintf("(CW (WZAdd %d %d %d %d %s))", c.Set, c.Score, c.K, c.At, b2s(c.Bound))
	case "execall":
		xs := make([]string, len(c.Ops))
		for i, o := range c.Ops {
			switch o.Kind {
			case OKv:
				xs[i] = fmt.Sprintf("OKv %d %d", o.K, o.V)
			case ORef:
				xs[i] = fmt.Sprintf("ORef %d %d %d %s", o.K, o.RK, o.At, b2s(o.Bound))
			default:
				xs[i] = fmt.Sprintf("OZAdd %d %d %d %d %s", o.Set, o.Score, o.K, o.At, b2s(o.Bound))
			}
		}
		return fmt.Sprintf("(CW (WExecAll [%s] %s))", strings.Join(xs, "; "), coqPres(c.Pre))
	case "get":
		return fmt.Sprintf("(CR (RGet %d %d %d (%d)%%Z))", c.K, c.Since, c.At, c.Rev)
	case "getall":
		return fmt.Sprintf("(CR (RGetAll %s %d))", coqNs(c.Keys), c.Since)
	case "scan":
		return fmt.Sprintf("(CR (RScan %s %s %s %s %s %d %d))", coqOpt(c.Seek), coqOpt(c.End), b2s(c.IncS), b2s(c.IncE), b2s(c.Desc), c.Limit, c.Since)
	case "zscan":
		return fmt.Sprintf("(CR (RZScan %d %s %d %d))", c.Set, b2s(c.Desc), c.Limit, c.Since)
	case "hist":
		return fmt.Sprintf("(CR (RHistory %d %d %s %d %d))", c.K, c.Offset, b2s(c.Desc), c.Limit, c.Since)
	case "count":
		return "(CR RCount)"
	}
	panic("unknown call kind " + c.Kind)
}

func (e REntry) Coq() string {
	ref := "None"
	if e.Ref != nil {
		ref = fmt.Sprintf("(Some (%d, %d, %d, %d))", e.Ref[0], e.Ref[1], e.Ref[2], e.Ref[3])
	}
	return fmt.Sprintf("(mkE %d %d %d %d %s)", e.Tx, e.Key, e.Val, e.Rev, ref)
}

func (e Entry) Coq() string {
	switch e.Kind {
	case EKv:
		return fmt.Sprintf("(EKv %d %d)", e.K, e.V)
	case EDel:
		return fmt.Sprintf("(EDel %d)", e.K)
	case ERef:
		return fmt.Sprintf("(ERef %d %d %d)", e.K, e.RK, e.At)
	}
	return fmt.Sprintf("(EZ %d %d %d %d)", e.Set, e.Score, e.K, e.At)
}

func (r *Result) Coq() string {
	switch r.Kind {
	case "tx":
		return fmt.Sprintf("(ResTx %d)", r.ID)
	case "err":
		return fmt.Sprintf("(ResErr %d)", r.Err)
	case "entry":
		return fmt.Sprintf("(ResEntry %s)", r.Entry.Coq())
	case "entries":
		xs := make([]string, len(r.Entries))
		for i, e := range r.Entries {
			xs[i] = e.Coq()
		}
		return "(ResEntries [" + strings.Join(xs, "; ") + "])"
	case "z":
		xs := make([]string, len(r.Z))
		for i, e := range r.Z {
			xs[i] = fmt.Sprintf("(%d, %d, %s)", e.Score, e.At, e.E.Coq())
		}
		return "(ResZ [" + strings.Join(xs, "; ") + "])"
	case "hist":
		xs := make([]string, len(r.Hist))
		for i, e := range r.Hist {
			xs[i] = fmt.Sprintf("(%d, %d, %s)", e.Tx, e.Rev, e.E.Coq())
		}
		return "(ResHist [" + strings.Join(xs, "; ") + "])"
	case "count":
		return fmt.Sprintf("(ResCount %d)", r.Count)
	}
	return "ResAbort"
}

func (o *Op) Coq() string {
	return fmt.Sprintf("mkOp %d (Some %d) %s (Some %s)", o.Inv, o.Ret, o.Call.Coq(), o.Res.Coq())
}

func CoqHist(ops []Op, strict bool, compaction bool) string {
	xs := make([]string, len(ops))
	for i := range ops {
		xs[i] = ops[i].Coq()
	}
	ctor := "CHist"
	if compaction {
		ctor = "CHistCompact"
	}
	return "(" + ctor + " [" + strings.Join(xs, ";\n   ") + "] " + b2s(strict) + ")"
}

func CoqSeq(ops []Op) string {
	xs := make([]string, len(ops))
	for i := range ops {
		xs[i] = "(" + ops[i].Call.Coq() + ", " + ops[i].Res.Coq() + ")"
	}
	return "(CSeq [" + strings.Join(xs, ";\n   ") + "])"
}
