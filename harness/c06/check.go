package c06

// check.go: the linearizability check of coq/Lin/Checker.v transliterated (build_lin proposes a
// linearization, valid_lin decides the definition).  Used as the direct falsifier on the recorded
// histories; the verdict of the Coq original on the same history is what the check reports.

import "fmt"

func rtBefore(a, b *Op) bool { return a.Ret != 0 && a.Ret < b.Inv }

func effective(o *Op) bool { return o.Res.Kind != "abort" }

func writeID(o *Op) (uint64, bool) {
	if o.Call.IsWrite() && o.Res.Kind == "tx" {
		return o.Res.ID, true
	}
	return 0, false
}

func findWrite(h []Op, id uint64) int {
	for i := range h {
		if j, ok := writeID(&h[i]); ok && j == id {
			return i
		}
	}
	return -1
}

func replay(h []Op, n int) State {
	s := State{}
	for id := uint64(1); id <= uint64(n); id++ {
		i := findWrite(h, id)
		if i < 0 {
			return s
		}
		t, ec := Apply(s, &h[i].Call)
		if ec != 0 {
			return s
		}
		s = append(s, t)
	}
	return s
}

func prefixOf(txs State, p uint64) State {
	if p > uint64(len(txs)) {
		p = uint64(len(txs))
	}
	return txs[:p:p]
}

func loWrites(h []Op, o *Op) uint64 {
	m := uint64(0)
	for i := range h {
		if id, ok := writeID(&h[i]); ok && rtBefore(&h[i], o) && id > m {
			m = id
		}
	}
	return m
}

func hiWrites(h []Op, n uint64, o *Op) uint64 {
	m := n
	for i := range h {
		if id, ok := writeID(&h[i]); ok && rtBefore(o, &h[i]) {
			idm := uint64(0)
			if id > 0 {
				idm = id - 1
			}
			if idm < m {
				m = idm
			}
		}
	}
	return m
}

type asg struct {
	i int
	p uint64
}

func nWrites(h []Op) int {
	n := 0
	for i := range h {
		if _, ok := writeID(&h[i]); ok && effective(&h[i]) {
			n++
		}
	}
	return n
}

// BuildLin = Checker.build_lin
func BuildLin(h []Op) ([]int, State) {
	n := nWrites(h)
	txs := replay(h, n)
	var done []asg
	for i := range h {
		o := &h[i]
		if _, isw := writeID(o); !effective(o) || isw {
			continue
		}
		lo := loWrites(h, o)
		for _, d := range done {
			if rtBefore(&h[d.i], o) && d.p > lo {
				lo = d.p
			}
		}
		hi := hiWrites(h, uint64(n), o)
		p := lo
		for q, fuel := lo, 0; fuel <= n && q <= hi; q, fuel = q+1, fuel+1 {
			st := prefixOf(txs, q)
			if _, ok := StepB2(st, st, &o.Call, &o.Res); ok {
				p = q
				break
			}
		}
		done = append(done, asg{i, p})
	}
	var lin []int
	for p := uint64(0); p <= uint64(n); p++ {
		if p > 0 {
			if i := findWrite(h, p); i >= 0 {
				lin = append(lin, i)
			}
		}
		for _, d := range done {
			if d.p == p {
				lin = append(lin, d.i)
			}
		}
	}
	return lin, txs
}

// ValidLin = Checker.valid_lin (relaxed = Checker.check_relaxed's run_relaxed); the returned
// string says which clause failed.
func ValidLin(h []Op, lin []int, txs State, relaxed bool, tol map[string]int) (bool, string) {
	seen := map[int]bool{}
	for _, i := range lin {
		if seen[i] {
			return false, "duplicate position"
		}
		seen[i] = true
		if i < 0 || i >= len(h) || !effective(&h[i]) {
			return false, "position outside the history"
		}
	}
	for i := range h {
		if effective(&h[i]) && !seen[i] {
			return false, fmt.Sprintf("completed call %d missing", i)
		}
	}
	for a := 0; a < len(lin); a++ {
		for b := a + 1; b < len(lin); b++ {
			if rtBefore(&h[lin[b]], &h[lin[a]]) {
				return false, fmt.Sprintf("real-time order: call %d (ret %d) placed after call %d (inv %d)",
					lin[b], h[lin[b]].Ret, lin[a], h[lin[a]].Inv)
			}
		}
	}
	n := uint64(nWrites(h))
	s := State{}
	for _, i := range lin {
		o := &h[i]
		if ns, ok := StepB2(s, s, &o.Call, &o.Res); ok {
			s = ns
			continue
		}
		if relaxed && o.Call.Kind == "get" && getSplitOK(h, txs, n, o) {
			tol["get-split"]++
			continue
		}
		if relaxed && staleOK(h, txs, n, o) {
			tol["stale-snapshot"]++
			continue
		}
		want := ""
		if o.Call.IsWrite() {
			t, ec := Apply(s, &o.Call)
			want = fmt.Sprintf("spec: tx=%v err=%d at |state|=%d", t, ec, len(s))
		} else {
			w := SpecRead2(s, s, &o.Call)
			want = fmt.Sprintf("spec at |state|=%d: %s", len(s), w.Coq())
		}
		return false, fmt.Sprintf("call %d (g%d inv %d ret %d) %s answered %s; no admissible prefix of the writes explains it (%s)",
			i, o.G, o.Inv, o.Ret, o.Call.Coq(), o.Res.Coq(), want)
	}
	return true, ""
}

func getSplitOK(h []Op, txs State, n uint64, o *Op) bool {
	lo, hi := loWrites(h, o), hiWrites(h, n, o)
	for p1 := lo; p1 <= hi; p1++ {
		for p2 := lo; p2 <= hi; p2++ {
			if _, ok := StepB2(prefixOf(txs, p1), prefixOf(txs, p2), &o.Call, &o.Res); ok {
				return true
			}
		}
	}
	return false
}

func snapSince(c *Call) uint64 {
	switch c.Kind {
	case "getall", "scan", "zscan":
		return c.Since
	}
	return 0
}

// staleOK = Checker.stale_ok
func staleOK(h []Op, txs State, n uint64, o *Op) bool {
	since := snapSince(&o.Call)
	if since == 0 {
		return false
	}
	hi := hiWrites(h, n, o)
	for p1 := since; p1 <= hi; p1++ {
		for p2 := since; p2 <= hi; p2++ {
			if _, ok := StepB2(prefixOf(txs, p1), prefixOf(txs, p2), &o.Call, &o.Res); ok {
				return true
			}
		}
	}
	return false
}

// Check: strict and relaxed verdicts, the reason of the strict failure, and which tolerated
// behaviours (known findings) the relaxed verdict needed
func Check(h []Op) (strict bool, relaxed bool, why string, tol map[string]int) {
	lin, txs := BuildLin(h)
	tol = map[string]int{}
	strict, why = ValidLin(h, lin, txs, false, tol)
	if strict {
		return true, true, "", tol
	}
	relaxed, why2 := ValidLin(h, lin, txs, true, tol)
	if !relaxed {
		why = why2
	}
	return strict, relaxed, why, tol
}
