package main

import (
	"context"
	"fmt"
	"io"
	"os"
	"sync"
	"sync/atomic"
	"time"

	"github.com/codenotary/immudb/embedded/logger"
	"github.com/codenotary/immudb/pkg/api/schema"
	"github.com/codenotary/immudb/pkg/database"
)

func main() {
	dir, _ := os.MkdirTemp("", "c06probe")
	defer os.RemoveAll(dir)
	opts := database.DefaultOptions().WithDBRootPath(dir)
	d, err := database.NewDB("db", nil, opts, logger.NewSimpleLoggerWithLevel("vh", io.Discard, logger.LogError))
	if err != nil {
		panic(err)
	}
	defer d.Close()
	ctx := context.Background()
	k, r, set := []byte("k"), []byte("r"), []byte("s")
	_, err = d.Set(ctx, &schema.SetRequest{KVs: []*schema.KeyValue{{Key: k, Value: []byte("v0")}}})
	if err != nil {
		panic(err)
	}
	var stop int32
	var wg sync.WaitGroup
	wg.Add(1)
	go func() {
		defer wg.Done()
		i := 0
		for atomic.LoadInt32(&stop) == 0 {
			i++
			_, err := d.ExecAll(ctx, &schema.ExecAllRequest{Operations: []*schema.Op{
				{Operation: &schema.Op_Kv{Kv: &schema.KeyValue{Key: k, Value: []byte(fmt.Sprintf("v%d", i))}}},
				{Operation: &schema.Op_Ref{Ref: &schema.ReferenceRequest{Key: r, ReferencedKey: k}}},
				{Operation: &schema.Op_ZAdd{ZAdd: &schema.ZAddRequest{Set: set, Score: float64(i), Key: k}}},
			}})
			if err != nil {
				fmt.Println("execall err", err)
				return
			}
		}
	}()
	var badGet, badZ, nGet, nZ int64
	for g := 0; g < 4; g++ {
		wg.Add(1)
		go func() {
			defer wg.Done()
			for atomic.LoadInt32(&stop) == 0 {
				e, err := d.Get(ctx, &schema.KeyRequest{Key: r})
				if err == nil && e.ReferencedBy != nil {
					atomic.AddInt64(&nGet, 1)
					if e.Tx != e.ReferencedBy.Tx {
						if atomic.AddInt64(&badGet, 1) == 1 {
							fmt.Printf("GET non-atomic: ref tx %d target tx %d\n", e.ReferencedBy.Tx, e.Tx)
						}
					}
				}
			}
		}()
		wg.Add(1)
		go func() {
			defer wg.Done()
			for atomic.LoadInt32(&stop) == 0 {
				z, err := d.ZScan(ctx, &schema.ZScanRequest{Set: set, Desc: true, Limit: 1})
				if err == nil && len(z.Entries) > 0 {
					atomic.AddInt64(&nZ, 1)
					e := z.Entries[0]
					// tx i+1 wrote k and z-entry with score i: consistent state => score == Entry.Tx-1
					if uint64(e.Score) != e.Entry.Tx-1 {
						if atomic.AddInt64(&badZ, 1) <= 3 {
							fmt.Printf("ZSCAN non-atomic: top score %v (tx %d) but value tx %d\n", e.Score, uint64(e.Score)+1, e.Entry.Tx)
						}
					}
				}
			}
		}()
	}
	time.Sleep(8 * time.Second)
	atomic.StoreInt32(&stop, 1)
	wg.Wait()
	fmt.Println("gets", nGet, "bad", badGet, "zscans", nZ, "bad", badZ)
}
