package main

import (
	"verif/harness/c06"
	"verif/harness/vk"
)

func main() { vk.Main("Tie.C06", c06.Gen, c06.Replay) }
