package c06

// exec.go: a real pkg/database DB in a temp dir and the execution of one recorded call on it.

import (
	"context"
	"encoding/binary"
	"errors"
	"io"
	"os"
	"strconv"
	"strings"

	"github.com/codenotary/immudb/embedded/logger"
	"github.com/codenotary/immudb/embedded/store"
	"github.com/codenotary/immudb/pkg/api/schema"
	"github.com/codenotary/immudb/pkg/database"
)

type DB struct {
	D   database.DB
	dir string
}

// TmpRoot: a memory-backed directory when there is one (every NewDB creates and fsyncs about twenty
// files; on disk that alone costs more than a whole history), else the default temp dir.
func TmpRoot() string {
	if st, err := os.Stat("/dev/shm"); err == nil && st.IsDir() {
		return "/dev/shm"
	}
	return ""
}

func OpenDB() (*DB, error) {
	dir, err := os.MkdirTemp(TmpRoot(), "vh-c06-")
	if err != nil {
		return nil, err
	}
	lg := logger.NewSimpleLoggerWithLevel("vh", io.Discard, logger.LogError)
	// small holders (tx pools, key/value limits): none of them is part of what is checked, and the
	// default sizes make every NewDB allocate and zero > 100 MB
	sopts := store.DefaultOptions().WithSynced(false).WithLogger(lg).
		WithMaxTxEntries(32).WithMaxKeyLen(64).WithMaxValueLen(256).WithMaxConcurrency(16).WithMaxActiveTransactions(64).
		WithWriteBufferSize(1 << 14)
	sopts = sopts.WithAHTOptions(sopts.AHTOpts.WithWriteBufferSize(1 << 14))
	sopts = sopts.WithIndexOptions(sopts.IndexOpts.WithCompactionThld(2).WithFlushBufferSize(1 << 14).WithCacheSize(4096))
	opts := database.DefaultOptions().WithDBRootPath(dir).WithStoreOptions(sopts).WithReadTxPoolSize(8)
	d, err := database.NewDB("db", nil, opts, lg)
	if err != nil {
		os.RemoveAll(dir)
		return nil, err
	}
	return &DB{D: d, dir: dir}, nil
}

func (db *DB) Close() {
	db.D.Close()
	os.RemoveAll(db.dir)
}

func keyB(k uint64) []byte   { return []byte{byte('a' + k)} }
func valB(v uint64) []byte   { return []byte(strconv.FormatUint(v, 10)) }
func setB(s uint64) []byte   { return []byte{'S', byte('0' + s)} }
func keyN(b []byte) uint64   { return uint64(b[0] - 'a') }
func valN(b []byte) uint64   { v, _ := strconv.ParseUint(string(b), 10, 64); return v }
func presP(ps []Pre) []*schema.Precondition {
	var out []*schema.Precondition
	for _, p := range ps {
		switch p.Kind {
		case PMustExist:
			out = append(out, schema.PreconditionKeyMustExist(keyB(p.K)))
		case PMustNotExist:
			out = append(out, schema.PreconditionKeyMustNotExist(keyB(p.K)))
		default:
			out = append(out, schema.PreconditionKeyNotModifiedAfterTX(keyB(p.K), p.T))
		}
	}
	return out
}

func classify(err error) Result {
	// While CompactIndex swaps the index in, taking a snapshot can fail with tbtree's "ts is greater
	// than current ts", which wraps the same sentinel as a genuine argument error (SinceTx beyond the
	// committed frontier). It is a transient refusal without any observation of the state: recorded as
	// an abort (bucket call:*:abort), the message being the only way to tell the two apart.
	if errors.Is(err, store.ErrIllegalArguments) && strings.Contains(err.Error(), "greater than current ts") {
		return Result{Kind: "abort", ErrText: err.Error()}
	}
	switch {
	case errors.Is(err, store.ErrPreconditionFailed):
		return errRes(EPrecond)
	case errors.Is(err, database.ErrFinalKeyCannotBeConvertedIntoReference):
		return errRes(EFinalKey)
	case errors.Is(err, database.ErrReferencedKeyCannotBeAReference):
		return errRes(ERefIsRef)
	case errors.Is(err, database.ErrKeyResolutionLimitReached):
		return errRes(EResolutionLimit)
	case errors.Is(err, database.ErrInvalidRevision):
		return errRes(EInvalidRevision)
	case errors.Is(err, store.ErrTxNotFound):
		return errRes(ETxNotFound)
	case errors.Is(err, store.ErrKeyNotFound):
		return errRes(EKeyNotFound)
	case errors.Is(err, store.ErrNoMoreEntries):
		return errRes(ENoMoreEntries)
	case errors.Is(err, store.ErrIllegalArguments):
		return errRes(EIllegal)
	}
	// MVCC conflict and anything else: no effect, no verdict the property speaks about
	return Result{Kind: "abort", ErrText: err.Error()}
}

func rentry(e *schema.Entry) REntry {
	r := REntry{Tx: e.Tx, Key: keyN(e.Key), Val: valN(e.Value), Rev: e.Revision}
	if e.ReferencedBy != nil {
		rb := e.ReferencedBy
		r.Ref = &[4]uint64{rb.Tx, keyN(rb.Key), rb.AtTx, rb.Revision}
	}
	return r
}

func txRes(h *schema.TxHeader, err error) Result {
	if err != nil {
		return classify(err)
	}
	return Result{Kind: "tx", ID: h.Id}
}

// Exec runs one call on the real database and projects the response
func (db *DB) Exec(c *Call) Result {
	ctx := context.Background()
	d := db.D
	switch c.Kind {
	case "set":
		req := &schema.SetRequest{NoWait: c.NoWait, Preconditions: presP(c.Pre)}
		for _, kv := range c.KVs {
			req.KVs = append(req.KVs, &schema.KeyValue{Key: keyB(kv[0]), Value: valB(kv[1])})
		}
		return txRes(d.Set(ctx, req))
	case "del":
		req := &schema.DeleteKeysRequest{NoWait: c.NoWait}
		for _, k := range c.Keys {
			req.Keys = append(req.Keys, keyB(k))
		}
		return txRes(d.Delete(ctx, req))
	case "setref":
		return txRes(d.SetReference(ctx, &schema.ReferenceRequest{Key: keyB(c.K), ReferencedKey: keyB(c.RK),
			AtTx: c.At, BoundRef: c.Bound, Preconditions: presP(c.Pre)}))
	case "zadd":
		return txRes(d.ZAdd(ctx, &schema.ZAddRequest{Set: setB(c.Set), Score: float64(c.Score), Key: keyB(c.K),
			AtTx: c.At, BoundRef: c.Bound}))
	case "execall":
		req := &schema.ExecAllRequest{Preconditions: presP(c.Pre)}
		for _, o := range c.Ops {
			switch o.Kind {
			case OKv:
				req.Operations = append(req.Operations, &schema.Op{Operation: &schema.Op_Kv{
					Kv: &schema.KeyValue{Key: keyB(o.K), Value: valB(o.V)}}})
			case ORef:
				req.Operations = append(req.Operations, &schema.Op{Operation: &schema.Op_Ref{
					Ref: &schema.ReferenceRequest{Key: keyB(o.K), ReferencedKey: keyB(o.RK), AtTx: o.At, BoundRef: o.Bound}}})
			default:
				req.Operations = append(req.Operations, &schema.Op{Operation: &schema.Op_ZAdd{
					ZAdd: &schema.ZAddRequest{Set: setB(o.Set), Score: float64(o.Score), Key: keyB(o.K), AtTx: o.At, BoundRef: o.Bound}}})
			}
		}
		return txRes(d.ExecAll(ctx, req))
	case "get":
		e, err := d.Get(ctx, &schema.KeyRequest{Key: keyB(c.K), SinceTx: c.Since, AtTx: c.At, AtRevision: c.Rev, NoWait: c.NoWait})
		if err != nil {
			return classify(err)
		}
		r := rentry(e)
		return Result{Kind: "entry", Entry: &r}
	case "getall":
		req := &schema.KeyListRequest{SinceTx: c.Since}
		for _, k := range c.Keys {
			req.Keys = append(req.Keys, keyB(k))
		}
		es, err := d.GetAll(ctx, req)
		if err != nil {
			return classify(err)
		}
		out := []REntry{}
		for _, e := range es.Entries {
			out = append(out, rentry(e))
		}
		return Result{Kind: "entries", Entries: out}
	case "scan":
		req := &schema.ScanRequest{InclusiveSeek: c.IncS, InclusiveEnd: c.IncE, Desc: c.Desc, Limit: c.Limit, SinceTx: c.Since}
		if c.Seek >= 0 {
			req.SeekKey = keyB(uint64(c.Seek))
		}
		if c.End >= 0 {
			req.EndKey = keyB(uint64(c.End))
		}
		es, err := d.Scan(ctx, req)
		if err != nil {
			return classify(err)
		}
		out := []REntry{}
		for _, e := range es.Entries {
			out = append(out, rentry(e))
		}
		return Result{Kind: "entries", Entries: out}
	case "zscan":
		zs, err := d.ZScan(ctx, &schema.ZScanRequest{Set: setB(c.Set), Desc: c.Desc, Limit: c.Limit, SinceTx: c.Since})
		if err != nil {
			return classify(err)
		}
		out := []ZEntry{}
		for _, z := range zs.Entries {
			out = append(out, ZEntry{Score: uint64(z.Score), At: z.AtTx, E: rentry(z.Entry)})
		}
		return Result{Kind: "z", Z: out}
	case "hist":
		es, err := d.History(ctx, &schema.HistoryRequest{Key: keyB(c.K), Offset: c.Offset, Desc: c.Desc, Limit: int32(c.Limit), SinceTx: c.Since})
		if err != nil {
			return classify(err)
		}
		out := []HEntry{}
		for _, e := range es.Entries {
			h := HEntry{Tx: e.Tx, Rev: e.Revision}
			switch {
			case e.Metadata != nil && e.Metadata.Deleted:
				h.E = Entry{Kind: EDel, K: c.K}
			case len(e.Value) == 10 && e.Value[0] == 0:
				// reference payload (value prefix trimmed): atTx (8 bytes) ++ prefixed key
				h.E = Entry{Kind: ERef, K: c.K, At: binary.BigEndian.Uint64(e.Value[:8]), RK: uint64(e.Value[9] - 'a')}
			default:
				h.E = Entry{Kind: EKv, K: c.K, V: valN(e.Value)}
			}
			out = append(out, h)
		}
		return Result{Kind: "hist", Hist: out}
	case "count":
		n, err := d.Count(ctx, &schema.KeyPrefix{})
		if err != nil {
			return classify(err)
		}
		return Result{Kind: "count", Count: n.Count}
	}
	panic("unknown call " + c.Kind)
}
