package c18

import (
	"bytes"
	"context"
	"fmt"
	"io"
	"strings"

	"github.com/codenotary/immudb/pkg/api/protomodel"
	"github.com/codenotary/immudb/pkg/api/schema"
	"github.com/codenotary/immudb/pkg/auth"
	"github.com/codenotary/immudb/pkg/stream"
	"google.golang.org/grpc/codes"
	"google.golang.org/grpc/metadata"
	"google.golang.org/grpc/status"
	"google.golang.org/protobuf/types/known/emptypb"
	"google.golang.org/protobuf/types/known/structpb"
)

// specification classes (the harness' copy of Auth/Policy.v `class`; kept equal by the CSpec cases)
const (
	clPublic = iota
	clCred
	clSelect
	clSession
	clRead
	clWrite
	clAdminSel
	clAdminTgt
	clAdminAny
	clSysAdmin
)

var classNames = []string{"public", "cred", "select", "session", "read", "write", "admin-selected-db", "admin-named-db", "admin-any-db", "sysadmin"}

// one request: the credential metadata of the cell and the names the request refers to
type call struct {
	e      *env
	md     metadata.MD // credential headers (nil = none)
	user   string      // user of the cell (Login / OpenSession carry its name and password)
	tgt    string      // database named in the request
	victim string      // user that user-administration requests act upon
}

type driver struct {
	svc, name string
	class     int
	mutates   bool // changes the selected database when it goes through
	dbmgmt    bool // database life-cycle / settings of the named database
	late      int  // >0: runs at the end of a context (disturbs the credential / the login list)
	needsDB   bool // request names a database (tgt)
	run       func(c *call) error
	// RPCs that serve several requests on one stream: two requests on ONE stream, `between` runs
	// after the first answer was read completely; returns the outcome of each request
	multi func(c *call, between func()) (error, error)
}

func (c *call) ctx() (context.Context, context.CancelFunc) { return ctxWith(c.md) }

var empty = &emptypb.Empty{}
var sf = stream.NewStreamServiceFactory(64 * 1024)

func kv(k, v string) *schema.KeyValue { return &schema.KeyValue{Key: []byte(k), Value: []byte(v)} }

func skv(k, v string) *stream.KeyValue {
	return &stream.KeyValue{
		Key:   &stream.ValueSize{Content: bytes.NewReader([]byte(k)), Size: len(k)},
		Value: &stream.ValueSize{Content: bytes.NewReader([]byte(v)), Size: len(v)}}
}

func docQuery(n float64) *protomodel.Query {
	return &protomodel.Query{CollectionName: collName, Expressions: []*protomodel.QueryExpression{{
		FieldComparisons: []*protomodel.FieldComparison{{Field: "n", Operator: protomodel.ComparisonOperator_EQ, Value: structpb.NewNumberValue(n)}}}}}
}

type recver interface{ RecvMsg(m interface{}) error }

// drain reads a server stream to its end; the status of the RPC is the first non-EOF error
func drain(recv func() error) error {
	for i := 0; i < 10000; i++ {
		if err := recv(); err != nil {
			if err == io.EOF {
				return nil
			}
			return err
		}
	}
	return nil
}

// transaction helpers: NewTx on the cell's credential; the id travels in the "transactionid" header
func (c *call) newTx() (string, error) {
	ctx, cancel := c.ctx()
	defer cancel()
	r, err := c.e.immu.NewTx(ctx, &schema.NewTxRequest{Mode: schema.TxMode_ReadWrite})
	if err != nil {
		return "", err
	}
	return r.TransactionID, nil
}

func (c *call) txCtx(id string) (context.Context, context.CancelFunc) {
	if id == "" {
		id = "c18-no-such-transaction"
	}
	md := metadata.MD{}
	if c.md != nil {
		md = c.md.Copy()
	}
	md.Set("transactionid", id)
	return ctxWith(md)
}

const insertStmt = "INSERT INTO " + tableName + "(v) VALUES (2)"
const selectStmt = "SELECT id FROM " + tableName + " LIMIT 1"

func drivers() []driver {
	I, D, A := "ImmuService", "DocumentService", "AuthorizationService"
	ds := []driver{
		// ---------------- AuthorizationService
		{svc: A, name: "OpenSession", class: clCred, late: 1, needsDB: true, run: func(c *call) error {
			ctx, cancel := c.ctx()
			defer cancel()
			r, err := c.e.authz.OpenSession(ctx, &protomodel.OpenSessionRequest{Username: c.user, Password: passOf(c.user), Database: c.tgt})
			if err == nil {
				c.e.closeSession(metadata.Pairs("sessionid", r.SessionID))
			}
			return err
		}},
		{svc: A, name: "KeepAlive", class: clSession, run: func(c *call) error {
			ctx, cancel := c.ctx()
			defer cancel()
			_, err := c.e.authz.KeepAlive(ctx, &protomodel.KeepAliveRequest{})
			return err
		}},
		{svc: A, name: "CloseSession", class: clSession, late: 3, run: func(c *call) error {
			ctx, cancel := c.ctx()
			defer cancel()
			_, err := c.e.authz.CloseSession(ctx, &protomodel.CloseSessionRequest{})
			return err
		}},
		// ---------------- DocumentService
		{svc: D, name: "CreateCollection", class: clWrite, mutates: true, run: func(c *call) error {
			ctx, cancel := c.ctx()
			defer cancel()
			c.e.seq++
			_, err := c.e.doc.CreateCollection(ctx, &protomodel.CreateCollectionRequest{Name: fmt.Sprintf("c18c%d", c.e.seq)})
			return err
		}},
		{svc: D, name: "GetCollections", class: clRead, run: func(c *call) error {
			ctx, cancel := c.ctx()
			defer cancel()
			_, err := c.e.doc.GetCollections(ctx, &protomodel.GetCollectionsRequest{})
			return err
		}},
		{svc: D, name: "GetCollection", class: clRead, run: func(c *call) error {
			ctx, cancel := c.ctx()
			defer cancel()
			_, err := c.e.doc.GetCollection(ctx, &protomodel.GetCollectionRequest{Name: collName})
			return err
		}},
		{svc: D, name: "UpdateCollection", class: clWrite, mutates: true, run: func(c *call) error {
			ctx, cancel := c.ctx()
			defer cancel()
			_, err := c.e.doc.UpdateCollection(ctx, &protomodel.UpdateCollectionRequest{Name: collName})
			return err
		}},
		{svc: D, name: "DeleteCollection", class: clWrite, mutates: true, run: func(c *call) error {
			ctx, cancel := c.ctx()
			defer cancel()
			_, err := c.e.doc.DeleteCollection(ctx, &protomodel.DeleteCollectionRequest{Name: "c18nosuchcollection"})
			return err
		}},
		{svc: D, name: "AddField", class: clWrite, mutates: true, run: func(c *call) error {
			ctx, cancel := c.ctx()
			defer cancel()
			c.e.seq++
			_, err := c.e.doc.AddField(ctx, &protomodel.AddFieldRequest{CollectionName: collName,
				Field: &protomodel.Field{Name: fmt.Sprintf("f%d", c.e.seq), Type: protomodel.FieldType_INTEGER}})
			return err
		}},
		{svc: D, name: "RemoveField", class: clWrite, mutates: true, run: func(c *call) error {
			ctx, cancel := c.ctx()
			defer cancel()
			_, err := c.e.doc.RemoveField(ctx, &protomodel.RemoveFieldRequest{CollectionName: collName, FieldName: "c18nosuchfield"})
			return err
		}},
		{svc: D, name: "CreateIndex", class: clWrite, mutates: true, run: func(c *call) error {
			ctx, cancel := c.ctx()
			defer cancel()
			_, err := c.e.doc.CreateIndex(ctx, &protomodel.CreateIndexRequest{CollectionName: collName, Fields: []string{"n"}})
			return err
		}},
		{svc: D, name: "DeleteIndex", class: clWrite, mutates: true, run: func(c *call) error {
			ctx, cancel := c.ctx()
			defer cancel()
			_, err := c.e.doc.DeleteIndex(ctx, &protomodel.DeleteIndexRequest{CollectionName: collName, Fields: []string{"c18nosuchfield"}})
			return err
		}},
		{svc: D, name: "InsertDocuments", class: clWrite, mutates: true, run: func(c *call) error {
			ctx, cancel := c.ctx()
			defer cancel()
			d, _ := structpb.NewStruct(map[string]interface{}{"n": 2})
			_, err := c.e.doc.InsertDocuments(ctx, &protomodel.InsertDocumentsRequest{CollectionName: collName, Documents: []*structpb.Struct{d}})
			return err
		}},
		{svc: D, name: "ReplaceDocuments", class: clWrite, mutates: true, run: func(c *call) error {
			ctx, cancel := c.ctx()
			defer cancel()
			d, _ := structpb.NewStruct(map[string]interface{}{"n": 1})
			_, err := c.e.doc.ReplaceDocuments(ctx, &protomodel.ReplaceDocumentsRequest{Query: docQuery(1), Document: d})
			return err
		}},
		{svc: D, name: "DeleteDocuments", class: clWrite, mutates: true, run: func(c *call) error {
			ctx, cancel := c.ctx()
			defer cancel()
			_, err := c.e.doc.DeleteDocuments(ctx, &protomodel.DeleteDocumentsRequest{Query: docQuery(2)})
			return err
		}},
		{svc: D, name: "SearchDocuments", class: clRead, run: func(c *call) error {
			ctx, cancel := c.ctx()
			defer cancel()
			_, err := c.e.doc.SearchDocuments(ctx, &protomodel.SearchDocumentsRequest{Query: docQuery(1), Page: 1, PageSize: 1})
			return err
		}},
		{svc: D, name: "CountDocuments", class: clRead, run: func(c *call) error {
			ctx, cancel := c.ctx()
			defer cancel()
			_, err := c.e.doc.CountDocuments(ctx, &protomodel.CountDocumentsRequest{Query: docQuery(1)})
			return err
		}},
		{svc: D, name: "AuditDocument", class: clRead, run: func(c *call) error {
			ctx, cancel := c.ctx()
			defer cancel()
			_, err := c.e.doc.AuditDocument(ctx, &protomodel.AuditDocumentRequest{CollectionName: collName, DocumentId: c.e.docID, Page: 1, PageSize: 1})
			return err
		}},
		{svc: D, name: "ProofDocument", class: clRead, run: func(c *call) error {
			ctx, cancel := c.ctx()
			defer cancel()
			_, err := c.e.doc.ProofDocument(ctx, &protomodel.ProofDocumentRequest{CollectionName: collName, DocumentId: c.e.docID})
			return err
		}},
		// ---------------- ImmuService: users
		{svc: I, name: "ListUsers", class: clSession, run: func(c *call) error {
			ctx, cancel := c.ctx()
			defer cancel()
			_, err := c.e.immu.ListUsers(ctx, empty)
			return err
		}},
		{svc: I, name: "CreateUser", class: clAdminTgt, needsDB: true, run: func(c *call) error {
			ctx, cancel := c.ctx()
			defer cancel()
			_, err := c.e.immu.CreateUser(ctx, &schema.CreateUserRequest{User: []byte(c.victim), Password: []byte(userPass), Permission: auth.PermissionR, Database: c.tgt})
			return err
		}},
		{svc: I, name: "ChangePassword", class: clAdminAny, run: func(c *call) error {
			ctx, cancel := c.ctx()
			defer cancel()
			_, err := c.e.immu.ChangePassword(ctx, &schema.ChangePasswordRequest{User: []byte(c.victim), OldPassword: []byte(userPass), NewPassword: []byte(userPass)})
			return err
		}},
		{svc: I, name: "ChangePermission", class: clAdminTgt, needsDB: true, run: func(c *call) error {
			ctx, cancel := c.ctx()
			defer cancel()
			_, err := c.e.immu.ChangePermission(ctx, &schema.ChangePermissionRequest{Action: schema.PermissionAction_GRANT, Username: c.victim, Database: c.tgt, Permission: auth.PermissionR})
			return err
		}},
		{svc: I, name: "ChangeSQLPrivileges", class: clAdminTgt, needsDB: true, run: func(c *call) error {
			ctx, cancel := c.ctx()
			defer cancel()
			_, err := c.e.immu.ChangeSQLPrivileges(ctx, &schema.ChangeSQLPrivilegesRequest{Action: schema.PermissionAction_GRANT, Username: c.victim, Database: c.tgt, Privileges: []string{"SELECT"}})
			return err
		}},
		{svc: I, name: "SetActiveUser", class: clAdminAny, run: func(c *call) error {
			ctx, cancel := c.ctx()
			defer cancel()
			_, err := c.e.immu.SetActiveUser(ctx, &schema.SetActiveUserRequest{Username: c.victim, Active: true})
			return err
		}},
		{svc: I, name: "UpdateAuthConfig", class: clSysAdmin, run: func(c *call) error {
			ctx, cancel := c.ctx()
			defer cancel()
			_, err := c.e.immu.UpdateAuthConfig(ctx, &schema.AuthConfig{})
			return err
		}},
		{svc: I, name: "UpdateMTLSConfig", class: clSysAdmin, run: func(c *call) error {
			ctx, cancel := c.ctx()
			defer cancel()
			_, err := c.e.immu.UpdateMTLSConfig(ctx, &schema.MTLSConfig{})
			return err
		}},
		// ---------------- sessions / login
		{svc: I, name: "OpenSession", class: clCred, late: 1, needsDB: true, run: func(c *call) error {
			ctx, cancel := c.ctx()
			defer cancel()
			r, err := c.e.immu.OpenSession(ctx, &schema.OpenSessionRequest{Username: []byte(c.user), Password: []byte(passOf(c.user)), DatabaseName: c.tgt})
			if err == nil {
				c.e.closeSession(metadata.Pairs("sessionid", r.SessionID))
			}
			return err
		}},
		{svc: I, name: "CloseSession", class: clSession, late: 3, run: func(c *call) error {
			ctx, cancel := c.ctx()
			defer cancel()
			_, err := c.e.immu.CloseSession(ctx, empty)
			return err
		}},
		{svc: I, name: "KeepAlive", class: clSession, run: func(c *call) error {
			ctx, cancel := c.ctx()
			defer cancel()
			_, err := c.e.immu.KeepAlive(ctx, empty)
			return err
		}},
		{svc: I, name: "NewTx", class: clSession, run: func(c *call) error {
			id, err := c.newTx()
			if err == nil {
				ctx, cancel := c.txCtx(id)
				c.e.immu.Rollback(ctx, empty)
				cancel()
			}
			return err
		}},
		{svc: I, name: "Commit", class: clSession, run: func(c *call) error {
			id, _ := c.newTx()
			ctx, cancel := c.txCtx(id)
			defer cancel()
			if id != "" {
				c.e.immu.TxSQLExec(ctx, &schema.SQLExecRequest{Sql: insertStmt})
			}
			_, err := c.e.immu.Commit(ctx, empty)
			return err
		}},
		{svc: I, name: "Rollback", class: clSession, run: func(c *call) error {
			id, _ := c.newTx()
			ctx, cancel := c.txCtx(id)
			defer cancel()
			_, err := c.e.immu.Rollback(ctx, empty)
			return err
		}},
		{svc: I, name: "TxSQLExec", class: clWrite, mutates: true, run: func(c *call) error {
			id, _ := c.newTx()
			ctx, cancel := c.txCtx(id)
			defer cancel()
			_, err := c.e.immu.TxSQLExec(ctx, &schema.SQLExecRequest{Sql: insertStmt})
			if id != "" {
				if err == nil {
					c.e.immu.Commit(ctx, empty)
				} else {
					c.e.immu.Rollback(ctx, empty)
				}
			}
			return err
		}},
		{svc: I, name: "TxSQLQuery", class: clRead, run: func(c *call) error {
			id, _ := c.newTx()
			ctx, cancel := c.txCtx(id)
			defer cancel()
			s, err := c.e.immu.TxSQLQuery(ctx, &schema.SQLQueryRequest{Sql: selectStmt})
			if err == nil {
				err = drain(func() error { _, e := s.Recv(); return e })
			}
			if id != "" {
				c.e.immu.Rollback(ctx, empty)
			}
			return err
		}},
		{svc: I, name: "Login", class: clCred, late: 2, run: func(c *call) error {
			ctx, cancel := c.ctx()
			defer cancel()
			r, err := c.e.immu.Login(ctx, &schema.LoginRequest{User: []byte(c.user), Password: []byte(passOf(c.user))})
			if err == nil {
				c.e.logout(metadata.Pairs("authorization", r.Token))
			}
			return err
		}},
		{svc: I, name: "Logout", class: clSession, late: 4, run: func(c *call) error {
			ctx, cancel := c.ctx()
			defer cancel()
			_, err := c.e.immu.Logout(ctx, empty)
			return err
		}},
		// ---------------- key-value
		{svc: I, name: "Set", class: clWrite, mutates: true, run: func(c *call) error {
			ctx, cancel := c.ctx()
			defer cancel()
			_, err := c.e.immu.Set(ctx, &schema.SetRequest{KVs: []*schema.KeyValue{kv("c18k", "v")}})
			return err
		}},
		{svc: I, name: "VerifiableSet", class: clWrite, mutates: true, run: func(c *call) error {
			ctx, cancel := c.ctx()
			defer cancel()
			_, err := c.e.immu.VerifiableSet(ctx, &schema.VerifiableSetRequest{SetRequest: &schema.SetRequest{KVs: []*schema.KeyValue{kv("c18k", "v")}}, ProveSinceTx: 1})
			return err
		}},
		{svc: I, name: "Get", class: clRead, run: func(c *call) error {
			ctx, cancel := c.ctx()
			defer cancel()
			_, err := c.e.immu.Get(ctx, &schema.KeyRequest{Key: []byte("k")})
			return err
		}},
		{svc: I, name: "VerifiableGet", class: clRead, run: func(c *call) error {
			ctx, cancel := c.ctx()
			defer cancel()
			_, err := c.e.immu.VerifiableGet(ctx, &schema.VerifiableGetRequest{KeyRequest: &schema.KeyRequest{Key: []byte("k")}, ProveSinceTx: 1})
			return err
		}},
		{svc: I, name: "Delete", class: clWrite, mutates: true, run: func(c *call) error {
			ctx, cancel := c.ctx()
			defer cancel()
			_, err := c.e.immu.Delete(ctx, &schema.DeleteKeysRequest{Keys: [][]byte{[]byte("k2")}})
			return err
		}},
		{svc: I, name: "GetAll", class: clRead, run: func(c *call) error {
			ctx, cancel := c.ctx()
			defer cancel()
			_, err := c.e.immu.GetAll(ctx, &schema.KeyListRequest{Keys: [][]byte{[]byte("k")}})
			return err
		}},
		{svc: I, name: "ExecAll", class: clWrite, mutates: true, run: func(c *call) error {
			ctx, cancel := c.ctx()
			defer cancel()
			_, err := c.e.immu.ExecAll(ctx, &schema.ExecAllRequest{Operations: []*schema.Op{{Operation: &schema.Op_Kv{Kv: kv("c18k", "v")}}}})
			return err
		}},
		{svc: I, name: "Scan", class: clRead, run: func(c *call) error {
			ctx, cancel := c.ctx()
			defer cancel()
			_, err := c.e.immu.Scan(ctx, &schema.ScanRequest{Prefix: []byte("k"), Limit: 1})
			return err
		}},
		{svc: I, name: "Count", class: clRead, run: func(c *call) error {
			ctx, cancel := c.ctx()
			defer cancel()
			_, err := c.e.immu.Count(ctx, &schema.KeyPrefix{Prefix: []byte("k")})
			return err
		}},
		{svc: I, name: "CountAll", class: clRead, run: func(c *call) error {
			ctx, cancel := c.ctx()
			defer cancel()
			_, err := c.e.immu.CountAll(ctx, empty)
			return err
		}},
		{svc: I, name: "TxById", class: clRead, run: func(c *call) error {
			ctx, cancel := c.ctx()
			defer cancel()
			_, err := c.e.immu.TxById(ctx, &schema.TxRequest{Tx: 1})
			return err
		}},
		{svc: I, name: "VerifiableTxById", class: clRead, run: func(c *call) error {
			ctx, cancel := c.ctx()
			defer cancel()
			_, err := c.e.immu.VerifiableTxById(ctx, &schema.VerifiableTxRequest{Tx: 1, ProveSinceTx: 1})
			return err
		}},
		{svc: I, name: "TxScan", class: clRead, run: func(c *call) error {
			ctx, cancel := c.ctx()
			defer cancel()
			_, err := c.e.immu.TxScan(ctx, &schema.TxScanRequest{InitialTx: 1, Limit: 1})
			return err
		}},
		{svc: I, name: "History", class: clRead, run: func(c *call) error {
			ctx, cancel := c.ctx()
			defer cancel()
			_, err := c.e.immu.History(ctx, &schema.HistoryRequest{Key: []byte("k"), Limit: 1})
			return err
		}},
		{svc: I, name: "ServerInfo", class: clPublic, run: func(c *call) error {
			ctx, cancel := c.ctx()
			defer cancel()
			_, err := c.e.immu.ServerInfo(ctx, &schema.ServerInfoRequest{})
			return err
		}},
		{svc: I, name: "Health", class: clPublic, run: func(c *call) error {
			ctx, cancel := c.ctx()
			defer cancel()
			_, err := c.e.immu.Health(ctx, empty)
			return err
		}},
		{svc: I, name: "DatabaseHealth", class: clRead, run: func(c *call) error {
			ctx, cancel := c.ctx()
			defer cancel()
			_, err := c.e.immu.DatabaseHealth(ctx, empty)
			return err
		}},
		{svc: I, name: "CurrentState", class: clRead, run: func(c *call) error {
			ctx, cancel := c.ctx()
			defer cancel()
			_, err := c.e.immu.CurrentState(ctx, empty)
			return err
		}},
		{svc: I, name: "SetReference", class: clWrite, mutates: true, run: func(c *call) error {
			ctx, cancel := c.ctx()
			defer cancel()
			_, err := c.e.immu.SetReference(ctx, &schema.ReferenceRequest{Key: []byte("c18ref"), ReferencedKey: []byte("k")})
			return err
		}},
		{svc: I, name: "VerifiableSetReference", class: clWrite, mutates: true, run: func(c *call) error {
			ctx, cancel := c.ctx()
			defer cancel()
			_, err := c.e.immu.VerifiableSetReference(ctx, &schema.VerifiableReferenceRequest{ReferenceRequest: &schema.ReferenceRequest{Key: []byte("c18ref"), ReferencedKey: []byte("k")}, ProveSinceTx: 1})
			return err
		}},
		{svc: I, name: "ZAdd", class: clWrite, mutates: true, run: func(c *call) error {
			ctx, cancel := c.ctx()
			defer cancel()
			_, err := c.e.immu.ZAdd(ctx, &schema.ZAddRequest{Set: []byte("c18z"), Score: 1, Key: []byte("k")})
			return err
		}},
		{svc: I, name: "VerifiableZAdd", class: clWrite, mutates: true, run: func(c *call) error {
			ctx, cancel := c.ctx()
			defer cancel()
			_, err := c.e.immu.VerifiableZAdd(ctx, &schema.VerifiableZAddRequest{ZAddRequest: &schema.ZAddRequest{Set: []byte("c18z"), Score: 1, Key: []byte("k")}, ProveSinceTx: 1})
			return err
		}},
		{svc: I, name: "ZScan", class: clRead, run: func(c *call) error {
			ctx, cancel := c.ctx()
			defer cancel()
			_, err := c.e.immu.ZScan(ctx, &schema.ZScanRequest{Set: []byte("c18z"), Limit: 1})
			return err
		}},
		// ---------------- databases
		{svc: I, name: "CreateDatabase", class: clSysAdmin, needsDB: true, run: func(c *call) error {
			ctx, cancel := c.ctx()
			defer cancel()
			_, err := c.e.immu.CreateDatabase(ctx, &schema.Database{DatabaseName: c.tgt})
			return err
		}},
		{svc: I, name: "CreateDatabaseWith", class: clSysAdmin, needsDB: true, run: func(c *call) error {
			ctx, cancel := c.ctx()
			defer cancel()
			_, err := c.e.immu.CreateDatabaseWith(ctx, &schema.DatabaseSettings{DatabaseName: c.tgt})
			return err
		}},
		{svc: I, name: "CreateDatabaseV2", class: clSysAdmin, needsDB: true, run: func(c *call) error {
			ctx, cancel := c.ctx()
			defer cancel()
			_, err := c.e.immu.CreateDatabaseV2(ctx, &schema.CreateDatabaseRequest{Name: c.tgt})
			return err
		}},
		{svc: I, name: "LoadDatabase", class: clAdminTgt, dbmgmt: true, needsDB: true, run: func(c *call) error {
			ctx, cancel := c.ctx()
			defer cancel()
			_, err := c.e.immu.LoadDatabase(ctx, &schema.LoadDatabaseRequest{Database: c.tgt})
			return err
		}},
		{svc: I, name: "UnloadDatabase", class: clAdminTgt, dbmgmt: true, needsDB: true, run: func(c *call) error {
			ctx, cancel := c.ctx()
			defer cancel()
			_, err := c.e.immu.UnloadDatabase(ctx, &schema.UnloadDatabaseRequest{Database: c.tgt})
			return err
		}},
		{svc: I, name: "DeleteDatabase", class: clAdminTgt, dbmgmt: true, needsDB: true, run: func(c *call) error {
			ctx, cancel := c.ctx()
			defer cancel()
			_, err := c.e.immu.DeleteDatabase(ctx, &schema.DeleteDatabaseRequest{Database: c.tgt})
			return err
		}},
		{svc: I, name: "DatabaseList", class: clSession, run: func(c *call) error {
			ctx, cancel := c.ctx()
			defer cancel()
			_, err := c.e.immu.DatabaseList(ctx, empty)
			return err
		}},
		{svc: I, name: "DatabaseListV2", class: clSession, run: func(c *call) error {
			ctx, cancel := c.ctx()
			defer cancel()
			_, err := c.e.immu.DatabaseListV2(ctx, &schema.DatabaseListRequestV2{})
			return err
		}},
		{svc: I, name: "UseDatabase", class: clSelect, needsDB: true, run: func(c *call) error {
			ctx, cancel := c.ctx()
			defer cancel()
			_, err := c.e.immu.UseDatabase(ctx, &schema.Database{DatabaseName: c.tgt})
			return err
		}},
		{svc: I, name: "UpdateDatabase", class: clAdminTgt, dbmgmt: true, needsDB: true, run: func(c *call) error {
			ctx, cancel := c.ctx()
			defer cancel()
			_, err := c.e.immu.UpdateDatabase(ctx, &schema.DatabaseSettings{DatabaseName: c.tgt})
			return err
		}},
		{svc: I, name: "UpdateDatabaseV2", class: clAdminTgt, dbmgmt: true, needsDB: true, run: func(c *call) error {
			ctx, cancel := c.ctx()
			defer cancel()
			_, err := c.e.immu.UpdateDatabaseV2(ctx, &schema.UpdateDatabaseRequest{Database: c.tgt, Settings: &schema.DatabaseNullableSettings{}})
			return err
		}},
		{svc: I, name: "GetDatabaseSettings", class: clRead, run: func(c *call) error {
			ctx, cancel := c.ctx()
			defer cancel()
			_, err := c.e.immu.GetDatabaseSettings(ctx, empty)
			return err
		}},
		{svc: I, name: "GetDatabaseSettingsV2", class: clRead, run: func(c *call) error {
			ctx, cancel := c.ctx()
			defer cancel()
			_, err := c.e.immu.GetDatabaseSettingsV2(ctx, &schema.DatabaseSettingsRequest{})
			return err
		}},
		{svc: I, name: "FlushIndex", class: clAdminSel, run: func(c *call) error {
			ctx, cancel := c.ctx()
			defer cancel()
			_, err := c.e.immu.FlushIndex(ctx, &schema.FlushIndexRequest{CleanupPercentage: 0, Synced: false})
			return err
		}},
		{svc: I, name: "CompactIndex", class: clAdminSel, run: func(c *call) error {
			ctx, cancel := c.ctx()
			defer cancel()
			_, err := c.e.immu.CompactIndex(ctx, empty)
			return err
		}},
		{svc: I, name: "TruncateDatabase", class: clAdminTgt, dbmgmt: true, needsDB: true, run: func(c *call) error {
			ctx, cancel := c.ctx()
			defer cancel()
			_, err := c.e.immu.TruncateDatabase(ctx, &schema.TruncateDatabaseRequest{Database: c.tgt, RetentionPeriod: -1})
			return err
		}},
		// ---------------- SQL
		{svc: I, name: "SQLExec", class: clWrite, mutates: true, run: func(c *call) error {
			ctx, cancel := c.ctx()
			defer cancel()
			_, err := c.e.immu.SQLExec(ctx, &schema.SQLExecRequest{Sql: insertStmt})
			return err
		}},
		{svc: I, name: "UnarySQLQuery", class: clRead, run: func(c *call) error {
			ctx, cancel := c.ctx()
			defer cancel()
			_, err := c.e.immu.UnarySQLQuery(ctx, &schema.SQLQueryRequest{Sql: selectStmt})
			return err
		}},
		{svc: I, name: "SQLQuery", class: clRead, run: func(c *call) error {
			ctx, cancel := c.ctx()
			defer cancel()
			s, err := c.e.immu.SQLQuery(ctx, &schema.SQLQueryRequest{Sql: selectStmt})
			if err != nil {
				return err
			}
			return drain(func() error { _, e := s.Recv(); return e })
		}},
		{svc: I, name: "ListTables", class: clRead, run: func(c *call) error {
			ctx, cancel := c.ctx()
			defer cancel()
			_, err := c.e.immu.ListTables(ctx, empty)
			return err
		}},
		{svc: I, name: "DescribeTable", class: clRead, run: func(c *call) error {
			ctx, cancel := c.ctx()
			defer cancel()
			_, err := c.e.immu.DescribeTable(ctx, &schema.Table{TableName: tableName})
			return err
		}},
		{svc: I, name: "VerifiableSQLGet", class: clRead, run: func(c *call) error {
			ctx, cancel := c.ctx()
			defer cancel()
			_, err := c.e.immu.VerifiableSQLGet(ctx, &schema.VerifiableSQLGetRequest{
				SqlGetRequest: &schema.SQLGetRequest{Table: tableName, PkValues: []*schema.SQLValue{{Value: &schema.SQLValue_N{N: 1}}}}, ProveSinceTx: 1})
			return err
		}},
		// ---------------- streams
		{svc: I, name: "streamGet", class: clRead, run: func(c *call) error {
			ctx, cancel := c.ctx()
			defer cancel()
			s, err := c.e.immu.StreamGet(ctx, &schema.KeyRequest{Key: []byte("k")})
			if err != nil {
				return err
			}
			return drain(func() error { _, e := s.Recv(); return e })
		}},
		{svc: I, name: "streamSet", class: clWrite, mutates: true, run: func(c *call) error {
			ctx, cancel := c.ctx()
			defer cancel()
			s, err := c.e.immu.StreamSet(ctx)
			if err != nil {
				return err
			}
			sf.NewKvStreamSender(sf.NewMsgSender(s)).Send(skv("c18k", "v"))
			_, err = s.CloseAndRecv()
			return err
		}},
		{svc: I, name: "streamVerifiableGet", class: clRead, run: func(c *call) error {
			ctx, cancel := c.ctx()
			defer cancel()
			s, err := c.e.immu.StreamVerifiableGet(ctx, &schema.VerifiableGetRequest{KeyRequest: &schema.KeyRequest{Key: []byte("k")}, ProveSinceTx: 1})
			if err != nil {
				return err
			}
			return drain(func() error { _, e := s.Recv(); return e })
		}},
		{svc: I, name: "streamVerifiableSet", class: clWrite, mutates: true, run: func(c *call) error {
			ctx, cancel := c.ctx()
			defer cancel()
			s, err := c.e.immu.StreamVerifiableSet(ctx)
			if err != nil {
				return err
			}
			ms := sf.NewMsgSender(s)
			one, _ := stream.NumberToBytes(uint64(1))
			ms.Send(bytes.NewBuffer(one), len(one), nil)
			sf.NewKvStreamSender(ms).Send(skv("c18k", "v"))
			_, err = s.CloseAndRecv()
			return err
		}},
		{svc: I, name: "streamScan", class: clRead, run: func(c *call) error {
			ctx, cancel := c.ctx()
			defer cancel()
			s, err := c.e.immu.StreamScan(ctx, &schema.ScanRequest{Prefix: []byte("k"), Limit: 1})
			if err != nil {
				return err
			}
			return drain(func() error { _, e := s.Recv(); return e })
		}},
		{svc: I, name: "streamZScan", class: clRead, run: func(c *call) error {
			ctx, cancel := c.ctx()
			defer cancel()
			s, err := c.e.immu.StreamZScan(ctx, &schema.ZScanRequest{Set: []byte("c18z"), Limit: 1})
			if err != nil {
				return err
			}
			return drain(func() error { _, e := s.Recv(); return e })
		}},
		{svc: I, name: "streamHistory", class: clRead, run: func(c *call) error {
			ctx, cancel := c.ctx()
			defer cancel()
			s, err := c.e.immu.StreamHistory(ctx, &schema.HistoryRequest{Key: []byte("k"), Limit: 1})
			if err != nil {
				return err
			}
			return drain(func() error { _, e := s.Recv(); return e })
		}},
		{svc: I, name: "streamExecAll", class: clWrite, mutates: true, run: func(c *call) error {
			ctx, cancel := c.ctx()
			defer cancel()
			s, err := c.e.immu.StreamExecAll(ctx)
			if err != nil {
				return err
			}
			sf.NewExecAllStreamSender(sf.NewMsgSender(s)).Send(&stream.ExecAllRequest{Operations: []*stream.Op{{Operation: &stream.Op_KeyValue{KeyValue: skv("c18k", "v")}}}})
			_, err = s.CloseAndRecv()
			return err
		}},
		{svc: I, name: "exportTx", class: clAdminSel, run: func(c *call) error {
			ctx, cancel := c.ctx()
			defer cancel()
			s, err := c.e.immu.ExportTx(ctx, &schema.ExportTxRequest{Tx: 1})
			if err != nil {
				return err
			}
			return drain(func() error { _, e := s.Recv(); return e })
		}},
		{svc: I, name: "replicateTx", class: clAdminSel, mutates: true, run: func(c *call) error {
			ctx, cancel := c.ctx()
			defer cancel()
			s, err := c.e.immu.ReplicateTx(ctx)
			if err != nil {
				return err
			}
			junk := []byte("c18: not an exported transaction")
			sf.NewMsgSender(s).Send(bytes.NewReader(junk), len(junk), nil)
			_, err = s.CloseAndRecv()
			return err
		}},
		{svc: I, name: "streamExportTx", class: clAdminSel, run: func(c *call) error {
			ctx, cancel := c.ctx()
			defer cancel()
			s, err := c.e.immu.StreamExportTx(ctx)
			if err != nil {
				return err
			}
			s.Send(&schema.ExportTxRequest{Tx: 1})
			// one exported transaction = a sequence of chunks; read the first, then hang up
			_, err = s.Recv()
			s.CloseSend()
			if err == io.EOF {
				err = nil
			}
			return err
		}, multi: func(c *call, between func()) (error, error) {
			ctx, cancel := c.ctx()
			defer cancel()
			s, err := c.e.immu.StreamExportTx(ctx)
			if err != nil {
				return err, err
			}
			request := func() error {
				if err := s.Send(&schema.ExportTxRequest{Tx: 1}); err != nil && err != io.EOF {
					return err
				}
				_, _, err := sf.NewMsgReceiver(s).ReadFully() // the whole exported transaction, or the stream's status
				return err
			}
			e1 := request()
			between()
			e2 := request()
			s.CloseSend()
			return e1, e2
		}},
	}
	return ds
}

func passOf(user string) string {
	if user == sysUser {
		return sysPass
	}
	return userPass
}

// ---------------------------------------------------------------- outcome classification

// Outcome classes: "ok" (no error), "refused" (the server refused the call because of who is asking
// or because a configuration guard forbids the operation), "other" (argument / state error raised
// by the operation itself).  gRPC codes PermissionDenied and Unauthenticated are refusals; immudb
// returns several refusals as plain errors, recognised by their fixed texts below.
var refusalTexts = []string{
	"permission denied",
	"access denied", // embedded/sql ErrAccessDenied
	"not logged in",
	"please login",
	"please select a database first",
	"please select database first",
	"session not found",
	"no session found",
	"no session auth data provided",
	"no sessionid provided",
	"token has expired",
	"invalid token",
	"could not get loggedin user data",
	"does not have permissions for this operation",
	"does not have permission on this database",
	"you do not have permission on this database",
	"you do not have admin permission on this database",
	"user is not system admin nor admin in any of the databases",
	"user is not active",
	"invalid user name or password",
	// configuration guards
	"operation not allowed in maintenance mode",
	"authentication must be on",
	"this command is available only with authentication on",
	"server is running with authentication disabled",
	"database is reserved",
	"operation not supported",
}

func classifyErr(err error) (class, text string) {
	if err == nil {
		return "ok", ""
	}
	st, _ := status.FromError(err)
	msg := err.Error()
	code := codes.Unknown
	if st != nil {
		msg, code = st.Message(), st.Code()
	}
	text = fmt.Sprintf("%s: %s", code, msg)
	if code == codes.PermissionDenied || code == codes.Unauthenticated {
		return "refused", text
	}
	low := strings.ToLower(msg)
	for _, t := range refusalTexts {
		if strings.Contains(low, t) {
			return "refused", text
		}
	}
	return "other", text
}
