package c18

import (
	"fmt"
	"os"
	"testing"
	"time"

	"github.com/codenotary/immudb/pkg/api/protomodel"
	"github.com/codenotary/immudb/pkg/api/schema"
	"google.golang.org/grpc/metadata"
	"google.golang.org/protobuf/types/known/emptypb"
)

func TestExplore(t *testing.T) {
	dir, _ := os.MkdirTemp("", "c18x")
	defer os.RemoveAll(dir)
	t0 := time.Now()
	e, err := startServer(dir, cfgAuth)
	if err != nil {
		t.Fatal(err)
	}
	fmt.Println("start", time.Since(t0))
	t0 = time.Now()
	if err := e.populate(); err != nil {
		t.Fatal(err)
	}
	fmt.Println("populate", time.Since(t0), e.srv.VerifTxCounts())

	// 1. sysadmin on systemdb: CreateCollection
	md, err := e.openSession(sysUser, sysPass, dbSystem)
	fmt.Println("open systemdb session:", err)
	ctx, c := ctxWith(md)
	_, err = e.doc.CreateCollection(ctx, &protomodel.CreateCollectionRequest{Name: "probe1"})
	fmt.Println("CreateCollection on systemdb:", err, e.srv.VerifTxCounts())
	_, err = e.immu.Set(ctx, &schema.SetRequest{KVs: []*schema.KeyValue{{Key: []byte("k"), Value: []byte("v")}}})
	fmt.Println("Set on systemdb:", err)
	// tx path
	ntx, err := e.immu.NewTx(ctx, &schema.NewTxRequest{Mode: schema.TxMode_ReadWrite})
	fmt.Println("NewTx on systemdb:", err)
	if err == nil {
		tctx := metadata.AppendToOutgoingContext(ctx, "transactionid", ntx.TransactionID)
		_, err = e.immu.TxSQLExec(tctx, &schema.SQLExecRequest{Sql: "CREATE TABLE probe2(id INTEGER, PRIMARY KEY id)"})
		fmt.Println("TxSQLExec create table on systemdb:", err)
		_, err = e.immu.Commit(tctx, &emptypb.Empty{})
		fmt.Println("Commit:", err, e.srv.VerifTxCounts())
	}
	c()

	// 2. token, two logins, deactivate
	t0 = time.Now()
	m1, err := e.login("c18rw", userPass)
	fmt.Println("login", err, time.Since(t0))
	m1, err = e.useDB(m1, dbOwn)
	fmt.Println("usedb", err)
	m2, _ := e.login("c18rw", userPass)
	_ = m2
	sctx, c2 := ctxWith(e.sys())
	_, err = e.immu.SetActiveUser(sctx, &schema.SetActiveUserRequest{Username: "c18rw", Active: false})
	fmt.Println("deactivate:", err)
	c2()
	ctx, c = ctxWith(m1)
	_, err = e.immu.Set(ctx, &schema.SetRequest{KVs: []*schema.KeyValue{{Key: []byte("kx"), Value: []byte("v")}}})
	fmt.Println("Set by deactivated user with 2 logins:", err)
	c()
	// expired token
	x, err := expiredTwin(m1)
	fmt.Println("expired twin", err)
	ctx, c = ctxWith(x)
	_, err = e.immu.Get(ctx, &schema.KeyRequest{Key: []byte("k")})
	fmt.Println("Get with expired token:", err)
	c()
	// session expiry
	smd, _ := e.openSession("c18r", userPass, dbOwn)
	time.Sleep(sessTimeout + 3*guardTick)
	ctx, c = ctxWith(smd)
	_, err = e.immu.Get(ctx, &schema.KeyRequest{Key: []byte("k")})
	fmt.Println("Get with expired session:", err)
	c()
	// R user SQL tx write
	smd, _ = e.openSession("c18r", userPass, dbOwn)
	ctx, c = ctxWith(smd)
	ntx, err = e.immu.NewTx(ctx, &schema.NewTxRequest{Mode: schema.TxMode_ReadWrite})
	fmt.Println("NewTx by R:", err)
	if err == nil {
		tctx := metadata.AppendToOutgoingContext(ctx, "transactionid", ntx.TransactionID)
		_, err = e.immu.TxSQLExec(tctx, &schema.SQLExecRequest{Sql: "INSERT INTO " + tableName + "(v) VALUES (7)"})
		fmt.Println("TxSQLExec insert by R:", err)
		_, err = e.immu.Commit(tctx, &emptypb.Empty{})
		fmt.Println("Commit:", err, e.srv.VerifTxCounts())
	}
	c()
	e.stop()
}
