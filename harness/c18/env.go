// Package c18: access-control matrix (property C18) run against a real in-process ImmuServer,
// reached through its real gRPC interceptor chain over a bufconn listener.
package c18

import (
	"context"
	"encoding/base64"
	"encoding/json"
	"fmt"
	"io"
	"net"
	"os"
	"strconv"
	"strings"
	"time"

	"github.com/codenotary/immudb/embedded/logger"
	"github.com/codenotary/immudb/pkg/api/protomodel"
	"github.com/codenotary/immudb/pkg/api/schema"
	"github.com/codenotary/immudb/pkg/auth"
	"github.com/codenotary/immudb/pkg/server"
	"github.com/codenotary/immudb/pkg/server/sessions"
	"google.golang.org/grpc"
	"google.golang.org/grpc/credentials/insecure"
	"google.golang.org/grpc/metadata"
	"google.golang.org/grpc/test/bufconn"
	"google.golang.org/protobuf/types/known/emptypb"
	"google.golang.org/protobuf/types/known/structpb"
)

const (
	sysUser   = "immudb"
	sysPass   = "immudb"
	userPass  = "Passw0rd!c18"
	dbOwn     = "c18own"
	dbOther   = "c18other"
	dbSystem  = "systemdb"
	dbDefault = "defaultdb"
	collName  = "c18col"
	tableName = "c18t"

	sessTimeout = 1200 * time.Millisecond
	guardTick   = 100 * time.Millisecond
)

type cfgKind int

const (
	cfgAuth cfgKind = iota
	cfgMaint
	cfgOpen
)

var cfgCoq = []string{"CfgAuth", "CfgMaint", "CfgOpen"}

type env struct {
	cfg   cfgKind
	dir   string
	srv   *server.ImmuServer
	lis   *bufconn.Listener
	conn  *grpc.ClientConn
	immu  schema.ImmuServiceClient
	doc   protomodel.DocumentServiceClient
	authz protomodel.AuthorizationServiceClient
	// sysadmin session on dbOwn used for set-up and repair steps (cfgAuth only)
	sysMD metadata.MD
	docID string
	seq   int
}

func silentLogger() logger.Logger {
	return logger.NewSimpleLoggerWithLevel("vh-c18", io.Discard, logger.LogError)
}

// startServer opens (or re-opens) an ImmuServer on dir with the real interceptor chain built by
// ImmuServer.Initialize, listening on an in-memory bufconn listener.
func startServer(dir string, cfg cfgKind) (*env, error) {
	lis := bufconn.Listen(4 << 20)
	so := sessions.DefaultOptions().
		WithSessionGuardCheckInterval(guardTick).
		WithTimeout(sessTimeout).
		WithMaxSessionInactivityTime(sessTimeout).
		WithMaxSessions(100000)
	opts := server.DefaultOptions().
		WithDir(dir).
		WithAuth(cfg == cfgAuth).
		WithMaintenance(cfg == cfgMaint).
		WithListener(lis).
		WithMetricsServer(false).
		WithWebServer(false).
		WithPgsqlServer(false).
		WithLogFormat("json").
		WithSynced(false).
		WithSessionOptions(so)
	srv := server.DefaultServer().WithOptions(opts).WithLogger(silentLogger()).(*server.ImmuServer)
	if err := srv.Initialize(); err != nil {
		return nil, fmt.Errorf("server initialize: %w", err)
	}
	go srv.GrpcServer.Serve(lis)
	if err := srv.SessManager.StartSessionsGuard(); err != nil {
		return nil, err
	}
	conn, err := grpc.Dial("bufconn", grpc.WithContextDialer(func(context.Context, string) (net.Conn, error) { return lis.Dial() }),
		grpc.WithTransportCredentials(insecure.NewCredentials()))
	if err != nil {
		return nil, err
	}
	return &env{cfg: cfg, dir: dir, srv: srv, lis: lis, conn: conn,
		immu:  schema.NewImmuServiceClient(conn),
		doc:   protomodel.NewDocumentServiceClient(conn),
		authz: protomodel.NewAuthorizationServiceClient(conn)}, nil
}

func (e *env) stop() {
	e.conn.Close()
	e.srv.GrpcServer.Stop()
	e.srv.SessManager.StopSessionsGuard()
	e.srv.CloseDatabases()
}

func ctxWith(md metadata.MD) (context.Context, context.CancelFunc) {
	ctx, cancel := context.WithTimeout(context.Background(), 20*time.Second)
	if md != nil {
		ctx = metadata.NewOutgoingContext(ctx, md)
	}
	return ctx, cancel
}

func (e *env) openSession(user, pass, db string) (metadata.MD, error) {
	ctx, cancel := ctxWith(nil)
	defer cancel()
	r, err := e.immu.OpenSession(ctx, &schema.OpenSessionRequest{Username: []byte(user), Password: []byte(pass), DatabaseName: db})
	if err != nil {
		return nil, err
	}
	return metadata.Pairs("sessionid", r.SessionID), nil
}

func (e *env) login(user, pass string) (metadata.MD, error) {
	ctx, cancel := ctxWith(nil)
	defer cancel()
	r, err := e.immu.Login(ctx, &schema.LoginRequest{User: []byte(user), Password: []byte(pass)})
	if err != nil {
		return nil, err
	}
	return metadata.Pairs("authorization", r.Token), nil
}

func (e *env) useDB(md metadata.MD, db string) (metadata.MD, error) {
	ctx, cancel := ctxWith(md)
	defer cancel()
	r, err := e.immu.UseDatabase(ctx, &schema.Database{DatabaseName: db})
	if err != nil {
		return nil, err
	}
	return metadata.Pairs("authorization", r.Token), nil
}

// tokenPayload decodes the public (signed, not encrypted) payload of a PASETO v2.public token
func tokenPayload(tok string) (user string, dbIndex int64, err error) {
	parts := strings.Split(strings.TrimPrefix(tok, "Bearer "), ".")
	if len(parts) < 3 {
		return "", 0, fmt.Errorf("malformed token")
	}
	raw, err := base64.RawURLEncoding.DecodeString(parts[2])
	if err != nil || len(raw) < 64 {
		return "", 0, fmt.Errorf("malformed token payload")
	}
	var m map[string]string
	if err := json.Unmarshal(raw[:len(raw)-64], &m); err != nil {
		return "", 0, err
	}
	idx, _ := strconv.ParseInt(m["database"], 10, 64)
	return m["sub"], idx, nil
}

// expiredTwin returns a token for the same user and database index, signed with the user's live key
// pair, whose expiration time lies in the past.
func expiredTwin(md metadata.MD) (metadata.MD, error) {
	v := md.Get("authorization")
	if len(v) == 0 {
		return nil, fmt.Errorf("no token")
	}
	u, idx, err := tokenPayload(v[0])
	if err != nil {
		return nil, err
	}
	t, err := auth.GenerateToken(auth.User{Username: u}, idx, -5)
	if err != nil {
		return nil, err
	}
	return metadata.Pairs("authorization", t), nil
}

func (e *env) must(what string, err error) error {
	if err != nil {
		return fmt.Errorf("set-up step %q failed: %w", what, err)
	}
	return nil
}

// populate creates (cfgAuth server on a fresh directory) the databases, users, a table, a
// collection and a few keys the matrix refers to.
func (e *env) populate() error {
	md, err := e.openSession(sysUser, sysPass, dbDefault)
	if err != nil {
		return e.must("sysadmin session", err)
	}
	for _, db := range []string{dbOwn, dbOther} {
		ctx, cancel := ctxWith(md)
		_, err := e.immu.CreateDatabaseV2(ctx, &schema.CreateDatabaseRequest{Name: db})
		cancel()
		if err != nil {
			return e.must("create database "+db, err)
		}
	}
	mk := func(md metadata.MD, user string, perm uint32) error {
		ctx, cancel := ctxWith(md)
		defer cancel()
		_, err := e.immu.CreateUser(ctx, &schema.CreateUserRequest{User: []byte(user), Password: []byte(userPass), Permission: perm, Database: dbOwn})
		return err
	}
	for u, p := range map[string]uint32{"c18admin": auth.PermissionAdmin, "c18rw": auth.PermissionRW, "c18r": auth.PermissionR,
		"c18none": auth.PermissionR, "c18victims": auth.PermissionR} {
		if err := mk(md, u, p); err != nil {
			return e.must("create user "+u, err)
		}
	}
	{ // the user without any permission: created with R on the own database, then revoked
		ctx, cancel := ctxWith(md)
		_, err := e.immu.ChangePermission(ctx, &schema.ChangePermissionRequest{Action: schema.PermissionAction_REVOKE, Username: "c18none", Database: dbOwn, Permission: auth.PermissionR})
		cancel()
		if err != nil {
			return e.must("revoke c18none", err)
		}
	}
	amd, err := e.openSession("c18admin", userPass, dbOwn)
	if err != nil {
		return e.must("admin session", err)
	}
	if err := mk(amd, "c18victima", auth.PermissionR); err != nil {
		return e.must("create user c18victima (by the database admin)", err)
	}
	e.closeSession(amd)
	e.closeSession(md)
	// data in every user database
	for _, db := range []string{dbDefault, dbOwn, dbOther} {
		smd, err := e.openSession(sysUser, sysPass, db)
		if err != nil {
			return e.must("sysadmin session on "+db, err)
		}
		ctx, cancel := ctxWith(smd)
		_, err = e.immu.Set(ctx, &schema.SetRequest{KVs: []*schema.KeyValue{{Key: []byte("k"), Value: []byte("v")}, {Key: []byte("k2"), Value: []byte("v2")}}})
		if err == nil {
			_, err = e.immu.SQLExec(ctx, &schema.SQLExecRequest{Sql: "CREATE TABLE IF NOT EXISTS " + tableName + "(id INTEGER AUTO_INCREMENT, v INTEGER, PRIMARY KEY id); INSERT INTO " + tableName + "(v) VALUES (1);"})
		}
		if err == nil {
			_, err = e.doc.CreateCollection(ctx, &protomodel.CreateCollectionRequest{Name: collName,
				Fields: []*protomodel.Field{{Name: "n", Type: protomodel.FieldType_INTEGER}}})
		}
		if err == nil {
			d, _ := structpb.NewStruct(map[string]interface{}{"n": 1})
			var r *protomodel.InsertDocumentsResponse
			r, err = e.doc.InsertDocuments(ctx, &protomodel.InsertDocumentsRequest{CollectionName: collName, Documents: []*structpb.Struct{d}})
			if err == nil && len(r.DocumentIds) > 0 {
				e.docID = r.DocumentIds[0]
			}
		}
		cancel()
		e.closeSession(smd)
		if err != nil {
			return e.must("populate "+db, err)
		}
	}
	return nil
}

func (e *env) closeSession(md metadata.MD) {
	if md == nil || len(md.Get("sessionid")) == 0 {
		return
	}
	ctx, cancel := ctxWith(md)
	defer cancel()
	e.immu.CloseSession(ctx, &emptypb.Empty{})
}

func (e *env) logout(md metadata.MD) {
	if md == nil || len(md.Get("authorization")) == 0 {
		return
	}
	ctx, cancel := ctxWith(md)
	defer cancel()
	e.immu.Logout(ctx, &emptypb.Empty{})
}

// sys returns a live sysadmin session (on the own database) for repair steps
func (e *env) sys() metadata.MD {
	if e.sysMD != nil {
		if ok, _ := e.srv.VerifCredentialsAccepted(e.sysMD); ok {
			return e.sysMD
		}
	}
	md, err := e.openSession(sysUser, sysPass, dbOwn)
	if err != nil {
		fmt.Fprintln(os.Stderr, "c18: cannot open sysadmin session:", err)
		return nil
	}
	e.sysMD = md
	return md
}
